(* Proofs/GroupBalancersRack.v — the in-zone loop of RackAffinityGroupBalancer.assignTopic *)
From Coq Require Import List NArith ZArith Bool Arith Lia Permutation.
From KV Require Import Model.GroupBalancers Proofs.GroupBalancersBase Proofs.GroupBalancersRange
  Proofs.GroupBalancersRackBase.
Import ListNotations.

Lemma perm_juggle {A} (a h b f : list A) : Permutation ((a ++ h) ++ (b ++ f)) ((a ++ b) ++ (h ++ f)).
Proof.
  rewrite <- !app_assoc. apply Permutation_app_head. rewrite !app_assoc.
  apply Permutation_app_tail. apply Permutation_app_comm.
Qed.

Lemma flat_map_ext_in {A B} (f g : A -> list B) l :
  (forall a, In a l -> f a = g a) -> flat_map f l = flat_map g l.
Proof.
  induction l as [|a l IH]; intros H; [reflexivity|]. cbn [flat_map].
  rewrite (H a (or_introl eq_refl)), IH; [reflexivity|]. intros; apply H; right; assumption.
Qed.

Lemma firstn_In_incl {A} n (l : list A) x : In x (firstn n l) -> In x l.
Proof. intros H. rewrite <- (firstn_skipn n l). apply in_or_app. left. exact H. Qed.

Lemma ind_cons c cs k i : ~ In c cs ->
  ind (c :: cs) k i = (if bytes_eq_dec i c then k else 0) + ind cs k i.
Proof.
  intros Hn. unfold ind.
  destruct (in_dec bytes_eq_dec i (c :: cs)) as [[E|Hin]|Hni], (bytes_eq_dec i c) as [E'|N'],
           (in_dec bytes_eq_dec i cs) as [Hin'|Hni']; subst; try lia; try contradiction; try congruence.
  - exfalso. apply Hni. left. reflexivity.
  - exfalso. apply Hni. right. exact Hin'.
Qed.

Lemma ind_nil k i : ind [] k i = 0.
Proof. unfold ind. destruct (in_dec bytes_eq_dec i []) as [[]|]; reflexivity. Qed.

Lemma deal_ok : forall cs ppm parts asg, ppm * length cs <= length parts -> NoDup cs ->
  exists asg1, deal cs ppm parts asg = Some (asg1, skipn (ppm * length cs) parts) /\
    (forall i, Lf asg1 i = Lf asg i + ind cs ppm i) /\
    Permutation (avalues asg1) (avalues asg ++ firstn (ppm * length cs) parts) /\
    (forall k, In k (akeys asg1) -> In k (akeys asg) \/ In k cs) /\
    (NoDup (akeys asg) -> NoDup (akeys asg1)) /\
    (forall i, exists ext, aget i asg1 = aget i asg ++ ext) /\
    Permutation (flat_map (fun c => aget c asg1) cs)
                (flat_map (fun c => aget c asg) cs ++ firstn (ppm * length cs) parts) /\
    (forall i, ~ In i cs -> aget i asg1 = aget i asg).
Proof.
  induction cs as [|c cs IH]; intros ppm parts asg Hlen Hnd.
  - cbn [deal length]. rewrite Nat.mul_0_r. cbn [skipn firstn]. exists asg.
    split; [reflexivity|]. split; [intros i; rewrite ind_nil; lia|].
    split; [rewrite app_nil_r; reflexivity|]. split; [auto|]. split; [auto|].
    split; [intros i; exists []; rewrite app_nil_r; reflexivity|].
    split; [reflexivity|auto].
  - apply NoDup_cons_iff in Hnd. destruct Hnd as [Hc Hnd]. cbn [length] in Hlen.
    cbn [deal]. rewrite take_opt_some by nia.
    set (hd := firstn ppm parts). set (tl := skipn ppm parts).
    assert (Hhd : length hd = ppm) by (unfold hd; rewrite firstn_length; nia).
    assert (Htl : length tl = length parts - ppm) by (unfold tl; apply skipn_length).
    destruct (IH ppm tl (aappend c hd asg)) as [asg1 [E [HL [Hp [Hk [Hn [Hx [Hf Ho]]]]]]]];
      [nia|exact Hnd|].
    exists asg1. cbn [length].
    replace (ppm * S (length cs)) with (ppm + ppm * length cs) by lia.
    split. { rewrite E. unfold tl. rewrite skipn_skipn'. reflexivity. }
    split. { intros i. rewrite HL, Lf_aappend, Hhd, (ind_cons c cs ppm i Hc). lia. }
    split. { rewrite Hp, avalues_aappend, <- app_assoc. unfold hd, tl. rewrite firstn_app_skipn. reflexivity. }
    split. { intros k Hk'. destruct (Hk k Hk') as [H|H]; [|right; right; exact H].
             apply akeys_aappend_incl in H. destruct H as [->|H]; [right; left; reflexivity|left; exact H]. }
    split. { intros H. apply Hn, NoDup_akeys_aappend, H. }
    split. { intros i. destruct (Hx i) as [e1 E1]. destruct (aget_aappend_ext i c hd asg) as [e2 E2].
             exists (e2 ++ e1). rewrite E1, E2, app_assoc. reflexivity. }
    split.
    { cbn [flat_map]. rewrite (Ho c Hc), aget_aappend, bytes_eqb_refl, Hf.
      rewrite (flat_map_ext_in (fun c0 => aget c0 (aappend c hd asg)) (fun c0 => aget c0 asg)).
      - rewrite <- (firstn_app_skipn ppm (ppm * length cs) parts). fold hd tl. apply perm_juggle.
      - intros i Hi. rewrite aget_aappend, bytes_eqb_neq; [reflexivity|]. intros ->. contradiction. }
    intros i Hi. rewrite Ho by (intros H; apply Hi; right; exact H).
    rewrite aget_aappend, bytes_eqb_neq; [reflexivity|]. intros ->. apply Hi. left. reflexivity.
Qed.

Lemma deal_extra_ok : forall n cs parts asg, n <= length cs -> n <= length parts -> NoDup cs ->
  exists asg2, deal_extra n cs parts asg = Some asg2 /\
    (forall i, Lf asg2 i = Lf asg i + ind (firstn n cs) 1 i) /\
    Permutation (avalues asg2) (avalues asg ++ firstn n parts) /\
    (forall k, In k (akeys asg2) -> In k (akeys asg) \/ In k cs) /\
    (NoDup (akeys asg) -> NoDup (akeys asg2)) /\
    (forall i, exists ext, aget i asg2 = aget i asg ++ ext) /\
    Permutation (flat_map (fun c => aget c asg2) cs)
                (flat_map (fun c => aget c asg) cs ++ firstn n parts) /\
    (forall i, ~ In i cs -> aget i asg2 = aget i asg).
Proof.
  induction n as [|n IH]; intros cs parts asg Hn1 Hn2 Hnd.
  - cbn [deal_extra firstn]. exists asg.
    split; [reflexivity|]. split; [intros i; rewrite ind_nil; lia|].
    split; [rewrite app_nil_r; reflexivity|]. split; [auto|]. split; [auto|].
    split; [intros i; exists []; rewrite app_nil_r; reflexivity|].
    split; [rewrite app_nil_r; reflexivity|auto].
  - destruct cs as [|c cs]; [cbn in Hn1; lia|]. destruct parts as [|p ps]; [cbn in Hn2; lia|].
    cbn [length] in Hn1, Hn2. apply NoDup_cons_iff in Hnd. destruct Hnd as [Hc Hnd].
    cbn [deal_extra firstn].
    destruct (IH cs ps (aappend c [p] asg)) as [asg2 [E [HL [Hp [Hk [Hn [Hx [Hf Ho]]]]]]]];
      [lia|lia|exact Hnd|].
    exists asg2.
    assert (Hc' : ~ In c (firstn n cs)) by (intros H; apply Hc; eapply firstn_In_incl; exact H).
    split; [exact E|].
    split. { intros i. rewrite HL, Lf_aappend, (ind_cons c (firstn n cs) 1 i Hc'). cbn [length]. lia. }
    split. { rewrite Hp, avalues_aappend, <- app_assoc. reflexivity. }
    split. { intros k Hk'. destruct (Hk k Hk') as [H|H]; [|right; right; exact H].
             apply akeys_aappend_incl in H. destruct H as [->|H]; [right; left; reflexivity|left; exact H]. }
    split. { intros H. apply Hn, NoDup_akeys_aappend, H. }
    split. { intros i. destruct (Hx i) as [e1 E1]. destruct (aget_aappend_ext i c [p] asg) as [e2 E2].
             exists (e2 ++ e1). rewrite E1, E2, app_assoc. reflexivity. }
    split.
    { cbn [flat_map]. rewrite (Ho c Hc), aget_aappend, bytes_eqb_refl, Hf.
      rewrite (flat_map_ext_in (fun c0 => aget c0 (aappend c [p] asg)) (fun c0 => aget c0 asg)).
      - change (p :: firstn n ps) with ([p] ++ firstn n ps). apply perm_juggle.
      - intros i Hi. rewrite aget_aappend, bytes_eqb_neq; [reflexivity|]. intros ->. contradiction. }
    intros i Hi. rewrite Ho by (intros H; apply Hi; right; exact H).
    rewrite aget_aappend, bytes_eqb_neq; [reflexivity|]. intros ->. apply Hi. left. reflexivity.
Qed.

Lemma NoDup_map_inj {A B} (f : A -> B) l a b :
  NoDup (map f l) -> In a l -> In b l -> f a = f b -> a = b.
Proof.
  induction l as [|x l IH]; cbn [map In]; [tauto|]. intros Hnd Ha Hb E.
  apply NoDup_cons_iff in Hnd. destruct Hnd as [Hx Hnd].
  destruct Ha as [->|Ha], Hb as [->|Hb]; [reflexivity| | |auto].
  - exfalso. apply Hx. rewrite E. apply in_map. exact Hb.
  - exfalso. apply Hx. rewrite <- E. apply in_map. exact Ha.
Qed.

Lemma flat_map_ext_perm {A B} (f f' : A -> list B) cs :
  (forall i, exists ext, f' i = f i ++ ext) ->
  exists more, Permutation (flat_map f' cs) (flat_map f cs ++ more).
Proof.
  intros H. induction cs as [|c cs [more IH]].
  - exists []. reflexivity.
  - destruct (H c) as [ext E]. exists (ext ++ more). cbn [flat_map]. rewrite E, IH.
    apply perm_juggle.
Qed.

Lemma NoDup_firstn {A} n (l : list A) : NoDup l -> NoDup (firstn n l).
Proof.
  revert l. induction n as [|n IH]; intros l H; [constructor|].
  destruct l as [|a l]; [constructor|]. cbn [firstn]. inversion H; subst.
  constructor; [|apply IH; assumption]. intros Hin. apply H2. eapply firstn_In_incl. exact Hin.
Qed.

Section Zone.
Variable mems : list member.
Hypothesis mems_nd : NoDup (map m_id mems).
Variable zp0 : amap Z.
Variables T R P : nat.

Definition zids := map m_id mems.
Definition cs_of (z : bytes) : list bytes := aget z (zoned_consumers mems).

Lemma cs_of_eq z : cs_of z = map m_id (filter (fun m => bytes_eqb (m_userdata m) z) mems).
Proof.
  unfold cs_of, zoned_consumers.
  change (fold_left (fun acc m => aappend (m_userdata m) [m_id m] acc) mems [])
    with (grp m_userdata m_id mems []).
  rewrite aget_grp. reflexivity.
Qed.

Lemma cs_nd z : NoDup (cs_of z).
Proof. rewrite cs_of_eq. apply NoDup_map_filter. exact mems_nd. Qed.

Lemma cs_incl z : incl (cs_of z) zids.
Proof.
  rewrite cs_of_eq. intros c Hc. apply in_map_iff in Hc. destruct Hc as [m [<- Hm]].
  apply filter_In in Hm. apply in_map. tauto.
Qed.

Lemma cs_disj z z' c : In c (cs_of z) -> In c (cs_of z') -> z = z'.
Proof.
  rewrite !cs_of_eq. intros H1 H2.
  apply in_map_iff in H1. destruct H1 as [m1 [E1 H1]]. apply filter_In in H1.
  apply in_map_iff in H2. destruct H2 as [m2 [E2 H2]]. apply filter_In in H2.
  assert (m1 = m2) by (eapply NoDup_map_inj; [exact mems_nd|tauto|tauto|congruence]).
  subst m2. destruct H1 as [_ H1], H2 as [_ H2].
  destruct (bytes_eqb_spec (m_userdata m1) z), (bytes_eqb_spec (m_userdata m1) z'); congruence.
Qed.

Definition aff (z : bytes) (asg : amap Z) : Prop :=
  exists n other, Nat.min (length (aget z zp0)) (length (cs_of z) * T) <= n /\
    Permutation (flat_map (fun c => aget c asg) (cs_of z)) (firstn n (aget z zp0) ++ other).

Lemma aff_ext z asg asg' : aff z asg -> (forall i, exists ext, aget i asg' = aget i asg ++ ext) ->
  aff z asg'.
Proof.
  intros [n [other [Hn Hp]]] Hx.
  destruct (flat_map_ext_perm (fun c => aget c asg) (fun c => aget c asg') (cs_of z) Hx) as [more Hm].
  exists n, (other ++ more). split; [exact Hn|]. rewrite Hm, Hp, app_assoc. reflexivity.
Qed.

Record zinv (todo : list bytes) (st : rstate) : Prop := {
  zi_nd : NoDup (akeys (r_zp st));
  zi_keys : incl (akeys (r_zp st)) (akeys zp0);
  zi_todo : forall z, In z todo ->
     aget z (r_zp st) = aget z zp0 /\ (In z (akeys zp0) -> In z (akeys (r_zp st)));
  zi_tot : tot zids (r_asg st) + length (avalues (r_zp st)) = P;
  zi_over : over zids T (r_asg st) + r_rem st = R;
  zi_le : forall i, In i zids -> Lf (r_asg st) i <= T + 1;
  zi_fresh : forall z c, In z todo -> In c (cs_of z) -> aget c (r_asg st) = [];
  zi_perm : Permutation (avalues (r_asg st) ++ avalues (r_zp st)) (avalues zp0);
  zi_akeys : forall k, In k (akeys (r_asg st)) -> In k zids;
  zi_and : NoDup (akeys (r_asg st));
  zi_aff : forall z, ~ In z todo -> In z (akeys zp0) -> aff z (r_asg st) }.

Lemma zinv_weaken z todo st : zinv (z :: todo) st -> aff z (r_asg st) \/ ~ In z (akeys zp0) ->
  zinv todo st.
Proof.
  intros I Hz. destruct I. constructor; try assumption.
  - intros z' Hz'. apply zi_todo0. right. exact Hz'.
  - intros z' c Hz'. apply zi_fresh0. right. exact Hz'.
  - intros z' Hn Hk. destruct (bytes_eq_dec z' z) as [->|Hne].
    + destruct Hz; [assumption|contradiction].
    + apply zi_aff0; [|exact Hk]. intros [E|E]; [congruence|contradiction].
Qed.

Lemma zone_step_ok z todo st : zinv (z :: todo) st -> ~ In z todo ->
  exists st', zone_step (zoned_consumers mems) T st z = Some st' /\ zinv todo st'.
Proof.
  intros I Hzt. unfold zone_step.
  destruct (amem z (r_zp st)) eqn:Emem; cbn [negb].
  2:{ exists st. split; [reflexivity|]. apply (zinv_weaken z); [exact I|]. right.
      intros Hk. destruct (zi_todo _ _ I z (or_introl eq_refl)) as [_ Hk'].
      apply Hk', amem_iff in Hk. congruence. }
  apply amem_iff in Emem.
  fold (cs_of z). pose proof (cs_nd z) as Hcsnd. pose proof (cs_incl z) as Hcsinc.
  destruct (zi_todo _ _ I z (or_introl eq_refl)) as [Hparts _].
  destruct (cs_of z) as [|c0 cs0] eqn:Ecs.
  { exists st. split; [reflexivity|]. apply (zinv_weaken z); [exact I|]. left.
    exists 0, []. unfold cs_of in *. rewrite Ecs. cbn [length flat_map firstn app]. split; [lia|reflexivity]. }
  cbv iota. set (cs := c0 :: cs0) in *.
  assert (HC : 0 < length cs) by (cbn; lia). clearbody cs.
  set (parts := aget z (r_zp st)) in *. set (C := length cs) in *.
  set (ppm := Nat.min (length parts / C) T).
  assert (Hppm : ppm * C <= length parts).
  { pose proof (Nat.mul_div_le (length parts) C ltac:(lia)). unfold ppm. nia. }
  destruct (deal_ok cs ppm parts (r_asg st) Hppm Hcsnd) as [asg1 [E1 [HL1 [Hp1 [Hk1 [Hn1 [Hx1 [Hf1 Ho1]]]]]]]].
  fold C in E1, Hp1, Hf1. rewrite E1. set (parts1 := skipn (ppm * C) parts) in *.
  assert (Hlen1 : length parts1 = length parts - ppm * C) by (unfold parts1; apply skipn_length).
  set (leftover := if ppm =? T then Nat.min (Nat.min (length parts1) (r_rem st)) C else length parts1).
  set (rem' := if ppm =? T then r_rem st - leftover else r_rem st).
  assert (HLO : leftover <= C /\ leftover <= length parts1 /\
                (ppm = T -> leftover <= r_rem st /\ rem' = r_rem st - leftover) /\
                (ppm <> T -> rem' = r_rem st /\ ppm < T) /\
                Nat.min (length parts) (C * T) <= ppm * C + leftover).
  { unfold leftover, rem'. destruct (Nat.eqb_spec ppm T) as [E|N].
    - repeat split; try lia; intros; try contradiction; try lia.
    - assert (Hq : ppm = length parts / C) by (unfold ppm in *; lia).
      pose proof (Nat.div_mod_eq (length parts) C) as Edm.
      pose proof (Nat.mod_upper_bound (length parts) C ltac:(lia)) as Bm.
      repeat split; try lia; try nia; intros; try contradiction; try nia. }
  destruct HLO as [HLO1 [HLO2 [HLO3 [HLO4 HLO5]]]].
  destruct (deal_extra_ok leftover cs parts1 asg1 HLO1 HLO2 Hcsnd) as [asg2 [E2 [HL2 [Hp2 [Hk2 [Hn2 [Hx2 [Hf2 Ho2]]]]]]]].
  rewrite E2. rewrite (take_opt_some _ _ HLO2).
  set (parts2 := skipn leftover parts1).
  set (zp' := match parts2 with [] => aremove z (r_zp st) | _ :: _ => aset z parts2 (r_zp st) end).
  eexists. split; [reflexivity|].
  (* facts about the new maps *)
  assert (Hzp' : Permutation (avalues zp') (parts2 ++ avalues (aremove z (r_zp st)))).
  { unfold zp'. destruct parts2 eqn:Ep2; [reflexivity|].
    apply avalues_aset; [apply (zi_nd _ _ I)|exact Emem]. }
  assert (Hzp : Permutation (avalues (r_zp st)) (parts ++ avalues (aremove z (r_zp st))))
    by (apply avalues_split; [apply (zi_nd _ _ I)|exact Emem]).
  assert (Hsplit : parts = firstn (ppm * C) parts ++ firstn leftover parts1 ++ parts2).
  { unfold parts2, parts1. rewrite firstn_skipn, firstn_skipn. reflexivity. }
  assert (Hfresh : forall c, In c cs -> Lf (r_asg st) c = 0).
  { intros c Hc. unfold Lf. rewrite <- Ecs in Hc. rewrite (zi_fresh _ _ I z c (or_introl eq_refl) Hc). reflexivity. }
  assert (HL : forall i, Lf asg2 i = Lf (r_asg st) i + ind cs ppm i + ind (firstn leftover cs) 1 i)
    by (intros i; rewrite HL2, HL1; reflexivity).
  assert (Hfl : length (firstn leftover cs) = leftover) by (rewrite firstn_length; fold C; lia).
  assert (Hfnd : NoDup (firstn leftover cs)) by (apply NoDup_firstn; exact Hcsnd).
  assert (Hfinc : incl (firstn leftover cs) zids) by (intros x Hx; apply Hcsinc; eapply firstn_In_incl; exact Hx).
  assert (Hind0 : forall i, ~ In i cs -> ind cs ppm i = 0 /\ ind (firstn leftover cs) 1 i = 0).
  { intros i Hi. unfold ind. destruct (in_dec bytes_eq_dec i cs); [contradiction|].
    destruct (in_dec bytes_eq_dec i (firstn leftover cs)) as [Hin|]; [|auto].
    exfalso. apply Hi. eapply firstn_In_incl. exact Hin. }
  assert (Hind1 : forall i, In i cs -> ind cs ppm i = ppm /\ ind (firstn leftover cs) 1 i <= 1).
  { intros i Hi. unfold ind. destruct (in_dec bytes_eq_dec i cs); [|contradiction].
    destruct (in_dec bytes_eq_dec i (firstn leftover cs)); auto. }
  assert (Htot : tot zids asg2 = tot zids (r_asg st) + ppm * C + leftover).
  { unfold tot. rewrite (sumf_ext_in _ _ _ (fun i _ => HL i)), !sumf_add.
    rewrite (sumf_ind cs ppm zids mems_nd Hcsnd Hcsinc).
    pose proof (sumf_ind (firstn leftover cs) 1 zids mems_nd Hfnd Hfinc) as Hs2. rewrite Hfl in Hs2.
    match goal with |- _ + _ + ?X = _ => replace X with (1 * leftover) by (symmetry; exact Hs2) end.
    fold C. lia. }
  assert (Hover : over zids T asg2 = over zids T (r_asg st) + (if ppm =? T then leftover else 0)).
  { unfold over.
    rewrite (sumf_ext_in _ (fun i => (Lf (r_asg st) i - T) + (if ppm =? T then ind (firstn leftover cs) 1 i else 0))).
    - rewrite sumf_add. f_equal. destruct (ppm =? T).
      + pose proof (sumf_ind (firstn leftover cs) 1 zids mems_nd Hfnd Hfinc) as Hs2. rewrite Hfl in Hs2.
        etransitivity; [exact Hs2|lia].
      + rewrite sumf_const. lia.
    - intros i Hi. rewrite HL. destruct (in_dec bytes_eq_dec i cs) as [Hin|Hni].
      + destruct (Hind1 i Hin) as [-> Hb]. rewrite (Hfresh i Hin).
        destruct (Nat.eqb_spec ppm T) as [E|N]; [lia|]. destruct (HLO4 N). lia.
      + destruct (Hind0 i Hni) as [-> ->]. destruct (ppm =? T); lia. }
  constructor; cbn [r_zp r_asg r_rem]; fold zp'.
  - (* NoDup keys zp' *)
    unfold zp'. destruct parts2; [apply NoDup_akeys_aremove, (zi_nd _ _ I)|].
    rewrite akeys_aset_in by exact Emem. apply (zi_nd _ _ I).
  - intros k Hk. apply (zi_keys _ _ I). unfold zp' in Hk. destruct parts2.
    + eapply akeys_aremove_incl. exact Hk.
    + rewrite akeys_aset_in in Hk by exact Emem. exact Hk.
  - intros z' Hz'. assert (Hne : z' <> z) by (intros ->; contradiction).
    destruct (zi_todo _ _ I z' (or_intror Hz')) as [Ha Hb]. split.
    + rewrite <- Ha. unfold zp'. destruct parts2.
      * rewrite aget_aremove by apply (zi_nd _ _ I). rewrite bytes_eqb_neq by exact Hne. reflexivity.
      * rewrite aget_aset. rewrite bytes_eqb_neq by exact Hne. reflexivity.
    + intros Hk. specialize (Hb Hk). unfold zp'. destruct parts2.
      * apply amem_iff. apply amem_iff in Hb. clear - Hb Hne.
        induction (r_zp st) as [|[k0 l0] r IH]; cbn [amem aremove] in *; [discriminate|].
        destruct (bytes_eqb_spec z k0) as [->|N0].
        -- rewrite bytes_eqb_neq in Hb by exact Hne. exact Hb.
        -- cbn [amem]. destruct (bytes_eqb z' k0); [reflexivity|apply IH; exact Hb].
      * rewrite akeys_aset_in by exact Emem. exact Hb.
  - (* tot *)
    pose proof (zi_tot _ _ I) as Ht. rewrite Htot.
    apply Permutation_length in Hzp', Hzp. rewrite app_length in Hzp', Hzp.
    assert (length parts = ppm * C + leftover + length parts2).
    { unfold parts2. rewrite skipn_length. lia. }
    lia.
  - (* over *)
    pose proof (zi_over _ _ I) as Ho. rewrite Hover. unfold rem'.
    destruct (Nat.eqb_spec ppm T) as [E|N]; [destruct (HLO3 E); lia|lia].
  - (* <= T+1 *)
    intros i Hi. rewrite HL. destruct (in_dec bytes_eq_dec i cs) as [Hin|Hni].
    + destruct (Hind1 i Hin) as [-> Hb]. rewrite (Hfresh i Hin). unfold ppm in *. lia.
    + destruct (Hind0 i Hni) as [-> ->]. pose proof (zi_le _ _ I i Hi). lia.
  - (* fresh *)
    intros z' c Hz' Hc. assert (Hni : ~ In c cs).
    { intros Hin. rewrite <- Ecs in Hin. assert (z = z') by (eapply cs_disj; eassumption). subst z'. contradiction. }
    rewrite Ho2, Ho1 by exact Hni. apply (zi_fresh _ _ I z' c); [right; exact Hz'|exact Hc].
  - (* multiset *)
    rewrite <- (zi_perm _ _ I). rewrite Hzp', Hzp, Hp2, Hp1. rewrite Hsplit at 2.
    fold parts1. rewrite <- !app_assoc. reflexivity.
  - intros k Hk. destruct (Hk2 k Hk) as [H|H]; [|apply Hcsinc; exact H].
    destruct (Hk1 k H) as [H'|H']; [apply (zi_akeys _ _ I); exact H'|apply Hcsinc; exact H'].
  - apply Hn2, Hn1, (zi_and _ _ I).
  - (* affinity *)
    intros z' Hn Hk. destruct (bytes_eq_dec z' z) as [->|Hne].
    + exists (ppm * C + leftover), []. rewrite Ecs. fold C. rewrite <- Hparts. fold parts. split; [lia|].
      rewrite app_nil_r, Hf2, Hf1.
      rewrite (flat_map_ext_in (fun c => aget c (r_asg st)) (fun _ => [])).
      * replace (flat_map (fun _ : bytes => []) cs) with (@nil Z) by (clear; induction cs; auto).
        cbn [app]. unfold parts1. rewrite firstn_app_skipn. reflexivity.
      * intros c Hc. rewrite <- Ecs in Hc. apply (zi_fresh _ _ I z c (or_introl eq_refl) Hc).
    + apply (aff_ext z' (r_asg st)).
      * apply (zi_aff _ _ I); [|exact Hk]. intros [E|E]; [congruence|contradiction].
      * intros i. destruct (Hx1 i) as [e1 Ee1]. destruct (Hx2 i) as [e2 Ee2].
        exists (e1 ++ e2). rewrite Ee2, Ee1, app_assoc. reflexivity.
Qed.

Lemma zone_loop_ok : forall todo st, NoDup todo -> zinv todo st ->
  exists st', zone_loop (zoned_consumers mems) T st todo = Some st' /\ zinv [] st'.
Proof.
  induction todo as [|z todo IH]; intros st Hnd I.
  - exists st. split; [reflexivity|exact I].
  - apply NoDup_cons_iff in Hnd. destruct Hnd as [Hz Hnd].
    destruct (zone_step_ok z todo st I Hz) as [st1 [E1 I1]].
    destruct (IH st1 Hnd I1) as [st2 [E2 I2]].
    exists st2. split; [|exact I2]. cbn [zone_loop]. rewrite E1. exact E2.
Qed.
End Zone.

Lemma flat_map_order_perm {V} (m : amap V) : forall order,
  NoDup (akeys m) -> NoDup order -> incl (akeys m) order ->
  Permutation (flat_map (fun z => aget z m) order) (avalues m).
Proof.
  induction m as [|[k l] r IH]; intros order Hnd Hno Hinc.
  - unfold avalues. cbn [map concat aget].
    induction order as [|z o IHo]; [reflexivity|]. cbn [flat_map app].
    apply IHo; [inversion Hno; assumption|intros x []].
  - unfold akeys in *. cbn [map fst] in Hnd, Hinc. apply NoDup_cons_iff in Hnd. destruct Hnd as [Hk Hnd].
    assert (Hin : In k order) by (apply Hinc; left; reflexivity).
    apply in_split in Hin. destruct Hin as [o1 [o2 ->]].
    assert (Hno' : NoDup (o1 ++ o2)) by (eapply NoDup_remove_1; exact Hno).
    assert (Hk' : ~ In k (o1 ++ o2)) by (eapply NoDup_remove_2; exact Hno).
    assert (Hinc' : incl (map fst r) (o1 ++ o2)).
    { intros x Hx. assert (Hx' : In x (o1 ++ k :: o2)) by (apply Hinc; right; exact Hx).
      rewrite in_app_iff in *. cbn [In] in Hx'. destruct Hx' as [?|[<-|?]]; tauto. }
    specialize (IH (o1 ++ o2) Hnd Hno' Hinc').
    rewrite flat_map_app in *. cbn [flat_map aget]. rewrite bytes_eqb_refl.
    assert (E : forall o, ~ In k o -> flat_map (fun z => aget z ((k, l) :: r)) o = flat_map (fun z => aget z r) o).
    { intros o Ho. apply flat_map_ext_in. intros z Hz. cbn [aget].
      rewrite bytes_eqb_neq; [reflexivity|]. intros ->. contradiction. }
    rewrite !E by (intros H; apply Hk'; apply in_or_app; tauto).
    unfold avalues. cbn [map snd concat]. fold (avalues r). rewrite <- IH.
    rewrite app_assoc. rewrite (Permutation_app_comm _ l). rewrite <- app_assoc. reflexivity.
Qed.

Lemma Lf_nil i : Lf [] i = 0.
Proof. reflexivity. Qed.

Theorem rack_topic_ok zo ro mems parts :
  mems <> [] -> NoDup (map m_id mems) ->
  Permutation zo (zones_of parts) -> Permutation ro (zones_of parts) ->
  let T := length parts / length mems in
  exists r, rack_assign_topic zo ro mems parts = Some r /\
    NoDup (akeys r) /\ incl (akeys r) (map m_id mems) /\
    Permutation (avalues r) (map p_id parts) /\
    (forall i, In i (map m_id mems) -> T <= length (aget i r) <= T + 1) /\
    (forall z, aff mems (zoned_partitions parts) T z r).
Proof.
  intros Hne Hnd Hzo Hro T.
  set (ids := map m_id mems). set (zp0 := zoned_partitions parts).
  set (R := length parts mod length mems). set (P := length parts).
  assert (HM : 0 < length mems) by (destruct mems; [congruence|cbn; lia]).
  assert (HMi : length ids = length mems) by apply map_length.
  assert (Hzp0nd : NoDup (akeys zp0)).
  { unfold zp0, zoned_partitions.
    change (fold_left (fun acc p => aappend (p_rack p) [p_id p] acc) parts [])
      with (grp p_rack p_id parts []). apply NoDup_akeys_grp. constructor. }
  assert (Hzp0v : Permutation (avalues zp0) (map p_id parts)).
  { unfold zp0, zoned_partitions.
    change (fold_left (fun acc p => aappend (p_rack p) [p_id p] acc) parts [])
      with (grp p_rack p_id parts []). apply (avalues_grp p_rack p_id parts []). }
  assert (Htot0 : tot ids [] = 0).
  { unfold tot. rewrite (sumf_ext_in _ (fun _ => 0)) by (intros; reflexivity). rewrite sumf_const. lia. }
  assert (Hover0 : over ids T [] = 0).
  { unfold over. rewrite (sumf_ext_in _ (fun _ => 0)) by (intros; reflexivity). rewrite sumf_const. lia. }
  assert (I0 : zinv mems zp0 T R P zo {| r_zp := zp0; r_asg := []; r_rem := R |}).
  { constructor; cbn [r_zp r_asg r_rem].
    - exact Hzp0nd.
    - apply incl_refl.
    - intros z _. auto.
    - change (tot ids [] + length (avalues zp0) = P). rewrite Htot0.
      apply Permutation_length in Hzp0v. rewrite map_length in Hzp0v. cbn. exact Hzp0v.
    - change (over ids T [] + R = R). rewrite Hover0. reflexivity.
    - intros i _. rewrite Lf_nil. lia.
    - reflexivity.
    - reflexivity.
    - intros k [].
    - constructor.
    - intros z Hn Hk. exfalso. apply Hn. eapply Permutation_in; [apply Permutation_sym; exact Hzo|exact Hk]. }
  assert (Hzond : NoDup zo) by (eapply Permutation_NoDup; [apply Permutation_sym; exact Hzo|exact Hzp0nd]).
  assert (Hrond : NoDup ro) by (eapply Permutation_NoDup; [apply Permutation_sym; exact Hro|exact Hzp0nd]).
  destruct (zone_loop_ok mems Hnd zp0 T R P zo _ Hzond I0) as [st1 [E1 I1]].
  unfold rack_assign_topic. destruct mems as [|m0 mems']; [congruence|].
  set (mems := m0 :: mems') in *. fold zp0. fold T. fold R. rewrite E1.
  set (remaining := flat_map (fun z => aget z (r_zp st1)) ro).
  assert (Hremp : Permutation remaining (avalues (r_zp st1))).
  { apply flat_map_order_perm; [apply (zi_nd _ _ _ _ _ _ _ I1)|exact Hrond|].
    intros x Hx. eapply Permutation_in; [apply Permutation_sym; exact Hro|].
    apply (zi_keys _ _ _ _ _ _ _ I1). exact Hx. }
  assert (HPMR : P = length ids * T + R).
  { rewrite HMi. unfold P, T, R. apply Nat.div_mod_eq. }
  assert (HRM : R < length ids) by (rewrite HMi; apply Nat.mod_upper_bound; lia).
  destruct (hand_out_ok ids Hnd T R P HPMR HRM mems (r_asg st1) remaining (r_rem st1)) as
    [r [E [Hp [Hb [Hk [Hn Hx]]]]]].
  - exact Hnd.
  - apply incl_refl.
  - rewrite (Permutation_length Hremp). apply (zi_tot _ _ _ _ _ _ _ I1).
  - apply (zi_over _ _ _ _ _ _ _ I1).
  - apply (zi_le _ _ _ _ _ _ _ I1).
  - intros i Hi Hni. contradiction.
  - pose proof (zi_over _ _ _ _ _ _ _ I1) as Ho.
    assert (Hc : cnt_le T (r_asg st1) ids + over ids T (r_asg st1) = length ids).
    { unfold cnt_le, over. rewrite <- sumf_add.
      rewrite (sumf_ext_in _ (fun _ => 1)); [rewrite sumf_const; lia|].
      intros i Hi. pose proof (zi_le _ _ _ _ _ _ _ I1 i Hi).
      destruct (Nat.leb_spec (Lf (r_asg st1) i) T); lia. }
    change (over ids T (r_asg st1) + r_rem st1 = R) in Ho.
    change (r_rem st1 <= cnt_le T (r_asg st1) ids). lia.
  - exists r. split; [exact E|]. split; [apply Hn, (zi_and _ _ _ _ _ _ _ I1)|].
    split. { intros k Hk'. destruct (Hk k Hk') as [H|H]; [apply (zi_akeys _ _ _ _ _ _ _ I1); exact H|exact H]. }
    split. { rewrite Hp, Hremp, (zi_perm _ _ _ _ _ _ _ I1). exact Hzp0v. }
    split. { exact Hb. }
    intros z. destruct (in_dec bytes_eq_dec z (akeys zp0)) as [Hk'|Hk'].
    + apply (aff_ext mems zp0 T z (r_asg st1)); [|exact Hx].
      apply (zi_aff _ _ _ _ _ _ _ I1); [intros []|exact Hk'].
    + exists 0, (flat_map (fun c => aget c r) (cs_of mems z)).
      rewrite (aget_notin z zp0 Hk'). cbn [length firstn app]. split; [lia|reflexivity].
Qed.
