(* Proofs/ReaderV2.v — C02, L1: the v2 batch header and the v2 record as the specification
   encodes them are decoded by the model's readNextHeader / readMessageV2 to the stored
   values; on every proper prefix (a response cut at the byte limit) they report
   errShortRead and leave the bookkeeping untouched. *)
From Coq Require Import List NArith ZArith Bool Lia.
From Coq Require Import ZifyN ZifyNat ZifyBool.
From KV Require Import Lib.Bits Lib.Bytes Lib.Varint Model.MsgSetReader Spec.FetchSpec Proofs.ReaderPrim.
Import ListNotations.
Open Scope Z_scope.

(* sizes fit the wire format *)
Definition hdr_fits (h : list N * list N) : Prop := blen (fst h) < 2 ^ 30 /\ blen (snd h) < 2 ^ 30.
Definition rec_fits (r : record) : Prop :=
  small (r_off r) /\ small (r_ts r)
  /\ blen (opt_bytes (r_key r)) < 2 ^ 30 /\ blen (opt_bytes (r_val r)) < 2 ^ 30
  /\ Z.of_nat (length (r_hdrs r)) < 2 ^ 30 /\ Forall hdr_fits (r_hdrs r).

Lemma blen_len l : blen l = len l.
Proof. reflexivity. Qed.

Lemma vsmall_of_small a b : small a -> small b -> vsmall (a - b).
Proof. unfold small, vsmall. lia. Qed.
Lemma vsmall_len z : -1 <= z < 2 ^ 31 -> vsmall z.
Proof. unfold vsmall. lia. Qed.

Lemma wrap64_small z : - 2 ^ 63 <= z < 2 ^ 63 -> wrap64 z = z.
Proof.
  intros H. unfold wrap64, ZM63, ZM64. rewrite Z.mod_small; lia.
Qed.

(* ---------------------------------------------------------------- a length-prefixed byte string *)
Definition rd_vbytes : M (list N) := kl <- lift p_varint ;; lift (p_newbytes kl).

Lemma mspec_vbytes o : blen (opt_bytes o) < 2 ^ 30 -> mspec rd_vbytes (vbytes o) (opt_bytes o).
Proof.
  intros Hl. unfold rd_vbytes, vbytes. destruct o as [b|]; cbn [opt_bytes] in *.
  - apply mspec_bind with (v1 := blen b).
    + apply mspec_lift, pspec_varint, vsmall_len. unfold blen in *; lia.
    + apply mspec_lift. rewrite blen_len. apply pspec_newbytes.
  - rewrite <- (app_nil_r (put_varint (-1))). apply mspec_bind with (v1 := -1).
    + apply mspec_lift, pspec_varint, vsmall_len. lia.
    + apply mspec_lift, pspec_newbytes_null. lia.
Qed.

Lemma mshort_vbytes o : blen (opt_bytes o) < 2 ^ 30 -> mshort rd_vbytes (vbytes o).
Proof.
  intros Hl. unfold rd_vbytes, vbytes. destruct o as [b|]; cbn [opt_bytes] in *.
  - apply mshort_bind with (v1 := blen b).
    + apply mspec_lift, pspec_varint, vsmall_len. unfold blen in *; lia.
    + apply mshort_lift, pshort_varint, vsmall_len. unfold blen in *; lia.
    + apply mshort_lift. rewrite blen_len. apply pshort_newbytes.
  - rewrite <- (app_nil_r (put_varint (-1))). apply mshort_bind with (v1 := -1).
    + apply mspec_lift, pspec_varint, vsmall_len. lia.
    + apply mshort_lift, pshort_varint, vsmall_len. lia.
    + apply mshort_nil.
Qed.

(* ---------------------------------------------------------------- record headers *)
Lemma put_varint_nonempty z : put_varint z <> [].
Proof.
  unfold put_varint, put_uvarint. generalize (zigzag z mod M64)%N. intros x.
  cbn [uvarint_enc]. destruct (x <? 128)%N; discriminate.
Qed.

Lemma enc_rec_header_len h : 2 <= len (enc_rec_header h).
Proof.
  unfold enc_rec_header. rewrite !len_app.
  pose proof (len_pos _ (put_varint_nonempty (blen (fst h)))).
  pose proof (len_pos _ (put_varint_nonempty (blen (snd h)))).
  pose proof (len_nonneg (fst h)). pose proof (len_nonneg (snd h)). lia.
Qed.

Definition rd_one_header : M (list N * list N) :=
  kl <- lift p_varint ;; k <- lift (p_newbytes kl) ;; vl <- lift p_varint ;; v <- lift (p_newbytes vl) ;; ret (k, v).

Lemma hdr_vs h : hdr_fits h -> vsmall (blen (fst h)) /\ vsmall (blen (snd h)).
Proof.
  intros [H1 H2]. split; apply vsmall_len; unfold blen in *; lia.
Qed.

Lemma mspec_one_header h : hdr_fits h -> mspec rd_one_header (enc_rec_header h) h.
Proof.
  intros Hf. destruct (hdr_vs h Hf) as [V1 V2]. unfold rd_one_header, enc_rec_header.
  replace (put_varint (blen (fst h)) ++ fst h ++ put_varint (blen (snd h)) ++ snd h)
    with (put_varint (blen (fst h)) ++ fst h ++ put_varint (blen (snd h)) ++ snd h ++ [])
    by (rewrite app_nil_r; reflexivity).
  apply mspec_bind with (v1 := blen (fst h)); [apply mspec_lift, pspec_varint, V1|].
  apply mspec_bind with (v1 := fst h); [apply mspec_lift; rewrite blen_len; apply pspec_newbytes|].
  apply mspec_bind with (v1 := blen (snd h)); [apply mspec_lift, pspec_varint, V2|].
  apply mspec_bind with (v1 := snd h); [apply mspec_lift; rewrite blen_len; apply pspec_newbytes|].
  destruct h. apply mspec_ret.
Qed.

Lemma mshort_one_header h : hdr_fits h -> mshort rd_one_header (enc_rec_header h).
Proof.
  intros Hf. destruct (hdr_vs h Hf) as [V1 V2]. unfold rd_one_header, enc_rec_header.
  replace (put_varint (blen (fst h)) ++ fst h ++ put_varint (blen (snd h)) ++ snd h)
    with (put_varint (blen (fst h)) ++ fst h ++ put_varint (blen (snd h)) ++ snd h ++ [])
    by (rewrite app_nil_r; reflexivity).
  apply mshort_bind with (v1 := blen (fst h));
    [apply mspec_lift, pspec_varint, V1|apply mshort_lift, pshort_varint, V1|].
  apply mshort_bind with (v1 := fst h);
    [apply mspec_lift; rewrite blen_len; apply pspec_newbytes|apply mshort_lift; rewrite blen_len; apply pshort_newbytes|].
  apply mshort_bind with (v1 := blen (snd h));
    [apply mspec_lift, pspec_varint, V2|apply mshort_lift, pshort_varint, V2|].
  apply mshort_bind with (v1 := snd h);
    [apply mspec_lift; rewrite blen_len; apply pspec_newbytes|apply mshort_lift; rewrite blen_len; apply pshort_newbytes|].
  apply mshort_nil.
Qed.

(* the loop, stated pointwise to avoid extensionality *)
Lemma read_rec_headers_S n m :
  read_rec_headers (S n) m =
  match rd_one_header m with
  | MOk h m1 => match read_rec_headers n m1 with
                | MOk rest m2 => MOk (h :: rest) m2
                | MErr e m2 => MErr e m2
                | MPanic => MPanic
                end
  | MErr e m1 => MErr e m1
  | MPanic => MPanic
  end.
Proof.
  cbn [read_rec_headers]. unfold rd_one_header, bind, ret.
  destruct (lift p_varint m) as [kl m1|e m1|]; [|reflexivity|reflexivity].
  destruct (lift (p_newbytes kl) m1) as [k m2|e m2|]; [|reflexivity|reflexivity].
  destruct (lift p_varint m2) as [vl m3|e m3|]; [|reflexivity|reflexivity].
  destruct (lift (p_newbytes vl) m3) as [v m4|e m4|]; [|reflexivity|reflexivity].
  destruct (read_rec_headers n m4); reflexivity.
Qed.

Lemma mspec_headers hs : Forall hdr_fits hs ->
  mspec (read_rec_headers (length hs)) (flat_map enc_rec_header hs) hs.
Proof.
  induction hs as [|h t IH]; intros Hf.
  - apply mspec_ret.
  - apply Forall_cons_iff in Hf as [Hh Ht]. cbn [length flat_map].
    intros m f ps rest Hex. rewrite read_rec_headers_S.
    rewrite <- app_assoc in Hex.
    rewrite (mspec_one_header h Hh m f ps _ Hex).
    rewrite (IH Ht _ _ ps rest (with_in_exact m f ps _)). rewrite with_in_with_in. reflexivity.
Qed.

Lemma prefix_split (a b q q' : list N) : a ++ b = q ++ q' ->
  (exists r, a = q ++ r /\ r <> [] /\ q' = r ++ b) \/ (exists q2, q = a ++ q2 /\ b = q2 ++ q').
Proof.
  revert q. induction a as [|x a IH]; intros q He.
  - right. exists q. split; [reflexivity|exact He].
  - destruct q as [|y q].
    + left. exists (x :: a). cbn in He. split; [reflexivity|]. split; [discriminate|]. symmetry. exact He.
    + cbn in He. injection He as -> He. destruct (IH q He) as [(r & H1 & H2 & H3)|(q2 & H1 & H2)].
      * left. exists r. subst a. auto.
      * right. exists q2. subst q. auto.
Qed.

Lemma mshort_headers hs : Forall hdr_fits hs -> forall n m f ps q q',
  top_exact m f ps q -> flat_map enc_rec_header hs = q ++ q' -> q' <> [] ->
  ((length hs <= n)%nat \/ len q < Z.of_nat n) ->
  exists i', read_rec_headers n m = MErr EShort (with_in m f ps i').
Proof.
  induction hs as [|h t IH]; intros Hf n m f ps q q' Hex He Hq Hn.
  - destruct q; destruct q'; try discriminate He. contradiction.
  - apply Forall_cons_iff in Hf as [Hh Ht]. cbn [flat_map] in He.
    destruct n as [|n].
    { exfalso. pose proof (len_nonneg q). cbn [length] in Hn. lia. }
    rewrite read_rec_headers_S.
    destruct (prefix_split _ _ _ _ He) as [(r & H1 & H2 & H3)|(q2 & H1 & H2)].
    + destruct (mshort_one_header h Hh m f ps q r Hex H1 H2) as [i' Hi']. rewrite Hi'. exists i'. reflexivity.
    + subst q. rewrite (mspec_one_header h Hh m f ps q2 Hex).
      destruct (IH Ht n _ _ ps q2 q' (with_in_exact m f ps q2) H2 Hq) as [i' Hi'].
      * pose proof (enc_rec_header_len h). rewrite len_app in Hn. cbn [length] in Hn.
        destruct Hn as [Hn|Hn]; [left; lia|right; lia].
      * rewrite Hi'. exists i'. rewrite with_in_with_in. reflexivity.
Qed.

Lemma headers_len hs : Z.of_nat (length hs) <= len (flat_map enc_rec_header hs).
Proof.
  induction hs as [|h t IH]; [unfold len; cbn; lia|].
  cbn [length flat_map]. rewrite len_app. pose proof (enc_rec_header_len h). lia.
Qed.

(* ---------------------------------------------------------------- single-frame states *)
Definition st (i : list N) (c : Z) (h : hdr) (lr el : Z) : msr :=
  mkMsr [mkFrame i (len i) 0 c h] false lr el.

Lemma st_exact i c h lr el : top_exact (st i c h lr el) (mkFrame i (len i) 0 c h) [] i.
Proof. unfold top_exact, st. cbn. auto. Qed.

Lemma st_with_in i j c h lr el : with_in (st i c h lr el) (mkFrame i (len i) 0 c h) [] j = st j c h lr el.
Proof. reflexivity. Qed.

Lemma step_st {A B} (c : M A) (k : A -> M B) bs v rest cc h lr el :
  mspec c bs v -> bind c k (st (bs ++ rest) cc h lr el) = k v (st rest cc h lr el).
Proof.
  intros H. unfold bind. rewrite (H _ _ [] rest (st_exact (bs ++ rest) cc h lr el)).
  rewrite st_with_in. reflexivity.
Qed.

Lemma top_st {B} (k : frame -> M B) i cc h lr el :
  bind top k (st i cc h lr el) = k (mkFrame i (len i) 0 cc h) (st i cc h lr el).
Proof. reflexivity. Qed.

Lemma mshort_st {A} (c : M A) bs q q' cc h lr el :
  mshort c bs -> bs = q ++ q' -> q' <> [] -> exists i', c (st q cc h lr el) = MErr EShort (st i' cc h lr el).
Proof.
  intros H He Hq. destruct (H _ _ [] q q' (st_exact q cc h lr el) He Hq) as [i' Hi'].
  exists i'. rewrite Hi', st_with_in. reflexivity.
Qed.

(* a current frame over parent frames (a decompressed record set over the response) *)
Definition stp (ps : list frame) (bse : Z) (i : list N) (c : Z) (h : hdr) (lr el : Z) : msr :=
  mkMsr (mkFrame i (len i) bse c h :: ps) false lr el.

Lemma stp_exact ps bse i c h lr el : top_exact (stp ps bse i c h lr el) (mkFrame i (len i) bse c h) ps i.
Proof. unfold top_exact, stp. cbn. auto. Qed.

Lemma step_stp {A B} (c : M A) (k : A -> M B) bs v rest ps bse cc h lr el :
  mspec c bs v -> bind c k (stp ps bse (bs ++ rest) cc h lr el) = k v (stp ps bse rest cc h lr el).
Proof.
  intros H. unfold bind. rewrite (H _ _ ps rest (stp_exact ps bse (bs ++ rest) cc h lr el)). reflexivity.
Qed.

Lemma top_stp {B} (k : frame -> M B) ps bse i cc h lr el :
  bind top k (stp ps bse i cc h lr el) = k (mkFrame i (len i) bse cc h) (stp ps bse i cc h lr el).
Proof. reflexivity. Qed.

Lemma mshort_stp {A} (c : M A) bs q q' ps bse cc h lr el :
  mshort c bs -> bs = q ++ q' -> q' <> [] ->
  exists i', c (stp ps bse q cc h lr el) = MErr EShort (stp ps bse i' cc h lr el).
Proof.
  intros H He Hq. destruct (H _ _ ps q q' (stp_exact ps bse q cc h lr el) He Hq) as [i' Hi'].
  exists i'. rewrite Hi'. reflexivity.
Qed.

(* ---------------------------------------------------------------- one v2 record *)
Definition vhdr (b : pbatch) (plen : Z) : hdr :=
  mkHdr (pb_base b) (49 + plen) 2 (pb_codec b) (pb_ts b) (pb_lod b) (Z.of_nat (length (pb_recs b))).

Lemma rec_vs base ts0 r : rec_fits r -> small base -> small ts0 ->
  vsmall (r_ts r - ts0) /\ vsmall (r_off r - base) /\ vsmall (Z.of_nat (length (r_hdrs r))).
Proof.
  intros (H1 & H2 & _ & _ & H5 & _) Hb Ht. repeat split; unfold small, vsmall in *; lia.
Qed.

Lemma body_len base ts0 r : rec_fits r -> 0 < blen (enc_record_body base ts0 r).
Proof.
  intros _. unfold enc_record_body, i8, blen. rewrite app_length.
  assert (length (put_bes 1 0) = 1%nat) by (unfold put_bes; apply put_be_length). lia.
Qed.

Definition msg_fields (base lod : Z) (r : record) :=
  (r_off r, base + lod, r_ts r, opt_bytes (r_key r), opt_bytes (r_val r), r_hdrs r).

Lemma record_ok_g ps bse base ts0 lod L attr n r rest c lr el :
  rec_fits r -> small base -> small ts0 -> 0 <= lod < 2 ^ 31 -> 0 < c ->
  blen (enc_record_body base ts0 r) < 2 ^ 31 ->
  let h := mkHdr base L 2 attr ts0 lod n in
  read_v2_record (stp ps bse (enc_record base ts0 r ++ rest) c h lr el)
  = MOk (msg_fields base lod r)
        (mkMsr (unwind (mkFrame rest (len rest) bse (c - 1) h :: ps)) false (lr - len (enc_record base ts0 r)) el).
Proof.
  intros Hf Hb Ht Hlod Hc Hbl h.
  destruct (rec_vs base ts0 r Hf Hb Ht) as (V1 & V2 & V3).
  destruct Hf as (F1 & F2 & F3 & F4 & F5 & F6).
  unfold read_v2_record, enc_record, enc_record_body in *. cbv zeta in *.
  set (body := i8 0 ++ put_varint (r_ts r - ts0) ++ put_varint (r_off r - base) ++ vbytes (r_key r)
               ++ vbytes (r_val r) ++ put_varint (Z.of_nat (length (r_hdrs r))) ++ flat_map enc_rec_header (r_hdrs r)) in *.
  assert (VL : vsmall (blen body)) by (pose proof (len_nonneg body); apply vsmall_len; unfold blen, len in *; lia).
  rewrite top_stp. rewrite <- (app_assoc (put_varint (blen body)) body rest).
  rewrite (step_stp _ _ _ _ _ _ _ _ _ _ _ (mspec_lift _ _ _ (pspec_varint _ VL))).
  rewrite top_stp. cbv zeta. cbn [f_remain].
  subst body. rewrite <- !app_assoc.
  rewrite (step_stp _ _ (i8 0) 0) by (apply mspec_lift, pspec_int; [lia|unfold in_signed; cbn; lia]).
  rewrite (step_stp _ _ _ _ _ _ _ _ _ _ _ (mspec_lift _ _ _ (pspec_varint _ V1))).
  rewrite (step_stp _ _ _ _ _ _ _ _ _ _ _ (mspec_lift _ _ _ (pspec_varint _ V2))).
  rewrite (step_stp _ _ _ _ _ _ _ _ _ _ _ (mspec_vbytes _ F3)).
  rewrite (step_stp _ _ _ _ _ _ _ _ _ _ _ (mspec_vbytes _ F4)).
  rewrite (step_stp _ _ _ _ _ _ _ _ _ _ _ (mspec_lift _ _ _ (pspec_varint _ V3))).
  rewrite top_stp. cbn [f_remain].
  assert (Hn : Z.to_nat (Z.min (Z.of_nat (length (r_hdrs r))) (len (flat_map enc_rec_header (r_hdrs r) ++ rest) + 1))
               = length (r_hdrs r)).
  { rewrite len_app. pose proof (headers_len (r_hdrs r)). pose proof (len_nonneg rest). lia. }
  rewrite Hn.
  rewrite (step_stp _ _ _ _ _ _ _ _ _ _ _ (mspec_headers _ F6)).
  rewrite top_stp. cbn [f_hdr]. unfold bind at 1, get_lrem. cbn [m_lrem stp].
  unfold bind at 1, set_lrem. unfold bind at 1, mark_read. cbn [m_stack stp f_count].
  replace (c =? 0) with false by lia. unfold ret, msg_fields, h. cbn [h_first h_lod h_ts m_stack m_empty m_elast set_stack unwind f_in f_remain f_base f_count f_hdr].
  unfold small in *.
  rewrite !wrap64_small by lia.
  unfold stp, set_stack. cbn [m_stack m_empty m_lrem m_elast f_in f_remain f_base f_count f_hdr].
  f_equal.
  - repeat f_equal; lia.
  - f_equal. rewrite !len_app. unfold blen, len. lia.
Qed.

Lemma record_ok base ts0 lod L attr n r rest c lr el :
  rec_fits r -> small base -> small ts0 -> 0 <= lod < 2 ^ 31 -> 0 < c ->
  blen (enc_record_body base ts0 r) < 2 ^ 31 ->
  let h := mkHdr base L 2 attr ts0 lod n in
  read_v2_record (st (enc_record base ts0 r ++ rest) c h lr el)
  = MOk (msg_fields base lod r) (st rest (c - 1) h (lr - len (enc_record base ts0 r)) el).
Proof.
  intros. apply (record_ok_g [] 0); assumption.
Qed.


Lemma record_short base ts0 lod L attr n r q q' c lr el :
  rec_fits r -> small base -> small ts0 ->
  blen (enc_record_body base ts0 r) < 2 ^ 31 ->
  enc_record base ts0 r = q ++ q' -> q' <> [] ->
  let h := mkHdr base L 2 attr ts0 lod n in
  exists i', read_v2_record (st q c h lr el) = MErr EShort (st i' c h lr el).
Proof.
  intros Hf Hb Ht Hbl He Hq h.
  destruct (rec_vs base ts0 r Hf Hb Ht) as (V1 & V2 & V3).
  destruct Hf as (F1 & F2 & F3 & F4 & F5 & F6).
  assert (VL : vsmall (blen (enc_record_body base ts0 r)))
    by (pose proof (len_nonneg (enc_record_body base ts0 r)); apply vsmall_len; unfold blen, len in *; lia).
  eapply (mshort_st read_v2_record (enc_record base ts0 r)); [|exact He|exact Hq].
  unfold read_v2_record, enc_record, enc_record_body.
  apply mshort_top. intros f0.
  apply mshort_bind with (v1 := blen (enc_record_body base ts0 r));
    [apply mspec_lift, pspec_varint, VL|apply mshort_lift, pshort_varint, VL|].
  apply mshort_top. intros f1. cbv zeta.
  apply mshort_bind with (v1 := 0);
    [apply mspec_lift, pspec_int; [lia|unfold in_signed; cbn; lia]|apply mshort_lift, pshort_int; reflexivity|].
  apply mshort_bind with (v1 := r_ts r - ts0);
    [apply mspec_lift, pspec_varint, V1|apply mshort_lift, pshort_varint, V1|].
  apply mshort_bind with (v1 := r_off r - base);
    [apply mspec_lift, pspec_varint, V2|apply mshort_lift, pshort_varint, V2|].
  apply mshort_bind with (v1 := opt_bytes (r_key r)); [apply mspec_vbytes, F3|apply mshort_vbytes, F3|].
  apply mshort_bind with (v1 := opt_bytes (r_val r)); [apply mspec_vbytes, F4|apply mshort_vbytes, F4|].
  apply mshort_bind with (v1 := Z.of_nat (length (r_hdrs r)));
    [apply mspec_lift, pspec_varint, V3|apply mshort_lift, pshort_varint, V3|].
  (* the header loop runs on the actual frame *)
  intros m f ps q0 q0' Hex He0 Hq0. unfold bind at 1, top. pose proof Hex as (Hs & Hi & Hr). rewrite Hs.
  unfold bind at 1.
  destruct (mshort_headers (r_hdrs r) F6
              (Z.to_nat (Z.min (Z.of_nat (length (r_hdrs r))) (f_remain f + 1))) m f ps q0 q0' Hex He0 Hq0) as [i' Hi'].
  { rewrite Hr. pose proof (len_nonneg q0). lia. }
  rewrite Hi'. exists i'. reflexivity.
Qed.

(* ---------------------------------------------------------------- the v2 batch header *)
Definition hdr61 (b : pbatch) (plen : Z) : list N :=
  i64 (pb_base b) ++ i32 (49 + plen) ++ i32 0 ++ i8 2 ++ i32 0
  ++ i16 (pb_codec b) ++ i32 (pb_lod b) ++ i64 (pb_ts b) ++ i64 (pb_ts b)
  ++ i64 (-1) ++ i16 (-1) ++ i32 (-1) ++ i32 (Z.of_nat (length (pb_recs b))) ++ [].

Lemma hdr61_len b plen : len (hdr61 b plen) = 61.
Proof. unfold hdr61, i64, i32, i16, i8. rewrite !len_app, !put_bes_len. reflexivity. Qed.

Definition batch_fits (b : pbatch) (plen : Z) : Prop :=
  small (pb_base b) /\ 0 <= plen < 2 ^ 30 /\ 0 <= pb_codec b <= 4 /\ 0 <= pb_lod b < 2 ^ 31
  /\ small (pb_ts b) /\ Z.of_nat (length (pb_recs b)) < 2 ^ 30.

Lemma sg1 z : - 2 ^ 7 <= z < 2 ^ 7 -> in_signed 1 z.
Proof. unfold in_signed. change (Z.of_N (pow256 1 / 2)) with (2 ^ 7). lia. Qed.
Lemma sg2 z : - 2 ^ 15 <= z < 2 ^ 15 -> in_signed 2 z.
Proof. unfold in_signed. change (Z.of_N (pow256 2 / 2)) with (2 ^ 15). lia. Qed.
Lemma sg4 z : - 2 ^ 31 <= z < 2 ^ 31 -> in_signed 4 z.
Proof. unfold in_signed. change (Z.of_N (pow256 4 / 2)) with (2 ^ 31). lia. Qed.
Lemma sg8 z : - 2 ^ 63 <= z < 2 ^ 63 -> in_signed 8 z.
Proof. unfold in_signed. change (Z.of_N (pow256 8 / 2)) with (2 ^ 63). lia. Qed.

Ltac int_spec := apply mspec_lift, pspec_int; [lia|first [apply sg1|apply sg2|apply sg4|apply sg8]; unfold small in *; lia].
Ltac int_short := apply mshort_lift, pshort_int; unfold i64, i32, i16, i8; rewrite put_bes_len; reflexivity.

Lemma header_ok b plen rest c h lr el :
  batch_fits b plen ->
  read_next_header (st (hdr61 b plen ++ rest) c h lr el)
  = MOk tt (st rest (Z.of_nat (length (pb_recs b))) (vhdr b plen) plen
               (if Z.of_nat (length (pb_recs b)) =? 0 then pb_base b + pb_lod b else el)).
Proof.
  intros (B1 & B2 & B3 & B4 & B5 & B6).
  unfold read_next_header, hdr61. rewrite <- !app_assoc.
  rewrite (step_st _ _ (i64 (pb_base b)) (pb_base b)) by int_spec.
  rewrite (step_st _ _ (i32 (49 + plen)) (49 + plen)) by int_spec.
  rewrite (step_st _ _ (i32 0) 0) by int_spec.
  rewrite (step_st _ _ (i8 2) 2) by int_spec.
  cbn [Z.eqb Pos.eqb].
  rewrite (step_st _ _ (i32 0) 0) by int_spec.
  rewrite (step_st _ _ (i16 (pb_codec b)) (pb_codec b)) by int_spec.
  rewrite (step_st _ _ (i32 (pb_lod b)) (pb_lod b)) by int_spec.
  rewrite (step_st _ _ (i64 (pb_ts b)) (pb_ts b)) by int_spec.
  rewrite (step_st _ _ (i64 (pb_ts b)) (pb_ts b)) by int_spec.
  rewrite (step_st _ _ (i64 (-1)) (-1)) by int_spec.
  rewrite (step_st _ _ (i16 (-1)) (-1)) by int_spec.
  rewrite (step_st _ _ (i32 (-1)) (-1)) by int_spec.
  rewrite (step_st _ _ (i32 (Z.of_nat (length (pb_recs b)))) (Z.of_nat (length (pb_recs b)))) by int_spec.
  cbn [app]. unfold bind, upd_top, set_lrem, set_elast, ret, st, set_stack, vhdr.
  cbn [m_stack m_empty m_lrem m_elast f_in f_remain f_base f_count f_hdr].
  replace (49 + plen - 49) with plen by lia.
  destruct (Z.of_nat (length (pb_recs b)) =? 0); cbn [m_stack m_empty m_lrem m_elast]; [|reflexivity].
  unfold small in *. rewrite wrap64_small by lia. reflexivity.
Qed.

Lemma header_short b plen q q' c h lr el :
  batch_fits b plen -> hdr61 b plen = q ++ q' -> q' <> [] ->
  exists i', read_next_header (st q c h lr el) = MErr EShort (st i' c h lr el).
Proof.
  intros (B1 & B2 & B3 & B4 & B5 & B6) He Hq.
  eapply (mshort_st read_next_header (hdr61 b plen)); [|exact He|exact Hq].
  unfold read_next_header, hdr61.
  apply mshort_bind with (v1 := pb_base b); [int_spec|int_short|].
  apply mshort_bind with (v1 := 49 + plen); [int_spec|int_short|].
  apply mshort_bind with (v1 := 0); [int_spec|int_short|].
  apply mshort_bind with (v1 := 2); [int_spec|int_short|].
  cbn [Z.eqb Pos.eqb].
  apply mshort_bind with (v1 := 0); [int_spec|int_short|].
  apply mshort_bind with (v1 := pb_codec b); [int_spec|int_short|].
  apply mshort_bind with (v1 := pb_lod b); [int_spec|int_short|].
  apply mshort_bind with (v1 := pb_ts b); [int_spec|int_short|].
  apply mshort_bind with (v1 := pb_ts b); [int_spec|int_short|].
  apply mshort_bind with (v1 := -1); [int_spec|int_short|].
  apply mshort_bind with (v1 := -1); [int_spec|int_short|].
  apply mshort_bind with (v1 := -1); [int_spec|int_short|].
  apply mshort_bind with (v1 := Z.of_nat (length (pb_recs b))); [int_spec|int_short|].
  apply mshort_nil.
Qed.
