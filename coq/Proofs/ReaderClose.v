(* Proofs/ReaderClose.v — C02 / C17: Batch.Close after the run, and a connection cut inside the
   compressed payload of a v2 batch: nothing of the batch is delivered, Conn.offset stays where
   it was before the batch, Close reports an error and the connection is closed. *)
From Coq Require Import List NArith ZArith Bool Lia.
From Coq Require Import ZifyN ZifyNat ZifyBool.
From KV Require Import Lib.Bits Lib.Bytes Model.MsgSetReader.
Import ListNotations.
Open Scope Z_scope.

Section Close.
Variable decomp : Z -> list N -> option (list N).

(* batch_run is batch_run_b with the final batch projected to its offset *)
Lemma batch_run_b_run : forall fuel b acc,
  batch_run decomp fuel b acc
  = match batch_run_b decomp fuel b acc with
    | Some (ms, e, b') => Some (ms, e, b_off b')
    | None => None
    end.
Proof.
  induction fuel as [|f IH]; intros b acc; [reflexivity|].
  cbn [batch_run batch_run_b]. destruct (batch_read decomp (S f) b) as [g b'|e b'|]; [apply IH|reflexivity|reflexivity].
Qed.

(* Batch.Close does not move the offset the run ended with *)
Theorem fetch_close_run fuel offset hwm i remain late :
  fetch_run decomp fuel offset hwm i remain late
  = match fetch_close decomp fuel offset hwm i remain late with
    | Some (ms, e, off, _, _) => Some (ms, e, off)
    | None => None
    end.
Proof.
  unfold fetch_run, fetch_close. rewrite batch_run_b_run.
  destruct (batch_run_b decomp fuel _ []) as [[[ms e] b]|]; reflexivity.
Qed.

(* Close returns nil exactly when the connection is kept, except for the errors a broker sent
   (kafka.Error) and a passed deadline, which are reported and leave the connection usable *)
Lemma close_nil_keeps b : batch_close_err b = None -> snd (batch_close b) = false.
Proof.
  unfold batch_close_err, batch_close. cbn [snd].
  destruct (match b_msgs b with Some m => msr_discard m | None => None end) as [d|]; destruct (b_err b) as [[]|]; cbn; congruence.
Qed.

(* ---------------------------------------------------------------- a cut inside a compressed payload *)
(* the header of a compressed v2 batch is current, the batch is announced whole, but fewer bytes
   than its payload arrive before the connection ends *)
Definition cut_payload (m1 : msr) : Prop :=
  m_empty m1 = false /\
  exists f ps code,
    m_stack m1 = f :: ps /\ 0 < f_count f /\ h_magic (f_hdr f) = 2 /\ f_count f = h_count (f_hdr f)
    /\ codec_of (f_hdr f) m1 = MOk (Some code) m1
    /\ 0 <= wrap32 (h_length (f_hdr f) - 49) <= f_remain f
    /\ len (f_in f) < wrap32 (h_length (f_hdr f) - 49).

Lemma read_v2_cut fuel m1 : cut_payload m1 -> exists m', read_v2 decomp fuel m1 = MErr EIO m'.
Proof.
  intros (_ & f & ps & code & Hst & Hc & Hmag & Hcnt & Hcodec & Hrem & Hshort).
  unfold read_v2. unfold bind at 1. unfold read_header. unfold bind at 1, top at 1. rewrite Hst.
  replace (0 <? f_count f) with true by lia. unfold ret at 1.
  unfold bind at 1, top at 1. rewrite Hst. unfold bind at 1. unfold read_v2_prepare.
  replace (f_count f =? h_count (f_hdr f)) with true by lia.
  unfold bind at 1. rewrite Hcodec.
  replace (f_remain f <? wrap32 (h_length (f_hdr f) - 49)) with false by lia.
  replace (wrap32 (h_length (f_hdr f) - 49) <? 0) with false by lia.
  unfold bind at 1. unfold lift at 1. rewrite Hst. unfold p_decompress.
  replace (wrap32 (h_length (f_hdr f) - 49) <? 0) with false by lia.
  replace (len (f_in f) <? wrap32 (h_length (f_hdr f) - 49)) with true by lia.
  eexists. reflexivity.
Qed.

(* an I/O error of messageSetReader.readMessage: the batch keeps its offset, Close reports the
   error and the library closes the connection *)
Lemma io_error_keeps_offset fuel m m' co off last late acc :
  msr_read decomp (S fuel) off m = MErr EIO m' ->
  exists b',
    batch_run_b decomp (S fuel) (mkBatch (Some m) true co off last None late) acc = Some (rev acc, EIO, b')
    /\ b_off b' = off /\ batch_close b' = (off, true) /\ batch_close_err b' = Some EIO.
Proof.
  intros Hm. cbn [batch_run_b batch_read]. unfold batch_read1. cbn [b_err b_msgs b_off]. rewrite Hm.
  eexists. split; [reflexivity|]. unfold set_b. cbn [b_off b_has_conn b_conn_off b_last b_late b_msgs b_err].
  split; [reflexivity|]. unfold batch_close, batch_close_err. cbn [b_msgs b_err b_off closes_conn].
  split; [destruct (msr_discard m'); reflexivity|destruct (msr_discard m'); reflexivity].
Qed.

Theorem cut_in_compressed_payload fuel m m1 co off last late acc :
  m_empty m = false -> read_header (S fuel) m = MOk tt m1 -> cut_payload m1 ->
  exists b',
    batch_run_b decomp (S fuel) (mkBatch (Some m) true co off last None late) acc = Some (rev acc, EIO, b')
    /\ b_off b' = off /\ batch_close b' = (off, true) /\ batch_close_err b' = Some EIO.
Proof.
  intros Hemp Hhdr Hcut. destruct (read_v2_cut (S fuel) m1 Hcut) as [m' Hr].
  destruct Hcut as (_ & f & ps & code & Hst & Hc & Hmag & _).
  apply (io_error_keeps_offset fuel m m').
  unfold msr_read. rewrite Hemp. unfold bind at 1. rewrite Hhdr. unfold bind at 1, top at 1. rewrite Hst.
  rewrite Hmag. cbn [Z.eqb Pos.eqb orb]. unfold bind at 1. rewrite Hr. reflexivity.
Qed.

(* ---------------------------------------------------------------- the same for a v0 / v1 wrapper *)
(* the header of a compressed v0 / v1 wrapper message is current; after the null key the value
   length n is read, the response announces at least n more bytes, fewer arrive *)
Definition cut_wrapper (m1 : msr) : Prop :=
  m_empty m1 = false /\
  exists f ps code s1 n s2,
    m_stack m1 = f :: ps /\ 0 < f_count f /\ (h_magic (f_hdr f) = 0 \/ h_magic (f_hdr f) = 1)
    /\ f_remain f <> 0
    /\ (forall m, codec_of (f_hdr f) m = MOk (Some code) m)
    /\ p_discard 4 (f_in f, f_remain f) = POk tt s1
    /\ p_int 4 s1 = POk n s2
    /\ 0 <= n <= snd s2 /\ len (fst s2) < n.

Lemma v1_body_cut mn m1 : cut_wrapper m1 -> exists m', forall again, v1_body decomp again mn m1 = MErr EIO m'.
Proof.
  intros (_ & f & ps & code & s1 & n & s2 & Hst & Hc & Hmag & Hrem & Hcodec & Hd & Hi & Hn & Hshort).
  destruct s1 as [i1 z1]. destruct s2 as [i2 z2]. cbn [fst snd] in *.
  eexists. intros again.
  unfold v1_body. unfold bind at 1, top at 1. rewrite Hst. cbv zeta.
  unfold bind at 1. rewrite Hcodec.
  unfold bind at 1. unfold lift at 1. rewrite Hst, Hd.
  unfold bind at 1. unfold lift at 1. cbn [m_stack set_stack set_rd f_in f_remain fst snd]. rewrite Hi.
  unfold bind at 1, top at 1. cbn [m_stack set_stack].
  unfold bind at 1. cbn [set_rd f_remain fst snd].
  replace (z2 <? n) with false by lia. unfold ret at 1.
  unfold bind at 1. unfold lift at 1. cbn [m_stack set_stack set_rd f_in f_remain fst snd]. unfold p_decompress.
  replace (n <? 0) with false by lia. replace (len i2 <? n) with true by lia.
  reflexivity.
Qed.

Theorem cut_in_compressed_wrapper fuel m m1 co off last late acc :
  m_empty m = false -> read_header (S (S fuel)) m = MOk tt m1 -> cut_wrapper m1 ->
  exists b',
    batch_run_b decomp (S (S fuel)) (mkBatch (Some m) true co off last None late) acc = Some (rev acc, EIO, b')
    /\ b_off b' = off /\ batch_close b' = (off, true) /\ batch_close_err b' = Some EIO.
Proof.
  intros Hemp Hhdr Hcut. destruct (v1_body_cut off m1 Hcut) as [m' Hr].
  destruct Hcut as (_ & f & ps & code & s1 & n & s2 & Hst & Hc & Hmag & Hrem & _).
  apply (io_error_keeps_offset (S fuel) m m').
  unfold msr_read. rewrite Hemp. unfold bind at 1. rewrite Hhdr. unfold bind at 1, top at 1. rewrite Hst.
  assert (Hm : ((h_magic (f_hdr f) =? 0) || (h_magic (f_hdr f) =? 1)) = true) by (destruct Hmag as [E|E]; rewrite E; reflexivity).
  rewrite Hm. unfold bind at 1.
  cbn [read_v1]. rewrite Hst. replace (f_remain f =? 0) with false by lia.
  unfold bind at 1. unfold read_header. unfold bind at 1, top at 1. rewrite Hst.
  replace (0 <? f_count f) with true by lia. unfold ret at 1. rewrite Hr. reflexivity.
Qed.

(* ---------------------------------------------------------------- the high watermark of a fetch response *)
(* for every fetch version the Batch gets the high_watermark field (not the last stable offset) *)
Lemma hwm_of_header_any v h : hwm_of_header v h = fh_hwm h.
Proof. unfold hwm_of_header. destruct (v <? 4); [reflexivity|]. destruct (v <? 10); reflexivity. Qed.
Lemma hwm_of_header_v5 h : hwm_of_header 5 h = fh_hwm h.
Proof. apply hwm_of_header_any. Qed.

(* so a response with an open transaction (last stable offset below the high watermark) read at
   the last stable offset is decoded like any other: the other header fields do not matter *)
Theorem fetch_close_hdr_hwm fuel v offset h i remain late :
  fetch_close_hdr decomp fuel v offset h i remain late = fetch_close decomp fuel offset (fh_hwm h) i remain late.
Proof. unfold fetch_close_hdr. rewrite hwm_of_header_any. reflexivity. Qed.

(* ---------------------------------------------------------------- Batch.Read with a short buffer *)
(* a read whose buffer is too short is a no-op on the position: the batch ends with
   io.ErrShortBuffer at the offset it had before the call, and Close hands that offset to the Conn *)
Theorem short_read_keeps_position fuel b g b' n t :
  batch_read1 decomp fuel b = BMsg g b' -> n < len (g_val g) ->
  exists bs, batch_reads decomp fuel b (n :: t) = ([RShort], bs, true)
             /\ b_off bs = b_off b /\ fst (fst (reads_close bs true)) = b_off b.
Proof.
  intros Hr Hn. cbn [batch_reads]. rewrite Hr. replace (n <? len (g_val g)) with true by lia.
  eexists. split; [reflexivity|]. unfold set_b. cbn [b_off]. split; [reflexivity|].
  unfold reads_close. cbn [b_msgs b_off]. destruct (match b_msgs b' with Some m => msr_discard m | None => None end); reflexivity.
Qed.

(* a read whose buffer is long enough hands out the value and goes on from the batch
   Batch.ReadMessage would have left *)
Theorem long_read_delivers fuel b g b' n t :
  batch_read1 decomp fuel b = BMsg g b' -> len (g_val g) <= n ->
  batch_reads decomp fuel b (n :: t)
  = (let '(rs, b2, sh) := batch_reads decomp fuel b' t in (RVal (g_val g) :: rs, b2, sh)).
Proof. intros Hr Hn. cbn [batch_reads]. rewrite Hr. replace (n <? len (g_val g)) with false by lia. reflexivity. Qed.

End Close.
