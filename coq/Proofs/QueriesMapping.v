(* Proofs/QueriesMapping.v — the five user-level mappings in one statement. *)
From Coq Require Import List NArith ZArith Bool.
From KV Require Import Lib.Bits Model.Queries Proofs.QueriesSpec Proofs.QueriesSeekMap.
Import ListNotations.
Open Scope Z_scope.

Lemma mapping_exact :
  (* OffsetFetch *)
  (forall r, NoDup (map fst (ofr_topics r)) ->
     let a := offsetfetch_map r in
     oa_throttle a = ofr_throttle r /\ oa_err a = ofr_error r /\
     Forall2 (fun x t => fst x = fst t /\ Forall2 of_part_same (snd x) (snd t)) (oa_topics a) (ofr_topics r)) /\
  (* OffsetCommit: the response, and the request that carries the caller's positions *)
  (forall r, NoDup (map fst (ocr_topics r)) ->
     oca_throttle (offsetcommit_map r) = ocr_throttle r /\ oca_topics (offsetcommit_map r) = ocr_topics r) /\
  (forall g u, in_i32 g ->
     Forall (fun t : str * list oc_commit => Forall (fun c => in_i32 (occ_partition c)) (snd t)) u ->
     ocq_generation (offsetcommit_request g u) = g /\ ocq_topics (offsetcommit_request g u) = u) /\
  (* ConsumerOffsets *)
  (forall asked md ofr t rest parts,
     ma_topics md = t :: rest -> amap_get (oa_topics ofr) (at_name t) = Some parts ->
     NoDup (map oa_partition parts) ->
     consumer_offsets_request asked md = Some (asked, map pt_id (at_parts t)) /\
     consumer_offsets_result md ofr = Some (map (fun p => (oa_partition p, oa_offset p)) parts)) /\
  (* Metadata *)
  (forall r, let a := metadata_map r in
     ma_throttle a = md_throttle r /\ ma_cluster a = md_cluster r /\
     Forall2 broker_same (ma_brokers a) (md_brokers r) /\
     ma_controller a = client_broker (md_brokers r) (md_controller r) /\
     Forall2 (md_topic_same (md_brokers r)) (ma_topics a) (md_topics r)) /\
  (* ReadPartitions *)
  (forall v6 ct r,
     read_partitions v6 ct r =
     match find (rp_topic_fails ct) (md_topics r) with
     | Some t => PartsErr (mt_error t)
     | None => PartsOk (flat_map (fun t => map (rp_part v6 (md_brokers r) (mt_name t)) (mt_parts t)) (md_topics r))
     end).
Proof.
  exact (conj offsetfetch_exact (conj offsetcommit_exact (conj offsetcommit_request_exact
        (conj consumer_offsets_exact (conj metadata_exact read_partitions_exact))))).
Qed.
