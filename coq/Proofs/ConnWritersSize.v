(* Proofs/ConnWritersSize.v — the size pre-computation of the Conn request writers
   (sizeof.go, the size() methods, the sums of write.go, recordBatchSize) equals the number
   of bytes the emission functions (writeTo(), write.go) produce: for every request, every
   field value.  Consequence: the 4-byte size prefix of every frame the Conn writes is the
   (int32 of the) number of bytes that follow it. *)
From Coq Require Import List NArith ZArith Bool Lia.
From Coq Require Import ZifyN ZifyNat ZifyBool.
From KV Require Import Lib.Bits Lib.Bytes Lib.Varint Lib.Crc Spec.RecordFormat Model.Records Model.ConnWriters
  Proofs.BitsLemmas Proofs.RecordsCodec Proofs.RecordsWriters.
Import ListNotations.
Open Scope Z_scope.

(* ------------------------------------------------------------------ arithmetic modulo 2^32 *)
Lemma wrap32_congr x y : x mod ZM32 = y mod ZM32 -> wrap32 x = wrap32 y.
Proof.
  intros H. unfold wrap32.
  rewrite <- (Z.add_mod_idemp_l x) by (unfold ZM32; lia).
  rewrite <- (Z.add_mod_idemp_l y) by (unfold ZM32; lia).
  rewrite H. reflexivity.
Qed.
Lemma wrap32_add_wrap32_r a b : wrap32 (a + wrap32 b) = wrap32 (a + b).
Proof.
  apply wrap32_congr.
  rewrite <- (Z.add_mod_idemp_r a (wrap32 b)) by (unfold ZM32; lia).
  rewrite wrap32_mod. rewrite Z.add_mod_idemp_r by (unfold ZM32; lia). reflexivity.
Qed.
Lemma wrap32_small z : 0 <= z < ZM31 -> wrap32 z = z.
Proof. intros H. apply wrap32_id. unfold in_i32, ZM31 in *. lia. Qed.
(* writeInt32(int32(x)): the bytes only depend on x modulo 2^32 *)
Lemma put_bes4_wrap32 z : put_bes 4 (wrap32 z) = put_bes 4 z.
Proof. unfold put_bes. change (Z.of_N (pow256 4)) with ZM32. rewrite wrap32_mod. reflexivity. Qed.

(* ------------------------------------------------------------------ writeBuffer primitives *)
Lemma zlen_w_int8 z : zlen (w_int8 z) = 1. Proof. apply zlen_put_bes. Qed.
Lemma zlen_w_int16 z : zlen (w_int16 z) = 2. Proof. apply zlen_put_bes. Qed.
Lemma zlen_w_int32 z : zlen (w_int32 z) = 4. Proof. apply zlen_put_bes. Qed.
Lemma zlen_w_int64 z : zlen (w_int64 z) = 8. Proof. apply zlen_put_bes. Qed.
Lemma zlen_w_bool b : zlen (w_bool b) = 1. Proof. apply zlen_put_bes. Qed.
Lemma zlen_w_array_len n : zlen (w_array_len n) = 4. Proof. apply zlen_put_bes. Qed.
Lemma put_bes_len w z : length (put_bes w z) = w.
Proof. unfold put_bes. apply put_be_length. Qed.
Lemma zlen_nil {A} : zlen (@nil A) = 0. Proof. reflexivity. Qed.

Lemma zlen_w_string s : zlen (w_string s) = sizeof_string s.
Proof. unfold w_string, sizeof_string. rewrite zlen_app, zlen_w_int16. reflexivity. Qed.
Lemma zlen_w_nullable_string s : zlen (w_nullable_string s) = sizeof_nullable_string s.
Proof. destruct s as [s|]; cbn [w_nullable_string sizeof_nullable_string]; [apply zlen_w_string|apply zlen_w_int16]. Qed.
Lemma zlen_w_bytes b : zlen (w_bytes b) = sizeof_bytes b.
Proof.
  destruct b as [l|]; unfold w_bytes, sizeof_bytes, blen.
  - rewrite zlen_app, zlen_w_int32. reflexivity.
  - rewrite zlen_w_int32. reflexivity.
Qed.
Lemma zlen_w_non_null_bytes b : zlen (w_non_null_bytes b) = sizeof_bytes b.
Proof.
  destruct b as [l|]; unfold w_non_null_bytes, sizeof_bytes, blen; rewrite zlen_app, zlen_w_int32; reflexivity.
Qed.
Lemma zlen_wb_bytes b : zlen (wb_bytes b) = 4 + blen b.
Proof. exact (zlen_w_bytes b). Qed.

Lemma zsum_map_eq {A} (f g : A -> Z) l : (forall x, f x = g x) -> zsum (map f l) = zsum (map g l).
Proof. intros H. apply zsum_map_ext. apply Forall_forall. intros x _. apply H. Qed.

Lemma zlen_w_array {A} (f : A -> list N) (g : A -> Z) l :
  (forall x, zlen (f x) = g x) -> zlen (w_array f l) = sizeof_array g l.
Proof.
  intros H. unfold w_array, sizeof_array. rewrite zlen_app, zlen_w_array_len, zlen_concat_map.
  rewrite (zsum_map_eq _ g) by exact H. reflexivity.
Qed.
Lemma zlen_w_string_array a : zlen (w_string_array a) = sizeof_string_array a.
Proof. apply zlen_w_array. exact zlen_w_string. Qed.
Lemma zsum_const {A} (l : list A) c : zsum (map (fun _ => c) l) = c * zlen l.
Proof.
  induction l as [|x l IH]; cbn [map zsum fold_right]; [unfold zlen; cbn; lia|].
  unfold zsum in IH. rewrite IH, zlen_cons. lia.
Qed.
Lemma zlen_concat_w_int32 a : zlen (concat (map w_int32 a)) = 4 * zlen a.
Proof. rewrite zlen_concat_map. rewrite (zsum_map_eq _ (fun _ => 4)) by exact zlen_w_int32. apply zsum_const. Qed.
Lemma zlen_w_int32_array a : zlen (w_int32_array a) = sizeof_int32_array a.
Proof.
  unfold w_int32_array, w_array, sizeof_int32_array.
  rewrite zlen_app, zlen_w_array_len, zlen_concat_w_int32. reflexivity.
Qed.

(* ------------------------------------------------------------------ requestHeader *)
Lemma zlen_header_write h : zlen (header_write h) = header_size h.
Proof.
  unfold header_write, header_size.
  rewrite !zlen_app, zlen_w_int32, !zlen_w_int16, zlen_w_int32, zlen_w_string. lia.
Qed.

(* ------------------------------------------------------------------ request structs *)
Lemma zlen_sb_write p : zlen (sb_write p) = sb_size p.
Proof. unfold sb_write, sb_size. rewrite zlen_app, zlen_w_string, zlen_w_non_null_bytes. reflexivity. Qed.
Lemma zlen_ocp_write p : zlen (ocp_write p) = ocp_size p.
Proof. unfold ocp_write, ocp_size. rewrite !zlen_app, zlen_w_int32, zlen_w_int64, zlen_w_string. lia. Qed.
Lemma zlen_oct_write t : zlen (oct_write t) = oct_size t.
Proof. unfold oct_write, oct_size. rewrite zlen_app, zlen_w_string, (zlen_w_array _ ocp_size) by exact zlen_ocp_write. reflexivity. Qed.
Lemma zlen_oft_write t : zlen (oft_write t) = oft_size t.
Proof. unfold oft_write, oft_size. rewrite zlen_app, zlen_w_string, zlen_w_int32_array. reflexivity. Qed.
Lemma zlen_cte_write e : zlen (cte_write e) = cte_size e.
Proof. unfold cte_write, cte_size. rewrite zlen_app, !zlen_w_string. reflexivity. Qed.
Lemma zlen_cta_write a : zlen (cta_write a) = cta_size a.
Proof. unfold cta_write, cta_size. rewrite !zlen_app, !zlen_w_int32, zlen_concat_w_int32. lia. Qed.
Lemma zlen_ctt_write t : zlen (ctt_write t) = ctt_size t.
Proof.
  unfold ctt_write, ctt_size.
  rewrite !zlen_app, zlen_w_string, zlen_w_int32, zlen_w_int16.
  rewrite (zlen_w_array _ cta_size) by exact zlen_cta_write.
  rewrite (zlen_w_array _ cte_size) by exact zlen_cte_write. lia.
Qed.

(* ------------------------------------------------------------------ fetch, list offsets *)
Lemma zlen_fetch_body v topic partition offset minb maxb wait iso :
  zlen (fetch_body v topic partition offset minb maxb wait iso) = fetch_size v topic.
Proof.
  destruct v; unfold fetch_body, fetch_size;
    rewrite !zlen_app, ?zlen_w_int32, ?zlen_w_int64, ?zlen_w_int8, ?zlen_w_array_len, ?zlen_w_string; lia.
Qed.
Lemma zlen_list_offsets_body topic partition time :
  zlen (list_offsets_body topic partition time) = list_offsets_size topic.
Proof.
  unfold list_offsets_body, list_offsets_size.
  rewrite !zlen_app, ?zlen_w_int32, ?zlen_w_int64, ?zlen_w_array_len, ?zlen_w_string. lia.
Qed.

(* ------------------------------------------------------------------ varints *)
Lemma uvarint_len_enc fuel : forall x, uvarint_len fuel x = length (uvarint_enc fuel x).
Proof.
  induction fuel as [|f IH]; intros x; cbn [uvarint_len uvarint_enc]; [reflexivity|].
  destruct (x <? 128)%N; [reflexivity|]. cbn [length]. rewrite IH. reflexivity.
Qed.
Lemma u64_lt z : (u64 z < M64)%N.
Proof.
  unfold u64, ZM64, M64.
  pose proof (Z.mod_pos_bound z 18446744073709551616 ltac:(lia)). lia.
Qed.
(* varIntLen(i) is the number of bytes writeVarInt(i) writes *)
Lemma var_int_len_put i : var_int_len i = zlen (put_varint i).
Proof.
  unfold var_int_len, put_varint, put_uvarint, zlen.
  assert (H : (zigzag i mod M64 = zigzag i)%N) by (apply N.mod_small; unfold zigzag; apply u64_lt).
  rewrite H, uvarint_len_enc. reflexivity.
Qed.
Lemma var_bytes_len_put b : var_bytes_len b = zlen (wb_var_bytes b).
Proof.
  destruct b as [l|]; unfold var_bytes_len, wb_var_bytes, blen.
  - rewrite zlen_app, var_int_len_put. reflexivity.
  - rewrite var_int_len_put. reflexivity.   (* varIntLen(0) and writeVarInt(-1): one byte each *)
Qed.
Lemma hdr_size_write h : hdr_size h = zlen (write_hdr h).
Proof.
  unfold hdr_size, write_hdr, var_string_len.
  rewrite !zlen_app, var_int_len_put, var_bytes_len_put. lia.
Qed.

(* recordSize(msg, delta, offset) is the number of bytes writeRecord writes after the length *)
Lemma write_record_split base i m :
  exists body, write_record base i m = put_varint (record_size base i m) ++ body /\
               zlen body = record_size base i m.
Proof.
  eexists. split; [unfold write_record; reflexivity|].
  unfold record_size.
  rewrite !zlen_app, zlen_put_bes, <- !var_int_len_put, <- !var_bytes_len_put, zlen_concat_map.
  rewrite (zsum_map_eq hdr_size (fun x => zlen (write_hdr x))) by exact hdr_size_write.
  change (Z.of_nat 1) with 1. lia.
Qed.
Lemma zlen_write_record base i m :
  zlen (write_record base i m) = record_size base i m + var_int_len (record_size base i m).
Proof.
  destruct (write_record_split base i m) as (body & E & L).
  rewrite E, zlen_app, L, <- var_int_len_put. lia.
Qed.

Lemma zlen_concat_mapi {A} (f : Z -> A -> list N) l : forall i,
  zlen (concat (mapi_from f i l)) = zsum (mapi_from (fun j x => zlen (f j x)) i l).
Proof.
  induction l as [|x l IH]; intros i; cbn [mapi_from concat zsum fold_right]; [reflexivity|].
  rewrite zlen_app, IH. reflexivity.
Qed.
Lemma zsum_mapi_eq {A} (f g : Z -> A -> Z) l : (forall j x, f j x = g j x) -> forall i,
  zsum (mapi_from f i l) = zsum (mapi_from g i l).
Proof.
  intros H. induction l as [|x l IH]; intros i; cbn [mapi_from zsum fold_right]; [reflexivity|].
  unfold zsum in IH. rewrite IH, H. reflexivity.
Qed.

(* ------------------------------------------------------------------ record batch, message set *)
Lemma zlen_write_record_batch attrs size count base last payload :
  zlen (write_record_batch attrs size count base last payload) = record_batch_header_size + zlen payload.
Proof.
  unfold write_record_batch, record_batch_header_size. cbn zeta.
  rewrite !zlen_app, !zlen_put_bes, zlen_put_be. lia.
Qed.

(* recordBatchSize = header + the bytes of the records *)
Lemma record_batch_size_records m0 rest :
  record_batch_size m0 rest = record_batch_header_size + zlen (rb_records m0 rest).
Proof.
  unfold record_batch_size, rb_records. cbn zeta. f_equal.
  rewrite zlen_concat_mapi. apply zsum_mapi_eq. intros j x. rewrite zlen_write_record. reflexivity.
Qed.

(* what the batch occupies (after the int32 set size) *)
Definition rb_len (cz : compression) (m0 : cmsg) (rest : list cmsg) : Z :=
  record_batch_header_size + zlen (match cz with None => rb_records m0 rest | Some (_, c) => c end).

Lemma rb_size_len cz m0 rest : rb_size cz m0 rest = wrap32 (rb_len cz m0 rest).
Proof.
  unfold rb_size, rb_len. destruct cz as [[code c]|]; [reflexivity|].
  rewrite record_batch_size_records. reflexivity.
Qed.
Lemma zlen_rb_write cz m0 rest : zlen (rb_write cz m0 rest) = 4 + rb_len cz m0 rest.
Proof.
  unfold rb_write, rb_len. cbn zeta. rewrite zlen_app, zlen_w_int32, zlen_write_record_batch. reflexivity.
Qed.

Lemma zlen_write_message off attrs ts k v : zlen (write_message off attrs ts k v) = 8 + 4 + message_size k v.
Proof.
  unfold write_message, message_size. cbn zeta.
  rewrite !zlen_app, !zlen_put_bes, zlen_put_be, !zlen_wb_bytes.
  change (Z.of_nat 8) with 8. change (Z.of_nat 4) with 4. change (Z.of_nat 1) with 1. lia.
Qed.
Lemma zlen_message_set_write attrs ms : zlen (message_set_write attrs ms) = message_set_size_of ms.
Proof.
  unfold message_set_write, message_set_size_of, message_set_size.
  rewrite zlen_concat_map, map_map. apply zsum_map_eq. intros m.
  rewrite zlen_write_message. unfold message_size. cbn [fst snd]. lia.
Qed.

(* the record set of a produce request: [set_len] bytes after its int32 size, which is their
   count modulo 2^32 *)
Definition set_len (v : produce_ver) (cz : compression) (m0 : cmsg) (rest : list cmsg) : Z :=
  match v with
  | PV2 => message_set_size_of (v2_msgs cz (m0 :: rest))
  | PV3 | PV7 => rb_len cz m0 rest
  end.
Lemma produce_set_size_len v cz m0 rest : produce_set_size v cz m0 rest = wrap32 (set_len v cz m0 rest).
Proof. destruct v; cbn [produce_set_size set_len]; [reflexivity|apply rb_size_len|apply rb_size_len]. Qed.
Lemma zlen_produce_set_write v cz m0 rest : zlen (produce_set_write v cz m0 rest) = 4 + set_len v cz m0 rest.
Proof.
  destruct v; cbn [produce_set_write set_len]; [|apply zlen_rb_write|apply zlen_rb_write].
  rewrite zlen_app, zlen_w_int32, zlen_message_set_write. reflexivity.
Qed.
Lemma set_len_nonneg v cz m0 rest : 0 <= set_len v cz m0 rest.
Proof.
  pose proof (zlen_produce_set_write v cz m0 rest). pose proof (zlen_nonneg (produce_set_write v cz m0 rest)).
  destruct v; cbn [set_len] in *.
  - rewrite <- zlen_message_set_write with (attrs := 0). apply zlen_nonneg.
  - unfold rb_len, record_batch_header_size. pose proof (zlen_nonneg (match cz with None => rb_records m0 rest | Some (_, c) => c end)). lia.
  - unfold rb_len, record_batch_header_size. pose proof (zlen_nonneg (match cz with None => rb_records m0 rest | Some (_, c) => c end)). lia.
Qed.

(* ------------------------------------------------------------------ every request *)
(* the pre-computed size and the number of bytes written agree: exactly for every request but
   produce, where the record-set size has already been reduced to an int32 ([set_len] is the
   unreduced count) *)
Definition creq_size_exact (r : creq) : Z :=
  match r with
  | QProduce v cz txid _ _ topic _ m0 rest =>
    creq_size r - produce_set_size v cz m0 rest + set_len v cz m0 rest
  | _ => creq_size r
  end.

Lemma creq_body_length r : zlen (creq_body r) = creq_size_exact r.
Proof.
  destruct r; cbn [creq_body creq_size creq_size_exact].
  - (* produce *)
    unfold produce_body, produce_size.
    destruct v; rewrite !zlen_app, ?zlen_nil, ?zlen_w_nullable_string, ?zlen_w_int16, ?zlen_w_int32,
      ?zlen_w_array_len, ?zlen_w_string, zlen_produce_set_write; lia.
  - apply zlen_fetch_body.
  - apply zlen_list_offsets_body.
  - reflexivity.
  - destruct v, topics as [l|]; rewrite ?zlen_app, ?zlen_nil, ?zlen_w_string_array, ?zlen_w_array_len, ?zlen_w_bool;
      unfold sizeof_string_array, sizeof_array; cbn [map zsum fold_right]; lia.
  - apply zlen_w_string.
  - rewrite !zlen_app, !zlen_w_string, !zlen_w_int32, (zlen_w_array _ sb_size) by exact zlen_sb_write. lia.
  - rewrite !zlen_app, !zlen_w_string, !zlen_w_int32, (zlen_w_array _ sb_size) by exact zlen_sb_write. lia.
  - rewrite !zlen_app, !zlen_w_string, !zlen_w_int32. lia.
  - rewrite !zlen_app, !zlen_w_string. lia.
  - rewrite !zlen_app, !zlen_w_string, zlen_w_int32, zlen_w_int64, (zlen_w_array _ oct_size) by exact zlen_oct_write. lia.
  - rewrite !zlen_app, !zlen_w_string, (zlen_w_array _ oft_size) by exact zlen_oft_write. lia.
  - reflexivity.
  - destruct v; rewrite !zlen_app, ?zlen_nil, ?zlen_w_bool, zlen_w_int32, (zlen_w_array _ ctt_size) by exact zlen_ctt_write; lia.
  - rewrite !zlen_app, zlen_w_string_array, zlen_w_int32. lia.
  - apply zlen_w_string.
  - apply zlen_w_non_null_bytes.
Qed.

Lemma creq_size_mod r : wrap32 (creq_size r) = wrap32 (creq_size_exact r).
Proof.
  destruct r; try reflexivity. cbn [creq_size_exact].
  rewrite produce_set_size_len.
  set (S := set_len v cz m0 rest).
  assert (E : creq_size (QProduce v cz txid acks timeout topic partition m0 rest) =
              (creq_size (QProduce v cz txid acks timeout topic partition m0 rest) - produce_set_size v cz m0 rest) + wrap32 S).
  { rewrite produce_set_size_len. fold S. lia. }
  rewrite E at 1. rewrite wrap32_add_wrap32_r. rewrite produce_set_size_len. fold S. reflexivity.
Qed.

(* ------------------------------------------------------------------ frames *)
(* what follows the 4-byte size prefix of the frame *)
Definition frame_rest (corr : Z) (client : gostr) (r : creq) : list N :=
  w_int16 (creq_key r) ++ w_int16 (creq_ver r) ++ w_int32 corr ++ w_string client ++ creq_body r.

Lemma conn_frame_split corr client r :
  conn_frame corr client r = put_bes 4 (wrap32 (zlen (frame_rest corr client r))) ++ frame_rest corr client r.
Proof.
  unfold conn_frame, conn_header, header_write, frame_rest. cbn [h_size h_key h_ver h_corr h_client].
  rewrite <- !app_assoc. f_equal. unfold w_int32. f_equal.
  unfold header_size. cbn [h_client].
  rewrite !zlen_app, !zlen_w_int16, zlen_w_int32, zlen_w_string, creq_body_length.
  replace (4 + 2 + 2 + 4 + sizeof_string client + creq_size r - 4)
    with ((2 + (2 + (4 + sizeof_string client))) + creq_size r) by lia.
  rewrite <- (wrap32_add_wrap32_r _ (creq_size r)), creq_size_mod, wrap32_add_wrap32_r.
  f_equal. lia.
Qed.

(* frames below 2 GiB, as a boolean *)
Definition frame_fits (client : gostr) (r : creq) : bool :=
  10 + zlen client + zlen (creq_body r) <? ZM31.

Lemma frame_fits_def client r : frame_fits client r = (10 + zlen client + zlen (creq_body r) <? ZM31).
Proof. reflexivity. Qed.

Lemma zlen_frame_rest corr client r : zlen (frame_rest corr client r) = 10 + zlen client + zlen (creq_body r).
Proof.
  unfold frame_rest. rewrite !zlen_app, !zlen_w_int16, zlen_w_int32, zlen_w_string. unfold sizeof_string. lia.
Qed.

Theorem conn_size_exact corr client r :
  let rest := frame_rest corr client r in
  (* always: the prefix is the int32 conversion of the number of bytes that follow *)
  conn_frame corr client r = put_bes 4 (wrap32 (zlen rest)) ++ rest /\
  (* the pre-computed request size and the bytes written by writeTo agree modulo 2^32 *)
  wrap32 (creq_size r) = wrap32 (zlen (creq_body r)) /\
  (* below 2 GiB the prefix is that number *)
  (frame_fits client r = true ->
     conn_frame corr client r = put_bes 4 (zlen rest) ++ rest /\
     length (conn_frame corr client r) = (4 + length rest)%nat /\
     get_bes 4 (firstn 4 (conn_frame corr client r)) = zlen rest /\
     (match r with QProduce _ _ _ _ _ _ _ _ _ => True | _ => creq_size r = zlen (creq_body r) end)).
Proof.
  cbn zeta. split; [apply conn_frame_split|]. split; [rewrite creq_body_length; apply creq_size_mod|].
  intros Hfit. unfold frame_fits in Hfit. apply Z.ltb_lt in Hfit.
  pose proof (zlen_frame_rest corr client r) as Hl.
  pose proof (zlen_nonneg (frame_rest corr client r)) as Hn.
  assert (Hw : wrap32 (zlen (frame_rest corr client r)) = zlen (frame_rest corr client r))
    by (apply wrap32_small; lia).
  rewrite conn_frame_split, Hw.
  split; [reflexivity|]. split; [rewrite app_length, put_bes_len; reflexivity|]. split.
  - replace (firstn 4 (put_bes 4 (zlen (frame_rest corr client r)) ++ frame_rest corr client r))
      with (put_bes 4 (zlen (frame_rest corr client r))).
    + apply get_put_bes; [lia|]. apply in_signed_4. unfold in_i32, ZM31 in *. lia.
    + symmetry. rewrite <- (put_bes_len 4 (zlen (frame_rest corr client r))) at 1.
      rewrite firstn_app, Nat.sub_diag, firstn_all. cbn [firstn]. apply app_nil_r.
  - destruct r; try exact I; rewrite creq_body_length; reflexivity.
Qed.

(* ------------------------------------------------------------------ the size fields inside a produce request *)
(* record-set size and batch length: the set is its int32 size followed by that many bytes;
   in a record batch (v3/v7) the batch length counts what follows the batch-length field *)
Definition set_body (v : produce_ver) (cz : compression) (m0 : cmsg) (rest : list cmsg) : list N :=
  match v with
  | PV2 => message_set_write (v2_attributes cz) (v2_msgs cz (m0 :: rest))
  | PV3 | PV7 =>
    write_record_batch (rb_attributes cz) (rb_size cz m0 rest) (zlen (m0 :: rest))
      (ns_of (c_time m0)) (ns_of (c_time (last_msg m0 rest)))
      (match cz with None => rb_records m0 rest | Some (_, c) => c end)
  end.
Lemma zlen_set_body v cz m0 rest : zlen (set_body v cz m0 rest) = set_len v cz m0 rest.
Proof.
  destruct v; cbn [set_body set_len]; [apply zlen_message_set_write| |]; apply zlen_write_record_batch.
Qed.
Lemma produce_set_write_body v cz m0 rest :
  produce_set_write v cz m0 rest = put_bes 4 (wrap32 (zlen (set_body v cz m0 rest))) ++ set_body v cz m0 rest.
Proof.
  rewrite zlen_set_body, <- produce_set_size_len.
  destruct v; cbn [produce_set_write set_body produce_set_size]; unfold rb_write, w_int32; cbn zeta; reflexivity.
Qed.
Lemma rb_body_tail cz m0 rest :
  exists tail, set_body PV3 cz m0 rest = put_bes 8 0 ++ put_bes 4 (wrap32 (zlen (set_body PV3 cz m0 rest)) - 12) ++ tail /\
               zlen tail = zlen (set_body PV3 cz m0 rest) - 12.
Proof.
  rewrite zlen_set_body. cbn [set_body set_len]. unfold write_record_batch. cbn zeta.
  eexists. split; [rewrite rb_size_len; reflexivity|].
  rewrite !zlen_app, !zlen_put_bes, zlen_put_be. unfold rb_len, record_batch_header_size. lia.
Qed.

Theorem produce_set_sizes v cz m0 rest :
  exists body, produce_set_write v cz m0 rest = put_bes 4 (wrap32 (zlen body)) ++ body /\
    (zlen body < ZM31 -> produce_set_write v cz m0 rest = put_bes 4 (zlen body) ++ body) /\
    match v with
    | PV2 => True
    | PV3 | PV7 =>
      exists tail, body = put_bes 8 0 ++ put_bes 4 (wrap32 (zlen body) - 12) ++ tail /\ zlen tail = zlen body - 12
    end.
Proof.
  exists (set_body v cz m0 rest). split; [apply produce_set_write_body|]. split.
  - intros Hs. rewrite produce_set_write_body. rewrite wrap32_small; [reflexivity|].
    split; [apply zlen_nonneg|exact Hs].
  - destruct v; [exact I| |]; exact (rb_body_tail cz m0 rest).
Qed.

(* each record of an uncompressed batch: its varint length prefix counts the bytes of the record *)
Theorem record_length_exact base i m :
  exists body, write_record base i m = put_varint (zlen body) ++ body.
Proof. destruct (write_record_split base i m) as (body & E & L). exists body. rewrite L. exact E. Qed.

(* ------------------------------------------------------------------ time.go *)
Lemma timestamp_ts_ms t : timestamp t = ts_ms (ns_of t).
Proof. destruct t; reflexivity. Qed.

(* ------------------------------------------------------------------ version negotiation *)
Lemma negotiate_rev_spec bmax l :
  negotiate_rev bmax l = -1 /\ (forall s, In s l -> bmax < s) \/
  In (negotiate_rev bmax l) l /\ negotiate_rev bmax l <= bmax.
Proof.
  induction l as [|s l IH]; cbn [negotiate_rev].
  - left. split; [reflexivity|]. intros s [].
  - destruct (Z.leb_spec s bmax) as [H|H].
    + right. split; [left; reflexivity|exact H].
    + destruct IH as [[E Hall]|[Hin Hle]].
      * left. split; [exact E|]. intros x [<-|Hx]; [exact H|apply Hall, Hx].
      * right. split; [right; exact Hin|exact Hle].
Qed.

(* the version the Conn puts in a request header is one it supports and is not above the
   maximum the broker advertised for the API (0 when the broker did not list the API);
   otherwise nothing is sent (-1) *)
Theorem conn_negotiate_le_advertised adv supported :
  let v := conn_negotiate adv supported in
  let bmax := match adv with Some (_, mx) => mx | None => 0 end in
  (v = -1 /\ forall s, In s supported -> bmax < s) \/ (In v supported /\ v <= bmax).
Proof.
  cbn zeta. unfold conn_negotiate.
  destruct (negotiate_rev_spec (match adv with Some (_, mx) => mx | None => 0 end) (rev supported)) as [[E H]|[Hin Hle]].
  - left. split; [exact E|]. intros s Hs. apply H. apply in_rev in Hs. exact Hs.
  - right. split; [|exact Hle]. apply in_rev. exact Hin.
Qed.
