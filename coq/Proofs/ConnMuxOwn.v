(* Proofs/ConnMuxOwn.v — own-response, distinct ids, abandonment closes, nothing after
   close; the ApiVersions refutation. *)
From Coq Require Import List ZArith Bool Arith Lia.
From KV Require Import Model.ConnMux Proofs.ConnMuxBase Proofs.ConnMuxProofs.
Import ListNotations.
Local Open Scope Z_scope.

(* ---- monotone flags and counters ---- *)
Lemma closed_mono : forall s l s', step s l = Some s' -> closed s = true -> closed s' = true.
Proof. intros s l s' H C. destruct l; step_inv H; cbn; auto. Qed.

Lemma misaligned_mono : forall s l s', step s l = Some s' -> misaligned s = true -> misaligned s' = true.
Proof. intros s l s' H C. destruct l; step_inv H; cbn; auto. Qed.

Lemma nsend_mono : forall s l s', step s l = Some s' -> nsend s <= nsend s'.
Proof. intros s l s' H. destruct (step_global s l s' H) as [[G _]|[G _]]; lia. Qed.

Lemma consumed_mono : forall s l s' f, step s l = Some s' -> In f (consumed s) -> In f (consumed s').
Proof.
  intros s l s' f H C. destruct l; step_inv H; cbn; auto.
  apply in_or_app. left. exact C.
Qed.

(* ---- ids of requests that were sent are pairwise distinct ---- *)
Lemma ids_distinct : forall s t u, Inv s -> nsend s < ID_BOUND ->
  presend (ph (thr s t)) = false -> presend (ph (thr s u)) = false ->
  rid (thr s t) = rid (thr s u) -> t = u.
Proof.
  intros s t u I B Pt Pu E.
  destruct (i_post s I t Pt) as [Xt Rt]. destruct (i_post s I u Pu) as [Xu Ru].
  apply (i_inj s I t u Pt Pu). apply wrap32_inj; [congruence|]. unfold ID_BOUND in B. lia.
Qed.

(* ---- own response ---- *)
Definition holds_own (s : state) (t : tid) : Prop :=
  match ph (thr s t) with
  | Reading | InBatch | Done _ =>
    exists f, got (thr s t) = Some f /\ fid f = rid (thr s t) /\ fown f = t /\ In f (consumed s)
  | _ => True
  end.

Definition OwnInv (s : state) : Prop :=
  misaligned s = false -> nsend s < ID_BOUND -> forall t, holds_own s t.

Lemma OwnInv_init : OwnInv init.
Proof. intros _ _ t. unfold holds_own. cbn. exact I. Qed.

Lemma holds_own_keep : forall s s' t,
  holds_own s t -> thr s' t = thr s t -> (forall f, In f (consumed s) -> In f (consumed s')) ->
  holds_own s' t.
Proof.
  intros s s' t H E C. unfold holds_own in *. rewrite E.
  destruct (ph (thr s t)); auto; destruct H as [f [A [B [D F]]]]; exists f; auto.
Qed.

Ltac simp_state :=
  cbn [threads lookup ph got rid set_ph consumed add_consumed set_inflight set_wire set_rlock
       set_wlock set_closed set_misaligned bump_id upd_thread add_answered fid fown
       misaligned nsend wire closed knd seqn reached] in *.

Lemma OwnInv_step : forall s l s', Inv s -> OwnInv s -> step s l = Some s' -> OwnInv s'.
Proof.
  intros s l s' Iv O H M' B' u.
  assert (M : misaligned s = false).
  { destruct (misaligned s) eqn:E; [|reflexivity]. rewrite (misaligned_mono s l s' H E) in M'. discriminate. }
  assert (B : nsend s < ID_BOUND) by (pose proof (nsend_mono s l s' H); lia).
  pose proof (O M B u) as Hu.
  destruct l; step_inv H;
    try (eapply holds_own_keep; [exact Hu|reflexivity|intros f0 Hf0; exact Hf0]; fail);
    try (cbn in M'; discriminate);
    try congruence.
  all: unfold holds_own, thr in *; simp_state;
    match goal with |- context [Nat.eqb ?a ?b] =>
      let E := fresh "E" in destruct (Nat.eqb a b) eqn:E;
      [apply Nat.eqb_eq in E; subst|apply Nat.eqb_neq in E] end;
    simp_state;
    try exact Logic.I;
    try (match goal with Hp : ph (lookup _ _) = _ |- _ => rewrite Hp in Hu end);
    try (match type of Hu with context [ph ?x] => destruct (ph x) end; auto;
         destruct Hu as [f0 [A1 [A2 [A3 A4]]]]; exists f0;
         repeat split; auto; try (apply in_or_app; left; exact A4); fail);
    try (destruct Hu as [f0 [A1 [A2 [A3 A4]]]]; exists f0; repeat split; auto; fail).
  (* PeekOwn by u itself: the head frame is the one produced for u *)
  exists f. apply andb_prop in Heqb. destruct Heqb as [_ Ef]. apply Z.eqb_eq in Ef.
  repeat split; auto.
  - assert (Hf : In f (consumed s ++ wire s)) by (apply in_or_app; right; rewrite Heql; left; reflexivity).
    destruct (i_frames s Iv f Hf) as [R [Ei _]].
    apply (ids_distinct s); auto.
    + apply presend_false_of_reached; auto.
    + unfold thr. rewrite Heqp. reflexivity.
    + unfold thr in *. congruence.
  - apply in_or_app. right. left. reflexivity.
Qed.

Lemma Own_run : forall ls s, run init ls = Some s -> Inv s /\ OwnInv s.
Proof.
  intros ls s H.
  eapply (inv_run (fun x => Inv x /\ OwnInv x)); [|split; [exact Inv_init|exact OwnInv_init]|exact H].
  intros x l x' [A B] St. split; [eapply Inv_step|eapply OwnInv_step]; eauto.
Qed.

Definition completed (p : phase) : Prop :=
  match p with Reading | InBatch | Done _ => True | _ => False end.

Lemma conn_own_response : forall ls s,
  run init ls = Some s -> aligned s -> nsend s < ID_BOUND ->
  (forall t, completed (ph (thr s t)) ->
     exists f, got (thr s t) = Some f /\ fid f = rid (thr s t) /\ fown f = t /\
               In f (consumed s) /\ In t (answered s)) /\
  NoDup (map fown (consumed s)) /\
  (forall t u, presend (ph (thr s t)) = false -> presend (ph (thr s u)) = false ->
     t <> u -> rid (thr s t) <> rid (thr s u)).
Proof.
  intros ls s H A B. destruct (Own_run ls s H) as [I O]. repeat split.
  - intros t C. pose proof (O A B t) as Ht. unfold holds_own in Ht.
    destruct (ph (thr s t)); try contradiction;
      destruct Ht as [f [G [E [F D]]]]; exists f; repeat split; auto;
      (destruct (i_frames s I f (in_or_app _ _ _ (or_introl D))) as [_ [_ X]]; rewrite F in X; exact X).
  - pose proof (i_nodup s I) as N. rewrite map_app in N. eapply NoDup_app_l; exact N.
  - intros t u Pt Pu Ne E. apply Ne. eapply ids_distinct; eauto.
Qed.

(* ---- a call that gives up leaves the connection closed ---- *)
Definition abandon_closed (s : state) (t : tid) : Prop :=
  match ph (thr s t) with
  | Failed EWrite | Failed EPeek => closed s = true
  | Failed ERead => knd (thr s t) <> KApiVersions -> closed s = true
  | _ => True
  end.

Lemma abandon_step : forall s l s', step s l = Some s' ->
  (forall t, abandon_closed s t) -> forall t, abandon_closed s' t.
Proof.
  intros s l s' H A u. pose proof (A u) as Hu. pose proof (closed_mono s l s' H) as CM.
  unfold abandon_closed in *.
  destruct l; step_inv H; unfold thr in *; simp_state;
    try match goal with |- context [Nat.eqb ?a ?b] =>
      let E := fresh "E" in destruct (Nat.eqb a b) eqn:E;
      [apply Nat.eqb_eq in E; subst|apply Nat.eqb_neq in E] end;
    simp_state; auto;
    try (match type of Hu with context [ph ?x] => destruct (ph x) as [| | | | | | | |[]] end; auto; fail);
    try (intros Hk; match goal with Hk' : knd _ = _ |- _ => rewrite Hk' in *; cbn in *; congruence end);
    try (intros Hk; match goal with Hc : closes_on_fatal ?k = false |- _ =>
           destruct k; cbn in Hc; congruence end).
Qed.

Lemma conn_abandon_closes : forall ls s, run init ls = Some s -> forall t, abandon_closed s t.
Proof.
  intros ls s H. eapply (inv_run (fun x => forall t, abandon_closed x t)); [| |exact H].
  - intros x l x' A St. eapply abandon_step; eauto.
  - intros t. unfold abandon_closed, thr. cbn. exact Logic.I.
Qed.

(* ---- once closed, nothing new arrives and only what had arrived can be consumed ---- *)
Lemma closed_step : forall s l s', step s l = Some s' -> closed s = true ->
  (forall f, In f (wire s') -> In f (wire s)) /\
  (forall f, In f (consumed s') -> In f (consumed s) \/ In f (wire s)) /\
  answered s' = answered s.
Proof.
  intros s l s' H C.
  destruct l; step_inv H; cbn; repeat split; intros; auto;
    try contradiction;
    try (rewrite C in *; cbn in *; rewrite ?andb_false_r in *; discriminate).
  all: repeat match goal with E : wire _ = _ |- _ => rewrite E in * end; cbn in *; auto.
  match goal with H : In _ (_ ++ _) |- _ => apply in_app_or in H; destruct H as [H|[H|[]]]; auto end.
Qed.

Lemma conn_closed_final : forall ls s s', closed s = true -> run s ls = Some s' ->
  closed s' = true /\
  (forall f, In f (wire s') -> In f (wire s)) /\
  (forall f, In f (consumed s') -> In f (consumed s) \/ In f (wire s)) /\
  answered s' = answered s.
Proof.
  intros ls s s' C H.
  eapply (inv_run (fun x => closed x = true /\
     (forall f, In f (wire x) -> In f (wire s)) /\
     (forall f, In f (consumed x) -> In f (consumed s) \/ In f (wire s)) /\
     answered x = answered s)); [| |exact H].
  - intros x l x' [Cx [W [K An]]] St. destruct (closed_step x l x' St Cx) as [W' [K' An']].
    split; [eapply closed_mono; eauto|]. repeat split.
    + intros f Hf. apply W, W', Hf.
    + intros f Hf. destruct (K' f Hf) as [Y|Y]; [apply K, Y|right; apply W, Y].
    + congruence.
  - repeat split; auto.
Qed.

(* ---- refutation witnesses (Conn.ApiVersions does not close on a body read error) ---- *)
Definition C06_conn_abandon_closes_full_statement : Prop :=
  forall ls s, run init ls = Some s ->
  forall t e, ph (thr s t) = Failed e -> e <> ENoProgress -> closed s = true.

Definition apiversions_witness : list label :=
  [Enter 1 KApiVersions; LockW 1; Send 1 true true; Arrive 1; LockR 1; PeekOwn 1;
   Deadline 1;                                   (* time-out in the middle of the body *)
   Enter 2 KDo; LockW 2; Send 2 true true; LockR 2;
   PeekGarbage 2;                                (* the left-over bytes carry id 2 *)
   ReadDone 2 ROk]%nat.


Lemma run_witness : forall ls (P : state -> bool),
  match run init ls with Some s => P s | None => false end = true ->
  exists s, run init ls = Some s /\ P s = true.
Proof. intros ls P H. destruct (run init ls) as [s|]; [exists s; auto|discriminate]. Qed.

Lemma apiversions_abandon_witness :
  exists ls s t, run init ls = Some s /\ ph (thr s t) = Failed ERead /\ closed s = false /\
                 misaligned s = true.
Proof.
  exists (firstn 7 apiversions_witness).
  destruct (run_witness (firstn 7 apiversions_witness)
    (fun s => match ph (thr s 1%nat) with Failed ERead => negb (closed s) && misaligned s | _ => false end))
    as [s [R P]]; [vm_compute; reflexivity|].
  exists s, 1%nat. split; [exact R|].
  destruct (ph (thr s 1%nat)) as [| | | | | | | |[]]; try discriminate.
  apply andb_prop in P. destruct P as [P1 P2]. repeat split; auto.
  destruct (closed s); [discriminate|reflexivity].
Qed.

Lemma abandon_full_refuted : ~ C06_conn_abandon_closes_full_statement.
Proof.
  intros H. destruct apiversions_abandon_witness as [ls [s [t [R [P [C M]]]]]].
  rewrite (H ls s R t ERead P) in C; discriminate.
Qed.

Lemma stale_delivery_witness :
  exists ls s t, run init ls = Some s /\ ph (thr s t) = Done ROk /\ got (thr s t) = None /\
                 closed s = false.
Proof.
  exists apiversions_witness.
  destruct (run_witness apiversions_witness
    (fun s => match ph (thr s 2%nat), got (thr s 2%nat) with
              | Done ROk, None => negb (closed s) | _, _ => false end))
    as [s [R P]]; [vm_compute; reflexivity|].
  exists s, 2%nat. split; [exact R|].
  destruct (ph (thr s 2%nat)) as [| | | | | | |[]|]; try discriminate.
  destruct (got (thr s 2%nat)); try discriminate.
  repeat split; auto. destruct (closed s); [discriminate|reflexivity].
Qed.
