(* Proofs/ConnMuxOwn.v — own-response, distinct ids, abandonment closes, nothing after
   close; the ApiVersions refutation. *)
From Coq Require Import List ZArith Bool Arith Lia.
From KV Require Import Model.ConnMux Proofs.ConnMuxBase Proofs.ConnMuxProofs.
Import ListNotations.
Local Open Scope Z_scope.

(* ---- monotone flags and counters ---- *)
Lemma closed_mono : forall s l s', step s l = Some s' -> closed s = true -> closed s' = true.
Proof. intros s l s' H C. destruct l; step_inv H; cbn; auto. Qed.

Lemma misaligned_mono : forall s l s', step s l = Some s' -> misaligned s = true -> misaligned s' = true.
Proof. intros s l s' H C. destruct l; step_inv H; cbn; auto. Qed.

Lemma nsend_mono : forall s l s', step s l = Some s' -> nsend s <= nsend s'.
Proof. intros s l s' H. destruct (step_global s l s' H) as [[G _]|[G _]]; lia. Qed.

Lemma consumed_mono : forall s l s' f, step s l = Some s' -> In f (consumed s) -> In f (consumed s').
Proof.
  intros s l s' f H C. destruct l; step_inv H; cbn; auto.
  apply in_or_app. left. exact C.
Qed.

(* ---- ids of requests that were sent are pairwise distinct ---- *)
Lemma ids_distinct : forall s t u, Inv s -> nsend s < ID_BOUND ->
  presend (ph (thr s t)) = false -> presend (ph (thr s u)) = false ->
  rid (thr s t) = rid (thr s u) -> t = u.
Proof.
  intros s t u I B Pt Pu E.
  destruct (i_post s I t Pt) as [Xt Rt]. destruct (i_post s I u Pu) as [Xu Ru].
  apply (i_inj s I t u Pt Pu). apply wrap32_inj; [congruence|]. unfold ID_BOUND in B. lia.
Qed.

(* ---- own response ---- *)
Definition holds_own (s : state) (t : tid) : Prop :=
  match ph (thr s t) with
  | Reading | InBatch | Done _ =>
    exists f, got (thr s t) = Some f /\ fid f = rid (thr s t) /\ fown f = t /\ In f (consumed s)
  | _ => True
  end.

Definition OwnInv (s : state) : Prop :=
  misaligned s = false -> nsend s < ID_BOUND -> forall t, holds_own s t.

Lemma OwnInv_init : OwnInv init.
Proof. intros _ _ t. unfold holds_own. cbn. exact I. Qed.

Lemma holds_own_keep : forall s s' t,
  holds_own s t -> thr s' t = thr s t -> (forall f, In f (consumed s) -> In f (consumed s')) ->
  holds_own s' t.
Proof.
  intros s s' t H E C. unfold holds_own in *. rewrite E.
  destruct (ph (thr s t)); auto; destruct H as [f [A [B [D F]]]]; exists f; auto.
Qed.

Ltac simp_state :=
  cbn [threads lookup ph got rid set_ph consumed add_consumed set_inflight set_wire set_rlock
       set_wlock set_closed set_misaligned bump_id upd_thread add_answered fid fown
       misaligned nsend wire closed knd seqn reached] in *.

(* one step preserves "every call past its header holds its own frame", given that in the
   pre-state a peeking call whose id equals the id of a frame on the wire is that frame's owner *)
Lemma own_step_gen : forall s l s', Inv s ->
  (misaligned s = false -> forall t, holds_own s t) -> step s l = Some s' ->
  (forall t f, ph (thr s t) = Peeking -> In f (wire s) -> fid f = rid (thr s t) -> fown f = t) ->
  misaligned s' = false -> forall t, holds_own s' t.
Proof.
  intros s l s' Iv O H Dist M' u.
  assert (M : misaligned s = false).
  { destruct (misaligned s) eqn:E; [|reflexivity]. rewrite (misaligned_mono s l s' H E) in M'. discriminate. }
  pose proof (O M u) as Hu.
  destruct l; step_inv H;
    try (eapply holds_own_keep; [exact Hu|reflexivity|intros f0 Hf0; exact Hf0]; fail);
    try (cbn in M'; discriminate);
    try congruence.
  all: unfold holds_own, thr in *; simp_state;
    match goal with |- context [Nat.eqb ?a ?b] =>
      let E := fresh "E" in destruct (Nat.eqb a b) eqn:E;
      [apply Nat.eqb_eq in E; subst|apply Nat.eqb_neq in E] end;
    simp_state;
    try exact Logic.I;
    try (match goal with Hp : ph (lookup _ _) = _ |- _ => rewrite Hp in Hu end);
    try (match type of Hu with context [ph ?x] => destruct (ph x) end; auto;
         destruct Hu as [f0 [A1 [A2 [A3 A4]]]]; exists f0;
         repeat split; auto; try (apply in_or_app; left; exact A4); fail);
    try (destruct Hu as [f0 [A1 [A2 [A3 A4]]]]; exists f0; repeat split; auto; fail).
  (* PeekOwn by u itself: the head frame is the one produced for u *)
  exists f. apply andb_prop in Heqb. destruct Heqb as [_ Ef]. apply Z.eqb_eq in Ef.
  repeat split; auto.
  - apply Dist; [exact Heqp|try rewrite Heql; left; reflexivity|exact Ef].
  - apply in_or_app. right. left. reflexivity.
Qed.

Lemma OwnInv_step : forall s l s', Inv s -> OwnInv s -> step s l = Some s' -> OwnInv s'.
Proof.
  intros s l s' Iv O H M' B'.
  assert (B : nsend s < ID_BOUND) by (pose proof (nsend_mono s l s' H); lia).
  eapply (own_step_gen s l s' Iv); [|exact H| |exact M'].
  - intros M. apply O; assumption.
  - intros t f Pt Hf Ef.
    assert (Hf' : In f (consumed s ++ wire s)) by (apply in_or_app; right; exact Hf).
    destruct (i_frames s Iv f Hf') as [R [Ei _]].
    apply (ids_distinct s); auto.
    + apply presend_false_of_reached; auto.
    + rewrite Pt. reflexivity.
    + congruence.
Qed.

Lemma Own_run : forall ls s, run init ls = Some s -> Inv s /\ OwnInv s.
Proof.
  intros ls s H.
  eapply (inv_run (fun x => Inv x /\ OwnInv x)); [|split; [exact Inv_init|exact OwnInv_init]|exact H].
  intros x l x' [A B] St. split; [eapply Inv_step|eapply OwnInv_step]; eauto.
Qed.

Definition completed (p : phase) : Prop :=
  match p with Reading | InBatch | Done _ => True | _ => False end.

Lemma conn_own_response : forall ls s,
  run init ls = Some s -> aligned s -> nsend s < ID_BOUND ->
  (forall t, completed (ph (thr s t)) ->
     exists f, got (thr s t) = Some f /\ fid f = rid (thr s t) /\ fown f = t /\
               In f (consumed s) /\ In t (answered s)) /\
  NoDup (map fown (consumed s)) /\
  (forall t u, presend (ph (thr s t)) = false -> presend (ph (thr s u)) = false ->
     t <> u -> rid (thr s t) <> rid (thr s u)).
Proof.
  intros ls s H A B. destruct (Own_run ls s H) as [I O]. repeat split.
  - intros t C. pose proof (O A B t) as Ht. unfold holds_own in Ht.
    destruct (ph (thr s t)); try contradiction;
      destruct Ht as [f [G [E [F D]]]]; exists f; repeat split; auto;
      (destruct (i_frames s I f (in_or_app _ _ _ (or_introl D))) as [_ [_ X]]; rewrite F in X; exact X).
  - pose proof (i_nodup s I) as N. rewrite map_app in N. eapply NoDup_app_l; exact N.
  - intros t u Pt Pu Ne E. apply Ne. eapply ids_distinct; eauto.
Qed.

(* ---- a call that gives up leaves the connection closed ---- *)
Definition abandon_closed (s : state) (t : tid) : Prop :=
  match ph (thr s t) with
  | Failed ENoProgress => True
  | Failed _ => closed s = true
  | _ => True
  end.

Lemma abandon_step : forall s l s', step s l = Some s' ->
  (forall t, abandon_closed s t) -> forall t, abandon_closed s' t.
Proof.
  intros s l s' H A u. pose proof (A u) as Hu. pose proof (closed_mono s l s' H) as CM.
  unfold abandon_closed in *.
  destruct l; step_inv H; unfold thr in *; simp_state;
    try match goal with |- context [Nat.eqb ?a ?b] =>
      let E := fresh "E" in destruct (Nat.eqb a b) eqn:E;
      [apply Nat.eqb_eq in E; subst|apply Nat.eqb_neq in E] end;
    simp_state; auto;
    try (match type of Hu with context [ph ?x] => destruct (ph x) as [| | | | | | | |[]] end; auto; fail);
    try (match goal with Hc : closes_on_fatal ?k = false |- _ =>
           destruct k; cbn in Hc; discriminate end).
Qed.

Lemma conn_abandon_closes : forall ls s, run init ls = Some s -> forall t, abandon_closed s t.
Proof.
  intros ls s H. eapply (inv_run (fun x => forall t, abandon_closed x t)); [| |exact H].
  - intros x l x' A St. eapply abandon_step; eauto.
  - intros t. unfold abandon_closed, thr. cbn. exact Logic.I.
Qed.

(* ---- once closed, nothing new arrives and only what had arrived can be consumed ---- *)
Lemma closed_step : forall s l s', step s l = Some s' -> closed s = true ->
  (forall f, In f (wire s') -> In f (wire s)) /\
  (forall f, In f (consumed s') -> In f (consumed s) \/ In f (wire s)) /\
  answered s' = answered s.
Proof.
  intros s l s' H C.
  destruct l; step_inv H; cbn; repeat split; intros; auto;
    try contradiction;
    try (rewrite C in *; cbn in *; rewrite ?andb_false_r in *; discriminate).
  all: repeat match goal with E : wire _ = _ |- _ => rewrite E in * end; cbn in *; auto.
  match goal with H : In _ (_ ++ _) |- _ => apply in_app_or in H; destruct H as [H|[H|[]]]; auto end.
Qed.

Lemma conn_closed_final : forall ls s s', closed s = true -> run s ls = Some s' ->
  closed s' = true /\
  (forall f, In f (wire s') -> In f (wire s)) /\
  (forall f, In f (consumed s') -> In f (consumed s) \/ In f (wire s)) /\
  answered s' = answered s.
Proof.
  intros ls s s' C H.
  eapply (inv_run (fun x => closed x = true /\
     (forall f, In f (wire x) -> In f (wire s)) /\
     (forall f, In f (consumed x) -> In f (consumed s) \/ In f (wire s)) /\
     answered x = answered s)); [| |exact H].
  - intros x l x' [Cx [W [K An]]] St. destruct (closed_step x l x' St Cx) as [W' [K' An']].
    split; [eapply closed_mono; eauto|]. repeat split.
    + intros f Hf. apply W, W', Hf.
    + intros f Hf. destruct (K' f Hf) as [Y|Y]; [apply K, Y|right; apply W, Y].
    + congruence.
  - repeat split; auto.
Qed.


(* ---- the windowed form: no bound on the number of requests a connection carries, only on
   how far apart (in send order) two OUTSTANDING requests are ---- *)
Definition outstanding (s : state) (t : tid) : Prop :=
  ph (thr s t) = Waiting \/ ph (thr s t) = Peeking \/ exists f, In f (wire s) /\ fown f = t.

Definition window (s : state) : Prop :=
  forall t u, outstanding s t -> outstanding s u ->
    - ID_BOUND < seqn (thr s t) - seqn (thr s u) < ID_BOUND.

(* W holds in every state the run visits (including the first and the last) *)
Fixpoint run_within (W : state -> Prop) (s : state) (ls : list label) {struct ls} : Prop :=
  W s /\
  match ls with
  | [] => True
  | l :: ls' => match step s l with Some s' => run_within W s' ls' | None => True end
  end.

Lemma inv_run_within : forall (W P : state -> Prop),
  (forall s l s', W s -> P s -> step s l = Some s' -> P s') ->
  forall ls s s', P s -> run s ls = Some s' -> run_within W s ls -> P s' /\ W s'.
Proof.
  intros W P Hstep. induction ls as [|l ls IH]; intros s s' Ps Hr Hw; simpl in *.
  - inversion Hr; subst. split; [exact Ps|exact (proj1 Hw)].
  - destruct Hw as [Ws Hw]. destruct (step s l) as [s1|] eqn:E; [|discriminate].
    eapply IH; [|exact Hr|exact Hw]. eapply Hstep; eauto.
Qed.

Lemma outstanding_presend : forall s t, Inv s -> outstanding s t -> presend (ph (thr s t)) = false.
Proof.
  intros s t I [H|[H|[f [Hf Ho]]]]; try (rewrite H; reflexivity).
  assert (Hf' : In f (consumed s ++ wire s)) by (apply in_or_app; right; exact Hf).
  destruct (i_frames s I f Hf') as [R _]. rewrite Ho in R. apply presend_false_of_reached; auto.
Qed.

Lemma ids_distinct_window : forall s t u, Inv s -> window s ->
  outstanding s t -> outstanding s u -> rid (thr s t) = rid (thr s u) -> t = u.
Proof.
  intros s t u I W Ot Ou E.
  pose proof (outstanding_presend s t I Ot) as Pt. pose proof (outstanding_presend s u I Ou) as Pu.
  destruct (i_post s I t Pt) as [_ Rt]. destruct (i_post s I u Pu) as [_ Ru].
  apply (i_inj s I t u Pt Pu). apply wrap32_inj; [congruence|].
  pose proof (W t u Ot Ou) as X. unfold ID_BOUND in X. lia.
Qed.

Definition OwnW (s : state) : Prop := misaligned s = false -> forall t, holds_own s t.

Lemma OwnW_step : forall s l s', window s -> Inv s /\ OwnW s -> step s l = Some s' -> Inv s' /\ OwnW s'.
Proof.
  intros s l s' W [Iv O] H. split; [eapply Inv_step; eauto|].
  intros M'. eapply (own_step_gen s l s' Iv O H); [|exact M'].
  intros t f Pt Hf Ef.
  assert (Hf' : In f (consumed s ++ wire s)) by (apply in_or_app; right; exact Hf).
  destruct (i_frames s Iv f Hf') as [_ [Ei _]].
  apply (ids_distinct_window s); auto.
  - right. right. exists f. split; auto.
  - right. left. exact Pt.
  - congruence.
Qed.

Lemma conn_own_response_windowed : forall ls s,
  run init ls = Some s -> run_within window init ls -> aligned s ->
  (forall t, completed (ph (thr s t)) ->
     exists f, got (thr s t) = Some f /\ fid f = rid (thr s t) /\ fown f = t /\
               In f (consumed s) /\ In t (answered s)) /\
  NoDup (map fown (consumed s)) /\
  (forall t u, outstanding s t -> outstanding s u -> t <> u -> rid (thr s t) <> rid (thr s u)).
Proof.
  intros ls s H Hw A.
  destruct (inv_run_within window (fun x => Inv x /\ OwnW x)
              (fun x l x' Wx Px St => OwnW_step x l x' Wx Px St) ls init s
              (conj Inv_init (fun _ t => OwnInv_init eq_refl ltac:(unfold ID_BOUND; cbn; lia) t)) H Hw)
    as [[I O] W].
  repeat split.
  - intros t C. pose proof (O A t) as Ht. unfold holds_own in Ht.
    destruct (ph (thr s t)); try contradiction;
      destruct Ht as [f [G [E [F D]]]]; exists f; repeat split; auto;
      (destruct (i_frames s I f (in_or_app _ _ _ (or_introl D))) as [_ [_ X]]; rewrite F in X; exact X).
  - pose proof (i_nodup s I) as N. rewrite map_app in N. eapply NoDup_app_l; exact N.
  - intros t u Ot Ou Ne E. apply Ne. eapply ids_distinct_window; eauto.
Qed.

(* the total bound implies the window in every visited state: the windowed theorem subsumes
   the bounded one, and its hypothesis is satisfiable by every run below the bound *)
Lemma window_of_bound : forall s, Inv s -> nsend s < ID_BOUND -> window s.
Proof.
  intros s I B t u Ot Ou.
  destruct (i_post s I t (outstanding_presend s t I Ot)) as [Xt _].
  destruct (i_post s I u (outstanding_presend s u I Ou)) as [Xu _]. lia.
Qed.

Lemma nsend_run_mono : forall ls s s', run s ls = Some s' -> nsend s <= nsend s'.
Proof.
  induction ls as [|l ls IH]; intros s s' H; simpl in H.
  - inversion H; subst. lia.
  - destruct (step s l) as [s1|] eqn:E; [|discriminate].
    pose proof (nsend_mono s l s1 E). pose proof (IH s1 s' H). lia.
Qed.

Lemma run_within_of_bound : forall ls s s', Inv s -> run s ls = Some s' -> nsend s' < ID_BOUND ->
  run_within window s ls.
Proof.
  induction ls as [|l ls IH]; intros s s' I H B; simpl in *.
  - inversion H; subst. split; [apply window_of_bound; auto|exact Logic.I].
  - pose proof (nsend_run_mono (l :: ls) s s' H) as Mn.
    split; [apply window_of_bound; auto; lia|].
    destruct (step s l) as [s1|] eqn:E; [|discriminate].
    eapply IH; eauto. eapply Inv_step; eauto.
Qed.

(* ---- giving up releases the read lock (no waiter is left parked on rlock) ---- *)
Lemma fatal_releases_lock : forall s t s',
  (step s (ReadDone t RFatal) = Some s' \/ step s (BatchClose t RFatal) = Some s' \/
   step s (Deadline t) = Some s' \/ step s (PeekFail t) = Some s') ->
  rlock s' = None /\ closed s' = true.
Proof.
  intros s t s' [H|[H|[H|H]]]; step_inv H; cbn; auto;
    match goal with Hc : closes_on_fatal ?k = false |- _ => destruct k; cbn in Hc; discriminate end.
Qed.

(* ---- who may hold the read lock; Batch.Close ---- *)
Definition holder_phase (p : phase) : bool :=
  match p with Peeking | Reading | InBatch => true | _ => false end.

Definition LockInv (s : state) : Prop :=
  forall t, rlock s = Some t -> holder_phase (ph (thr s t)) = true.

Lemma LockInv_init : LockInv init.
Proof. intros t H. cbn in H. discriminate. Qed.

Lemma LockInv_step : forall s l s', LockInv s -> step s l = Some s' -> LockInv s'.
Proof.
  intros s l s' L H u Hu. pose proof (L u) as Lu.
  destruct l; step_inv H; unfold thr in *; simp_state; cbn [rlock] in *;
    try discriminate; try (injection Hu as ->);
    try (rewrite Nat.eqb_refl; reflexivity);
    try match goal with |- context [Nat.eqb ?a ?b] =>
      let E := fresh "E" in destruct (Nat.eqb a b) eqn:E;
      [apply Nat.eqb_eq in E; subst|apply Nat.eqb_neq in E] end;
    simp_state; auto;
    try (specialize (Lu Hu); match goal with Hp : ph (lookup _ _) = _ |- _ => rewrite Hp in Lu end; discriminate).
Qed.

Lemma LockInv_run : forall ls s, run init ls = Some s -> LockInv s.
Proof. intros ls s H. eapply (inv_run LockInv); [|exact LockInv_init|exact H]. intros; eapply LockInv_step; eauto. Qed.

(* Batch.Close releases the read lock, and leaves the connection either closed or exactly where
   it was with respect to frame boundaries (unless the C11 hypothesis label RKafkaLeft is used) *)
Lemma batch_close_at_boundary_or_closed : forall s t r s',
  step s (BatchClose t r) = Some s' -> r <> RKafkaLeft ->
  rlock s' = None /\ (closed s' = true \/ misaligned s' = misaligned s) /\
  holder_phase (ph (thr s' t)) = false.
Proof.
  intros s t r s' H N. step_inv H; try congruence; unfold thr; cbn; rewrite ?Nat.eqb_refl; cbn; auto;
    match goal with Hc : closes_on_fatal ?k = false |- _ => destruct k; cbn in Hc; discriminate end.
Qed.

(* a closed Batch: Close again changes nothing, and Close proper is not enabled a second time *)
Lemma batch_close_idempotent : forall s t s',
  step s (BatchCloseAgain t) = Some s' -> s' = s.
Proof. intros s t s' H. step_inv H; reflexivity. Qed.

Lemma batch_close_once : forall s t r s' r',
  step s (BatchClose t r) = Some s' -> step s' (BatchClose t r') = None.
Proof.
  intros s t r s' r' H. step_inv H; unfold step, thr; cbn; rewrite Nat.eqb_refl; reflexivity.
Qed.

(* in every reachable state a call that does not hold a Batch (any more) does not hold the lock *)
Lemma closed_batch_holds_no_lock : forall ls s t, run init ls = Some s ->
  holder_phase (ph (thr s t)) = false -> rlock s <> Some t.
Proof.
  intros ls s t H P E. rewrite (LockInv_run ls s H t E) in P. discriminate.
Qed.
