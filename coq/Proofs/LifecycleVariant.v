(* Proofs/LifecycleVariant.v — termination measure for Reader.Close.
   Once Close has executed r.stop() ([stopping]: closed, current reader context cancelled, r.stctx
   cancelled) every step that is neither an environment decision, nor the firing of a periodic
   ticker, nor a select branch that races a ready cancellation branch strictly decreases [mu]. *)
From Coq Require Import List Arith Bool Lia.
From KV Require Import Lib.LTS Model.Lifecycle Proofs.LifecycleBase.
Import ListNotations.

Fixpoint sumf {A} (r : A -> nat) (l : list A) {struct l} : nat :=
  match l with [] => 0 | x :: t => r x + sumf r t end.
Lemma sumf_app : forall A (r : A -> nat) l1 l2, sumf r (l1 ++ l2) = sumf r l1 + sumf r l2.
Proof. induction l1; intros; simpl; [reflexivity|rewrite IHl1; lia]. Qed.
Lemma sumf_upd : forall A (r : A -> nat) l i x y, nth_error l i = Some y ->
  sumf r (upd i x l) + r y = sumf r l + r x.
Proof.
  induction l; intros [|i] x y H; simpl in *; try discriminate.
  - inversion H; subst. lia.
  - specialize (IHl _ x _ H). lia.
Qed.
Lemma sumf_upd_le : forall A (r : A -> nat) l i x, sumf r (upd i x l) <= sumf r l + r x.
Proof. induction l; intros [|i] x; simpl; try lia. specialize (IHl i x). lia. Qed.
Lemma sumf_repeat0 : forall A (r : A -> nat) x, sumf r (repeat x 0) = 0.
Proof. reflexivity. Qed.

Definition crk (p : clphase) : nat :=
  match p with CLMark => 6 | CLCancel _ => 5 | CLStop _ => 4 | CLJoin _ => 3 | CLDone _ => 2 | CLMsgs _ => 1 | CLRet => 0 end.
Definition frk (f : fetcher) : nat :=
  match f_ph f with
  | FExit => 0 | FReadTop => 1 | FBackoff => 2 | FSendErr2 => 2 | FSendErr => 3 | FSending _ => 3
  | FLookup _ => 4 | FFetching => 4 | FOffsets => 5 | FInit => 7 end.
Definition krk (k : call) : nat :=
  match k_ph k with
  | PDone _ => 0 | PCWait (Some _) => 1 | PCWait None => 2 | PCSelect => 3 | PCCheck => 4 | PFSelect _ => 5 | PFLock => 6
  | PTAwait => 1 | PTReady => 2 end.
Definition rrk (r : rphase) : nat :=
  match r with
  | RNone => 0 | RExited => 0 | RDone => 1 | RCgWait => 2 | RCgClose => 3 | RNext _ => 4 | RIdle _ => 5
  | RRunErr => 6 | RStartU _ => 16 | RStartC _ => 27 | RSub _ => 28 end.
Definition grk (g : gphase) : nat :=
  match g with
  | GNone => 0 | GExited => 0
  | GLeaveReq LvExit | GLeaveReq LvExitOffer => 1
  | GLeaveConn LvExit | GLeaveConn LvExitOffer => 2
  | GOffer _ _ => 3
  | GLeaveReq (LvReport _) => 4 | GLeaveConn (LvReport _) => 5
  | GCloseWait _ WClosed => 3 | GClose _ WClosed => 4 | GPublish _ => 5
  | GOfetch => 16 | GSync => 17 | GJoin => 18 | GConnect => 19 | GBackoff => 20
  | GCloseWait _ WEnded => 20 | GClose _ WEnded => 21 | GWait _ => 22 end.
Definition trk (lft : nat) (bk : bool) : nat := 2 * lft + (if bk then 0 else 1).
Definition nrk (f : fn) : nat :=
  match n_ph f with
  | NExit => 0 | NRet => 1 | NUnWait => 2 | NUnCancel => 3
  | NRun => 10
  | NTry _ true lft bk => 2 + trk lft bk
  | NTry _ false lft bk => 11 + trk lft bk
  end.
Definition lrk (l : lagphase) : nat :=
  match l with LagOff => 0 | LagExit => 0 | LagTick => 1 | LagWait _ => 2 | LagStart => 5 end.
Definition irk (i : iphase) : nat := match i with IDone => 0 | IConn => 1 | IOrphan => 1 | IDial => 2 | ILookup => 2 end.

Definition mu (s : state) : nat :=
  sumf crk (closers s) + sumf frk (fetchers s) + sumf krk (calls s) + rrk (rph s) + grk (gph s)
  + sumf nrk (fns s) + lrk (lag s) + sumf irk (inners s) + 2 * length (msgs s) + 9 * length (commits s).

Lemma reply_krk : forall c ok s, sumf krk (calls (reply c ok s)) <= sumf krk (calls s).
Proof.
  intros. unfold reply. destruct (nth_error (calls s) c) eqn:E; [|apply le_n].
  destruct (k_ph c0) as [| | | |[rp|]| | |] eqn:P; try apply le_n.
  unfold set_call. cbn. pose proof (sumf_upd _ krk _ _ (mkCall (k_kind c0) (k_ctx c0) (PCWait (Some ok))) _ E) as U.
  assert (R1 : krk c0 = 2) by (unfold krk; rewrite P; reflexivity).
  change (krk (mkCall (k_kind c0) (k_ctx c0) (PCWait (Some ok)))) with 1 in U. lia.
Qed.
Lemma reply_all_krk : forall cs ok s, sumf krk (calls (reply_all cs ok s)) <= sumf krk (calls s).
Proof.
  induction cs; intros; simpl; [lia|]. etransitivity; [apply IHcs|apply reply_krk].
Qed.

Lemma stopping_step : forall s l s', stopping s = true -> step s l = Some s' -> stopping s' = true.
Proof.
  intros s l s' H St. unfold stopping in *. apply andb_true_iff in H as [H H3]. apply andb_true_iff in H as [H1 H2].
  destruct l; step_inv St; unf; try rewrite reply_all_calls_only; rewrite ?H1; cbn; rewrite ?H1, ?H2, ?H3; try reflexivity;
  destr_goal; cbn; rewrite ?H1, ?H2, ?H3; try reflexivity; try congruence;
  repeat match goal with E : closed _ = true |- _ => rewrite E; revert E end; intros; reflexivity.
Qed.

Ltac rank_facts :=
  repeat match goal with
  | P : f_ph ?f = _ |- _ =>
    lazymatch goal with R : frk f = _ |- _ => fail | _ => idtac end;
    let R := fresh "R" in pose proof (eq_refl (frk f)) as R; unfold frk in R at 2; rewrite P in R
  | P : k_ph ?f = _ |- _ =>
    lazymatch goal with R : krk f = _ |- _ => fail | _ => idtac end;
    let R := fresh "R" in pose proof (eq_refl (krk f)) as R; unfold krk in R at 2; rewrite P in R
  | P : n_ph ?f = _ |- _ =>
    lazymatch goal with R : nrk f = _ |- _ => fail | _ => idtac end;
    let R := fresh "R" in pose proof (eq_refl (nrk f)) as R; unfold nrk in R at 2; rewrite P in R
  end.
Ltac upd_facts :=
  repeat match goal with
  | |- context [sumf ?r (upd ?i ?x ?l)] =>
    match goal with
    | H : nth_error l i = Some ?y |- _ =>
      let U := fresh "U" in pose proof (sumf_upd _ r l i x y H) as U;
      let z := fresh "z" in set (z := sumf r (upd i x l)) in *; clearbody z
    end
  end.

Ltac rw_fields :=
  repeat match goal with
  | E : rph ?s = _ |- _ => is_var s; rewrite E in *; revert E
  | E : gph ?s = _ |- _ => is_var s; rewrite E in *; revert E
  | E : lag ?s = _ |- _ => is_var s; rewrite E in *; revert E
  | E : msgs ?s = _ |- _ => is_var s; rewrite E in *; revert E
  | E : commits ?s = _ |- _ => is_var s; rewrite E in *; revert E
  | E : mid ?s = _ |- _ => is_var s; rewrite E in *; revert E
  end; intros.

Theorem variant_proof : forall s l s', stopping s = true -> step s l = Some s' -> progress s l = true -> mu s' < mu s.
Proof.
  intros s l s' H St Pr. unfold stopping in H. apply andb_true_iff in H as [H H3]. apply andb_true_iff in H as [H1 H2].
  destruct l; try (cbn in Pr; discriminate);
  try solve [
    step_inv St;
    unfold progress, is_race, call_ctx, f_cancelled, fcancelled, fn_gen_done in Pr; cbn in Pr;
    rewrite ?H2, ?H3, ?orb_true_r in Pr; try discriminate;
    repeat match goal with E : nth_error _ _ = Some _ |- _ => rewrite E in Pr end;
    rewrite ?H2, ?H3, ?orb_true_r in Pr; cbn in Pr; try discriminate;
    rank_facts;
    unfold mu; unf; try rewrite reply_all_calls_only; rewrite ?H1; destr_goal; cbn; rw_fields; cbn;
    upd_facts; rewrite ?sumf_app, ?app_length; cbn in *; lia ].
  - (* LRetCtx *) step_inv St. destruct (k_ph c0) eqn:P; cbn in Heqb; try discriminate;
    unfold progress, is_race, call_ctx, f_cancelled, fcancelled, fn_gen_done in Pr; cbn in Pr;
    rewrite ?H2, ?H3, ?orb_true_r in Pr; try discriminate;
    repeat match goal with E : nth_error _ _ = Some _ |- _ => rewrite E in Pr end;
    rewrite ?H2, ?H3, ?orb_true_r in Pr; cbn in Pr; try discriminate;
    rank_facts;
    unfold mu; unf; try rewrite reply_all_calls_only; rewrite ?H1; destr_goal; cbn; rw_fields; cbn;
    upd_facts; rewrite ?sumf_app, ?app_length; cbn in *; try lia; destr_goal; cbn in *; try lia; try (destruct reply; lia).
  - (* LCClosed *) step_inv St;
    unfold progress, is_race, call_ctx, f_cancelled, fcancelled, fn_gen_done in Pr; cbn in Pr;
    rewrite ?H2, ?H3, ?orb_true_r in Pr; try discriminate;
    repeat match goal with E : nth_error _ _ = Some _ |- _ => rewrite E in Pr end;
    rewrite ?H2, ?H3, ?orb_true_r in Pr; cbn in Pr; try discriminate;
    rank_facts;
    unfold mu; unf; try rewrite reply_all_calls_only; rewrite ?H1; destr_goal; cbn; rw_fields; cbn;
    upd_facts; rewrite ?sumf_app, ?app_length; cbn in *; try lia; destr_goal; cbn in *; try lia;
    try (match goal with R : context [match ?x with _ => _ end] |- _ => destruct x; lia end).
  - (* LFSeeCancel *) step_inv St;
    unfold progress, is_race, call_ctx, f_cancelled, fcancelled, fn_gen_done in Pr; cbn in Pr;
    rewrite ?H2, ?H3, ?orb_true_r in Pr; try discriminate;
    repeat match goal with E : nth_error _ _ = Some _ |- _ => rewrite E in Pr end;
    rewrite ?H2, ?H3, ?orb_true_r in Pr; cbn in Pr; try discriminate;
    rank_facts;
    unfold mu; unf; try rewrite reply_all_calls_only; rewrite ?H1; destr_goal; cbn; rw_fields; cbn;
    repeat match goal with |- context [sumf irk (upd ?j ?x (inners ?s0))] =>
      let Ule := fresh "Ule" in pose proof (sumf_upd_le _ irk (inners s0) j x) as Ule;
      let zi := fresh "zi" in set (zi := sumf irk (upd j x (inners s0))) in *; clearbody zi end;
    upd_facts; rewrite ?sumf_app, ?app_length; cbn in *; try lia; destr_goal; cbn in *; try lia.
  - (* LGClose *) step_inv St;
    unfold progress, is_race, call_ctx, f_cancelled, fcancelled, fn_gen_done in Pr; cbn in Pr;
    rewrite ?H2, ?H3, ?orb_true_r in Pr; try discriminate;
    repeat match goal with E : nth_error _ _ = Some _ |- _ => rewrite E in Pr end;
    rewrite ?H2, ?H3, ?orb_true_r in Pr; cbn in Pr; try discriminate;
    rank_facts;
    unfold mu; unf; try rewrite reply_all_calls_only; rewrite ?H1; destr_goal; cbn; rw_fields; cbn;
    upd_facts; rewrite ?sumf_app, ?app_length; cbn in *; try lia; destr_goal; cbn in *; try lia.
  - (* LGLeaveCoord *) step_inv St;
    unfold progress, is_race, call_ctx, f_cancelled, fcancelled, fn_gen_done in Pr; cbn in Pr;
    rewrite ?H2, ?H3, ?orb_true_r in Pr; try discriminate;
    repeat match goal with E : nth_error _ _ = Some _ |- _ => rewrite E in Pr end;
    rewrite ?H2, ?H3, ?orb_true_r in Pr; cbn in Pr; try discriminate;
    rank_facts;
    unfold mu; unf; try rewrite reply_all_calls_only; rewrite ?H1; destr_goal; cbn; rw_fields; cbn;
    upd_facts; rewrite ?sumf_app, ?app_length; cbn in *; try lia; destr_goal; cbn in *; try lia.
  - (* LClCommit *) step_inv St;
    unfold progress, is_race, call_ctx, f_cancelled, fcancelled, fn_gen_done in Pr; cbn in Pr;
    rewrite ?H2, ?H3, ?orb_true_r in Pr; try discriminate;
    rank_facts;
    unfold mu; unf; try rewrite reply_all_calls_only; rewrite ?H1; cbn;
    repeat match goal with |- context [calls (reply_all ?cs ?b ?x)] =>
      let L := fresh "L" in pose proof (reply_all_krk cs b x) as L; cbn in L;
      let zz := fresh "zz" in set (zz := sumf krk (calls (reply_all cs b x))) in *; clearbody zz end;
    rw_fields; cbn; upd_facts; rewrite ?sumf_app, ?app_length; cbn in *; try lia; destr_goal; cbn in *; try lia;
    rewrite ?R in *; repeat match goal with U : context [if ?b then _ else _] |- _ => destruct b end; unfold nrk in *; cbn in *; try lia.
  - (* LClSeeStop *) step_inv St;
    unfold progress, is_race, call_ctx, f_cancelled, fcancelled, fn_gen_done in Pr; cbn in Pr;
    rewrite ?H2, ?H3, ?orb_true_r in Pr; try discriminate;
    rank_facts;
    unfold mu; unf; try rewrite reply_all_calls_only; rewrite ?H1; cbn;
    repeat match goal with |- context [calls (reply_all ?cs ?b ?x)] =>
      let L := fresh "L" in pose proof (reply_all_krk cs b x) as L; cbn in L;
      let zz := fresh "zz" in set (zz := sumf krk (calls (reply_all cs b x))) in *; clearbody zz end;
    rw_fields; cbn; upd_facts; rewrite ?sumf_app, ?app_length; cbn in *; try lia; destr_goal; cbn in *; try lia;
    rewrite ?R in *; repeat match goal with U : context [if ?b then _ else _] |- _ => destruct b end; unfold nrk in *; cbn in *; try lia.
Qed.

Theorem variant_partial_proof : forall s l s', stopping s = true -> step s l = Some s' ->
  stopping s' = true /\ (progress s l = true -> mu s' < mu s).
Proof. intros s l s' H St. split; [exact (stopping_step s l s' H St)|exact (variant_proof s l s' H St)]. Qed.
