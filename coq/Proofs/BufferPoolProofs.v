(* Proofs/BufferPoolProofs.v — a pooled buffer is never held by two live readers as long as
   every acquire is released exactly once (no ReleaseAgain). *)
From Coq Require Import List Arith Bool Lia Permutation.
From KV Require Import Model.BufferPool.
Import ListNotations.

Definition BInv (s : bstate) : Prop :=
  NoDup (bfree s ++ map snd (bheld s)) /\
  (forall b, In b (bfree s ++ map snd (bheld s)) -> b < bnext s) /\
  NoDup (map fst (bheld s)).

Lemma holds_in : forall o l b, holds o l = Some b -> In (o, b) l.
Proof.
  induction l as [|[o' b'] l IH]; intros b H; simpl in H; [discriminate|].
  destruct (Nat.eqb o' o) eqn:E.
  - apply Nat.eqb_eq in E. inversion H; subst. left; reflexivity.
  - right. apply IH. exact H.
Qed.

Lemma holds_none : forall o l, holds o l = None -> ~ In o (map fst l).
Proof.
  induction l as [|[o' b'] l IH]; intros H; simpl in *; [tauto|].
  destruct (Nat.eqb o' o) eqn:E; [discriminate|]. apply Nat.eqb_neq in E.
  intros [X|X]; [congruence|]. apply IH; auto.
Qed.

Lemma drop_owner_spec : forall o l b, holds o l = Some b -> NoDup (map fst l) ->
  exists l1 l2, l = l1 ++ (o, b) :: l2 /\ drop_owner o l = l1 ++ l2.
Proof.
  induction l as [|[o' b'] l IH]; intros b H N; simpl in *; [discriminate|].
  destruct (Nat.eqb o' o) eqn:E.
  - apply Nat.eqb_eq in E. inversion H; subst. exists [], l. split; reflexivity.
  - inversion N; subst. destruct (IH b H H3) as [l1 [l2 [A B]]].
    exists ((o', b') :: l1), l2. split; simpl; congruence.
Qed.

Lemma BInv_init : BInv binit.
Proof. repeat split; simpl; try constructor; intros b []. Qed.

Lemma BInv_step : forall s l s', disciplined l = true -> BInv s -> bstep s l = Some s' -> BInv s'.
Proof.
  intros s l s' D [N [B O]] H. destruct l; simpl in D; try discriminate; unfold bstep in H.
  - (* Acquire *)
    destruct (holds o (bheld s)) eqn:Ho; [discriminate|]. pose proof (holds_none _ _ Ho) as No.
    destruct (bfree s) as [|b f] eqn:Ef; inversion H; subst; clear H; simpl in *.
    + repeat split; simpl.
      * constructor; [|exact N]. intros X. apply B in X. lia.
      * intros b [X|X]; [lia|]. apply B in X. lia.
      * constructor; assumption.
    + repeat split; simpl.
      * eapply Permutation_NoDup; [apply Permutation_middle|exact N].
      * intros x X. apply B. apply in_app_or in X. destruct X as [X|[X|X]].
        -- right. apply in_or_app. left; exact X.
        -- left. exact X.
        -- right. apply in_or_app. right; exact X.
      * constructor; assumption.
  - (* Release *)
    destruct (holds o (bheld s)) as [b|] eqn:Ho; [|discriminate]. inversion H; subst; clear H; simpl.
    destruct (drop_owner_spec o (bheld s) b Ho O) as [l1 [l2 [E1 E2]]]. rewrite E2. rewrite E1 in *.
    rewrite map_app in *. simpl in *.
    repeat split.
    + simpl. rewrite map_app.
      assert (P : Permutation (bfree s ++ map snd l1 ++ b :: map snd l2)
                              (b :: bfree s ++ map snd l1 ++ map snd l2)).
      { rewrite app_assoc. rewrite (app_assoc (bfree s)). symmetry. apply Permutation_middle. }
      eapply Permutation_NoDup; [exact P|exact N].
    + intros x X. apply B. simpl in X. rewrite map_app in X.
      destruct X as [X|X]; [subst; apply in_or_app; right; apply in_or_app; right; left; reflexivity|].
      apply in_app_or in X. destruct X as [X|X]; [apply in_or_app; left; exact X|].
      apply in_app_or in X. apply in_or_app. right. apply in_or_app.
      destruct X as [X|X]; [left; exact X|right; right; exact X].
    + simpl. rewrite map_app. apply NoDup_remove_1 in O. exact O.
Qed.

Lemma BInv_run : forall ls s s', forallb disciplined ls = true -> BInv s -> brun s ls = Some s' -> BInv s'.
Proof.
  induction ls as [|l ls IH]; intros s s' D I H; simpl in *.
  - inversion H; subst; exact I.
  - apply andb_prop in D. destruct D as [D1 D2].
    destruct (bstep s l) as [s1|] eqn:E; [|discriminate].
    eapply IH; [exact D2| |exact H]. eapply BInv_step; eauto.
Qed.

(* two live readers never hold the same buffer *)
Lemma buffer_exclusive : forall ls s, forallb disciplined ls = true -> brun binit ls = Some s ->
  forall o1 o2 b, In (o1, b) (bheld s) -> In (o2, b) (bheld s) -> o1 = o2.
Proof.
  intros ls s D H o1 o2 b H1 H2.
  destruct (BInv_run ls binit s D BInv_init H) as [N [_ O]].
  assert (N' : NoDup (map snd (bheld s))).
  { clear - N. induction (bfree s) as [|a l IH]; simpl in N; [exact N|]. inversion N; subst. auto. }
  clear N. rename N' into N.
  revert N O H1 H2. generalize (bheld s). induction l as [|[o' b'] l IH]; intros N O H1 H2; [contradiction|].
  simpl in *. apply NoDup_cons_iff in N. destruct N as [Nb N]. apply NoDup_cons_iff in O. destruct O as [_ O].
  destruct H1 as [X|X]; destruct H2 as [Y|Y].
  - congruence.
  - inversion X; subst. exfalso. apply Nb. apply in_map_iff. exists (o2, b). split; auto.
  - inversion Y; subst. exfalso. apply Nb. apply in_map_iff. exists (o1, b). split; auto.
  - eapply IH; eauto.
Qed.
