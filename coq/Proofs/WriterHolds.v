(* Proofs/WriterHolds.v — the extracted boolean history predicates of Model/Writer.v that the
   correspondence run evaluates on recorded histories are TRUE on every run of the model
   (for those predicates where this reflection has been proved). *)
From Coq Require Import List NArith Bool Arith Lia.
From KV Require Import Lib.LTS Model.Writer Proofs.WriterStmts Proofs.WriterBase Proofs.WriterC08.
Import ListNotations.

Lemma C08_limits_holds_runs :
  forall cfg ls s, cfg_ok cfg -> runs cfg ls s -> C08_limits_holds cfg (s_journal s) = true.
Proof.
  intros cfg ls s Hok Hr. unfold C08_limits_holds. apply forallb_forall. intros a Ha.
  destruct (C08_limits_proof cfg ls s Hok Hr a Ha) as (H1 & H2 & _ & H4).
  rewrite !andb_true_iff. repeat split.
  - apply Nat.leb_le; exact H1.
  - apply N.leb_le; exact H2.
  - apply forallb_forall. intros m Hm. apply tp_eqb_eq. apply H4; exact Hm.
Qed.
