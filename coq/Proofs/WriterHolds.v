(* Proofs/WriterHolds.v — the extracted boolean history predicates of Model/Writer.v that the
   correspondence run evaluates on recorded histories are TRUE on every run of the model
   (for those predicates where this reflection has been proved). *)
From Coq Require Import List NArith Bool Arith Lia.
From KV Require Import Lib.LTS Model.Writer Proofs.WriterStmts Proofs.WriterBase Proofs.WriterC08 Proofs.WriterC01a.
Import ListNotations.

Lemma C08_limits_holds_runs :
  forall cfg ls s, cfg_ok cfg -> runs cfg ls s -> C08_limits_holds cfg (s_journal s) = true.
Proof.
  intros cfg ls s Hok Hr. unfold C08_limits_holds. apply forallb_forall. intros a Ha.
  destruct (C08_limits_proof cfg ls s Hok Hr a Ha) as (H1 & H2 & _ & H4).
  rewrite !andb_true_iff. repeat split.
  - apply Nat.leb_le; exact H1.
  - apply N.leb_le; exact H2.
  - apply forallb_forall. intros m Hm. apply tp_eqb_eq. apply H4; exact Hm.
Qed.

Lemma C01_no_foreign_holds_runs :
  forall cfg ls s, runs cfg ls s -> C01_no_foreign_holds cfg (s_log s) = true.
Proof.
  intros cfg ls s Hr. unfold C01_no_foreign_holds. apply forallb_forall. intros [tp m] Hin.
  simpl. apply tp_eqb_eq. eapply C01_no_foreign_log_proof; eauto.
Qed.

(* the per-partition form the driver evaluates: the fake's log of tp against the journal
   entries of tp *)
Lemma log_is_journal_refl : forall l, 
  (length l =? length l) && forallb (fun xy : (tpart * msg) * (tpart * msg) =>
     tp_eqb (fst (fst xy)) (fst (snd xy)) && N.eqb (m_id (snd (fst xy))) (m_id (snd (snd xy)))) (combine l l) = true.
Proof.
  intros l. rewrite Nat.eqb_refl. simpl. induction l as [|x l IH]; simpl; [reflexivity|].
  rewrite tp_eqb_refl, N.eqb_refl. simpl. exact IH.
Qed.

Lemma log_is_journal_runs :
  forall cfg ls s, runs cfg ls s -> log_is_journal (s_journal s) (s_log s) = true.
Proof.
  intros cfg ls s Hr. unfold log_is_journal.
  destruct (C01_duplicates_only_by_retry_proof cfg ls s Hr) as [H _]. rewrite <- H.
  apply log_is_journal_refl.
Qed.

(* the broker verdict: only code 0 is success, whatever the sign or size of the code *)
From Coq Require Import ZArith.
Lemma code_verdict_sign_independent : forall c : Z,
  (code_err c = None <-> c = 0%Z) /\
  (r_seen (reaction_of_code c) = None <-> c = 0%Z) /\
  (c <> 0%Z -> r_applied (reaction_of_code c) = false /\ exists e, r_seen (reaction_of_code c) = Some e).
Proof.
  intros c. unfold reaction_of_code, code_err, produce_error.
  destruct (Z.eqb c 0) eqn:E.
  - apply Z.eqb_eq in E. subst. simpl. repeat split; auto; intros; congruence.
  - apply Z.eqb_neq in E. simpl. repeat split; intros; try congruence; eauto.
Qed.

(* whatever the option fields hold, the defaulted configuration satisfies cfg_ok *)
Lemma dflt_pos : forall v d, (0 < d)%Z -> (0 < dflt v d)%Z.
Proof. intros v d H. unfold dflt. destruct (Z.ltb 0 v) eqn:E; [apply Z.ltb_lt in E; exact E|exact H]. Qed.

Lemma cfg_of_options_ok : forall o asy wt retr, cfg_ok (cfg_of_options o asy wt retr).
Proof.
  intros. unfold cfg_ok, cfg_of_options; simpl.
  assert (A : (0 < eff_batchSize o)%Z) by (apply dflt_pos; reflexivity).
  assert (B : (0 < eff_maxAttempts o)%Z) by (apply dflt_pos; reflexivity).
  split; lia.
Qed.

(* an acknowledgement that arrives within WriteTimeout (whatever ReadTimeout is) is seen as
   such and ends the retry loop at once; one that arrives later is a lost acknowledgement *)
Lemma ack_within_write_timeout : forall o delay cfg n,
  (delay < eff_writeTimeoutMs o)%Z ->
  timed_reaction o delay = AppliedAcked /\
  r_seen (timed_reaction o delay) = None /\
  after_attempt cfg n (r_seen (timed_reaction o delay)) = PFinish None.
Proof.
  intros o delay cfg n H. unfold timed_reaction, produce_deadline_ms.
  apply Z.ltb_lt in H. rewrite H. simpl. auto.
Qed.

Lemma ack_after_write_timeout : forall o delay,
  (eff_writeTimeoutMs o <= delay)%Z ->
  r_applied (timed_reaction o delay) = true /\ r_seen (timed_reaction o delay) = Some deadline_err.
Proof.
  intros o delay H. unfold timed_reaction, produce_deadline_ms.
  apply Z.ltb_ge in H. rewrite H. simpl. auto.
Qed.

(* NewWriter's configuration: the effective configuration is cfg_of_options of the mapped
   fields; in particular the configured BatchBytes / BatchSize / MaxAttempts are the limits *)
Lemma cfg_of_writer_config_eq : forall c wt retr,
  cfg_of_writer_config c wt retr = cfg_of_options (options_of_writer_config c) (wc_async c) wt retr /\
  batchBytes (cfg_of_writer_config c wt retr) = Z.to_N (dflt (wc_batchBytes c) 1048576) /\
  batchSize (cfg_of_writer_config c wt retr) = Z.to_nat (dflt (wc_batchSize c) 100) /\
  maxAttempts (cfg_of_writer_config c wt retr) = Z.to_nat (dflt (wc_maxAttempts c) 10) /\
  cfg_ok (cfg_of_writer_config c wt retr).
Proof.
  intros. repeat split; try reflexivity. apply cfg_of_options_ok. apply cfg_of_options_ok.
Qed.

(* the specified classification: a cut response (unexpected EOF) and a time-out are retriable,
   a plain EOF, a permanent error and UNKNOWN_SERVER_ERROR are not *)
Lemma retriable_spec_examples :
  retriable_spec 1001%N = true /\ retriable_spec 1005%N = true /\ retriable_spec 1008%N = false /\
  retriable_spec 1006%N = false /\ retriable_spec 65535%N = false /\ retriable_spec 7%N = true /\
  retriable_spec 9%N = false /\ retriable_spec 3%N = true /\ retriable_spec 1%N = false.
Proof. vm_compute. repeat split; reflexivity. Qed.

(* batchMessages observes w.closed on EVERY call, in every state (used writer or not): a call
   that reaches it after Close fails with ErrClosedPipe and nothing else changes *)
Lemma late_assign_always_rejected : forall cfg s c cl,
  closed s = true -> nth_error (s_calls s) c = Some cl -> c_ph cl = CEntered ->
  step cfg s (Assign c) = Some (ret_call s c cl (RErr EClosed)).
Proof. intros cfg s c cl Hc Hn Hp. unfold step. rewrite Hn, Hp, Hc. reflexivity. Qed.

(* the transport NewWriter builds authenticates exactly when the dialer has a SASL mechanism,
   whether or not TLS is configured *)
Lemma transport_of_writer_config_sasl : forall d idle ttl,
  t_sasl (transport_of_writer_config (Some d) idle ttl) = d_sasl d /\
  t_tls (transport_of_writer_config (Some d) idle ttl) = d_tls d /\
  t_clientID (transport_of_writer_config (Some d) idle ttl) = d_clientID d /\
  t_dial (transport_of_writer_config (Some d) idle ttl) = true /\
  (0 < t_idleMs (transport_of_writer_config (Some d) idle ttl) \/ idle < 0)%Z /\
  (0 < t_ttlMs (transport_of_writer_config (Some d) idle ttl) \/ ttl < 0)%Z.
Proof.
  intros d idle ttl. unfold transport_of_writer_config; simpl. repeat split.
  - destruct (Z.eqb idle 0) eqn:E; [left; reflexivity|]. apply Z.eqb_neq in E. lia.
  - destruct (Z.eqb ttl 0) eqn:E; [left; reflexivity|]. apply Z.eqb_neq in E. lia.
Qed.
