(* Proofs/SchemaRoundtrip.v — decode (encode v) = canon v, for every schema type
   accepted by schema_ok, every well-formed value, whatever follows in the stream. *)
From Coq Require Import List NArith ZArith Bool Lia.
From Coq Require Import ZifyN ZifyNat ZifyBool.
From KV Require Import Lib.Bits Lib.Bytes Lib.Varint Model.Schema
  Proofs.SchemaBase Proofs.SchemaDefs Proofs.SchemaPrims Proofs.SchemaEqns.
Import ListNotations.

Arguments put_be : simpl never.
Arguments put_bes : simpl never.
Arguments put_uvarint : simpl never.
Arguments get_bes : simpl never.
Arguments read_uvarint : simpl never.
Arguments read_int : simpl never.
Arguments read_alloc : simpl never.
Arguments read_n : simpl never.

Ltac inj_some H :=
  match type of H with
  | Some ?a = Some ?b => let E := fresh "E" in assert (E : b = a) by congruence; subst b; clear H
  end.

Lemma lenZ_app {A} (a b : list A) : lenZ (a ++ b) = (lenZ a + lenZ b)%Z.
Proof. unfold lenZ. rewrite app_length. lia. Qed.

Lemma bytes_okb_spec l : bytes_okb l = true <-> bytes_ok l.
Proof.
  unfold bytes_okb, bytes_ok. rewrite forallb_forall, Forall_forall.
  unfold is_byteb, is_byte. split; intros H x Hx; specialize (H x Hx); lia.
Qed.

Lemma s64_small x : (x < M63)%N -> s64 x = Z.of_N x.
Proof.
  unfold s64, M63, M64. intros H. rewrite N.mod_small by lia.
  destruct (N.ltb_spec x 9223372036854775808); lia.
Qed.

Lemma put_bes_length w z : length (put_bes w z) = w.
Proof. unfold put_bes. apply put_be_length. Qed.
Lemma put_bes_bytes w z : bytes_ok (put_bes w z).
Proof. unfold put_bes. apply put_be_bytes. Qed.

Lemma in_signed_small w z : (0 < w)%nat -> (- 128 <= z < 128)%Z -> in_signed w z.
Proof.
  intros Hw Hz. unfold in_signed. destruct w as [|w']; [lia|].
  rewrite pow256_S. pose proof (pow256_pos w').
  assert (128 <= 256 * pow256 w' / 2)%N.
  { apply N.div_le_lower_bound; [discriminate|]. lia. }
  lia.
Qed.

Lemma in_signed_2 z : (-32768 <= z < 32768)%Z -> in_signed 2 z.
Proof. unfold in_signed. change (pow256 2 / 2)%N with 32768%N. lia. Qed.
Lemma in_signed_4 z : (- ZM31 <= z < ZM31)%Z -> in_signed 4 z.
Proof. unfold in_signed, ZM31. change (pow256 4 / 2)%N with 2147483648%N. lia. Qed.

Section RT.
Variable c : cfg.
Variable flex : bool.

Definition RT (t : ty) : Prop :=
  forall v bs, wfb flex t v = true -> encode flex t v = Some bs ->
    bytes_ok bs /\ (min_size flex t <= N.of_nat (length bs))%N /\
    forall rest extra al, (0 <= extra)%Z -> (lenZ bs + extra < ZM31)%Z ->
      (al + alloc_of t v <= budget c)%N ->
      decode c flex t (st (bs ++ rest) (lenZ bs + extra) al)
      = Ok (canon t v) (st rest extra (al + alloc_of t v)).

Ltac finish_state := unfold st; f_equal; try lia.

Lemma RT_bool : RT TBool.
Proof.
  intros v bs Hwf Henc. destruct v; try discriminate. cbn [encode] in Henc. inj_some Henc.
  split; [|split].
  - constructor; [|constructor]. unfold is_byte. destruct b; lia.
  - cbn [min_size length]. lia.
  - intros rest extra al He Hs Hb. cbn [decode canon alloc_of].
    set (x := if b then 1%N else 0%N).
    change (read_n 1 (st ([x] ++ rest) (lenZ [x] + extra) al))
      with (read_n (length [x]) (st ([x] ++ rest) (lenZ [x] + extra) al)).
    rewrite read_n_app by (unfold lenZ; cbn [length]; lia). cbn [bind get_be].
    f_equal.
    + unfold x. destruct b; reflexivity.
    + unfold lenZ. cbn [length]. finish_state.
Qed.

Lemma RT_int w : int_width_ok w = true -> RT (TInt w).
Proof.
  intros Hw v bs Hwf Henc. destruct v; try discriminate. cbn [encode] in Henc. inj_some Henc.
  cbn [wfb] in Hwf. apply in_signedb_spec in Hwf.
  assert (Hw0 : (0 < w)%nat).
  { unfold int_width_ok in Hw. destruct w; [discriminate|lia]. }
  split; [apply put_bes_bytes|split].
  - rewrite put_bes_length. cbn. lia.
  - intros rest extra al He Hs Hb. cbn [decode canon alloc_of].
    unfold lenZ in *. rewrite put_bes_length in *.
    rewrite read_int_put by (assumption || lia). cbn [bind]. f_equal. finish_state.
Qed.

Lemma RT_float : RT TFloat64.
Proof.
  intros v bs Hwf Henc. destruct v; try discriminate. cbn [encode] in Henc. inj_some Henc.
  cbn [wfb] in Hwf.
  split; [apply put_be_bytes|split].
  - rewrite put_be_length. cbn. lia.
  - intros rest extra al He Hs Hb. cbn [decode canon alloc_of].
    unfold lenZ in *. rewrite put_be_length in *.
    rewrite <- (put_be_length 8 bits) at 1.
    rewrite read_n_app by (rewrite put_be_length; lia). cbn [bind].
    rewrite get_put_be0 by (change (pow256 8) with M64; lia).
    f_equal. rewrite put_be_length. finish_state.
Qed.

(* a length-prefixed byte string, the four prefix flavours *)
Lemma uv_len_ok n : (Z.of_nat n < ZM31)%Z -> (N.of_nat n + 1 < M64)%N.
Proof. unfold ZM31, M64. lia. Qed.

Lemma RT_string nullable : RT (TString nullable).
Proof.
  intros v bs Hwf Henc. destruct v; try discriminate.
  cbn [wfb] in Hwf. apply andb_true_iff in Hwf as [Hok Hlen]. apply bytes_okb_spec in Hok.
  cbn [encode] in Henc. cbn [min_size canon alloc_of].
  destruct flex eqn:Hflex.
  - (* compact *)
    destruct (nullable && match s with [] => true | _ => false end) eqn:Hnull.
    + inj_some Henc.
      assert (s = []) as -> by (destruct s; [reflexivity|rewrite andb_false_r in Hnull; discriminate]).
      split; [apply put_uvarint_bytes|split].
      * pose proof (put_uvarint_length 0). lia.
      * intros rest extra al He Hs Hb. cbn [decode]. 
        unfold lenZ in *. rewrite read_uvarint_put by (unfold M64; lia). cbn [bind].
        change (0 <? 1)%N with true. cbv iota. f_equal. cbn [length]. finish_state.
    + inj_some Henc.
      split; [apply Forall_app; split; [apply put_uvarint_bytes|exact Hok]|split].
      * rewrite app_length. pose proof (put_uvarint_length (N.of_nat (length s) + 1)). lia.
      * intros rest extra al He Hs Hb. cbn [decode].
        rewrite lenZ_app in *. unfold lenZ in *. rewrite <- app_assoc.
        remember (N.of_nat (length s)) as L eqn:EL.
        assert (HL : (L + 1 < M64)%N) by (unfold ZM31, M64 in *; pose proof (put_uvarint_length (L+1)); lia).
        rewrite read_uvarint_put by (assumption || lia). cbn [bind].
        destruct (N.ltb_spec (L + 1) 1); [lia|].
        replace (L + 1 - 1)%N with L by lia.
        unfold int_of_u64. rewrite s64_small by (unfold M63, M64, ZM31 in *; lia).
        replace (Z.of_N L) with (Z.of_nat (length s)) by lia.
        rewrite read_alloc_app by (unfold ZM31 in *; lia). cbn [bind]. f_equal. finish_state.
  - (* int16 prefix *)
    cbn [orb] in Hlen.
    destruct (nullable && match s with [] => true | _ => false end) eqn:Hnull.
    + inj_some Henc.
      assert (s = []) as -> by (destruct s; [reflexivity|rewrite andb_false_r in Hnull; discriminate]).
      split; [apply put_bes_bytes|split].
      * unfold enc_i16. rewrite put_bes_length. lia.
      * intros rest extra al He Hs Hb. cbn [decode]. unfold enc_i16, lenZ in *. rewrite put_bes_length in *.
        rewrite read_int_put by (try apply in_signed_2; lia). cbn [bind].
        change (-1 <? 0)%Z with true. cbv iota. f_equal. cbn [length]. finish_state.
    + inj_some Henc.
      split; [apply Forall_app; split; [apply put_bes_bytes|exact Hok]|split].
      * rewrite app_length. unfold enc_i16. rewrite put_bes_length. lia.
      * intros rest extra al He Hs Hb. cbn [decode].
        rewrite lenZ_app in *. unfold enc_i16, lenZ in *. rewrite put_bes_length in *. rewrite <- app_assoc.
        rewrite read_int_put by (try apply in_signed_2; lia). cbn [bind].
        destruct (Z.ltb_spec (Z.of_nat (length s)) 0); [lia|].
        rewrite read_alloc_app by (unfold ZM31 in *; lia). cbn [bind]. f_equal. finish_state.
Qed.

Lemma RT_bytes nullable : RT (TBytes nullable).
Proof.
  intros v bs Hwf Henc. destruct v as [| | | |b| | | |]; try discriminate.
  cbn [wfb] in Hwf. apply andb_true_iff in Hwf as [Hok Hlen]. apply bytes_okb_spec in Hok.
  cbn [encode] in Henc. cbn [min_size].
  set (l := match b with None => [] | Some l => l end) in *.
  assert (Hcanon : canon (TBytes nullable) (VBytes b) =
                   if nullable && is_none b then VBytes None else VBytes (Some l)).
  { unfold l. destruct b, nullable; reflexivity. }
  assert (Halloc : alloc_of (TBytes nullable) (VBytes b) = N.of_nat (length l)).
  { unfold l. destruct b; reflexivity. }
  rewrite Hcanon, Halloc. clear Hcanon Halloc.
  change (match b with None => true | Some _ => false end) with (is_none b) in Henc.
  destruct flex eqn:Hflex.
  - destruct (nullable && is_none b) eqn:Hnull.
    + inj_some Henc.
      assert (l = []) as Hl by (unfold l; destruct b; [rewrite andb_false_r in Hnull; discriminate|reflexivity]).
      split; [apply put_uvarint_bytes|split].
      * pose proof (put_uvarint_length 0). lia.
      * intros rest extra al He Hs Hb. cbn [decode].
        unfold lenZ in *. rewrite read_uvarint_put by (unfold M64; lia). cbn [bind].
        change (0 <? 1)%N with true. cbv iota. f_equal. rewrite Hl. cbn [length]. finish_state.
    + inj_some Henc.
      split; [apply Forall_app; split; [apply put_uvarint_bytes|exact Hok]|split].
      * rewrite app_length. pose proof (put_uvarint_length (N.of_nat (length l) + 1)). lia.
      * intros rest extra al He Hs Hb. cbn [decode].
        rewrite lenZ_app in *. unfold lenZ in *. rewrite <- app_assoc.
        remember (N.of_nat (length l)) as L eqn:EL.
        assert (HL : (L + 1 < M64)%N) by (unfold ZM31, M64 in *; lia).
        rewrite read_uvarint_put by (assumption || lia). cbn [bind].
        destruct (N.ltb_spec (L + 1) 1); [lia|].
        replace (L + 1 - 1)%N with L by lia.
        unfold int_of_u64. rewrite s64_small by (unfold M63, M64, ZM31 in *; lia).
        replace (Z.of_N L) with (Z.of_nat (length l)) by lia.
        rewrite read_alloc_app by (unfold ZM31 in *; lia). cbn [bind]. f_equal. finish_state.
  - destruct (nullable && is_none b) eqn:Hnull.
    + inj_some Henc.
      assert (l = []) as Hl by (unfold l; destruct b; [rewrite andb_false_r in Hnull; discriminate|reflexivity]).
      split; [apply put_bes_bytes|split].
      * unfold enc_i32. rewrite put_bes_length. lia.
      * intros rest extra al He Hs Hb. cbn [decode]. unfold enc_i32, lenZ in *. rewrite put_bes_length in *.
        rewrite read_int_put by (try apply in_signed_4; unfold ZM31; lia). cbn [bind].
        change (-1 <? 0)%Z with true. cbv iota. f_equal. rewrite Hl. cbn [length]. finish_state.
    + inj_some Henc.
      split; [apply Forall_app; split; [apply put_bes_bytes|exact Hok]|split].
      * rewrite app_length. unfold enc_i32. rewrite put_bes_length. lia.
      * intros rest extra al He Hs Hb. cbn [decode].
        rewrite lenZ_app in *. unfold enc_i32, lenZ in *. rewrite put_bes_length in *. rewrite <- app_assoc.
        rewrite read_int_put by (try apply in_signed_4; unfold ZM31 in *; lia). cbn [bind].
        destruct (Z.ltb_spec (Z.of_nat (length l)) 0); [lia|].
        rewrite read_alloc_app by (unfold ZM31 in *; lia). cbn [bind]. f_equal. finish_state.
Qed.

Lemma RT_marker : flex = false -> RT TMarker.
Proof.
  intros Hflex v bs Hwf Henc. destruct v; try discriminate. cbn [encode] in Henc. inj_some Henc.
  split; [constructor|split].
  - cbn [min_size length]. rewrite Hflex. lia.
  - intros rest extra al He Hs Hb. cbn [decode canon alloc_of]. rewrite Hflex. cbn [negb app].
    f_equal. unfold lenZ. cbn [length]. finish_state.
Qed.

Lemma RT_records raw0 : RT (TRecords raw0).
Proof.
  intros v bs Hwf Henc. destruct v as [| | | | | | | |raw]; try discriminate.
  cbn [encode] in Henc. inj_some Henc.
  cbn [wfb] in Hwf. apply andb_true_iff in Hwf as [Hok Hshape]. apply bytes_okb_spec in Hok.
  destruct raw as [|b0 [|b1 [|b2 [|b3 body]]]]; try discriminate.
  set (n := get_bes 4 [b0; b1; b2; b3]) in *.
  assert (Hhead : [b0; b1; b2; b3] = put_bes 4 n).
  { unfold n, put_bes, get_bes.
    assert (Hb4 : bytes_ok [b0; b1; b2; b3]).
    { unfold bytes_ok in *. repeat (apply Forall_cons_iff in Hok as [? Hok]). repeat constructor; assumption. }
    pose proof (get_be_lt [b0; b1; b2; b3] Hb4 0) as Hlt. cbn [length] in Hlt.
    set (u := get_be [b0; b1; b2; b3] 0) in *.
    assert (Hu : (u < pow256 4)%N) by lia.
    assert (Hz : Z.to_N ((if (u <? pow256 4 / 2)%N then Z.of_N u else Z.of_N u - Z.of_N (pow256 4)) mod Z.of_N (pow256 4)) = u).
    { change (pow256 4) with 4294967296%N in *. change (4294967296 / 2)%N with 2147483648%N.
      destruct (N.ltb_spec u 2147483648).
      - rewrite Z.mod_small by lia. lia.
      - replace (Z.of_N u - Z.of_N 4294967296)%Z with (Z.of_N u + (-1) * 4294967296)%Z by lia.
        rewrite Z.mod_add by lia. rewrite Z.mod_small by lia. lia. }
    rewrite Hz. unfold u.
    (* put_be 4 (get_be [b0..b3] 0) = [b0..b3] *)
    unfold bytes_ok in Hb4. repeat (apply Forall_cons_iff in Hb4 as [? Hb4]). unfold is_byte in *.
    cbn [get_be]. unfold put_be.
    repeat rewrite N.mul_0_l. repeat rewrite N.add_0_l.
    assert (E3 : ((((b0 * 256 + b1) * 256 + b2) * 256 + b3) mod 256 = b3)%N).
    { rewrite N.add_comm, N.mod_add by discriminate. apply N.mod_small. assumption. }
    assert (D3 : ((((b0 * 256 + b1) * 256 + b2) * 256 + b3) / 256 = (b0 * 256 + b1) * 256 + b2)%N).
    { rewrite N.add_comm, N.div_add by discriminate. rewrite N.div_small by assumption. lia. }
    assert (E2 : (((b0 * 256 + b1) * 256 + b2) mod 256 = b2)%N).
    { rewrite N.add_comm, N.mod_add by discriminate. apply N.mod_small. assumption. }
    assert (D2 : (((b0 * 256 + b1) * 256 + b2) / 256 = b0 * 256 + b1)%N).
    { rewrite N.add_comm, N.div_add by discriminate. rewrite N.div_small by assumption. lia. }
    assert (E1 : ((b0 * 256 + b1) mod 256 = b1)%N).
    { rewrite N.add_comm, N.mod_add by discriminate. apply N.mod_small. assumption. }
    assert (D1 : ((b0 * 256 + b1) / 256 = b0)%N).
    { rewrite N.add_comm, N.div_add by discriminate. rewrite N.div_small by assumption. lia. }
    rewrite E3, D3, E2, D2, E1, D1. rewrite (N.mod_small b0) by assumption. reflexivity. }
  assert (Hn : in_signed 4 n).
  { unfold n, get_bes, in_signed.
    assert (Hb4 : bytes_ok [b0; b1; b2; b3]).
    { unfold bytes_ok in *. repeat (apply Forall_cons_iff in Hok as [? Hok]). repeat constructor; assumption. }
    pose proof (get_be_lt [b0; b1; b2; b3] Hb4 0) as Hlt. cbn [length] in Hlt.
    change (pow256 4) with 4294967296%N in *. change (4294967296 / 2)%N with 2147483648%N.
    destruct (N.ltb_spec (get_be [b0; b1; b2; b3] 0) 2147483648); lia. }
  split; [exact Hok|split].
  - cbn [min_size length]. lia.
  - intros rest extra al He Hs Hb.
    assert (Ha : alloc_of (TRecords raw0) (VRecords (b0 :: b1 :: b2 :: b3 :: body)) = N.of_nat (length body)).
    { cbn [alloc_of length Nat.sub]. f_equal. lia. }
    rewrite Ha in *. clear Ha.
    change (b0 :: b1 :: b2 :: b3 :: body) with ([b0; b1; b2; b3] ++ body) in *.
    cbn [decode canon]. rewrite lenZ_app in *. rewrite <- app_assoc.
    rewrite Hhead. unfold lenZ in *. rewrite put_bes_length in *.
    rewrite read_int_put by (assumption || lia). cbn [bind].
    destruct (Z.ltb_spec n 0) as [Hneg|Hpos].
    + destruct body; [|discriminate]. cbn [length].
      rewrite !app_nil_r. f_equal. finish_state.
    + apply Z.eqb_eq in Hshape. rewrite Hshape.
      rewrite read_alloc_app by (unfold ZM31 in *; lia). cbn [bind]. f_equal.
      finish_state.
Qed.

(* ---- lists of elements / fields ---- *)
Lemma RT_elems elem :
  RT elem -> (1 <= min_size flex elem)%N ->
  forall es bb, wf_list (wfb flex elem) es = true -> enc_list (encode flex elem) es = Some bb ->
    bytes_ok bb /\ (length es <= length bb)%nat /\
    forall fuel rest extra al, (0 <= extra)%Z -> (lenZ bb + extra < ZM31)%Z ->
      (al + alloc_list (alloc_of elem) es <= budget c)%N ->
      (length bb + 1 <= length fuel)%nat ->
      elems_loop (decode c flex elem) fuel (N.of_nat (length es)) (st (bb ++ rest) (lenZ bb + extra) al)
      = Ok (canon_list (canon elem) es, 0%N) (st rest extra (al + alloc_list (alloc_of elem) es)).
Proof.
  intros HRT Hmin. induction es as [|x r IH]; intros bb Hwf Henc.
  - cbn [enc_list] in Henc. inj_some Henc. split; [constructor|split; [cbn; lia|]].
    intros fuel rest extra al He Hs Hb Hf. cbn [length N.of_nat canon_list alloc_list app].
    destruct fuel; cbn [elems_loop]; change (0 =? 0)%N with true; cbv iota;
      f_equal; unfold lenZ; cbn [length]; finish_state.
  - cbn [wf_list] in Hwf. apply andb_true_iff in Hwf as [Hwx Hwr].
    cbn [enc_list] in Henc.
    destruct (encode flex elem x) as [bx|] eqn:Ex; [|discriminate].
    destruct (enc_list (encode flex elem) r) as [br|] eqn:Er; [|discriminate].
    inj_some Henc.
    destruct (HRT x bx Hwx Ex) as [Hbx [Hlx Hdx]].
    destruct (IH br Hwr eq_refl) as [Hbr [Hlr Hdr]].
    split; [apply Forall_app; split; assumption|split].
    + rewrite app_length. cbn [length]. lia.
    + intros fuel rest extra al He Hs Hb Hf.
      rewrite lenZ_app in *. rewrite app_length in Hf. cbn [alloc_list canon_list] in *.
      destruct fuel as [|f0 fuel']; [cbn [length] in Hf; lia|].
      cbn [elems_loop].
      destruct (N.eqb_spec (N.of_nat (length (x :: r))) 0) as [E0|_]; [cbn [length] in E0; lia|].
      cbn [st d_remain].
      destruct (Z.leb_spec (lenZ bx + lenZ br + extra) 0) as [Hle|_]; [unfold lenZ in *; lia|].
      rewrite <- app_assoc.
      replace (lenZ bx + lenZ br + extra)%Z with (lenZ bx + (lenZ br + extra))%Z by lia.
      rewrite Hdx by (unfold lenZ in *; lia).
      replace (N.of_nat (length (x :: r)) - 1)%N with (N.of_nat (length r)) by (cbn [length]; lia).
      rewrite Hdr by (unfold lenZ in *; cbn [length] in *; lia).
      cbn [bind fst snd]. f_equal. finish_state.
Qed.

Lemma RT_fields : forall fields,
  Forall RT fields ->
  forall fs bb, wf_fields (wfb flex) fields fs = true -> enc_fields (encode flex) fields fs = Some bb ->
    bytes_ok bb /\ (min_fields flex fields <= N.of_nat (length bb))%N /\
    forall rest extra al, (0 <= extra)%Z -> (lenZ bb + extra < ZM31)%Z ->
      (al + alloc_fields alloc_of fields fs <= budget c)%N ->
      dec_fields (decode c flex) fields (st (bb ++ rest) (lenZ bb + extra) al)
      = Ok (canon_fields canon fields fs) (st rest extra (al + alloc_fields alloc_of fields fs)).
Proof.
  induction fields as [|ft tr IH]; intros HF fs bb Hwf Henc.
  - destruct fs; [|discriminate]. cbn [enc_fields] in Henc. inj_some Henc.
    split; [constructor|split; [cbn; lia|]].
    intros rest extra al He Hs Hb. cbn [dec_fields canon_fields alloc_fields app].
    f_equal. unfold lenZ. cbn [length]. finish_state.
  - destruct fs as [|fv vr]; [discriminate|].
    apply Forall_cons_iff in HF as [HRT HF].
    cbn [wf_fields] in Hwf. apply andb_true_iff in Hwf as [Hwx Hwr].
    cbn [enc_fields] in Henc.
    destruct (encode flex ft fv) as [bx|] eqn:Ex; [|discriminate].
    destruct (enc_fields (encode flex) tr vr) as [br|] eqn:Er; [|discriminate].
    inj_some Henc.
    destruct (HRT fv bx Hwx Ex) as [Hbx [Hlx Hdx]].
    destruct (IH HF vr br Hwr Er) as [Hbr [Hlr Hdr]].
    split; [apply Forall_app; split; assumption|split].
    + rewrite app_length. cbn [min_fields]. lia.
    + intros rest extra al He Hs Hb.
      rewrite lenZ_app in *. cbn [alloc_fields canon_fields dec_fields] in *.
      rewrite <- app_assoc.
      replace (lenZ bx + lenZ br + extra)%Z with (lenZ bx + (lenZ br + extra))%Z by lia.
      rewrite Hdx by (unfold lenZ in *; lia). cbn [bind].
      rewrite Hdr by (unfold lenZ in *; lia). cbn [bind]. f_equal. finish_state.
Qed.

Lemma RT_array nullable esize elem :
  RT elem -> (1 <= min_size flex elem)%N -> (1 <= esize)%N -> (esize <= 65536)%N ->
  RT (TArray nullable esize elem).
Proof.
  intros HRT Hmin He1 He2 v bs Hwf Henc. destruct v as [| | | | | a pad | | |]; try discriminate.
  rewrite wfb_array_eq in Hwf. rewrite encode_array_eq in Henc. rewrite canon_array_eq, alloc_array_eq.
  apply andb_true_iff in Hwf as [Hpad Hwf]. apply N.eqb_eq in Hpad. subst pad.
  cbv zeta in *. apply andb_true_iff in Hwf as [Hlen Hwl].
  change (negb (0 =? 0)%N) with false in Henc. cbv iota in Henc.
  change (match a with None => true | Some _ => false end) with (is_none a) in Henc.
  set (es := match a with None => [] | Some l => l end) in *.
  destruct (enc_list (encode flex elem) es) as [bb|] eqn:Eb; [|discriminate].
  destruct (RT_elems elem HRT Hmin es bb Hwl Eb) as [Hbb [Hll Hdl]].
  assert (Hcanon : match a with
                   | None => if nullable then VArray None 0 else VArray (Some []) 0
                   | Some es0 => VArray (Some (canon_list (canon elem) es0)) 0
                   end = if nullable && is_none a then VArray None 0
                         else VArray (Some (canon_list (canon elem) es)) 0).
  { unfold es. destruct a, nullable; reflexivity. }
  assert (Halloc : match a with
                   | None => 0%N
                   | Some es0 => (N.of_nat (length es0) * esize + alloc_list (alloc_of elem) es0)%N
                   end = if nullable && is_none a then 0%N
                         else (N.of_nat (length es) * esize + alloc_list (alloc_of elem) es)%N).
  { unfold es. destruct a, nullable; cbn [andb is_none length alloc_list N.of_nat]; lia. }
  rewrite Hcanon, Halloc. clear Hcanon Halloc.
  assert (Hnullcase : nullable && is_none a = true -> es = []).
  { unfold es. destruct a; [rewrite andb_false_r; discriminate|reflexivity]. }
  cbn [min_size].
  (* the shared tail: allocation of the backing array, then the element loop *)
  assert (Hbody : forall rest extra al, (0 <= extra)%Z -> (lenZ bb + extra < ZM31)%Z ->
            (al + (N.of_nat (length es) * esize + alloc_list (alloc_of elem) es) <= budget c)%N ->
            bind (alloc c (Z.of_nat (length es)) esize (st (bb ++ rest) (lenZ bb + extra) al))
              (fun _ s => bind (elems_loop (decode c flex elem) (0%N :: d_in s) (Z.to_N (Z.of_nat (length es))) s)
                            (fun r s => Ok (VArray (Some (fst r)) (snd r)) s))
            = Ok (VArray (Some (canon_list (canon elem) es)) 0)
                 (st rest extra (al + (N.of_nat (length es) * esize + alloc_list (alloc_of elem) es)))).
  { intros rest extra al He Hs Hb.
    rewrite alloc_ok.
    - cbn [bind st d_in].
      replace (Z.to_N (Z.of_nat (length es))) with (N.of_nat (length es)) by lia.
      fold (st (bb ++ rest) (lenZ bb + extra) (al + N.of_nat (length es) * esize)).
      rewrite Hdl.
      + cbn [bind fst snd]. f_equal. finish_state.
      + exact He.
      + exact Hs.
      + lia.
      + cbn [length]. rewrite app_length. lia.
    - lia.
    - unfold max_alloc, ZM31 in *. apply Z.ltb_lt in Hlen. nia.
    - lia. }
  apply Z.ltb_lt in Hlen.
  destruct flex eqn:Hflex.
  - destruct (nullable && is_none a) eqn:Hnull.
    + inj_some Henc.
      split; [apply put_uvarint_bytes|split].
      * pose proof (put_uvarint_length 0). lia.
      * intros rest extra al He Hs Hb. rewrite decode_array_eq. cbv zeta.
        unfold lenZ in *. rewrite read_uvarint_put by (unfold M64; lia). cbn [bind].
        change (0 <? 1)%N with true. cbv iota. f_equal. finish_state.
    + inj_some Henc.
      split; [apply Forall_app; split; [apply put_uvarint_bytes|exact Hbb]|split].
      * rewrite app_length. pose proof (put_uvarint_length (N.of_nat (length es) + 1)). lia.
      * intros rest extra al He Hs Hb. rewrite decode_array_eq. cbv zeta.
        rewrite lenZ_app in *. rewrite <- app_assoc.
        remember (N.of_nat (length es)) as L eqn:EL.
        assert (HL : (L + 1 < M64)%N) by (unfold ZM31, M64 in *; lia).
        pose proof (put_uvarint_length (L + 1)) as Hul.
        unfold lenZ at 1. rewrite read_uvarint_put by (assumption || (unfold lenZ in *; lia)). cbn [bind].
        destruct (N.ltb_spec (L + 1) 1); [lia|].
        replace (L + 1 - 1)%N with L by lia.
        cbn [st d_remain].
        destruct (Z.ltb_spec (Z.of_nat (length (put_uvarint (L + 1))) + lenZ bb + extra - Z.of_nat (length (put_uvarint (L + 1)))) 0);
          [unfold lenZ in *; lia|].
        destruct (Z.ltb_spec (Z.of_nat (length (put_uvarint (L + 1))) + lenZ bb + extra - Z.of_nat (length (put_uvarint (L + 1)))) (Z.of_N L));
          [unfold lenZ in *; lia|].
        cbn [orb].
        replace (Z.of_nat (length (put_uvarint (L + 1))) + lenZ bb + extra - Z.of_nat (length (put_uvarint (L + 1))))%Z
          with (lenZ bb + extra)%Z by lia.
        replace (Z.of_N L) with (Z.of_nat (length es)) by lia.
        subst L. apply Hbody; unfold lenZ in *; lia.
  - destruct (nullable && is_none a) eqn:Hnull.
    + inj_some Henc.
      split; [apply put_bes_bytes|split].
      * unfold enc_i32. rewrite put_bes_length. lia.
      * intros rest extra al He Hs Hb. rewrite decode_array_eq. cbv zeta.
        unfold enc_i32, lenZ in *. rewrite put_bes_length in *.
        rewrite read_int_put by (try apply in_signed_4; unfold ZM31; lia). cbn [bind].
        change (-1 <? 0)%Z with true. cbv iota. f_equal. finish_state.
    + inj_some Henc.
      split; [apply Forall_app; split; [apply put_bes_bytes|exact Hbb]|split].
      * rewrite app_length. unfold enc_i32. rewrite put_bes_length. lia.
      * intros rest extra al He Hs Hb. rewrite decode_array_eq. cbv zeta.
        rewrite lenZ_app in *. rewrite <- app_assoc.
        unfold enc_i32, lenZ in *. rewrite put_bes_length in *.
        rewrite read_int_put by (try apply in_signed_4; unfold ZM31 in *; lia). cbn [bind].
        destruct (Z.ltb_spec (Z.of_nat (length es)) 0); [lia|].
        cbn [st d_remain].
        destruct (Z.ltb_spec (Z.of_nat 4 + Z.of_nat (length bb) + extra - Z.of_nat 4) (Z.of_nat (length es)));
          [lia|].
        replace (Z.of_nat 4 + Z.of_nat (length bb) + extra - Z.of_nat 4)%Z with (Z.of_nat (length bb) + extra)%Z by lia.
        apply Hbody; lia.
Qed.

(* ---- tagged fields ---- *)
Lemma dec_tag_none D id s : forall l i, ~ In id (map fst l) -> dec_tag_from D id s l i = None.
Proof.
  induction l as [|[k ft] r IH]; intros i Hn; cbn [dec_tag_from]; [reflexivity|].
  cbn [map fst In] in Hn. rewrite IH by tauto.
  destruct (Z.eqb_spec k id); [exfalso; apply Hn; left; assumption|reflexivity].
Qed.

Lemma dec_tag_found D id s ft post : ~ In id (map fst post) ->
  forall pre i, dec_tag_from D id s (pre ++ (id, ft) :: post) i = Some ((i + length pre)%nat, D ft s).
Proof.
  intros Hn. induction pre as [|[k a] r IH]; intros i.
  - cbn [app dec_tag_from length]. rewrite dec_tag_none by exact Hn.
    rewrite Z.eqb_refl. f_equal. f_equal. lia.
  - cbn [app dec_tag_from length]. rewrite IH. f_equal. f_equal. lia.
Qed.

Lemma nodupZ_spec l : nodupZ l = true -> NoDup l.
Proof.
  induction l as [|x r IH]; intros H; [constructor|].
  cbn [nodupZ] in H. apply andb_true_iff in H as [Hx Hr]. constructor; [|apply IH; exact Hr].
  intros Hin. apply negb_true_iff in Hx.
  assert (existsb (Z.eqb x) r = true); [|congruence].
  apply existsb_exists. exists x. split; [exact Hin|apply Z.eqb_refl].
Qed.

Lemma set_nth_app {A} (a b : list A) x v : set_nth (a ++ x :: b) (length a) v = a ++ v :: b.
Proof. induction a as [|y a IH]; cbn [app length set_nth]; [reflexivity|]. rewrite IH. reflexivity. Qed.

Lemma canon_tags_length : forall tl vl, length tl = length vl -> length (canon_tags canon tl vl) = length tl.
Proof.
  induction tl as [|[i t] tr IH]; intros [|v vr] H; cbn [canon_tags length] in *; try lia.
  rewrite IH by lia. reflexivity.
Qed.

Lemma canon_tags_app : forall tl1 vl1 tl2 vl2, length tl1 = length vl1 ->
  canon_tags canon (tl1 ++ tl2) (vl1 ++ vl2) = canon_tags canon tl1 vl1 ++ canon_tags canon tl2 vl2.
Proof.
  induction tl1 as [|[i t] tr IH]; intros [|v vr] tl2 vl2 H; cbn [length] in H; try lia; [reflexivity|].
  cbn [app canon_tags]. rewrite IH by lia. reflexivity.
Qed.

Lemma wf_tags_length : forall tl vl, wf_tags (wfb flex) tl vl = true -> length tl = length vl.
Proof.
  induction tl as [|[i t] tr IH]; intros [|v vr] H; cbn [wf_tags] in H; try discriminate; [reflexivity|].
  apply andb_true_iff in H as [_ H]. cbn [length]. rewrite (IH vr H). reflexivity.
Qed.

Section Tags.
Variable tagged : list (Z * ty).
Hypothesis Hnd : NoDup (map fst tagged).
Variable fs : list value.

Lemma tag_loop_zero tl fuel ts s :
  tag_loop c (decode c flex) tl fs fuel 0 ts s = Ok (VStruct fs ts) s.
Proof. destruct fuel; reflexivity. Qed.

(* the loop over the tag buffer, with [k] more entries still to come after the known ones:
   the continuation form lets unknown entries follow (Proofs/SchemaUnknownTags.v) *)
Lemma RT_tags_k : forall cur pre vpre vcur cnt bt,
  tagged = pre ++ cur -> length pre = length vpre ->
  Forall (fun p => is_marker (snd p) = false -> RT (snd p)) cur ->
  Forall (fun p => if is_marker (snd p) then True else (0 <= fst p < ZM31)%Z) cur ->
  wf_tags (wfb flex) cur vcur = true ->
  enc_tags (encode flex) cur vcur = Some (cnt, bt) ->
  bytes_ok bt /\ (2 * N.to_nat cnt <= length bt)%nat /\
  forall k fuel rest extra al, (0 <= k)%Z -> (0 <= extra)%Z -> (lenZ bt + extra < ZM31)%Z ->
    (al + alloc_tags alloc_of cur vcur <= budget c)%N ->
    (N.to_nat cnt <= length fuel)%nat ->
    tag_loop c (decode c flex) tagged fs fuel (Z.of_N cnt + k)
      (canon_tags canon pre vpre ++ zeros_of cur) (st (bt ++ rest) (lenZ bt + extra) al)
    = tag_loop c (decode c flex) tagged fs (skipn (N.to_nat cnt) fuel) k
        (canon_tags canon pre vpre ++ canon_tags canon cur vcur)
        (st rest extra (al + alloc_tags alloc_of cur vcur)).
Proof.
  induction cur as [|[id ft] cur' IH]; intros pre vpre vcur cnt bt Htag Hlen HRT Hids Hwf Henc.
  - destruct vcur; [|discriminate]. cbn [enc_tags] in Henc. injection Henc as <- <-.
    split; [constructor|split; [cbn; lia|]].
    intros k fuel rest extra al Hk He Hs Hb Hf. cbn [zeros_of canon_tags alloc_tags app Z.of_N N.to_nat skipn].
    rewrite Z.add_0_l. f_equal. unfold lenZ; cbn [length]; finish_state.
  - destruct vcur as [|fv vr]; [discriminate|].
    cbn [wf_tags] in Hwf. apply andb_true_iff in Hwf as [Hwx Hwr].
    apply Forall_cons_iff in HRT as [HRTx HRTr]. apply Forall_cons_iff in Hids as [Hidx Hidr].
    cbn [fst snd] in HRTx, Hidx.
    cbn [enc_tags] in Henc.
    destruct (enc_tags (encode flex) cur' vr) as [[cnt' br]|] eqn:Er; [|discriminate].
    assert (Htag' : tagged = (pre ++ [(id, ft)]) ++ cur') by (rewrite <- app_assoc; exact Htag).
    assert (Hlen' : length (pre ++ [(id, ft)]) = length (vpre ++ [fv])) by (rewrite !app_length; cbn; lia).
    destruct (is_marker ft) eqn:Hm.
    + (* a zero-size marker: neither encoded nor decoded *)
      injection Henc as <- <-.
      destruct ft; try discriminate. destruct fv; try discriminate.
      destruct (IH (pre ++ [(id, TMarker)]) (vpre ++ [VUnit]) vr cnt' br Htag' Hlen' HRTr Hidr Hwr Er)
        as [Hbr [Hlr Hdr]].
      split; [exact Hbr|split; [exact Hlr|]].
      intros k fuel rest extra al Hk He Hs Hb Hf.
      cbn [zeros_of zero canon_tags canon alloc_tags is_marker] in *.
      rewrite canon_tags_app in Hdr by exact Hlen. cbn [canon_tags canon] in Hdr.
      rewrite <- !app_assoc in Hdr. cbn [app] in Hdr.
      rewrite N.add_0_l in *. apply Hdr; assumption.
    + destruct (encode flex ft fv) as [bx|] eqn:Ex; [|discriminate].
      injection Henc as <- <-.
      destruct (HRTx eq_refl fv bx Hwx Ex) as [Hbx [Hlx Hdx]].
      destruct (IH (pre ++ [(id, ft)]) (vpre ++ [fv]) vr cnt' br Htag' Hlen' HRTr Hidr Hwr Er)
        as [Hbr [Hlr Hdr]].
      assert (Hidn : (u64 id = Z.to_N id)%N /\ (Z.to_N id < M64)%N /\ int_of_u64 (Z.to_N id) = id).
      { unfold u64, ZM64, ZM31 in *. rewrite Z.mod_small by lia. split; [reflexivity|].
        split; [unfold M64; lia|]. unfold int_of_u64. rewrite s64_small by (unfold M63; lia). lia. }
      destruct Hidn as [Hu64 [Hidlt Hidback]].
      pose proof (put_uvarint_length (u64 id)) as Hl1.
      pose proof (put_uvarint_length (N.of_nat (length bx))) as Hl2.
      split; [repeat (apply Forall_app; split); try apply put_uvarint_bytes; assumption|split].
      * rewrite !app_length. lia.
      * intros k fuel rest extra al Hk He Hs Hb Hf.
        rewrite !lenZ_app in *.
        cbn [alloc_tags] in *. rewrite Hm in *.
        destruct fuel as [|f0 fuel']; [cbn [length] in Hf; lia|].
        replace (N.to_nat (cnt' + 1)) with (S (N.to_nat cnt')) in * by lia.
        cbn [skipn].
        cbn [tag_loop].
        destruct (Z.leb_spec (Z.of_N (cnt' + 1) + k) 0); [lia|].
        rewrite <- !app_assoc.
        unfold lenZ at 1.
        rewrite read_uvarint_put by (try (rewrite Hu64; exact Hidlt); unfold lenZ in *; lia). cbn [bind].
        assert (Hbxlt : (N.of_nat (length bx) < M64)%N) by (unfold M64, ZM31, lenZ in *; lia).
        rewrite read_uvarint_put by (try exact Hbxlt; unfold lenZ in *; lia). cbn [bind].
        rewrite Hu64, Hidback.
        rewrite Htag. rewrite dec_tag_found.
        2:{ rewrite Htag in Hnd. rewrite map_app in Hnd. apply NoDup_remove_2 in Hnd.
            cbn [map fst] in Hnd. intros Hin. apply Hnd. apply in_or_app. right. exact Hin. }
        cbn [Nat.add].
        match goal with |- context [decode c flex ft (st ?i ?r ?a)] =>
          replace r with (lenZ bx + (lenZ br + extra))%Z by (unfold lenZ in *; lia) end.
        rewrite Hdx by (unfold lenZ in *; lia). cbn [bind].
        cbn [zeros_of]. rewrite <- (canon_tags_length pre vpre Hlen) at 1.
        rewrite set_nth_app.
        replace (Z.of_N (cnt' + 1) + k - 1)%Z with (Z.of_N cnt' + k)%Z by lia.
        replace (canon_tags canon pre vpre ++ canon ft fv :: zeros_of cur')
          with ((canon_tags canon pre vpre ++ [canon ft fv]) ++ zeros_of cur')
          by (rewrite <- app_assoc; reflexivity).
        replace (canon_tags canon pre vpre ++ [canon ft fv])
          with (canon_tags canon (pre ++ [(id, ft)]) (vpre ++ [fv]))
          by (rewrite canon_tags_app by exact Hlen; reflexivity).
        rewrite <- Htag.
        rewrite Hdr by (unfold lenZ in *; cbn [length] in *; lia).
        f_equal.
        -- rewrite canon_tags_app by exact Hlen. rewrite <- app_assoc. reflexivity.
        -- finish_state.
Qed.

Lemma RT_tags : forall cur pre vpre vcur cnt bt,
  tagged = pre ++ cur -> length pre = length vpre ->
  Forall (fun p => is_marker (snd p) = false -> RT (snd p)) cur ->
  Forall (fun p => if is_marker (snd p) then True else (0 <= fst p < ZM31)%Z) cur ->
  wf_tags (wfb flex) cur vcur = true ->
  enc_tags (encode flex) cur vcur = Some (cnt, bt) ->
  bytes_ok bt /\ (2 * N.to_nat cnt <= length bt)%nat /\
  forall fuel rest extra al, (0 <= extra)%Z -> (lenZ bt + extra < ZM31)%Z ->
    (al + alloc_tags alloc_of cur vcur <= budget c)%N ->
    (length bt + 1 <= length fuel)%nat ->
    tag_loop c (decode c flex) tagged fs fuel (Z.of_N cnt)
      (canon_tags canon pre vpre ++ zeros_of cur) (st (bt ++ rest) (lenZ bt + extra) al)
    = Ok (VStruct fs (canon_tags canon pre vpre ++ canon_tags canon cur vcur))
         (st rest extra (al + alloc_tags alloc_of cur vcur)).
Proof.
  intros cur pre vpre vcur cnt bt Htag Hlen HRT Hids Hwf Henc.
  destruct (RT_tags_k cur pre vpre vcur cnt bt Htag Hlen HRT Hids Hwf Henc) as [Hb [Hl Hd]].
  split; [exact Hb|split; [exact Hl|]].
  intros fuel rest extra al He Hs Hbud Hf.
  replace (Z.of_N cnt) with (Z.of_N cnt + 0)%Z by lia.
  rewrite Hd by (assumption || lia).
  apply tag_loop_zero.
Qed.
End Tags.

Lemma RT_struct fields tagged :
  Forall RT fields ->
  Forall (fun p => is_marker (snd p) = false -> RT (snd p)) tagged ->
  Forall (fun p => if is_marker (snd p) then True else (0 <= fst p < ZM31)%Z) tagged ->
  NoDup (map fst tagged) ->
  (flex = true \/ tagged = []) ->
  RT (TStruct fields tagged).
Proof.
  intros HF HT Hids Hnd Hflex v bs Hwf Henc. destruct v as [| | | | | | fs ts | |]; try discriminate.
  rewrite wfb_struct_eq in Hwf. apply andb_true_iff in Hwf as [Hwf Hwt].
  rewrite encode_struct_eq in Henc. rewrite canon_struct_eq, alloc_struct_eq, min_size_struct_eq.
  destruct (enc_fields (encode flex) fields fs) as [br|] eqn:Ef; [|discriminate].
  destruct (enc_tags (encode flex) tagged ts) as [[cnt bt]|] eqn:Et; [|discriminate].
  destruct (RT_fields fields HF fs br Hwf Ef) as [Hbr [Hlr Hdr]].
  destruct (RT_tags tagged Hnd (canon_fields canon fields fs) tagged [] [] ts cnt bt eq_refl eq_refl HT Hids Hwt Et) as [Hbt [Hlt Hdt]].
  destruct flex eqn:Hfl.
  - inj_some Henc.
    pose proof (put_uvarint_length cnt) as Hlc.
    split; [repeat (apply Forall_app; split); try apply put_uvarint_bytes; assumption|split].
    + rewrite !app_length. lia.
    + intros rest extra al He Hs Hb. rewrite decode_struct_eq.
      rewrite !lenZ_app in *. rewrite <- !app_assoc.
      replace (lenZ br + (lenZ (put_uvarint cnt) + lenZ bt) + extra)%Z
        with (lenZ br + (lenZ (put_uvarint cnt) + lenZ bt + extra))%Z by lia.
      rewrite Hdr by (unfold lenZ in *; lia). cbn [bind negb].
      assert (Hcnt : (cnt < M64)%N) by (unfold M64, ZM31, lenZ in *; lia).
      unfold lenZ at 1.
      rewrite read_uvarint_put by (try exact Hcnt; unfold lenZ in *; lia). cbn [bind].
      unfold int_of_u64. rewrite s64_small by (unfold M63, ZM31, lenZ in *; lia).
      cbn [st d_in].
      replace (Z.of_nat (length (put_uvarint cnt)) + lenZ bt + extra - Z.of_nat (length (put_uvarint cnt)))%Z
        with (lenZ bt + extra)%Z by lia.
      specialize (Hdt (0%N :: 0%N :: bt ++ rest) rest extra (al + alloc_fields alloc_of fields fs)%N).
      cbn [canon_tags app] in Hdt.
      fold (st (bt ++ rest) (lenZ bt + extra) (al + alloc_fields alloc_of fields fs)).
      rewrite Hdt.
      * f_equal. finish_state.
      * exact He.
      * unfold lenZ in *; lia.
      * lia.
      * cbn [length]. rewrite app_length. lia.
  - inj_some Henc.
    destruct Hflex as [Hx|Hnil]; [discriminate|]. subst tagged.
    destruct ts; [|discriminate].
    split; [exact Hbr|split; [lia|]].
    intros rest extra al He Hs Hb. rewrite decode_struct_eq.
    cbn [alloc_tags canon_tags zeros_of] in *.
    rewrite Hdr by (assumption || lia). cbn [bind negb]. f_equal. finish_state.
Qed.

Lemma ok_fields_forall : forall fields, ok_fields flex fields = true ->
  Forall (fun x => flex && is_marker x = false /\ schema_ok flex x = true) fields.
Proof.
  induction fields as [|x r IH]; intros H; [constructor|].
  cbn [ok_fields] in H. apply andb_true_iff in H as [H Hr]. apply andb_true_iff in H as [H1 H2].
  constructor; [split; [apply negb_true_iff; exact H1|exact H2]|apply IH; exact Hr].
Qed.

Lemma ok_tags_forall : forall tagged, ok_tags flex tagged = true ->
  Forall (fun p => schema_ok flex (snd p) = true /\
                   (if is_marker (snd p) then True else (0 <= fst p < ZM31)%Z)) tagged.
Proof.
  induction tagged as [|[i x] r IH]; intros H; [constructor|].
  cbn [ok_tags] in H. apply andb_true_iff in H as [H Hr]. apply andb_true_iff in H as [H1 H2].
  constructor; [|apply IH; exact Hr]. cbn [fst snd]. split; [exact H2|].
  destruct (is_marker x); [exact I|]. apply andb_true_iff in H1 as [Ha Hb]. lia.
Qed.

Theorem roundtrip : forall t, schema_ok flex t = true -> flex && is_marker t = false -> RT t.
Proof.
  induction t as [| w | | n | n | n e t IH | fields tagged IHf IHt | | r] using ty_ind'; intros Hok Hm.
  - apply RT_bool.
  - apply RT_int. exact Hok.
  - apply RT_float.
  - apply RT_string.
  - apply RT_bytes.
  - cbn [schema_ok] in Hok.
    repeat (apply andb_true_iff in Hok as [Hok ?]).
    apply RT_array; try lia.
    apply IH; [assumption|]. 
    match goal with H : negb (is_marker t) = true |- _ => apply negb_true_iff in H; rewrite H; apply andb_false_r end.
  - rewrite schema_ok_struct_eq in Hok.
    repeat (apply andb_true_iff in Hok as [Hok ?]).
    apply ok_fields_forall in Hok.
    match goal with H : ok_tags flex tagged = true |- _ => apply ok_tags_forall in H; rename H into Htags end.
    apply RT_struct.
    + clear - Hok IHf. induction IHf as [|x r Hx _ IHr]; [constructor|].
      apply Forall_cons_iff in Hok as [[Hm Hs] Hok]. constructor; [apply Hx; assumption|apply IHr; exact Hok].
    + clear - Htags IHt. induction IHt as [|[i x] r Hx _ IHr]; [constructor|].
      apply Forall_cons_iff in Htags as [[Hs _] Htags]. cbn [snd] in *.
      constructor; [|apply IHr; exact Htags].
      cbn [snd]. intros Hnm. apply Hx; [exact Hs|]. rewrite Hnm. apply andb_false_r.
    + clear - Htags. induction Htags as [|p r [_ Hp] _ IHr]; constructor; assumption.
    + apply nodupZ_spec. assumption.
    + match goal with H : flex || _ = true |- _ => apply orb_true_iff in H as [Hf|Hn] end;
        [left; exact Hf|right; destruct tagged; [reflexivity|discriminate]].
  - apply RT_marker. cbn [is_marker] in Hm. rewrite andb_true_r in Hm. exact Hm.
  - apply RT_records.
Qed.
End RT.
