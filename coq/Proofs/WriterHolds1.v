(* Proofs/WriterHolds1.v — the extracted boolean history predicates C01_nil_holds, C01_we_holds,
   C01_compl_holds (Model/Writer.v, Section Hist) are true on every run of the model. *)
From Coq Require Import List NArith Bool Arith Lia ZifyN ZifyNat ZifyBool.
From KV Require Import Lib.LTS Model.Writer Proofs.WriterStmts Proofs.WriterBase Proofs.WriterC01b.
Import ListNotations.

Lemma mem_id_In : forall m l, In m l -> mem_id m l = true.
Proof. unfold mem_id; intros; apply existsb_exists; exists m; split; auto; apply N.eqb_refl. Qed.

Lemma mem_id_ex : forall m l, mem_id m l = true -> exists x, In x l /\ m_id x = m_id m.
Proof.
  unfold mem_id; intros m l H; apply existsb_exists in H; destruct H as (x & Hx & E);
  apply N.eqb_eq in E; eauto.
Qed.

Lemma opt_err_eqb_refl : forall o, opt_err_eqb o o = true.
Proof. destruct o; simpl; auto; apply N.eqb_refl. Qed.

Lemma NoDup_nodupb : forall l, NoDup l -> nodupb l = true.
Proof.
  induction 1; simpl; auto. rewrite IHNoDup, andb_true_r. apply negb_true_iff.
  destruct (existsb (N.eqb x) l) eqn:E; auto. apply existsb_exists in E.
  destruct E as (y & Hy & Ey). apply N.eqb_eq in Ey. subst; contradiction.
Qed.

Lemma In_combine_nth : forall A B (l1 : list A) (l2 : list B) x y, In (x,y) (combine l1 l2) ->
  exists i, nth_error l1 i = Some x /\ nth_error l2 i = Some y.
Proof.
  induction l1; destruct l2; simpl; intros x y H; try contradiction. destruct H as [H|H].
  - inv H. exists 0; auto.
  - destruct (IHl1 _ _ _ H) as (i & ? & ?). exists (S i); auto.
Qed.

(* equal ids in batches: the same message *)
Lemma one_batch_eq : forall pws calls p1 pw1 b1 m1 p2 pw2 b2 m2,
  allpw (Own calls) pws -> NoDup (used_ids calls) ->
  nth_error pws p1 = Some pw1 -> In b1 (pw_all pw1) -> In m1 (b_msgs b1) ->
  nth_error pws p2 = Some pw2 -> In b2 (pw_all pw2) -> In m2 (b_msgs b2) ->
  m_id m1 = m_id m2 -> m1 = m2.
Proof.
  intros pws calls p1 pw1 b1 m1 p2 pw2 b2 m2 O N P1 B1 M1 P2 B2 M2 E.
  destruct (O _ _ P1 _ _ B1 M1) as (c1 & cl1 & i1 & C1 & X1 & R1).
  destruct (O _ _ P2 _ _ B2 M2) as (c2 & cl2 & i2 & C2 & X2 & R2).
  destruct (ids_unique _ _ _ _ _ _ _ _ _ N C1 C2 X1 X2 E) as [-> ->].
  rewrite C1 in C2. inv C2. rewrite X1 in X2. inv X2. auto.
Qed.

(* for a message of a batch, the id test on a journal entry is membership *)
Lemma journal_mem_id : forall cfg s p pw b m a,
  inv1 cfg s -> Inv2 (s_pws s) (s_calls s) (s_journal s) ->
  nth_error (s_pws s) p = Some pw -> In b (pw_all pw) -> In m (b_msgs b) ->
  In a (s_journal s) -> mem_id m (a_msgs a) = true -> In m (a_msgs a).
Proof.
  intros cfg s p pw b m a I1 (O & Dm & Ow & N) Hp Hb Hm Ha Hmem.
  destruct (mem_id_ex _ _ Hmem) as (x & Hx & Ex).
  pose proof (Dm _ Ha) as Hlt. apply nth_error_Some in Hlt.
  destruct (nth_error (s_pws s) (a_pw a)) as [pwa|] eqn:Epa; [|congruence].
  destruct (O _ _ Epa) as (_ & _ & O3). destruct (O3 _ Ha eq_refl) as (ba & Hba & Hka & Hms & _).
  rewrite Hms in Hx. apply fs_all in Hba.
  assert (x = m) by (exact (one_batch_eq _ _ _ _ _ _ _ _ _ _ Ow N Epa Hba Hx Hp Hb Hm Ex)). subst x. rewrite Hms. exact Hx.
Qed.

Lemma fin_in_all : forall pw b o, In (b,o) (pw_fin pw) -> In b (pw_all pw).
Proof.
  intros. unfold pw_all. apply in_app_iff. left. apply in_map_iff. exists (b,o); auto.
Qed.

Lemma acked_attempt_for : forall cfg s m, acked_attempt cfg s m -> acked_for cfg (s_journal s) m = true.
Proof.
  intros cfg s m (a & Ha & H1 & H2 & H3 & H4). unfold acked_for. apply existsb_exists. exists a.
  split; auto. unfold a_acked. rewrite H1, H2, H4, (mem_id_In _ _ H3), tp_eqb_refl. reflexivity.
Qed.

Lemma in_log_of : forall cfg s m, In m (log_of s (tp_of cfg m)) -> in_log cfg (s_log s) m = true.
Proof.
  intros cfg s m H. unfold log_of in H. apply in_map_iff in H. destruct H as ([tp x] & E & H).
  simpl in E. subst x. apply filter_In in H. destruct H as [H1 H2]. simpl in H2.
  unfold in_log. apply existsb_exists. exists (tp, m). split; auto. simpl.
  rewrite H2, N.eqb_refl. reflexivity.
Qed.

Lemma C01_nil_holds_runs : forall cfg ls s, cfg_ok cfg -> runs cfg ls s ->
  C01_nil_holds cfg (s_calls s) (s_journal s) (s_log s) = true.
Proof.
  intros cfg ls s Hok Hr. unfold C01_nil_holds. destruct (async cfg) eqn:Ea; auto. simpl.
  apply forallb_forall. intros cl Hc. apply In_nth_error in Hc. destruct Hc as (c & Hc).
  destruct (c_ph cl) as [| |[| |we]] eqn:Hph; auto.
  apply forallb_forall. intros m Hm.
  destruct (C01_nil_means_logged_proof cfg ls s Hok Hr Ea c cl Hc Hph m Hm) as [H1 H2].
  rewrite (acked_attempt_for _ _ _ H1), (in_log_of _ _ _ H2). reflexivity.
Qed.

Lemma last_seen_spec : forall m j1 a j2,
  mem_id m (a_msgs a) = true -> (forall a', In a' j2 -> mem_id m (a_msgs a') = false) ->
  last_seen (j1 ++ a :: j2) m = Some (a_seen a).
Proof.
  intros m j1 a j2 Ha H2. unfold last_seen. rewrite fold_left_app. simpl. rewrite Ha.
  generalize (Some (a_seen a)). induction j2 as [|a' j2 IH]; simpl; intros acc; auto.
  rewrite (H2 a') by (simpl; auto). apply IH. intros; apply H2; simpl; auto.
Qed.

(* last_attempt_seen, for a message of a finished batch, is what last_seen computes *)
Lemma last_seen_fin : forall cfg s p pw b o m,
  inv1 cfg s -> Inv2 (s_pws s) (s_calls s) (s_journal s) ->
  nth_error (s_pws s) p = Some pw -> In (b,o) (pw_fin pw) -> In m (b_msgs b) ->
  last_seen (s_journal s) m = Some o.
Proof.
  intros cfg s p pw b o m I1 I2 Hp Hf Hm.
  destruct (fin_facts cfg _ _ _ _ _ _ I1 I2 Hp Hf Hm) as (_ & _ & (j1 & a & j2 & EJ & Hma & Hs & Hno) & _).
  rewrite EJ, <- Hs. apply last_seen_spec; [apply mem_id_In; auto|].
  intros a' Ha'. destruct (mem_id m (a_msgs a')) eqn:E; auto. exfalso. apply (Hno _ Ha').
  eapply (journal_mem_id cfg s p pw b m a'); eauto. { eapply fin_in_all; eauto. }
  rewrite EJ. apply in_app_iff. simpl. auto.
Qed.

Lemma C01_we_holds_runs : forall cfg ls s, cfg_ok cfg -> runs cfg ls s ->
  C01_we_holds cfg (s_calls s) (s_journal s) = true.
Proof.
  intros cfg ls s Hok Hr. unfold C01_we_holds.
  apply forallb_forall. intros cl Hc. apply In_nth_error in Hc. destruct Hc as (c & Hc).
  destruct (c_ph cl) as [| |[| |we]] eqn:Hph; auto.
  destruct (C01_write_errors_exact_proof cfg ls s Hok Hr c cl we Hc Hph) as (Hl & (i0 & e0 & He0) & Hall).
  destruct (we_entry cfg ls s Hok Hr c cl we Hc Hph) as (_ & _ & Hent).
  destruct (inv3_runs cfg Hok _ _ Hr) as [[I1 I2] _].
  rewrite Hl, Nat.eqb_refl. simpl.
  replace (existsb (fun e => negb (is_none e)) we) with true.
  2:{ symmetry. apply existsb_exists. exists (Some e0). split; [eapply nth_error_In; eauto|reflexivity]. }
  simpl. apply forallb_forall. intros [m o] Hmo. simpl.
  destruct (In_combine_nth _ _ _ _ _ _ Hmo) as (i & Hi & Ho).
  destruct (Hall _ _ _ Hi Ho) as [Hiff Hlast].
  destruct (Hent _ _ _ Hi Ho) as (p & pw & b & _ & Hp & _ & Hfin & Hin).
  rewrite (last_seen_fin cfg s p pw b o m I1 I2 Hp Hfin Hin), opt_err_eqb_refl, andb_true_r.
  destruct o as [e|]; simpl.
  - destruct (acked_for cfg (s_journal s) m) eqn:Ea; auto. exfalso.
    unfold acked_for in Ea. apply existsb_exists in Ea. destruct Ea as (a & Ha & Hb).
    apply andb_true_iff in Hb. destruct Hb as [Hb H4]. apply andb_true_iff in Hb. destruct Hb as [Hb H3].
    apply andb_true_iff in Hb. destruct Hb as [H1 H2].
    assert (acked_attempt cfg s m).
    { exists a. split; auto. split; auto. split; [unfold a_acked in H2; destruct (a_seen a); [discriminate|auto]|].
      split; [|apply tp_eqb_eq; auto].
      eapply (journal_mem_id cfg s p pw b m a); eauto. eapply fin_in_all; eauto. }
    apply Hiff in H. discriminate.
  - rewrite acked_attempt_for; auto. apply Hiff; auto.
Qed.

Print Assumptions C01_nil_holds_runs.
Print Assumptions C01_we_holds_runs.

Lemma filter_none : forall A (f : A -> bool) l, (forall x, In x l -> f x = false) -> filter f l = [].
Proof.
  induction l; simpl; intros H; auto. rewrite (H a) by auto. apply IHl. intros; apply H; auto.
Qed.

(* a completed message is in exactly one Completion event *)
Lemma filter_unique : forall compl ms o m, NoDup (compl_ids compl) -> In (ms,o) compl -> In m ms ->
  filter (fun ce => mem_id m (fst ce)) compl = [(ms,o)].
Proof.
  induction compl as [|ce rest IH]; simpl; intros ms o m N Hin Hm; [contradiction|].
  unfold compl_ids in N. simpl in N.
  assert (Hrest : forall ce', In ce' rest -> mem_id m (fst ce') = true ->
                  In (m_id m) (flat_map (fun ce => map m_id (fst ce)) rest)).
  { intros ce' Hc Hmem. destruct (mem_id_ex _ _ Hmem) as (x & Hx & Ex).
    apply in_flat_map. exists ce'. split; auto. rewrite <- Ex. apply in_map; auto. }
  destruct (mem_id m (fst ce)) eqn:E.
  - destruct (mem_id_ex _ _ E) as (x & Hx & Ex).
    assert (Hid : In (m_id m) (map m_id (fst ce))) by (rewrite <- Ex; apply in_map; auto).
    assert (Hno : forall ce', In ce' rest -> mem_id m (fst ce') = false).
    { intros ce' Hc. destruct (mem_id m (fst ce')) eqn:E'; auto. exfalso.
      eapply NoDup_app_disj; [exact N|exact Hid|apply Hrest with ce'; auto]. }
    f_equal.
    + destruct Hin as [->|Hin]; auto. exfalso. specialize (Hno _ Hin). simpl in Hno.
      rewrite mem_id_In in Hno; auto; discriminate.
    + apply filter_none. exact Hno.
  - destruct Hin as [->|Hin].
    + simpl in E. rewrite mem_id_In in E; auto; discriminate.
    + apply IH; auto. apply NoDup_app_inv in N. apply N.
Qed.

Lemma C01_compl_holds_runs : forall cfg ls s, cfg_ok cfg -> runs cfg ls s ->
  C01_compl_holds cfg (s_calls s) (s_journal s) (s_compl s) = true.
Proof.
  intros cfg ls s Hok Hr. unfold C01_compl_holds.
  destruct (inv3_runs cfg Hok _ _ Hr) as [[I1 I2] (A3 & K & R & Nc)].
  destruct (C01_completion_once_proof cfg ls s Hok Hr) as (_ & Hb & Hc).
  repeat (apply andb_true_iff; split).
  - apply NoDup_nodupb. exact Nc.
  - apply forallb_forall. intros [ms o] Hce. simpl. apply forallb_forall. intros m Hm.
    destruct (K _ _ Hce) as (p & pw & b & Hp & Hf & ->).
    rewrite (last_seen_fin cfg s p pw b o m I1 I2 Hp Hf Hm). apply opt_err_eqb_refl.
  - apply forallb_forall. intros [ms o] Hce. simpl. apply forallb_forall. intros m Hm.
    destruct (Hb _ _ _ Hce Hm) as (_ & c & cl & Hcl & Hrej & Hin).
    apply existsb_exists. exists cl. split; [eapply nth_error_In; eauto|].
    rewrite Hrej, (mem_id_In _ _ Hin). reflexivity.
  - destruct (async cfg) eqn:Ea; auto. simpl. specialize (Hc eq_refl).
    apply forallb_forall. intros cl Hcl. apply In_nth_error in Hcl. destruct Hcl as (c & Hcl).
    destruct (Hc _ _ Hcl) as [Hnil Hwe].
    destruct (c_ph cl) as [| |[| |we]] eqn:Hph; auto.
    + apply forallb_forall. intros m Hm. destruct (Hnil eq_refl _ Hm) as (ms & Hin & Hmm).
      unfold compl_of. rewrite (filter_unique _ _ _ _ Nc Hin Hmm). reflexivity.
    + apply forallb_forall. intros [m o] Hmo. simpl.
      destruct (In_combine_nth _ _ _ _ _ _ Hmo) as (i & Hi & Ho).
      destruct (Hwe we eq_refl _ _ _ Hi Ho) as (ms & Hin & Hmm).
      unfold compl_of. rewrite (filter_unique _ _ _ _ Nc Hin Hmm). simpl. apply opt_err_eqb_refl.
Qed.

Print Assumptions C01_compl_holds_runs.
