(* Proofs/QueriesClient.v — Client.ListOffsets (listoffset.go): what is reported for one
   (topic, partition) depends only on the requests and the response entries of that key. *)
From Coq Require Import List NArith ZArith Bool Lia.
From Coq Require Import ZifyN ZifyNat ZifyBool.
From KV Require Import Lib.Bits Model.Queries Proofs.QueriesSpec Proofs.QueriesSeekMap.
Import ListNotations. Open Scope Z_scope.

(* ---- the (topic, partition) map ---- *)
Lemma tp_eqb_eq (a b : str * Z) : tp_eqb a b = true <-> a = b.
Proof.
  destruct a as [a1 a2], b as [b1 b2]. unfold tp_eqb. cbn [fst snd].
  rewrite andb_true_iff, str_eqb_eq, Z.eqb_eq. split.
  - intros [-> ->]. reflexivity.
  - intros H. inversion H. auto.
Qed.

Lemma tp_eqb_refl (a : str * Z) : tp_eqb a a = true.
Proof. apply tp_eqb_eq. reflexivity. Qed.

Lemma tpmap_get_set {V} (m : list (str * Z * V)) k v k' :
  tpmap_get (tpmap_set m k v) k' = if tp_eqb k k' then Some v else tpmap_get m k'.
Proof.
  induction m as [|[k0 v0] m IH].
  - reflexivity.
  - cbn [tpmap_set]. destruct (tp_eqb k0 k) eqn:E.
    + apply tp_eqb_eq in E. subst k0. cbn [tpmap_get].
      destruct (tp_eqb k k'); reflexivity.
    + cbn [tpmap_get]. destruct (tp_eqb k0 k') eqn:E2.
      * destruct (tp_eqb k k') eqn:E3; [|reflexivity].
        apply tp_eqb_eq in E2. apply tp_eqb_eq in E3. subst.
        rewrite tp_eqb_refl in E. discriminate.
      * apply IH.
Qed.

(* ---- second loop: applying the response entries ---- *)
Definition po_or_zero (o : option part_offsets) : part_offsets :=
  match o with Some po => po | None => po_zero end.

(* the successive values of one map slot; outer None = panic *)
Fixpoint po_run (o : option part_offsets) (es : list resp_part) {struct es}
  : option (option part_offsets) :=
  match es with
  | [] => Some o
  | p :: r => match po_apply (po_or_zero o) p with
              | None => None
              | Some po' => po_run (Some po') r
              end
  end.

Lemma po_run_app : forall es1 es2 o,
  po_run o (es1 ++ es2) = match po_run o es1 with None => None | Some o' => po_run o' es2 end.
Proof.
  induction es1 as [|p r IH]; intros es2 o.
  - reflexivity.
  - cbn [app po_run]. destruct (po_apply (po_or_zero o) p); [apply IH | reflexivity].
Qed.

Lemma po_run_some : forall es x o',
  po_run (Some x) es = Some o' -> o' = po_apply_all x es.
Proof.
  induction es as [|p r IH]; intros x o' H.
  - cbn in H. injection H as <-. reflexivity.
  - cbn [po_run po_or_zero] in H. cbn [po_apply_all].
    destruct (po_apply x p); [apply IH; exact H | discriminate].
Qed.

Definition part_entries (t : str) (ps : list resp_part) (k : str * Z) : list resp_part :=
  if str_eqb t (fst k) then filter (fun p => rp_partition p =? snd k) ps else [].

Lemma lo_apply_parts_run : forall ps m0 t m k,
  lo_apply_parts m0 t ps = Some m ->
  po_run (tpmap_get m0 k) (part_entries t ps k) = Some (tpmap_get m k).
Proof.
  induction ps as [|p r IH]; intros m0 t m k H.
  - cbn in H. injection H as <-. unfold part_entries. destruct (str_eqb t (fst k)); reflexivity.
  - cbn [lo_apply_parts] in H.
    destruct (po_apply (match tpmap_get m0 (t, rp_partition p) with Some po => po | None => po_zero end) p)
      as [po'|] eqn:Ea; [|discriminate].
    specialize (IH _ _ _ k H). rewrite tpmap_get_set in IH.
    unfold part_entries in *. unfold tp_eqb in IH. cbn [fst snd] in IH.
    destruct (str_eqb t (fst k)) eqn:Et.
    + cbn [filter]. cbn [andb] in IH.
      destruct (rp_partition p =? snd k) eqn:Ep.
      * cbn [po_run]. apply str_eqb_eq in Et. apply Z.eqb_eq in Ep.
        assert (Ek : (t, rp_partition p) = k) by (destruct k; cbn [fst snd] in *; subst; reflexivity).
        rewrite Ek in Ea. unfold po_or_zero. rewrite Ea. exact IH.
      * exact IH.
    + cbn [andb] in IH. exact IH.
Qed.

Lemma entries_for_cons t ts k :
  entries_for (t :: ts) k = part_entries (fst t) (snd t) k ++ entries_for ts k.
Proof. reflexivity. Qed.

Lemma lo_apply_topics_run : forall ts m0 m k,
  lo_apply_topics m0 ts = Some m ->
  po_run (tpmap_get m0 k) (entries_for ts k) = Some (tpmap_get m k).
Proof.
  induction ts as [|t r IH]; intros m0 m k H.
  - cbn in H. injection H as <-. reflexivity.
  - cbn [lo_apply_topics] in H.
    destruct (lo_apply_parts m0 (fst t) (snd t)) as [m'|] eqn:Ep; [|discriminate].
    rewrite entries_for_cons, po_run_app.
    rewrite (lo_apply_parts_run _ _ _ _ k Ep). apply IH. exact H.
Qed.

Lemma listoffsets_client_local : forall u res th m k,
  listoffsets_client u res = Some (th, m) ->
  th = r_throttle res /\
  tpmap_get m k = match entries_for (r_topics res) k with
                  | [] => tpmap_get (lo_prepare u) k
                  | es => po_apply_all (po_start u k) es
                  end.
Proof.
  intros u res th m k H. unfold listoffsets_client in H.
  destruct (lo_apply_topics (lo_prepare u) (r_topics res)) as [m1|] eqn:E; [|discriminate].
  injection H as <- <-. split; [reflexivity|].
  pose proof (lo_apply_topics_run _ _ _ k E) as R.
  destruct (entries_for (r_topics res) k) as [|p es].
  - cbn in R. injection R as R. symmetry. exact R.
  - cbn [po_run] in R. cbn [po_apply_all]. unfold po_start.
    unfold po_or_zero in R.
    destruct (po_apply (match tpmap_get (lo_prepare u) k with Some po => po | None => po_zero end) p);
      [|discriminate].
    apply po_run_some. exact R.
Qed.

Lemma listoffsets_client_isolation : forall u res res' th th' m m' k,
  listoffsets_client u res = Some (th, m) -> listoffsets_client u res' = Some (th', m') ->
  entries_for (r_topics res) k = entries_for (r_topics res') k ->
  tpmap_get m k = tpmap_get m' k.
Proof.
  intros u res res' th th' m m' k H H' E.
  destruct (listoffsets_client_local _ _ _ _ k H) as [_ ->].
  destruct (listoffsets_client_local _ _ _ _ k H') as [_ ->].
  rewrite E. reflexivity.
Qed.

(* ---- first loop: one PartitionOffsets per requested key ---- *)
Definition po_req_run (o : option part_offsets) (p : Z) (tss : list Z) : option part_offsets :=
  match tss with
  | [] => o
  | _ => Some (fold_left po_request tss (match o with Some po => po | None => po_fresh p end))
  end.

Lemma po_req_run_app o p a b :
  po_req_run (po_req_run o p a) p b = po_req_run o p (a ++ b).
Proof.
  destruct a as [|x a]; [reflexivity|].
  destruct b as [|y b].
  - rewrite app_nil_r. reflexivity.
  - unfold po_req_run. cbn [app]. f_equal.
    change (x :: a ++ y :: b) with ((x :: a) ++ (y :: b)).
    rewrite fold_left_app. reflexivity.
Qed.

Definition req_ts (t : str) (rs : list (Z * Z)) (k : str * Z) : list Z :=
  if str_eqb t (fst k) then map snd (filter (fun r : Z * Z => fst r =? snd k) rs) else [].

Definition prep_step (t : str * list (Z * Z)) (m : list (str * Z * part_offsets)) (r : Z * Z) :=
  let key := (fst t, fst r) in
  let po := match tpmap_get m key with Some po => po | None => po_fresh (fst r) end in
  tpmap_set m key (po_request po (snd r)).

Lemma prep_inner : forall rs t m0 k,
  tpmap_get (fold_left (prep_step t) rs m0) k
  = po_req_run (tpmap_get m0 k) (snd k) (req_ts (fst t) rs k).
Proof.
  induction rs as [|r rs IH]; intros t m0 k.
  - unfold req_ts. cbn. destruct (str_eqb (fst t) (fst k)); reflexivity.
  - cbn [fold_left]. rewrite IH. unfold prep_step. cbn zeta.
    rewrite tpmap_get_set. unfold req_ts, tp_eqb. cbn [fst snd].
    destruct (str_eqb (fst t) (fst k)) eqn:Et; cbn [andb]; [|reflexivity].
    cbn [filter]. destruct (fst r =? snd k) eqn:Er; [|reflexivity].
    apply str_eqb_eq in Et. apply Z.eqb_eq in Er.
    assert (Ek : (fst t, fst r) = k) by (destruct k; cbn [fst snd] in *; subst; reflexivity).
    rewrite Ek, Er. cbn [map].
    destruct (map snd (filter (fun r0 : Z * Z => fst r0 =? snd k) rs)); reflexivity.
Qed.

Lemma requested_ts_cons t u k :
  requested_ts (t :: u) k = req_ts (fst t) (snd t) k ++ requested_ts u k.
Proof. reflexivity. Qed.

Lemma prep_outer : forall u m0 k,
  tpmap_get (fold_left (fun m t => fold_left (prep_step t) (snd t) m) u m0) k
  = po_req_run (tpmap_get m0 k) (snd k) (requested_ts u k).
Proof.
  induction u as [|t u IH]; intros m0 k.
  - reflexivity.
  - cbn [fold_left]. rewrite IH, prep_inner, po_req_run_app, requested_ts_cons. reflexivity.
Qed.

Lemma lo_prepare_local : forall u k,
  tpmap_get (lo_prepare u) k = match requested_ts u k with
                               | [] => None
                               | tss => Some (fold_left po_request tss (po_fresh (snd k)))
                               end.
Proof.
  intros u k.
  change (lo_prepare u) with (fold_left (fun m t => fold_left (prep_step t) (snd t) m) u []).
  rewrite prep_outer. unfold po_req_run. cbn [tpmap_get].
  destruct (requested_ts u k); reflexivity.
Qed.

Lemma listoffsets_client_first_last : forall p f l e1 e2 ep1 ep2,
  po_apply_all (fold_left po_request [FirstOffset; LastOffset] (po_fresh p))
    [ {| rp_partition := p; rp_error := e1; rp_ts := FirstOffset; rp_offset := f; rp_epoch := ep1 |};
      {| rp_partition := p; rp_error := e2; rp_ts := LastOffset; rp_offset := l; rp_epoch := ep2 |} ]
  = Some {| po_partition := p; po_first := f; po_last := l; po_offsets := []; po_nil := false;
            po_error := if e2 =? 0 then e1 else e2 |}.
Proof.
  intros p f l e1 e2 ep1 ep2.
  unfold po_apply_all, po_apply, po_request, po_fresh, FirstOffset, LastOffset.
  cbn. destruct (e1 =? 0) eqn:E1; destruct (e2 =? 0) eqn:E2; try reflexivity.
  all: apply Z.eqb_eq in E1; subst; reflexivity.
Qed.
