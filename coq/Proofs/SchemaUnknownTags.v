(* Proofs/SchemaUnknownTags.v — a decoder skips tagged fields it does not know:
   a flexible struct whose tag buffer carries, before and after the entries the schema
   knows, entries with ids the schema does not have, decodes to the same value as without
   them and consumes exactly the bytes of the struct. *)
From Coq Require Import List NArith ZArith Bool Lia.
From Coq Require Import ZifyN ZifyNat ZifyBool.
From KV Require Import Lib.Bits Lib.Bytes Lib.Varint Model.Schema
  Proofs.SchemaBase Proofs.SchemaDefs Proofs.SchemaPrims Proofs.SchemaEqns Proofs.SchemaRoundtrip Proofs.SchemaFrames.
Import ListNotations.

Arguments put_be : simpl never.
Arguments put_bes : simpl never.
Arguments put_uvarint : simpl never.
Arguments get_bes : simpl never.
Arguments read_uvarint : simpl never.
Arguments read_int : simpl never.
Arguments read_alloc : simpl never.
Arguments read_n : simpl never.

(* one tag-buffer entry: (tag id, payload bytes) *)
Definition unk := (Z * list N)%type.

Definition enc_unknown1 (p : unk) : list N :=
  put_uvarint (u64 (fst p)) ++ put_uvarint (N.of_nat (length (snd p))) ++ snd p.

Fixpoint enc_unknown (us : list unk) {struct us} : list N :=
  match us with [] => [] | p :: r => enc_unknown1 p ++ enc_unknown r end.

Fixpoint unknown_alloc (us : list unk) {struct us} : N :=
  match us with [] => 0%N | p :: r => (N.of_nat (length (snd p)) + unknown_alloc r)%N end.

(* ids the schema does not have, in the range of a Go int32 tag, payload made of bytes *)
Definition unknown_ok (tagged : list (Z * ty)) (us : list unk) : Prop :=
  Forall (fun p => ~ In (fst p) (map fst tagged) /\ (0 <= fst p < ZM31)%Z /\ bytes_ok (snd p)) us.

(* the tag buffer with unknown entries before and after the known ones *)
Definition tag_buffer (pre : list unk) (cnt : N) (bt : list N) (post : list unk) : list N :=
  put_uvarint (N.of_nat (length pre) + cnt + N.of_nat (length post)) ++
  enc_unknown pre ++ bt ++ enc_unknown post.

Lemma enc_unknown_bytes tagged us : unknown_ok tagged us -> bytes_ok (enc_unknown us).
Proof.
  induction us as [|p r IH]; intros H; [constructor|].
  apply Forall_cons_iff in H as [[_ [_ Hp]] Hr]. cbn [enc_unknown]. unfold enc_unknown1.
  repeat (apply Forall_app; split); try apply put_uvarint_bytes; [exact Hp|apply IH; exact Hr].
Qed.

Lemma enc_unknown_length us : (2 * length us <= length (enc_unknown us))%nat.
Proof.
  induction us as [|p r IH]; cbn [enc_unknown length]; [lia|].
  unfold enc_unknown1. rewrite !app_length.
  pose proof (put_uvarint_length (u64 (fst p))). pose proof (put_uvarint_length (N.of_nat (length (snd p)))). lia.
Qed.

Section Skip.
Variable c : cfg.
Variable flex : bool.
Variable tagged : list (Z * ty).
Variable fs : list value.

(* the loop passes over unknown entries: the value under construction is untouched, the payload
   is read (and accounted as allocated: d.read makes a buffer for it) and thrown away *)
Lemma skip_unknown : forall us k fuel ts rest extra al,
  unknown_ok tagged us -> (0 <= k)%Z -> (0 <= extra)%Z ->
  (lenZ (enc_unknown us) + extra < ZM31)%Z ->
  (al + unknown_alloc us <= budget c)%N ->
  (length us <= length fuel)%nat ->
  tag_loop c (decode c flex) tagged fs fuel (Z.of_nat (length us) + k) ts
    (st (enc_unknown us ++ rest) (lenZ (enc_unknown us) + extra) al)
  = tag_loop c (decode c flex) tagged fs (skipn (length us) fuel) k ts
      (st rest extra (al + unknown_alloc us)).
Proof.
  induction us as [|[id pl] r IH]; intros k fuel ts rest extra al Hok Hk He Hs Hb Hf.
  - cbn [enc_unknown unknown_alloc length app skipn Z.of_nat]. rewrite Z.add_0_l.
    f_equal. unfold lenZ, st. cbn [length]. f_equal; lia.
  - apply Forall_cons_iff in Hok as [[Hnot [Hid Hpl]] Hokr]. cbn [fst snd] in *.
    cbn [enc_unknown unknown_alloc length] in *. unfold enc_unknown1 in *. cbn [fst snd] in *.
    rewrite !lenZ_app in *.
    destruct fuel as [|f0 fuel']; [cbn [length] in Hf; lia|].
    cbn [skipn]. cbn [tag_loop].
    destruct (Z.leb_spec (Z.of_nat (S (length r)) + k) 0); [lia|].
    assert (Hidn : (u64 id = Z.to_N id)%N /\ (Z.to_N id < M64)%N /\ int_of_u64 (Z.to_N id) = id).
    { unfold u64, ZM64, ZM31 in *. rewrite Z.mod_small by lia. split; [reflexivity|].
      split; [unfold M64; lia|]. unfold int_of_u64. rewrite s64_small by (unfold M63; lia). lia. }
    destruct Hidn as [Hu64 [Hidlt Hidback]].
    pose proof (put_uvarint_length (u64 id)) as Hl1.
    pose proof (put_uvarint_length (N.of_nat (length pl))) as Hl2.
    rewrite <- !app_assoc.
    rewrite read_uvarint_put by (try (rewrite Hu64; exact Hidlt); unfold lenZ in *; lia). cbn [bind].
    assert (Hpllt : (N.of_nat (length pl) < M64)%N) by (unfold M64, ZM31, lenZ in *; lia).
    rewrite read_uvarint_put by (try exact Hpllt; unfold lenZ in *; lia). cbn [bind].
    rewrite Hu64, Hidback.
    rewrite dec_tag_none by exact Hnot.
    assert (Hsz : int_of_u64 (N.of_nat (length pl)) = Z.of_nat (length pl)).
    { unfold int_of_u64. rewrite s64_small by (unfold M63, ZM31, lenZ in *; lia). lia. }
    rewrite Hsz.
    rewrite read_alloc_app by (unfold lenZ, ZM31 in *; lia). cbn [bind].
    replace (Z.of_nat (S (length r)) + k - 1)%Z with (Z.of_nat (length r) + k)%Z by lia.
    match goal with |- context [st (enc_unknown r ++ rest) ?rr ?aa] =>
      replace rr with (lenZ (enc_unknown r) + extra)%Z by (unfold lenZ in *; lia) end.
    rewrite IH by (try assumption; unfold lenZ in *; cbn [length] in *; lia).
    f_equal. unfold st. f_equal. lia.
Qed.
End Skip.

Section Struct.
Variable c : cfg.

(* what schema_ok says about the parts of a struct, in the shape the loop lemmas want *)
Lemma struct_parts flex fields tagged :
  schema_ok flex (TStruct fields tagged) = true ->
  Forall (RT c flex) fields /\
  Forall (fun p => is_marker (snd p) = false -> RT c flex (snd p)) tagged /\
  Forall (fun p => if is_marker (snd p) then True else (0 <= fst p < ZM31)%Z) tagged /\
  NoDup (map fst tagged).
Proof.
  intros Hok. rewrite schema_ok_struct_eq in Hok.
  repeat (apply andb_true_iff in Hok as [Hok ?]).
  apply ok_fields_forall in Hok.
  match goal with H : ok_tags flex tagged = true |- _ => apply ok_tags_forall in H; rename H into Htags end.
  repeat split.
  - clear - Hok. induction Hok as [|x r [Hm Hs] _ IHr]; constructor; [|exact IHr].
    apply roundtrip; assumption.
  - clear - Htags. induction Htags as [|p r [Hs _] _ IHr]; constructor; [|exact IHr].
    intros Hnm. apply roundtrip; [exact Hs|]. rewrite Hnm. apply andb_false_r.
  - clear - Htags. induction Htags as [|p r [_ Hp] _ IHr]; constructor; assumption.
  - apply nodupZ_spec. assumption.
Qed.

Theorem unknown_tags_skipped : forall fields tagged fs ts br cnt bt pre post,
  let t := TStruct fields tagged in
  let v := VStruct fs ts in
  schema_ok true t = true -> wfb true t v = true ->
  enc_fields (encode true) fields fs = Some br ->
  enc_tags (encode true) tagged ts = Some (cnt, bt) ->
  unknown_ok tagged pre -> unknown_ok tagged post ->
  let bs := br ++ tag_buffer pre cnt bt post in
  forall rest extra al, (0 <= extra)%Z -> (lenZ bs + extra < ZM31)%Z ->
    (al + alloc_of t v + unknown_alloc pre + unknown_alloc post <= budget c)%N ->
    decode c true t (st (bs ++ rest) (lenZ bs + extra) al)
    = Ok (canon t v) (st rest extra (al + alloc_of t v + unknown_alloc pre + unknown_alloc post)).
Proof.
  intros fields tagged fs ts br cnt bt pre post t v Hok Hwf Ef Et Hpre Hpost bs rest extra al He Hs Hb.
  subst t v bs. unfold tag_buffer in *.
  destruct (struct_parts true fields tagged Hok) as [HF [HT [Hids Hnd]]].
  rewrite wfb_struct_eq in Hwf. apply andb_true_iff in Hwf as [Hwf Hwt].
  rewrite canon_struct_eq. rewrite alloc_struct_eq in *.
  destruct (RT_fields c true fields HF fs br Hwf Ef) as [Hbr [Hlr Hdr]].
  destruct (RT_tags_k c true tagged Hnd (canon_fields canon fields fs) tagged [] [] ts cnt bt
              eq_refl eq_refl HT Hids Hwt Et) as [Hbt [Hlt Hdt]].
  pose proof (enc_unknown_length pre) as Hlpre. pose proof (enc_unknown_length post) as Hlpost.
  set (total := (N.of_nat (length pre) + cnt + N.of_nat (length post))%N) in *.
  pose proof (put_uvarint_length total) as Hlc.
  rewrite decode_struct_eq.
  rewrite !lenZ_app in *. rewrite <- !app_assoc.
  match goal with |- context [dec_fields _ _ (st _ ?r _)] =>
    replace r with (lenZ br + (lenZ (put_uvarint total) + (lenZ (enc_unknown pre) + (lenZ bt + lenZ (enc_unknown post))) + extra))%Z by lia end.
  rewrite Hdr by (unfold lenZ in *; lia). cbn [bind negb].
  assert (Htot : (total < M64)%N) by (unfold total, M64, ZM31, lenZ in *; lia).
  rewrite read_uvarint_put by (try exact Htot; unfold lenZ in *; lia). cbn [bind].
  unfold int_of_u64. rewrite s64_small by (unfold total, M63, ZM31, lenZ in *; lia).
  cbn [st d_in].
  (* unknown entries first *)
  replace (Z.of_N total) with (Z.of_nat (length pre) + (Z.of_N cnt + Z.of_nat (length post)))%Z by (unfold total; lia).
  match goal with |- context [st (enc_unknown pre ++ ?tl) ?r ?a] =>
    replace r with (lenZ (enc_unknown pre) + (lenZ bt + lenZ (enc_unknown post) + extra))%Z by (unfold lenZ in *; lia) end.
  rewrite skip_unknown; try assumption; try (unfold lenZ in *; lia).
  2:{ cbn [length]. rewrite !app_length. lia. }
  (* the entries the schema knows *)
  cbn [canon_tags app] in Hdt.
  match goal with |- context [st (bt ++ ?tl) ?r ?a] =>
    replace r with (lenZ bt + (lenZ (enc_unknown post) + extra))%Z by (unfold lenZ in *; lia) end.
  rewrite Hdt; try (unfold lenZ in *; lia).
  2:{ rewrite skipn_length. cbn [length]. rewrite !app_length. lia. }
  (* unknown entries last *)
  replace (Z.of_nat (length post)) with (Z.of_nat (length post) + 0)%Z by lia.
  rewrite skip_unknown; try assumption; try (unfold lenZ in *; lia).
  2:{ rewrite !skipn_length. cbn [length]. rewrite !app_length. lia. }
  rewrite tag_loop_zero. f_equal. unfold st. f_equal. lia.
Qed.
End Struct.

Lemma tag_buffer_plain : forall fields tagged fs ts br cnt bt,
  enc_fields (encode true) fields fs = Some br ->
  enc_tags (encode true) tagged ts = Some (cnt, bt) ->
  encode true (TStruct fields tagged) (VStruct fs ts) = Some (br ++ tag_buffer [] cnt bt []).
Proof.
  intros fields tagged fs ts br cnt bt Ef Et. rewrite encode_struct_eq, Ef, Et.
  unfold tag_buffer. cbn [length enc_unknown app N.of_nat]. rewrite N.add_0_l, N.add_0_r, app_nil_r. reflexivity.
Qed.

(* ---- the same through ReadResponse: tagged fields in the response HEADER's tag buffer (the
   client knows none) and unknown ones in the body's are skipped; the call returns the value
   the broker encoded and consumes exactly one frame ---- *)
Section Response.
Variable c : cfg.

Lemma header_tags_skip : forall us fuel rest extra al,
  unknown_ok [] us -> (0 <= extra)%Z ->
  (lenZ (enc_unknown us) + extra < ZM31)%Z ->
  (al + unknown_alloc us <= budget c)%N ->
  (length us <= length fuel)%nat ->
  header_tags c fuel (Z.of_nat (length us))
    (st (enc_unknown us ++ rest) (lenZ (enc_unknown us) + extra) al)
  = Ok tt (st rest extra (al + unknown_alloc us)).
Proof.
  induction us as [|[id pl] r IH]; intros fuel rest extra al Hok He Hs Hb Hf.
  - cbn [enc_unknown unknown_alloc length app Z.of_nat].
    destruct fuel; cbn [header_tags]; change (0 <=? 0)%Z with true; cbv iota;
      f_equal; unfold lenZ, st; cbn [length]; f_equal; lia.
  - apply Forall_cons_iff in Hok as [[_ [Hid Hpl]] Hokr]. cbn [fst snd] in *.
    cbn [enc_unknown unknown_alloc length] in *. unfold enc_unknown1 in *. cbn [fst snd] in *.
    rewrite !lenZ_app in *.
    destruct fuel as [|f0 fuel']; [cbn [length] in Hf; lia|].
    cbn [header_tags].
    destruct (Z.leb_spec (Z.of_nat (S (length r))) 0); [lia|].
    assert (Hidn : (u64 id = Z.to_N id)%N /\ (Z.to_N id < M64)%N).
    { unfold u64, ZM64, ZM31 in *. rewrite Z.mod_small by lia. split; [reflexivity|]. unfold M64; lia. }
    destruct Hidn as [Hu64 Hidlt].
    pose proof (put_uvarint_length (u64 id)) as Hl1.
    pose proof (put_uvarint_length (N.of_nat (length pl))) as Hl2.
    unfold skip_header_tags_step.
    rewrite <- !app_assoc.
    rewrite read_uvarint_put by (try (rewrite Hu64; exact Hidlt); unfold lenZ in *; lia). cbn [bind].
    assert (Hpllt : (N.of_nat (length pl) < M64)%N) by (unfold M64, ZM31, lenZ in *; lia).
    rewrite read_uvarint_put by (try exact Hpllt; unfold lenZ in *; lia). cbn [bind].
    assert (Hsz : int_of_u64 (N.of_nat (length pl)) = Z.of_nat (length pl)).
    { unfold int_of_u64. rewrite s64_small by (unfold M63, ZM31, lenZ in *; lia). lia. }
    rewrite Hsz.
    rewrite read_alloc_app by (unfold lenZ, ZM31 in *; lia). cbn [bind].
    replace (Z.of_nat (S (length r)) - 1)%Z with (Z.of_nat (length r)) by lia.
    match goal with |- context [st (enc_unknown r ++ rest) ?rr ?aa] =>
      replace rr with (lenZ (enc_unknown r) + extra)%Z by (unfold lenZ in *; lia) end.
    rewrite IH by (try assumption; unfold lenZ in *; cbn [length] in *; lia).
    f_equal. unfold st. f_equal. lia.
Qed.

Theorem response_unknown_tags : forall fields tagged fs ts br cnt bt hdr pre post corr rest,
  let t := TStruct fields tagged in
  let v := VStruct fs ts in
  schema_ok true t = true -> wfb true t v = true -> in_signed 4 corr ->
  enc_fields (encode true) fields fs = Some br ->
  enc_tags (encode true) tagged ts = Some (cnt, bt) ->
  unknown_ok [] hdr -> unknown_ok tagged pre -> unknown_ok tagged post ->
  let body := enc_i32 corr ++ (put_uvarint (N.of_nat (length hdr)) ++ enc_unknown hdr) ++
              br ++ tag_buffer pre cnt bt post in
  (Z.of_nat (length body) < ZM31)%Z ->
  (unknown_alloc hdr + alloc_of t v + unknown_alloc pre + unknown_alloc post <= budget c)%N ->
  read_response c true t (frame body ++ rest)
  = Ok (corr, canon t v) (st rest 0 (unknown_alloc hdr + alloc_of t v + unknown_alloc pre + unknown_alloc post)).
Proof.
  intros fields tagged fs ts br cnt bt hdr pre post corr rest t v Hok Hwf Hcorr Ef Et Hhdr Hpre Hpost body Hbl Hb.
  pose proof (unknown_tags_skipped c fields tagged fs ts br cnt bt pre post Hok Hwf Ef Et Hpre Hpost) as Hdec.
  cbv zeta in Hdec. fold t v in Hdec.
  set (bb := br ++ tag_buffer pre cnt bt post) in *.
  set (hb := put_uvarint (N.of_nat (length hdr)) ++ enc_unknown hdr) in *.
  destruct (frame_wellformed body Hbl) as [Hf _]. rewrite Hf.
  unfold read_response.
  rewrite <- app_assoc.
  change {| d_in := put_bes 4 (Z.of_nat (length body)) ++ body ++ rest; d_remain := 4; d_alloc := 0 |}
    with (st (put_bes 4 (Z.of_nat (length body)) ++ body ++ rest) 4 0).
  rewrite read_int_put by (try (apply in_signed_4; unfold ZM31 in *); lia). cbn [bind st d_in d_alloc].
  assert (Hbody_len : Z.of_nat (length body) = (4 + Z.of_nat (length hb) + Z.of_nat (length bb))%Z).
  { unfold body, enc_i32. rewrite !app_length, put_bes_length. lia. }
  unfold body at 1. unfold enc_i32. rewrite <- app_assoc.
  fold (st (put_bes 4 corr ++ (hb ++ bb) ++ rest) (Z.of_nat (length body)) 0).
  rewrite read_int_put by (try exact Hcorr; lia). cbn [bind].
  rewrite <- app_assoc. unfold hb at 1. rewrite <- app_assoc.
  pose proof (put_uvarint_length (N.of_nat (length hdr))) as Hlh.
  pose proof (enc_unknown_length hdr) as Hlu.
  assert (Hhb : length hb = (length (put_uvarint (N.of_nat (length hdr))) + length (enc_unknown hdr))%nat)
    by (unfold hb; rewrite app_length; reflexivity).
  assert (Hhl : (N.of_nat (length hdr) < M64)%N) by (unfold M64, ZM31 in *; lia).
  rewrite read_uvarint_put by (try exact Hhl; lia). cbn [bind st d_in].
  unfold int_of_u64. rewrite s64_small by (unfold M63, ZM31 in *; lia).
  replace (Z.of_N (N.of_nat (length hdr))) with (Z.of_nat (length hdr)) by lia.
  match goal with |- context [header_tags c ?fuel _ (st ?i ?r ?a)] =>
    replace r with (lenZ (enc_unknown hdr) + (lenZ bb + 0))%Z by (unfold lenZ; lia) end.
  rewrite header_tags_skip; try assumption; try (unfold lenZ in *; lia).
  2:{ cbn [length]. rewrite !app_length. lia. }
  cbn [bind].
  rewrite Hdec by (unfold lenZ in *; lia). cbn [bind].
  unfold discard_all. cbn [st d_remain]. change (0 <=? 0)%Z with true. cbv iota. cbn [bind].
  first [reflexivity | (f_equal; unfold st; f_equal; lia)].
Qed.
End Response.
