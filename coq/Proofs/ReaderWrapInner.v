(* Proofs/ReaderWrapInner.v — C02, L1: reading the inner messages of a decompressed wrapper: a
   frame on top of the response's frame, offsets relative to the frame's base, never
   truncated; after the last inner message the frame is popped. *)
From Coq Require Import List NArith ZArith Bool Lia.
From Coq Require Import ZifyN ZifyNat ZifyBool.
From KV Require Import Lib.Bits Lib.Bytes Lib.Varint Model.MsgSetReader Model.ReaderModel Spec.FetchSpec
  Proofs.ReaderPrim Proofs.ReaderV2 Proofs.ReaderV1 Proofs.ReaderV1Run Proofs.ReaderWrap.
Import ListNotations.
Open Scope Z_scope.

Section Inner.
Variable decomp : Z -> list N -> option (list N).
Variable ps : list frame.      (* the frames below (the response's frame) *)
Variable bse : Z.              (* the base offset of the decompressed frame *)

Notation W := (wire bse).

(* a true item whose wire form fits *)
Definition inner_ok (it : item) : Prop := item_ok (W it) /\ small (r_off (snd it)).

Definition iin (it : item) (items : list item) (el : Z) : msr :=
  stp ps bse (mb (snd it) ++ stream (map W items)) 1 (mhdr (fst it) (snd (W it))) 1 el.
Definition ibnd (items : list item) (h : hdr) (el : Z) : msr :=
  mkMsr (unwind (mkFrame (stream (map W items)) (len (stream (map W items))) bse 0 h :: ps)) false 1 el.

Lemma ibnd_cons it t h el :
  ibnd (it :: t) h el = stp ps bse (stream (map W (it :: t))) 0 h 1 el.
Proof.
  unfold ibnd, stp. f_equal. cbn [map]. pose proof (stream_nonempty (W it) (map W t)).
  destruct ps as [|p0 ps']; [reflexivity|]. cbn [unwind f_count f_remain]. cbn [Z.eqb andb].
  replace (len (stream (W it :: map W t)) =? 0) with false by lia. reflexivity.
Qed.

Lemma read_header_busy_p' fuel i c h lr el : 0 < c ->
  read_header fuel (stp ps bse i c h lr el) = MOk tt (stp ps bse i c h lr el).
Proof.
  intros Hc. unfold read_header. rewrite top_stp. cbn [f_count]. replace (0 <? c) with true by lia. reflexivity.
Qed.

Lemma read_header_idle_p fuel i h lr el :
  read_header fuel (stp ps bse i 0 h lr el) = read_header_loop fuel (stp ps bse i 0 h lr el).
Proof. unfold read_header. rewrite top_stp. reflexivity. Qed.

Lemma mheader_ok_p fmt r rest c h lr el :
  msg_fits fmt r ->
  read_next_header (stp ps bse (mh fmt r ++ rest) c h lr el) = MOk tt (stp ps bse rest 1 (mhdr fmt r) 1 el).
Proof.
  intros Hf. pose proof (msize_bound fmt r Hf) as Hs. destruct Hf as (Hfmt & Ho & Ht & _).
  unfold read_next_header, mh. rewrite <- !app_assoc.
  rewrite (step_stp _ _ (i64 (r_off r)) (r_off r)) by int_spec.
  rewrite (step_stp _ _ (i32 (msize fmt r)) (msize fmt r)) by int_spec.
  rewrite (step_stp _ _ (i32 0) 0) by int_spec.
  destruct Hfmt as [-> | ->].
  - rewrite (step_stp _ _ (i8 0) 0) by int_spec. cbn [Z.eqb Pos.eqb].
    rewrite (step_stp _ _ (i8 0) 0) by int_spec. cbn [app].
    reflexivity.
  - rewrite (step_stp _ _ (i8 1) 1) by int_spec. cbn [Z.eqb Pos.eqb].
    rewrite (step_stp _ _ (i8 0) 0) by int_spec. rewrite <- app_assoc.
    rewrite (step_stp _ _ (i64 (r_ts r)) (r_ts r)) by int_spec. cbn [app].
    reflexivity.
Qed.

Lemma mark_read_p i h lr el :
  mark_read (stp ps bse i 1 h lr el) = MOk tt (mkMsr (unwind (mkFrame i (len i) bse 0 h :: ps)) false lr el).
Proof. reflexivity. Qed.

Lemma mb_wire (it : item) : mb (snd (W it)) = mb (snd it).
Proof. reflexivity. Qed.

(* one iteration on an inner message whose header is current: all its bytes are there *)
Lemma inner_body again mn it items el :
  inner_ok it ->
  v1_body decomp again mn (iin it items el) =
  if r_off (snd it) <? mn then again (ibnd items (mhdr (fst it) (snd (W it))) el)
  else MOk (vals it) (ibnd items (mhdr (fst it) (snd (W it))) el).
Proof.
  intros [Hok Hsm]. pose proof Hok as (Hfmt & Hoff & Hts & Hk & Hv & Hts0 & Hh).
  cbn [fst snd wire shiftr r_off r_ts r_key r_val r_hdrs] in *.
  unfold v1_body, iin. rewrite top_stp. cbv zeta. cbn [f_hdr f_base].
  unfold bind at 1. rewrite (codec_mhdr (W it) Hok).
  assert (Hw : wrap64 (h_first (mhdr (fst it) (snd (W it))) + bse) = r_off (snd it)).
  { unfold mhdr. cbn [h_first snd wire shiftr r_off]. unfold small in Hsm. rewrite wrap64_small by lia. lia. }
  rewrite Hw.
  destruct (r_off (snd it) <? mn).
  - unfold mb. rewrite <- !app_assoc.
    rewrite (step_stp _ _ (b32 (r_key (snd it))) tt) by (apply mspec_lift, pspec_discard32, fits29, Hk).
    rewrite (step_stp _ _ (b32 (r_val (snd it))) tt) by (apply mspec_lift, pspec_discard32, fits29, Hv).
    cbn [app]. unfold bind at 1. rewrite mark_read_p. reflexivity.
  - unfold mb. rewrite <- !app_assoc.
    rewrite (step_stp _ _ (b32 (r_key (snd it))) (opt_bytes (r_key (snd it)))) by (apply mspec_lift, pspec_bytes32, fits29, Hk).
    rewrite (step_stp _ _ (b32 (r_val (snd it))) (opt_bytes (r_val (snd it)))) by (apply mspec_lift, pspec_bytes32, fits29, Hv).
    cbn [app]. unfold bind at 1. rewrite mark_read_p. unfold ret, vals.
    assert (Ht' : (if h_magic (mhdr (fst it) (snd (W it))) =? 2 then 0 else h_ts (mhdr (fst it) (snd (W it)))) = r_ts (snd it)).
    { unfold mhdr. cbn [h_magic h_ts snd wire shiftr r_ts]. destruct Hfmt as [E|E]; rewrite E; cbn [Z.eqb Pos.eqb];
        [symmetry; apply Hts0; exact E|reflexivity]. }
    rewrite Ht'. reflexivity.
Qed.

(* the loop of readMessageV1 over the inner messages: the abstract reader with every byte
   present; it never ends short *)
Definition ideliver_ok (fuel : nat) (mn el : Z) (m : msr) (r : lres) : Prop :=
  match r with
  | LDeliver it' items' _ =>
    read_v1 decomp fuel mn m = MOk (vals it') (ibnd items' (mhdr (fst it') (snd (W it'))) el)
  | LEnd => False
  | LCont _ => True
  end.
Definition ibody_ok (f : nat) (mn el : Z) (m : msr) (r : lres) : Prop :=
  match r with
  | LDeliver it' items' _ =>
    v1_body decomp (read_v1 decomp f mn) mn m = MOk (vals it') (ibnd items' (mhdr (fst it') (snd (W it'))) el)
  | LEnd => False
  | LCont _ => True
  end.

Lemma mh_wire_len (it : item) : len (mh (fst it) (snd (W it))) = len (mh (fst it) (snd it)).
Proof.
  unfold mh. rewrite !len_app. unfold i64, i32, i8. rewrite !put_bes_len.
  destruct (fst it =? 1); rewrite ?len_app, ?put_bes_len; reflexivity.
Qed.

Lemma enc_item_wire_len (it : item) : len (enc_item (W it)) = len (enc_item it).
Proof.
  unfold enc_item. rewrite !len_app. change (fst (W it)) with (fst it). rewrite mb_wire, mh_wire_len. reflexivity.
Qed.

Lemma stream_map_len items : len (stream (map W items)) = len (stream items).
Proof.
  induction items as [|it t IH]; [reflexivity|]. cbn [map].
  change (stream (W it :: map W t)) with (enc_item (W it) ++ stream (map W t)).
  change (stream (it :: t)) with (enc_item it ++ stream t). rewrite !len_app, IH, enc_item_wire_len. reflexivity.
Qed.

Lemma inner_loops : forall items,
  Forall inner_ok items ->
  (forall j fuel mn h el, len (stream items) <= j -> (length items + 2 <= fuel)%nat -> items <> [] ->
     ideliver_ok fuel mn el (ibnd items h el) (lg_bnd mn items j))
  /\ (forall it j f mn el, inner_ok it -> len (mb (snd it)) + len (stream items) <= j -> (length items + 2 <= f)%nat ->
     ibody_ok f mn el (iin it items el) (lg_read mn it items j)).
Proof.
  induction items as [|it2 t IH]; intros Hall.
  - split; [intros j fuel mn h el _ _ Hne; contradiction|].
    intros it j f mn el Hok Hj Hf. unfold ibody_ok. cbn [lg_read].
    change (stream []) with (@nil N) in Hj. change (len []) with 0 in Hj.
    replace (j <? len (mb (snd it))) with false by lia.
    destruct (r_off (snd it) <? mn) eqn:Er; [exact I|].
    rewrite inner_body by exact Hok. rewrite Er. reflexivity.
  - apply Forall_cons_iff in Hall as [Hok2 Hall]. destruct (IH Hall) as [IHB IHV].
    assert (HB : forall j fuel mn h el, len (stream (it2 :: t)) <= j -> (length (it2 :: t) + 2 <= fuel)%nat ->
              ideliver_ok fuel mn el (ibnd (it2 :: t) h el) (lg_bnd mn (it2 :: t) j)).
    { intros j fuel mn h el Hj Hf. cbn [length] in Hf. cbn [lg_bnd].
      destruct fuel as [|f]; [lia|].
      change (stream (it2 :: t)) with (enc_item it2 ++ stream t) in Hj. unfold enc_item in Hj. rewrite !len_app in Hj.
      pose proof (len_nonneg (mb (snd it2))). pose proof (len_nonneg (stream t)).
      replace (j <? len (mh (fst it2) (snd it2))) with false by lia.
      rewrite ibnd_cons.
      assert (Hstep : read_v1 decomp (S f) mn (stp ps bse (stream (map W (it2 :: t))) 0 h 1 el)
                      = v1_body decomp (read_v1 decomp f mn) mn (iin it2 t el)).
      { cbn [read_v1 m_stack stp f_remain]. cbn [map]. pose proof (stream_nonempty (W it2) (map W t)).
        replace (len (stream (W it2 :: map W t)) =? 0) with false by lia.
        unfold bind at 1. rewrite read_header_idle_p.
        destruct f as [|f2]; [lia|]. cbn [read_header_loop]. unfold bind at 1.
        change (stream (W it2 :: map W t)) with (enc_item (W it2) ++ stream (map W t)).
        unfold enc_item. rewrite <- app_assoc. cbn [fst snd wire].
        rewrite (mheader_ok_p (fst it2) (shiftr bse (snd it2)) _ 0 h 1 el (proj1 Hok2)).
        rewrite top_stp. cbn [f_hdr mhdr h_magic f_count].
        unfold iin, ret. cbn [fst snd wire]. change (mb (shiftr bse (snd it2))) with (mb (snd it2)).
        destruct (proj1 Hok2) as ([E|E] & _); cbn [fst wire] in E; rewrite E; cbn [Z.eqb Pos.eqb negb orb]; reflexivity. }
      pose proof (IHV it2 (j - len (mh (fst it2) (snd it2))) f mn el Hok2 ltac:(lia) ltac:(lia)) as Hv.
      unfold ideliver_ok. unfold ibody_ok in Hv.
      destruct (lg_read mn it2 t (j - len (mh (fst it2) (snd it2)))) as [it' items' j'| |jc]; try rewrite Hstep; exact Hv. }
    split; [intros j fuel mn h el Hj Hf _; apply HB; assumption|].
    intros it j f mn el Hok Hj Hf. unfold ibody_ok.
    pose proof (len_nonneg (stream (it2 :: t))).
    cbn [lg_read]. replace (j <? len (mb (snd it))) with false by lia.
    rewrite inner_body by exact Hok.
    destruct (r_off (snd it) <? mn) eqn:Er.
    + pose proof (HB (j - len (mb (snd it))) f mn (mhdr (fst it) (snd (W it))) el ltac:(lia) Hf) as Hb.
      cbn [lg_bnd] in Hb. exact Hb.
    + reflexivity.
Qed.

End Inner.
