(* Proofs/ConnOpsAll.v — alignment after a Kafka error for every operation except produce and
   fetch (which are refuted in ConnOpsWitness / ConnOpsCustom). *)
From Coq Require Import List NArith ZArith Bool.
From KV Require Import Lib.Bits Lib.Bytes Model.Legacy Model.ConnOps.
From KV Require Import Proofs.ConnOpsBase Proofs.ConnOpsCodec Proofs.ConnOpsProofs
  Proofs.ConnOpsWitness Proofs.ConnOpsCustom.
Import ListNotations.
Open Scope Z_scope.

(* the (operation, version) pairs of Conn other than produce and fetch *)
Definition aligned_op (a : api) (v : N) : Prop :=
  schema_api a = true \/ (a = AListOffsets /\ v = 1%N) \/ (a = AApiVersions /\ v = 0%N).

Theorem aligned_all_but_produce_fetch a v : aligned_op a v -> aligned_statement a v.
Proof.
  intros [Hs|[[Ha Hv]|[Ha Hv]]].
  - apply aligned_schema. exact Hs.
  - subst. intros w st off code rest st' s'. apply aligned_listoffsets.
  - subst. intros w st off code rest st' s'. apply aligned_apiversions.
Qed.
