(* Proofs/ConnOpsAll.v — the full statements of C11 and C17 (Conn half) for every operation,
   negotiated version and well-formed response. *)
From Coq Require Import List NArith ZArith Bool Lia.
From Coq Require Import ZifyN ZifyNat ZifyBool.
From KV Require Import Lib.Bits Lib.Bytes Model.Legacy Model.ConnOps.
From KV Require Import Proofs.ConnOpsBase Proofs.ConnOpsCodec Proofs.ConnOpsProofs Proofs.ConnOpsCustom.
Import ListNotations.
Open Scope Z_scope.

Lemma is_kafka_true e : is_kafka e = true -> exists c, e = EKafka c.
Proof. destruct e; cbn; intros H; try discriminate H. eauto. Qed.

(* the shape of any exchange whose frame header matches: the correlation counter advanced, and
   the result is success / a Kafka error, or another error with the Conn closed *)
Lemma conn_do_frame_shape st o body rest st' r s' :
  closed st = false -> fits body ->
  conn_do st o (frame (wrap32 (corr st + 1)) body ++ rest) = (st', r, s') ->
  corr st' = wrap32 (corr st + 1) /\
  (done_result r \/ exists e, r = RErr e /\ is_kafka e = false /\ closed st' = true).
Proof.
  intros Hcl Hfit H. rewrite conn_do_unfold in H by exact Hcl. cbv zeta in H.
  rewrite wait_response_frame in H by (try apply wrap32_in_signed; exact Hfit).
  destruct (op_read _ _ _ _ _) as [[[x|e] sz1] s2].
  - inversion H; subst. split; [reflexivity|]. left. apply post_done.
  - inversion H; subst. split; [reflexivity|].
    destruct (is_kafka (map_err (op_api o) e)) eqn:Ek.
    + left. apply is_kafka_true in Ek as [c Hc]. rewrite Hc. exact I.
    + right. eexists. split; [reflexivity|]. split; [exact Ek|reflexivity].
Qed.

Lemma negotiated_listoffsets v : negotiated AListOffsets v = true -> v = 1%N.
Proof. cbn. destruct (N.eqb_spec v 1); [auto|discriminate]. Qed.
Lemma negotiated_apiversions v : negotiated AApiVersions v = true -> v = 0%N.
Proof. cbn. destruct (N.eqb_spec v 0); [auto|discriminate]. Qed.

(* one exchange on a well-formed frame: either the operation is done (success or Kafka error),
   the reader sits exactly behind its frame and the Conn is open, or it failed otherwise and
   the Conn is closed *)
Theorem wf_step st a v off w rest st' r s' :
  negotiated a v = true -> well_formed a v w -> fits (enc (resp_ty a v) w) -> closed st = false ->
  conn_do st (mkOp a v off) (frame (wrap32 (corr st + 1)) (enc (resp_ty a v) w) ++ rest) = (st', r, s') ->
  corr st' = wrap32 (corr st + 1) /\
  ((done_result r /\ s' = rest /\ closed st' = false) \/
   (exists e, r = RErr e /\ is_kafka e = false /\ closed st' = true)).
Proof.
  intros Hneg Hwf Hfit Hcl H.
  destruct (conn_do_frame_shape _ _ _ _ _ _ _ Hcl Hfit H) as [Hcorr Hshape].
  split; [exact Hcorr|].
  destruct Hshape as [Hdone|Herr]; [left|right; exact Herr].
  split; [exact Hdone|].
  assert (Hgen : a <> AApiVersions -> a <> AListOffsets -> s' = rest /\ closed st' = false).
  { intros Ha Hl.
    assert (Hr : match r with ROk _ => True | RErr (EKafka _) => op_api (mkOp a v off) <> AListOffsets | _ => False end).
    { destruct r as [x|e]; [exact I|]. destruct e; try contradiction. exact Hl. }
    destruct (frame_exact st (mkOp a v off) _ _ _ _ Hcl Ha H Hr) as [Hc Hcl'].
    split; [eapply consumed_frame_frame; eassumption|exact Hcl']. }
  destruct a; try (apply Hgen; discriminate).
  - (* list-offsets *)
    apply negotiated_listoffsets in Hneg. subst v.
    destruct (wf_listoffsets w Hwf) as (name & part & Hw & Hn & Hp). subst w.
    destruct (conn_do_listoffsets_frame st off name part rest Hn Hp Hfit Hcl) as (r0 & E & _).
    rewrite E in H. inversion H; subst. split; reflexivity.
  - (* ApiVersions *)
    apply negotiated_apiversions in Hneg. subst v.
    destruct (conn_do_apiversions_frame st off w rest Hwf Hfit Hcl) as (st0 & r0 & E & Hopen & _).
    rewrite E in H. inversion H; subst. split; [reflexivity|]. apply Hopen. exact Hdone.
Qed.

(* ---- C11: aligned after a Kafka error, EVERY operation ---- *)
Theorem aligned_full a v w st off code rest st' s' :
  negotiated a v = true ->
  well_formed a v w -> fits (enc (resp_ty a v) w) -> closed st = false ->
  conn_do st (mkOp a v off) (frame (wrap32 (corr st + 1)) (enc (resp_ty a v) w) ++ rest)
    = (st', RErr (EKafka code), s') ->
  s' = rest /\ closed st' = false.
Proof.
  intros Hneg Hwf Hfit Hcl H.
  destruct (wf_step _ _ _ _ _ _ _ _ _ Hneg Hwf Hfit Hcl H) as [_ [[_ Hok]|(e & He & Hk & _)]].
  - exact Hok.
  - inversion He; subst e. discriminate Hk.
Qed.

Theorem next_as_fresh a v w st off code rest st' s' o2 :
  negotiated a v = true ->
  well_formed a v w -> fits (enc (resp_ty a v) w) -> closed st = false ->
  conn_do st (mkOp a v off) (frame (wrap32 (corr st + 1)) (enc (resp_ty a v) w) ++ rest)
    = (st', RErr (EKafka code), s') ->
  conn_do st' o2 s' = conn_do (mkConn false (wrap32 (corr st + 1)) (cfg_topic st) (offset st')) o2 rest.
Proof.
  intros Hneg Hwf Hfit Hcl H.
  destruct (aligned_full _ _ _ _ _ _ _ _ _ Hneg Hwf Hfit Hcl H) as [Hs Hcl'].
  destruct (conn_do_frame_shape _ _ _ _ _ _ _ Hcl Hfit H) as [Hcorr _].
  subst s'. f_equal.
  assert (Ht : cfg_topic st' = cfg_topic st).
  { rewrite conn_do_unfold in H by exact Hcl. cbv zeta in H.
    destruct (wait_response _ _) as [[[size|e0] s1] cl].
    - destruct (op_read _ _ _ _ _) as [[[x|e1] sz1] s2]; inversion H; reflexivity.
    - inversion H; reflexivity. }
  destruct st' as [c1 c2 c3 c4]. cbn in *. subst. reflexivity.
Qed.

(* ---- C11: runs over well-formed frames ---- *)
Fixpoint script_stream (c : Z) (l : list (op * wval)) {struct l} : list N :=
  match l with
  | [] => []
  | (o, w) :: r =>
      frame (wrap32 (c + 1)) (enc (resp_ty (op_api o) (op_ver o)) w) ++ script_stream (wrap32 (c + 1)) r
  end.
Definition script_ok (l : list (op * wval)) : Prop :=
  Forall (fun ow => negotiated (op_api (fst ow)) (op_ver (fst ow)) = true /\
                    well_formed (op_api (fst ow)) (op_ver (fst ow)) (snd ow) /\
                    fits (enc (resp_ty (op_api (fst ow)) (op_ver (fst ow))) (snd ow))) l.

Theorem run_aligned l : forall st rest st' rs s',
  closed st = false -> script_ok l ->
  conn_run st (map fst l) (script_stream (corr st) l ++ rest) = (st', rs, s') ->
  closed st' = true \/ (s' = rest /\ closed st' = false /\ Forall done_result rs).
Proof.
  induction l as [|[o w] l IH]; intros st rest st' rs s' Hcl Hok H; cbn [map fst conn_run script_stream] in H.
  - inversion H; subst. right. cbn. auto.
  - apply Forall_cons_iff in Hok as [(Hneg & Hwf & Hfit) Hok]. cbn [fst snd] in *.
    rewrite <- app_assoc in H.
    destruct (conn_do st o _) as [[st1 r1] s1] eqn:E1.
    destruct (conn_run st1 (map fst l) s1) as [[st2 rs2] s2] eqn:E2.
    inversion H; subst st' rs s'.
    assert (Ho : o = mkOp (op_api o) (op_ver o) (op_off o)) by (destruct o; reflexivity).
    rewrite Ho in E1.
    destruct (wf_step _ _ _ _ _ _ _ _ _ Hneg Hwf Hfit Hcl E1) as [Hcorr [(Hd & Hs & Hcl1)|(e & He & Hk & Hcl1)]].
    + subst s1. rewrite <- Hcorr in E2.
      destruct (IH _ _ _ _ _ Hcl1 Hok E2) as [Hc|(Hs2 & Hc2 & Hall)]; [left; exact Hc|].
      right. split; [exact Hs2|]. split; [exact Hc2|]. constructor; assumption.
    + left. destruct (closed_run st1 (map fst l) s1 Hcl1) as (st3 & E3 & Hc3).
      rewrite E3 in E2. inversion E2; subst. exact Hc3.
Qed.

(* ---- C17 (Conn half): every operation, every well-formed response, every cut ---- *)
Lemma frame_length id body : length (frame id body) = (8 + length body)%nat.
Proof. unfold frame. rewrite !app_length, !put_bes_length. lia. Qed.
Lemma frame_announced id body : fits body ->
  get_bes 4 (firstn 4 (frame id body)) - 4 = Z.of_nat (length body).
Proof.
  intros Hfit. unfold fits, ZM31 in Hfit. unfold frame.
  rewrite firstn_exact by apply put_bes_length.
  rewrite get_put_bes by (try lia; unfold in_signed, pow256; cbn; lia). lia.
Qed.

Theorem conn_cut_full st a v off w k :
  negotiated a v = true -> well_formed a v w -> fits (enc (resp_ty a v) w) -> closed st = false ->
  (k < length (frame (wrap32 (corr st + 1)) (enc (resp_ty a v) w)))%nat ->
  exists e st2 s2,
    conn_do st (mkOp a v off) (firstn k (frame (wrap32 (corr st + 1)) (enc (resp_ty a v) w)))
      = (st2, RErr e, s2) /\ is_kafka e = false /\ closed st2 = true.
Proof.
  intros Hneg Hwf Hfit Hcl Hk.
  set (body := enc (resp_ty a v) w) in *. set (id := wrap32 (corr st + 1)) in *.
  destruct (conn_do st (mkOp a v off) (frame id body)) as [[st' r] s'] eqn:E.
  assert (E' : conn_do st (mkOp a v off) (frame id body ++ []) = (st', r, s')) by (rewrite app_nil_r; exact E).
  destruct (wf_step _ _ _ _ _ _ _ _ _ Hneg Hwf Hfit Hcl E') as [_ Hstep].
  destruct (Nat.lt_ge_cases (k + length s') (length (frame id body))) as [Hlt|Hge].
  - destruct (conn_do_cut _ _ _ _ _ _ k Hcl E Hlt) as (e & st2 & s2 & E2 & Ht & Hc2).
    exists e, st2, s2. split; [exact E2|]. split; [apply transport_not_kafka; exact Ht|exact Hc2].
  - destruct Hstep as [(_ & Hs & _)|(e & He & Hke & Hce)]; [subst s'; cbn [length] in Hge; lia|].
    (* the complete exchange already failed before the cut position: same outcome *)
    assert (Hs'len : (length s' <= length body)%nat).
    { rewrite conn_do_unfold in E by exact Hcl. cbv zeta in E.
      pose proof (wait_response_frame id body [] (wrap32_in_signed _) Hfit) as Ew.
      rewrite !app_nil_r in Ew. fold id in E. rewrite Ew in E.
      destruct (op_read _ _ _ _ _) as [[ra sz1] s2] eqn:Er.
      destruct (good_op_read _ _ _ _ _ _ _ _ Er) as (c & Hc & _).
      assert (s' = s2) by (destruct ra; inversion E; reflexivity). subst s2.
      rewrite Hc, app_length. lia. }
    rewrite frame_length in Hge, Hk.
    destruct (conn_do_cut_beyond _ _ _ _ _ _ k Hcl ltac:(lia) E) as (s2 & E2).
    + rewrite frame_announced by exact Hfit. rewrite frame_length. lia.
    + rewrite frame_length. exact Hge.
    + subst r. exists e, st', s2. auto.
Qed.
