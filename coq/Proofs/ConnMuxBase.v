(* Proofs/ConnMuxBase.v — generic LTS lemmas (local copy, see Lib/LTS.v), int32 wrap
   arithmetic, and the inversion tactics for ConnMux.step. *)
From Coq Require Import List ZArith Bool Arith Lia.
From Coq Require Import ZifyBool.
From KV Require Import Model.ConnMux.
Import ListNotations.
Local Open Scope Z_scope.

(* ---- generic: run over a label list, invariant induction ---- *)
Section GenLTS.
  Variables (S L : Type).
  Variable stp : S -> L -> option S.
  Fixpoint grun (s : S) (ls : list L) {struct ls} : option S :=
    match ls with
    | [] => Some s
    | l :: ls' => match stp s l with Some s' => grun s' ls' | None => None end
    end.
  Lemma ginv_run : forall (P : S -> Prop),
    (forall s l s', P s -> stp s l = Some s' -> P s') ->
    forall ls s s', P s -> grun s ls = Some s' -> P s'.
  Proof.
    intros P Hstep. induction ls as [|l ls IH]; intros s s' Hs Hr; simpl in Hr.
    - inversion Hr; subst; exact Hs.
    - destruct (stp s l) as [s1|] eqn:E; [|discriminate].
      eapply IH; [|exact Hr]. eapply Hstep; eauto.
  Qed.
  Lemma grun_app : forall ls1 ls2 s,
    grun s (ls1 ++ ls2) = match grun s ls1 with Some s' => grun s' ls2 | None => None end.
  Proof.
    induction ls1 as [|l ls1 IH]; intros ls2 s; simpl; [reflexivity|].
    destruct (stp s l); [apply IH|reflexivity].
  Qed.
End GenLTS.
Arguments grun {S L} stp s ls.
Arguments ginv_run {S L} stp P _ ls s s' _ _.

Lemma run_is_grun : forall ls s, run s ls = grun step s ls.
Proof. induction ls as [|l ls IH]; intros s; simpl; [reflexivity|]. destruct (step s l); auto. Qed.

Lemma inv_run : forall (P : state -> Prop),
  (forall s l s', P s -> step s l = Some s' -> P s') ->
  forall ls s s', P s -> run s ls = Some s' -> P s'.
Proof. intros P H ls s s' Hs Hr. rewrite run_is_grun in Hr. eapply ginv_run; eauto. Qed.

(* ---- int32 wrap ---- *)
Lemma wrap32_succ : forall n, wrap32 (wrap32 n + 1) = wrap32 (n + 1).
Proof.
  intros n. unfold wrap32.
  replace ((n + 2147483648) mod 4294967296 - 2147483648 + 1 + 2147483648)
    with ((n + 2147483648) mod 4294967296 + 1) by lia.
  rewrite Zplus_mod_idemp_l. f_equal. f_equal. lia.
Qed.

Lemma wrap32_inj : forall a b,
  wrap32 a = wrap32 b -> -4294967296 < a - b < 4294967296 -> a = b.
Proof.
  intros a b H Hd. unfold wrap32 in H.
  pose proof (Z.div_mod (a + 2147483648) 4294967296 ltac:(lia)) as Ha.
  pose proof (Z.div_mod (b + 2147483648) 4294967296 ltac:(lia)) as Hb.
  assert (E : (a + 2147483648) mod 4294967296 = (b + 2147483648) mod 4294967296) by lia.
  lia.
Qed.

(* ---- thread lookup ---- *)
Lemma thr_upd_same : forall s t th, thr (upd_thread s t th) t = th.
Proof. intros. unfold thr, upd_thread. cbn. rewrite Nat.eqb_refl. reflexivity. Qed.

Lemma thr_upd_other : forall s t u th, t <> u -> thr (upd_thread s t th) u = thr s u.
Proof.
  intros. unfold thr, upd_thread. cbn.
  destruct (Nat.eqb t u) eqn:E; [apply Nat.eqb_eq in E; contradiction|reflexivity].
Qed.

Lemma thr_upd : forall s t u th,
  thr (upd_thread s t th) u = if Nat.eqb t u then th else thr s u.
Proof. intros. unfold thr, upd_thread. cbn. reflexivity. Qed.

(* inversion of one step: split on every scrutinee *)
Ltac step_inv H :=
  unfold step, finish_read, peek_fail in H;
  repeat match type of H with
  | context [match ?x with _ => _ end] => destruct x eqn:?
  end; try discriminate; inversion H; subst; clear H.
