(* Proofs/SchemaBase.v — induction principle for the nested schema type, decidable
   equality (for Gen = Golden), static well-formedness of schemas. *)
From Coq Require Import List NArith ZArith Bool Lia.
From KV Require Import Lib.Bits Model.Schema.
Import ListNotations.

Section ty_ind'.
  Variable P : ty -> Prop.
  Hypothesis HBool : P TBool.
  Hypothesis HInt : forall w, P (TInt w).
  Hypothesis HFloat : P TFloat64.
  Hypothesis HString : forall n, P (TString n).
  Hypothesis HBytes : forall n, P (TBytes n).
  Hypothesis HArray : forall n e t, P t -> P (TArray n e t).
  Hypothesis HStruct : forall fs ts, Forall P fs -> Forall (fun p => P (snd p)) ts -> P (TStruct fs ts).
  Hypothesis HMarker : P TMarker.
  Hypothesis HRecords : forall r, P (TRecords r).

  Fixpoint ty_ind' (t : ty) : P t :=
    match t with
    | TBool => HBool
    | TInt w => HInt w
    | TFloat64 => HFloat
    | TString n => HString n
    | TBytes n => HBytes n
    | TArray n e t' => HArray n e t' (ty_ind' t')
    | TStruct fs ts =>
        HStruct fs ts
          ((fix go (l : list ty) : Forall P l :=
              match l with
              | [] => Forall_nil _
              | x :: r => Forall_cons x (ty_ind' x) (go r)
              end) fs)
          ((fix go (l : list (Z * ty)) : Forall (fun p => P (snd p)) l :=
              match l with
              | [] => Forall_nil _
              | x :: r => Forall_cons x (ty_ind' (snd x)) (go r)
              end) ts)
    | TMarker => HMarker
    | TRecords r => HRecords r
    end.
End ty_ind'.

(* ---- boolean equality ---- *)
Fixpoint ty_eqb (a b : ty) {struct a} : bool :=
  match a, b with
  | TBool, TBool => true
  | TInt w1, TInt w2 => Nat.eqb w1 w2
  | TFloat64, TFloat64 => true
  | TString n1, TString n2 => Bool.eqb n1 n2
  | TBytes n1, TBytes n2 => Bool.eqb n1 n2
  | TArray n1 e1 t1, TArray n2 e2 t2 => Bool.eqb n1 n2 && N.eqb e1 e2 && ty_eqb t1 t2
  | TStruct f1 g1, TStruct f2 g2 =>
      (fix go (l1 l2 : list ty) : bool :=
         match l1, l2 with
         | [], [] => true
         | x :: r1, y :: r2 => ty_eqb x y && go r1 r2
         | _, _ => false
         end) f1 f2
      && (fix go (l1 l2 : list (Z * ty)) : bool :=
            match l1, l2 with
            | [], [] => true
            | (i, x) :: r1, (j, y) :: r2 => Z.eqb i j && ty_eqb x y && go r1 r2
            | _, _ => false
            end) g1 g2
  | TMarker, TMarker => true
  | TRecords r1, TRecords r2 => Bool.eqb r1 r2
  | _, _ => false
  end.

Lemma ty_eqb_eq : forall a b, ty_eqb a b = true -> a = b.
Proof.
  induction a as [| w | | n | n | n e t IH | fs ts IHf IHt | | r] using ty_ind';
    intros b H; destruct b; cbn [ty_eqb] in H; try discriminate; try reflexivity.
  - apply Nat.eqb_eq in H. subst. reflexivity.
  - apply Bool.eqb_prop in H. subst. reflexivity.
  - apply Bool.eqb_prop in H. subst. reflexivity.
  - apply andb_true_iff in H as [H H3]. apply andb_true_iff in H as [H1 H2].
    apply Bool.eqb_prop in H1. apply N.eqb_eq in H2. apply IH in H3. subst. reflexivity.
  - apply andb_true_iff in H as [H1 H2].
    f_equal.
    + clear H2 IHt. revert fields H1. induction IHf as [|x r Hx _ IHr]; intros [|y r2] H1; try discriminate; [reflexivity|].
      apply andb_true_iff in H1 as [Ha Hb]. f_equal; [apply Hx; exact Ha | apply IHr; exact Hb].
    + clear H1 IHf. revert tagged H2. induction IHt as [|[i x] r Hx _ IHr]; intros [|[j y] r2] H2; try discriminate; [reflexivity|].
      apply andb_true_iff in H2 as [Ha Hc]. apply andb_true_iff in Ha as [Ha Hb].
      apply Z.eqb_eq in Ha. cbn [snd] in Hx. apply Hx in Hb. subst. f_equal. apply IHr. exact Hc.
  - apply Bool.eqb_prop in H. subst. reflexivity.
Qed.

Definition ms_eqb (a b : msg_schema) : bool :=
  Z.eqb a.(ms_api) b.(ms_api) && Bool.eqb a.(ms_response) b.(ms_response)
  && Z.eqb a.(ms_version) b.(ms_version) && Bool.eqb a.(ms_flex) b.(ms_flex)
  && ty_eqb a.(ms_ty) b.(ms_ty).

Lemma ms_eqb_eq a b : ms_eqb a b = true -> a = b.
Proof.
  unfold ms_eqb. intros H.
  repeat (apply andb_true_iff in H as [H ?]).
  destruct a, b. cbn in *.
  apply Z.eqb_eq in H. apply Bool.eqb_prop in H3. apply Z.eqb_eq in H2. apply Bool.eqb_prop in H1.
  apply ty_eqb_eq in H0. subst. reflexivity.
Qed.

Fixpoint schemas_eqb (l1 l2 : list msg_schema) {struct l1} : bool :=
  match l1, l2 with
  | [], [] => true
  | a :: r1, b :: r2 => ms_eqb a b && schemas_eqb r1 r2
  | _, _ => false
  end.

Lemma schemas_eqb_eq : forall l1 l2, schemas_eqb l1 l2 = true -> l1 = l2.
Proof.
  induction l1 as [|a r IH]; intros [|b r2] H; cbn in H; try discriminate; [reflexivity|].
  apply andb_true_iff in H as [H1 H2]. apply ms_eqb_eq in H1. apply IH in H2. subst. reflexivity.
Qed.

(* ---- static well-formedness of a schema ---- *)
(* minimal number of bytes the decoder consumes for a value of the type *)
Fixpoint min_size (flex : bool) (t : ty) {struct t} : N :=
  match t with
  | TBool => 1 | TInt w => N.of_nat w | TFloat64 => 8
  | TString _ => if flex then 1 else 2
  | TBytes _ => if flex then 1 else 4
  | TArray _ _ _ => if flex then 1 else 4
  | TStruct fields _ =>
      ((fix go (l : list ty) : N := match l with [] => 0 | x :: r => min_size flex x + go r end) fields
       + (if flex then 1 else 0))%N
  | TMarker => if flex then 1 else 0
  | TRecords _ => 4
  end.

Definition int_width_ok (w : nat) : bool :=
  Nat.eqb w 1 || Nat.eqb w 2 || Nat.eqb w 4 || Nat.eqb w 8.

Fixpoint nodupZ (l : list Z) : bool :=
  match l with [] => true | x :: r => negb (existsb (Z.eqb x) r) && nodupZ r end.

(* every array element takes at least one byte on the wire (the guard the decoder
   relies on) and is not a zero-size marker, element sizes are sane, int widths are 1/2/4/8, no zero-size marker
   among the regular fields of a flexible struct (the encoder would skip what the
   decoder reads), tag ids are distinct and non-negative except the marker's -1,
   tagged fields only in flexible messages. *)
Fixpoint schema_ok (flex : bool) (t : ty) {struct t} : bool :=
  match t with
  | TInt w => int_width_ok w
  | TArray _ esize e => (1 <=? min_size flex e)%N && (1 <=? esize)%N && (esize <=? 65536)%N && negb (is_marker e) && schema_ok flex e
  | TStruct fields tagged =>
      (fix go (l : list ty) : bool :=
         match l with [] => true | x :: r => negb (flex && is_marker x) && schema_ok flex x && go r end) fields
      && (fix go (l : list (Z * ty)) : bool :=
            match l with
            | [] => true
            | (i, x) :: r => (if is_marker x then Z.eqb i (-1) else (0 <=? i)%Z && (i <? ZM31)%Z) && schema_ok flex x && go r
            end) tagged
      && nodupZ (map fst tagged)
      && (flex || match tagged with [] => true | _ => false end)
  | _ => true
  end.

Definition schemas_ok (l : list msg_schema) : bool :=
  forallb (fun m => schema_ok m.(ms_flex) m.(ms_ty) && match m.(ms_ty) with TStruct _ _ => true | _ => false end) l.
