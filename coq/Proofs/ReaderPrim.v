(* Proofs/ReaderPrim.v — C02, L1: the size-accounted primitive readers on EXACT streams (the
   declared size equals the bytes present: a response cut at the byte limit, not a broken
   connection).  For each reader: decoding what the specification's encoder wrote succeeds and
   consumes exactly those bytes ([pspec]); on every proper prefix it reports errShortRead and
   leaves an exact stream ([pshort]).  Both compose along the monad ([mspec], [mshort]). *)
From Coq Require Import List NArith ZArith Bool Lia.
From Coq Require Import ZifyN ZifyNat ZifyBool.
From KV Require Import Lib.Bits Lib.Bytes Lib.Varint Model.MsgSetReader.
Import ListNotations.
Open Scope Z_scope.

Definition ex (bs : list N) : rd := (bs, len bs).

Definition pspec {A} (p : rd -> pres A) (bs : list N) (v : A) : Prop :=
  forall rest, p (ex (bs ++ rest)) = POk v (ex rest).
Definition pshort {A} (p : rd -> pres A) (bs : list N) : Prop :=
  forall q q', bs = q ++ q' -> q' <> [] -> exists i', p (ex q) = PErr EShort (ex i').

Lemma len_app a b : len (a ++ b) = len a + len b.
Proof. unfold len. rewrite app_length. lia. Qed.
Lemma len_nonneg a : 0 <= len a.
Proof. unfold len. lia. Qed.
Lemma len_pos a : a <> [] -> 0 < len a.
Proof. destruct a; [contradiction|]. unfold len. cbn [length]. lia. Qed.

Lemma firstn_app_exact {A} (a b : list A) : firstn (length a) (a ++ b) = a.
Proof. rewrite firstn_app, Nat.sub_diag, firstn_all. cbn. apply app_nil_r. Qed.
Lemma skipn_app_exact {A} (a b : list A) : skipn (length a) (a ++ b) = b.
Proof. rewrite skipn_app, Nat.sub_diag, skipn_all. reflexivity. Qed.

Lemma ztake_app a b : ztake (len a) (a ++ b) = a.
Proof. unfold ztake, len. rewrite Nat2Z.id. apply firstn_app_exact. Qed.
Lemma zdrop_app a b : zdrop (len a) (a ++ b) = b.
Proof. unfold zdrop, len. rewrite Nat2Z.id. apply skipn_app_exact. Qed.
Lemma zdrop_all a : zdrop (len a) a = [].
Proof. unfold zdrop, len. rewrite Nat2Z.id. apply skipn_all. Qed.

(* ---------------------------------------------------------------- fixed-width integers *)
Lemma put_bes_len w z : len (put_bes w z) = Z.of_nat w.
Proof. unfold len, put_bes. rewrite put_be_length. reflexivity. Qed.

Lemma pspec_int w z : (0 < w)%nat -> in_signed w z -> pspec (p_int w) (put_bes w z) z.
Proof.
  intros Hw Hz rest. unfold p_int, p_fixed, ex.
  rewrite len_app, put_bes_len.
  pose proof (len_nonneg rest).
  replace (Z.of_nat w + len rest <? Z.of_nat w) with false by lia.
  assert (Hl : length (put_bes w z) = w) by (unfold put_bes; apply put_be_length).
  pose proof (get_put_bes w z Hw Hz) as Hget.
  remember (put_bes w z) as e.
  assert (F : firstn w (e ++ rest) = e) by (rewrite <- Hl; apply firstn_app_exact).
  assert (S : skipn w (e ++ rest) = rest) by (rewrite <- Hl; apply skipn_app_exact).
  rewrite F, S, Hget. f_equal. f_equal. lia.
Qed.

Lemma pshort_int w bs : len bs = Z.of_nat w -> pshort (p_int w) bs.
Proof.
  intros Hl q q' -> Hq. exists q. unfold p_int, p_fixed, ex.
  rewrite len_app in Hl. pose proof (len_pos q' Hq).
  replace (len q <? Z.of_nat w) with true by lia. reflexivity.
Qed.

(* ---------------------------------------------------------------- varints *)
Lemma pow128 f : (128 ^ N.of_nat (S f) = 128 * 128 ^ N.of_nat f)%N.
Proof. rewrite Nat2N.inj_succ, N.pow_succ_r'. reflexivity. Qed.

(* every byte of an unsigned varint but the last has the continuation bit *)
Lemma varint_scan_enc fuel : forall x rest lim shift acc,
  (x < 128 ^ N.of_nat (S fuel))%N -> (length (uvarint_enc fuel x) <= lim)%nat ->
  varint_scan (uvarint_enc fuel x ++ rest) lim shift acc
  = Some (((acc + x * 2 ^ shift) mod M64)%N, rest, (lim - length (uvarint_enc fuel x))%nat).
Proof.
  induction fuel as [|f IH]; intros x rest lim shift acc Hx Hlim.
  - cbn [uvarint_enc] in *. cbn [length] in Hlim. destruct lim as [|lim]; [lia|].
    change (128 ^ N.of_nat 1)%N with 128%N in Hx.
    rewrite N.mod_small by lia. cbn [app varint_scan].
    replace (x <? 128)%N with true by lia. cbn [length]. f_equal. f_equal. lia.
  - cbn [uvarint_enc] in *. destruct (x <? 128)%N eqn:E.
    + cbn [length] in Hlim. destruct lim as [|lim]; [lia|]. cbn [app varint_scan]. rewrite E.
      cbn [length]. f_equal. f_equal. lia.
    + cbn [length] in Hlim. destruct lim as [|lim]; [lia|]. cbn [app varint_scan].
      replace (x mod 128 + 128 <? 128)%N with false by lia.
      rewrite IH.
      * cbn [length]. f_equal. f_equal; try lia. f_equal.
        replace ((x mod 128 + 128) mod 128)%N with (x mod 128)%N
          by (rewrite <- N.add_mod_idemp_r by discriminate; cbn; rewrite N.add_0_r, N.mod_mod by discriminate; reflexivity).
        rewrite N.add_mod_idemp_l by discriminate.
        f_equal. rewrite N.pow_add_r.
        pose proof (N.div_mod x 128 ltac:(discriminate)) as Hd.
        change (2 ^ 7)%N with 128%N. nia.
      * rewrite pow128 in Hx. apply N.div_lt_upper_bound; [discriminate|exact Hx].
      * lia.
Qed.

(* a proper prefix of an unsigned varint has only continuation bytes *)
Lemma varint_scan_prefix fuel : forall x q q' lim shift acc,
  uvarint_enc fuel x = q ++ q' -> q' <> [] -> (x < 128 ^ N.of_nat (S fuel))%N ->
  varint_scan q lim shift acc = None.
Proof.
  induction fuel as [|f IH]; intros x q q' lim shift acc He Hq Hx.
  - cbn [uvarint_enc] in He. destruct q as [|b q]; [destruct lim; reflexivity|].
    destruct q; destruct q'; cbn in He; try discriminate He; contradiction.
  - cbn [uvarint_enc] in He. destruct (x <? 128)%N eqn:E.
    + destruct q as [|b q]; [destruct lim; reflexivity|].
      destruct q; destruct q'; cbn in He; try discriminate He; contradiction.
    + destruct q as [|b q]; [destruct lim; reflexivity|].
      cbn [app] in He. injection He as Hb He. destruct lim as [|lim]; [reflexivity|].
      cbn [varint_scan]. subst b. replace (x mod 128 + 128 <? 128)%N with false by lia.
      apply (IH (x / 128)%N q q'); [exact He|exact Hq|].
      rewrite pow128 in Hx. apply N.div_lt_upper_bound; [discriminate|exact Hx].
Qed.

Definition vsmall (z : Z) : Prop := - 2 ^ 62 <= z < 2 ^ 62.

Lemma zigzag_lt z : vsmall z -> (zigzag z < 2 ^ 63)%N /\ unzigzag (zigzag z) = z.
Proof.
  unfold vsmall, zigzag, unzigzag, u64, wrap64, ZM63, ZM64. intros Hz.
  destruct (z <? 0) eqn:E.
  - rewrite Z.lxor_m1_r. unfold Z.lnot.
    rewrite (Z.mod_small (z * 2 + _)) by lia.
    replace (Z.pred (- (z * 2 + 9223372036854775808 - 9223372036854775808))) with (- 2 * z - 1) by lia.
    rewrite Z.mod_small by lia. split; [lia|].
    replace (Z.to_N (-2 * z - 1)) with (1 + 2 * Z.to_N (- z - 1))%N by lia.
    rewrite N.odd_add_mul_2. change (N.odd 1) with true. cbv iota.
    replace ((1 + 2 * Z.to_N (- z - 1)) / 2)%N with (Z.to_N (- z - 1))
      by (apply (N.div_unique _ 2 _ 1); lia).
    rewrite Z.lxor_m1_r. unfold Z.lnot. lia.
  - rewrite Z.lxor_0_r. rewrite (Z.mod_small (z * 2 + _)) by lia.
    replace (z * 2 + 9223372036854775808 - 9223372036854775808) with (2 * z) by lia.
    rewrite Z.mod_small by lia. split; [lia|].
    replace (Z.to_N (2 * z)) with (2 * Z.to_N z)%N by lia.
    rewrite N.odd_mul, andb_false_l. rewrite N.mul_comm, N.div_mul by discriminate.
    rewrite Z.lxor_0_r. lia.
Qed.

Lemma put_varint_eq z : vsmall z -> put_varint z = uvarint_enc 10 (zigzag z).
Proof.
  intros Hz. unfold put_varint, put_uvarint. destruct (zigzag_lt z Hz) as [Hl _].
  rewrite N.mod_small; [reflexivity|]. unfold M64. change (2 ^ 63)%N with 9223372036854775808%N in Hl. lia.
Qed.

Lemma zigzag_fuel z : vsmall z -> (zigzag z < 128 ^ N.of_nat 11)%N.
Proof.
  intros Hz. destruct (zigzag_lt z Hz) as [Hl _].
  eapply N.lt_trans; [exact Hl|]. reflexivity.
Qed.

Lemma pspec_varint z : vsmall z -> pspec p_varint (put_varint z) z.
Proof.
  intros Hz rest. rewrite put_varint_eq by exact Hz. unfold p_varint, ex.
  rewrite len_app. pose proof (len_nonneg rest) as Hr.
  set (e := uvarint_enc 10 (zigzag z)).
  rewrite (varint_scan_enc 10 (zigzag z) rest).
  - destruct (zigzag_lt z Hz) as [Hl Hu].
    rewrite N.add_0_l, N.pow_0_r, N.mul_1_r, N.mod_small
      by (unfold M64; change (2 ^ 63)%N with 9223372036854775808%N in Hl; lia).
    unfold s64_of_u. rewrite Hu. f_equal. f_equal. unfold len, e. lia.
  - apply zigzag_fuel, Hz.
  - unfold len, e. lia.
Qed.

Lemma pshort_varint z : vsmall z -> pshort p_varint (put_varint z).
Proof.
  intros Hz q q' He Hq. rewrite put_varint_eq in He by exact Hz.
  unfold p_varint, ex.
  rewrite (varint_scan_prefix 10 (zigzag z) q q') by (try assumption; apply zigzag_fuel, Hz).
  replace (len q <? len q) with false by lia. rewrite zdrop_all. exists []. reflexivity.
Qed.

(* ---------------------------------------------------------------- byte strings *)
Lemma pspec_newbytes b : pspec (p_newbytes (len b)) b b.
Proof.
  intros rest. unfold p_newbytes, ex. destruct (len b <=? 0) eqn:E.
  - assert (b = []) by (destruct b; [reflexivity|unfold len in E; cbn [length] in E; lia]). subst b. reflexivity.
  - rewrite len_app. pose proof (len_nonneg rest).
    replace (len b + len rest <? len b) with false by lia.
    replace (len b + len rest <? len b) with false by lia.
    rewrite ztake_app, zdrop_app. f_equal. unfold ex. f_equal. lia.
Qed.

Lemma pshort_newbytes b : pshort (p_newbytes (len b)) b.
Proof.
  intros q q' -> Hq. unfold p_newbytes, ex. rewrite len_app. pose proof (len_pos q' Hq). pose proof (len_nonneg q).
  replace (len q + len q' <=? 0) with false by lia.
  replace (len q <? len q + len q') with true by lia.
  replace (len q <? len q) with false by lia.
  rewrite zdrop_all. exists []. unfold ex, len. cbn [length]. f_equal. f_equal. lia.
Qed.

(* p_newbytes with a non-positive length consumes nothing *)
Lemma pspec_newbytes_null n : n <= 0 -> pspec (p_newbytes n) [] [].
Proof. intros Hn rest. unfold p_newbytes, ex. replace (n <=? 0) with true by lia. reflexivity. Qed.

(* ---------------------------------------------------------------- the monad, on one frame *)
Definition top_exact (m : msr) (f : frame) (ps : list frame) (bs : list N) : Prop :=
  m_stack m = f :: ps /\ f_in f = bs /\ f_remain f = len bs.

Definition with_in (m : msr) (f : frame) (ps : list frame) (i : list N) : msr :=
  set_stack m (set_rd f (ex i) :: ps).

(* c decodes bs to v and touches nothing but the top frame's stream *)
Definition mspec {A} (c : M A) (bs : list N) (v : A) : Prop :=
  forall m f ps rest, top_exact m f ps (bs ++ rest) -> c m = MOk v (with_in m f ps rest).
(* on every proper prefix of bs, c reports errShortRead leaving an exact stream *)
Definition mshort {A} (c : M A) (bs : list N) : Prop :=
  forall m f ps q q', top_exact m f ps q -> bs = q ++ q' -> q' <> [] ->
    exists i', c m = MErr EShort (with_in m f ps i').

Lemma with_in_exact m f ps i : top_exact (with_in m f ps i) (set_rd f (ex i)) ps i.
Proof. unfold top_exact, with_in, set_stack, set_rd, ex. cbn. auto. Qed.

Lemma with_in_with_in m f ps i j :
  with_in (with_in m f ps i) (set_rd f (ex i)) ps j = with_in m f ps j.
Proof. unfold with_in, set_stack, set_rd, ex. cbn. reflexivity. Qed.

Lemma mspec_lift {A} (p : rd -> pres A) bs v : pspec p bs v -> mspec (lift p) bs v.
Proof.
  intros Hp m f ps rest (Hs & Hi & Hr). unfold lift. rewrite Hs.
  replace (f_in f, f_remain f) with (ex (bs ++ rest)) by (unfold ex; rewrite Hi, Hr; reflexivity).
  rewrite Hp. reflexivity.
Qed.

Lemma mshort_lift {A} (p : rd -> pres A) bs : pshort p bs -> mshort (lift p) bs.
Proof.
  intros Hp m f ps q q' (Hs & Hi & Hr) He Hq. unfold lift. rewrite Hs.
  replace (f_in f, f_remain f) with (ex q) by (unfold ex; rewrite Hi, Hr; reflexivity).
  destruct (Hp q q' He Hq) as [i' Hi']. rewrite Hi'. exists i'. reflexivity.
Qed.

Lemma mspec_bind {A B} (c : M A) (k : A -> M B) bs1 bs2 v1 v2 :
  mspec c bs1 v1 -> mspec (k v1) bs2 v2 -> mspec (bind c k) (bs1 ++ bs2) v2.
Proof.
  intros H1 H2 m f ps rest Ht. unfold bind.
  rewrite <- app_assoc in Ht. rewrite (H1 m f ps _ Ht).
  rewrite (H2 _ _ ps rest (with_in_exact m f ps (bs2 ++ rest))).
  rewrite with_in_with_in. reflexivity.
Qed.

Lemma mshort_bind {A B} (c : M A) (k : A -> M B) bs1 bs2 v1 :
  mspec c bs1 v1 -> mshort c bs1 -> mshort (k v1) bs2 -> mshort (bind c k) (bs1 ++ bs2).
Proof.
  intros H1 S1 S2 m f ps q q' Ht He Hq. unfold bind.
  destruct (Z_lt_le_dec (len q) (len bs1)) as [C|C].
  - (* the cut is inside bs1 *)
    assert (Hex : exists r, bs1 = q ++ r /\ r <> []).
    { assert (Hl : (length q < length bs1)%nat) by (unfold len in C; lia).
      exists (skipn (length q) bs1). split.
      - rewrite <- (firstn_skipn (length q) bs1) at 1. f_equal.
        apply (f_equal (firstn (length q))) in He.
        rewrite firstn_app in He. replace (length q - length bs1)%nat with O in He by lia.
        cbn [firstn] in He. rewrite app_nil_r in He. rewrite He, firstn_app_exact. reflexivity.
      - intros Hn. apply (f_equal (@length N)) in Hn. rewrite skipn_length in Hn. cbn in Hn. lia. }
    destruct Hex as (r & Hr & Hrn).
    destruct (S1 m f ps q r Ht Hr Hrn) as [i' Hi']. rewrite Hi'. exists i'. reflexivity.
  - (* bs1 was read whole *)
    assert (Hex : exists q2, q = bs1 ++ q2 /\ bs2 = q2 ++ q').
    { assert (Hl : (length bs1 <= length q)%nat) by (unfold len in C; lia).
      exists (skipn (length bs1) q). split.
      - rewrite <- (firstn_skipn (length bs1) q) at 1. f_equal.
        apply (f_equal (firstn (length bs1))) in He.
        rewrite firstn_app_exact in He. rewrite firstn_app in He.
        replace (length bs1 - length q)%nat with O in He by lia. cbn [firstn] in He.
        rewrite app_nil_r in He. symmetry. exact He.
      - apply (f_equal (skipn (length bs1))) in He. rewrite skipn_app_exact in He.
        rewrite skipn_app in He. replace (length bs1 - length q)%nat with O in He by lia.
        cbn [skipn] in He. exact He. }
    destruct Hex as (q2 & Hq2 & Hb2). subst q.
    rewrite (H1 m f ps q2 Ht).
    destruct (S2 _ _ ps q2 q' (with_in_exact m f ps q2) Hb2 Hq) as [i' Hi'].
    rewrite Hi'. exists i'. rewrite with_in_with_in. reflexivity.
Qed.

Lemma mshort_nil {A} (c : M A) : mshort c [].
Proof. intros m f ps q q' _ He Hq. destruct q; destruct q'; try discriminate He. contradiction. Qed.

(* reading the top frame in between *)
Lemma mspec_top {A} (k : frame -> M A) bs v :
  (forall fr, mspec (k fr) bs v) -> mspec (bind top k) bs v.
Proof.
  intros H m f ps rest Ht. unfold bind, top. destruct Ht as (Hs & Hi & Hr). rewrite Hs.
  apply H. repeat split; assumption.
Qed.
Lemma mshort_top {A} (k : frame -> M A) bs :
  (forall fr, mshort (k fr) bs) -> mshort (bind top k) bs.
Proof.
  intros H m f ps q q' Ht He Hq. unfold bind, top. pose proof Ht as (Hs & _). rewrite Hs.
  apply (H f m f ps q q' Ht He Hq).
Qed.

Lemma mspec_ret {A} (v : A) : mspec (ret v) [] v.
Proof.
  intros m f ps rest (Hs & Hi & Hr). unfold ret, with_in, set_stack, set_rd, ex. cbn [app] in *.
  f_equal. destruct m as [st e l el]. cbn in *. subst st. f_equal. f_equal.
  destruct f as [fi fr fb fc fh]. cbn in *. subst. reflexivity.
Qed.
