(* Proofs/PagesWriteAt.v — pageBuffer.WriteAt (back-patching): the content afterwards is the
   content with exactly the range [off, off+len) replaced, for every offset and length
   (ranges inside one page, ending on / starting on a page boundary, spanning 2, 3, ... pages);
   page lengths, refcounts, pool flags and all other pages are unchanged. *)
From Coq Require Import List NArith Bool Arith Lia.
From KV Require Import Model.Pages Proofs.PagesProofs Proofs.PagesReadFrom.
Import ListNotations.

Definition data_at (ps : list page) (p : nat) : list N := p_data (nth p ps page0).
Definition cat (ps : list page) (l : list nat) : list N := concat (map (data_at ps) l).

Lemma overwrite_length d o b : o + length b <= length d -> length (overwrite d o b) = length d.
Proof.
  intros H. unfold overwrite. rewrite !app_length, firstn_length, skipn_length. lia.
Qed.

Lemma cat_ext ps ps' l : (forall q, In q l -> nth q ps' page0 = nth q ps page0) -> cat ps' l = cat ps l.
Proof.
  intros H. unfold cat. f_equal. apply map_ext_in. intros q Hq. unfold data_at. rewrite (H q Hq). reflexivity.
Qed.

Lemma firstn_ge {A} n (l : list A) : length l <= n -> firstn n l = l.
Proof. apply firstn_all2. Qed.
Lemma skipn_ge {A} n (l : list A) : length l <= n -> skipn n l = [].
Proof. apply skipn_all2. Qed.

Lemma pages_write_at_spec : forall l ps off data,
  NoDup l -> (forall p, In p l -> p < length ps) -> off + length data <= length (cat ps l) ->
  let ps' := pages_write_at ps l off data in
  length ps' = length ps /\
  (forall q, length (data_at ps' q) = length (data_at ps q) /\
             p_refc (nth q ps' page0) = p_refc (nth q ps page0) /\
             p_pool (nth q ps' page0) = p_pool (nth q ps page0)) /\
  (forall q, ~ In q l -> nth q ps' page0 = nth q ps page0) /\
  cat ps' l = firstn off (cat ps l) ++ data ++ skipn (off + length data) (cat ps l).
Proof.
  induction l as [|p t IH]; intros ps off data Hnd Hlt Hle; cbn zeta.
  - cbn [pages_write_at]. unfold cat in *. cbn [map concat length] in *.
    assert (off = 0) by lia. assert (data = []) by (destruct data; [reflexivity|cbn in Hle; lia]). subst.
    repeat split; reflexivity.
  - apply NoDup_cons_iff in Hnd as [Hpt Hnd].
    assert (Hp : p < length ps) by (apply Hlt; left; reflexivity).
    assert (Hltt : forall q, In q t -> q < length ps) by (intros q Hq; apply Hlt; right; exact Hq).
    cbn [pages_write_at]. fold (data_at ps p).
    set (d := data_at ps p) in *. set (X := cat ps t) in *.
    assert (Hcat : cat ps (p :: t) = d ++ X) by reflexivity.
    rewrite Hcat in *. rewrite app_length in Hle.
    destruct (Nat.leb_spec (length d) off) as [Hskip|Hin].
    + (* the range starts after this page *)
      destruct (IH ps (off - length d) data Hnd Hltt ltac:(fold X; lia)) as (L & Same & Other & Cat).
      fold X in Cat. set (ps' := pages_write_at ps t (off - length d) data) in *.
      split; [exact L|]. split; [exact Same|]. split.
      * intros q Hq. apply Other. intros Hin. apply Hq. right. exact Hin.
      * unfold cat at 1. cbn [map concat]. fold (cat ps' t). rewrite Cat.
        unfold data_at at 1. rewrite (Other p Hpt). fold (data_at ps p). fold d.
        rewrite firstn_app, (firstn_ge off d Hskip).
        rewrite skipn_app, (skipn_ge (off + length data) d) by lia. cbn [app].
        replace (off + length data - length d) with (off - length d + length data) by lia.
        rewrite <- !app_assoc. reflexivity.
    + (* the range starts inside this page *)
      set (n := Nat.min (length d - off) (length data)).
      set (F := firstn n data). set (data' := skipn n data).
      set (pg' := {| p_refc := p_refc (nth p ps page0); p_data := overwrite d off F; p_pool := p_pool (nth p ps page0) |}).
      set (ps1 := upd ps p pg').
      assert (Hn : n <= length data /\ n <= length d - off) by (unfold n; lia).
      assert (HF : length F = n) by (unfold F; rewrite firstn_length; lia).
      assert (Hd' : length data' = length data - n) by (unfold data'; apply skipn_length).
      assert (Hsplit : data = F ++ data') by (unfold F, data'; symmetry; apply firstn_skipn).
      assert (L1 : length ps1 = length ps) by apply upd_length.
      assert (Hother1 : forall q, q <> p -> nth q ps1 page0 = nth q ps page0).
      { intros q Hq. unfold ps1. apply nth_upd_other. congruence. }
      assert (Hp1 : nth p ps1 page0 = pg') by (unfold ps1; apply nth_upd_same; exact Hp).
      assert (HX1 : cat ps1 t = X).
      { apply cat_ext. intros q Hq. apply Hother1. intros ->. exact (Hpt Hq). }
      destruct (IH ps1 0 data' Hnd ltac:(intros q Hq; rewrite L1; apply Hltt, Hq) ltac:(rewrite HX1; lia))
        as (L & Same & Other & Cat).
      rewrite HX1 in Cat. set (ps' := pages_write_at ps1 t 0 data') in *.
      split; [lia|]. split; [|split].
      * intros q. destruct (Same q) as (S1 & S2 & S3). rewrite S1, S2, S3. unfold data_at.
        destruct (Nat.eq_dec q p) as [->|Hne].
        -- rewrite Hp1. unfold pg'. cbn [p_data p_refc p_pool]. fold (data_at ps p). fold d.
           rewrite overwrite_length by lia. repeat split; reflexivity.
        -- rewrite (Hother1 q Hne). repeat split; reflexivity.
      * intros q Hq. rewrite Other by (intros Hqt; apply Hq; right; exact Hqt).
        apply Hother1. intros ->. apply Hq. left. reflexivity.
      * unfold cat at 1. cbn [map concat]. fold (cat ps' t). rewrite Cat.
        unfold data_at at 1. rewrite (Other p Hpt), Hp1. unfold pg'. cbn [p_data firstn skipn Nat.add app].
        unfold overwrite. rewrite HF.
        rewrite firstn_app. replace (off - length d) with 0 by lia. cbn [firstn]. rewrite app_nil_r.
        rewrite skipn_app. rewrite <- !app_assoc. f_equal.
        destruct (Nat.le_gt_cases (length data) (length d - off)) as [HA|HB].
        -- (* everything lands in this page *)
           assert (Hn1 : n = length data) by (unfold n; lia).
           assert (Hd0 : data' = []) by (apply length_zero_iff_nil; lia).
           assert (HFd : F = data) by (rewrite Hsplit, Hd0, app_nil_r; reflexivity).
           rewrite Hd0, HFd, Hn1. cbn [app length skipn].
           replace (off + length data - length d) with 0 by lia. reflexivity.
        -- (* the page is filled up to its end, the rest goes on *)
           assert (Hn1 : n = length d - off) by (unfold n; lia).
           rewrite (skipn_ge (off + n) d) by lia. rewrite (skipn_ge (off + length data) d) by lia.
           cbn [app]. rewrite (app_assoc F data'), <- Hsplit. f_equal. f_equal. lia.
Qed.

(* ------------------------------------------------------------------ the buffer-level statement *)
Lemma buf_content_cat s b l : buf_ok s b l -> buf_content s b = cat (s_pages s) l.
Proof. intros H. rewrite (buf_ok_content s b l H). reflexivity. Qed.

Theorem pb_write_at_spec : forall s b l off data s',
  Inv s -> buf_ok s b l -> pb_write_at s b off data = Some s' ->
  Inv s' /\ buf_ok s' b l /\
  buf_content s' b = firstn off (buf_content s b) ++ data ++ skipn (off + length data) (buf_content s b) /\
  (forall q, length (p_data (get_page s' q)) = length (p_data (get_page s q)) /\
             p_refc (get_page s' q) = p_refc (get_page s q) /\ p_pool (get_page s' q) = p_pool (get_page s q)) /\
  (forall q, ~ In q l -> get_page s' q = get_page s q) /\
  s_bufs s' = s_bufs s /\ s_refs s' = s_refs s.
Proof.
  intros s b l off data s' I Hok H. pose proof Hok as [Hb Hnd].
  unfold pb_write_at in H. rewrite Hb in H. cbn [b_live negb b_pages] in H.
  destruct (Nat.ltb_spec (length (buf_content s b)) (off + length data)) as [|Hle]; [discriminate|].
  injection H as <-.
  rewrite (buf_content_cat s b l Hok) in *.
  assert (Hlt : forall p, In p l -> p < length (s_pages s)).
  { intros p Hp. apply (buf_page_known s b l p I Hok Hp). }
  destruct (pages_write_at_spec l (s_pages s) off data Hnd Hlt Hle) as (L & Same & Other & Cat).
  set (ps' := pages_write_at (s_pages s) l off data) in *.
  set (s' := {| s_pages := ps'; s_bufs := s_bufs s; s_refs := s_refs s |}).
  assert (Hok' : buf_ok s' b l) by (split; [exact Hb|exact Hnd]).
  split; [|split; [exact Hok'|split; [|split; [|split; [|split; reflexivity]]]]].
  - split.
    + intros q. pose proof (inv_count s I q) as Hc. unfold holders, get_page in *. cbn [s_bufs s_refs s_pages s'].
      destruct (Same q) as (_ & R & _). rewrite R. exact Hc.
    + intros q. unfold get_page. cbn [s_pages s']. destruct (Same q) as (_ & R & P). rewrite R, P. apply (inv_pool s I q).
    + intros r rf Hr Hl q lo hi Hin. cbn [s_refs s'] in Hr. unfold get_page. cbn [s_pages s'].
      destruct (Same q) as (Ln & _ & _). unfold data_at in Ln. rewrite Ln. apply (inv_segs s I r rf Hr Hl q lo hi Hin).
  - rewrite (buf_content_cat s' b l Hok'). exact Cat.
  - intros q. unfold get_page. cbn [s_pages s']. apply Same.
  - intros q Hq. unfold get_page. cbn [s_pages s']. apply Other, Hq.
Qed.
