(* Proofs/ConnReadersProofs.v — the response direction of the hand-written Conn codec.
   (1) every response grammar of the Conn (ConnOps.resp_ty) is the grammar the translator
       regenerates from /repo's protocol package for that (api key, version), read without its
       nullable flags ([legacy_of]);
   (2) the two consumer-group blobs: their hand-written readers are the reflective reader on
       their grammar (up to the map normalisation of the assignment), hence decode what was
       encoded and consume exactly the encoding. *)
From Coq Require Import List NArith ZArith Bool Lia.
From Coq Require Import ZifyN ZifyNat ZifyBool.
From KV Require Import Lib.Bits Lib.Bytes Model.Legacy Model.ConnOps Model.ConnReaders Proofs.ConnOpsCodec.
From KV Require Model.Schema Gen.Schemas.
Import ListNotations.
Open Scope Z_scope.

(* ------------------------------------------------------------------ (1) the regenerated grammar *)
(* a schema of the generic model as a descriptor of the Legacy reader: nullable flags, element
   sizes and (absent in these versions) tagged fields dropped; RECORDS are BYTES (int32 size and
   the bytes) *)
Fixpoint legacy_of (t : Schema.ty) {struct t} : ty :=
  match t with
  | Schema.TBool => TBool
  | Schema.TInt 1 => TI8 | Schema.TInt 2 => TI16 | Schema.TInt 4 => TI32 | Schema.TInt _ => TI64
  | Schema.TFloat64 => TI64
  | Schema.TString _ => TStr
  | Schema.TBytes _ => TByt
  | Schema.TArray _ _ e => TArr (legacy_of e)
  | Schema.TStruct fs _ =>
     tup ((fix go (l : list Schema.ty) : list ty :=
             match l with [] => [] | x :: r => legacy_of x :: go r end) fs)
  | Schema.TMarker => TUnit
  | Schema.TRecords _ => TByt
  end.

Definition key_of (a : api) : Z :=
  match a with
  | AProduce => 0 | AFetch | AFetchRead _ => 1 | AListOffsets => 2
  | AMetadata | ABrokers | AController => 3
  | AOffsetCommit => 8 | AOffsetFetch => 9 | AFindCoordinator => 10 | AJoinGroup => 11
  | AHeartbeat => 12 | ALeaveGroup => 13 | ASyncGroup => 14 | AListGroups => 16
  | ASaslHandshake => 17 | AApiVersions => 18 | ACreateTopics => 19 | ADeleteTopics => 20
  | ASaslAuthenticate => 36
  end.

(* every (operation, version) whose response the Conn reads *)
Definition conn_responses : list (api * N) :=
  [(AProduce, 2); (AProduce, 3); (AProduce, 7); (AFetch, 2); (AFetch, 5); (AFetch, 10);
   (AListOffsets, 1); (AMetadata, 1); (AMetadata, 6); (ABrokers, 1); (AController, 1);
   (AFindCoordinator, 0); (AJoinGroup, 1); (AJoinGroup, 2); (ASyncGroup, 0); (AHeartbeat, 0);
   (ALeaveGroup, 0); (AOffsetCommit, 2); (AOffsetFetch, 1); (AListGroups, 1);
   (ACreateTopics, 0); (ACreateTopics, 1); (ACreateTopics, 2); (ADeleteTopics, 0); (ADeleteTopics, 1);
   (AApiVersions, 0); (ASaslHandshake, 0); (ASaslHandshake, 1); (ASaslAuthenticate, 0)]%N.

Fixpoint lty_eqb (a b : ty) {struct a} : bool :=
  match a, b with
  | TI8, TI8 | TI16, TI16 | TI32, TI32 | TI64, TI64 | TBool, TBool | TStr, TStr | TByt, TByt
  | TUnit, TUnit => true
  | TArr x, TArr y => lty_eqb x y
  | TPair x1 x2, TPair y1 y2 => lty_eqb x1 y1 && lty_eqb x2 y2
  | _, _ => false
  end.
Lemma lty_eqb_eq : forall a b, lty_eqb a b = true -> a = b.
Proof.
  induction a; destruct b; cbn [lty_eqb]; intros H; try discriminate; try reflexivity.
  - f_equal. apply IHa, H.
  - apply andb_prop in H as [H1 H2]. f_equal; [apply IHa1, H1|apply IHa2, H2].
Qed.

Definition generated_ok (av : api * N) : bool :=
  match Schema.lookup_schema Schemas.schemas true (key_of (fst av)) (Z.of_N (snd av)) with
  | Some (false, t) => lty_eqb (legacy_of t) (resp_ty (fst av) (snd av))
  | _ => false
  end.
Lemma all_generated_ok : forallb generated_ok conn_responses = true.
Proof. vm_compute. reflexivity. Qed.

Theorem resp_ty_is_generated a v : In (a, v) conn_responses ->
  exists t, Schema.lookup_schema Schemas.schemas true (key_of a) (Z.of_N v) = Some (false, t) /\
            legacy_of t = resp_ty a v.
Proof.
  intros Hin. pose proof all_generated_ok as H. rewrite forallb_forall in H. specialize (H _ Hin).
  unfold generated_ok in H. cbn [fst snd] in H.
  destruct (Schema.lookup_schema Schemas.schemas true (key_of a) (Z.of_N v)) as [[fl t]|]; [|discriminate].
  destruct fl; [discriminate|]. exists t. split; [reflexivity|]. apply lty_eqb_eq, H.
Qed.

(* ------------------------------------------------------------------ reader combinators, pointwise *)
Definition rmap {A B} (f : A -> B) (r : R A) : R B :=
  match r with
  | (inl a, sz, s) => (inl (f a), sz, s)
  | (inr e, sz, s) => (inr e, sz, s)
  end.
Lemma pmap_rmap {A B} (f : A -> B) (p : P A) sz s : pmap f p sz s = rmap f (p sz s).
Proof. unfold pmap, bind, ret, rmap. destruct (p sz s) as [[[a|e] sz1] s1]; reflexivity. Qed.

Lemma rmap_rmap {A B C} (f : A -> B) (g : B -> C) (r : R A) : rmap g (rmap f r) = rmap (fun x => g (f x)) r.
Proof. destruct r as [[[a|e] sz] s]; reflexivity. Qed.

Lemma rep_rmap {A B} (f : A -> B) (q : P B) (p : P A) :
  (forall sz s, q sz s = rmap f (p sz s)) ->
  forall n sz s, rep n q sz s = rmap (map f) (rep n p sz s).
Proof.
  intros H. induction n as [|n IH]; intros sz s; [reflexivity|].
  cbn [rep]. unfold bind, ret. rewrite H.
  destruct (p sz s) as [[[a|e] sz1] s1]; cbn [rmap]; [|reflexivity].
  rewrite IH. destruct (rep n p sz1 s1) as [[[l|e] sz2] s2]; reflexivity.
Qed.

Lemma readArrayWith_rmap {A B} (f : A -> B) (q : P B) (p : P A) :
  (forall sz s, q sz s = rmap f (p sz s)) ->
  forall sz s, readArrayWith q sz s = rmap (map f) (readArrayWith p sz s).
Proof.
  intros H sz s. unfold readArrayWith, bind.
  destruct (readInt32 sz s) as [[[n|e] sz1] s1]; [|reflexivity].
  apply (rep_rmap f q p H).
Qed.

(* ------------------------------------------------------------------ (2a) groupMetadata.readFrom *)
Lemma read_group_metadata_is_read_ty sz s :
  read_ty t_group_metadata sz s = read_group_metadata sz s.
Proof.
  unfold t_group_metadata, read_group_metadata. cbn [tup read_ty].
  unfold readStringArray, bind. rewrite pmap_rmap.
  destruct (readInt16 sz s) as [[[v|e] sz1] s1]; cbn [rmap]; [|reflexivity].
  rewrite pmap_rmap. rewrite (readArrayWith_rmap VB (pmap VB readString) readString) by (intros; apply pmap_rmap).
  destruct (readArrayWith readString sz1 s1) as [[[ts|e] sz2] s2]; cbn [rmap]; [|reflexivity].
  rewrite pmap_rmap.
  destruct (readBytes sz2 s2) as [[[u|e] sz3] s3]; reflexivity.
Qed.

Theorem group_metadata_roundtrip w : wt t_group_metadata w -> forall sz rest,
  Z.of_nat (length (enc t_group_metadata w)) <= sz ->
  read_group_metadata sz (enc t_group_metadata w ++ rest)
  = (inl (dec_val t_group_metadata w), sz - Z.of_nat (length (enc t_group_metadata w)), rest).
Proof.
  intros Hwt sz rest Hsz. rewrite <- read_group_metadata_is_read_ty. apply read_ty_enc; assumption.
Qed.

(* ------------------------------------------------------------------ (2b) groupAssignment.readFrom *)
Definition entry_val (e : list N * list Z) : val := VP (VB (fst e)) (VL (map VZ (snd e))).
Definition entry_of_val (v : val) : list N * list Z :=
  match v with
  | VP (VB k) (VL l) => (k, map zof l)
  | _ => ([], [])
  end.
Lemma entry_of_entry_val e : entry_of_val (entry_val e) = e.
Proof.
  destruct e as [k vs]. unfold entry_val, entry_of_val. cbn [fst snd]. f_equal.
  rewrite map_map. cbn [zof]. apply map_id.
Qed.

Definition t_assignment_entry : ty := tup [TStr; TArr TI32].

Lemma read_entry_rmap sz s :
  read_ty t_assignment_entry sz s
  = rmap entry_val ((k <- readString ;; vs <- readArrayWith readInt32 ;; ret (k, vs)) sz s).
Proof.
  unfold t_assignment_entry. cbn [tup read_ty]. unfold bind. rewrite pmap_rmap.
  destruct (readString sz s) as [[[k|e] sz1] s1]; cbn [rmap]; [|reflexivity].
  rewrite pmap_rmap. rewrite (readArrayWith_rmap VZ (pmap VZ readInt32) readInt32) by (intros; apply pmap_rmap).
  destruct (readArrayWith readInt32 sz1 s1) as [[[vs|e] sz2] s2]; reflexivity.
Qed.

(* readMapStringInt32 is the reflective reader of [entry] arrays, entry by entry *)
Lemma read_map_rmap sz s :
  read_ty (TArr t_assignment_entry) sz s
  = rmap (fun es => VL (map entry_val es)) (readMapStringInt32 sz s).
Proof.
  cbn [read_ty]. rewrite pmap_rmap.
  rewrite (readArrayWith_rmap entry_val (read_ty t_assignment_entry)
             (k <- readString ;; vs <- readArrayWith readInt32 ;; ret (k, vs)) read_entry_rmap).
  unfold readMapStringInt32, readArrayWith. apply rmap_rmap.
Qed.

(* what groupAssignment.readFrom returns for a decoded (reflective) value: the map with
   "a later entry of the same topic replaces the earlier one" *)
Definition assignment_of (v : val) : val :=
  match v with
  | VP ver (VP (VL es) u) =>
    VP ver (VP (VL (map entry_val (map_of_entries (map entry_of_val es)))) u)
  | _ => v
  end.

Theorem group_assignment_roundtrip w : wt t_group_assignment w -> forall sz rest,
  Z.of_nat (length (enc t_group_assignment w)) <= sz ->
  read_group_assignment sz (enc t_group_assignment w ++ rest)
  = (inl (assignment_of (dec_val t_group_assignment w)),
     sz - Z.of_nat (length (enc t_group_assignment w)), rest).
Proof.
  intros Hwt sz rest Hsz.
  pose proof (read_ty_enc t_group_assignment w Hwt sz rest Hsz) as Hr.
  assert (Hpos : 0 < Z.of_nat (length (enc t_group_assignment w))).
  { unfold t_group_assignment in *. cbn [tup] in *.
    destruct w as [| | |wv w2|]; cbn [wt] in Hwt; try contradiction. destruct Hwt as [Hv _].
    destruct wv; cbn [wt] in Hv; try contradiction. cbn [enc]. rewrite !app_length, put_bes_length. lia. }
  set (bytes := enc t_group_assignment w ++ rest) in *.
  set (L := Z.of_nat (length (enc t_group_assignment w))) in *.
  set (D := dec_val t_group_assignment w) in *.
  unfold read_group_assignment. unfold bind at 1. unfold get_sz.
  destruct (Z.eqb_spec sz 0) as [E|_]; [lia|].
  revert Hr.
  change (read_ty t_group_assignment) with
    (x <- pmap VZ readInt16 ;;
     y <- (x2 <- read_ty (TArr t_assignment_entry) ;; y2 <- pmap VB readBytes ;; ret (VP x2 y2)) ;;
     ret (VP x y)).
  unfold bind. rewrite pmap_rmap.
  destruct (readInt16 sz bytes) as [[[v|e] sz1] s1]; cbn [rmap]; [|discriminate].
  rewrite read_map_rmap.
  destruct (readMapStringInt32 sz1 s1) as [[[es|e] sz2] s2]; cbn [rmap]; [|discriminate].
  rewrite pmap_rmap.
  destruct (readBytes sz2 s2) as [[[u|e] sz3] s3]; cbn [rmap]; [|discriminate].
  unfold ret. intros Hr. injection Hr as Hval Hsz3 Hs3. subst s3 sz3.
  rewrite <- Hval. unfold assignment_of.
  rewrite map_map. rewrite (map_ext _ (fun e => e) entry_of_entry_val), map_id.
  reflexivity.
Qed.

(* distinct topics: the map is the list of entries *)
Lemma map_put_fresh k v m : ~ In k (map fst m) -> map_put k v m = m ++ [(k, v)].
Proof.
  induction m as [|[k' v'] m IH]; intros H; cbn [map_put app]; [reflexivity|].
  cbn [map fst In] in H. destruct (list_eq_dec N.eq_dec k k') as [E|_]; [exfalso; apply H; left; symmetry; exact E|].
  rewrite IH by (intros Hi; apply H; right; exact Hi). reflexivity.
Qed.
Lemma map_of_entries_nodup es : NoDup (map fst es) -> map_of_entries es = es.
Proof.
  unfold map_of_entries.
  assert (G : forall acc, NoDup (map fst (acc ++ es)) ->
              fold_left (fun m e => map_put (fst e) (snd e) m) es acc = acc ++ es).
  { induction es as [|[k v] es IH]; intros acc H; cbn [fold_left]; [rewrite app_nil_r; reflexivity|].
    cbn [fst snd]. rewrite map_put_fresh.
    - rewrite IH; rewrite <- app_assoc; [reflexivity|exact H].
    - rewrite map_app in H. cbn [map fst] in H. apply NoDup_remove_2 in H.
      intros Hi. apply H. apply in_or_app. left. exact Hi. }
  intros H. apply (G []). exact H.
Qed.
