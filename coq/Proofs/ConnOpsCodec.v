(* Proofs/ConnOpsCodec.v — the reflective reader decodes what the reference encoder of the
   same grammar wrote, consuming exactly those bytes (for every well-typed wire value). *)
From Coq Require Import List NArith ZArith Bool Lia.
From Coq Require Import ZifyN ZifyNat ZifyBool.
From KV Require Import Lib.Bits Lib.Bytes Model.Legacy.
Import ListNotations.
Open Scope Z_scope.

Lemma put_bes_length w z : length (put_bes w z) = w.
Proof. unfold put_bes. apply put_be_length. Qed.

Lemma firstn_exact {A} (a b : list A) n : length a = n -> firstn n (a ++ b) = a.
Proof.
  intros H. rewrite firstn_app, H, Nat.sub_diag. cbn [firstn]. rewrite app_nil_r.
  apply firstn_all2. lia.
Qed.
Lemma skipn_exact {A} (a b : list A) n : length a = n -> skipn n (a ++ b) = b.
Proof.
  intros H. rewrite skipn_app, H, Nat.sub_diag. cbn [skipn]. rewrite skipn_all2 by lia. reflexivity.
Qed.

Lemma peek_read_exact n b sz rest : length b = n -> Z.of_nat n <= sz ->
  peek_read n sz (b ++ rest) = (inl b, sz - Z.of_nat n, rest).
Proof.
  intros Hl Hsz. unfold peek_read.
  destruct (Z.ltb_spec sz (Z.of_nat n)); [lia|].
  destruct (Nat.ltb_spec (length (b ++ rest)) n) as [Hx|Hx]; [rewrite app_length in Hx; lia|].
  rewrite firstn_exact, skipn_exact by exact Hl. reflexivity.
Qed.

Lemma read_int_enc w z sz rest : (0 < w)%nat -> in_signed w z -> Z.of_nat w <= sz ->
  read_int w sz (put_bes w z ++ rest) = (inl z, sz - Z.of_nat w, rest).
Proof.
  intros Hw Hz Hsz. unfold read_int, bind.
  rewrite peek_read_exact by (try apply put_bes_length; exact Hsz).
  unfold ret. rewrite get_put_bes by assumption. reflexivity.
Qed.

Lemma in_signed_2_len n : 0 <= n < 32768 -> in_signed 2 n.
Proof. intros H. unfold in_signed, pow256. cbn. lia. Qed.
Lemma in_signed_4_len n : -1 <= n < ZM31 -> in_signed 4 n.
Proof. intros H. unfold in_signed, pow256, ZM31 in *. cbn. lia. Qed.
Lemma in_signed_2_m1 : in_signed 2 (-1).
Proof. unfold in_signed, pow256. cbn. lia. Qed.

Lemma readNewBytes_exact b sz rest : Z.of_nat (length b) <= sz ->
  readNewBytes (Z.of_nat (length b)) sz (b ++ rest) = (inl b, sz - Z.of_nat (length b), rest).
Proof.
  intros Hsz. unfold readNewBytes.
  destruct (Z.ltb_spec 0 (Z.of_nat (length b))) as [Hn|Hn].
  - destruct (Z.ltb_spec sz (Z.of_nat (length b))); [lia|].
    destruct (Z.ltb_spec (Z.of_nat (length b)) 0); [lia|].
    destruct (Z.leb_spec (Z.of_nat (length b)) (Z.of_nat (length (b ++ rest)))) as [Hx|Hx];
      [|rewrite app_length in Hx; lia].
    rewrite Nat2Z.id, firstn_exact, skipn_exact by reflexivity. reflexivity.
  - destruct b; [|cbn [length] in Hn; lia]. cbn. f_equal. f_equal. lia.
Qed.

Lemma readNewBytes_null n sz s : n <= 0 -> readNewBytes n sz s = (inl [], sz, s).
Proof. intros H. unfold readNewBytes. destruct (Z.ltb_spec 0 n); [lia|reflexivity]. Qed.

Lemma guard_short_ok n sz s : n <= sz -> guard_short n sz s = (inl tt, sz, s).
Proof. intros H. unfold guard_short. destruct (Z.ltb_spec sz n); [lia|reflexivity]. Qed.

(* STRING / BYTES with a w-byte length prefix *)
Lemma read_lenprefixed_some (w : nat) b sz rest :
  (0 < w)%nat -> in_signed w (Z.of_nat (length b)) ->
  Z.of_nat w + Z.of_nat (length b) <= sz ->
  (n <- read_int w ;; _ <- guard_short n ;; readNewBytes n) sz
     ((put_bes w (Z.of_nat (length b)) ++ b) ++ rest)
  = (inl b, sz - (Z.of_nat w + Z.of_nat (length b)), rest).
Proof.
  intros Hw Hin Hsz. rewrite <- app_assoc. unfold bind at 1.
  rewrite read_int_enc by (try assumption; lia).
  unfold bind. rewrite guard_short_ok by lia.
  rewrite readNewBytes_exact by lia. f_equal. f_equal. lia.
Qed.
Lemma read_lenprefixed_null (w : nat) sz rest :
  (0 < w)%nat -> in_signed w (-1) -> Z.of_nat w <= sz ->
  (n <- read_int w ;; _ <- guard_short n ;; readNewBytes n) sz (put_bes w (-1) ++ rest)
  = (inl [], sz - Z.of_nat w, rest).
Proof.
  intros Hw Hin Hsz. unfold bind at 1.
  rewrite read_int_enc by assumption.
  unfold bind. rewrite guard_short_ok by lia.
  rewrite readNewBytes_null by lia. reflexivity.
Qed.

(* the loop of readArrayWith over the concatenated encodings of the elements *)
Lemma rep_enc (t : ty) :
  (forall w, wt t w -> forall sz rest, Z.of_nat (length (enc t w)) <= sz ->
     read_ty t sz (enc t w ++ rest) = (inl (dec_val t w), sz - Z.of_nat (length (enc t w)), rest)) ->
  forall l, Forall (wt t) l -> forall sz rest,
    Z.of_nat (length (flat_map (enc t) l)) <= sz ->
    rep (length l) (read_ty t) sz (flat_map (enc t) l ++ rest)
    = (inl (map (dec_val t) l), sz - Z.of_nat (length (flat_map (enc t) l)), rest).
Proof.
  intros IH l. induction l as [|x l IHl]; intros Hwt sz rest Hsz.
  - cbn. unfold ret. f_equal. f_equal. lia.
  - apply Forall_cons_iff in Hwt as [Hx Hl].
    cbn [length rep flat_map map]. cbn [flat_map] in Hsz. rewrite app_length in Hsz.
    rewrite <- app_assoc. unfold bind at 1. rewrite IH by (try exact Hx; lia).
    unfold bind at 1. rewrite IHl by (try exact Hl; lia).
    unfold ret. rewrite app_length. f_equal. f_equal. lia.
Qed.

Theorem read_ty_enc t : forall w, wt t w -> forall sz rest,
  Z.of_nat (length (enc t w)) <= sz ->
  read_ty t sz (enc t w ++ rest) = (inl (dec_val t w), sz - Z.of_nat (length (enc t w)), rest).
Proof.
  induction t; intros w Hwt sz rest Hsz; destruct w; cbn [wt] in Hwt; try contradiction;
    cbn [enc read_ty dec_val] in *.
  - (* TI8 *) rewrite put_bes_length in Hsz. unfold pmap, bind, readInt8.
    rewrite read_int_enc by (try assumption; lia). unfold ret. rewrite put_bes_length. reflexivity.
  - rewrite put_bes_length in Hsz. unfold pmap, bind, readInt16.
    rewrite read_int_enc by (try assumption; lia). unfold ret. rewrite put_bes_length. reflexivity.
  - rewrite put_bes_length in Hsz. unfold pmap, bind, readInt32.
    rewrite read_int_enc by (try assumption; lia). unfold ret. rewrite put_bes_length. reflexivity.
  - rewrite put_bes_length in Hsz. unfold pmap, bind, readInt64.
    rewrite read_int_enc by (try assumption; lia). unfold ret. rewrite put_bes_length. reflexivity.
  - (* TBool *) cbn [length] in Hsz. unfold pmap, bind, readBool, bind.
    change ([if z =? 0 then 0%N else 1%N] ++ rest) with (([if z =? 0 then 0%N else 1%N]) ++ rest).
    rewrite peek_read_exact by (cbn; try reflexivity; lia).
    unfold ret. destruct Hwt; subst z; reflexivity.
  - (* TStr *) destruct s as [b|].
    + destruct Hwt as [_ Hlen]. rewrite app_length, put_bes_length in Hsz.
      unfold pmap, bind at 1. unfold readString, readStringWith, readInt16, readNewString.
      rewrite read_lenprefixed_some by (try apply in_signed_2_len; lia).
      unfold ret. rewrite app_length, put_bes_length. f_equal. f_equal. lia.
    + rewrite put_bes_length in Hsz.
      unfold pmap, bind at 1. unfold readString, readStringWith, readInt16, readNewString.
      rewrite read_lenprefixed_null by (try apply in_signed_2_m1; lia).
      unfold ret. rewrite put_bes_length. reflexivity.
  - (* TByt *) destruct s as [b|].
    + destruct Hwt as [_ Hlen]. rewrite app_length, put_bes_length in Hsz.
      unfold pmap, bind at 1. unfold readBytes, readBytesWith, readArrayLen, readInt32.
      rewrite read_lenprefixed_some by (try apply in_signed_4_len; lia).
      unfold ret. rewrite app_length, put_bes_length. f_equal. f_equal. lia.
    + rewrite put_bes_length in Hsz.
      unfold pmap, bind at 1. unfold readBytes, readBytesWith, readArrayLen, readInt32.
      rewrite read_lenprefixed_null by (try (apply in_signed_4_len; unfold ZM31); lia).
      unfold ret. rewrite put_bes_length. reflexivity.
  - (* TArr *) destruct l as [l|].
    + destruct Hwt as [Hall Hlen]. rewrite app_length, put_bes_length in Hsz.
      unfold pmap, bind at 1. unfold readArrayWith, readInt32. rewrite <- app_assoc.
      unfold bind at 1. rewrite read_int_enc by (try apply in_signed_4_len; lia).
      rewrite Nat2Z.id. rewrite (rep_enc t IHt) by (try exact Hall; lia).
      unfold ret. rewrite app_length, put_bes_length. f_equal. f_equal. lia.
    + rewrite put_bes_length in Hsz.
      unfold pmap, bind at 1. unfold readArrayWith, readInt32.
      unfold bind at 1. rewrite read_int_enc by (try (apply in_signed_4_len; unfold ZM31); lia).
      change (Z.to_nat (-1)) with 0%nat. cbn [rep]. unfold ret. rewrite put_bes_length. reflexivity.
  - (* TPair *) destruct Hwt as [H1 H2]. rewrite app_length in Hsz.
    rewrite <- app_assoc. unfold bind at 1. rewrite IHt1 by (try exact H1; lia).
    unfold bind at 1. rewrite IHt2 by (try exact H2; lia).
    unfold ret. rewrite app_length. f_equal. f_equal. lia.
  - (* TUnit *) cbn. unfold ret. f_equal. f_equal. lia.
Qed.
