(* Proofs/LifecycleSafe.v — safety invariants of Model/Lifecycle.v: what Close's statements
   establish, generation discipline, silence after Close, leave on close, msgs closed once. *)
From Coq Require Import List Arith Bool Lia.
From KV Require Import Lib.LTS Model.Lifecycle Proofs.LifecycleBase.
Import ListNotations.

Definition crank (p : clphase) : nat :=
  match p with CLMark => 0 | CLCancel _ => 1 | CLStop _ => 2 | CLJoin _ => 3 | CLDone _ => 4 | CLMsgs _ => 5 | CLRet => 6 end.
Definition cl_at (n : nat) (s : state) : Prop := exists k p, nth_error (closers s) k = Some p /\ n <= crank p.

Lemma cl_at_mono : forall n m s, m <= n -> cl_at n s -> cl_at m s.
Proof. intros n m s H (k & p & H1 & H2). exists k, p. split; auto. lia. Qed.

(* ---------------------------------------------------------------- the shell *)
Record inv1 (s : state) : Prop := {
  i_closed : cl_at 1 s -> closed s = true;
  i_curcan : cl_at 2 s -> curcan s = true;
  i_stctx : cl_at 3 s -> stctx s = true;
  i_exited : cl_at 4 s -> all_exited s = true;
  i_rdone : cl_at 5 s -> c_group (cfg s) = true -> rdone s = true }.

Lemma cl_at_other : forall n s s', closers s' = closers s -> cl_at n s' -> cl_at n s.
Proof. intros n s s' E (k & p & H1 & H2). exists k, p. rewrite <- E. auto. Qed.

Lemma fexit_stuck_help : forall s i f, all_exited s = true -> nth_error (fetchers s) i = Some f -> f_ph f = FExit.
Proof.
  intros s i f H E. unfold all_exited in H. pose proof (forallb_nth _ _ _ _ _ H E) as F.
  unfold fdone in F. destruct (f_ph f); try discriminate; reflexivity.
Qed.

Ltac fexit_contra :=
  match goal with
  | H : all_exited ?s = true, E : nth_error (fetchers ?s) ?i = Some ?f, P : f_ph ?f = _ |- _ =>
    let Q := fresh in pose proof (fexit_stuck_help s i f H E) as Q; rewrite P in Q; discriminate
  end.

Lemma all_exited_upd_exit : forall s i f, all_exited s = true -> all_exited (set_fetchers (upd i f (fetchers s)) s) = true \/ fdone f = false.
Proof.
  intros. destruct (fdone f) eqn:E; [left|right; auto]. unfold all_exited in *. cbn. apply forallb_upd; auto.
Qed.

Lemma inv1_init : forall c, inv1 (init c).
Proof.
  intros c. split; intros (k & p & H1 & H2); cbn in H1; destruct k; discriminate.
Qed.

Lemma cl_at_app_mark : forall n s s', 1 <= n -> closers s' = closers s ++ [CLMark] -> cl_at n s' -> cl_at n s.
Proof.
  intros n s s' Hn E (k & p & H1 & H2). rewrite E in H1.
  destruct (Nat.lt_ge_cases k (length (closers s))).
  - rewrite nth_error_app1 in H1 by auto. exists k, p. auto.
  - rewrite nth_error_app2 in H1 by auto. destruct (k - length (closers s)) as [|[|]]; cbn in H1; try discriminate.
    inversion H1; subst. cbn in H2. lia.
Qed.

Lemma cl_at_upd : forall n s s' k p p', nth_error (closers s) k = Some p -> closers s' = upd k p' (closers s) ->
  cl_at n s' -> cl_at n s \/ (n <= crank p' /\ ~ n <= crank p).
Proof.
  intros n s s' k p p' E U (j & q & H1 & H2). rewrite U, nth_upd in H1.
  destruct (Nat.eqb_spec k j).
  - subst j. rewrite E in H1. inversion H1; subst q.
    destruct (le_lt_dec n (crank p)); [left; exists k, p; auto|right; split; auto; lia].
  - left. exists j, q. auto.
Qed.

Ltac closed_from C :=
  match type of C with cl_at ?n ?s0 =>
    match goal with I1 : cl_at 1 s0 -> closed s0 = true |- _ =>
      assert (Hc : closed s0 = true) by (apply I1; apply (cl_at_mono n 1); [lia|exact C]) end end.

Lemma inv1_step : forall s l s', inv1 s -> step s l = Some s' -> inv1 s'.
Proof.
  intros s l s' [I1 I2 I3 I4 I5] St.
  assert (Cfg := cfg_step _ _ _ St).
  destruct l;
  try solve [ (* labels that leave closers alone *)
    step_inv St; unf; try rewrite reply_all_calls_only;
    split; intros C; try intros G;
    (apply cl_at_other with (s := s) in C; [|cbn; destr_goal; reflexivity]);
    closed_from C;
    try (pose proof (I4 C) as Hx);
    cbn in *; destr_goal; cbn in *; auto;
    try fexit_contra; try congruence;
    try (unfold all_exited in *; cbn; apply forallb_upd; auto; fail) ].
  - (* LCloseCall *)
    step_inv St. split; intros C; try intros G;
      apply cl_at_app_mark with (s := s) in C; try (cbn; reflexivity); try lia; cbn; auto.
  - (* LFLock *)
    step_inv St; unf; split; intros C; try intros G;
    (apply cl_at_other with (s := s) in C; [|cbn; destr_goal; reflexivity]);
    (match type of C with cl_at ?n _ => assert (C1 : cl_at 1 s) by (apply (cl_at_mono n 1); [lia|exact C]) end);
    specialize (I1 C1); try discriminate; cbn; auto.
  - (* LCCheck *)
    step_inv St; unf; split; intros C; try intros G;
    (apply cl_at_other with (s := s) in C; [|cbn; destr_goal; reflexivity]);
    destr_goal; cbn; auto; try (specialize (I3 C); discriminate).
  - (* LCloseStep *)
    step_inv St; cbn in *;
    split; intros C; try intros G;
    (eapply cl_at_upd in C; [|eassumption|cbn; reflexivity]);
    cbn in *; destruct C as [C|[C1 C2]]; auto; try lia; cbn;
    try (rewrite G in *; cbn in *; assumption).
Qed.

