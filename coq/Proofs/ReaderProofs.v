(* Proofs/ReaderProofs.v — C02, L2: one generation of the background fetcher sends exactly the
   stored records of a range [a, offset) in order, provided every data response obeys the
   fetch contract (what the byte level is meant to establish, see Properties/C02.v). *)
From Coq Require Import List NArith ZArith Bool Lia.
From Coq Require Import ZifyBool.
From KV Require Import Lib.Bits Model.MsgSetReader Model.ReaderModel Spec.FetchSpec.
Import ListNotations.
Open Scope Z_scope.

(* ---------------------------------------------------------------- ranges of a sorted log *)
Definition inr (lo hi : Z) (r : record) : bool := (lo <=? r_off r) && (r_off r <? hi).

Lemma between_eq lo hi log : between lo hi log = filter (inr lo hi) log.
Proof. reflexivity. Qed.

Lemma between_nil_iff lo hi log :
  between lo hi log = [] <-> (forall r, In r log -> ~ (lo <= r_off r < hi)).
Proof.
  unfold between. induction log as [|x t IH]; cbn [filter].
  - split; [intros _ r []|reflexivity].
  - destruct ((lo <=? r_off x) && (r_off x <? hi)) eqn:E.
    + split; [discriminate|]. intros H. exfalso. apply (H x (or_introl eq_refl)). lia.
    + rewrite IH. split.
      * intros H r [->|Hr]; [lia|apply H, Hr].
      * intros H r Hr. apply H. right. exact Hr.
Qed.

Definition empty (log : list record) (x y : Z) : Prop := between x y log = [].

Lemma empty_trivial log x y : y <= x -> empty log x y.
Proof. intros H. apply between_nil_iff. intros r _. lia. Qed.

Lemma empty_mono log x y x' y' : empty log x y -> x <= x' -> y' <= y -> empty log x' y'.
Proof.
  unfold empty. rewrite !between_nil_iff. intros H Hx Hy r Hr Hc. apply (H r Hr). lia.
Qed.

Lemma empty_join log x y z : empty log x y -> empty log y z -> empty log x z.
Proof.
  unfold empty. rewrite !between_nil_iff. intros H1 H2 r Hr Hc.
  destruct (Z_lt_le_dec (r_off r) y); [apply (H1 r Hr)|apply (H2 r Hr)]; lia.
Qed.

Lemma increasing_lb lo log : increasing lo log -> forall r, In r log -> lo <= r_off r.
Proof.
  revert lo. induction log as [|x t IH]; intros lo H r Hr; [destruct Hr|].
  destruct H as [H1 H2]. destruct Hr as [->|Hr]; [exact H1|].
  specialize (IH _ H2 r Hr). lia.
Qed.

Lemma increasing_weaken lo lo' log : increasing lo log -> lo' <= lo -> increasing lo' log.
Proof. destruct log as [|x t]; [trivial|]. intros [H1 H2] H. split; [lia|exact H2]. Qed.

Lemma between_split lo0 log a b c :
  increasing lo0 log -> a <= b -> b <= c ->
  between a c log = between a b log ++ between b c log.
Proof.
  revert lo0. induction log as [|x t IH]; intros lo0 Hs Hab Hbc; [reflexivity|].
  destruct Hs as [Hx Ht]. unfold between in *. cbn [filter].
  specialize (IH _ Ht Hab Hbc).
  destruct (Z_lt_le_dec (r_off x) a) as [C1|C1].
  - replace ((a <=? r_off x) && (r_off x <? c)) with false by lia.
    replace ((a <=? r_off x) && (r_off x <? b)) with false by lia.
    replace ((b <=? r_off x) && (r_off x <? c)) with false by lia. exact IH.
  - destruct (Z_lt_le_dec (r_off x) b) as [C2|C2].
    + replace ((a <=? r_off x) && (r_off x <? c)) with true by lia.
      replace ((a <=? r_off x) && (r_off x <? b)) with true by lia.
      replace ((b <=? r_off x) && (r_off x <? c)) with false by lia.
      cbn [app]. f_equal. exact IH.
    + assert (Hnil : filter (fun r => (a <=? r_off r) && (r_off r <? b)) t = []).
      { apply (proj2 (between_nil_iff a b t)). intros r Hr.
        pose proof (increasing_lb _ _ Ht r Hr). lia. }
      replace ((a <=? r_off x) && (r_off x <? b)) with false by lia.
      rewrite Hnil in *. cbn [app] in *.
      destruct (Z_lt_le_dec (r_off x) c) as [C3|C3].
      * replace ((a <=? r_off x) && (r_off x <? c)) with true by lia.
        replace ((b <=? r_off x) && (r_off x <? c)) with true by lia. f_equal. exact IH.
      * replace ((a <=? r_off x) && (r_off x <? c)) with false by lia.
        replace ((b <=? r_off x) && (r_off x <? c)) with false by lia. exact IH.
Qed.

Lemma between_in lo hi log r : In r (between lo hi log) -> In r log /\ lo <= r_off r < hi.
Proof. unfold between. rewrite filter_In. intros [H1 H2]. split; [exact H1|lia]. Qed.

(* between a l is a prefix of from a *)
Lemma between_prefix_from lo0 log a l :
  increasing lo0 log -> a <= l -> exists rest, from a log = between a l log ++ rest.
Proof.
  revert lo0. induction log as [|x t IH]; intros lo0 Hs Hal; [exists []; reflexivity|].
  destruct Hs as [Hx Ht]. destruct (IH _ Ht Hal) as [rest Hr].
  unfold from, between in *. cbn [filter].
  destruct (a <=? r_off x) eqn:Ea; destruct (r_off x <? l) eqn:El; cbn [andb].
  - exists rest. cbn [app]. f_equal. exact Hr.
  - assert (Hnil : filter (fun r => (a <=? r_off r) && (r_off r <? l)) t = []).
    { apply (proj2 (between_nil_iff a l t)). intros r Hin.
      pose proof (increasing_lb _ _ Ht r Hin). lia. }
    rewrite Hnil. cbn [app]. eexists. reflexivity.
  - exists rest. exact Hr.
  - exists rest. exact Hr.
Qed.

(* ---------------------------------------------------------------- the fetch contract *)
Definition mm (rs : list record) : list msg := map msg_of rs.

(* a fetch issued at c that delivered ms and left Conn.offset = f *)
Definition fetch_ok (log : list record) (c : Z) (ms : list msg) (f : Z) : Prop :=
  (c <= f /\ ms = mm (between c f log)) \/ (f < c /\ ms = [] /\ empty log f c).

Definition next_off (ms : list msg) (l : Z) : Z :=
  match rev ms with [] => l | m :: _ => g_off m + 1 end.

Lemma rev_cons_last {A} (l : list A) : l <> [] -> exists x l', l = l' ++ [x].
Proof.
  intros H. destruct (rev l) as [|x r] eqn:E.
  - apply (f_equal (@rev A)) in E. rewrite rev_involutive in E. contradiction.
  - exists x, (rev r). apply (f_equal (@rev A)) in E. rewrite rev_involutive in E. exact E.
Qed.

(* the heart of L2: a response that obeys the contract extends the emitted range *)
Lemma fetch_extends log lo0 a l c ms f :
  increasing lo0 log -> a <= l -> empty log l c -> empty log c l ->
  fetch_ok log c ms f ->
  let l' := next_off ms l in
  mm (between a l log) ++ ms = mm (between a l' log) /\ a <= l' /\ l <= l'
  /\ empty log l' f /\ empty log f l'.
Proof.
  intros Hs Hal H1 H2 Hok. cbn zeta.
  destruct Hok as [[Hcf Hms]|(Hfc & Hms & He)].
  2:{ subst ms. unfold next_off. cbn [rev]. rewrite app_nil_r.
      repeat split; try lia.
      - destruct (Z_lt_le_dec l f); [|apply empty_trivial; lia].
        apply (empty_mono log l c); [exact H1|lia|lia].
      - destruct (Z_lt_le_dec f l); [|apply empty_trivial; lia].
        destruct (Z_lt_le_dec c l).
        + apply (empty_join log f c l); [exact He|exact H2].
        + apply (empty_mono log f c); [exact He|lia|lia]. }
  destruct (between c f log) as [|r0 rs0] eqn:Eb.
  - (* nothing delivered *)
    subst ms. unfold next_off, mm. cbn [map rev]. rewrite app_nil_r.
    assert (Hc : empty log c f) by exact Eb.
    repeat split; try lia.
    + destruct (Z_lt_le_dec l f); [|apply empty_trivial; lia].
      destruct (Z_lt_le_dec c l).
      * apply (empty_mono log c f); [exact Hc|lia|lia].
      * apply (empty_join log l c f); [exact H1|exact Hc].
    + destruct (Z_lt_le_dec f l); [|apply empty_trivial; lia].
      apply (empty_mono log c l); [exact H2|lia|lia].
  - (* at least one record *)
    rewrite <- Eb in Hms.
    assert (Hne : between c f log <> []) by (rewrite Eb; discriminate).
    destruct (rev_cons_last _ Hne) as (rl & pre & Hlast).
    assert (Hrl : In rl (between c f log)) by (rewrite Hlast; apply in_or_app; right; left; reflexivity).
    apply between_in in Hrl. destruct Hrl as [Hrl_in Hrl_r].
    assert (Hnext : next_off ms l = r_off rl + 1).
    { unfold next_off. rewrite Hms, Hlast. unfold mm. rewrite map_app, rev_app_distr. reflexivity. }
    rewrite Hnext. set (l' := r_off rl + 1).
    (* rl is not in the hole between c and l *)
    assert (Hl : l <= r_off rl).
    { destruct (Z_lt_le_dec (r_off rl) l) as [C|C]; [|exact C]. exfalso.
      apply (proj1 (between_nil_iff c l log) H2 rl Hrl_in). lia. }
    (* nothing of [c,f) lies at or after l' *)
    assert (Hsplit : between c f log = between c l' log ++ between l' f log)
      by (apply (between_split lo0); [exact Hs|unfold l'; lia|unfold l'; lia]).
    assert (Htail : between l' f log = []).
    { destruct (between l' f log) as [|y ys] eqn:Ey; [reflexivity|exfalso].
      assert (Hy : exists z zs, y :: ys = zs ++ [z]) by (destruct (rev_cons_last (y :: ys)) as (z & zs & E); [discriminate|exists z, zs; exact E]).
      destruct Hy as (z & zs & Ez).
      rewrite Hsplit, Ez, app_assoc in Hlast.
      apply app_inj_tail in Hlast. destruct Hlast as [_ Hz]. subst z.
      assert (Hin : In rl (between l' f log)) by (rewrite Ey, Ez; apply in_or_app; right; left; reflexivity).
      apply between_in in Hin. unfold l' in Hin. lia. }
    rewrite Htail, app_nil_r in Hsplit.
    assert (Hll : between l l' log = between c l' log).
    { destruct (Z_lt_le_dec c l) as [C|C].
      - rewrite (between_split lo0 log c l l') by (try exact Hs; unfold l'; lia).
        unfold empty in H2. rewrite H2. reflexivity.
      - rewrite (between_split lo0 log l c l') by (try exact Hs; unfold l'; lia).
        unfold empty in H1. rewrite H1. reflexivity. }
    repeat split; try (unfold l'; lia).
    + rewrite Hms, Hsplit, <- Hll.
      rewrite (between_split lo0 log a l l') by (try exact Hs; unfold l'; lia).
      unfold mm. rewrite map_app. reflexivity.
    + exact Htail.
    + apply empty_trivial. unfold l'. lia.
Qed.

(* ---------------------------------------------------------------- one generation *)
Section Generation.
Variable run : Z -> Z -> list N -> Z -> bool -> option (list msg * err * Z).
Variable cfg : gcfg.
Variable log : list record.
Hypothesis log_sorted : increasing 0 log.

Definition msgs_of (outs : list gout) : list msg :=
  flat_map (fun o => match o with OMsg g _ => [g] | OErr _ => [] end) outs.

(* what the environment may answer to generation state g *)
Definition ev_ok (g : gen) (ev : gev) : Prop :=
  match ev with
  | GInit first last first2 last2 =>
    (forall r, In r log -> first <= r_off r) /\ (forall r, In r log -> r_off r < last)
  | GOffsets (Some (first, last)) => forall r, In r log -> first <= r_off r
  | GFetch (FData hwm bytes remain late) =>
    g_phase g = PRead ->
    exists ms e f, run (g_conn g) hwm bytes remain late = Some (ms, e, f) /\ fetch_ok log (g_conn g) ms f
  | _ => True
  end.

(* E: everything the generation has sent so far *)
Definition gen_inv (s0 : Z) (g : gen) (E : list msg) : Prop :=
  exists a, (0 <= s0 -> a = s0) /\ a <= g_offset g /\ E = mm (between a (g_offset g) log)
            /\ ((g_phase g = PRead \/ g_phase g = POffsets) ->
                empty log (g_offset g) (g_conn g) /\ empty log (g_conn g) (g_offset g)).

Lemma msgs_of_app a b : msgs_of (a ++ b) = msgs_of a ++ msgs_of b.
Proof. unfold msgs_of. apply flat_map_app. Qed.

Lemma msgs_of_map ms hwm : msgs_of (map (fun m => OMsg m hwm) ms) = ms.
Proof. induction ms as [|m t IH]; [reflexivity|]. cbn. f_equal. exact IH. Qed.

Lemma below_first_empty first x y :
  (forall r, In r log -> first <= r_off r) -> y <= first -> empty log x y.
Proof.
  intros Hf Hy. apply between_nil_iff. intros r Hr Hc. specialize (Hf r Hr). lia.
Qed.

Lemma between_extend_below_first a l first :
  (forall r, In r log -> first <= r_off r) -> a <= l -> l <= first ->
  between a l log = between a first log.
Proof.
  intros Hf Hal Hlf.
  rewrite (between_split 0 log a l first) by (try exact log_sorted; lia).
  rewrite (below_first_empty first l first Hf) by lia. rewrite app_nil_r. reflexivity.
Qed.

Lemma neg_offsets_empty x y : y <= 0 -> empty log x y.
Proof.
  intros Hy. apply between_nil_iff. intros r Hr Hc.
  pose proof (increasing_lb 0 log log_sorted r Hr). lia.
Qed.

Theorem gen_step_inv s0 g ev g' outs E :
  gen_inv s0 g E -> ev_ok g ev -> gen_step run cfg g ev = Some (g', outs) ->
  gen_inv s0 g' (E ++ msgs_of outs).
Proof.
  intros (a & Hs0 & Hal & HE & Hhole) Hev Hstep.
  unfold gen_step in Hstep.
  destruct (g_phase g) eqn:Hph; destruct ev as [|first last first2 last2|r|r]; try (injection Hstep as <- <-; cbn [msgs_of flat_map]; rewrite app_nil_r; exists a; rewrite Hph; (split; [exact Hs0|split; [exact Hal|split; [exact HE|exact Hhole]]]); fail).
  - (* PInit, GDialFail *)
    injection Hstep as <- <-. exists a. cbn [g_offset g_phase g_conn].
    split; [exact Hs0|]. split; [exact Hal|]. split.
    + destruct (c_max_attempts cfg <=? g_attempt g); cbn; rewrite app_nil_r; exact HE.
    + intros [H|H]; discriminate H.
  - (* PInit, GInit *)
    destruct Hev as [Hfirst Hlast].
    set (o := g_offset g) in *.
    set (o1 := if o =? FirstOffset then first else if o =? LastOffset then last
               else if o <? first then first else o) in *.
    assert (Hanchor : exists a', (0 <= s0 -> a' = s0) /\ a' <= o1 /\ E = mm (between a' o1 log)).
    { unfold o1. destruct (o =? FirstOffset) eqn:E1.
      - exists first. split; [unfold FirstOffset in *; lia|]. split; [lia|]. rewrite HE.
        rewrite (neg_offsets_empty a o) by (unfold FirstOffset in *; lia).
        rewrite (empty_trivial log first first) by lia. reflexivity.
      - destruct (o =? LastOffset) eqn:E2.
        + exists last. split; [unfold LastOffset in *; lia|]. split; [lia|]. rewrite HE.
          rewrite (neg_offsets_empty a o) by (unfold LastOffset in *; lia).
          rewrite (empty_trivial log last last) by lia. reflexivity.
        + destruct (o <? first) eqn:E3.
          * exists a. split; [exact Hs0|]. split; [lia|]. rewrite HE. f_equal.
            apply between_extend_below_first; [exact Hfirst|lia|lia].
          * exists a. split; [exact Hs0|]. split; [lia|exact HE]. }
    destruct Hanchor as (a' & Hs0' & Ha' & HE').
    destruct (o1 =? FirstOffset) eqn:Eo1.
    + injection Hstep as <- <-. rewrite app_nil_r. exists a'. cbn [g_offset g_phase g_conn].
      split; [exact Hs0'|]. split; [exact Ha'|]. split; [exact HE'|]. intros _. split; apply empty_trivial; lia.
    + destruct ((o1 <? first2) || (last2 <? o1)) eqn:Eoor.
      * destruct (c_oor_error cfg); injection Hstep as <- <-; exists a; cbn [g_offset g_phase g_conn];
          (split; [exact Hs0|]); (split; [exact Hal|]); (split; [cbn; rewrite app_nil_r; exact HE|]); intros [H|H]; discriminate H.
      * injection Hstep as <- <-. rewrite app_nil_r. exists a'. cbn [g_offset g_phase g_conn].
        split; [exact Hs0'|]. split; [exact Ha'|]. split; [exact HE'|]. intros _. split; apply empty_trivial; lia.
  - (* PRead, GFetch *)
    destruct (Hhole (or_introl eq_refl)) as [H1 H2].
    destruct (read_once run g r) as [[[[outs0 e] o'] c']|] eqn:Ero; [|discriminate].
    (* what read_once guarantees *)
    assert (Hro : exists a', (0 <= s0 -> a' = s0) /\ a' <= o' /\ E ++ msgs_of outs0 = mm (between a' o' log)
                             /\ empty log o' c' /\ empty log c' o').
    { unfold read_once in Ero.
      destruct r as [hwm bytes remain late|code| |].
      - destruct (Hev Hph) as (ms & e0 & f & Hrun & Hok).
        rewrite Hrun in Ero. injection Ero as <- <- <- <-.
        rewrite msgs_of_map.
        pose proof (fetch_extends log 0 a (g_offset g) (g_conn g) ms f log_sorted Hal H1 H2 Hok) as Hx.
        cbn zeta in Hx. unfold next_off in Hx.
        destruct Hx as (Hx1 & Hx2 & Hx3 & Hx4 & Hx5).
        exists a. rewrite HE. auto.
      - injection Ero as <- <- <- <-. exists a. cbn. rewrite app_nil_r. auto.
      - injection Ero as <- <- <- <-. exists a. cbn. rewrite app_nil_r. auto.
      - injection Ero as <- <- <- <-. exists a. cbn. rewrite app_nil_r. auto. }
    destruct Hro as (a' & Hs0' & Ha' & HE' & Hh1 & Hh2).
    assert (Hgen : forall ph cc att extra, msgs_of extra = [] ->
              gen_inv s0 (mkGen ph o' (if match ph with PInit => true | _ => false end then cc else c') att)
                      (E ++ msgs_of (outs0 ++ extra))).
    { intros ph cc att extra Hex. exists a'. cbn [g_offset g_phase g_conn].
      split; [exact Hs0'|]. split; [exact Ha'|]. split.
      - rewrite msgs_of_app, Hex, app_nil_r. exact HE'.
      - destruct ph; intros [H|H]; try discriminate H; auto. }
    destruct e; try (injection Hstep as <- <-; rewrite <- (app_nil_r outs0);
                     first [apply (Hgen PInit FirstOffset 1 []); reflexivity
                           |apply (Hgen PRead 0 0 []); reflexivity]).
    + (* ECodec *) injection Hstep as <- <-. apply (Hgen PInit FirstOffset 1 [OErr ECodec]). reflexivity.
    + (* EKafka *)
      destruct code as [|p|p]; try (injection Hstep as <- <-; apply (Hgen PRead 0 0 [OErr (EKafka _)]); reflexivity).
      destruct p as [p|p|]; try destruct p as [p|p|]; try destruct p as [p|p|];
        try (injection Hstep as <- <-;
             first [apply (Hgen PRead 0 0 [OErr (EKafka _)]); reflexivity
                   |rewrite <- (app_nil_r outs0); apply (Hgen PInit FirstOffset 1 []); reflexivity
                   |rewrite <- (app_nil_r outs0); apply (Hgen POffsets 0 0 []); reflexivity]).
  - (* POffsets, GOffsets *)
    destruct (Hhole (or_intror eq_refl)) as [H1 H2].
    destruct r as [[first last]|].
    + cbn in Hev. destruct (g_offset g <? first) eqn:Elt; injection Hstep as <- <-; rewrite app_nil_r;
        exists a; cbn [g_offset g_phase g_conn].
      * split; [exact Hs0|]. split; [lia|]. split.
        -- rewrite HE. f_equal. apply between_extend_below_first; [exact Hev|lia|lia].
        -- intros _. split.
           ++ destruct (Z_lt_le_dec first (g_conn g)); [|apply empty_trivial; lia].
              apply (empty_mono log (g_offset g) (g_conn g)); [exact H1|lia|lia].
           ++ destruct (Z_lt_le_dec (g_conn g) first); [|apply empty_trivial; lia].
              apply (below_first_empty first); [exact Hev|lia].
      * split; [exact Hs0|]. split; [exact Hal|]. split; [exact HE|]. intros _. auto.
    + injection Hstep as <- <-. rewrite app_nil_r. exists a. cbn [g_offset g_phase g_conn].
      split; [exact Hs0|]. split; [exact Hal|]. split; [exact HE|]. intros [H|H]; discriminate H.
Qed.

(* run a generation over a list of environment events *)
Fixpoint gen_run (g : gen) (evs : list gev) {struct evs} : option (gen * list gout) :=
  match evs with
  | [] => Some (g, [])
  | ev :: t =>
    match gen_step run cfg g ev with
    | None => None
    | Some (g1, o1) =>
      match gen_run g1 t with
      | None => None
      | Some (g2, o2) => Some (g2, o1 ++ o2)
      end
    end
  end.

Fixpoint evs_ok (g : gen) (evs : list gev) {struct evs} : Prop :=
  match evs with
  | [] => True
  | ev :: t => ev_ok g ev /\ (forall g1 o1, gen_step run cfg g ev = Some (g1, o1) -> evs_ok g1 t)
  end.

Lemma gen_run_inv s0 evs : forall g E g' outs,
  gen_inv s0 g E -> evs_ok g evs -> gen_run g evs = Some (g', outs) -> gen_inv s0 g' (E ++ msgs_of outs).
Proof.
  induction evs as [|ev t IH]; intros g E g' outs Hinv Hok Hrun; cbn [gen_run] in Hrun.
  - injection Hrun as <- <-. cbn. rewrite app_nil_r. exact Hinv.
  - destruct Hok as [Hev Hrest].
    destruct (gen_step run cfg g ev) as [[g1 o1]|] eqn:E1; [|discriminate].
    destruct (gen_run g1 t) as [[g2 o2]|] eqn:E2; [|discriminate].
    injection Hrun as <- <-.
    rewrite msgs_of_app, app_assoc.
    apply (IH g1 (E ++ msgs_of o1) g2 o2); [|apply (Hrest g1 o1 eq_refl)|exact E2].
    apply (gen_step_inv s0 g ev); assumption.
Qed.

Lemma gen_start_inv o : gen_inv o (gen_start o) [].
Proof.
  exists o. cbn [gen_start g_offset g_phase]. split; [reflexivity|]. split; [lia|]. split.
  - rewrite (empty_trivial log o o) by lia. reflexivity.
  - intros [H|H]; discriminate H.
Qed.

(* C02 for one generation: whatever the broker and the network do (within the contract),
   the messages sent to the Reader's queue are the stored records of a range [a, l), in
   order, each once, with their stored fields — a prefix of the records from a on *)
Theorem generation_exact o evs g' outs :
  evs_ok (gen_start o) evs -> gen_run (gen_start o) evs = Some (g', outs) ->
  exists a rest, msgs_of outs = mm (between a (g_offset g') log)
                 /\ mm (from a log) = msgs_of outs ++ rest /\ (0 <= o -> a = o).
Proof.
  intros Hok Hrun.
  pose proof (gen_run_inv o evs _ [] _ _ (gen_start_inv o) Hok Hrun) as (a & Hs0 & Hal & HE & _).
  cbn [app] in HE. exists a.
  destruct (between_prefix_from 0 log a (g_offset g') log_sorted Hal) as [rest Hrest].
  exists (mm rest). split; [exact HE|]. split; [|exact Hs0]. rewrite HE, Hrest. unfold mm. apply map_app.
Qed.

End Generation.

(* after any run of a generation within the contract: no stored record lies between the restart
   offset (last sent + 1) and Conn.offset, in either direction *)
Theorem generation_conn_offset run cfg log o evs g' outs :
  increasing 0 log ->
  evs_ok run cfg log (gen_start o) evs -> gen_run run cfg (gen_start o) evs = Some (g', outs) ->
  g_phase g' = PRead ->
  empty log (g_offset g') (g_conn g') /\ empty log (g_conn g') (g_offset g').
Proof.
  intros Hs Hok Hrun Hph.
  pose proof (gen_run_inv run cfg log Hs o evs _ [] _ _ (gen_start_inv run log o) Hok Hrun) as (a & _ & _ & _ & Hh).
  apply Hh. left. exact Hph.
Qed.

(* ---------------------------------------------------------------- the restart offset is absolute *)
(* reader.run: `offset = start` after the initialisation.  The FirstOffset / LastOffset
   placeholder a generation starts with is resolved by its first initialised connection and
   never again: from then on the restart offset is an absolute offset, so a connection lost
   before the first message was delivered resumes at the resolved offset, not at the partition's
   new first / last offset. *)
Section RestartOffset.
Variable run : Z -> Z -> list N -> Z -> bool -> option (list msg * err * Z).
Variable cfg : gcfg.

(* the broker answers absolute offsets, messages carry absolute offsets *)
Definition ev_abs (g : gen) (ev : gev) : Prop :=
  match ev with
  | GInit first last _ _ => 0 <= first /\ 0 <= last
  | GOffsets (Some (first, _)) => 0 <= first
  | GFetch (FData hwm bytes remain late) =>
    forall ms e off, run (g_conn g) hwm bytes remain late = Some (ms, e, off) -> Forall (fun m => 0 <= g_off m) ms
  | _ => True
  end.

Definition resolved (o first last : Z) : Z :=
  if o =? FirstOffset then first else if o =? LastOffset then last else if o <? first then first else o.

Lemma resolved_abs o first last : 0 <= first -> 0 <= last -> 0 <= resolved o first last.
Proof.
  intros Hf Hl. unfold resolved, FirstOffset, LastOffset. destruct (o =? -2); [exact Hf|].
  destruct (o =? -1); [exact Hl|]. destruct (o <? first) eqn:E; lia.
Qed.

(* the initialisation that succeeds leaves an absolute restart offset: the placeholder resolved *)
Lemma init_resolves g first last first2 last2 g' outs :
  gen_step run cfg g (GInit first last first2 last2) = Some (g', outs) ->
  g_phase g = PInit -> g_phase g' = PRead -> 0 <= first -> 0 <= last ->
  0 <= g_offset g' /\ g_offset g' = resolved (g_offset g) first last.
Proof.
  intros Hs Hp Hp' Hf Hl. unfold gen_step in Hs. rewrite Hp in Hs. fold (resolved (g_offset g) first last) in Hs.
  pose proof (resolved_abs (g_offset g) first last Hf Hl) as Ho1.
  destruct (resolved (g_offset g) first last =? FirstOffset) eqn:E1; [unfold FirstOffset in E1; lia|].
  destruct ((resolved (g_offset g) first last <? first2) || (last2 <? resolved (g_offset g) first last)).
  - destruct (c_oor_error cfg); injection Hs as <- _; cbn [g_phase] in Hp'; discriminate.
  - injection Hs as <- _. cbn [g_offset]. split; [exact Ho1|reflexivity].
Qed.

(* once absolute, always absolute: no later step — a redial and its initialisation, an error
   answer, OffsetOutOfRange handling, deliveries — brings a placeholder back; and the
   initialisation of a redial does not move an absolute restart offset that the log still holds *)
Lemma restart_offset_stays_absolute g ev g' outs :
  gen_step run cfg g ev = Some (g', outs) -> ev_abs g ev -> 0 <= g_offset g -> 0 <= g_offset g'.
Proof.
  intros Hs Hev Ho. unfold gen_step in Hs.
  destruct (g_phase g) eqn:Hp; destruct ev as [|first last first2 last2|r|r]; try (injection Hs as <- _; exact Ho).
  - (* PInit, GInit *)
    cbn [ev_abs] in Hev. destruct Hev as [Hf Hl]. fold (resolved (g_offset g) first last) in Hs.
    pose proof (resolved_abs (g_offset g) first last Hf Hl) as Ho1.
    destruct (resolved (g_offset g) first last =? FirstOffset); [injection Hs as <- _; exact Ho1|].
    destruct ((resolved (g_offset g) first last <? first2) || (last2 <? resolved (g_offset g) first last)).
    + destruct (c_oor_error cfg); injection Hs as <- _; exact Ho.
    + injection Hs as <- _. exact Ho1.
  - (* PRead, GFetch *)
    destruct (read_once run g r) as [[[[outs0 e] o'] c']|] eqn:Er; [|discriminate].
    assert (Ho' : 0 <= o').
    { unfold read_once in Er. destruct r as [hwm bytes remain late|code| |].
      - destruct (run (g_conn g) hwm bytes remain late) as [[[ms e0] off]|] eqn:Erun; [|discriminate].
        injection Er as _ _ <- _. cbn [ev_abs] in Hev. specialize (Hev ms e0 off Erun).
        destruct (rev ms) as [|m t] eqn:Erev; [exact Ho|].
        assert (Hin : In m ms) by (apply in_rev; rewrite Erev; left; reflexivity).
        pose proof (proj1 (Forall_forall _ _) Hev m Hin) as Hm. cbn beta in Hm. lia.
      - injection Er as _ _ <- _. exact Ho.
      - injection Er as _ _ <- _. exact Ho.
      - injection Er as _ _ <- _. exact Ho. }
    repeat match type of Hs with context[match ?x with _ => _ end] => destruct x end; injection Hs as <- _; exact Ho'.
  - (* POffsets, GOffsets *)
    destruct r as [[first last]|]; [|injection Hs as <- _; exact Ho].
    cbn [ev_abs] in Hev. destruct (g_offset g <? first); injection Hs as <- _; cbn [g_offset]; [exact Hev|exact Ho].
Qed.

(* the initialisation of a redial does not move an absolute restart offset (unless the log
   start has passed it): the placeholder is resolved at most once per position *)
Lemma redial_keeps_resolved_offset g first last first2 last2 g' outs :
  gen_step run cfg g (GInit first last first2 last2) = Some (g', outs) ->
  g_phase g = PInit -> 0 <= g_offset g -> first <= g_offset g -> g_offset g' = g_offset g.
Proof.
  intros Hs Hp Hab Hge. unfold gen_step in Hs. rewrite Hp in Hs. fold (resolved (g_offset g) first last) in Hs.
  assert (Hr : resolved (g_offset g) first last = g_offset g).
  { unfold resolved, FirstOffset, LastOffset. replace (g_offset g =? -2) with false by lia.
    replace (g_offset g =? -1) with false by lia. replace (g_offset g <? first) with false by lia. reflexivity. }
  rewrite Hr in Hs. destruct (g_offset g =? FirstOffset); [injection Hs as <- _; reflexivity|].
  destruct ((g_offset g <? first2) || (last2 <? g_offset g)).
  - destruct (c_oor_error cfg); injection Hs as <- _; reflexivity.
  - injection Hs as <- _. reflexivity.
Qed.

End RestartOffset.
