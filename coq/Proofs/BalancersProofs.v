(* Proofs/BalancersProofs.v — lemmas behind Properties/C13.v *)
From Coq Require Import List NArith ZArith Bool Lia.
From Coq Require Import ZifyN ZifyNat ZifyBool.
From KV Require Import Lib.Bits Lib.Crc Model.Balancers Spec.RefPartitioners Proofs.BitsLemmas.
Import ListNotations.

(* ------------------------------------------------------------------ murmur2 = Java *)
Section Murmur.
Open Scope Z_scope.

Lemma sbyte_and b : (b < 256)%N -> jand (sbyte b) 255 = Z.of_N b.
Proof.
  intros Hb. unfold jand, sbyte. change 255 with (Z.ones 8).
  rewrite Z.land_ones by lia. change (2 ^ 8) with 256.
  destruct (N.ltb_spec b 128).
  - apply Z.mod_small. lia.
  - replace (Z.of_N b - 256) with (Z.of_N b + (-1) * 256) by lia.
    rewrite Z.mod_add by lia. apply Z.mod_small. lia.
Qed.

Lemma nland_255 b : (b < 256)%N -> N.land b 255 = b.
Proof.
  intros Hb. change 255%N with (N.ones 8). rewrite N.land_ones.
  apply N.mod_small. exact Hb.
Qed.

Lemma u32_byte b : (b < 256)%N -> u32 (jand (sbyte b) 255) = N.land b 255.
Proof.
  intros Hb. rewrite sbyte_and, nland_255 by exact Hb.
  apply u32_of_N. unfold M32. lia.
Qed.

Lemma u32_jm : u32 j_m = mm_m. Proof. reflexivity. Qed.
Lemma u32_jseed : u32 j_seed = mm_seed. Proof. vm_compute. reflexivity. Qed.

Lemma u32_jmul a b : u32 (jmul a b) = mul32 (u32 a) (u32 b).
Proof. apply u32_mul. Qed.
Lemma u32_jadd a b : u32 (jadd a b) = add32 (u32 a) (u32 b).
Proof. apply u32_add. Qed.
Lemma u32_jxor a b : u32 (jxor a b) = N.lxor (u32 a) (u32 b).
Proof. apply u32_lxor. Qed.
Lemma u32_jshl a k : 0 <= k -> u32 (jshl a k) = shl32 (u32 a) (Z.to_N k).
Proof. apply u32_shl. Qed.
Lemma u32_jushr a k : 0 <= k -> u32 (jushr a k) = N.shiftr (u32 a) (Z.to_N k).
Proof. apply u32_ushr. Qed.

Lemma u32_mixk k : u32 (j_mixk k) = mm_mixk (u32 k).
Proof.
  unfold j_mixk, mm_mixk.
  rewrite u32_jmul, u32_jxor, u32_jushr, u32_jmul, u32_jm by lia. reflexivity.
Qed.

Lemma u32_chunk h b0 b1 b2 b3 :
  (b0 < 256)%N -> (b1 < 256)%N -> (b2 < 256)%N -> (b3 < 256)%N ->
  u32 (j_chunk h b0 b1 b2 b3) = mm_chunk (u32 h) b0 b1 b2 b3.
Proof.
  intros H0 H1 H2 H3. unfold j_chunk, mm_chunk.
  rewrite u32_jxor, u32_jmul, u32_mixk, u32_jm.
  rewrite !u32_jadd, !u32_jshl, !u32_byte by (assumption || lia).
  reflexivity.
Qed.

Lemma u32_tail h data : bytes_ok data -> (length data < 4)%nat ->
  u32 (j_tail h data) = mm_tail (u32 h) data.
Proof.
  intros Hok Hlen.
  destruct data as [|b0 [|b1 [|b2 [|b3 rest]]]]; cbn [length] in Hlen; try lia;
    unfold j_tail, mm_tail; try reflexivity;
    unfold bytes_ok in Hok;
    repeat match goal with
           | H : Forall _ (_ :: _) |- _ => apply Forall_cons_iff in H; destruct H
           end;
    unfold is_byte in *;
    rewrite ?u32_jmul, ?u32_jxor, ?u32_jshl, ?u32_byte, ?u32_jm by (assumption || lia);
    reflexivity.
Qed.

Lemma list_ind4 (A : Type) (P : list A -> Prop) :
  (forall l, (length l < 4)%nat -> P l) ->
  (forall a b c d l, P l -> P (a :: b :: c :: d :: l)) ->
  forall l, P l.
Proof.
  intros Hs Hc.
  fix IH 1. intros l.
  destruct l as [|a [|b [|c [|d l']]]].
  - apply Hs. cbn. lia.
  - apply Hs. cbn. lia.
  - apply Hs. cbn. lia.
  - apply Hs. cbn. lia.
  - apply Hc. apply IH.
Qed.

Lemma j_loop_short h l : (length l < 4)%nat -> j_loop h l = j_tail h l.
Proof. destruct l as [|a [|b [|c [|d l']]]]; cbn [length]; intros; try lia; reflexivity. Qed.
Lemma mm_loop_short h l : (length l < 4)%nat -> mm_loop h l = mm_tail h l.
Proof. destruct l as [|a [|b [|c [|d l']]]]; cbn [length]; intros; try lia; reflexivity. Qed.

Lemma u32_loop data : bytes_ok data -> forall h, u32 (j_loop h data) = mm_loop (u32 h) data.
Proof.
  induction data as [l Hl | a b c d l IH] using list_ind4; intros Hok h.
  - rewrite j_loop_short, mm_loop_short by exact Hl. apply u32_tail; assumption.
  - inversion Hok as [|? ? Ha Hok1]; subst. inversion Hok1 as [|? ? Hb Hok2]; subst.
    inversion Hok2 as [|? ? Hc' Hok3]; subst. inversion Hok3 as [|? ? Hd Hok4]; subst.
    cbn [j_loop mm_loop]. rewrite IH by exact Hok4.
    rewrite u32_chunk by assumption. reflexivity.
Qed.

Lemma u32_final h : u32 (j_final h) = mm_final (u32 h).
Proof.
  unfold j_final, mm_final.
  rewrite u32_jxor, u32_jushr, u32_jmul, u32_jxor, u32_jushr, u32_jm by lia. reflexivity.
Qed.

Lemma u32_of_nat n : u32 (Z.of_nat n) = w32 (N.of_nat n).
Proof.
  unfold u32, w32, ZM32, M32. apply N2Z.inj.
  rewrite Z2N.id by (apply Z.mod_pos_bound; lia).
  rewrite N2Z.inj_mod. f_equal. lia.
Qed.

Lemma murmur2_is_java data : bytes_ok data -> u32 (java_murmur2 data) = murmur2 data.
Proof.
  intros Hok. unfold java_murmur2, murmur2.
  rewrite u32_final, u32_loop by exact Hok.
  rewrite u32_jxor, u32_jseed, u32_wrap32, u32_of_nat. reflexivity.
Qed.

End Murmur.

(* ------------------------------------------------------------------ partition lists *)
Lemma nthZ_In ps i : (i < lenN ps)%N -> In (nthZ ps i) ps.
Proof. unfold nthZ, lenN. intros H. apply nth_In. lia. Qed.

Lemma lenN_pos {A} (ps : list A) : ps <> [] -> (0 < lenN ps)%N.
Proof. destruct ps; [congruence|]. unfold lenN. cbn [length]. lia. Qed.

Lemma offered_length n : length (offered n) = n.
Proof. unfold offered. rewrite map_length, seq_length. reflexivity. Qed.

Lemma In_offered n p : In p (offered n) <-> (0 <= p < Z.of_nat n)%Z.
Proof.
  unfold offered. rewrite in_map_iff. split.
  - intros [x [<- Hx]]. apply in_seq in Hx. lia.
  - intros Hp. exists (Z.to_nat p). split; [lia|]. apply in_seq. lia.
Qed.

Lemma nthZ_offered n i : (i < N.of_nat n)%N -> nthZ (offered n) i = Z.of_N i.
Proof.
  intros Hi. unfold nthZ, offered.
  rewrite nth_indep with (d' := Z.of_nat 0) by (rewrite map_length, seq_length; lia).
  rewrite map_nth, seq_nth by lia. lia.
Qed.

(* ------------------------------------------------------------------ FNV / Sarama *)
Lemma fnv_spec_gen key : bytes_ok key -> forall h, (h < M32)%N ->
  fnv1a_spec (Z.of_N h) key = Z.of_N (fold_left fnv_step key h).
Proof.
  induction key as [|b t IH]; intros Hok h Hh; cbn [fnv1a_spec fold_left]; [reflexivity|].
  apply Forall_cons_iff in Hok as [Hb Hok].
  replace ((Z.lxor (Z.of_N h) (Z.of_N b) * 16777619) mod ZM32)%Z with (Z.of_N (fnv_step h b)).
  - apply IH; [exact Hok|]. unfold fnv_step, mul32. apply N.mod_lt. discriminate.
  - unfold fnv_step, mul32, fnv_prime. rewrite N2Z.inj_mod, N2Z.inj_mul, N2Z_inj_lxor. reflexivity.
Qed.

Lemma fnv_is_spec key : bytes_ok key -> fnv1a32_spec key = Z.of_N (fnv1a32 key).
Proof.
  intros Hok. unfold fnv1a32_spec, fnv1a32.
  apply (fnv_spec_gen key Hok fnv_offset). reflexivity.
Qed.

Lemma fnv_lt key : (fnv1a32 key < M32)%N.
Proof.
  unfold fnv1a32. generalize fnv_offset (eq_refl : (fnv_offset <? M32)%N = true).
  induction key as [|b t IH]; intros h Hh; cbn [fold_left].
  - apply N.ltb_lt. exact Hh.
  - apply IH. apply N.ltb_lt. unfold fnv_step, mul32. apply N.mod_lt. discriminate.
Qed.

Lemma rem_abs a n : (0 < n)%Z ->
  (let p := Z.rem a n in if (p <? 0)%Z then (- p)%Z else p) = (Z.abs a mod n)%Z.
Proof.
  intros Hn. cbv zeta.
  destruct (Z_lt_le_dec a 0) as [Ha|Ha].
  - rewrite Z.abs_neq by lia.
    assert (Hr : Z.rem a n = (- ((- a) mod n))%Z).
    { replace a with (- (- a))%Z at 1 by lia.
      rewrite Z.rem_opp_l by lia. rewrite Z.rem_mod_nonneg by lia. reflexivity. }
    rewrite Hr.
    pose proof (Z.mod_pos_bound (- a) n Hn).
    destruct (Z.ltb_spec (- ((- a) mod n)) 0); lia.
  - rewrite Z.abs_eq by lia. rewrite Z.rem_mod_nonneg by lia.
    pose proof (Z.mod_pos_bound a n Hn).
    destruct (Z.ltb_spec (a mod n) 0); lia.
Qed.

Lemma hash_is_sarama key n : bytes_ok key -> (0 < n)%Z ->
  hash_index (fnv1a32 key) n = sarama_hash key n.
Proof.
  intros Hok Hn. unfold hash_index, sarama_hash, to_i32.
  rewrite fnv_is_spec by exact Hok.
  rewrite <- s32_wrap32 by apply fnv_lt.
  apply rem_abs. exact Hn.
Qed.

Lemma hash_index_range s n : (0 < n)%Z -> (0 <= hash_index s n < n)%Z.
Proof.
  intros Hn. unfold hash_index. rewrite rem_abs by exact Hn.
  apply Z.mod_pos_bound. exact Hn.
Qed.

Lemma land_i31 z : Z.land z 2147483647 = (z mod ZM31)%Z.
Proof. change 2147483647%Z with (Z.ones 31). rewrite Z.land_ones by lia. reflexivity. Qed.

Lemma mod31_of_mod32 z : ((z mod ZM32) mod ZM31 = z mod ZM31)%Z.
Proof.
  unfold ZM32, ZM31.
  rewrite (Z.div_mod z 4294967296) at 2 by lia.
  replace (4294967296 * (z / 4294967296) + z mod 4294967296)%Z
    with (z mod 4294967296 + (2 * (z / 4294967296)) * 2147483648)%Z by lia.
  rewrite Z.mod_add by lia. reflexivity.
Qed.

Lemma refhash_is_sarama key n : bytes_ok key -> (0 < n)%Z ->
  refhash_index (fnv1a32 key) n = sarama_refhash key n.
Proof.
  intros Hok Hn. unfold refhash_index, sarama_refhash.
  rewrite land_i31, fnv_is_spec by exact Hok.
  rewrite s32_wrap32 by apply fnv_lt.
  rewrite <- (mod31_of_mod32 (wrap32 _)), wrap32_mod, mod31_of_mod32.
  apply Z.rem_mod_nonneg; [|exact Hn].
  apply Z.mod_pos_bound. unfold ZM31. lia.
Qed.

Lemma refhash_index_range s n : (0 < n)%Z -> (0 <= refhash_index s n < n)%Z.
Proof.
  intros Hn. unfold refhash_index. rewrite land_i31.
  pose proof (Z.mod_pos_bound (s32 s) ZM31 ltac:(unfold ZM31; lia)).
  rewrite Z.rem_mod_nonneg by lia. apply Z.mod_pos_bound. exact Hn.
Qed.

(* int32(len ps) for the lists a Writer can supply *)
Lemma len32_small (ps : list Z) : (Z.of_nat (length ps) < ZM31)%Z -> len32 ps = Z.of_nat (length ps).
Proof.
  unfold ZM31. intros H. unfold len32, lenN, s32, M32, M31.
  rewrite N.mod_small by lia.
  destruct (N.ltb_spec (N.of_nat (length ps)) 2147483648); lia.
Qed.

(* ------------------------------------------------------------------ CRC32 / Murmur2 balancers *)
Lemma w32_len_small (ps : list Z) : (Z.of_nat (length ps) < ZM31)%Z -> w32 (lenN ps) = lenN ps.
Proof. unfold ZM31, w32, lenN, M32. intros H. apply N.mod_small. lia. Qed.

Lemma random_pick_in r ps p : random_pick 0 r ps = Some p -> In p ps.
Proof.
  unfold random_pick. cbn. destruct ps as [|q t]; [discriminate|].
  intros [= <-]. apply nthZ_In. apply N.mod_lt.
  unfold lenN. cbn [length]. lia.
Qed.

Lemma crc32_balance_in cons r key ps p :
  (Z.of_nat (length ps) < ZM31)%Z -> crc32_balance cons r key ps = Some p -> In p ps.
Proof.
  intros Hlen. unfold crc32_balance.
  destruct (_ && _).
  - apply random_pick_in.
  - rewrite w32_len_small by exact Hlen.
    destruct (N.eqb_spec (lenN ps) 0) as [|Hnz]; [discriminate|].
    intros [= <-]. apply nthZ_In. apply N.mod_lt. exact Hnz.
Qed.

Lemma murmur2_balance_in cons r key ps p :
  (Z.of_nat (length ps) < ZM31)%Z -> murmur2_balance cons r key ps = Some p -> In p ps.
Proof.
  intros Hlen. unfold murmur2_balance.
  destruct (_ && _).
  - apply random_pick_in.
  - rewrite w32_len_small by exact Hlen.
    destruct (N.eqb_spec (lenN ps) 0) as [|Hnz]; [discriminate|].
    intros [= <-]. apply nthZ_In. apply N.mod_lt. exact Hnz.
Qed.

Lemma crc32_is_librdkafka cons r key ps :
  ps <> [] -> (Z.of_nat (length ps) < ZM31)%Z ->
  (key_bytes key <> [] \/ cons = true) ->
  crc32_balance cons r key ps =
  Some (nthZ ps (Z.to_N (rdkafka_consistent (key_bytes key) (Z.of_nat (length ps))))).
Proof.
  intros Hne Hlen Hk. unfold crc32_balance, rdkafka_consistent.
  assert (Hb : (match key_bytes key with [] => true | _ => false end) && negb cons = false).
  { destruct Hk as [Hk | ->]; [|apply andb_false_r].
    destruct (key_bytes key); [congruence|reflexivity]. }
  rewrite Hb, w32_len_small by exact Hlen.
  pose proof (lenN_pos ps Hne) as Hpos.
  destruct (N.eqb_spec (lenN ps) 0) as [Hz|_]; [lia|].
  do 2 f_equal. unfold lenN in *.
  rewrite <- (N2Z.id (_ mod _)). f_equal. rewrite N2Z.inj_mod. f_equal. lia.
Qed.

Lemma murmur2_is_java_partition cons r key ps :
  ps <> [] -> (Z.of_nat (length ps) < ZM31)%Z -> bytes_ok (key_bytes key) ->
  (key <> None \/ cons = true) ->
  murmur2_balance cons r key ps =
  Some (nthZ ps (Z.to_N (java_partition (key_bytes key) (Z.of_nat (length ps))))).
Proof.
  intros Hne Hlen Hok Hk. unfold murmur2_balance, java_partition, jand.
  assert (Hb : (match key with None => true | _ => false end) && negb cons = false).
  { destruct Hk as [Hk | ->]; [|apply andb_false_r].
    destruct key; [reflexivity|congruence]. }
  rewrite Hb, w32_len_small by exact Hlen.
  pose proof (lenN_pos ps Hne) as Hpos.
  destruct (N.eqb_spec (lenN ps) 0) as [Hz|_]; [lia|].
  do 2 f_equal.
  rewrite land_i31.
  rewrite <- (murmur2_is_java _ Hok).
  change 2147483647%N with (N.ones 31). rewrite N.land_ones.
  rewrite <- mod31_of_mod32.
  assert (Hm : (0 <= (java_murmur2 (key_bytes key) mod ZM32) mod ZM31 < ZM31)%Z)
    by (apply Z.mod_pos_bound; unfold ZM31; lia).
  rewrite Z.rem_mod_nonneg by (unfold lenN in *; lia).
  apply N2Z.inj. unfold lenN in *.
  rewrite N2Z.inj_mod, N2Z.inj_mod, of_N_u32.
  rewrite Z2N.id.
  - rewrite nat_N_Z. reflexivity.
  - apply Z.mod_pos_bound. lia.
Qed.

(* ------------------------------------------------------------------ RoundRobin *)
Definition rr_eff_chunk (chunk : Z) : Z := if (chunk <? 1)%Z then 1%Z else chunk.

(* outputs of [m] successive calls with the same partition list *)
Fixpoint rr_run (m : nat) (s : rr_state) (ps : list Z) : option (list Z * rr_state) :=
  match m with
  | O => Some ([], s)
  | S m' => match rr_step s ps with
            | None => None
            | Some (p, s') => match rr_run m' s' ps with
                              | None => None
                              | Some (l, s'') => Some (p :: l, s'')
                              end
            end
  end.

Lemma rr_eff_chunk_idem c : rr_eff_chunk (rr_eff_chunk c) = rr_eff_chunk c.
Proof. unfold rr_eff_chunk. destruct (Z.ltb_spec c 1); [reflexivity|]. destruct (Z.ltb_spec c 1); [lia|reflexivity]. Qed.

Lemma rr_step_spec s ps :
  ps <> [] -> (rr_eff_chunk (rr_chunk s) < ZM64)%Z -> (rr_counter s + 1 < M64)%N ->
  rr_step s ps =
  Some (nthZ ps ((rr_counter s / Z.to_N (rr_eff_chunk (rr_chunk s))) mod lenN ps),
        {| rr_chunk := rr_eff_chunk (rr_chunk s); rr_counter := rr_counter s + 1 |}).
Proof.
  intros Hne Hc Hk. unfold rr_step. fold (rr_eff_chunk (rr_chunk s)).
  assert (Hc1 : (1 <= rr_eff_chunk (rr_chunk s))%Z)
    by (unfold rr_eff_chunk; destruct (Z.ltb_spec (rr_chunk s) 1); lia).
  assert (Hu : u64 (rr_eff_chunk (rr_chunk s)) = Z.to_N (rr_eff_chunk (rr_chunk s))).
  { unfold u64. rewrite Z.mod_small by lia. reflexivity. }
  rewrite Hu.
  destruct (N.eqb_spec (Z.to_N (rr_eff_chunk (rr_chunk s))) 0) as [Hz|_]; [lia|].
  destruct ps as [|p0 t]; [congruence|].
  unfold add64. rewrite (N.mod_small (rr_counter s + 1) M64) by exact Hk. reflexivity.
Qed.

Lemma rr_run_spec m : forall s ps,
  ps <> [] -> (rr_eff_chunk (rr_chunk s) < ZM64)%Z -> (rr_counter s + N.of_nat m < M64)%N ->
  rr_run m s ps =
  Some (map (fun i => nthZ ps (((rr_counter s + N.of_nat i) / Z.to_N (rr_eff_chunk (rr_chunk s))) mod lenN ps))
            (seq 0 m),
        {| rr_chunk := (if Nat.eqb m 0 then rr_chunk s else rr_eff_chunk (rr_chunk s));
           rr_counter := rr_counter s + N.of_nat m |}).
Proof.
  induction m as [|m IH]; intros s ps Hne Hc Hk.
  - cbn [rr_run seq map Nat.eqb]. rewrite N.add_0_r. destruct s; reflexivity.
  - cbn [rr_run]. rewrite rr_step_spec by (assumption || lia).
    rewrite IH; cbn [rr_chunk rr_counter]; rewrite ?rr_eff_chunk_idem; try assumption; try lia.
    cbn [seq map Nat.eqb]. rewrite N.add_0_r. f_equal. f_equal.
    + f_equal. rewrite <- seq_shift, map_map. apply map_ext. intros i.
      do 3 f_equal. lia.
    + f_equal; [destruct (Nat.eqb m 0); reflexivity | lia].
Qed.

(* ------------------------------------------------------------------ LeastBytes *)
(* Abstract specification: one unbounded byte counter per partition index; a call
   with [n] partitions resets the counters when [n] differs from their number,
   picks ANY index whose counter is minimal, and adds the message size to it. *)
Definition is_min (f : list N) (i : nat) : Prop :=
  (i < length f)%nat /\ forall j, (j < length f)%nat -> (nth i f 0 <= nth j f 0)%N.

Fixpoint upd_add (f : list N) (i : nat) (sz : N) : list N :=
  match f, i with
  | [], _ => []
  | b :: t, O => (b + sz)%N :: t
  | b :: t, S j => b :: upd_add t j sz
  end.

Definition lb_spec_step (f : list N) (n : nat) (sz : N) (i : nat) (f' : list N) : Prop :=
  (0 < n)%nat /\
  let f0 := if Nat.eqb n (length f) then f else repeat 0%N n in
  is_min f0 i /\ f' = upd_add f0 i sz.

Inductive lb_admissible : list N -> list (nat * N) -> list Z -> Prop :=
| lb_adm_nil f : lb_admissible f [] []
| lb_adm_cons f n sz i f' calls outs :
    lb_spec_step f n sz i f' -> lb_admissible f' calls outs ->
    lb_admissible f ((n, sz) :: calls) (Z.of_nat i :: outs).

Fixpoint lb_run (cs : list lb_counter) (calls : list (nat * N)) : option (list Z * list lb_counter) :=
  match calls with
  | [] => Some ([], cs)
  | (n, sz) :: rest =>
      match lb_step cs sz (offered n) with
      | None => None
      | Some (p, cs') => match lb_run cs' rest with
                         | None => None
                         | Some (outs, cs'') => Some (p :: outs, cs'')
                         end
      end
  end.

Definition lb_inv (cs : list lb_counter) : Prop := map fst cs = offered (length cs).

Lemma sortZ_offered_gen n : forall a, sortZ (map Z.of_nat (seq a n)) = map Z.of_nat (seq a n).
Proof.
  induction n as [|n IH]; intros a; [reflexivity|].
  cbn [seq map sortZ fold_right]. fold (sortZ (map Z.of_nat (seq (S a) n))). rewrite IH.
  destruct n as [|n']; [reflexivity|].
  cbn [seq map insertZ]. destruct (Z.leb_spec (Z.of_nat a) (Z.of_nat (S a))); [reflexivity|lia].
Qed.

Lemma lb_make_offered n : lb_make (offered n) = map (fun p => (p, 0%N)) (offered n).
Proof. unfold lb_make, offered. rewrite sortZ_offered_gen. reflexivity. Qed.

Lemma lb_min_from_spec t : forall (pre : list lb_counter) minI minB,
  (minI < length pre)%nat -> nth minI (map snd pre) 0%N = minB ->
  (forall j, (j < length pre)%nat -> (minB <= nth j (map snd pre) 0)%N) ->
  let r := lb_min_from t (length pre) minI minB in
  is_min (map snd (pre ++ t)) r.
Proof.
  induction t as [|[p b] t IH]; intros pre minI minB HI Hnth Hmin; cbn [lb_min_from].
  - rewrite app_nil_r. split; [rewrite map_length; exact HI|].
    intros j Hj. rewrite map_length in Hj. rewrite Hnth. apply Hmin. exact Hj.
  - assert (E1 : pre ++ ((p, b) : lb_counter) :: t = (pre ++ [((p, b) : lb_counter)]) ++ t)
      by (rewrite <- app_assoc; reflexivity).
    assert (E2 : S (length pre) = length (pre ++ [((p, b) : lb_counter)])) by (rewrite app_length; cbn; lia).
    rewrite E1, E2.
    destruct (N.ltb_spec b minB) as [Hlt|Hge].
    + apply IH.
      * rewrite app_length. cbn. lia.
      * rewrite map_app. rewrite app_nth2 by (rewrite map_length; lia).
        rewrite map_length, Nat.sub_diag. reflexivity.
      * intros j Hj. rewrite app_length in Hj. cbn [length] in Hj.
        rewrite map_app.
        destruct (Nat.eq_dec j (length pre)) as [->|Hne].
        -- rewrite app_nth2 by (rewrite map_length; lia).
           rewrite map_length, Nat.sub_diag. cbn. lia.
        -- rewrite app_nth1 by (rewrite map_length; lia).
           pose proof (Hmin j ltac:(lia)) as Hm.
           eapply N.le_trans; [|exact Hm]. lia.
    + apply IH.
      * rewrite app_length. cbn. lia.
      * rewrite map_app, app_nth1 by (rewrite map_length; lia). exact Hnth.
      * intros j Hj. rewrite app_length in Hj. cbn [length] in Hj.
        rewrite map_app.
        destruct (Nat.eq_dec j (length pre)) as [->|Hne].
        -- rewrite app_nth2 by (rewrite map_length; lia).
           rewrite map_length, Nat.sub_diag. cbn. lia.
        -- rewrite app_nth1 by (rewrite map_length; lia). apply Hmin. lia.
Qed.

Lemma lb_min_index_spec cs : cs <> [] -> is_min (map snd cs) (lb_min_index cs).
Proof.
  destruct cs as [|[p b] t]; [congruence|]. intros _. unfold lb_min_index.
  apply (lb_min_from_spec t [(p, b)] 0%nat b).
  - cbn. lia.
  - reflexivity.
  - intros j Hj. cbn in Hj. assert (j = 0)%nat as -> by lia. cbn. lia.
Qed.

Lemma lb_bump_fst cs : forall i sz, map fst (lb_bump cs i sz) = map fst cs.
Proof.
  induction cs as [|[p b] t IH]; intros [|j] sz; cbn [lb_bump map fst]; try reflexivity.
  rewrite IH. reflexivity.
Qed.

Lemma lb_bump_length cs i sz : length (lb_bump cs i sz) = length cs.
Proof.
  revert i. induction cs as [|[p b] t IH]; intros [|j]; cbn [lb_bump length]; try reflexivity.
  rewrite IH. reflexivity.
Qed.

Lemma lb_bump_snd cs : forall i sz,
  (forall b, In b (map snd cs) -> (b + sz < M64)%N) ->
  map snd (lb_bump cs i sz) = upd_add (map snd cs) i sz.
Proof.
  induction cs as [|[p b] t IH]; intros [|j] sz Hno; cbn [lb_bump map snd upd_add]; try reflexivity.
  - unfold add64. rewrite N.mod_small; [reflexivity|]. apply Hno. cbn. left. reflexivity.
  - rewrite IH; [reflexivity|]. intros b' Hb'. apply Hno. cbn. right. exact Hb'.
Qed.

Lemma nth_fst_offered cs i : lb_inv cs -> (i < length cs)%nat ->
  fst (nth i cs ((-1)%Z, 0%N)) = Z.of_nat i.
Proof.
  intros Hinv Hi.
  change (Z.of_nat i) with (Z.of_nat i).
  transitivity (nth i (map fst cs) (fst ((-1)%Z, 0%N))); [symmetry; apply map_nth|].
  rewrite Hinv. unfold offered. cbn [fst].
  rewrite nth_indep with (d' := Z.of_nat 0) by (rewrite map_length, seq_length; exact Hi).
  rewrite map_nth, seq_nth by exact Hi. reflexivity.
Qed.

Lemma upd_add_length f : forall i sz, length (upd_add f i sz) = length f.
Proof. induction f as [|b t IH]; intros [|j] sz; cbn [upd_add length]; try reflexivity. rewrite IH. reflexivity. Qed.

Lemma lb_step_refines cs sz n :
  (0 < n)%nat -> lb_inv cs -> (sz < M64)%N ->
  (forall b, In b (map snd cs) -> (b + sz < M64)%N) ->
  exists i cs',
    lb_step cs sz (offered n) = Some (Z.of_nat i, cs') /\
    lb_spec_step (map snd cs) n sz i (map snd cs') /\ lb_inv cs' /\ length cs' = n.
Proof.
  intros Hn Hinv Hsz Hno. unfold lb_step, lb_spec_step.
  rewrite offered_length, map_length.
  set (cs0 := if Nat.eqb n (length cs) then cs else lb_make (offered n)).
  assert (Hlen0 : length cs0 = n).
  { unfold cs0. destruct (Nat.eqb_spec n (length cs)) as [->|]; [reflexivity|].
    rewrite lb_make_offered, map_length, offered_length. reflexivity. }
  assert (Hinv0 : lb_inv cs0).
  { unfold cs0. destruct (Nat.eqb_spec n (length cs)); [exact Hinv|].
    unfold lb_inv. rewrite lb_make_offered, map_map, map_length, offered_length. cbn [fst].
    apply map_id. }
  assert (Hsnd0 : map snd cs0 = if Nat.eqb n (length cs) then map snd cs else repeat 0%N n).
  { unfold cs0. destruct (Nat.eqb_spec n (length cs)); [reflexivity|].
    rewrite lb_make_offered, map_map. cbn [snd].
    rewrite <- (offered_length n) at 2. generalize (offered n). intros l.
    induction l as [|x l IHl]; cbn; [reflexivity|]. rewrite IHl. reflexivity. }
  assert (Hno0 : forall b, In b (map snd cs0) -> (b + sz < M64)%N).
  { rewrite Hsnd0. destruct (Nat.eqb n (length cs)); [exact Hno|].
    intros b Hb. apply repeat_spec in Hb. subst b. exact Hsz. }
  assert (Hne0 : cs0 <> []) by (destruct cs0; [cbn in Hlen0; lia|congruence]).
  pose proof (lb_min_index_spec cs0 Hne0) as Hmin.
  set (i := lb_min_index cs0) in *.
  exists i, (lb_bump cs0 i sz).
  destruct cs0 as [|c0 t0] eqn:Ecs0; [congruence|]. rewrite <- Ecs0 in *.
  assert (Hi : (i < length cs0)%nat) by (destruct Hmin as [Hi _]; rewrite map_length in Hi; exact Hi).
  rewrite nth_fst_offered by assumption.
  split; [reflexivity|]. split; [|split].
  - split; [exact Hn|]. cbv zeta.
    assert (G : forall f0, map snd cs0 = f0 ->
                is_min f0 i /\ map snd (lb_bump cs0 i sz) = upd_add f0 i sz).
    { intros f0 <-. split; [exact Hmin | apply lb_bump_snd; exact Hno0]. }
    apply G. exact Hsnd0.
  - unfold lb_inv. rewrite lb_bump_fst, lb_bump_length. exact Hinv0.
  - rewrite lb_bump_length. exact Hlen0.
Qed.

Definition sum_sizes (calls : list (nat * N)) : N := fold_right (fun c acc => (snd c + acc)%N) 0%N calls.

Lemma upd_add_bound f : forall i sz B,
  (forall b, In b f -> (b + sz <= B)%N) -> forall b, In b (upd_add f i sz) -> (b <= B)%N.
Proof.
  induction f as [|x t IH]; intros [|j] sz B Hb b Hin; cbn [upd_add] in Hin.
  - destruct Hin.
  - destruct Hin.
  - destruct Hin as [E|Hin].
    + subst b. apply Hb. left. reflexivity.
    + pose proof (Hb b (or_intror Hin)). lia.
  - destruct Hin as [E|Hin].
    + subst b. pose proof (Hb x (or_introl eq_refl)). lia.
    + eapply IH; [|exact Hin]. intros b' Hb'. apply Hb. right. exact Hb'.
Qed.

Theorem lb_run_admissible calls : forall cs,
  lb_inv cs -> Forall (fun c => (0 < fst c)%nat) calls ->
  (forall b, In b (map snd cs) -> (b + sum_sizes calls < M64)%N) ->
  (sum_sizes calls < M64)%N ->
  exists outs cs', lb_run cs calls = Some (outs, cs') /\ lb_admissible (map snd cs) calls outs.
Proof.
  induction calls as [|[n sz] rest IH]; intros cs Hinv Hpos Hno Hsum.
  - exists [], cs. split; [reflexivity|constructor].
  - apply Forall_cons_iff in Hpos as [Hn Hpos]. cbn [fst] in Hn.
    cbn [sum_sizes fold_right snd] in Hno, Hsum. fold (sum_sizes rest) in Hno, Hsum.
    destruct (lb_step_refines cs sz n Hn Hinv) as [i [cs1 [Hstep [Hspec [Hinv1 Hlen1]]]]].
    + lia.
    + intros b Hb. specialize (Hno b Hb). lia.
    + destruct (IH cs1 Hinv1 Hpos) as [outs [cs2 [Hrun Hadm]]].
      * destruct Hspec as [_ [_ Hf']]. rewrite Hf'.
        intros b Hb.
        assert (b <= M64 - 1 - sum_sizes rest)%N; [|lia].
        eapply upd_add_bound; [|exact Hb].
        intros b' Hb'.
        destruct (Nat.eqb n (length (map snd cs))).
        -- specialize (Hno b' Hb'). lia.
        -- apply repeat_spec in Hb'. subst b'. lia.
      * lia.
      * exists (Z.of_nat i :: outs), cs2. split.
        -- cbn [lb_run]. rewrite Hstep, Hrun. reflexivity.
        -- econstructor; eassumption.
Qed.

(* ------------------------------------------------------------------ range lemmas *)
Lemma rr_step_in s ps p s' : rr_step s ps = Some (p, s') -> In p ps.
Proof.
  unfold rr_step. destruct (N.eqb _ 0); [discriminate|].
  destruct ps as [|q t]; [discriminate|]. intros [= <- _].
  apply nthZ_In. apply N.mod_lt. unfold lenN. cbn [length]. lia.
Qed.

Lemma hash_step_in s key n p s' :
  (0 < n)%nat -> (Z.of_nat n < ZM31)%Z ->
  hash_step s key (offered n) = Some (p, s') -> In p (offered n).
Proof.
  intros Hn Hlt. unfold hash_step. destruct key as [k|].
  - rewrite len32_small by (rewrite offered_length; exact Hlt). rewrite offered_length.
    destruct (Z.eqb_spec (Z.of_nat n) 0); [discriminate|]. intros [= <- _].
    apply In_offered. apply hash_index_range. lia.
  - apply rr_step_in.
Qed.

Lemma refhash_in r key n p :
  (0 < n)%nat -> (Z.of_nat n < ZM31)%Z ->
  refhash_balance r key (offered n) = Some p -> In p (offered n).
Proof.
  intros Hn Hlt. unfold refhash_balance. destruct key as [k|].
  - rewrite len32_small by (rewrite offered_length; exact Hlt). rewrite offered_length.
    destruct (Z.eqb_spec (Z.of_nat n) 0); [discriminate|]. intros [= <-].
    apply In_offered. apply refhash_index_range. lia.
  - apply random_pick_in.
Qed.

Lemma lb_step_in cs sz n p cs' :
  (0 < n)%nat -> lb_inv cs -> lb_step cs sz (offered n) = Some (p, cs') -> In p (offered n).
Proof.
  intros Hn Hinv. unfold lb_step. rewrite offered_length.
  set (cs0 := if Nat.eqb n (length cs) then cs else lb_make (offered n)).
  assert (Hlen0 : length cs0 = n).
  { unfold cs0. destruct (Nat.eqb_spec n (length cs)) as [->|]; [reflexivity|].
    rewrite lb_make_offered, map_length, offered_length. reflexivity. }
  assert (Hinv0 : lb_inv cs0).
  { unfold cs0. destruct (Nat.eqb_spec n (length cs)); [exact Hinv|].
    unfold lb_inv. rewrite lb_make_offered, map_map, map_length, offered_length. cbn [fst].
    apply map_id. }
  assert (Hne0 : cs0 <> []) by (destruct cs0; [cbn in Hlen0; lia|congruence]).
  pose proof (lb_min_index_spec cs0 Hne0) as [Hi _]. rewrite map_length in Hi.
  assert (Hi' : (lb_min_index cs0 < n)%nat) by (rewrite <- Hlen0; exact Hi).
  destruct cs0 as [|c0 t0] eqn:E; [congruence|]. rewrite <- E in *.
  intros [= <- _]. rewrite nth_fst_offered by assumption.
  apply In_offered. lia.
Qed.

Lemma hash_step_pure s key n :
  bytes_ok key -> (0 < n)%nat -> (Z.of_nat n < ZM31)%Z ->
  hash_step s (Some key) (offered n) = Some (sarama_hash key (Z.of_nat n), s).
Proof.
  intros Hok Hn Hlt. unfold hash_step.
  rewrite len32_small by (rewrite offered_length; exact Hlt). rewrite offered_length.
  destruct (Z.eqb_spec (Z.of_nat n) 0); [lia|].
  rewrite hash_is_sarama by (assumption || lia). reflexivity.
Qed.

Lemma refhash_pure r key n :
  bytes_ok key -> (0 < n)%nat -> (Z.of_nat n < ZM31)%Z ->
  refhash_balance r (Some key) (offered n) = Some (sarama_refhash key (Z.of_nat n)).
Proof.
  intros Hok Hn Hlt. unfold refhash_balance.
  rewrite len32_small by (rewrite offered_length; exact Hlt). rewrite offered_length.
  destruct (Z.eqb_spec (Z.of_nat n) 0); [lia|].
  rewrite refhash_is_sarama by (assumption || lia). reflexivity.
Qed.

(* RoundRobin from a fresh balancer: call number i (0-based) goes to
   ps[(i / ChunkSize) mod len ps] as long as fewer than 2^64 calls were made
   (ChunkSize is a Go int, hence below 2^63). *)
Lemma rr_chunks chunk ps m :
  ps <> [] -> (rr_eff_chunk chunk < ZM64)%Z -> (N.of_nat m < M64)%N ->
  exists s', rr_run m (rr_init chunk) ps =
    Some (map (fun i => nthZ ps ((N.of_nat i / Z.to_N (rr_eff_chunk chunk)) mod lenN ps)) (seq 0 m), s').
Proof.
  intros Hne Hc Hm. eexists. rewrite rr_run_spec; cbn [rr_init rr_chunk rr_counter]; try assumption; try lia.
  reflexivity.
Qed.

