(* Proofs/GroupBalancersProofs.v — the statements of Properties/C14.v for Range and
   RoundRobin, assembled from GroupBalancersBase/Range/RR *)
From Coq Require Import List NArith ZArith Bool Arith Lia Permutation.
From KV Require Import Model.GroupBalancers Proofs.GroupBalancersBase
  Proofs.GroupBalancersRange Proofs.GroupBalancersRR.
Import ListNotations.

(* the output is a map keyed by (member, topic), every key is a subscription of a listed
   member, and what is assigned for a topic is exactly its listed partitions (as a multiset)
   when somebody subscribes to it, nothing otherwise *)
Definition exact_partition (ms : list member) (ps : list partition) (a : list triple) : Prop :=
  NoDup (tkeys a) /\
  (forall tr, In tr a ->
     exists m, In m ms /\ m_id m = fst (fst tr) /\ In (snd (fst tr)) (m_topics m)) /\
  (forall t, Permutation (topic_parts a t)
                         (if existsb (subscribes t) ms then find_partitions t ps else [])).

(* per topic: every subscriber holds floor(P/M) or floor(P/M)+1 partitions, so any two
   subscribers differ by at most one *)
Definition even_loads (ms : list member) (ps : list partition) (a : list triple) : Prop :=
  forall t m1 m2, In m1 ms -> In m2 ms -> In t (m_topics m1) -> In t (m_topics m2) ->
    let P := length (find_partitions t ps) in
    let M := length (filter (subscribes t) ms) in
    length (assigned a (m_id m1) t) <= length (assigned a (m_id m2) t) + 1 /\
    P / M <= length (assigned a (m_id m1) t) <= P / M + 1.

Lemma range_partition ms ps : wf_group ms -> exact_partition ms ps (range_assign ms ps).
Proof.
  intros H. rewrite range_assign_ib. unfold exact_partition.
  destruct (ib_keys (fun parts mc i => range_sel parts mc i) ms ps H) as [H1 H2].
  split; [exact H1|]. split; [exact H2|].
  intros t. apply ib_parts; [|exact H]. intros. apply range_sel_all_perm. assumption.
Qed.

Lemma rr_partition ms ps : wf_group ms -> exact_partition ms ps (rr_assign ms ps).
Proof.
  intros H. rewrite rr_assign_ib. unfold exact_partition.
  destruct (ib_keys rr_sel ms ps H) as [H1 H2].
  split; [exact H1|]. split; [exact H2|].
  intros t. apply ib_parts; [|exact H]. intros. apply rr_sel_all. assumption.
Qed.

Lemma range_even ms ps : wf_group ms -> even_loads ms ps (range_assign ms ps).
Proof.
  intros H t m1 m2 I1 I2 T1 T2 P M. rewrite range_assign_ib.
  pose proof (ib_even (fun parts mc i => range_sel parts mc i)
                (fun parts mc i Hi => range_sel_length parts mc i Hi) ms ps t m1 H I1 T1) as B1.
  pose proof (ib_even (fun parts mc i => range_sel parts mc i)
                (fun parts mc i Hi => range_sel_length parts mc i Hi) ms ps t m2 H I2 T2) as B2.
  cbv zeta in B1, B2. fold P M in B1, B2. lia.
Qed.

Lemma rr_even ms ps : wf_group ms -> even_loads ms ps (rr_assign ms ps).
Proof.
  intros H t m1 m2 I1 I2 T1 T2 P M. rewrite rr_assign_ib.
  pose proof (ib_even rr_sel rr_sel_len ms ps t m1 H I1 T1) as B1.
  pose proof (ib_even rr_sel rr_sel_len ms ps t m2 H I2 T2) as B2.
  cbv zeta in B1, B2. fold P M in B1, B2. lia.
Qed.

Lemma range_order_independent ms ms' ps : wf_group ms -> Permutation ms ms' ->
  forall id t, assigned (range_assign ms ps) id t = assigned (range_assign ms' ps) id t.
Proof. intros H Hp id t. rewrite !range_assign_ib. apply ib_order_independent; assumption. Qed.

Lemma rr_order_independent ms ms' ps : wf_group ms -> Permutation ms ms' ->
  forall id t, assigned (rr_assign ms ps) id t = assigned (rr_assign ms' ps) id t.
Proof. intros H Hp id t. rewrite !rr_assign_ib. apply ib_order_independent; assumption. Qed.

Lemma subscriber_index ms t m : In m ms -> In t (m_topics m) ->
  exists i, i < length (subscribers t ms) /\ nth_error (subscribers t ms) i = Some m.
Proof.
  intros Hm Ht. assert (Hs : In m (subscribers t ms)) by (apply in_subscribers; tauto).
  apply In_nth_error in Hs. destruct Hs as [i Hi]. exists i. split; [|exact Hi].
  apply nth_error_Some. congruence.
Qed.

Lemma range_contiguous ms ps t m : wf_group ms -> In m ms -> In t (m_topics m) ->
  let parts := find_partitions t ps in
  let P := length parts in
  let M := length (subscribers t ms) in
  exists i, i < M /\ nth_error (subscribers t ms) i = Some m /\
    assigned (range_assign ms ps) (m_id m) t = slice (i * P / M) (S i * P / M) parts.
Proof.
  intros H Hm Ht parts P M. destruct (subscriber_index ms t m Hm Ht) as [i [Hi Hn]].
  exists i. split; [exact Hi|]. split; [exact Hn|].
  rewrite range_assign_ib.
  rewrite (ib_assigned_nth (fun parts mc i => range_sel parts mc i) ms ps t i m H Hn). reflexivity.
Qed.

Lemma rr_every_kth ms ps t m : wf_group ms -> In m ms -> In t (m_topics m) ->
  let parts := find_partitions t ps in
  let M := length (subscribers t ms) in
  exists i, i < M /\ nth_error (subscribers t ms) i = Some m /\
    assigned (rr_assign ms ps) (m_id m) t =
    map (fun n => nth (i + n * M) parts 0%Z) (seq 0 (rr_count (length parts) M i)).
Proof.
  intros H Hm Ht parts M. destruct (subscriber_index ms t m Hm Ht) as [i [Hi Hn]].
  exists i. split; [exact Hi|]. split; [exact Hn|].
  rewrite rr_assign_ib. rewrite (ib_assigned_nth rr_sel ms ps t i m H Hn).
  apply rr_sel_kth. exact Hi.
Qed.

(* the subscribers of a topic, sorted by id: characterisation used in the statements *)
Lemma subscribers_spec t ms : NoDup (map m_id ms) ->
  Permutation (subscribers t ms) (filter (subscribes t) ms) /\
  Sorted.StronglySorted id_lt (subscribers t ms).
Proof.
  intros H. split; [apply sort_members_perm|].
  apply sort_members_sorted. apply NoDup_map_filter. exact H.
Qed.

(* ------------------------------------------------------------------ with distinct
   partition ids: exactly one holder *)
Lemma NoDup_app_disjoint {A} (l1 l2 : list A) x : NoDup (l1 ++ l2) -> In x l1 -> In x l2 -> False.
Proof.
  induction l1 as [|a l1 IH]; cbn [app In]; [tauto|]. intros H [->|H1] H2.
  - inversion H; subst. apply H3. apply in_or_app. right. exact H2.
  - inversion H; subst. apply IH; assumption.
Qed.

Lemma NoDup_flat_map_unique {A B} (f : A -> list B) l a1 a2 x :
  NoDup (flat_map f l) -> In a1 l -> In a2 l -> In x (f a1) -> In x (f a2) -> a1 = a2.
Proof.
  induction l as [|b l IH]; cbn [flat_map In]; [tauto|]. intros Hnd [->|H1] [->|H2] X1 X2.
  - reflexivity.
  - exfalso. eapply NoDup_app_disjoint; [exact Hnd|exact X1|]. apply in_flat_map. exists a2. tauto.
  - exfalso. eapply NoDup_app_disjoint; [exact Hnd|exact X2|]. apply in_flat_map. exists a1. tauto.
  - apply IH; try assumption. clear - Hnd. induction (f b) as [|y l0 IH0]; [exact Hnd|].
    inversion Hnd; subst. apply IH0. assumption.
Qed.

Lemma in_assigned a id t p :
  In p (assigned a id t) <-> exists tr, In tr a /\ fst (fst tr) = id /\ snd (fst tr) = t /\ In p (snd tr).
Proof.
  unfold assigned. rewrite in_flat_map. split.
  - intros [tr [H1 H2]]. exists tr.
    destruct (bytes_eqb_spec (fst (fst tr)) id), (bytes_eqb_spec (snd (fst tr)) t); cbn [andb] in H2;
      try contradiction. tauto.
  - intros [tr [H1 [H2 [H3 H4]]]]. exists tr. split; [exact H1|].
    rewrite H2, H3, !bytes_eqb_refl. exact H4.
Qed.

Lemma NoDup_map_inj' {A B} (f : A -> B) l a b :
  NoDup (map f l) -> In a l -> In b l -> f a = f b -> a = b.
Proof.
  induction l as [|x l IH]; cbn [map In]; [tauto|]. intros Hnd Ha Hb E.
  apply NoDup_cons_iff in Hnd. destruct Hnd as [Hx Hnd].
  destruct Ha as [->|Ha], Hb as [->|Hb]; [reflexivity| | |auto].
  - exfalso. apply Hx. rewrite E. apply in_map. exact Hb.
  - exfalso. apply Hx. rewrite <- E. apply in_map. exact Ha.
Qed.

Lemma exactly_one_holder ms ps a t p : wf_group ms -> exact_partition ms ps a ->
  NoDup (find_partitions t ps) -> In p (find_partitions t ps) ->
  existsb (subscribes t) ms = true ->
  exists m, In m ms /\ In t (m_topics m) /\ In p (assigned a (m_id m) t) /\
    forall m', In m' ms -> In p (assigned a (m_id m') t) -> m' = m.
Proof.
  intros [Hids _] [Hk [Hmem Hperm]] Hnd Hp Es. specialize (Hperm t). rewrite Es in Hperm.
  assert (Hnd' : NoDup (topic_parts a t))
    by (eapply Permutation_NoDup; [apply Permutation_sym; exact Hperm|exact Hnd]).
  assert (Hin : In p (topic_parts a t))
    by (eapply Permutation_in; [apply Permutation_sym; exact Hperm|exact Hp]).
  unfold topic_parts in Hin. apply in_flat_map in Hin. destruct Hin as [tr [Htr Hptr]].
  destruct (bytes_eqb_spec (snd (fst tr)) t) as [Et|]; [|contradiction].
  destruct (Hmem tr Htr) as [m [Hm [Eid Hsub]]]. exists m.
  split; [exact Hm|]. split; [rewrite <- Et; exact Hsub|].
  split. { apply in_assigned. exists tr. auto. }
  intros m' Hm' Hp'. apply in_assigned in Hp'. destruct Hp' as [tr' [Htr' [Eid' [Et' Hptr']]]].
  assert (tr' = tr).
  { apply (NoDup_flat_map_unique _ a tr' tr p Hnd' Htr' Htr).
    - rewrite Et', bytes_eqb_refl. exact Hptr'.
    - rewrite Et, bytes_eqb_refl. exact Hptr. }
  subst tr'. eapply NoDup_map_inj'; [exact Hids|exact Hm'|exact Hm|congruence].
Qed.
