(* Proofs/RecordsV1.v — the format-1 writers (protocol writeToVersion1, legacy
   writeProduceRequestV2 / compressMessageSet): what they write is the reference encoding of
   magic-1 messages, wrapped into one compressed wrapper message when a codec is given. *)
From Coq Require Import List NArith ZArith Bool Lia.
From Coq Require Import ZifyN ZifyNat ZifyBool.
From KV Require Import Lib.Bits Lib.Bytes Lib.Varint Lib.Crc Spec.RecordFormat Model.Records
  Proofs.BitsLemmas Proofs.RecordsCodec Proofs.RecordsSet Proofs.RecordsWriters Proofs.RecordsLegacy.
Import ListNotations.
Open Scope Z_scope.

Lemma codec_of_le4 c : (c <= 4)%N -> codec_of (Z.of_N c) = c.
Proof.
  intros H. unfold codec_of.
  assert (c = 0 \/ c = 1 \/ c = 2 \/ c = 3 \/ c = 4)%N as [->|[->|[->|[->| ->]]]] by lia; reflexivity.
Qed.

Definition mk_msg (off attrs ts : Z) (k v : obytes) : msg :=
  {| m_magic := 1; m_off := off; m_attrs := attrs; m_ts := ts; m_key := k; m_val := v |}.

Lemma proto_message_enc i a t k v : proto_message i a t k v = enc_msg (mk_msg i a t k v).
Proof. reflexivity. Qed.

Lemma zlen_wb_bytes b : zlen (wb_bytes b) = 4 + blen b.
Proof. destruct b as [l|]; cbn [wb_bytes blen]; [rewrite zlen_app|]; rewrite zlen_put_bes; lia. Qed.
Lemma wb_bytes_enc b : wb_bytes b = enc_nbytes b.
Proof. destruct b; reflexivity. Qed.

Lemma write_message_enc off a t k v : write_message off a t k v = enc_msg (mk_msg off a t k v).
Proof.
  unfold write_message, enc_msg, msg_body, mk_msg. cbn [m_magic m_off m_attrs m_ts m_key m_val].
  change (1 =? 0) with false. cbv iota. cbn zeta. rewrite !wb_bytes_enc.
  f_equal. f_equal. f_equal. unfold message_size.
  rewrite !zlen_app, !zlen_put_bes. rewrite <- !wb_bytes_enc, !zlen_wb_bytes. lia.
Qed.

Lemma zlen_enc_msg m : zlen (enc_msg m) = 16 + zlen (msg_body m).
Proof. unfold enc_msg. cbn zeta. rewrite !zlen_app, !zlen_put_bes, zlen_put_be. lia. Qed.

Lemma mapi_concat_msgs {A} (f : Z -> A -> list N) (g : Z -> A -> msg) l : forall i,
  (forall j x, f j x = enc_msg (g j x)) ->
  concat (mapi_from f i l) = concat (map enc_msg (mapi_from g i l)).
Proof.
  induction l as [|x l IH]; intros i H; cbn [mapi_from map concat]; [reflexivity|].
  rewrite H, IH by exact H. reflexivity.
Qed.

(* every element of a concatenation is no longer than the whole *)
Lemma zlen_concat_ge {A} (g : A -> list N) l x : In x l -> zlen (g x) <= zlen (concat (map g l)).
Proof.
  induction l as [|y l IH]; intros H; [destruct H|]. cbn [map concat]. rewrite zlen_app.
  pose proof (zlen_nonneg (g y)). pose proof (zlen_nonneg (concat (map g l))).
  destruct H as [->|H]; [lia|]. specialize (IH H). lia.
Qed.

Lemma mapi_In {A B} (g : Z -> A -> B) l : forall i y, In y (mapi_from g i l) ->
  exists j x, i <= j < i + zlen l /\ In x l /\ y = g j x.
Proof.
  induction l as [|x l IH]; intros i y H; [destruct H|]. cbn [mapi_from] in H. rewrite zlen_cons.
  pose proof (zlen_nonneg l).
  destruct H as [<-|H].
  - exists i, x. split; [lia|]. split; [left; reflexivity|reflexivity].
  - destruct (IH (i + 1) y H) as (j & x' & Hj & Hx & E). exists j, x'. split; [lia|]. split; [right; exact Hx|exact E].
Qed.

(* messages written for a record list: offsets off(i, r), attributes 0 *)
Definition msgs_of (off : Z -> irec -> Z) (ts : irec -> Z) (rs : list irec) : list msg :=
  mapi_from (fun i r => mk_msg (off i r) 0 (ts r) (i_key r) (i_val r)) 0 rs.

Lemma msgs_wf off ts rs :
  Forall wf_in rs -> (forall r, In r rs -> in_i64 (ts r)) ->
  (forall i r, 0 <= i < zlen rs -> In r rs -> in_i64 (off i r)) ->
  zlen (concat (map enc_msg (msgs_of off ts rs))) < ZM31 ->
  Forall wf_msg (msgs_of off ts rs) /\ forallb plain (msgs_of off ts rs) = true.
Proof.
  intros Hwf Hts Hoff Hsz. split.
  - apply Forall_forall. intros m Hm.
    pose proof (zlen_concat_ge enc_msg _ m Hm) as Hle. rewrite zlen_enc_msg in Hle.
    apply mapi_In in Hm as (j & r & Hj & Hr & ->).
    rewrite Forall_forall in Hwf. destruct (Hwf r Hr) as (Hk & Hv & _).
    unfold wf_msg, mk_msg. cbn [m_magic m_off m_attrs m_ts m_key m_val] in *.
    refine (conj (or_intror eq_refl) (conj _ (conj _ (conj _ (conj _ (conj Hk (conj Hv _))))))).
    + intros H0. discriminate H0.
    + lia.
    + apply Hts, Hr.
    + apply Hoff; [lia|exact Hr].
    + unfold mk_msg in Hle. lia.
  - apply forallb_forall. intros m Hm. apply mapi_In in Hm as (j & r & _ & _ & ->). reflexivity.
Qed.

Lemma raw_records_msgs_from off ts rs : forall i,
  flat_map raw_records_of (map IMsg (mapi_from (fun i r => mk_msg (off i r) 0 (ts r) (i_key r) (i_val r)) i rs)) =
  mapi_from (fun i r => mk_rec (off i r) (ts r) (i_key r) (i_val r) []) i rs.
Proof.
  induction rs as [|r rs IH]; intros i; [reflexivity|].
  cbn [mapi_from map flat_map raw_records_of app]. rewrite IH. f_equal.
  unfold rec_of_msg, mk_msg, mk_rec. cbn [m_off m_ts m_key m_val]. f_equal. lia.
Qed.
Lemma raw_records_msgs off ts rs :
  raw_records (map IMsg (msgs_of off ts rs)) =
  mapi_from (fun i r => mk_rec (off i r) (ts r) (i_key r) (i_val r) []) 0 rs.
Proof. apply raw_records_msgs_from. Qed.
Lemma map_rec_of_msg_from off ts rs : forall i,
  map (rec_of_msg 0) (mapi_from (fun i r => mk_msg (off i r) 0 (ts r) (i_key r) (i_val r)) i rs) =
  mapi_from (fun i r => mk_rec (off i r) (ts r) (i_key r) (i_val r) []) i rs.
Proof.
  induction rs as [|r rs IH]; intros i; [reflexivity|].
  cbn [mapi_from map]. rewrite IH. f_equal.
  unfold rec_of_msg, mk_msg, mk_rec. cbn [m_off m_ts m_key m_val]. f_equal. lia.
Qed.
Lemma raw_records_wrap magic o a t off ts rs :
  raw_records [IWrap magic o a t (msgs_of off ts rs)] =
  mapi_from (fun i r => mk_rec (off i r) (ts r) (i_key r) (i_val r) []) 0 rs.
Proof.
  unfold raw_records. cbn [flat_map raw_records_of]. rewrite app_nil_r. apply map_rec_of_msg_from.
Qed.

Lemma enc_items_msgs comp ms : enc_items comp (map IMsg ms) = concat (map enc_msg ms).
Proof. unfold enc_items. rewrite map_map. reflexivity. Qed.

Lemma wf_items_msgs comp ms : Forall wf_msg ms -> forallb plain ms = true -> Forall (wf_item comp) (map IMsg ms).
Proof.
  intros Hw Hp. apply Forall_forall. intros it Hit. apply in_map_iff in Hit as (m & <- & Hm).
  cbn [wf_item]. rewrite Forall_forall in Hw. rewrite forallb_forall in Hp. split; [apply Hw, Hm|apply Hp, Hm].
Qed.

Section Codec.
Variable comp decomp : N -> list N -> list N.
Hypothesis decomp_comp : forall c b, decomp c (comp c b) = b.

(* the items one expects from a format-1 writer *)
Definition v1_items (codec : N) (wts : Z) (off : Z -> irec -> Z) (ts : irec -> Z) (rs : list irec) : list item :=
  if (codec =? 0)%N then map IMsg (msgs_of off ts rs)
  else [IWrap 1 0 (Z.of_N codec) wts (msgs_of (fun i _ => i) ts rs)].

Lemma raw_records_v1_items codec wts off ts rs :
  raw_records (v1_items codec wts off ts rs) =
  mapi_from (fun i r => mk_rec (if (codec =? 0)%N then off i r else i) (ts r) (i_key r) (i_val r) []) 0 rs.
Proof.
  unfold v1_items. destruct (codec =? 0)%N; [apply raw_records_msgs|apply raw_records_wrap].
Qed.

(* generic: a set made of [v1_items] decodes to them *)
Lemma v1_items_decodable codec wts off ts rs :
  (codec <= 4)%N -> in_i64 wts -> Forall wf_in rs -> (forall r, In r rs -> in_i64 (ts r)) ->
  (forall i r, 0 <= i < zlen rs -> In r rs -> in_i64 (off i r)) -> small rs ->
  zlen (concat (map enc_msg (msgs_of (if (codec =? 0)%N then off else (fun i _ => i)) ts rs))) < ZM31 ->
  zlen (enc_items comp (v1_items codec wts off ts rs)) < ZM31 ->
  dec_set decomp (enc_set comp (v1_items codec wts off ts rs)) = Some (v1_items codec wts off ts rs).
Proof.
  intros Hc Hw Hwf Hts Hoff Hn Hinner Hsz. apply dec_enc_set; [exact decomp_comp| |exact Hsz].
  unfold v1_items in *. destruct (N.eqb_spec codec 0) as [E|E].
  - destruct (msgs_wf off ts rs Hwf Hts Hoff Hinner) as [A B]. apply wf_items_msgs; assumption.
  - assert (Hoff' : forall i r, 0 <= i < zlen rs -> In r rs -> in_i64 ((fun i _ => i) i r)).
    { intros i r Hi _. unfold small in Hn. unfold in_i64, ZM63, ZM31 in *. lia. }
    destruct (msgs_wf (fun i _ => i) ts rs Hwf Hts Hoff' Hinner) as [A B].
    constructor; [|constructor]. cbn [wf_item]. unfold wf_wrap. rewrite codec_of_le4 by exact Hc.
    split; [|split; [exact E|split; assumption]].
    unfold enc_items in Hsz. cbn [map concat enc_item] in Hsz. rewrite app_nil_r in Hsz.
    unfold enc_wrap in Hsz. rewrite codec_of_le4 in Hsz by exact Hc. rewrite zlen_enc_msg in Hsz.
    unfold wf_msg. cbn [m_magic m_off m_attrs m_ts m_key m_val].
    assert (Hbody : 4 + zlen (comp codec (concat (map enc_msg (msgs_of (fun i _ => i) ts rs)))) + 18 < ZM31).
    { unfold msg_body in Hsz. cbn [m_magic m_attrs m_ts m_key m_val enc_nbytes] in Hsz.
      change (1 =? 0) with false in Hsz. cbv iota in Hsz.
      rewrite !zlen_app, !zlen_put_bes in Hsz. lia. }
    pose proof (zlen_nonneg (comp codec (concat (map enc_msg (msgs_of (fun i _ => i) ts rs))))) as Hcn.
    refine (conj (or_intror eq_refl) (conj _ (conj _ (conj Hw (conj _ (conj I (conj _ _))))))).
    + intros H0. discriminate H0.
    + lia.
    + unfold in_i64, ZM63. lia.
    + unfold osmall, small. lia.
    + lia.
Qed.

(* ---- protocol writer, format 1 (attributes = the codec id) ---- *)
Lemma proto_messages_enc now rs :
  proto_messages 0 now rs = concat (map enc_msg (msgs_of (fun i _ => i) (fun r => pts now (i_ns r)) rs)).
Proof. unfold proto_messages, msgs_of. apply mapi_concat_msgs. intros j x. apply proto_message_enc. Qed.

Lemma land_lnot7_small c : (c <= 4)%N -> Z.land (Z.of_N c) (Z.lnot 7) = 0.
Proof.
  intros H. assert (c = 0 \/ c = 1 \/ c = 2 \/ c = 3 \/ c = 4)%N as [->|[->|[->|[->| ->]]]] by lia; reflexivity.
Qed.

Lemma proto_v1_is_enc codec now rs : (codec <= 4)%N ->
  proto_v1 comp (Z.of_N codec) now rs =
  enc_set comp (v1_items codec now (fun i _ => i) (fun r => pts now (i_ns r)) rs).
Proof.
  intros Hc. unfold proto_v1, v1_items, enc_set. rewrite codec_of_le4 by exact Hc. unfold codec_known.
  destruct (N.eqb_spec codec 0) as [E|E].
  - subst codec. cbn [N.leb N.compare andb Z.of_N]. cbv iota.
    rewrite enc_items_msgs, proto_messages_enc. reflexivity.
  - replace ((1 <=? codec)%N && (codec <=? 4)%N) with true by lia.
    rewrite land_lnot7_small by exact Hc. rewrite proto_messages_enc.
    unfold enc_items. cbn [map concat enc_item]. rewrite app_nil_r.
    unfold enc_wrap. rewrite codec_of_le4 by exact Hc. rewrite proto_message_enc. reflexivity.
Qed.

Theorem proto_v1_decodable codec now rs :
  (codec <= 4)%N -> in_i64 now -> Forall wf_in rs -> ptimes_ok now rs -> small rs ->
  zlen (proto_messages 0 now rs) < ZM31 -> zlen (proto_v1 comp (Z.of_N codec) now rs) < ZM31 + 4 ->
  exists its, dec_set decomp (proto_v1 comp (Z.of_N codec) now rs) = Some its /\
    raw_records its = mapi_from (fun i r => mk_rec i (pts now (i_ns r)) (i_key r) (i_val r) []) 0 rs.
Proof.
  intros Hc Hnow Hwf Ht Hn Hinner Hsz.
  exists (v1_items codec now (fun i _ => i) (fun r => pts now (i_ns r)) rs). split.
  - rewrite proto_v1_is_enc in * by exact Hc. apply v1_items_decodable; try assumption.
    + intros r Hr. pose proof (Ht r Hr). unfold in_i64, ZM63, ZM31 in *. lia.
    + intros i r Hi _. unfold small in Hn. unfold in_i64, ZM63, ZM31 in *. lia.
    + rewrite proto_messages_enc in Hinner. destruct (codec =? 0)%N; exact Hinner.
    + unfold enc_set in Hsz. cbn zeta in Hsz. rewrite zlen_app, zlen_put_bes in Hsz. lia.
  - rewrite raw_records_v1_items. destruct (codec =? 0)%N; reflexivity.
Qed.

(* ---- legacy Conn writer, format 1 ---- *)
Lemma message_set_size_enc (ms : list msg) :
  (forall m, In m ms -> m_magic m = 1) ->
  message_set_size (map (fun m => (m_key m, m_val m)) ms) = zlen (concat (map enc_msg ms)).
Proof.
  intros Hm. unfold message_set_size. induction ms as [|m ms IH]; [reflexivity|].
  cbn [map zsum fold_right concat]. rewrite zlen_app. unfold zsum in IH.
  rewrite IH by (intros x Hx; apply Hm; right; exact Hx).
  rewrite zlen_enc_msg. unfold msg_body. rewrite (Hm m (or_introl eq_refl)).
  change (1 =? 0) with false. cbv iota. rewrite !zlen_app, !zlen_put_bes.
  rewrite <- !wb_bytes_enc, !zlen_wb_bytes. cbn [fst snd]. lia.
Qed.

Lemma legacy_inner_enc off rs :
  concat (mapi_from (fun i m => write_message (off i m) 0 (ts_ms (i_ns m)) (i_key m) (i_val m)) 0 rs) =
  concat (map enc_msg (msgs_of off (fun r => ts_ms (i_ns r)) rs)).
Proof. unfold msgs_of. apply mapi_concat_msgs. intros j x. apply write_message_enc. Qed.

Lemma mapi_const {A B} (f : A -> B) l : forall i, mapi_from (fun _ x => f x) i l = map f l.
Proof. induction l as [|x l IH]; intros i; cbn [mapi_from map]; [reflexivity|]. rewrite IH. reflexivity. Qed.

Lemma msgs_of_kv off ts rs : forall i,
  map (fun m => (m_key m, m_val m)) (mapi_from (fun i r => mk_msg (off i r) 0 (ts r) (i_key r) (i_val r)) i rs) =
  map (fun m => (i_key m, i_val m)) rs.
Proof. induction rs as [|r rs IH]; intros i; cbn [mapi_from map]; [reflexivity|]. rewrite IH. reflexivity. Qed.

Lemma legacy_v1_is_enc codec ms : (codec <= 4)%N ->
  zlen (enc_items comp (v1_items codec 0 (fun _ r => i_off r) (fun r => ts_ms (i_ns r)) ms)) < ZM31 ->
  legacy_v1 comp codec ms =
  enc_set comp (v1_items codec 0 (fun _ r => i_off r) (fun r => ts_ms (i_ns r)) ms).
Proof.
  intros Hc Hsz. unfold legacy_v1, v1_items, enc_set in *.
  destruct (N.eqb_spec codec 0) as [E|E].
  - rewrite enc_items_msgs in *.
    pose proof (zlen_nonneg (concat (map enc_msg (msgs_of (fun _ r => i_off r) (fun r => ts_ms (i_ns r)) ms)))).
    rewrite <- (msgs_of_kv (fun _ r => i_off r) (fun r => ts_ms (i_ns r)) ms 0).
    fold (msgs_of (fun _ r => i_off r) (fun r => ts_ms (i_ns r)) ms).
    rewrite message_set_size_enc.
    2:{ intros m Hm. apply mapi_In in Hm as (j & r & _ & _ & ->). reflexivity. }
    rewrite wrap32_id by (unfold in_i32, ZM31 in *; lia).
    f_equal. rewrite <- (mapi_const (fun m => write_message (i_off m) 0 (ts_ms (i_ns m)) (i_key m) (i_val m)) ms 0).
    apply legacy_inner_enc.
  - rewrite legacy_inner_enc.
    unfold enc_items in *. cbn [map concat enc_item] in *. rewrite app_nil_r in *.
    unfold enc_wrap in *. rewrite codec_of_le4 in * by exact Hc.
    set (W := mk_msg 0 (Z.of_N codec) 0 None (Some (comp codec (concat (map enc_msg (msgs_of (fun i _ => i) (fun r => ts_ms (i_ns r)) ms)))))) in *.
    change (message_set_size [(None, Some (comp codec (concat (map enc_msg (msgs_of (fun i _ => i) (fun r => ts_ms (i_ns r)) ms)))))])
      with (message_set_size (map (fun m => (m_key m, m_val m)) [W])).
    rewrite message_set_size_enc by (intros m [<-|[]]; reflexivity).
    cbn [map concat]. rewrite app_nil_r.
    rewrite write_message_enc. fold W.
    pose proof (zlen_nonneg (enc_msg W)).
    assert (HszW : zlen (enc_msg W) < ZM31) by exact Hsz.
    rewrite wrap32_id by (unfold in_i32, ZM31 in *; lia). reflexivity.
Qed.

Theorem legacy_v1_decodable codec ms :
  (codec <= 4)%N -> Forall wf_in ms -> ltimes_ok ms -> small ms -> Forall (fun m => in_i64 (i_off m)) ms ->
  zlen (concat (map enc_msg (msgs_of (if (codec =? 0)%N then (fun _ r => i_off r) else (fun i _ => i))
                                     (fun r => ts_ms (i_ns r)) ms))) < ZM31 ->
  zlen (enc_items comp (v1_items codec 0 (fun _ r => i_off r) (fun r => ts_ms (i_ns r)) ms)) < ZM31 ->
  exists its, dec_set decomp (legacy_v1 comp codec ms) = Some its /\
    raw_records its = mapi_from (fun i r => mk_rec (if (codec =? 0)%N then i_off r else i)
                                              (ts_ms (i_ns r)) (i_key r) (i_val r) []) 0 ms.
Proof.
  intros Hc Hwf Ht Hn Hoff Hinner Hsz.
  exists (v1_items codec 0 (fun _ r => i_off r) (fun r => ts_ms (i_ns r)) ms). split.
  - rewrite legacy_v1_is_enc by assumption. apply v1_items_decodable; try assumption.
    + unfold in_i64, ZM63. lia.
    + intros r Hr. pose proof (Ht r Hr). unfold in_i64, ZM63, ZM31 in *. lia.
    + intros i r _ Hr. rewrite Forall_forall in Hoff. apply Hoff, Hr.
  - apply raw_records_v1_items.
Qed.

End Codec.

(* ------------------------------------------------------------------ the format follows the Produce version *)
Lemma format_of_version : forall v,
  (format_of_produce_version v = 2 <-> 3 <= v) /\ (format_of_produce_version v = 1 <-> v < 3).
Proof.
  intros v. unfold format_of_produce_version. destruct (Z.ltb_spec v 3); split; split; intros; try lia; discriminate.
Qed.

Lemma proto_produce_format : forall (comp : N -> list N -> list N) v attrs now rs,
  (3 <= v -> proto_produce comp v attrs now rs = proto_v2 comp attrs now rs) /\
  (v < 3 -> proto_produce comp v attrs now rs = Some (proto_v1 comp attrs now rs)).
Proof.
  intros comp v attrs now rs. unfold proto_produce, format_of_produce_version.
  destruct (Z.ltb_spec v 3); split; intros; try lia; reflexivity.
Qed.
