(* Proofs/ConnOpsProofs.v — alignment (C11) and truncation (C17, Conn half) of conn_do. *)
From Coq Require Import List NArith ZArith Bool Lia.
From Coq Require Import ZifyN ZifyNat ZifyBool.
From KV Require Import Lib.Bits Lib.Bytes Model.Legacy Model.ConnOps.
From KV Require Import Proofs.ConnOpsBase Proofs.ConnOpsCodec.
Import ListNotations.
Open Scope Z_scope.

(* ---- every response reader of ConnOps is [good] ---- *)
Ltac good_step :=
  first
    [ apply good_ret | apply good_fail | apply good_get_sz
    | apply good_read_ty | apply good_read_int | apply good_readBool
    | apply good_readString | apply good_readBytes
    | apply good_discardString | apply good_discardBytes | apply good_discardN
    | apply good_expectZeroSize | apply good_readArrayWith | apply good_rep | apply good_pmap
    | apply good_bind; [|intros ?]
    | match goal with |- good (if ?b then _ else _) => destruct b end ].
Ltac good := repeat good_step.

Lemma good_produce_read v : good (produce_read v).
Proof. unfold produce_read, produce_partition. good. Qed.
Lemma good_listoffsets_read : good listoffsets_read.
Proof. unfold listoffsets_read. good. Qed.
Lemma good_op_read a v : good (op_read a v).
Proof.
  destruct a; cbn [op_read]; try (apply good_expectZeroSize; apply good_read_ty).
  - apply good_produce_read.
  - apply good_listoffsets_read.
Qed.
Lemma good_apiversions_read : good apiversions_read.
Proof. unfold apiversions_read. good. Qed.
Lemma good_fetch_header v : good (fetch_header v).
Proof.
  unfold fetch_header, fetch_header_v10, fetch_header_v5, fetch_header_v2, fetch_partition_v5,
    expect_one, aborted_txs, check_msgset_size, readArrayLen.
  good.
Qed.
Lemma good_msg_header : good msg_header.
Proof. unfold msg_header. good. Qed.

(* ---- readers that can never produce a kafka.Error ---- *)
Definition nk {A} (p : P A) : Prop :=
  forall sz s e sz' s', p sz s = (inr e, sz', s') -> is_kafka e = false.

Lemma nk_ret A (a : A) : nk (ret a).
Proof. intros sz s e sz' s' H. inversion H. Qed.
Lemma nk_bind A B (p : P A) (f : A -> P B) : nk p -> (forall a, nk (f a)) -> nk (bind p f).
Proof.
  intros Hp Hf sz s e sz' s' H. unfold bind in H.
  destruct (p sz s) as [[[a|e0] sz1] s1] eqn:E.
  - eapply Hf; exact H.
  - inversion H; subst. eapply Hp; exact E.
Qed.
Lemma nk_peek_read n : nk (peek_read n).
Proof.
  intros sz s e sz' s' H. unfold peek_read in H.
  destruct (sz <? Z.of_nat n); [inversion H; reflexivity|].
  destruct (length s <? n)%nat; inversion H; reflexivity.
Qed.
Lemma nk_guard_short n : nk (guard_short n).
Proof. intros sz s e sz' s' H. unfold guard_short in H. destruct (sz <? n); inversion H; reflexivity. Qed.
Lemma nk_readNewBytes n : nk (readNewBytes n).
Proof.
  intros sz s e sz' s' H. unfold readNewBytes in H.
  destruct (0 <? n); [|inversion H].
  destruct ((if sz <? n then sz else n) <? 0); [inversion H; reflexivity|].
  destruct ((if sz <? n then sz else n) <=? Z.of_nat (length s)).
  - destruct (sz <? n); inversion H; reflexivity.
  - inversion H. destruct s; reflexivity.
Qed.
Lemma nk_rep A (p : P A) : nk p -> forall n, nk (rep n p).
Proof.
  intros Hp n. induction n as [|n IH]; cbn [rep]; [apply nk_ret|].
  apply nk_bind; [exact Hp|]. intros a. apply nk_bind; [exact IH|]. intros l. apply nk_ret.
Qed.
Lemma nk_read_int w : nk (read_int w).
Proof. unfold read_int. apply nk_bind; [apply nk_peek_read|]. intros b. apply nk_ret. Qed.
Lemma nk_lenprefixed w : nk (n <- read_int w ;; _ <- guard_short n ;; readNewBytes n).
Proof.
  apply nk_bind; [apply nk_read_int|]. intros n. apply nk_bind; [apply nk_guard_short|].
  intros _. apply nk_readNewBytes.
Qed.
Lemma nk_read_ty t : nk (read_ty t).
Proof.
  induction t; cbn [read_ty]; unfold pmap.
  - apply nk_bind; [apply nk_read_int|intros ?; apply nk_ret].
  - apply nk_bind; [apply nk_read_int|intros ?; apply nk_ret].
  - apply nk_bind; [apply nk_read_int|intros ?; apply nk_ret].
  - apply nk_bind; [apply nk_read_int|intros ?; apply nk_ret].
  - apply nk_bind; [|intros ?; apply nk_ret].
    unfold readBool. apply nk_bind; [apply nk_peek_read|]. intros b. apply nk_ret.
  - apply nk_bind; [apply nk_lenprefixed|intros ?; apply nk_ret].
  - apply nk_bind; [apply nk_lenprefixed|intros ?; apply nk_ret].
  - apply nk_bind; [|intros ?; apply nk_ret].
    unfold readArrayWith. apply nk_bind; [apply nk_read_int|]. intros n. apply nk_rep. exact IHt.
  - apply nk_bind; [exact IHt1|]. intros x. apply nk_bind; [exact IHt2|]. intros y. apply nk_ret.
  - apply nk_ret.
Qed.
Lemma nk_expectZeroSize A (p : P A) : nk p -> nk (expectZeroSize p).
Proof.
  intros Hp sz s e sz' s' H. unfold expectZeroSize in H.
  destruct (p sz s) as [[[a|e0] sz1] s1] eqn:E.
  - destruct (sz1 =? 0); inversion H. reflexivity.
  - inversion H; subst. eapply Hp; exact E.
Qed.
Lemma nk_op_read a v : schema_api a = true -> nk (op_read a v).
Proof.
  intros Hs. destruct a; try discriminate Hs; cbn [op_read];
    apply nk_expectZeroSize; apply nk_read_ty.
Qed.

(* ---- frames ---- *)
Definition fits (body : list N) : Prop := Z.of_nat (length body) + 4 < ZM31.

(* the operation consumed exactly the frame announced by the size prefix at the head of s *)
Definition consumed_frame (s s' : list N) : Prop :=
  exists c, (8 <= length s)%nat /\ s = firstn 8 s ++ c ++ s' /\
            Z.of_nat (length c) = get_bes 4 (firstn 4 s) - 4.

Lemma expectZeroSize_inl A (p : P A) sz s a sz' s' :
  expectZeroSize p sz s = (inl a, sz', s') -> sz' = 0.
Proof.
  unfold expectZeroSize. destruct (p sz s) as [[[x|e] sz1] s1].
  - destruct (Z.eqb_spec sz1 0); intros H; inversion H; subst; auto.
  - intros H; inversion H.
Qed.

Lemma op_read_inl_zero a v sz s x sz' s' : op_read a v sz s = (inl x, sz', s') -> sz' = 0.
Proof.
  destruct a; cbn [op_read]; unfold produce_read, listoffsets_read; apply expectZeroSize_inl.
Qed.

Lemma op_read_exact a v size s x sz' s' :
  op_read a v size s = (inl x, sz', s') ->
  exists c, s = c ++ s' /\ Z.of_nat (length c) = size.
Proof.
  intros H. pose proof (op_read_inl_zero _ _ _ _ _ _ _ H) as Hz.
  destruct (good_op_read a v _ _ _ _ _ H) as (c & Hs & Hb & _).
  destruct (Hb eq_refl) as [Hsz _]. exists c. split; [exact Hs|lia].
Qed.

Lemma wait_response_inl id s size s1 cl :
  wait_response id s = (inl size, s1, cl) ->
  (8 <= length s)%nat /\ size = get_bes 4 (firstn 4 s) - 4 /\ s1 = skipn 8 s /\ cl = false /\
  (get_bes 4 (firstn 4 (skipn 4 s)) =? id) = true.
Proof.
  unfold wait_response. destruct (Nat.ltb_spec (length s) 8) as [Hl|Hl]; [intros H; inversion H|].
  destruct (get_bes 4 (firstn 4 (skipn 4 s)) =? id) eqn:E; intros H; inversion H; auto.
Qed.

(* C11, the structural half: whenever an operation that reads its response through
   "readFrom; expectZeroSize; then look at the error codes" returns success or a Kafka
   error — on ANY incoming bytes — it has consumed exactly its own frame. *)
Theorem frame_exact st o s st' r s' :
  closed st = false ->
  op_api o <> AFetch -> op_api o <> AApiVersions ->
  conn_do st o s = (st', r, s') ->
  match r with
  | ROk _ => True
  | RErr (EKafka _) => schema_api (op_api o) = true
  | _ => False
  end ->
  consumed_frame s s' /\ closed st' = false.
Proof.
  intros Hcl Hf Ha H Hr. unfold conn_do in H. rewrite Hcl in H.
  destruct (wait_response (wrap32 (corr st + 1)) s) as [[[size|e] s1] cl] eqn:Ew.
  2:{ inversion H; subst r. unfold wait_response in Ew.
      destruct (length s <? 8)%nat; [inversion Ew; subst e|].
      - destruct (op_api o); contradiction.
      - destruct (_ =? _); inversion Ew; subst e. destruct (op_api o); contradiction. }
  apply wait_response_inl in Ew as (Hlen & Hsize & Hs1 & _ & _).
  assert (Hgen : forall a, op_api o = a -> a <> AFetch -> a <> AApiVersions ->
     match op_read a (op_ver o) size s1 with
     | (inl v, _, s'') => (mkConn false (wrap32 (corr st + 1)) (cfg_topic st) (offset st),
                           post (cfg_topic st) a (op_ver o) v, s'')
     | (inr e, _, s'') => (set_closed (mkConn false (wrap32 (corr st + 1)) (cfg_topic st) (offset st))
                                      (negb (is_kafka e)), RErr e, s'')
     end = (st', r, s') -> consumed_frame s s' /\ closed st' = false).
  { intros a Ea Hf' Ha' H'.
    destruct (op_read a (op_ver o) size s1) as [[[x|e] sz1] s2] eqn:Er.
    - inversion H'; subst st' s2. split; [|reflexivity].
      destruct (op_read_exact _ _ _ _ _ _ _ Er) as (c & Hc & Hlc).
      exists c. split; [exact Hlen|]. split; [|lia].
      rewrite <- Hc, Hs1. symmetry. apply firstn_skipn.
    - inversion H'; subst r. exfalso.
      destruct e; try contradiction. rewrite Ea in Hr.
      pose proof (nk_op_read a (op_ver o) Hr _ _ _ _ _ Er) as Hk. discriminate Hk. }
  destruct (op_api o) eqn:Ea; try contradiction;
    (eapply Hgen; [reflexivity|discriminate|discriminate|]);
    replace (offset st) with (match op_api o with AFetch => op_off o | _ => offset st end)
      by (rewrite Ea; reflexivity);
    rewrite Ea; exact H.
Qed.

Lemma wrap32_in_signed z : in_signed 4 (wrap32 z).
Proof.
  unfold in_signed, wrap32, pow256, ZM31, ZM32. cbn.
  pose proof (Z.mod_pos_bound (z + 2147483648) 4294967296 ltac:(lia)). lia.
Qed.

Lemma wait_response_frame id body rest :
  in_signed 4 id -> fits body ->
  wait_response id (frame id body ++ rest) = (inl (Z.of_nat (length body)), body ++ rest, false).
Proof.
  intros Hid Hfit. unfold fits, ZM31 in Hfit. unfold wait_response, frame.
  set (hs := put_bes 4 (Z.of_nat (length body) + 4)).
  assert (Hhs : length hs = 4%nat) by apply put_bes_length.
  assert (Hhi : length (put_bes 4 id) = 4%nat) by apply put_bes_length.
  rewrite <- !app_assoc.
  destruct (Nat.ltb_spec (length (hs ++ put_bes 4 id ++ body ++ rest)) 8) as [Hx|Hx];
    [rewrite !app_length in Hx; lia|].
  rewrite (firstn_exact hs) by exact Hhs.
  rewrite (skipn_exact hs) by exact Hhs.
  rewrite (firstn_exact (put_bes 4 id)) by exact Hhi.
  unfold hs. rewrite !get_put_bes by (try lia; try exact Hid; unfold in_signed, pow256; cbn; lia).
  rewrite Z.eqb_refl.
  replace (put_bes 4 (Z.of_nat (length body) + 4) ++ put_bes 4 id ++ body ++ rest)
    with ((hs ++ put_bes 4 id) ++ body ++ rest) by (unfold hs; rewrite <- app_assoc; reflexivity).
  rewrite skipn_exact by (rewrite app_length; lia).
  f_equal. f_equal. f_equal. lia.
Qed.

Lemma consumed_frame_frame id body rest s' :
  fits body -> consumed_frame (frame id body ++ rest) s' -> s' = rest.
Proof.
  intros Hfit (c & Hlen & Hs & Hc). unfold fits, ZM31 in Hfit.
  assert (H8 : firstn 8 (frame id body ++ rest) = put_bes 4 (Z.of_nat (length body) + 4) ++ put_bes 4 id).
  { unfold frame. rewrite app_assoc. rewrite <- app_assoc.
    replace (put_bes 4 (Z.of_nat (length body) + 4) ++ (put_bes 4 id ++ body) ++ rest)
      with ((put_bes 4 (Z.of_nat (length body) + 4) ++ put_bes 4 id) ++ body ++ rest)
      by (rewrite <- !app_assoc; reflexivity).
    apply firstn_exact. rewrite app_length, !put_bes_length. reflexivity. }
  assert (H4 : firstn 4 (frame id body ++ rest) = put_bes 4 (Z.of_nat (length body) + 4)).
  { unfold frame. rewrite <- app_assoc. apply firstn_exact. apply put_bes_length. }
  rewrite H4 in Hc. rewrite get_put_bes in Hc by (try lia; unfold in_signed, pow256; cbn; lia).
  rewrite H8 in Hs. unfold frame in Hs. rewrite <- !app_assoc in Hs.
  apply app_inv_head in Hs. apply app_inv_head in Hs.
  assert (Hl : length body = length c) by lia.
  clear - Hl Hs. revert c Hl Hs. induction body as [|b body IH]; intros [|x c] Hl Hs;
    cbn in *; try discriminate; [symmetry; exact Hs|].
  inversion Hs. apply (IH c); [lia|assumption].
Qed.

(* what conn_do does on a well-formed frame of a "read everything, then check" operation *)
Lemma op_read_schema a v : schema_api a = true -> op_read a v = expectZeroSize (read_ty (resp_ty a v)).
Proof. destruct a; try discriminate; reflexivity. Qed.

Lemma conn_do_schema_frame st a v off w rest :
  schema_api a = true -> wt (resp_ty a v) w -> fits (enc (resp_ty a v) w) -> closed st = false ->
  conn_do st (mkOp a v off) (frame (wrap32 (corr st + 1)) (enc (resp_ty a v) w) ++ rest)
  = (mkConn false (wrap32 (corr st + 1)) (cfg_topic st) (offset st),
     post (cfg_topic st) a v (dec_val (resp_ty a v) w), rest).
Proof.
  intros Hs Hwt Hfit Hcl. unfold conn_do. rewrite Hcl. cbn [op_api op_ver op_off].
  rewrite wait_response_frame by (try apply wrap32_in_signed; exact Hfit).
  assert (Hr : op_read a v (Z.of_nat (length (enc (resp_ty a v) w))) (enc (resp_ty a v) w ++ rest)
               = (inl (dec_val (resp_ty a v) w), 0, rest)).
  { rewrite op_read_schema by exact Hs. unfold expectZeroSize.
    rewrite read_ty_enc by (try exact Hwt; lia). rewrite Z.sub_diag. reflexivity. }
  destruct a; try discriminate Hs; rewrite Hr; reflexivity.
Qed.

(* ---- "a Kafka error keeps the connection, any other error closes it" ---- *)
Lemma post_err_kafka topic a v x e : post topic a v x = RErr e -> is_kafka e = true.
Proof.
  unfold post. destruct (post_error topic a v x); [intros H; inversion H; reflexivity|].
  destruct a; intros H; discriminate H.
Qed.

Theorem closed_after_other_error st o s st' e s' :
  conn_do st o s = (st', RErr e, s') ->
  is_kafka e = false -> e <> ENoProgress -> op_api o <> AApiVersions ->
  closed st' = true.
Proof.
  intros H Hk Hnp Ha. unfold conn_do in H.
  destruct (closed st) eqn:Hcl; [inversion H; subst; reflexivity|].
  destruct (wait_response (wrap32 (corr st + 1)) s) as [[[size|e0] s1] cl] eqn:Ew.
  - assert (Hgen : forall a st1,
       match op_read a (op_ver o) size s1 with
       | (inl v, _, s'') => (st1, post (cfg_topic st) a (op_ver o) v, s'')
       | (inr e, _, s'') => (set_closed st1 (negb (is_kafka e)), RErr e, s'')
       end = (st', RErr e, s') -> closed st' = true).
    { intros a st1 H'.
      destruct (op_read a (op_ver o) size s1) as [[[x|e1] sz1] s2] eqn:Er.
      - inversion H' as [[H1 H2 H3]]. apply post_err_kafka in H2. congruence.
      - inversion H'; subst. cbn. rewrite Hk. reflexivity. }
    destruct (op_api o) eqn:Ea; try contradiction; try (eapply Hgen; exact H).
    (* fetch *)
    destruct (fetch_after_wait (op_ver o) (op_off o) size s1) as [[r cl'] s2] eqn:Ef.
    inversion H; subst. cbn. unfold fetch_after_wait in Ef.
    destruct (fetch_header (op_ver o) size s1) as [[[[thr hwm]|e1] sz1] s3].
    + destruct (hwm =? op_off o); [inversion Ef|].
      destruct (msg_header sz1 s3) as [[[m|e2] sz2] s4];
        destruct (discardN sz2 sz2 s4) as [[? ?] ?]; inversion Ef.
      subst. rewrite Hk. reflexivity.
    + inversion Ef. subst. rewrite Hk. reflexivity.
  - unfold wait_response in Ew. destruct (length s <? 8)%nat.
    + inversion Ew; subst. inversion H; subst. reflexivity.
    + destruct (_ =? _); inversion Ew; subst. inversion H; subst.
      destruct (op_api o); cbn in *; contradiction.
Qed.

Theorem closed_stays_closed st o s :
  closed st = true ->
  exists st', conn_do st o s = (st', RErr EClosed, s) /\ closed st' = true.
Proof. intros H. unfold conn_do. rewrite H. eexists. split; reflexivity. Qed.

Theorem closed_run st ops s :
  closed st = true ->
  exists st', conn_run st ops s = (st', map (fun _ => RErr EClosed) ops, s) /\ closed st' = true.
Proof.
  revert st. induction ops as [|o ops IH]; intros st H; cbn [conn_run map].
  - exists st. auto.
  - destruct (closed_stays_closed st o s H) as (st1 & E1 & H1). rewrite E1.
    destruct (IH st1 H1) as (st2 & E2 & H2). rewrite E2. exists st2. auto.
Qed.

(* ---- truncation: a cut strictly inside what the full run consumed ---- *)
Lemma transport_not_kafka e : transport e = true -> is_kafka e = false.
Proof. destruct e; cbn; congruence. Qed.

Lemma wait_response_cut id s k size s1 cl :
  wait_response id s = (inl size, s1, cl) -> (8 <= k)%nat ->
  wait_response id (firstn k s) = (inl size, firstn (k - 8) s1, false).
Proof.
  intros H Hk. apply wait_response_inl in H as (Hlen & Hsize & Hs1 & _ & Hid).
  unfold wait_response.
  destruct (Nat.ltb_spec (length (firstn k s)) 8) as [Hx|Hx]; [rewrite firstn_length in Hx; lia|].
  rewrite firstn_firstn. replace (Nat.min 4 k) with 4%nat by lia.
  rewrite skipn_firstn_comm, firstn_firstn. replace (Nat.min 4 (k - 4)) with 4%nat by lia.
  rewrite skipn_firstn_comm. subst s1 size. rewrite Hid. reflexivity.
Qed.

Lemma conn_do_generic st o s :
  closed st = false -> op_api o <> AFetch -> op_api o <> AApiVersions ->
  conn_do st o s =
    let st1 := mkConn false (wrap32 (corr st + 1)) (cfg_topic st) (offset st) in
    match wait_response (wrap32 (corr st + 1)) s with
    | (inr e, s', cl) => (set_closed st1 cl, RErr e, s')
    | (inl size, s', _) =>
        match op_read (op_api o) (op_ver o) size s' with
        | (inl v, _, s'') => (st1, post (cfg_topic st) (op_api o) (op_ver o) v, s'')
        | (inr e, _, s'') => (set_closed st1 (negb (is_kafka e)), RErr e, s'')
        end
    end.
Proof.
  intros H Hf Ha. unfold conn_do. rewrite H.
  destruct (op_api o) eqn:E; try contradiction; reflexivity.
Qed.

(* C17 (Conn half), structural form: cut the incoming stream anywhere strictly inside what the
   complete exchange consumed: the operation fails with io.EOF / io.ErrUnexpectedEOF and the
   Conn closes itself.  No assumption on the bytes. *)
Theorem conn_do_cut st o s st' r s' k :
  closed st = false -> op_api o <> AFetch -> op_api o <> AApiVersions ->
  conn_do st o s = (st', r, s') ->
  (k + length s' < length s)%nat ->
  exists e st2 s2,
    conn_do st o (firstn k s) = (st2, RErr e, s2) /\ transport e = true /\ closed st2 = true.
Proof.
  intros Hcl Hf Ha H Hk.
  rewrite conn_do_generic in H by assumption. rewrite conn_do_generic by assumption. cbv zeta in *.
  destruct (wait_response (wrap32 (corr st + 1)) s) as [[[size|e0] s1] cl] eqn:Ew.
  2:{ unfold wait_response in Ew. destruct (length s <? 8)%nat.
      - inversion Ew; subst. inversion H; subst. lia.
      - destruct (_ =? _); inversion Ew; subst. inversion H; subst. lia. }
  pose proof Ew as Ew'. apply wait_response_inl in Ew' as (Hlen & _ & Hs1 & _ & _).
  assert (Hs : s = firstn 8 s ++ s1) by (rewrite Hs1; symmetry; apply firstn_skipn).
  assert (H8 : length (firstn 8 s) = 8%nat) by (apply firstn_length_le; exact Hlen).
  destruct (op_read (op_api o) (op_ver o) size s1) as [[ra sz1] s2] eqn:Er.
  assert (Hs2 : s' = s2) by (destruct ra; inversion H; reflexivity).
  destruct (good_op_read _ _ _ _ _ _ _ Er) as (c & Hc & _ & Hd).
  assert (Hlc : (k < 8 + length c)%nat).
  { rewrite Hs, Hc, !app_length, H8 in Hk. subst s2. lia. }
  destruct (Nat.lt_ge_cases k 8) as [Hk8|Hk8].
  - exists EEOF. unfold wait_response.
    destruct (Nat.ltb_spec (length (firstn k s)) 8) as [Hx|Hx]; [|rewrite firstn_length in Hx; lia].
    eexists. eexists. split; [reflexivity|]. split; reflexivity.
  - rewrite (wait_response_cut _ _ _ _ _ _ Ew Hk8).
    replace (firstn (k - 8) s1) with (firstn (k - 8) c)
      by (rewrite Hc; symmetry; apply firstn_app_lt; lia).
    destruct (Hd (k - 8)%nat ltac:(lia)) as (e & sz2 & s3 & He & Ht).
    rewrite He. exists e. eexists. eexists. split; [reflexivity|]. split; [exact Ht|].
    cbn. rewrite (transport_not_kafka _ Ht). reflexivity.
Qed.

(* on a well-formed frame of a "read everything, then check" operation: every cut position *)
Theorem conn_cut_schema st a v off w k :
  schema_api a = true -> wt (resp_ty a v) w -> fits (enc (resp_ty a v) w) -> closed st = false ->
  (k < length (frame (wrap32 (corr st + 1)) (enc (resp_ty a v) w)))%nat ->
  exists e st2 s2,
    conn_do st (mkOp a v off) (firstn k (frame (wrap32 (corr st + 1)) (enc (resp_ty a v) w)))
      = (st2, RErr e, s2) /\ transport e = true /\ closed st2 = true.
Proof.
  intros Hs Hwt Hfit Hcl Hk.
  pose proof (conn_do_schema_frame st a v off w [] Hs Hwt Hfit Hcl) as Hfull.
  rewrite app_nil_r in Hfull.
  eapply conn_do_cut; try exact Hfull; try exact Hcl; cbn [op_api];
    try (destruct a; discriminate). cbn [length]. lia.
Qed.

(* ---- runs: every operation consumes its own frame ---- *)
Inductive frames_consumed : list N -> nat -> list N -> Prop :=
| fc_nil s : frames_consumed s 0 s
| fc_cons s s1 s2 n : consumed_frame s s1 -> frames_consumed s1 n s2 -> frames_consumed s (S n) s2.

Definition clean_outcome (o : op) (r : result) : Prop :=
  op_api o <> AFetch /\ op_api o <> AApiVersions /\
  match r with
  | ROk _ => True
  | RErr (EKafka _) => schema_api (op_api o) = true
  | _ => False
  end.

Theorem run_frames_exact ops : forall st s st' rs s',
  closed st = false ->
  conn_run st ops s = (st', rs, s') ->
  Forall2 clean_outcome ops rs ->
  frames_consumed s (length ops) s' /\ closed st' = false.
Proof.
  induction ops as [|o ops IH]; intros st s st' rs s' Hcl H Hall; cbn [conn_run] in H.
  - inversion H; subst. split; [constructor|exact Hcl].
  - destruct (conn_do st o s) as [[st1 r1] s1] eqn:E1.
    destruct (conn_run st1 ops s1) as [[st2 rs2] s2] eqn:E2.
    inversion H; subst st' rs s'. inversion Hall as [|? ? ? ? Hc Hrest]; subst.
    destruct Hc as (Hf & Ha & Hr).
    destruct (frame_exact _ _ _ _ _ _ Hcl Hf Ha E1 Hr) as [Hcf Hcl1].
    destruct (IH _ _ _ _ _ Hcl1 E2 Hrest) as [Hfc Hcl2].
    split; [econstructor; eassumption|exact Hcl2].
Qed.
