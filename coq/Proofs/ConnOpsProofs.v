(* Proofs/ConnOpsProofs.v — alignment (C11) and truncation (C17, Conn half) of conn_do. *)
From Coq Require Import List NArith ZArith Bool Lia.
From Coq Require Import ZifyN ZifyNat ZifyBool.
From KV Require Import Lib.Bits Lib.Bytes Model.Legacy Model.ConnOps.
From KV Require Import Proofs.ConnOpsBase Proofs.ConnOpsCodec.
Import ListNotations.
Open Scope Z_scope.

(* ---- every response reader of ConnOps is [good] ---- *)
Ltac good_step :=
  first
    [ apply good_ret | apply good_fail | apply good_get_sz
    | apply good_read_ty | apply good_read_int | apply good_readBool | apply good_readVarInt
    | apply good_readNewBytes | apply good_guard_short | apply good_try_short
    | apply good_readBytesWith; intros ?
    | apply good_readString | apply good_readBytes
    | apply good_discardString | apply good_discardBytes | apply good_discardN
    | apply good_expectZeroSize | apply good_readArrayWith | apply good_rep | apply good_pmap
    | apply good_bind; [|intros ?]
    | match goal with |- good (if ?b then _ else _) => destruct b end ].
Ltac good := repeat good_step.

Lemma good_produce_read v : good (produce_read v).
Proof. unfold produce_read, produce_partition. apply good_expectZeroSize. apply good_skipRemaining. good. Qed.
Lemma good_listoffsets_read : good listoffsets_read.
Proof. unfold listoffsets_read. good. Qed.
Lemma good_apiversions_read : good apiversions_read.
Proof. unfold apiversions_read. good. Qed.
Lemma good_fetch_header v : good (fetch_header v).
Proof.
  unfold fetch_header, fetch_header_v10, fetch_header_v5, fetch_header_v2, fetch_partition_v5,
    expect_one, aborted_txs, check_msgset_size, readArrayLen.
  good.
Qed.
Lemma good_next_header : good next_header.
Proof. unfold next_header. good. Qed.
Lemma good_msg_header : good msg_header.
Proof. unfold msg_header. apply good_bind; [apply good_next_header|]. intros m. apply good_ret. Qed.
Lemma good_read_one K V (key : Z -> P K) (val : Z -> P V) min m :
  (forall n, good (key n)) -> (forall n, good (val n)) -> good (read_one key val min m).
Proof.
  intros Hk Hv. unfold read_one, read_header, read_v1, read_v2, record_header.
  repeat first [ apply Hk | apply Hv | apply good_next_header | good_step ].
Qed.
Lemma good_read_key_cb n : good (read_key_cb n).
Proof. unfold read_key_cb. good. Qed.
Lemma good_read_val_cb c n : good (read_val_cb c n).
Proof. unfold read_val_cb. good. Qed.
Lemma good_run_acts acts : forall m boff outs, good (run_acts acts m boff outs).
Proof.
  induction acts as [|a rest IH]; intros m boff outs; cbn [run_acts]; [apply good_ret|].
  destruct (a <? 0).
  - apply good_bind.
    + apply good_try_short. apply good_read_one; intros; apply good_readNewBytes.
    + intros [[[[m' off] k] v]|]; [apply IH|apply good_ret].
  - apply good_bind.
    + apply good_try_short. apply good_read_one; intros; [apply good_read_key_cb|apply good_read_val_cb].
    + intros [[[[m' off] k] [n b]]|]; [|apply good_ret].
      destruct (a <? n); [apply good_ret|apply IH].
Qed.
Lemma good_discard_remaining : good discard_remaining.
Proof. unfold discard_remaining. good. Qed.
Lemma good_fetch_read v off : good (fetch_read v off).
Proof.
  unfold fetch_read. apply good_bind; [apply good_skipRemaining; apply good_fetch_header|].
  intros h. destruct (snd h =? off).
  - apply good_bind; [apply good_discard_remaining|]. intros _. apply good_ret.
  - apply good_bind; [apply good_msg_header|]. intros _.
    apply good_bind; [apply good_discard_remaining|]. intros _. apply good_ret.
Qed.
Lemma good_fetch_reads v off acts : good (fetch_reads v off acts).
Proof.
  unfold fetch_reads. apply good_bind; [apply good_skipRemaining; apply good_fetch_header|].
  intros h. destruct (snd h =? off).
  - apply good_bind; [apply good_discard_remaining|]. intros _. destruct acts; [apply good_ret|apply good_fail].
  - apply good_bind; [apply good_next_header|]. intros m.
    apply good_bind; [apply good_run_acts|]. intros r.
    apply good_bind; [apply good_discard_remaining|]. intros _. apply good_ret.
Qed.
Lemma good_op_read a v off : good (op_read a v off).
Proof.
  destruct a; cbn [op_read]; try (apply good_expectZeroSize; apply good_read_ty).
  - apply good_produce_read.
  - apply good_fetch_read.
  - apply good_listoffsets_read.
  - apply good_apiversions_read.
  - apply good_fetch_reads.
Qed.

(* ---- every response reader is [safe] ---- *)
Ltac safe_step :=
  first
    [ apply safe_ret | apply safe_fail; reflexivity | apply safe_get_sz
    | apply safe_read_ty | apply safe_read_int | apply safe_readVarInt | apply safe_guard_short | apply safe_try_short
    | apply safe_lenprefixed; intros ?
    | apply safe_discard_cb | apply safe_discardN | apply safe_readNewBytes
    | apply safe_expectZeroSize | apply safe_skipRemaining | apply safe_readArrayWith
    | apply safe_rep | apply safe_pmap
    | apply safe_bind; [|intros ?]
    | match goal with |- safe (if ?b then _ else _) => destruct b end ].
Ltac safe := repeat safe_step.

Lemma safe_next_header : safe next_header.
Proof. unfold next_header, readInt8, readInt16, readInt32, readInt64. safe. Qed.
Lemma safe_readBytesWith A (cb : Z -> P A) : (forall n, safe (cb n)) -> safe (readBytesWith cb).
Proof. intros H. unfold readBytesWith, readArrayLen, readInt32. apply safe_lenprefixed. exact H. Qed.
Lemma safe_read_one K V (key : Z -> P K) (val : Z -> P V) min m :
  (forall n, safe (key n)) -> (forall n, safe (val n)) -> safe (read_one key val min m).
Proof.
  intros Hk Hv. unfold read_one, read_header, read_v1, read_v2, record_header, readInt8.
  repeat first [ apply Hk | apply Hv | apply safe_next_header | apply safe_readBytesWith; intros ? | safe_step ].
Qed.
Lemma safe_read_key_cb n : safe (read_key_cb n).
Proof. unfold read_key_cb. safe. Qed.
Lemma safe_read_val_cb c n : safe (read_val_cb c n).
Proof. unfold read_val_cb. safe. Qed.
Lemma safe_discard_remaining : safe discard_remaining.
Proof. unfold discard_remaining. safe. Qed.
Lemma safe_run_acts acts : forall m boff outs, safe (run_acts acts m boff outs).
Proof.
  induction acts as [|a rest IH]; intros m boff outs; cbn [run_acts]; [apply safe_ret|].
  destruct (a <? 0).
  - apply safe_bind.
    + apply safe_try_short. apply safe_read_one; intros; apply safe_readNewBytes.
    + intros [[[[m' off] k] v]|]; [apply IH|apply safe_ret].
  - apply safe_bind.
    + apply safe_try_short. apply safe_read_one; intros; [apply safe_read_key_cb|apply safe_read_val_cb].
    + intros [[[[m' off] k] [n b]]|]; [|apply safe_ret].
      destruct (a <? n); [apply safe_ret|apply IH].
Qed.
Lemma safe_op_read a v off : safe (op_read a v off).
Proof.
  destruct a; cbn [op_read]; try (apply safe_expectZeroSize; apply safe_read_ty).
  - unfold produce_read, produce_partition, discardString, readStringWith, discardInt32, readInt16. safe.
  - unfold fetch_read, fetch_header, fetch_header_v10, fetch_header_v5, fetch_header_v2,
      fetch_partition_v5, expect_one, aborted_txs, check_msgset_size, readArrayLen, msg_header,
      discard_remaining, discardString, readStringWith, discardInt32, readInt8, readInt16, readInt32, readInt64.
    safe.
  - unfold listoffsets_read, discardString, readStringWith, readInt16. safe.
  - unfold apiversions_read, readInt16, readInt32. safe.
  - unfold fetch_reads. apply safe_bind.
    + unfold fetch_header, fetch_header_v10, fetch_header_v5, fetch_header_v2,
        fetch_partition_v5, expect_one, aborted_txs, check_msgset_size, readArrayLen,
        discardString, readStringWith, discardInt32, readInt8, readInt16, readInt32, readInt64.
      safe.
    + intros h. destruct (snd h =? off).
      * apply safe_bind; [apply safe_discard_remaining|]. intros _.
        destruct acts; [apply safe_ret|apply safe_fail; reflexivity].
      * apply safe_bind; [apply safe_next_header|]. intros m.
        apply safe_bind; [apply safe_run_acts|]. intros r.
        apply safe_bind; [apply safe_discard_remaining|]. intros _. apply safe_ret.
Qed.

(* ---- readers that can never produce a kafka.Error ---- *)
Definition nk {A} (p : P A) : Prop :=
  forall sz s e sz' s', p sz s = (inr e, sz', s') -> is_kafka e = false.

Lemma nk_ret A (a : A) : nk (ret a).
Proof. intros sz s e sz' s' H. inversion H. Qed.
Lemma nk_bind A B (p : P A) (f : A -> P B) : nk p -> (forall a, nk (f a)) -> nk (bind p f).
Proof.
  intros Hp Hf sz s e sz' s' H. unfold bind in H.
  destruct (p sz s) as [[[a|e0] sz1] s1] eqn:E.
  - eapply Hf; exact H.
  - inversion H; subst. eapply Hp; exact E.
Qed.
Lemma nk_peek_read n : nk (peek_read n).
Proof.
  intros sz s e sz' s' H. unfold peek_read in H.
  destruct (sz <? Z.of_nat n); [inversion H; reflexivity|].
  destruct (length s <? n)%nat; inversion H; reflexivity.
Qed.
Lemma nk_guard_short n : nk (guard_short n).
Proof. intros sz s e sz' s' H. unfold guard_short in H. destruct (sz <? n); inversion H; reflexivity. Qed.
Lemma nk_readNewBytes n : nk (readNewBytes n).
Proof.
  intros sz s e sz' s' H. unfold readNewBytes in H.
  destruct (0 <? n); [|inversion H].
  destruct ((if sz <? n then sz else n) <? 0); [inversion H; reflexivity|].
  destruct ((if sz <? n then sz else n) <=? Z.of_nat (length s)).
  - destruct (sz <? n); inversion H; reflexivity.
  - inversion H. destruct s; reflexivity.
Qed.
Lemma nk_rep A (p : P A) : nk p -> forall n, nk (rep n p).
Proof.
  intros Hp n. induction n as [|n IH]; cbn [rep]; [apply nk_ret|].
  apply nk_bind; [exact Hp|]. intros a. apply nk_bind; [exact IH|]. intros l. apply nk_ret.
Qed.
Lemma nk_read_int w : nk (read_int w).
Proof. unfold read_int. apply nk_bind; [apply nk_peek_read|]. intros b. apply nk_ret. Qed.
Lemma nk_lenprefixed w : nk (n <- read_int w ;; _ <- guard_short n ;; readNewBytes n).
Proof.
  apply nk_bind; [apply nk_read_int|]. intros n. apply nk_bind; [apply nk_guard_short|].
  intros _. apply nk_readNewBytes.
Qed.
Lemma nk_read_ty t : nk (read_ty t).
Proof.
  induction t; cbn [read_ty]; unfold pmap.
  - apply nk_bind; [apply nk_read_int|intros ?; apply nk_ret].
  - apply nk_bind; [apply nk_read_int|intros ?; apply nk_ret].
  - apply nk_bind; [apply nk_read_int|intros ?; apply nk_ret].
  - apply nk_bind; [apply nk_read_int|intros ?; apply nk_ret].
  - apply nk_bind; [|intros ?; apply nk_ret].
    unfold readBool. apply nk_bind; [apply nk_peek_read|]. intros b. apply nk_ret.
  - apply nk_bind; [apply nk_lenprefixed|intros ?; apply nk_ret].
  - apply nk_bind; [apply nk_lenprefixed|intros ?; apply nk_ret].
  - apply nk_bind; [|intros ?; apply nk_ret].
    unfold readArrayWith. apply nk_bind; [apply nk_read_int|]. intros n. apply nk_rep. exact IHt.
  - apply nk_bind; [exact IHt1|]. intros x. apply nk_bind; [exact IHt2|]. intros y. apply nk_ret.
  - apply nk_ret.
Qed.
Lemma nk_expectZeroSize A (p : P A) : nk p -> nk (expectZeroSize p).
Proof.
  intros Hp sz s e sz' s' H. unfold expectZeroSize in H.
  destruct (p sz s) as [[[a|e0] sz1] s1] eqn:E.
  - destruct (sz1 =? 0); inversion H. reflexivity.
  - inversion H; subst. eapply Hp; exact E.
Qed.
Lemma nk_fail A (e : err) : is_kafka e = false -> nk (@fail A e).
Proof. intros He sz s e' sz' s' H. inversion H; subst. exact He. Qed.
Lemma nk_get_sz : nk get_sz.
Proof. intros sz s e sz' s' H. inversion H. Qed.
Lemma nk_discardN n : nk (discardN n).
Proof.
  intros sz s e sz' s' H. unfold discardN in H.
  destruct (n <=? sz).
  - destruct (bufio_discard_spec n s) as [[_ E]|[[_ E]|[_ [_ E]]]]; rewrite E in H; inversion H; reflexivity.
  - destruct (bufio_discard_spec sz s) as [[_ E]|[[_ E]|[_ [_ E]]]]; rewrite E in H; inversion H; reflexivity.
Qed.
Lemma nk_discard_remaining : nk discard_remaining.
Proof. unfold discard_remaining. apply nk_bind; [apply nk_get_sz|]. intros n. apply nk_discardN. Qed.
Ltac nk_step :=
  first [ apply nk_ret | apply nk_fail; reflexivity | apply nk_get_sz | apply nk_read_int
        | apply nk_discardN | apply nk_readNewBytes | apply nk_guard_short
        | apply nk_bind; [|intros ?]
        | match goal with |- nk (if ?b then _ else _) => destruct b end ].
Lemma nk_next_header : nk next_header.
Proof. unfold next_header, readInt8, readInt16, readInt32, readInt64. repeat nk_step. Qed.
Lemma nk_msg_header : nk msg_header.
Proof. unfold msg_header. apply nk_bind; [apply nk_next_header|]. intros m. apply nk_ret. Qed.
Lemma nk_varint_scan : forall s sz shift acc e sz' s',
  varint_scan s sz shift acc = (inr e, sz', s') -> is_kafka e = false.
Proof.
  induction s as [|b t IH]; intros sz shift acc e sz' s' H; cbn [varint_scan] in H;
    destruct (sz <? 0); try (inversion H; reflexivity);
    destruct (sz =? 0); try (inversion H; reflexivity).
  destruct (b <? 128)%N; [inversion H|]. eapply IH; exact H.
Qed.
Lemma nk_readVarInt : nk readVarInt.
Proof.
  intros sz s e sz' s' H. unfold readVarInt in H.
  destruct (varint_scan s sz 0 0) as [[[x|e0] sz0] s0] eqn:E; inversion H; subst.
  eapply nk_varint_scan; exact E.
Qed.
Lemma nk_try_short A (p : P A) : nk p -> nk (try_short p).
Proof.
  intros Hp sz s e sz' s' H. unfold try_short in H.
  destruct (p sz s) as [[[a|e0] sz1] s1] eqn:E; [inversion H|].
  pose proof (Hp _ _ _ _ _ E) as Hk.
  destruct e0; try (inversion H; subst; exact Hk).
  destruct (discardN sz1 sz1 s1) as [[[u|e1] sz2] s2] eqn:Ed; inversion H; subst.
  eapply nk_discardN; exact Ed.
Qed.
Lemma nk_readBytesWith A (cb : Z -> P A) : (forall n, nk (cb n)) -> nk (readBytesWith cb).
Proof.
  intros H. unfold readBytesWith, readArrayLen, readInt32.
  apply nk_bind; [apply nk_read_int|]. intros n. apply nk_bind; [apply nk_guard_short|]. intros _. apply H.
Qed.
Lemma nk_read_one K V (key : Z -> P K) (val : Z -> P V) min m :
  (forall n, nk (key n)) -> (forall n, nk (val n)) -> nk (read_one key val min m).
Proof.
  intros Hk Hv. unfold read_one, read_header, read_v1, read_v2, record_header, readInt8.
  repeat first [ apply Hk | apply Hv | apply nk_next_header | apply nk_readVarInt
               | apply nk_readBytesWith; intros ? | apply nk_rep | nk_step ].
Qed.
Lemma nk_read_key_cb n : nk (read_key_cb n).
Proof. unfold read_key_cb. repeat nk_step. Qed.
Lemma nk_read_val_cb c n : nk (read_val_cb c n).
Proof. unfold read_val_cb. repeat nk_step. Qed.
Lemma nk_run_acts acts : forall m boff outs, nk (run_acts acts m boff outs).
Proof.
  induction acts as [|a rest IH]; intros m boff outs; cbn [run_acts]; [apply nk_ret|].
  destruct (a <? 0).
  - apply nk_bind.
    + apply nk_try_short. apply nk_read_one; intros; apply nk_readNewBytes.
    + intros [[[[m' off] k] v]|]; [apply IH|apply nk_ret].
  - apply nk_bind.
    + apply nk_try_short. apply nk_read_one; intros; [apply nk_read_key_cb|apply nk_read_val_cb].
    + intros [[[[m' off] k] [n b]]|]; [|apply nk_ret].
      destruct (a <? n); [apply nk_ret|apply IH].
Qed.
Lemma nk_op_read a v off : schema_api a = true -> nk (op_read a v off).
Proof.
  intros Hs. destruct a; try discriminate Hs; cbn [op_read];
    apply nk_expectZeroSize; apply nk_read_ty.
Qed.

(* ---- frames ---- *)
Definition fits (body : list N) : Prop := Z.of_nat (length body) + 4 < ZM31.

(* the operation consumed exactly the frame announced by the size prefix at the head of s *)
Definition consumed_frame (s s' : list N) : Prop :=
  exists c, (8 <= length s)%nat /\ s = firstn 8 s ++ c ++ s' /\
            Z.of_nat (length c) = get_bes 4 (firstn 4 s) - 4.

Lemma expectZeroSize_inl A (p : P A) sz s a sz' s' :
  expectZeroSize p sz s = (inl a, sz', s') -> sz' = 0.
Proof.
  unfold expectZeroSize. destruct (p sz s) as [[[x|e] sz1] s1].
  - destruct (Z.eqb_spec sz1 0); intros H; inversion H; subst; auto.
  - intros H; inversion H.
Qed.
Lemma expectZeroSize_inr A (p : P A) sz s e sz' s' :
  expectZeroSize p sz s = (inr e, sz', s') -> is_kafka e = true -> p sz s = (inr e, sz', s').
Proof.
  unfold expectZeroSize. destruct (p sz s) as [[[x|e0] sz1] s1].
  - destruct (Z.eqb_spec sz1 0); intros H; inversion H; subst. discriminate.
  - intros H _; inversion H; reflexivity.
Qed.

Lemma discardN_all_zero sz s u sz' s' : discardN sz sz s = (inl u, sz', s') -> sz' = 0.
Proof.
  unfold discardN. destruct (Z.leb_spec sz sz); [|lia].
  destruct (bufio_discard_spec sz s) as [[_ E]|[[_ E]|[_ [_ E]]]]; rewrite E; intros HH; inversion HH. lia.
Qed.
Lemma discard_remaining_zero sz s u sz' s' : discard_remaining sz s = (inl u, sz', s') -> sz' = 0.
Proof. unfold discard_remaining, bind, get_sz. apply discardN_all_zero. Qed.

Lemma skip_kafka_zero A (p : P A) sz s c sz' s' :
  skipRemainingOnKafkaError p sz s = (inr (EKafka c), sz', s') -> sz' = 0.
Proof.
  unfold skipRemainingOnKafkaError. destruct (p sz s) as [[[a|e] sz1] s1].
  - intros H; inversion H.
  - destruct e; try (intros H; inversion H; fail).
    destruct (discardN sz1 sz1 s1) as [[[u|e] sz2] s2] eqn:Ed.
    + intros H; inversion H; subst. eapply discardN_all_zero; exact Ed.
    + intros H; inversion H; subst. pose proof (nk_discardN _ _ _ _ _ _ Ed) as Hk. discriminate Hk.
Qed.

(* when a reader is done (success, or a Kafka error after which the connection is kept), nothing
   of the frame is left: every such path ends in expectZeroSize or in a discard of the remainder.
   (list-offsets returns early on a partition error without draining, ApiVersions does not check
   the size: both are treated on well-formed responses in ConnOpsCustom.) *)
Lemma zero_on_done a v off sz s r sz' s' :
  op_read a v off sz s = (r, sz', s') -> a <> AApiVersions ->
  match r with inl _ => True | inr (EKafka _) => a <> AListOffsets | _ => False end ->
  sz' = 0.
Proof.
  intros H Ha Hr.
  assert (Hschema : schema_api a = true -> sz' = 0).
  { intros Hs. destruct r as [x|e].
    - destruct a; try discriminate Hs; cbn [op_read] in H; eapply expectZeroSize_inl; exact H.
    - destruct e; try contradiction.
      pose proof (nk_op_read a v off Hs _ _ _ _ _ H) as Hk. discriminate Hk. }
  destruct a; try (apply Hschema; reflexivity); try contradiction; cbn [op_read] in H.
  - (* produce *) destruct r as [x|e]; [eapply expectZeroSize_inl; exact H|].
    destruct e; try contradiction. unfold produce_read in H.
    apply expectZeroSize_inr in H; [|reflexivity]. eapply skip_kafka_zero; exact H.
  - (* fetch *) unfold fetch_read, bind in H.
    destruct (skipRemainingOnKafkaError (fetch_header v) sz s) as [[[h|e0] sz1] s1] eqn:Eh.
    + destruct (snd h =? off).
      * destruct (discard_remaining sz1 s1) as [[[u|e1] sz2] s2] eqn:Ed.
        -- inversion H; subst. eapply discard_remaining_zero; exact Ed.
        -- inversion H; subst. destruct e1; try contradiction.
           pose proof (nk_discard_remaining _ _ _ _ _ Ed) as Hk. discriminate Hk.
      * destruct (msg_header sz1 s1) as [[[m|e1] sz2] s2] eqn:Em.
        -- destruct (discard_remaining sz2 s2) as [[[u|e2] sz3] s3] eqn:Ed.
           ++ inversion H; subst. eapply discard_remaining_zero; exact Ed.
           ++ inversion H; subst. destruct e2; try contradiction.
              pose proof (nk_discard_remaining _ _ _ _ _ Ed) as Hk. discriminate Hk.
        -- inversion H; subst. destruct e1; try contradiction.
           pose proof (nk_msg_header _ _ _ _ _ Em) as Hk. discriminate Hk.
    + inversion H; subst. destruct e0; try contradiction. eapply skip_kafka_zero; exact Eh.
  - (* list-offsets *) destruct r as [x|e]; [eapply expectZeroSize_inl; exact H|].
    destruct e; try contradiction.
  - (* fetch with Read / ReadMessage actions *) unfold fetch_reads, bind in H.
    destruct (skipRemainingOnKafkaError (fetch_header v) sz s) as [[[h|e0] sz1] s1] eqn:Eh.
    + destruct (snd h =? off).
      * destruct (discard_remaining sz1 s1) as [[[u|e1] sz2] s2] eqn:Ed.
        -- destruct acts; inversion H; subst; [eapply discard_remaining_zero; exact Ed|contradiction].
        -- inversion H; subst. destruct e1; try contradiction.
           pose proof (nk_discard_remaining _ _ _ _ _ Ed) as Hk. discriminate Hk.
      * destruct (next_header sz1 s1) as [[[m|e1] sz2] s2] eqn:Em.
        -- destruct (run_acts acts m off [] sz2 s2) as [[[rv|e2] sz3] s3] eqn:Er.
           ++ destruct (discard_remaining sz3 s3) as [[[u|e3] sz4] s4] eqn:Ed.
              ** inversion H; subst. eapply discard_remaining_zero; exact Ed.
              ** inversion H; subst. destruct e3; try contradiction.
                 pose proof (nk_discard_remaining _ _ _ _ _ Ed) as Hk. discriminate Hk.
           ++ inversion H; subst. destruct e2; try contradiction.
              pose proof (nk_run_acts _ _ _ _ _ _ _ _ _ Er) as Hk. discriminate Hk.
        -- inversion H; subst. destruct e1; try contradiction.
           pose proof (nk_next_header _ _ _ _ _ Em) as Hk. discriminate Hk.
    + inversion H; subst. destruct e0; try contradiction. eapply skip_kafka_zero; exact Eh.
Qed.

Lemma op_read_exact a v off size s r sz' s' :
  op_read a v off size s = (r, sz', s') -> a <> AApiVersions ->
  match r with inl _ => True | inr (EKafka _) => a <> AListOffsets | _ => False end ->
  exists c, s = c ++ s' /\ Z.of_nat (length c) = size.
Proof.
  intros H Ha Hr. pose proof (zero_on_done _ _ _ _ _ _ _ _ H Ha Hr) as Hz.
  destruct (good_op_read a v off _ _ _ _ _ H) as (c & Hs & Hb & _).
  assert (Hnt : rtransport r = false) by (destruct r as [x|e]; [reflexivity|destruct e; try contradiction; reflexivity]).
  destruct (Hb Hnt) as [Hsz _]. exists c. split; [exact Hs|lia].
Qed.

Lemma wait_response_inl id s size s1 cl :
  wait_response id s = (inl size, s1, cl) ->
  (8 <= length s)%nat /\ size = get_bes 4 (firstn 4 s) - 4 /\ s1 = skipn 8 s /\ cl = false /\
  (get_bes 4 (firstn 4 (skipn 4 s)) =? id) = true.
Proof.
  unfold wait_response. destruct (Nat.ltb_spec (length s) 8) as [Hl|Hl]; [intros H; inversion H|].
  destruct (get_bes 4 (firstn 4 (skipn 4 s)) =? id) eqn:E; intros H; inversion H; auto.
Qed.
Lemma wait_response_inr id s e s1 cl :
  wait_response id s = (inr e, s1, cl) -> s1 = s /\ ((e = EEOF /\ cl = true) \/ (e = ENoProgress /\ cl = false)).
Proof.
  unfold wait_response. destruct (length s <? 8)%nat; [intros H; inversion H; auto|].
  destruct (_ =? _); intros H; inversion H; auto.
Qed.

Lemma map_err_kafka a e c : map_err a e = EKafka c -> e = EKafka c.
Proof. destruct a, e; cbn; intros H; try discriminate H; exact H. Qed.
Lemma map_err_is_kafka a e : is_kafka (map_err a e) = is_kafka e.
Proof. destruct a, e; reflexivity. Qed.

Lemma conn_do_unfold st o s :
  closed st = false ->
  conn_do st o s =
    let a := op_api o in
    let off := op_offset st o in
    let st1 := mkConn false (wrap32 (corr st + 1)) (cfg_topic st) off in
    match wait_response (wrap32 (corr st + 1)) s with
    | (inr e, s', cl) => (set_closed st1 cl, RErr (map_err a e), s')
    | (inl size, s', _) =>
        match op_read a (op_ver o) off size s' with
        | (inl v, _, s'') => (st1, post (cfg_topic st) a (op_ver o) v, s'')
        | (inr e, _, s'') => (set_closed st1 (negb (is_kafka (map_err a e))), RErr (map_err a e), s'')
        end
    end.
Proof. intros H. unfold conn_do. rewrite H. reflexivity. Qed.

Lemma post_err_kafka topic a v x e : post topic a v x = RErr e -> exists c, e = EKafka c.
Proof.
  unfold post. destruct (post_error topic a v x); [intros H; inversion H; eauto|].
  destruct a; intros H; discriminate H.
Qed.

(* C11, the structural half: whenever an operation returns success or a Kafka error — on ANY
   incoming bytes — it has consumed exactly its own frame (the one announced by the size prefix)
   and the connection is kept.  (ApiVersions / a Kafka error of list-offsets: on well-formed
   responses, ConnOpsCustom.) *)
Theorem frame_exact st o s st' r s' :
  closed st = false -> op_api o <> AApiVersions ->
  conn_do st o s = (st', r, s') ->
  match r with
  | ROk _ => True
  | RErr (EKafka _) => op_api o <> AListOffsets
  | _ => False
  end ->
  consumed_frame s s' /\ closed st' = false.
Proof.
  intros Hcl Ha H Hr. rewrite conn_do_unfold in H by exact Hcl. cbv zeta in H.
  destruct (wait_response (wrap32 (corr st + 1)) s) as [[[size|e] s1] cl] eqn:Ew.
  2:{ inversion H; subst r. apply wait_response_inr in Ew as [_ [[He _]|[He _]]]; subst e;
      destruct (op_api o); cbn in Hr; contradiction. }
  apply wait_response_inl in Ew as (Hlen & Hsize & Hs1 & _ & _).
  set (off := op_offset st o) in *.
  destruct (op_read (op_api o) (op_ver o) off size s1) as [[ra sz1] s2] eqn:Er.
  assert (Hexact : match ra with inl _ => True | inr (EKafka _) => op_api o <> AListOffsets | _ => False end ->
                   consumed_frame s s2).
  { intros Hra. destruct (op_read_exact _ _ _ _ _ _ _ _ Er Ha Hra) as (c & Hc & Hlc).
    exists c. split; [exact Hlen|]. split; [|lia].
    rewrite <- Hc, Hs1. symmetry. apply firstn_skipn. }
  destruct ra as [x|e].
  - inversion H; subst st' s2. split; [apply Hexact; exact I|reflexivity].
  - inversion H; subst st' r s2. destruct (map_err (op_api o) e) eqn:Em; try contradiction.
    apply map_err_kafka in Em. subst e. split; [apply Hexact; exact Hr|].
    reflexivity.
Qed.

Lemma wrap32_in_signed z : in_signed 4 (wrap32 z).
Proof.
  unfold in_signed, wrap32, pow256, ZM31, ZM32. cbn.
  pose proof (Z.mod_pos_bound (z + 2147483648) 4294967296 ltac:(lia)). lia.
Qed.

Lemma wait_response_frame id body rest :
  in_signed 4 id -> fits body ->
  wait_response id (frame id body ++ rest) = (inl (Z.of_nat (length body)), body ++ rest, false).
Proof.
  intros Hid Hfit. unfold fits, ZM31 in Hfit. unfold wait_response, frame.
  set (hs := put_bes 4 (Z.of_nat (length body) + 4)).
  assert (Hhs : length hs = 4%nat) by apply put_bes_length.
  assert (Hhi : length (put_bes 4 id) = 4%nat) by apply put_bes_length.
  rewrite <- !app_assoc.
  destruct (Nat.ltb_spec (length (hs ++ put_bes 4 id ++ body ++ rest)) 8) as [Hx|Hx];
    [rewrite !app_length in Hx; lia|].
  rewrite (firstn_exact hs) by exact Hhs.
  rewrite (skipn_exact hs) by exact Hhs.
  rewrite (firstn_exact (put_bes 4 id)) by exact Hhi.
  unfold hs. rewrite !get_put_bes by (try lia; try exact Hid; unfold in_signed, pow256; cbn; lia).
  rewrite Z.eqb_refl.
  replace (put_bes 4 (Z.of_nat (length body) + 4) ++ put_bes 4 id ++ body ++ rest)
    with ((hs ++ put_bes 4 id) ++ body ++ rest) by (unfold hs; rewrite <- app_assoc; reflexivity).
  rewrite skipn_exact by (rewrite app_length; lia).
  f_equal. f_equal. f_equal. lia.
Qed.

Lemma consumed_frame_frame id body rest s' :
  fits body -> consumed_frame (frame id body ++ rest) s' -> s' = rest.
Proof.
  intros Hfit (c & Hlen & Hs & Hc). unfold fits, ZM31 in Hfit.
  assert (H8 : firstn 8 (frame id body ++ rest) = put_bes 4 (Z.of_nat (length body) + 4) ++ put_bes 4 id).
  { unfold frame. rewrite app_assoc. rewrite <- app_assoc.
    replace (put_bes 4 (Z.of_nat (length body) + 4) ++ (put_bes 4 id ++ body) ++ rest)
      with ((put_bes 4 (Z.of_nat (length body) + 4) ++ put_bes 4 id) ++ body ++ rest)
      by (rewrite <- !app_assoc; reflexivity).
    apply firstn_exact. rewrite app_length, !put_bes_length. reflexivity. }
  assert (H4 : firstn 4 (frame id body ++ rest) = put_bes 4 (Z.of_nat (length body) + 4)).
  { unfold frame. rewrite <- app_assoc. apply firstn_exact. apply put_bes_length. }
  rewrite H4 in Hc. rewrite get_put_bes in Hc by (try lia; unfold in_signed, pow256; cbn; lia).
  rewrite H8 in Hs. unfold frame in Hs. rewrite <- !app_assoc in Hs.
  apply app_inv_head in Hs. apply app_inv_head in Hs.
  assert (Hl : length body = length c) by lia.
  clear - Hl Hs. revert c Hl Hs. induction body as [|b body IH]; intros [|x c] Hl Hs;
    cbn in *; try discriminate; [symmetry; exact Hs|].
  inversion Hs. apply (IH c); [lia|assumption].
Qed.

(* what conn_do does on a well-formed frame of a "read everything, then check" operation *)
Lemma op_read_schema a v off : schema_api a = true ->
  op_read a v off = expectZeroSize (read_ty (resp_ty a v)).
Proof. destruct a; try discriminate; reflexivity. Qed.

Lemma conn_do_schema_frame st a v off w rest :
  schema_api a = true -> wt (resp_ty a v) w -> fits (enc (resp_ty a v) w) -> closed st = false ->
  conn_do st (mkOp a v off) (frame (wrap32 (corr st + 1)) (enc (resp_ty a v) w) ++ rest)
  = (mkConn false (wrap32 (corr st + 1)) (cfg_topic st) (offset st),
     post (cfg_topic st) a v (dec_val (resp_ty a v) w), rest).
Proof.
  intros Hs Hwt Hfit Hcl. rewrite conn_do_unfold by exact Hcl. cbv zeta. cbn [op_api op_ver op_off].
  rewrite wait_response_frame by (try apply wrap32_in_signed; exact Hfit).
  rewrite op_read_schema by exact Hs. unfold expectZeroSize.
  rewrite read_ty_enc by (try exact Hwt; lia). rewrite Z.sub_diag. cbn [Z.eqb].
  destruct a; try discriminate Hs; reflexivity.
Qed.

(* ---- "a Kafka error keeps the connection, any other error closes it" ---- *)
Theorem closed_after_other_error st o s st' e s' :
  conn_do st o s = (st', RErr e, s') ->
  is_kafka e = false -> e <> ENoProgress ->
  closed st' = true.
Proof.
  intros H Hk Hnp. unfold conn_do in H.
  destruct (closed st) eqn:Hcl; [inversion H; subst; reflexivity|].
  destruct (wait_response (wrap32 (corr st + 1)) s) as [[[size|e0] s1] cl] eqn:Ew.
  - destruct (op_read _ _ _ size s1) as [[[x|e1] sz1] s2] eqn:Er.
    + inversion H as [[H1 H2 H3]]. apply post_err_kafka in H2 as [c Hc]. subst e. discriminate Hk.
    + inversion H; subst. cbn. rewrite Hk. reflexivity.
  - apply wait_response_inr in Ew as [_ [[He Hc]|[He Hc]]]; subst e0 cl; inversion H; subst.
    + reflexivity.
    + exfalso. apply Hnp. destruct (op_api o); reflexivity.
Qed.

Theorem closed_stays_closed st o s :
  closed st = true ->
  exists st', conn_do st o s = (st', RErr EClosed, s) /\ closed st' = true.
Proof. intros H. unfold conn_do. rewrite H. eexists. split; reflexivity. Qed.

Theorem closed_run st ops s :
  closed st = true ->
  exists st', conn_run st ops s = (st', map (fun _ => RErr EClosed) ops, s) /\ closed st' = true.
Proof.
  revert st. induction ops as [|o ops IH]; intros st H; cbn [conn_run map].
  - exists st. auto.
  - destruct (closed_stays_closed st o s H) as (st1 & E1 & H1). rewrite E1.
    destruct (IH st1 H1) as (st2 & E2 & H2). rewrite E2. exists st2. auto.
Qed.

(* ---- truncation ---- *)
Lemma transport_not_kafka e : transport e = true -> is_kafka e = false.
Proof. destruct e; cbn; congruence. Qed.
Lemma map_err_transport a e : transport e = true -> transport (map_err a e) = true.
Proof. destruct a, e; cbn; congruence. Qed.

Lemma wait_response_cut id s k size s1 cl :
  wait_response id s = (inl size, s1, cl) -> (8 <= k)%nat ->
  wait_response id (firstn k s) = (inl size, firstn (k - 8) s1, false).
Proof.
  intros H Hk. apply wait_response_inl in H as (Hlen & Hsize & Hs1 & _ & Hid).
  unfold wait_response.
  destruct (Nat.ltb_spec (length (firstn k s)) 8) as [Hx|Hx]; [rewrite firstn_length in Hx; lia|].
  rewrite firstn_firstn. replace (Nat.min 4 k) with 4%nat by lia.
  rewrite skipn_firstn_comm, firstn_firstn. replace (Nat.min 4 (k - 4)) with 4%nat by lia.
  rewrite skipn_firstn_comm. subst s1 size. rewrite Hid. reflexivity.
Qed.

(* C17 (Conn half), structural form, EVERY operation, ANY incoming bytes: cut the stream
   anywhere strictly inside what the complete exchange consumed: the operation fails with
   io.EOF / io.ErrUnexpectedEOF and the Conn closes itself. *)
Theorem conn_do_cut st o s st' r s' k :
  closed st = false ->
  conn_do st o s = (st', r, s') ->
  (k + length s' < length s)%nat ->
  exists e st2 s2,
    conn_do st o (firstn k s) = (st2, RErr e, s2) /\ transport e = true /\ closed st2 = true.
Proof.
  intros Hcl H Hk.
  rewrite conn_do_unfold in H by assumption. rewrite conn_do_unfold by assumption. cbv zeta in *.
  set (off := op_offset st o) in *.
  destruct (wait_response (wrap32 (corr st + 1)) s) as [[[size|e0] s1] cl] eqn:Ew.
  2:{ apply wait_response_inr in Ew as [Hs1 _]. subst s1. inversion H; subst. lia. }
  pose proof Ew as Ew'. apply wait_response_inl in Ew' as (Hlen & _ & Hs1 & _ & _).
  assert (Hs : s = firstn 8 s ++ s1) by (rewrite Hs1; symmetry; apply firstn_skipn).
  assert (H8 : length (firstn 8 s) = 8%nat) by (apply firstn_length_le; exact Hlen).
  destruct (op_read (op_api o) (op_ver o) off size s1) as [[ra sz1] s2] eqn:Er.
  assert (Hs2 : s' = s2) by (destruct ra; inversion H; reflexivity).
  destruct (good_op_read _ _ _ _ _ _ _ _ Er) as (c & Hc & _ & Hd).
  assert (Hlc : (k < 8 + length c)%nat).
  { rewrite Hs, Hc, !app_length, H8 in Hk. subst s2. lia. }
  destruct (Nat.lt_ge_cases k 8) as [Hk8|Hk8].
  - exists (map_err (op_api o) EEOF). unfold wait_response.
    destruct (Nat.ltb_spec (length (firstn k s)) 8) as [Hx|Hx]; [|rewrite firstn_length in Hx; lia].
    eexists. eexists. split; [reflexivity|]. split; [apply map_err_transport|]; reflexivity.
  - rewrite (wait_response_cut _ _ _ _ _ _ Ew Hk8).
    replace (firstn (k - 8) s1) with (firstn (k - 8) c)
      by (rewrite Hc; symmetry; apply firstn_app_lt; lia).
    destruct (Hd (k - 8)%nat ltac:(lia)) as (e & sz2 & s3 & He & Ht).
    rewrite He. exists (map_err (op_api o) e). eexists. eexists. split; [reflexivity|].
    split; [apply map_err_transport; exact Ht|].
    cbn. rewrite map_err_is_kafka, (transport_not_kafka _ Ht). reflexivity.
Qed.

Lemma wait_response_cut_inr id s k e s1 cl :
  wait_response id s = (inr e, s1, cl) -> (8 <= k)%nat ->
  exists s2, wait_response id (firstn k s) = (inr e, s2, cl).
Proof.
  intros H Hk. unfold wait_response in *.
  destruct (Nat.ltb_spec (length s) 8) as [Hl|Hl].
  - rewrite firstn_all2 by lia. destruct (Nat.ltb_spec (length s) 8); [|lia].
    inversion H; subst. eexists. reflexivity.
  - destruct (Nat.ltb_spec (length (firstn k s)) 8) as [Hx|Hx]; [rewrite firstn_length in Hx; lia|].
    rewrite firstn_firstn. replace (Nat.min 4 k) with 4%nat by lia.
    rewrite skipn_firstn_comm, firstn_firstn. replace (Nat.min 4 (k - 4)) with 4%nat by lia.
    destruct (_ =? _); inversion H; subst. eexists. reflexivity.
Qed.

(* a cut at or beyond what the complete exchange consumed changes nothing but the rest *)
Theorem conn_do_cut_beyond st o s st' r s' k :
  closed st = false -> (8 <= k)%nat ->
  conn_do st o s = (st', r, s') ->
  get_bes 4 (firstn 4 s) - 4 <= Z.of_nat (length s) - 8 ->     (* the announced frame is there *)
  (length s <= k + length s')%nat ->
  exists s2, conn_do st o (firstn k s) = (st', r, s2).
Proof.
  intros Hcl Hk8 H Hfull Hk.
  rewrite conn_do_unfold in H by assumption. rewrite conn_do_unfold by assumption. cbv zeta in *.
  set (off := op_offset st o) in *.
  destruct (wait_response (wrap32 (corr st + 1)) s) as [[[size|e0] s1] cl] eqn:Ew.
  2:{ destruct (wait_response_cut_inr _ _ _ _ _ _ Ew Hk8) as (s2 & E2). rewrite E2.
      inversion H; subst. eexists. reflexivity. }
  pose proof Ew as Ew'. apply wait_response_inl in Ew' as (Hlen & _ & Hs1 & _ & _).
  assert (Hs : s = firstn 8 s ++ s1) by (rewrite Hs1; symmetry; apply firstn_skipn).
  assert (H8 : length (firstn 8 s) = 8%nat) by (apply firstn_length_le; exact Hlen).
  destruct (op_read (op_api o) (op_ver o) off size s1) as [[ra sz1] s2] eqn:Er.
  assert (Hs2 : s' = s2) by (destruct ra; inversion H; reflexivity).
  destruct (good_op_read _ _ _ _ _ _ _ _ Er) as (c & Hc & Hb & _).
  assert (Hlc : (8 + length c <= k)%nat).
  { rewrite Hs, Hc, !app_length, H8 in Hk. subst s2. lia. }
  assert (Hnt : rtransport ra = false).
  { pose proof Ew as Ew2. apply wait_response_inl in Ew2 as (_ & Hsize & _ & _ & _).
    refine (proj1 (safe_op_read _ _ _ _ _ _ _ _ Er _)).
    rewrite Hs1, skipn_length. lia. }
  destruct (Hb Hnt) as [_ Hloc].
  rewrite (wait_response_cut _ _ _ _ _ _ Ew Hk8).
  replace (firstn (k - 8) s1) with (c ++ firstn (k - 8 - length c) s2)
    by (rewrite Hc; symmetry; apply firstn_app_ge; lia).
  rewrite Hloc. destruct ra; inversion H; subst; eexists; reflexivity.
Qed.
