(* Proofs/ReaderV2Run.v — C02, L1, stage 1: a fetch response made of uncompressed v2 batches
   (holes and record-less batches included), cut at any legal byte position, is decoded by the
   model's Batch to exactly the wholly contained records at or after the fetch offset. *)
From Coq Require Import List NArith ZArith Bool Lia.
From Coq Require Import ZifyN ZifyNat ZifyBool.
From KV Require Import Lib.Bits Lib.Bytes Lib.Varint Model.MsgSetReader Model.ReaderModel Spec.FetchSpec
  Proofs.ReaderPrim Proofs.ReaderV2.
Import ListNotations.
Open Scope Z_scope.
Set Default Timeout 20.

Section Run.
Variable compress : Z -> list N -> list N.
Variable decomp : Z -> list N -> option (list N).
Hypothesis decomp_law : forall c x, decomp c (compress c x) = Some x.
Variable o : Z.     (* the fetch offset = Conn.offset while the batch is open *)

(* ---------------------------------------------------------------- one call of msr_read *)
Definition erecs (b : pbatch) (rs : list record) : list N := enc_records (pb_base b) (pb_ts b) rs.
Definition payload (b : pbatch) : list N :=
  if pb_codec b =? 0 then erecs b (pb_recs b) else compress (pb_codec b) (erecs b (pb_recs b)).
Definition plen_of (b : pbatch) : Z := blen (payload b).
Definition hdr_of (b : pbatch) : hdr := vhdr b (plen_of b).

(* sizes fit the wire format; a record-less batch carries no payload *)
Definition v2ok (b : pbatch) : Prop :=
  batch_fits b (plen_of b) /\ Forall rec_fits (pb_recs b)
  /\ Forall (fun r => blen (enc_record_body (pb_base b) (pb_ts b) r) < 2 ^ 31) (pb_recs b)
  /\ (pb_codec b <> 0 -> pb_recs b <> []).

Lemma read_header_busy_p fuel ps bse i c h lr el : 0 < c ->
  read_header fuel (stp ps bse i c h lr el) = MOk tt (stp ps bse i c h lr el).
Proof.
  intros Hc. unfold read_header. rewrite top_stp. cbn [f_count].
  replace (0 <? c) with true by lia. reflexivity.
Qed.

Lemma read_header_busy fuel i c h lr el : 0 < c ->
  read_header fuel (st i c h lr el) = MOk tt (st i c h lr el).
Proof. apply (read_header_busy_p fuel [] 0). Qed.

(* nothing to decompress: the batch is not compressed, or a record of it was read already *)
Lemma prepare_noop b f m : f_hdr f = hdr_of b ->
  pb_codec b = 0 \/ f_count f <> Z.of_nat (length (pb_recs b)) ->
  read_v2_prepare decomp f m = MOk tt m.
Proof.
  intros Hh Hc. unfold read_v2_prepare. rewrite Hh. cbv zeta.
  destruct (f_count f =? h_count (hdr_of b)) eqn:E; [|reflexivity].
  destruct Hc as [Hc|Hc].
  - unfold codec_of, hdr_of, vhdr. cbn [h_magic h_attr]. rewrite Hc. reflexivity.
  - exfalso. unfold hdr_of, vhdr in E. cbn [h_count] in E. lia.
Qed.

Lemma msr_read_rec_ok_g fuel mn b r rest ps bse c lr el :
  v2ok b -> In r (pb_recs b) -> 0 < c ->
  pb_codec b = 0 \/ c <> Z.of_nat (length (pb_recs b)) ->
  msr_read decomp fuel mn (stp ps bse (enc_record (pb_base b) (pb_ts b) r ++ rest) c (hdr_of b) lr el)
  = MOk (msg_of r, pb_base b + pb_lod b)
        (mkMsr (unwind (mkFrame rest (len rest) bse (c - 1) (hdr_of b) :: ps)) false
               (lr - len (enc_record (pb_base b) (pb_ts b) r)) el).
Proof.
  intros ((B1 & B2 & B3 & B4 & B5 & B6) & Hfits & Hbody & _) Hin Hc Hprep.
  pose proof (proj1 (Forall_forall _ _) Hfits r Hin) as Hf.
  pose proof (proj1 (Forall_forall _ _) Hbody r Hin) as Hb.
  unfold msr_read. cbn [m_empty stp]. unfold bind at 1. rewrite read_header_busy_p by exact Hc.
  rewrite top_stp. cbn [f_hdr hdr_of vhdr h_magic]. cbn [Z.eqb Pos.eqb orb].
  unfold bind at 1. unfold read_v2. unfold bind at 1. rewrite read_header_busy_p by exact Hc.
  rewrite top_stp. unfold bind at 1. rewrite (prepare_noop b) by (try exact Hprep; reflexivity).
  unfold hdr_of, vhdr.
  rewrite record_ok_g by assumption.
  unfold msg_fields, ret, msg_of. reflexivity.
Qed.

Lemma msr_read_rec_ok fuel mn b r rest c lr el :
  v2ok b -> pb_codec b = 0 -> In r (pb_recs b) -> 0 < c ->
  msr_read decomp fuel mn (st (enc_record (pb_base b) (pb_ts b) r ++ rest) c (hdr_of b) lr el)
  = MOk (msg_of r, pb_base b + pb_lod b)
        (st rest (c - 1) (hdr_of b) (lr - len (enc_record (pb_base b) (pb_ts b) r)) el).
Proof.
  intros Hok Hc0 Hin Hc. apply (msr_read_rec_ok_g fuel mn b r rest [] 0 c lr el Hok Hin Hc). left. exact Hc0.
Qed.

Lemma msr_read_rec_short fuel mn b r q q' c lr el :
  v2ok b -> pb_codec b = 0 -> In r (pb_recs b) -> 0 < c ->
  enc_record (pb_base b) (pb_ts b) r = q ++ q' -> q' <> [] ->
  exists i', msr_read decomp fuel mn (st q c (hdr_of b) lr el) = MErr EShort (st i' c (hdr_of b) lr el).
Proof.
  intros ((B1 & B2 & B3 & B4 & B5 & B6) & Hfits & Hbody & _) Hc0 Hin Hc He Hq.
  pose proof (proj1 (Forall_forall _ _) Hfits r Hin) as Hf.
  pose proof (proj1 (Forall_forall _ _) Hbody r Hin) as Hb.
  destruct (record_short (pb_base b) (pb_ts b) (pb_lod b) (49 + plen_of b) (pb_codec b)
              (Z.of_nat (length (pb_recs b))) r q q' c lr el Hf B1 B5 Hb He Hq) as [i' Hi'].
  exists i'.
  unfold msr_read. cbn [m_empty st]. unfold bind at 1. rewrite read_header_busy by exact Hc.
  rewrite top_st. cbn [f_hdr hdr_of vhdr h_magic]. cbn [Z.eqb Pos.eqb orb].
  unfold bind at 1. unfold read_v2. unfold bind at 1. rewrite read_header_busy by exact Hc.
  rewrite top_st. unfold bind at 1. rewrite (prepare_noop b) by (try (left; exact Hc0); reflexivity).
  unfold hdr_of, vhdr in *. cbv zeta in Hi'. rewrite Hi'. reflexivity.
Qed.

(* a compressed batch whose header was read: the payload is decompressed as a whole and the
   first record comes out of it, or the payload is cut and nothing does *)
Lemma land7 c : 1 <= c <= 4 -> Z.land c 7 = c.
Proof. intros H. assert (c = 1 \/ c = 2 \/ c = 3 \/ c = 4) as [-> | [-> | [-> | ->]]] by lia; reflexivity. Qed.

Lemma wrap32_small z : - 2 ^ 31 <= z < 2 ^ 31 -> wrap32 z = z.
Proof. intros H. unfold wrap32, ZM31, ZM32. rewrite Z.mod_small; lia. Qed.

Lemma msr_read_enter_comp fuel mn b r rs' R lr el :
  v2ok b -> pb_codec b <> 0 -> pb_recs b = r :: rs' ->
  msr_read decomp fuel mn (st (payload b ++ R) (Z.of_nat (length (pb_recs b))) (hdr_of b) lr el)
  = MOk (msg_of r, pb_base b + pb_lod b)
        (mkMsr (unwind (mkFrame (erecs b rs') (len (erecs b rs')) (-1) (Z.of_nat (length (pb_recs b)) - 1) (hdr_of b)
                        :: [mkFrame R (len R) 0 0 (hdr_of b)])) false
               (len (erecs b rs')) el).
Proof.
  intros Hok Hc0 Hrecs. pose proof Hok as ((B1 & B2 & B3 & B4 & B5 & B6) & Hfits & Hbody & _).
  assert (Hn : 0 < Z.of_nat (length (pb_recs b))) by (rewrite Hrecs; cbn [length]; lia).
  assert (Hin : In r (pb_recs b)) by (rewrite Hrecs; left; reflexivity).
  pose proof (proj1 (Forall_forall _ _) Hfits r Hin) as Hf.
  pose proof (proj1 (Forall_forall _ _) Hbody r Hin) as Hb.
  unfold msr_read. cbn [m_empty st]. unfold bind at 1. rewrite read_header_busy by exact Hn.
  rewrite top_st. cbn [f_hdr hdr_of vhdr h_magic]. cbn [Z.eqb Pos.eqb orb].
  unfold bind at 1. unfold read_v2. unfold bind at 1. rewrite read_header_busy by exact Hn.
  rewrite top_st. unfold bind at 1.
  (* the preparation: decompress and push *)
  assert (Hprep : read_v2_prepare decomp
             (mkFrame (payload b ++ R) (len (payload b ++ R)) 0 (Z.of_nat (length (pb_recs b))) (hdr_of b))
             (st (payload b ++ R) (Z.of_nat (length (pb_recs b))) (hdr_of b) lr el)
           = MOk tt (stp [mkFrame R (len R) 0 0 (hdr_of b)] (-1) (erecs b (pb_recs b))
                         (Z.of_nat (length (pb_recs b))) (hdr_of b) (len (erecs b (pb_recs b))) el)).
  { unfold read_v2_prepare. cbv zeta. cbn [f_count f_hdr f_remain].
    unfold hdr_of at 1, vhdr at 1. cbn [h_count]. rewrite Z.eqb_refl.
    unfold bind at 1. unfold codec_of, hdr_of, vhdr. cbn [h_magic h_attr h_length]. cbn [Z.eqb Pos.eqb orb].
    rewrite land7 by lia. replace (pb_codec b =? 0) with false by lia.
    replace ((1 <=? pb_codec b) && (pb_codec b <=? 4)) with true by lia. unfold ret at 1.
    replace (49 + plen_of b - 49) with (plen_of b) by lia.
    rewrite wrap32_small by lia.
    rewrite len_app. pose proof (len_nonneg R).
    replace (len (payload b) + len R <? plen_of b) with false by (unfold plen_of, blen, len in *; lia).
    replace (plen_of b <? 0) with false by lia.
    unfold bind at 1. unfold lift at 1. cbn [m_stack st f_in f_remain]. unfold p_decompress.
    replace (plen_of b <? 0) with false by lia. rewrite len_app.
    replace (len (payload b) + len R <? plen_of b) with false by (unfold plen_of, blen, len in *; lia).
    change (plen_of b) with (len (payload b)). rewrite ztake_app, zdrop_app.
    unfold payload at 1. replace (pb_codec b =? 0) with false by lia. rewrite decomp_law.
    unfold bind at 1, set_lrem. cbn [m_stack m_empty m_elast set_stack set_rd fst snd f_base f_count f_hdr f_in f_remain].
    unfold st, set_stack, set_rd, stp. cbn [m_stack m_empty m_lrem m_elast fst snd f_in f_remain f_base f_count f_hdr].
    repeat f_equal; lia. }
  fold (vhdr b (plen_of b)). fold (hdr_of b). rewrite Hprep. clear Hprep.
  assert (He : erecs b (pb_recs b) = enc_record (pb_base b) (pb_ts b) r ++ erecs b rs')
    by (rewrite Hrecs; reflexivity).
  rewrite He.
  unfold hdr_of, vhdr.
  rewrite record_ok_g; try assumption; try lia.
  rewrite len_app.
  replace (len (enc_record (pb_base b) (pb_ts b) r) + len (erecs b rs') - len (enc_record (pb_base b) (pb_ts b) r))
    with (len (erecs b rs')) by lia.
  unfold msg_fields, ret, msg_of. reflexivity.
Qed.

Lemma msr_read_enter_short fuel mn b q c lr el :
  v2ok b -> pb_codec b <> 0 -> c = Z.of_nat (length (pb_recs b)) -> len q < plen_of b ->
  msr_read decomp fuel mn (st q c (hdr_of b) lr el) = MErr EShort (st q c (hdr_of b) lr el).
Proof.
  intros Hok Hc0 -> Hq. pose proof Hok as ((B1 & B2 & B3 & B4 & B5 & B6) & _ & _ & Hne).
  assert (Hn : 0 < Z.of_nat (length (pb_recs b))).
  { specialize (Hne Hc0). destruct (pb_recs b); [contradiction|cbn [length]; lia]. }
  unfold msr_read. cbn [m_empty st]. unfold bind at 1. rewrite read_header_busy by exact Hn.
  rewrite top_st. cbn [f_hdr hdr_of vhdr h_magic]. cbn [Z.eqb Pos.eqb orb].
  unfold bind at 1. unfold read_v2. unfold bind at 1. rewrite read_header_busy by exact Hn.
  rewrite top_st. unfold bind at 1.
  unfold read_v2_prepare. cbv zeta. unfold hdr_of, vhdr. cbn [f_count f_hdr f_remain h_count]. rewrite Z.eqb_refl.
  unfold bind at 1. unfold codec_of. cbn [h_magic h_attr h_length]. cbn [Z.eqb Pos.eqb orb].
  rewrite land7 by lia. replace (pb_codec b =? 0) with false by lia.
  replace ((1 <=? pb_codec b) && (pb_codec b <=? 4)) with true by lia. unfold ret at 1.
  replace (49 + plen_of b - 49) with (plen_of b) by lia. rewrite wrap32_small by lia.
  replace (len q <? plen_of b) with true by lia. reflexivity.
Qed.

(* ---------------------------------------------------------------- streams cut at a byte budget *)
Lemma ztake_app_ge j a b : len a <= j -> ztake j (a ++ b) = a ++ ztake (j - len a) b.
Proof.
  intros H. unfold ztake, len in *. rewrite firstn_app.
  rewrite firstn_all2 by lia. f_equal. f_equal. lia.
Qed.

Lemma ztake_app_lt j a b : 0 <= j < len a ->
  ztake j (a ++ b) = ztake j a /\ a = ztake j a ++ zdrop j a /\ zdrop j a <> [].
Proof.
  intros H. unfold ztake, zdrop, len in *. split; [|split].
  - rewrite firstn_app. replace (Z.to_nat j - length a)%nat with O by lia. cbn. apply app_nil_r.
  - symmetry. apply firstn_skipn.
  - intros Hn. apply (f_equal (@length N)) in Hn. rewrite skipn_length in Hn. cbn in Hn. lia.
Qed.

(* ---------------------------------------------------------------- the encoding of a response *)
Definition enc1 (b : pbatch) : list N := hdr61 b (plen_of b) ++ payload b.
Definition encs (bs : list pbatch) : list N := flat_map enc1 bs.

Lemma enc1_eq b : pb_fmt b = 2 -> enc_batch compress b = enc1 b.
Proof.
  intros Hf. unfold enc_batch, enc_v2, enc1, hdr61, plen_of, payload, erecs. rewrite Hf. cbn [Z.eqb Pos.eqb].
  rewrite <- !app_assoc. reflexivity.
Qed.

(* ---------------------------------------------------------------- the abstract reader *)
(* MPlain: records read from the response itself; MPending: the header of a compressed batch was
   read, its payload not yet; MInside: records read from the decompressed payload *)
Inductive amode := MPlain | MPending | MInside.

(* position: inside batch b with records rs left, then the batches bs.  MPlain: j bytes of
   erecs b rs ++ encs bs are present; MPending: j bytes of payload b ++ encs bs; MInside: the
   records are all there and j - len (erecs b rs) bytes of encs bs *)
Record apos := mkPos {
  a_b : pbatch; a_rs : list record; a_bs : list pbatch; a_j : Z;
  a_hdr : hdr;        (* the header in the frame (that of b while records are left) *)
  a_off : Z; a_last : Z; a_el : Z; a_mode : amode;
  a_lr : Z            (* lengthRemain at a batch boundary (0 after a v2 batch, 1 after a v0/v1 message) *)
}.

Definition eoff0 (off last el : Z) : Z :=
  let lo := if el <? last then last else el in if off <=? lo then lo + 1 else off.
Definition eoff_in (off el : Z) : Z := if off <=? el then el + 1 else off.

Inductive astep := ARec (r : record) (p : apos) | AEnd (f : Z).

Definition rec_step (md : amode) (b : pbatch) (r : record) (rs' : list record) (bs : list pbatch) (j : Z) (off el : Z) : astep :=
  let L := len (enc_record (pb_base b) (pb_ts b) r) in
  if j <? L then AEnd (eoff_in off el)
  else
    let lo := pb_base b + pb_lod b in
    let off1 := if off <=? r_off r then r_off r + 1 else off in
    let off' := if (len (erecs b rs') =? 0) && (off1 <=? lo) then lo + 1 else off1 in
    ARec r (mkPos b rs' bs (j - L) (hdr_of b) off' lo el md 0).

(* a compressed batch whose header was read, j bytes of payload b ++ encs bs present *)
Definition cstep (b : pbatch) (r : record) (rs' : list record) (bs : list pbatch) (j : Z) (off el : Z) : astep :=
  if j <? plen_of b then AEnd (eoff_in off el)
  else rec_step MInside b r rs' bs (j - plen_of b + len (erecs b (r :: rs'))) off el.

Fixpoint bstep (bs : list pbatch) (j off last el : Z) {struct bs} : astep :=
  match bs with
  | [] => AEnd (eoff0 off last el)
  | b :: bs' =>
    if j <? 61 then AEnd (eoff0 off last el)
    else match pb_recs b with
         | [] => bstep bs' (j - 61) off last (pb_base b + pb_lod b)
         | r :: rs' => if pb_codec b =? 0 then rec_step MPlain b r rs' bs' (j - 61) off el
                       else cstep b r rs' bs' (j - 61) off el
         end
  end.

Definition step1 (p : apos) : astep :=
  match a_rs p with
  | r :: rs' =>
    match a_mode p with
    | MPending => cstep (a_b p) r rs' (a_bs p) (a_j p) (a_off p) (a_el p)
    | md => rec_step md (a_b p) r rs' (a_bs p) (a_j p) (a_off p) (a_el p)
    end
  | [] => bstep (a_bs p) (a_j p) (a_off p) (a_last p) (a_el p)
  end.

(* the concrete messageSetReader at an abstract position *)
Definition concm (p : apos) : msr :=
  match a_mode p, a_rs p with
  | MInside, _ :: _ =>
    let P := ztake (a_j p - len (erecs (a_b p) (a_rs p))) (encs (a_bs p)) in
    stp [mkFrame P (len P) 0 0 (hdr_of (a_b p))] (-1) (erecs (a_b p) (a_rs p))
        (Z.of_nat (length (a_rs p))) (hdr_of (a_b p)) (len (erecs (a_b p) (a_rs p))) (a_el p)
  | MPending, _ :: _ =>
    st (ztake (a_j p) (payload (a_b p) ++ encs (a_bs p)))
       (Z.of_nat (length (a_rs p))) (hdr_of (a_b p)) (plen_of (a_b p)) (a_el p)
  | _, _ =>
    st (ztake (a_j p) (erecs (a_b p) (a_rs p) ++ encs (a_bs p)))
       (Z.of_nat (length (a_rs p))) (a_hdr p)
       (match a_rs p with [] => a_lr p | _ => len (erecs (a_b p) (a_rs p)) end) (a_el p)
  end.

Definition conc (p : apos) : batch :=
  mkBatch (Some (concm p)) true o (a_off p) (a_last p) None false.

Definition pos_ok (p : apos) : Prop :=
  0 <= a_j p /\ Forall v2ok (a_bs p)
  /\ (a_rs p = [] -> a_lr p = 0 \/ a_last p <= a_el p)
  /\ (a_rs p <> [] ->
      v2ok (a_b p) /\ a_hdr p = hdr_of (a_b p) /\ incl (a_rs p) (pb_recs (a_b p))
      /\ match a_mode p with
         | MPlain => pb_codec (a_b p) = 0
         | MPending => pb_codec (a_b p) <> 0 /\ a_rs p = pb_recs (a_b p)
         | MInside => pb_codec (a_b p) <> 0 /\ (length (a_rs p) < length (pb_recs (a_b p)))%nat
                      /\ len (erecs (a_b p) (a_rs p)) <= a_j p
         end).

Definition tokens (rs : list record) (bs : list pbatch) : nat :=
  (length rs + fold_right (fun b n => S (length (pb_recs b)) + n) O bs)%nat.

Definition BSt (m : msr) (off last : Z) : batch := mkBatch (Some m) true o off last None false.

Lemma b1_of_ok fuel m off last g lo m' :
  msr_read decomp fuel off m = MOk (g, lo) m' ->
  batch_read1 decomp fuel (BSt m off last)
  = BMsg g (BSt m' (let off1 := if off <=? g_off g then g_off g + 1 else off in
                    if (m_lrem m' =? 0) && (off1 <=? lo) then lo + 1 else off1) lo).
Proof. intros H. unfold batch_read1, BSt. cbn [b_err b_msgs b_off]. rewrite H. reflexivity. Qed.

Lemma discard_st i c h lr el : msr_discard (st i c h lr el) = None.
Proof.
  unfold msr_discard, st. cbn [m_empty m_stack root f_remain f_in]. unfold p_discard.
  pose proof (len_nonneg i). replace (len i <=? len i) with true by lia.
  replace (len i <? 0) with false by lia. replace (len i <? len i) with false by lia. reflexivity.
Qed.

Lemma b1_of_short fuel i c h lr el off last i' c' h' lr' el' :
  msr_read decomp fuel off (st i c h lr el) = MErr EShort (st i' c' h' lr' el') ->
  exists b', batch_read1 decomp fuel (BSt (st i c h lr el) off last) = BErr EEOF b'
             /\ b_off b' = (let lo := if (lr' =? 0) && (el' <? last) then last else el' in
                            if off <=? lo then lo + 1 else off).
Proof.
  intros H. unfold batch_read1, BSt. cbn [b_err b_msgs b_off b_late b_last]. rewrite H.
  rewrite discard_st. cbn [negb andb m_lrem m_elast st]. eexists. split; [reflexivity|].
  cbn [set_b b_off]. reflexivity.
Qed.

Lemma erecs_cons b r rs : erecs b (r :: rs) = enc_record (pb_base b) (pb_ts b) r ++ erecs b rs.
Proof. reflexivity. Qed.

Lemma enc_record_nonempty base ts r : 0 < len (enc_record base ts r).
Proof.
  unfold enc_record. cbv zeta. rewrite len_app.
  pose proof (len_pos _ (put_varint_nonempty (blen (enc_record_body base ts r)))).
  pose proof (len_nonneg (enc_record_body base ts r)). lia.
Qed.

(* inside an uncompressed batch *)
Lemma b1_in fuel b r rs' bs j off last el :
  v2ok b -> pb_codec b = 0 -> incl (r :: rs') (pb_recs b) -> 0 <= j ->
  match rec_step MPlain b r rs' bs j off el with
  | ARec r0 p' =>
    batch_read1 decomp fuel
      (BSt (st (ztake j (erecs b (r :: rs') ++ encs bs)) (Z.of_nat (S (length rs'))) (hdr_of b)
               (len (erecs b (r :: rs'))) el) off last) = BMsg (msg_of r0) (conc p')
  | AEnd f =>
    exists b', batch_read1 decomp fuel
      (BSt (st (ztake j (erecs b (r :: rs') ++ encs bs)) (Z.of_nat (S (length rs'))) (hdr_of b)
               (len (erecs b (r :: rs'))) el) off last) = BErr EEOF b' /\ b_off b' = f
  end.
Proof.
  intros Hok Hc0 Hincl Hj. unfold rec_step. cbv zeta.
  assert (Hin : In r (pb_recs b)) by (apply Hincl; left; reflexivity).
  set (E := enc_record (pb_base b) (pb_ts b) r).
  pose proof (enc_record_nonempty (pb_base b) (pb_ts b) r) as HE. fold E in HE.
  rewrite erecs_cons. fold E. rewrite <- app_assoc.
  destruct (j <? len E) eqn:Ej.
  - destruct (ztake_app_lt j E (erecs b rs' ++ encs bs)) as (H1 & H2 & H3); [lia|].
    rewrite H1.
    destruct (msr_read_rec_short fuel off b r (ztake j E) (zdrop j E) (Z.of_nat (S (length rs')))
                (len (E ++ erecs b rs')) el Hok Hc0 Hin ltac:(lia) H2 H3) as [i' Hi'].
    destruct (b1_of_short fuel _ _ _ _ _ off last _ _ _ _ _ Hi') as (b' & Hb1 & Hb2).
    exists b'. split; [exact Hb1|]. rewrite Hb2. unfold eoff_in.
    rewrite len_app. pose proof (len_nonneg (erecs b rs')).
    replace (len E + len (erecs b rs') =? 0) with false by lia. reflexivity.
  - rewrite ztake_app_ge by lia.
    pose proof (msr_read_rec_ok fuel off b r (ztake (j - len E) (erecs b rs' ++ encs bs))
                  (Z.of_nat (S (length rs'))) (len (E ++ erecs b rs')) el Hok Hc0 Hin ltac:(lia)) as Hm.
    fold E in Hm. rewrite (b1_of_ok fuel _ off last _ _ _ Hm).
    unfold conc, concm, BSt. cbn [a_j a_b a_rs a_bs a_hdr a_el a_off a_last a_mode a_lr m_lrem st g_off msg_of].
    rewrite len_app. replace (len E + len (erecs b rs') - len E) with (len (erecs b rs')) by lia.
    replace (Z.of_nat (S (length rs')) - 1) with (Z.of_nat (length rs')) by lia.
    destruct rs'; reflexivity.
Qed.

(* the state a decompressed record set is read from, and what it becomes after a record *)
Definition inside_m (b : pbatch) (rs : list record) (bs : list pbatch) (j el : Z) : msr :=
  let P := ztake (j - len (erecs b rs)) (encs bs) in
  stp [mkFrame P (len P) 0 0 (hdr_of b)] (-1) (erecs b rs) (Z.of_nat (length rs)) (hdr_of b) (len (erecs b rs)) el.

Lemma after_inside b r rs' bs j off' lo el :
  let E := enc_record (pb_base b) (pb_ts b) r in
  let P := ztake (j - (len E + len (erecs b rs'))) (encs bs) in
  mkMsr (unwind (mkFrame (erecs b rs') (len (erecs b rs')) (-1) (Z.of_nat (length (r :: rs')) - 1) (hdr_of b)
                 :: [mkFrame P (len P) 0 0 (hdr_of b)])) false (len (erecs b rs')) el
  = concm (mkPos b rs' bs (j - len E) (hdr_of b) off' lo el MInside 0).
Proof.
  intros E P. unfold concm. cbn [a_mode a_rs a_b a_bs a_j a_hdr a_el a_lr].
  replace (Z.of_nat (length (r :: rs')) - 1) with (Z.of_nat (length rs')) by (cbn [length]; lia).
  destruct rs' as [|r2 t].
  - change (erecs b []) with (@nil N) in *. change (len []) with 0 in *.
    cbn [length Z.of_nat unwind f_count f_remain Z.eqb andb app].
    unfold st. subst P. replace (j - (len E + 0)) with (j - len E) by lia. reflexivity.
  - cbn [unwind f_count f_remain]. replace (Z.of_nat (length (r2 :: t)) =? 0) with false by (cbn [length]; lia).
    cbn [andb]. unfold stp. subst P.
    replace (j - len E - len (erecs b (r2 :: t))) with (j - (len E + len (erecs b (r2 :: t)))) by lia. reflexivity.
Qed.

(* inside a decompressed record set: never truncated *)
Lemma b1_inside fuel b r rs' bs j off last el :
  v2ok b -> pb_codec b <> 0 -> incl (r :: rs') (pb_recs b) ->
  (length (r :: rs') < length (pb_recs b))%nat -> len (erecs b (r :: rs')) <= j ->
  match rec_step MInside b r rs' bs j off el with
  | ARec r0 p' => batch_read1 decomp fuel (BSt (inside_m b (r :: rs') bs j el) off last) = BMsg (msg_of r0) (conc p')
  | AEnd f => False
  end.
Proof.
  intros Hok Hc0 Hincl Hlen Hj. unfold rec_step. cbv zeta.
  assert (Hin : In r (pb_recs b)) by (apply Hincl; left; reflexivity).
  set (E := enc_record (pb_base b) (pb_ts b) r).
  pose proof (len_nonneg (erecs b rs')) as Hn. rewrite erecs_cons, len_app in Hj. fold E in Hj.
  replace (j <? len E) with false by lia.
  unfold inside_m. cbv zeta. rewrite erecs_cons. fold E.
  pose proof (msr_read_rec_ok_g fuel off b r (erecs b rs')
                [mkFrame (ztake (j - len (E ++ erecs b rs')) (encs bs)) (len (ztake (j - len (E ++ erecs b rs')) (encs bs))) 0 0 (hdr_of b)]
                (-1) (Z.of_nat (length (r :: rs'))) (len (E ++ erecs b rs')) el Hok Hin
                ltac:(cbn [length]; lia) ltac:(right; lia)) as Hm.
  fold E in Hm. rewrite (b1_of_ok fuel _ off last _ _ _ Hm).
  unfold conc, BSt. cbn [a_off a_last g_off msg_of m_lrem].
  rewrite len_app. replace (len E + len (erecs b rs') - len E) with (len (erecs b rs')) by lia.
  f_equal. f_equal. f_equal. apply after_inside.
Qed.

(* a compressed batch whose header was read *)
Lemma b1_pending fuel b r rs' bs j off last el :
  v2ok b -> pb_codec b <> 0 -> pb_recs b = r :: rs' -> 0 <= j ->
  match cstep b r rs' bs j off el with
  | ARec r0 p' =>
    batch_read1 decomp fuel
      (BSt (st (ztake j (payload b ++ encs bs)) (Z.of_nat (length (pb_recs b))) (hdr_of b) (plen_of b) el) off last)
    = BMsg (msg_of r0) (conc p')
  | AEnd f =>
    exists b', batch_read1 decomp fuel
      (BSt (st (ztake j (payload b ++ encs bs)) (Z.of_nat (length (pb_recs b))) (hdr_of b) (plen_of b) el) off last)
      = BErr EEOF b' /\ b_off b' = f
  end.
Proof.
  intros Hok Hc0 Hrecs Hj. unfold cstep.
  pose proof Hok as ((B1 & B2 & B3 & B4 & B5 & B6) & _).
  destruct (j <? plen_of b) eqn:Ej.
  - assert (Hq : len (ztake j (payload b ++ encs bs)) < plen_of b).
    { unfold ztake, len. rewrite firstn_length. lia. }
    pose proof (msr_read_enter_short fuel off b _ _ (plen_of b) el Hok Hc0 eq_refl Hq) as Hm.
    destruct (b1_of_short fuel _ _ _ _ _ off last _ _ _ _ _ Hm) as (b' & Hb1 & Hb2).
    exists b'. split; [exact Hb1|]. rewrite Hb2. unfold eoff_in.
    replace (plen_of b =? 0) with false by lia. reflexivity.
  - change (plen_of b) with (len (payload b)) in Ej |- * at 1.
    rewrite ztake_app_ge by (unfold plen_of, blen, len in *; lia).
    pose proof (msr_read_enter_comp fuel off b r rs' (ztake (j - len (payload b)) (encs bs)) (plen_of b) el Hok Hc0 Hrecs) as Hm.
    unfold rec_step. cbv zeta.
    set (E := enc_record (pb_base b) (pb_ts b) r).
    pose proof (len_nonneg (erecs b rs')) as Hn.
    match goal with |- context [if ?c then AEnd _ else ARec _ _] => assert (Hcnd : c = false) end.
    { apply Z.ltb_ge. rewrite erecs_cons, len_app. fold E. unfold plen_of, blen, len in *. lia. }
    rewrite Hcnd. rewrite erecs_cons, len_app. fold E.
    rewrite (b1_of_ok fuel _ off last _ _ _ Hm).
    unfold conc, BSt. cbn [a_off a_last g_off msg_of m_lrem].
    f_equal. f_equal. f_equal.
    rewrite Hrecs.
    etransitivity; [|apply (after_inside b r rs' bs (j - plen_of b + (len E + len (erecs b rs'))))].
    cbv zeta. fold E.
    replace (j - plen_of b + (len E + len (erecs b rs')) - (len E + len (erecs b rs'))) with (j - len (payload b))
      by (unfold plen_of, blen, len; lia).
    reflexivity.
Qed.

Lemma loop_step_ok f b R c hdr lr el :
  batch_fits b (plen_of b) ->
  read_header_loop (S f) (st (hdr61 b (plen_of b) ++ R) c hdr lr el)
  = if Z.of_nat (length (pb_recs b)) =? 0
    then read_header_loop f (st R 0 (hdr_of b) (plen_of b) (pb_base b + pb_lod b))
    else MOk tt (st R (Z.of_nat (length (pb_recs b))) (hdr_of b) (plen_of b) el).
Proof.
  intros Hfit. cbn [read_header_loop]. unfold bind at 1. rewrite (header_ok b (plen_of b) R c hdr lr el Hfit).
  rewrite top_st. cbn [f_hdr f_count vhdr h_magic]. cbn [Z.eqb Pos.eqb negb orb].
  destruct (Z.of_nat (length (pb_recs b)) =? 0) eqn:E; cbn [negb]; [|reflexivity].
  apply Z.eqb_eq in E. rewrite E. reflexivity.
Qed.

Lemma loop_step_short f b q q' c hdr lr el :
  batch_fits b (plen_of b) -> hdr61 b (plen_of b) = q ++ q' -> q' <> [] ->
  exists i', read_header_loop (S f) (st q c hdr lr el) = MErr EShort (st i' c hdr lr el).
Proof.
  intros Hfit He Hq. destruct (header_short b (plen_of b) q q' c hdr lr el Hfit He Hq) as [i' Hi'].
  exists i'. cbn [read_header_loop]. unfold bind at 1. rewrite Hi'. reflexivity.
Qed.

Lemma tokens_cons_rec r rs bs : tokens (r :: rs) bs = S (tokens rs bs).
Proof. reflexivity. Qed.
Lemma tokens_cons_batch b bs : tokens [] (b :: bs) = S (tokens (pb_recs b) bs).
Proof. unfold tokens. cbn [length fold_right]. lia. Qed.

(* at a batch boundary: skip record-less batches, land on the first batch with records *)
Lemma loop_bnd : forall bs j hdr lr el fuel,
  Forall v2ok bs -> 0 <= j -> (length bs < fuel)%nat ->
  (exists i' hdr' lr' el',
      read_header_loop fuel (st (ztake j (encs bs)) 0 hdr lr el) = MErr EShort (st i' 0 hdr' lr' el')
      /\ (lr' = 0 \/ (lr' = lr /\ el' = el))
      /\ forall off last, bstep bs j off last el = AEnd (eoff0 off last el'))
  \/ (exists b r rs' bs' j' el',
      v2ok b /\ pb_recs b = r :: rs' /\ 0 <= j' /\ Forall v2ok bs'
      /\ read_header_loop fuel (st (ztake j (encs bs)) 0 hdr lr el)
         = MOk tt (st (ztake j' (payload b ++ encs bs')) (Z.of_nat (length (pb_recs b))) (hdr_of b)
                      (plen_of b) el')
      /\ (forall off last, bstep bs j off last el
            = if pb_codec b =? 0 then rec_step MPlain b r rs' bs' j' off el' else cstep b r rs' bs' j' off el')
      /\ (S (tokens (r :: rs') bs') <= tokens [] bs)%nat /\ (length bs' < length bs)%nat).
Proof.
  induction bs as [|b bs' IH]; intros j hdr lr el fuel Hok Hj Hfuel.
  - left. destruct fuel as [|f]; [cbn in Hfuel; lia|].
    exists [], hdr, lr, el. split; [|split; [right; auto|reflexivity]].
    cbn [encs flat_map]. unfold ztake. rewrite firstn_nil. reflexivity.
  - destruct fuel as [|f]; [cbn in Hfuel; lia|]. cbn [length] in Hfuel.
    apply Forall_cons_iff in Hok as [Hb Hbs'].
    pose proof Hb as (Hfit & Hrf & Hrb & Hne).
    cbn [encs flat_map]. fold (encs bs'). unfold enc1. rewrite <- app_assoc.
    pose proof (hdr61_len b (plen_of b)) as H61.
    cbn [bstep].
    destruct (j <? 61) eqn:Ej.
    + left.
      destruct (ztake_app_lt j (hdr61 b (plen_of b)) (payload b ++ encs bs')) as (H1 & H2 & H3); [lia|].
      rewrite H1.
      destruct (loop_step_short f b _ _ 0 hdr lr el Hfit H2 H3) as [i' Hi'].
      exists i', hdr, lr, el. split; [exact Hi'|split; [right; auto|reflexivity]].
    + rewrite ztake_app_ge by lia. rewrite H61.
      rewrite (loop_step_ok f b _ 0 hdr lr el Hfit).
      destruct (pb_recs b) as [|r rs'] eqn:Erecs.
      * change (Z.of_nat (length (@nil record)) =? 0) with true. cbv iota.
        assert (Hc0 : pb_codec b = 0).
        { destruct (Z.eq_dec (pb_codec b) 0) as [E|E]; [exact E|]. exfalso. apply (Hne E). reflexivity. }
        assert (Hpl : payload b = []) by (unfold payload, erecs; rewrite Hc0, Erecs; reflexivity).
        assert (Hp : plen_of b = 0) by (unfold plen_of; rewrite Hpl; reflexivity).
        rewrite Hp, Hpl. cbn [app].
        destruct (IH (j - 61) (hdr_of b) 0 (pb_base b + pb_lod b) f Hbs' ltac:(lia) ltac:(lia))
          as [(i' & hdr' & lr' & el' & H1 & H1' & H2)|(b2 & r2 & rs2 & bs2 & j2 & el2 & K1 & K2 & K3 & K4 & K5 & K6 & K7 & K8)].
        -- left. exists i', hdr', lr', el'. split; [exact H1|]. split; [left; destruct H1' as [E|[E _]]; exact E|exact H2].
        -- right. exists b2, r2, rs2, bs2, j2, el2. split; [exact K1|]. split; [exact K2|]. split; [exact K3|]. split; [exact K4|]. split; [exact K5|]. split; [exact K6|].
           rewrite tokens_cons_batch, Erecs. cbn [length]. unfold tokens in *. cbn [length] in *. lia.
      * right. exists b, r, rs', bs', (j - 61), el.
        split; [exact Hb|]. split; [exact Erecs|]. split; [lia|]. split; [exact Hbs'|].
        split; [|split; [reflexivity|rewrite tokens_cons_batch, Erecs; cbn [length]; lia]].
        replace (Z.of_nat (length (r :: rs')) =? 0) with false by (cbn [length]; lia).
        rewrite Erecs. reflexivity.
Qed.

Lemma bind_same {A B} (a : M A) (k : A -> M B) m1 m2 v m :
  a m1 = MOk v m -> a m2 = MOk v m -> bind a k m1 = bind a k m2.
Proof. intros H1 H2. unfold bind. rewrite H1, H2. reflexivity. Qed.

Lemma read_header_idle fuel i h lr el :
  read_header fuel (st i 0 h lr el) = read_header_loop fuel (st i 0 h lr el).
Proof. unfold read_header. rewrite top_st. reflexivity. Qed.

Lemma msr_read_via_loop_ok fuel mn i h lr el i2 c2 h2 lr2 el2 :
  read_header_loop fuel (st i 0 h lr el) = MOk tt (st i2 c2 h2 lr2 el2) -> 0 < c2 ->
  msr_read decomp fuel mn (st i 0 h lr el) = msr_read decomp fuel mn (st i2 c2 h2 lr2 el2).
Proof.
  intros Hl Hc. unfold msr_read. cbn [m_empty st].
  apply (bind_same _ _ _ _ tt (st i2 c2 h2 lr2 el2)).
  - rewrite read_header_idle. exact Hl.
  - apply read_header_busy. exact Hc.
Qed.

Lemma msr_read_via_loop_err fuel mn i h lr el e m' :
  read_header_loop fuel (st i 0 h lr el) = MErr e m' ->
  msr_read decomp fuel mn (st i 0 h lr el) = MErr e m'.
Proof.
  intros Hl. unfold msr_read. cbn [m_empty st]. unfold bind at 1.
  rewrite read_header_idle, Hl. reflexivity.
Qed.

Lemma b1_same_msr fuel m1 m2 off last :
  msr_read decomp fuel off m1 = msr_read decomp fuel off m2 ->
  batch_read1 decomp fuel (BSt m1 off last) = batch_read1 decomp fuel (BSt m2 off last).
Proof. intros H. unfold batch_read1, BSt. cbn [b_err b_msgs b_off]. rewrite H. reflexivity. Qed.

Lemma rec_step_inv md b r rs' bs j off el r0 p' :
  rec_step md b r rs' bs j off el = ARec r0 p' ->
  r0 = r /\ a_b p' = b /\ a_rs p' = rs' /\ a_bs p' = bs /\ a_hdr p' = hdr_of b /\ a_el p' = el
  /\ a_j p' = j - len (enc_record (pb_base b) (pb_ts b) r) /\ len (enc_record (pb_base b) (pb_ts b) r) <= j
  /\ a_last p' = pb_base b + pb_lod b
  /\ a_off p' = (let off1 := if off <=? r_off r then r_off r + 1 else off in
                 if (len (erecs b rs') =? 0) && (off1 <=? pb_base b + pb_lod b) then pb_base b + pb_lod b + 1 else off1)
  /\ a_mode p' = md.
Proof.
  unfold rec_step. cbv zeta. destruct (j <? len (enc_record (pb_base b) (pb_ts b) r)) eqn:E; [discriminate|].
  intros H. injection H as <- <-. cbn [a_b a_rs a_bs a_j a_hdr a_off a_last a_el a_mode]. repeat split; try reflexivity; lia.
Qed.

Lemma incl_tail {A} (x : A) l l' : incl (x :: l) l' -> incl l l'.
Proof. intros H y Hy. apply H. right. exact Hy. Qed.

Lemma cstep_inv b r rs' bs j off el r0 p' :
  cstep b r rs' bs j off el = ARec r0 p' ->
  plen_of b <= j /\ rec_step MInside b r rs' bs (j - plen_of b + len (erecs b (r :: rs'))) off el = ARec r0 p'.
Proof. unfold cstep. destruct (j <? plen_of b) eqn:E; [discriminate|]. intros H. split; [lia|exact H]. Qed.

(* what a position reached by reading record r of batch b satisfies *)
Lemma pos_ok_after md b r rs' bs j off el r0 p' :
  v2ok b -> incl (r :: rs') (pb_recs b) -> Forall v2ok bs ->
  match md with
  | MPlain => pb_codec b = 0
  | MPending => False
  | MInside => pb_codec b <> 0 /\ (length (r :: rs') <= length (pb_recs b))%nat /\ len (erecs b (r :: rs')) <= j
  end ->
  rec_step md b r rs' bs j off el = ARec r0 p' ->
  pos_ok p' /\ (tokens (a_rs p') (a_bs p') < tokens (r :: rs') bs)%nat /\ (length (a_bs p') <= length bs)%nat.
Proof.
  intros Hok Hincl Hbs Hmd Hs.
  destruct (rec_step_inv _ _ _ _ _ _ _ _ _ _ Hs) as (E0 & E1 & E2 & E3 & E4 & E5 & E6 & E7 & E8 & E9 & E10).
  split; [|split].
  - assert (E11 : a_lr p' = 0).
    { unfold rec_step in Hs. cbv zeta in Hs. destruct (_ <? _) in Hs; [discriminate|]. injection Hs as _ <-. reflexivity. }
    unfold pos_ok. rewrite E1, E2, E3, E4, E6, E10, E11. split; [lia|]. split; [exact Hbs|].
    split; [intros _; left; reflexivity|].
    intros _. split; [exact Hok|]. split; [reflexivity|]. split; [apply (incl_tail r); exact Hincl|].
    destruct md; [exact Hmd|contradiction|].
    destruct Hmd as (H1 & H2 & H3). split; [exact H1|]. split; [cbn [length] in H2; lia|].
    rewrite erecs_cons, len_app in H3. lia.
  - rewrite E2, E3. rewrite tokens_cons_rec. lia.
  - rewrite E3. lia.
Qed.

(* one call of Batch.readMessage at an abstract position *)
Lemma b1_step p fuel : pos_ok p -> (length (a_bs p) < fuel)%nat ->
  match step1 p with
  | ARec r p' => batch_read1 decomp fuel (conc p) = BMsg (msg_of r) (conc p') /\ pos_ok p'
                 /\ (tokens (a_rs p') (a_bs p') < tokens (a_rs p) (a_bs p))%nat
                 /\ (length (a_bs p') <= length (a_bs p))%nat
  | AEnd f => exists b', batch_read1 decomp fuel (conc p) = BErr EEOF b' /\ b_off b' = f
  end.
Proof.
  intros (Hj & Hbs & Hlr & Hin) Hfuel. unfold step1.
  destruct p as [b rs bs j hdr off last el md lr]. cbn [a_b a_rs a_bs a_j a_hdr a_off a_last a_el a_mode a_lr] in *.
  destruct rs as [|r rs'].
  - (* at a batch boundary *)
    assert (Hconc : conc (mkPos b [] bs j hdr off last el md lr) = BSt (st (ztake j (encs bs)) 0 hdr lr el) off last).
    { unfold conc, concm, BSt. cbn [a_b a_rs a_bs a_j a_hdr a_off a_last a_el a_mode a_lr length Z.of_nat].
      change (erecs b []) with (@nil N). cbn [app]. destruct md; reflexivity. }
    rewrite Hconc.
    destruct (loop_bnd bs j hdr lr el fuel Hbs Hj Hfuel)
      as [(i' & hdr' & lr' & el' & H1 & H1' & H2)|(b2 & r2 & rs2 & bs2 & j2 & el2 & K1 & K2 & K3 & K4 & K5 & K6 & K7 & K8)].
    + rewrite H2.
      pose proof (msr_read_via_loop_err fuel off _ _ _ _ _ _ H1) as Hm.
      destruct (b1_of_short fuel _ _ _ _ _ off last _ _ _ _ _ Hm) as (b' & Hb1 & Hb2).
      exists b'. split; [exact Hb1|]. rewrite Hb2. unfold eoff0.
      specialize (Hlr eq_refl).
      destruct H1' as [E|[E1 E2]].
      * rewrite E. reflexivity.
      * subst lr' el'. destruct Hlr as [E|E]; [rewrite E; reflexivity|].
        replace (el <? last) with false by lia. rewrite andb_false_r. reflexivity.
    + rewrite K6.
      assert (Hn2 : 0 < Z.of_nat (length (pb_recs b2))) by (rewrite K2; cbn [length]; lia).
      pose proof (msr_read_via_loop_ok fuel off _ _ _ _ _ _ _ _ _ K5 Hn2) as Hm.
      rewrite (b1_same_msr fuel _ _ off last Hm).
      assert (Hincl : incl (r2 :: rs2) (pb_recs b2)) by (rewrite K2; apply incl_refl).
      destruct (pb_codec b2 =? 0) eqn:Ec.
      * (* uncompressed *)
        assert (Hc0 : pb_codec b2 = 0) by lia.
        assert (Hpl : payload b2 = erecs b2 (r2 :: rs2)) by (unfold payload; rewrite Hc0, K2; reflexivity).
        assert (Hp : plen_of b2 = len (erecs b2 (r2 :: rs2))) by (unfold plen_of; rewrite Hpl; apply blen_len).
        rewrite Hpl, Hp, K2. change (Z.of_nat (length (r2 :: rs2))) with (Z.of_nat (S (length rs2))).
        pose proof (b1_in fuel b2 r2 rs2 bs2 j2 off last el2 K1 Hc0 Hincl K3) as Hb.
        destruct (rec_step MPlain b2 r2 rs2 bs2 j2 off el2) as [r0 p'|f] eqn:Ers; [|exact Hb].
        split; [exact Hb|].
        destruct (pos_ok_after MPlain b2 r2 rs2 bs2 j2 off el2 r0 p' K1 Hincl K4 Hc0 Ers) as (P1 & P2 & P3).
        split; [exact P1|]. split; [lia|lia].
      * (* compressed *)
        assert (Hc0 : pb_codec b2 <> 0) by lia.
        pose proof (b1_pending fuel b2 r2 rs2 bs2 j2 off last el2 K1 Hc0 K2 K3) as Hb.
        destruct (cstep b2 r2 rs2 bs2 j2 off el2) as [r0 p'|f] eqn:Ecs; [|exact Hb].
        split; [exact Hb|].
        destruct (cstep_inv _ _ _ _ _ _ _ _ _ Ecs) as [Hpj Ers].
        destruct (pos_ok_after MInside b2 r2 rs2 bs2 (j2 - plen_of b2 + len (erecs b2 (r2 :: rs2))) off el2 r0 p' K1 Hincl K4
                    ltac:(split; [exact Hc0|split; [rewrite K2; lia|lia]]) Ers) as (P1 & P2 & P3).
        split; [exact P1|]. split; [lia|lia].
  - (* records of the current batch are left *)
    destruct (Hin ltac:(discriminate)) as (Hok & Hh & Hincl & Hmd). subst hdr. clear Hlr.
    destruct md.
    + (* read from the response *)
      assert (Hconc : conc (mkPos b (r :: rs') bs j (hdr_of b) off last el MPlain lr)
                      = BSt (st (ztake j (erecs b (r :: rs') ++ encs bs)) (Z.of_nat (S (length rs'))) (hdr_of b)
                                (len (erecs b (r :: rs'))) el) off last) by reflexivity.
      rewrite Hconc.
      pose proof (b1_in fuel b r rs' bs j off last el Hok Hmd Hincl Hj) as Hb.
      destruct (rec_step MPlain b r rs' bs j off el) as [r0 p'|f] eqn:Ers; [|exact Hb].
      split; [exact Hb|].
      destruct (pos_ok_after MPlain b r rs' bs j off el r0 p' Hok Hincl Hbs Hmd Ers) as (P1 & P2 & P3).
      split; [exact P1|]. split; [exact P2|exact P3].
    + (* a compressed batch whose header was read *)
      destruct Hmd as [Hc0 Hrs].
      assert (Hconc : conc (mkPos b (r :: rs') bs j (hdr_of b) off last el MPending lr)
                      = BSt (st (ztake j (payload b ++ encs bs)) (Z.of_nat (length (pb_recs b))) (hdr_of b) (plen_of b) el) off last).
      { unfold conc, concm, BSt. cbn [a_b a_rs a_bs a_j a_hdr a_off a_last a_el a_mode a_lr]. rewrite Hrs. reflexivity. }
      rewrite Hconc.
      pose proof (b1_pending fuel b r rs' bs j off last el Hok Hc0 (eq_sym Hrs) Hj) as Hb.
      destruct (cstep b r rs' bs j off el) as [r0 p'|f] eqn:Ecs; [|exact Hb].
      split; [exact Hb|].
      destruct (cstep_inv _ _ _ _ _ _ _ _ _ Ecs) as [Hpj Ers].
      destruct (pos_ok_after MInside b r rs' bs (j - plen_of b + len (erecs b (r :: rs'))) off el r0 p' Hok Hincl Hbs
                  ltac:(split; [exact Hc0|split; [rewrite <- Hrs; lia|lia]]) Ers) as (P1 & P2 & P3).
      split; [exact P1|]. split; [exact P2|exact P3].
    + (* read from the decompressed payload *)
      destruct Hmd as (Hc0 & Hlen & Hfit).
      assert (Hconc : conc (mkPos b (r :: rs') bs j (hdr_of b) off last el MInside lr)
                      = BSt (inside_m b (r :: rs') bs j el) off last) by reflexivity.
      rewrite Hconc.
      pose proof (b1_inside fuel b r rs' bs j off last el Hok Hc0 Hincl Hlen Hfit) as Hb.
      destruct (rec_step MInside b r rs' bs j off el) as [r0 p'|f] eqn:Ers; [|contradiction].
      split; [exact Hb|].
      destruct (pos_ok_after MInside b r rs' bs j off el r0 p' Hok Hincl Hbs
                  ltac:(split; [exact Hc0|split; [lia|exact Hfit]]) Ers) as (P1 & P2 & P3).
      split; [exact P1|]. split; [exact P2|exact P3].
Qed.

(* ---------------------------------------------------------------- Batch.ReadMessage and the run *)
Definition T (p : apos) : nat := tokens (a_rs p) (a_bs p).

Lemma len_le_tokens rs bs : (length bs <= tokens rs bs)%nat.
Proof. unfold tokens. induction bs as [|b t IH]; cbn [length fold_right]; lia. Qed.

Inductive ares := ADeliver (r : record) (p : apos) | AStop (f : Z) | AOut.

Fixpoint a_read (fuel : nat) (p : apos) {struct fuel} : ares :=
  match fuel with
  | O => AOut
  | S f =>
    match step1 p with
    | ARec r p' => if r_off r <? o then a_read f p' else ADeliver r p'
    | AEnd x => AStop x
    end
  end.

Fixpoint a_run (fuel : nat) (p : apos) (acc : list msg) {struct fuel} : option (list msg * Z) :=
  match fuel with
  | O => None
  | S f =>
    match a_read (S f) p with
    | ADeliver r p' => a_run f p' (msg_of r :: acc)
    | AStop x => Some (rev acc, x)
    | AOut => None
    end
  end.

Lemma conc_fields p : b_has_conn (conc p) = true /\ b_conn_off (conc p) = o.
Proof. split; reflexivity. Qed.

Lemma read_refine : forall fuel p, pos_ok p -> (T p < fuel)%nat ->
  match a_read fuel p with
  | ADeliver r p' => batch_read decomp fuel (conc p) = BMsg (msg_of r) (conc p') /\ pos_ok p' /\ (T p' < T p)%nat
  | AStop f => exists b', batch_read decomp fuel (conc p) = BErr EEOF b' /\ b_off b' = f
  | AOut => False
  end.
Proof.
  induction fuel as [|f IH]; intros p Hok HT; [lia|].
  cbn [a_read batch_read].
  pose proof (b1_step p (S f) Hok) as Hs.
  assert (Hl : (length (a_bs p) < S f)%nat) by (pose proof (len_le_tokens (a_rs p) (a_bs p)); unfold T in HT; lia).
  specialize (Hs Hl).
  destruct (step1 p) as [r p'|x].
  - destruct Hs as (H1 & H2 & H3 & H4). rewrite H1.
    cbn [b_has_conn b_conn_off conc g_off msg_of andb].
    destruct (r_off r <? o) eqn:E.
    + specialize (IH p' H2 ltac:(unfold T in *; lia)).
      destruct (a_read f p') as [r2 p2|x2|]; [|exact IH|exact IH].
      destruct IH as (I1 & I2 & I3). split; [exact I1|]. split; [exact I2|]. unfold T in *. lia.
    + split; [reflexivity|]. split; [exact H2|]. unfold T. exact H3.
  - destruct Hs as (b' & H1 & H2). rewrite H1. exists b'. split; [reflexivity|exact H2].
Qed.

Lemma run_refine : forall fuel p acc, pos_ok p -> (T p < fuel)%nat ->
  match a_run fuel p acc with
  | Some (ms, x) => batch_run decomp fuel (conc p) acc = Some (ms, EEOF, x)
  | None => False
  end.
Proof.
  induction fuel as [|f IH]; intros p acc Hok HT; [lia|].
  cbn [a_run batch_run].
  pose proof (read_refine (S f) p Hok HT) as Hr.
  destruct (a_read (S f) p) as [r p'|x|]; [| |exact Hr].
  - destruct Hr as (H1 & H2 & H3). rewrite H1. apply IH; [exact H2|lia].
  - destruct Hr as (b' & H1 & H2). rewrite H1, H2. reflexivity.
Qed.

End Run.
