(* Proofs/RecordsConn.v — the messageSetReader model (Conn / Reader path) on reference-encoded
   sequences of v2 batches: it returns the reference's records (control batches included, nil
   for empty, zero time for t <= 0) and then io.EOF. *)
From Coq Require Import List NArith ZArith Bool Lia.
From Coq Require Import ZifyN ZifyNat ZifyBool.
From KV Require Import Lib.Bits Lib.Bytes Lib.Varint Lib.Crc Spec.RecordFormat Model.Records
  Proofs.RecordsCodec Proofs.RecordsSet Proofs.RecordsWriters Proofs.RecordsReaders.
Import ListNotations.
Open Scope Z_scope.
Arguments MR {A}. Arguments ME {A}.

(* what the Conn path cannot distinguish *)
Definition nilify (b : obytes) : obytes := match b with Some [] => None | x => x end.
Definition conn_view (r : orec) : orec :=
  mk_rec (o_off r) (legacy_ts (o_ts r)) (nilify (o_key r)) (nilify (o_val r))
         (map (fun h : header => (fst h, nilify (snd h))) (o_hdrs r)).

Lemma m_vbytes_enc b r : osmall b -> m_vbytes (enc_vbytes b ++ r) = Some (nilify b, r).
Proof.
  intros Hb. unfold m_vbytes, enc_vbytes. destruct b as [l|].
  - rewrite <- app_assoc. rewrite go_varint_sv by (try lia; apply small_i64, Hb).
    destruct l as [|x t].
    + cbn. reflexivity.
    + assert (0 < zlen (x :: t)) by (rewrite zlen_cons; pose proof (zlen_nonneg t); lia).
      destruct (Z.ltb_spec 0 (zlen (x :: t))); [|lia]. rewrite take_zlen. reflexivity.
  - rewrite go_varint_sv by (try lia; apply m1_i64). reflexivity.
Qed.

Lemma m_hdr_enc h r : wf_hdr h -> m_hdr (enc_hdr h ++ r) = Some ((fst h, nilify (snd h)), r).
Proof.
  intros [Hk Hv]. unfold m_hdr, enc_hdr. rewrite <- !app_assoc.
  rewrite go_varint_sv by (try lia; apply small_i64, Hk).
  destruct (fst h) as [|x t] eqn:E.
  - cbn [zlen length Z.of_nat Z.ltb Z.compare app]. rewrite m_vbytes_enc by exact Hv. reflexivity.
  - assert (0 < zlen (x :: t)) by (rewrite zlen_cons; pose proof (zlen_nonneg t); lia).
    destruct (Z.ltb_spec 0 (zlen (x :: t))); [|lia]. rewrite take_zlen.
    rewrite m_vbytes_enc by exact Hv. reflexivity.
Qed.

Lemma m_hdrs_enc hs : forall r, Forall wf_hdr hs ->
  m_hdrs (length hs) (concat (map enc_hdr hs) ++ r) =
  Some (map (fun h : header => (fst h, nilify (snd h))) hs, r).
Proof.
  induction hs as [|h hs IH]; intros r H; cbn [length map concat m_hdrs app]; [reflexivity|].
  apply Forall_cons_iff in H as [Hh Hs].
  rewrite <- app_assoc. rewrite m_hdr_enc by exact Hh. rewrite IH by exact Hs. reflexivity.
Qed.

Lemma m_record_enc h r rest :
  wf_rec r -> in_i64 (h_first h + r_offd r) -> in_i64 (h_first_ts h + r_tsd r) ->
  m_record h (enc_rec r ++ rest) =
  Some (mk_rec (h_first h + r_offd r) (legacy_ts (h_first_ts h + r_tsd r)) (nilify (r_key r)) (nilify (r_val r))
               (map (fun h : header => (fst h, nilify (snd h))) (r_hdrs r)), rest).
Proof.
  intros (Ht & Ho & Hk & Hv & Hn & Hh & Hsm) Hbo Hft. unfold m_record, enc_rec.
  rewrite <- app_assoc. rewrite go_varint_sv by (try lia; apply small_i64, Hsm).
  unfold rec_body. rewrite <- !app_assoc.
  rewrite get_i_put by (try lia; apply in_signed_1; lia).
  rewrite go_varint_sv by (try lia; exact Ht). rewrite go_varint_sv by (try lia; exact Ho).
  rewrite m_vbytes_enc by exact Hk. rewrite m_vbytes_enc by exact Hv.
  rewrite go_varint_sv by (try lia; apply small_i64, Hn).
  rewrite (wrap64_id _ Hbo), (wrap64_id _ Hft).
  destruct (r_hdrs r) as [|h0 hs] eqn:E.
  - cbn. reflexivity.
  - assert (0 < zlen (h0 :: hs)) by (rewrite zlen_cons; pose proof (zlen_nonneg hs); lia).
    destruct (Z.ltb_spec 0 (zlen (h0 :: hs))); [|lia].
    replace (Z.to_nat (zlen (h0 :: hs))) with (length (h0 :: hs)) by (unfold zlen; lia).
    rewrite m_hdrs_enc by exact Hh. reflexivity.
Qed.

Section Codec.
Variable comp decomp : N -> list N -> list N.
Hypothesis decomp_comp : forall c b, decomp c (comp c b) = b.

Definition hdr_of (b : batch2) : mhdr :=
  {| h_first := b_base b; h_len := 9 + zlen (batch_tail comp b); h_magic := 2; h_a1 := 0; h_ts1 := 0;
     h_a2 := b_attrs b; h_lastd := b_last b; h_first_ts := b_first b; h_cnt := zlen (b_recs b) |}.

Definition recs_bytes (rs : list rec2) : list N := concat (map enc_rec rs).
Definition batches_bytes (bs : list batch2) : list N := concat (map (enc_batch comp) bs).

Definition frameU b rs more : frame :=
  {| f_bs := recs_bytes rs ++ batches_bytes more; f_base := 0; f_count := zlen rs; f_hdr := hdr_of b |}.
Definition frameF0 b more : frame :=
  {| f_bs := batch_payload comp b ++ batches_bytes more; f_base := 0; f_count := zlen (b_recs b); f_hdr := hdr_of b |}.
Definition frameKc b rs : frame :=
  {| f_bs := recs_bytes rs; f_base := -1; f_count := zlen rs; f_hdr := hdr_of b |}.
Definition frameKp b more : frame :=
  {| f_bs := batches_bytes more; f_base := 0; f_count := 0; f_hdr := hdr_of b |}.

(* the reader stack while the records [rs] of batch [b] are still to be read;
   k = the batch is compressed (its records live in a pushed reader) *)
Definition st_of (k : bool) b rs more : list frame :=
  if k then match rs with [] => [frameKp b more] | _ => [frameKc b rs; frameKp b more] end
  else [frameU b rs more].

Definition out_rec b r : orec := conn_view (rec_of_rec2 b r).

Definition batch_ok' (b : batch2) : Prop := batch_ok comp b /\ b_recs b <> [].

(* header of the next batch *)
Lemma m_read_header_enc b rest base h0 : batch_ok' b ->
  m_read_header {| f_bs := enc_batch comp b ++ rest; f_base := base; f_count := 0; f_hdr := h0 |} =
  MR {| f_bs := batch_payload comp b ++ rest; f_base := base; f_count := zlen (b_recs b); f_hdr := hdr_of b |}.
Proof.
  intros [((Hb & He & Ha & Hl & Hf & Hm & Hp & Hpe & Hs & Hn & Hr & Hsz) & _) _].
  unfold m_read_header. cbn [f_count f_bs f_base]. change (0 <? 0) with false. cbv iota.
  unfold enc_batch. cbn zeta. rewrite <- !app_assoc.
  rewrite get_i_put by (try lia; apply in_signed_8, Hb).
  pose proof (zlen_nonneg (batch_tail comp b)).
  rewrite get_i_put by (try lia; apply in_signed_4; unfold in_i32, ZM31 in *; lia).
  rewrite get_i_put by (try lia; apply in_signed_4, He).
  rewrite get_i_put by (try lia; apply in_signed_1; lia).
  change (2 =? 0) with false. change (2 =? 1) with false. change (2 =? 2) with true. cbv iota.
  rewrite take_app by apply put_be_length.
  unfold batch_tail at 1. rewrite <- !app_assoc.
  rewrite get_i_put by (try lia; apply in_signed_2, Ha).
  rewrite get_i_put by (try lia; apply in_signed_4, Hl).
  rewrite get_i_put by (try lia; apply in_signed_8, Hf).
  rewrite (app_assoc (put_bes 8 (b_max b))). rewrite (app_assoc _ (put_bes 2 (b_pepoch b))).
  rewrite (app_assoc _ (put_bes 4 (b_seq b))).
  rewrite take_app by (rewrite !app_length; unfold put_bes; rewrite !put_be_length; reflexivity).
  rewrite get_i_put by (try lia; apply in_signed_4, small_i32, Hn).
  reflexivity.
Qed.

Lemma m_compression_hdr b : (codec_of (b_attrs b) <= 4)%N ->
  m_compression (hdr_of b) = Some (codec_of (b_attrs b)).
Proof.
  intros Hc. unfold m_compression, hdr_of. cbn [h_magic h_a2 h_a1]. change (2 =? 2) with true. cbv iota.
  destruct (N.eqb_spec (codec_of (b_attrs b)) 0) as [E|E]; [rewrite E; reflexivity|].
  unfold codec_known. replace ((1 <=? codec_of (b_attrs b))%N && (codec_of (b_attrs b) <=? 4)%N) with true by lia.
  reflexivity.
Qed.

Definition is_comp (b : batch2) : bool := negb (codec_of (b_attrs b) =? 0)%N.

Lemma m_unwind_single fr : m_unwind [fr] = [fr].
Proof. reflexivity. Qed.

(* reading the next record [r] of batch [b] when some were read before *)
Lemma m_next_mid fuel k b r rs more min :
  wf_rec r -> rec_ok b r -> zlen (r :: rs) < zlen (b_recs b) ->
  m_next decomp fuel (st_of k b (r :: rs) more) min = MR (out_rec b r, st_of k b rs more).
Proof.
  intros Hw [O1 O2] Hlt.
  assert (Hpos : 0 < zlen (r :: rs)) by (rewrite zlen_cons; pose proof (zlen_nonneg rs); lia).
  assert (Hcnt : zlen (r :: rs) - 1 = zlen rs) by (rewrite zlen_cons; lia).
  assert (Hrec : forall rest, m_record (hdr_of b) (enc_rec r ++ rest) = Some (out_rec b r, rest)).
  { intros rest. rewrite m_record_enc by (try exact Hw; cbn [hdr_of h_first h_first_ts]; assumption).
    reflexivity. }
  destruct k; cbn [st_of].
  - (* compressed: child and parent *)
    unfold m_next, frameKc. unfold m_read_header at 1. cbn [f_count].
    destruct (Z.ltb_spec 0 (zlen (r :: rs))); [|lia].
    cbn [f_hdr hdr_of h_magic]. change (2 =? 2) with true. cbv iota.
    unfold m_v2. unfold m_read_header at 1. cbn [f_count].
    destruct (Z.ltb_spec 0 (zlen (r :: rs))); [|lia].
    cbn [f_hdr h_cnt hdr_of f_count]. cbn zeta.
    destruct (Z.eqb_spec (zlen (r :: rs)) (zlen (b_recs b))); [lia|].
    cbn [f_bs]. unfold recs_bytes at 1. cbn [map concat]. fold (recs_bytes rs).
    change (hdr_of b) with (hdr_of b). rewrite Hrec.
    unfold m_mark_read. cbn [f_count f_bs f_base f_hdr].
    destruct (Z.eqb_spec (zlen (r :: rs)) 0); [lia|].
    rewrite Hcnt. f_equal. f_equal.
    destruct rs as [|r' rs'].
    + cbn [m_unwind]. cbn [f_count f_bs recs_bytes map concat]. reflexivity.
    + cbn [m_unwind f_count].
      assert (0 < zlen (r' :: rs')) by (rewrite zlen_cons; pose proof (zlen_nonneg rs'); lia).
      destruct (Z.eqb_spec (zlen (r' :: rs')) 0); [lia|]. reflexivity.
  - unfold m_next, frameU. unfold m_read_header at 1. cbn [f_count].
    destruct (Z.ltb_spec 0 (zlen (r :: rs))); [|lia].
    cbn [f_hdr hdr_of h_magic]. change (2 =? 2) with true. cbv iota.
    unfold m_v2. unfold m_read_header at 1. cbn [f_count].
    destruct (Z.ltb_spec 0 (zlen (r :: rs))); [|lia].
    cbn [f_hdr h_cnt hdr_of f_count]. cbn zeta.
    destruct (Z.eqb_spec (zlen (r :: rs)) (zlen (b_recs b))); [lia|].
    cbn [f_bs]. unfold recs_bytes at 1. cbn [map concat]. fold (recs_bytes rs). rewrite <- app_assoc.
    rewrite Hrec.
    unfold m_mark_read. cbn [f_count f_bs f_base f_hdr].
    destruct (Z.eqb_spec (zlen (r :: rs)) 0); [lia|].
    rewrite Hcnt. rewrite m_unwind_single. reflexivity.
Qed.

(* the first record of a batch whose header has just been read *)
Lemma m_v2_first b r rs more :
  batch_ok' b -> b_recs b = r :: rs ->
  m_v2 decomp [frameF0 b more] = MR (out_rec b r, st_of (is_comp b) b rs more).
Proof.
  intros [Hok Hne] Hrs. pose proof Hok as (Hwf & Hc & Hro).
  pose proof Hwf as (_ & _ & _ & _ & _ & _ & _ & _ & _ & _ & Hr & _).
  rewrite Hrs in Hr, Hro. apply Forall_cons_iff in Hr as [Hw _]. apply Forall_cons_iff in Hro as [[O1 O2] _].
  assert (Hpos : 0 < zlen (b_recs b)) by (rewrite Hrs, zlen_cons; pose proof (zlen_nonneg rs); lia).
  assert (Hcnt : zlen (b_recs b) - 1 = zlen rs) by (rewrite Hrs, zlen_cons; lia).
  assert (Hrec : forall rest, m_record (hdr_of b) (enc_rec r ++ rest) = Some (out_rec b r, rest)).
  { intros rest. rewrite m_record_enc by (try exact Hw; cbn [hdr_of h_first h_first_ts]; assumption).
    reflexivity. }
  unfold m_v2, frameF0. unfold m_read_header at 1. cbn [f_count].
  destruct (Z.ltb_spec 0 (zlen (b_recs b))); [|lia].
  cbn [f_hdr f_count]. cbn zeta. cbn [h_cnt hdr_of]. rewrite Z.eqb_refl.
  fold (hdr_of b). rewrite m_compression_hdr by exact Hc.
  unfold is_comp. unfold batch_payload.
  destruct (N.eqb_spec (codec_of (b_attrs b)) 0) as [E0|E0]; cbn [negb st_of].
  - cbn [f_bs].
    replace (concat (map enc_rec (b_recs b))) with (enc_rec r ++ recs_bytes rs) by (rewrite Hrs; reflexivity).
    rewrite <- app_assoc. rewrite Hrec.
    unfold m_mark_read. cbn [f_count f_bs f_base f_hdr].
    destruct (Z.eqb_spec (zlen (b_recs b)) 0); [lia|].
    rewrite Hcnt. rewrite m_unwind_single. reflexivity.
  - cbn [f_bs h_len f_base].
    set (P := comp (codec_of (b_attrs b)) (concat (map enc_rec (b_recs b)))).
    assert (HP : h_len (hdr_of b) - 49 = zlen P).
    { cbn [h_len hdr_of]. rewrite zlen_batch_tail. unfold batch_payload. destruct (N.eqb_spec (codec_of (b_attrs b)) 0); [contradiction|].
      fold P. lia. }
    rewrite HP. pose proof (zlen_nonneg P).
    destruct (Z.ltb_spec (Z.of_nat (length (P ++ batches_bytes more))) (zlen P)) as [Hl|_].
    { rewrite app_length in Hl. unfold zlen in Hl. lia. }
    destruct (Z.ltb_spec (zlen P) 0); [lia|].
    rewrite take_zlen. unfold P. rewrite decomp_comp.
    cbn [f_bs].
    replace (concat (map enc_rec (b_recs b))) with (enc_rec r ++ recs_bytes rs) by (rewrite Hrs; reflexivity).
    rewrite Hrec.
    unfold m_mark_read. cbn [f_count f_bs f_base f_hdr].
    destruct (Z.eqb_spec (zlen (b_recs b)) 0); [lia|].
    rewrite Hcnt. f_equal. f_equal.
    destruct rs as [|r' rs'].
    + cbn [m_unwind]. cbn [f_count f_bs recs_bytes map concat]. reflexivity.
    + cbn [m_unwind f_count].
      assert (0 < zlen (r' :: rs')) by (rewrite zlen_cons; pose proof (zlen_nonneg rs'); lia).
      destruct (Z.eqb_spec (zlen (r' :: rs')) 0); [lia|]. reflexivity.
Qed.

(* after the last record of a batch: the next batch's header, then its first record *)
Lemma m_next_fresh fuel k b b' r rs more min :
  batch_ok' b' -> b_recs b' = r :: rs ->
  m_next decomp fuel (st_of k b [] (b' :: more)) min = MR (out_rec b' r, st_of (is_comp b') b' rs more).
Proof.
  intros Hok Hrs.
  assert (Hst : st_of k b [] (b' :: more) = [frameKp b (b' :: more)]).
  { destruct k; cbn [st_of]; [reflexivity|]. unfold frameU, frameKp. cbn [recs_bytes map concat app zlen length Z.of_nat].
    reflexivity. }
  rewrite Hst. unfold m_next, frameKp. unfold batches_bytes. cbn [map concat]. fold (batches_bytes more).
  rewrite m_read_header_enc by exact Hok.
  cbn [f_hdr hdr_of h_magic]. change (2 =? 2) with true. cbv iota.
  apply (m_v2_first b' r rs more Hok Hrs).
Qed.

Lemma m_next_end fuel k b min : m_next decomp fuel (st_of k b [] []) min = ME MEof.
Proof. destruct k; reflexivity. Qed.

Definition outs (bs : list batch2) : list orec := flat_map (fun b => map (out_rec b) (b_recs b)) bs.

Lemma m_run_mid : forall more b k rs pre acc fuel min,
  Forall batch_ok' more -> batch_ok' b -> b_recs b = pre ++ rs -> pre <> [] ->
  (length rs + length (outs more) < fuel)%nat ->
  m_run decomp fuel (st_of k b rs more) min acc = (rev acc ++ map (out_rec b) rs ++ outs more, MEof).
Proof.
  induction more as [|b' more' IHm]; intros b k rs; induction rs as [|r rs IHr];
    intros pre acc fuel min Hmore Hb Hsplit Hpre Hfuel.
  - destruct fuel as [|fuel]; [cbn in Hfuel; lia|]. cbn [m_run]. rewrite m_next_end.
    cbn [map outs flat_map]. rewrite !app_nil_r. reflexivity.
  - destruct fuel as [|fuel]; [cbn in Hfuel; lia|]. cbn [m_run].
    destruct Hb as [Hok Hne]. pose proof Hok as (Hwf & Hc & Hro).
    pose proof Hwf as (_ & _ & _ & _ & _ & _ & _ & _ & _ & _ & Hr & _).
    rewrite Hsplit in Hr, Hro. apply Forall_app in Hr as [_ Hr]. apply Forall_app in Hro as [_ Hro].
    apply Forall_cons_iff in Hr as [Hw _]. apply Forall_cons_iff in Hro as [Ho _].
    rewrite m_next_mid; [|exact Hw|exact Ho|].
    2:{ rewrite Hsplit. rewrite zlen_app. destruct pre as [|p pre']; [contradiction|].
        rewrite (zlen_cons p). pose proof (zlen_nonneg pre'). lia. }
    rewrite (IHr (pre ++ [r])); [| exact Hmore | split; assumption | rewrite <- app_assoc; exact Hsplit
                                 | intros E; apply app_eq_nil in E as [_ E]; discriminate
                                 | cbn [length] in Hfuel; lia ].
    cbn [rev map]. rewrite <- !app_assoc. reflexivity.
  - destruct fuel as [|fuel]; [cbn in Hfuel; lia|]. cbn [m_run].
    apply Forall_cons_iff in Hmore as [Hb' Hmore'].
    destruct (b_recs b') as [|r1 rs1] eqn:Hrs1; [destruct Hb' as [_ Hne]; contradiction|].
    rewrite (m_next_fresh _ k b b' r1 rs1 more' min Hb' Hrs1).
    cbn [outs flat_map] in *. rewrite Hrs1 in *. cbn [map app length] in Hfuel. rewrite app_length in Hfuel.
    rewrite (IHm b' (is_comp b') rs1 [r1]); [| exact Hmore' | exact Hb' | exact Hrs1 | discriminate
                                               | rewrite map_length in Hfuel; unfold outs; lia ].
    cbn [rev map app]. rewrite <- !app_assoc. reflexivity.
  - destruct fuel as [|fuel]; [cbn in Hfuel; lia|]. cbn [m_run].
    destruct Hb as [Hok Hne]. pose proof Hok as (Hwf & Hc & Hro).
    pose proof Hwf as (_ & _ & _ & _ & _ & _ & _ & _ & _ & _ & Hr & _).
    rewrite Hsplit in Hr, Hro. apply Forall_app in Hr as [_ Hr]. apply Forall_app in Hro as [_ Hro].
    apply Forall_cons_iff in Hr as [Hw _]. apply Forall_cons_iff in Hro as [Ho _].
    rewrite m_next_mid; [|exact Hw|exact Ho|].
    2:{ rewrite Hsplit. rewrite zlen_app. destruct pre as [|p pre']; [contradiction|].
        rewrite (zlen_cons p). pose proof (zlen_nonneg pre'). lia. }
    rewrite (IHr (pre ++ [r])); [| exact Hmore | split; assumption | rewrite <- app_assoc; exact Hsplit
                                 | intros E; apply app_eq_nil in E as [_ E]; discriminate
                                 | cbn [length] in Hfuel; lia ].
    cbn [rev map]. rewrite <- !app_assoc. reflexivity.
Qed.

(* Conn / Reader path on any non-empty sequence of non-empty v2 batches, any codec *)
Theorem msr_read_v2_batches bs fuel min :
  bs <> [] -> Forall batch_ok' bs -> (length (outs bs) < fuel)%nat ->
  msr_read decomp fuel min (batches_bytes bs) = (outs bs, MEof).
Proof.
  intros Hne H Hfuel. destruct bs as [|b more]; [contradiction|].
  apply Forall_cons_iff in H as [Hb Hmore].
  assert (Hex : exists r1 rs1, b_recs b = r1 :: rs1).
  { destruct Hb as [_ Hn]. destruct (b_recs b) as [|r1 rs1]; [contradiction|eauto]. }
  destruct Hex as (r1 & rs1 & Hrs1).
  assert (Hout : outs (b :: more) = out_rec b r1 :: map (out_rec b) rs1 ++ outs more).
  { unfold outs. cbn [flat_map]. rewrite Hrs1. reflexivity. }
  rewrite Hout in *. cbn [length] in Hfuel. rewrite app_length, map_length in Hfuel.
  unfold msr_read. unfold batches_bytes. cbn [map concat]. fold (batches_bytes more).
  rewrite m_read_header_enc by exact Hb.
  change {| f_bs := batch_payload comp b ++ batches_bytes more; f_base := 0; f_count := zlen (b_recs b); f_hdr := hdr_of b |}
    with (frameF0 b more).
  destruct fuel as [|fuel]; [lia|]. cbn [m_run].
  assert (Hn : m_next decomp (S fuel) [frameF0 b more] min = m_v2 decomp [frameF0 b more]).
  { unfold m_next, frameF0. unfold m_read_header at 1. cbn [f_count].
    assert (0 < zlen (b_recs b)) by (rewrite Hrs1, zlen_cons; pose proof (zlen_nonneg rs1); lia).
    destruct (Z.ltb_spec 0 (zlen (b_recs b))); [|lia].
    cbn [f_hdr hdr_of h_magic]. change (2 =? 2) with true. cbv iota. reflexivity. }
  rewrite Hn. rewrite (m_v2_first b r1 rs1 more Hb Hrs1).
  rewrite (m_run_mid more b (is_comp b) rs1 [r1]); [| exact Hmore | exact Hb | exact Hrs1 | discriminate | lia ].
  reflexivity.
Qed.

End Codec.
