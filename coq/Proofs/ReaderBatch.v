(* Proofs/ReaderBatch.v — C02, Batch level, for ARBITRARY response bytes: Batch.offset (hence
   Conn.offset after Batch.close) never moves backwards, and every delivered message lies
   between the fetch offset and the final Conn.offset.  Plus the witnesses of the three
   defects that were fixed in /repo, kept as regression examples. *)
From Coq Require Import List NArith ZArith Bool Lia.
From Coq Require Import ZifyBool.
From KV Require Import Lib.Bits Lib.Bytes Lib.Varint Model.MsgSetReader Model.ReaderModel Spec.FetchSpec.
Import ListNotations.
Open Scope Z_scope.

Section Mono.
Variable decomp : Z -> list N -> option (list N).

Lemma batch_read1_mono fuel b :
  match batch_read1 decomp fuel b with
  | BMsg g b' => b_off b <= b_off b' /\ g_off g < b_off b'
                 /\ b_conn_off b' = b_conn_off b /\ b_has_conn b' = b_has_conn b
  | BErr _ b' => b_off b <= b_off b' /\ b_conn_off b' = b_conn_off b /\ b_has_conn b' = b_has_conn b
  | BPanic => True
  end.
Proof.
  unfold batch_read1. destruct (b_err b); [cbn; lia|].
  destruct (b_msgs b) as [m|]; [|exact I].
  destruct (msr_read decomp fuel (b_off b) m) as [[g lo] m'|e m'|]; [| |exact I].
  - cbv zeta. cbn [set_b b_off b_conn_off b_has_conn].
    repeat match goal with |- context [if ?c then _ else _] => destruct c eqn:? end;
    repeat match goal with H : context [if ?c then _ else _] |- _ => destruct c eqn:? end; lia.
  - destruct e; cbn [set_b b_off b_conn_off b_has_conn]; try lia.
    destruct (msr_discard m'); cbv zeta; cbn [set_b b_off b_conn_off b_has_conn]; [lia|].
    repeat match goal with |- context [if ?c then _ else _] => destruct c eqn:? end;
    repeat match goal with H : context [if ?c then _ else _] |- _ => destruct c eqn:? end; lia.
Qed.

Lemma batch_read_mono fuel : forall b,
  match batch_read decomp fuel b with
  | BMsg g b' => b_off b <= b_off b' /\ g_off g < b_off b'
                 /\ b_conn_off b' = b_conn_off b /\ b_has_conn b' = b_has_conn b
                 /\ (b_has_conn b = true -> b_conn_off b <= g_off g)
  | BErr _ b' => b_off b <= b_off b' /\ b_conn_off b' = b_conn_off b /\ b_has_conn b' = b_has_conn b
  | BPanic => True
  end.
Proof.
  induction fuel as [|fuel IH]; intros b; cbn [batch_read]; [lia|].
  pose proof (batch_read1_mono (S fuel) b) as H1.
  destruct (batch_read1 decomp (S fuel) b) as [g b1|e b1|]; [|exact H1|exact I].
  destruct H1 as (Ha & Hb & Hc & Hd).
  destruct (b_has_conn b1 && (g_off g <? b_conn_off b1)) eqn:E.
  - specialize (IH b1). destruct (batch_read decomp fuel b1) as [g2 b2|e2 b2|]; [| |exact I].
    + destruct IH as (I1 & I2 & I3 & I4 & I5).
      split; [lia|]. split; [lia|]. split; [congruence|]. split; [congruence|].
      intros Hh. rewrite <- Hc. apply I5. congruence.
    + destruct IH as (I1 & I2 & I3). split; [lia|]. split; congruence.
  - split; [lia|]. split; [lia|]. split; [assumption|]. split; [assumption|].
    intros Hh. rewrite Hd, Hh in E. cbn [andb] in E. lia.
Qed.

Lemma batch_run_mono fuel : forall b acc ms e f,
  b_has_conn b = true ->
  batch_run decomp fuel b acc = Some (ms, e, f) ->
  b_off b <= f
  /\ (Forall (fun g => b_conn_off b <= g_off g < b_off b) acc ->
      Forall (fun g => b_conn_off b <= g_off g < f) ms).
Proof.
  induction fuel as [|fuel IH]; intros b acc ms e f Hc Hrun; cbn [batch_run] in Hrun.
  - injection Hrun as <- <- <-. split; [lia|]. intros H. apply Forall_rev. exact H.
  - pose proof (batch_read_mono (S fuel) b) as H1.
    destruct (batch_read decomp (S fuel) b) as [g b1|e1 b1|]; [| |discriminate].
    + destruct H1 as (Ha & Hb & Hcc & Hd & He).
      assert (Hc1 : b_has_conn b1 = true) by congruence.
      destruct (IH b1 (g :: acc) ms e f Hc1 Hrun) as [I1 I2]. split; [lia|].
      intros Hacc. rewrite Hcc in I2. apply I2. constructor; [specialize (He Hc); lia|].
      eapply Forall_impl; [|exact Hacc]. cbn. intros. lia.
    + injection Hrun as <- <- <-. destruct H1 as (Ha & _). split; [lia|].
      intros Hacc. apply Forall_rev. eapply Forall_impl; [|exact Hacc]. cbn. intros. lia.
Qed.

Lemma new_batch_init o hwm i remain late :
  let b := new_batch o hwm i remain late in
  b_off b = o /\ b_conn_off b = o /\ b_has_conn b = true.
Proof.
  cbn zeta. unfold new_batch. destruct (hwm =? o); [destruct (p_discard remain (i, remain)); cbn; auto|].
  destruct (new_msr i remain) as [u m|e m|]; [cbn; auto| |cbn; auto].
  destruct e; cbn; auto.
Qed.

(* C02_conn_offset_advances, for every response whatsoever (well-formed or not, cut anywhere,
   any codec behaviour): Conn.offset after Batch.close is never below the offset the fetch was
   issued at, and every message the batch delivered has fetch offset <= offset < Conn.offset *)
Theorem conn_offset_advances fuel o hwm bytes remain late ms e f :
  fetch_run decomp fuel o hwm bytes remain late = Some (ms, e, f) ->
  o <= f /\ Forall (fun g => o <= g_off g < f) ms.
Proof.
  unfold fetch_run. intros Hrun.
  destruct (new_batch_init o hwm bytes remain late) as (H1 & H2 & H3).
  destruct (batch_run_mono fuel _ [] ms e f H3 Hrun) as [Ha Hb].
  rewrite H1 in Ha. rewrite H2 in Hb. split; [exact Ha|]. apply Hb. constructor.
Qed.

End Mono.

(* ------------------------------------------------------------------ regression witnesses *)
Definition no_compress : Z -> list N -> list N := fun _ b => b.
Definition no_decomp : Z -> list N -> option (list N) := fun _ b => Some b.

Definition ts0 : Z := 1600000000000.
Definition rec (o : Z) : record := mkRec o ts0 (Some [107%N]) (Some [118%N]) [].

(* (fixed: F1) the partition ends with a retained record-less v2 batch covering 100..104: a
   fetch at 100 used to leave Conn.offset = 1; it now moves past the batch *)
Definition f1_layout : layout := [mkPB 2 0 90 9 ts0 [rec 90]; mkPB 2 0 100 4 ts0 []].
Lemma f1_run :
  fetch_run no_decomp 100 100 101 (fetch_response no_compress f1_layout 100 61) 61 false = Some ([], EEOF, 105).
Proof. vm_compute. reflexivity. Qed.

(* (fixed: panic) two consecutive record-less batches between data used to make markRead panic *)
Definition p_layout : layout :=
  [mkPB 2 0 90 0 ts0 [rec 90]; mkPB 2 0 100 4 ts0 []; mkPB 2 0 110 4 ts0 []; mkPB 2 0 130 0 ts0 [rec 130]].
Lemma p_run :
  fetch_run no_decomp 100 90 131 (fetch_response no_compress p_layout 90 262) 262 false
  = Some ([msg_of (rec 90); msg_of (rec 130)], EEOF, 131).
Proof. vm_compute. reflexivity. Qed.

(* (fixed: regress / stall) fetch offset 50 inside the compacted tail 48..50 of the first batch,
   response cut inside the second batch: Conn.offset used to fall back to 48 and the same fetch
   repeated for ever; it now moves past the first batch *)
Definition g_layout : layout := [mkPB 2 0 47 3 ts0 [rec 47]; mkPB 2 0 51 0 ts0 [rec 51]].
Lemma g_run :
  fetch_run no_decomp 100 50 52 (fetch_response no_compress g_layout 50 135) 135 false = Some ([], EEOF, 51).
Proof. vm_compute. reflexivity. Qed.

(* a compressed batch (identity codec) with a compacted tail alone in the response: used to
   leave Conn.offset where it was *)
Definition c_layout : layout := [mkPB 2 1 47 3 ts0 [rec 47]].
Lemma c_run :
  fetch_run no_decomp 100 49 51 (fetch_response no_compress c_layout 49 70) 70 false = Some ([], EEOF, 51).
Proof. vm_compute. reflexivity. Qed.
