(* Proofs/LifecycleLive.v — Reader.Close is never stuck: whenever a Close call waits
   (r.join.Wait() or <-r.done), some goroutine has an enabled step that is neither an
   environment decision, nor a periodic tick, nor a select branch racing a ready cancellation. *)
From Coq Require Import List Arith Bool Lia.
From KV Require Import Lib.LTS Model.Lifecycle Proofs.LifecycleBase Proofs.LifecycleSafe Proofs.LifecycleGen Proofs.LifecyclePost.
Import ListNotations.

Definition g_needs_mid (g : gphase) : bool := match g with GSync | GOfetch => true | _ => false end.
Record inv5 (s : state) : Prop := {
  v_group : c_group (cfg s) = true -> rph s <> RNone /\ gph s <> GNone;
  v_rexit : rph s = RExited -> rdone s = true;
  v_mid : g_needs_mid (gph s) = true -> mid s <> None }.

Lemma inv5_step : forall s l s', inv5 s -> step s l = Some s' -> inv5 s'.
Proof.
  intros s l s' [V1 V2 V3] St.
  destruct l; step_inv St; unf; try rewrite reply_all_calls_only; destr_goal; rw_ph;
    split; cbn in *; intros; rw_ph; cbn in *; auto; try discriminate; try congruence;
    try (match goal with H : c_group _ = true |- _ => destruct (V1 H); split; congruence end).
Qed.

Lemma inv5_reach : forall c ls s, run step (init c) ls = Some s -> inv5 s.
Proof.
  intros c. apply reach_ind; [|apply inv5_step].
  split; cbn; intros H; try rewrite H; try (split; discriminate); try discriminate;
  destruct (c_group c); discriminate.
Qed.

Definition can_progress (s : state) : Prop := exists l, progress s l = true /\ step s l <> None.

Ltac by_label l :=
  exists l; split; [reflexivity|unfold step].
Ltac finish_enabled :=
  cbv beta iota zeta; destr_goal; discriminate.

Lemma fetcher_moves : forall s i f, panicked s = false -> nth_error (fetchers s) i = Some f ->
  fdone f = false -> fcancelled s f = true -> can_progress s.
Proof.
  intros s i f Hp Hf Hd Hc. unfold fdone in Hd. destruct (f_ph f) eqn:E; try discriminate.
  - by_label (LFDial i DFail). rewrite Hp, Hf, E. discriminate.
  - by_label (LFSeeCancel i). rewrite Hp, Hf, Hc, E. discriminate.
  - by_label (LFOffsets i DFail). rewrite Hp, Hf, E. discriminate.
  - by_label (LFSeeCancel i). rewrite Hp, Hf, Hc, E. discriminate.
  - by_label (LFSeeCancel i). rewrite Hp, Hf, Hc, E. discriminate.
  - by_label (LFSeeCancel i). rewrite Hp, Hf, Hc, E. discriminate.
  - by_label (LFResp i FAgain). rewrite Hp, Hf, E. discriminate.
  - by_label (LFSeeCancel i). rewrite Hp, Hf, Hc, E. discriminate.
  - by_label (LFSeeCancel i). rewrite Hp, Hf, Hc, E. discriminate.
Qed.

Lemma fn_moves : forall s i f, panicked s = false -> nth_error (fns s) i = Some f -> nexit f = false ->
  gen_done s (n_gen f) = true -> stctx s = true -> all_exited s = true -> can_progress s.
Proof.
  intros s i f Hp Hf Hx Hg Hs Ha. unfold nexit in Hx. destruct (n_ph f) eqn:E; try discriminate.
  - by_label (LFnSeeDone i). rewrite Hp, Hf, E, Hg. cbn. finish_enabled.
  - destruct bk.
    + by_label (LClSeeStop i). rewrite Hp, Hf, E, Hs. discriminate.
    + by_label (LClCommit i false). rewrite Hp, Hf, E. rewrite andb_false_r. finish_enabled.
  - by_label (LUnCancel i). rewrite Hp, Hf, E. discriminate.
  - by_label (LUnJoin i). rewrite Hp, Hf, E, Ha. discriminate.
  - by_label (LFnHandler i). rewrite Hp, Hf, E. discriminate.
Qed.

Theorem close_no_stuck_proof : forall c ls s, run step (init c) ls = Some s -> close_waits s = true -> can_progress s.
Proof.
  intros c ls s R W. destruct (invs_reach _ _ _ R) as [I1 I2]. pose proof (inv5_reach _ _ _ R) as I5.
  destruct (inv4_reach _ _ _ R) as [_ Hp _].
  unfold close_waits in W. apply existsb_nth in W as (k & p & Hk & Hw).
  destruct p as [| | |f|f| |]; try discriminate.
  - (* r.join.Wait() *)
    assert (C2 : cl_at 2 s) by (exists k, (CLJoin f); split; [exact Hk|cbn; lia]).
    pose proof (i_curcan _ I1 C2) as Hcc.
    destruct (all_exited s) eqn:Ha.
    + by_label (LCloseStep k). rewrite Hp, Hk, Ha. discriminate.
    + unfold all_exited in Ha. apply forallb_false_nth in Ha as (i & x & Hi & Hx).
      eapply fetcher_moves; eauto. unfold fcancelled. rewrite Hcc. apply orb_true_r.
  - (* <-r.done *)
    assert (C4 : cl_at 4 s) by (exists k, (CLDone f); split; [exact Hk|cbn; lia]).
    assert (C3 : cl_at 3 s) by (apply (cl_at_mono 4); [lia|exact C4]).
    pose proof (i_exited _ I1 C4) as Ha. pose proof (i_stctx _ I1 C3) as Hs.
    destruct (negb (c_group (cfg s)) || rdone s) eqn:G.
    { by_label (LCloseStep k). rewrite Hp, Hk, G. discriminate. }
    apply orb_false_iff in G as [G1 G2]. apply negb_false_iff in G1.
    destruct (v_group _ I5 G1) as [Nr Ng].
    destruct (rph s) eqn:Er; try congruence.
    + by_label LRNextCall. rewrite Hp, Er. discriminate.
    + by_label LRNextCtx. rewrite Hp, Er, Hs. discriminate.
    + by_label LRRunErrDrop. rewrite Hp, Er. discriminate.
    + by_label (LRSub 0). rewrite Hp, Er. discriminate.
    + by_label LRStartC. rewrite Hp, Er. discriminate.
    + by_label LRStartU. rewrite Hp, Er. discriminate.
    + by_label LRCgClose. rewrite Hp, Er. discriminate.
    + (* cg.wg.Wait(): the ConsumerGroup goroutine must be able to move *)
      assert (Hcg : cgdone s = true) by (apply (j_cgdone _ I2); rewrite Er; reflexivity).
      destruct (gph s) eqn:Eg; try congruence.
      * by_label (LGCoord (GFail GOther)). rewrite Hp, Eg. discriminate.
      * by_label (LGJoin (JErr GOther)). rewrite Hp, Eg. discriminate.
      * by_label (LGSync (GFail GOther)). rewrite Hp, Eg. discriminate.
      * assert (Hm : mid s <> None) by (apply (v_mid _ I5); rewrite Eg; reflexivity).
        destruct (mid s) eqn:Em; [|congruence].
        by_label (LGOfetch (GFail GOther)). rewrite Hp, Eg, Em. discriminate.
      * by_label LGPublishAbort. rewrite Hp, Eg, Hcg. discriminate.
      * by_label LGWaitClosed. rewrite Hp, Eg, Hcg. discriminate.
      * by_label LGClose. rewrite Hp, Eg. discriminate.
      * destruct (acc_exited k0 s) eqn:Ea.
        { by_label LGJoined. rewrite Hp, Eg, Ea. discriminate. }
        unfold acc_exited in Ea. apply forallb_false_nth in Ea as (i & x & Hi & Hx).
        apply orb_false_iff in Hx as [X1 X2]. apply negb_false_iff in X1.
        unfold acc_of in X1. apply andb_true_iff in X1 as [X1 X3]. apply Nat.eqb_eq in X1.
        eapply fn_moves; eauto. rewrite X1. eapply (j_cw _ I2); eauto.
      * by_label (LGLeaveCoord false). rewrite Hp, Eg. discriminate.
      * by_label LGLeaveReq. rewrite Hp, Eg. discriminate.
      * by_label LGOfferAbort. rewrite Hp, Eg, Hcg. discriminate.
      * by_label LGBackoffAbort. rewrite Hp, Eg, Hcg. discriminate.
      * by_label LRCgWait. rewrite Hp, Er, Eg. discriminate.
    + by_label LRDone. rewrite Hp, Er. discriminate.
    + rewrite (v_rexit _ I5 Er) in G2. discriminate.
Qed.

(* Close's own first statements never block, and once r.stop() has run the state is [stopping] *)
Theorem close_begins_proof : forall c ls s, run step (init c) ls = Some s ->
  (forall k p, nth_error (closers s) k = Some p -> crank p <= 2 ->
     progress s (LCloseStep k) = true /\ step s (LCloseStep k) <> None) /\
  (cl_at 3 s -> stopping s = true).
Proof.
  intros c ls s R. destruct (invs_reach _ _ _ R) as [I1 _]. destruct (inv4_reach _ _ _ R) as [_ Hp _]. split.
  - intros k p Hk Hr. split; [reflexivity|]. unfold step. rewrite Hp, Hk.
    destruct p; cbn in Hr; try lia; discriminate.
  - intros C3. unfold stopping.
    rewrite (i_closed _ I1 (cl_at_mono 3 1 _ ltac:(lia) C3)), (i_curcan _ I1 (cl_at_mono 3 2 _ ltac:(lia) C3)), (i_stctx _ I1 C3).
    reflexivity.
Qed.

(* Quiescence: after a Close call returned, if no goroutine has a step of its own left, then no
   goroutine and no connection is left at all. *)
Theorem close_post_quiescent_proof : forall c ls s, run step (init c) ls = Some s -> close_returned s = true ->
  (forall l, is_env l = false -> step s l = None) -> live s = 0 /\ conns s = 0.
Proof.
  intros c ls s R H Q. destruct (invs_reach _ _ _ R) as [I1 I2]. destruct (inv4_reach _ _ _ R) as [_ Hp _].
  destruct (close_post_registry _ _ _ R H) as (_ & L & K & NoL & _).
  pose proof (close_returned_at _ H) as C6.
  assert (Hs : stctx s = true) by (apply (i_stctx _ I1); apply (cl_at_mono 6); [lia|exact C6]).
  assert (Ha : all_exited s = true) by (apply (i_exited _ I1); apply (cl_at_mono 6); [lia|exact C6]).
  assert (N : forall l, is_env l = false -> step s l <> None -> False) by (intros l E S; apply S; apply Q; exact E).
  assert (U : unacc_live s = 0).
  { unfold unacc_live. apply count_false. intros x Hx. apply In_nth_error in Hx as (i & Hi).
    destruct (n_acc x) eqn:A; [reflexivity|]. destruct (nexit x) eqn:X; [reflexivity|]. exfalso.
    pose proof (j_late _ I2 _ _ Hi A) as Gd.
    destruct (fn_moves s i x Hp Hi X Gd Hs Ha) as (l & P & S).
    apply (N l); auto. unfold progress in P. apply andb_true_iff in P as [P _]. apply andb_true_iff in P as [P _].
    apply negb_true_iff in P. exact P. }
  assert (Lg : lag_live (lag s) = 0).
  { destruct (lag s) eqn:E; try reflexivity; exfalso.
    - apply (N LLagBegin); [reflexivity|]. unfold step. rewrite Hp, E. discriminate.
    - apply (N LLagTimeout); [reflexivity|]. unfold step. rewrite Hp, E. discriminate.
    - apply (N LLagStop); [reflexivity|]. unfold step. rewrite Hp, E, Hs. discriminate. }
  assert (In1 : forall i x, nth_error (inners s) i = Some x -> x = IDone).
  { intros i x Hi. destruct x; auto; exfalso.
    - apply (N (LInDial i false)); [reflexivity|]. unfold step. rewrite Hp, Hi. discriminate.
    - apply (N (LInOffsets i)); [reflexivity|]. unfold step. rewrite Hp, Hi. discriminate.
    - exact (NoL i Hi).
    - apply (N (LInExit i)); [reflexivity|]. unfold step. rewrite Hp, Hi. discriminate. }
  assert (C1 : count (fun i => negb (idone i)) (inners s) = 0).
  { apply count_false. intros x Hx. apply In_nth_error in Hx as (i & Hi). rewrite (In1 _ _ Hi). reflexivity. }
  assert (C2 : count iconn (inners s) = 0).
  { apply count_false. intros x Hx. apply In_nth_error in Hx as (i & Hi). rewrite (In1 _ _ Hi). reflexivity. }
  rewrite L, K, U, Lg, C1, C2. split; reflexivity.
Qed.
