(* Proofs/GroupReaderBase.v — basic lemmas for Model/GroupReader.v: association maps,
   merge/store, functional update, shape of one step. *)
From Coq Require Import List NArith ZArith Bool Lia.
From Coq Require Import ZifyN ZifyNat ZifyBool.
From KV Require Import Lib.LTS Model.GroupReader.
Import ListNotations.
Open Scope Z_scope.

(* ------------------------------------------------------------ tp equality *)
Lemma tp_eqb_eq : forall a b, tp_eqb a b = true <-> a = b.
Proof.
  intros [a1 a2] [b1 b2]; unfold tp_eqb; cbn [fst snd]. rewrite andb_true_iff, !N.eqb_eq.
  split; [intros [-> ->]; reflexivity|intros H; inversion H; auto].
Qed.
Lemma tp_eqb_refl : forall a, tp_eqb a a = true.
Proof. intros; apply tp_eqb_eq; reflexivity. Qed.
Lemma tp_eqb_neq : forall a b, tp_eqb a b = false <-> a <> b.
Proof.
  intros a b; split; intros H.
  - intros E; apply tp_eqb_eq in E; congruence.
  - destruct (tp_eqb a b) eqn:E; [apply tp_eqb_eq in E; contradiction|reflexivity].
Qed.
Lemma tp_eqb_sym : forall a b, tp_eqb a b = tp_eqb b a.
Proof.
  intros a b. destruct (tp_eqb a b) eqn:E.
  - apply tp_eqb_eq in E; subst; symmetry; apply tp_eqb_refl.
  - symmetry; apply tp_eqb_neq; apply tp_eqb_neq in E; congruence.
Qed.

(* ------------------------------------------------------------ lookup / aset *)
Lemma lookup_aset_same : forall m k v, lookup (aset m k v) k = Some v.
Proof.
  induction m as [|[k' v'] m IH]; intros k v; cbn [aset lookup].
  - rewrite tp_eqb_refl; reflexivity.
  - destruct (tp_eqb k k') eqn:E; cbn [lookup]; rewrite E; [reflexivity|apply IH].
Qed.
Lemma lookup_aset_other : forall m k v k', k' <> k -> lookup (aset m k v) k' = lookup m k'.
Proof.
  induction m as [|[k0 v0] m IH]; intros k v k' H; cbn [aset lookup].
  - apply tp_eqb_neq in H; rewrite H; reflexivity.
  - destruct (tp_eqb k k0) eqn:E; cbn [lookup].
    + apply tp_eqb_eq in E; subst k0. apply tp_eqb_neq in H; rewrite H; reflexivity.
    + destruct (tp_eqb k' k0); [reflexivity|apply IH; exact H].
Qed.
Lemma lookup_aset : forall m k v k',
  lookup (aset m k v) k' = if tp_eqb k' k then Some v else lookup m k'.
Proof.
  intros. destruct (tp_eqb k' k) eqn:E.
  - apply tp_eqb_eq in E; subst; apply lookup_aset_same.
  - apply lookup_aset_other; apply tp_eqb_neq; exact E.
Qed.

Lemma In_aset : forall m k v t c, In (t, c) (aset m k v) -> In (t, c) m \/ (t = k /\ c = v).
Proof.
  induction m as [|[k0 v0] m IH]; intros k v t c H; cbn [aset] in H.
  - destruct H as [H|[]]; inversion H; auto.
  - destruct (tp_eqb k k0) eqn:E.
    + apply tp_eqb_eq in E; subst k0. destruct H as [H|H]; [inversion H; auto|left; right; exact H].
    + destruct H as [H|H]; [left; left; exact H|].
      apply IH in H; destruct H; [left; right; assumption|right; assumption].
Qed.

Lemma In_lookup_some : forall m t c, In (t, c) m -> exists c', lookup m t = Some c'.
Proof.
  induction m as [|[k0 v0] m IH]; intros t c H; [destruct H|].
  cbn [lookup]. destruct (tp_eqb t k0) eqn:E; [eauto|].
  destruct H as [H|H].
  - inversion H; subst. rewrite tp_eqb_refl in E; discriminate.
  - eapply IH; exact H.
Qed.

Lemma lookup_In : forall m t c, lookup m t = Some c -> In (t, c) m.
Proof.
  induction m as [|[k0 v0] m IH]; intros t c H; cbn [lookup] in H; [discriminate|].
  destruct (tp_eqb t k0) eqn:E.
  - apply tp_eqb_eq in E; subst; inversion H; left; reflexivity.
  - right; apply IH; exact H.
Qed.

(* ------------------------------------------------------------ merge *)
Lemma In_merge1 : forall s c t o, In (t, o) (merge1 s c) -> In (t, o) s \/ (t, o) = c.
Proof.
  intros s [k v] t o H; unfold merge1 in H; cbn [fst snd] in H.
  destruct (lookup s k).
  - destruct (v >? z); [|left; exact H].
    apply In_aset in H; destruct H as [H|[-> ->]]; auto.
  - apply In_aset in H; destruct H as [H|[-> ->]]; auto.
Qed.
Lemma In_merge : forall cs s t o, In (t, o) (merge s cs) -> In (t, o) s \/ In (t, o) cs.
Proof.
  unfold merge. induction cs as [|c cs IH]; intros s t o H; cbn [fold_left] in H; [left; exact H|].
  apply IH in H; destruct H as [H|H]; [|right; right; exact H].
  apply In_merge1 in H; destruct H as [H|H]; [left; exact H|right; left; symmetry; exact H].
Qed.

(* the stash value only grows, and covers every merged commit *)
Definition le_opt (c : Z) (o : option Z) : Prop := exists c', o = Some c' /\ c <= c'.

Lemma merge1_mono : forall s c t x, le_opt x (lookup s t) -> le_opt x (lookup (merge1 s c) t).
Proof.
  intros s [k v] t x [c' [H L]]; unfold merge1; cbn [fst snd].
  destruct (lookup s k) eqn:E.
  - destruct (v >? z) eqn:G; [|exists c'; auto].
    rewrite lookup_aset. destruct (tp_eqb t k) eqn:Ek; [|exists c'; auto].
    apply tp_eqb_eq in Ek; subst. rewrite E in H; inversion H; subst. exists v; split; [reflexivity|lia].
  - rewrite lookup_aset. destruct (tp_eqb t k) eqn:Ek; [|exists c'; auto].
    apply tp_eqb_eq in Ek; subst; congruence.
Qed.
Lemma merge1_covers : forall s k v, le_opt v (lookup (merge1 s (k, v)) k).
Proof.
  intros s k v; unfold merge1; cbn [fst snd]. destruct (lookup s k) eqn:E.
  - destruct (v >? z) eqn:G.
    + rewrite lookup_aset_same; exists v; split; [reflexivity|lia].
    + exists z; split; [exact E|lia].
  - rewrite lookup_aset_same; exists v; split; [reflexivity|lia].
Qed.
Lemma merge_mono : forall cs s t x, le_opt x (lookup s t) -> le_opt x (lookup (merge s cs) t).
Proof.
  unfold merge; induction cs as [|c cs IH]; intros s t x H; cbn [fold_left]; [exact H|].
  apply IH; apply merge1_mono; exact H.
Qed.
Lemma merge_covers : forall cs s t v, In (t, v) cs -> le_opt v (lookup (merge s cs) t).
Proof.
  unfold merge; induction cs as [|c cs IH]; intros s t v H; [destruct H|]. cbn [fold_left].
  destruct H as [H|H].
  - subst c. apply (merge_mono cs). apply merge1_covers.
  - apply IH; exact H.
Qed.

Lemma foldmerge_mono : forall (rqs : list creq) s t x, le_opt x (lookup s t) ->
  le_opt x (lookup (fold_left (fun acc rq => merge acc (cq_commits rq)) rqs s) t).
Proof.
  induction rqs as [|rq rqs IH]; intros s t x H; cbn [fold_left]; [exact H|].
  apply IH; apply merge_mono; exact H.
Qed.
Lemma foldmerge_covers : forall (rqs : list creq) s rq t v, In rq rqs -> In (t, v) (cq_commits rq) ->
  le_opt v (lookup (fold_left (fun acc rq => merge acc (cq_commits rq)) rqs s) t).
Proof.
  induction rqs as [|rq0 rqs IH]; intros s rq t v H Hc; [destruct H|]. cbn [fold_left].
  destruct H as [H|H].
  - subst rq0. apply foldmerge_mono. apply merge_covers; exact Hc.
  - eapply IH; eauto.
Qed.
Lemma In_foldmerge : forall (rqs : list creq) s t o,
  In (t, o) (fold_left (fun acc rq => merge acc (cq_commits rq)) rqs s) ->
  In (t, o) s \/ exists rq, In rq rqs /\ In (t, o) (cq_commits rq).
Proof.
  induction rqs as [|rq rqs IH]; intros s t o H; cbn [fold_left] in H; [left; exact H|].
  apply IH in H; destruct H as [H|[rq' [H1 H2]]].
  - apply In_merge in H; destruct H; [left; assumption|right; exists rq; split; [left; reflexivity|assumption]].
  - right; exists rq'; split; [right; assumption|assumption].
Qed.

(* ------------------------------------------------------------ store *)
Lemma lookup_store : forall offs m t,
  lookup (store m offs) t = match lookup offs t with Some c => Some c | None => lookup m t end.
Proof.
  unfold store; induction offs as [|[k v] offs IH]; intros m t; cbn [fold_right lookup fst snd]; [reflexivity|].
  rewrite lookup_aset. destruct (tp_eqb t k); [reflexivity|apply IH].
Qed.

(* ------------------------------------------------------------ functional update *)
Lemma upd_same : forall f r x, upd f r x r = x.
Proof. intros; unfold upd; rewrite Nat.eqb_refl; reflexivity. Qed.
Lemma upd_other : forall f r x r', r' <> r -> upd f r x r' = f r'.
Proof. intros f r x r' H; unfold upd. apply Nat.eqb_neq in H; rewrite H; reflexivity. Qed.

(* ------------------------------------------------------------ replies / finish *)
Lemma replies_events : forall r ws w res es w',
  replies r ws w res = (es, w') ->
  forall e, In e es -> exists id, In id ws /\ e = EvCommitRet r id res.
Proof.
  induction ws as [|id ws IH]; intros w res es w' H e He; cbn [replies] in H.
  - inversion H; subst; destruct He.
  - destruct (replies r ws w res) as [es0 w0] eqn:E.
    destruct (memnat id w0).
    + inversion H; subst. destruct He as [He|He].
      * exists id; split; [left; reflexivity|symmetry; exact He].
      * destruct (IH _ _ _ _ E e He) as [i [Hi Hei]]; exists i; split; [right; exact Hi|exact Hei].
    + inversion H; subst. destruct (IH _ _ _ _ E e He) as [i [Hi Hei]]; exists i; split; [right; exact Hi|exact Hei].
Qed.

Lemma finish_hist : forall cfg s r x ws final (ok : bool) code pre,
  exists es w, replies r ws (rd_waiting x) (if ok then RNil else RErr code) = (es, w) /\
    st_hist (finish cfg s r x ws final ok code pre) = es ++ pre ++ st_hist s.
Proof.
  intros; unfold finish. destruct (replies r ws (rd_waiting x) (if ok then RNil else RErr code)) as [es w].
  exists es, w; split; [reflexivity|]. cbn [push st_hist set_rd]. rewrite app_assoc; reflexivity.
Qed.

Lemma finish_co : forall cfg s r x ws final (ok : bool) code pre,
  st_co (finish cfg s r x ws final ok code pre) = st_co s.
Proof. intros; unfold finish. destruct (replies _ _ _ _); reflexivity. Qed.
Lemma finish_hw : forall cfg s r x ws final (ok : bool) code pre,
  st_hw (finish cfg s r x ws final ok code pre) = st_hw s.
Proof. intros; unfold finish. destruct (replies _ _ _ _); reflexivity. Qed.
Lemma finish_ncall : forall cfg s r x ws final (ok : bool) code pre,
  st_ncall (finish cfg s r x ws final ok code pre) = st_ncall s.
Proof. intros; unfold finish. destruct (replies _ _ _ _); reflexivity. Qed.

Lemma finish_rd_other : forall cfg s r x ws final (ok : bool) code pre r',
  r' <> r -> st_rd (finish cfg s r x ws final ok code pre) r' = st_rd s r'.
Proof. intros; unfold finish. destruct (replies _ _ _ _); cbn [push set_rd st_rd]. apply upd_other; assumption. Qed.

Lemma finish_rd_same : forall cfg s r x ws final (ok : bool) code pre,
  exists w,
  st_rd (finish cfg s r x ws final ok code pre) r =
    with_loop x (rd_commits x) w (if final then CLExited else CLIdle)
      (if final then [] else if cfg_sync cfg then [] else if ok then [] else rd_stash x).
Proof.
  intros; unfold finish. destruct (replies _ _ _ _) as [es w]; cbn [push set_rd st_rd].
  exists w. rewrite upd_same; reflexivity.
Qed.

(* ------------------------------------------------------------ hist_ok: a predicate on every
   event together with the history before it *)
Section HistOk.
  Variable P : event -> list event -> Prop.
  Fixpoint hist_ok (h : list event) {struct h} : Prop :=
    match h with
    | [] => True
    | e :: rest => P e rest /\ hist_ok rest
    end.
  Lemma hist_ok_split : forall h h1 e h2, hist_ok h -> h = h1 ++ e :: h2 -> P e h2.
  Proof.
    intros h h1; revert h. induction h1 as [|a h1 IH]; intros h e h2 H E; subst h; cbn in H.
    - tauto.
    - eapply IH; [exact (proj2 H)|reflexivity].
  Qed.
  Lemma hist_ok_app : forall es h, hist_ok h ->
    (forall e1 esa esb, es = esa ++ e1 :: esb -> P e1 (esb ++ h)) -> hist_ok (es ++ h).
  Proof.
    induction es as [|a es IH]; intros h H Hs; cbn; [exact H|].
    split.
    - apply (Hs a [] es); reflexivity.
    - apply IH; [exact H|]. intros e1 esa esb E; apply (Hs e1 (a :: esa) esb); rewrite E; reflexivity.
  Qed.
End HistOk.

(* ------------------------------------------------------------ step tactics *)
Ltac destr_step H :=
  repeat match type of H with
  | Some _ = Some _ => inversion H; subst; clear H
  | None = Some _ => discriminate H
  | (if ?x then _ else _) = Some _ => let E := fresh "E" in destruct x eqn:E
  | (let '(a, b) := ?x in _) = Some _ => let E := fresh "E" in destruct x eqn:E
  | match ?x with _ => _ end = Some _ => let E := fresh "E" in destruct x eqn:E
  end.

(* every step only extends the history *)
Lemma step_hist_ext : forall cfg s l s', step cfg s l = Some s' -> exists es, st_hist s' = es ++ st_hist s.
Proof.
  intros cfg s l s' H. destruct l; cbn [step] in H; destr_step H;
    cbn [push set_rd set_co st_hist];
    try (eexists; reflexivity);
    try (exists []; reflexivity);
    try (match goal with |- context [finish ?c ?s ?r ?x ?ws ?f ?ok ?cd ?pre] =>
           destruct (finish_hist c s r x ws f ok cd pre) as [es [w [_ Hh]]]; rewrite Hh;
           cbn [set_co st_hist]; exists (es ++ pre); rewrite app_assoc; reflexivity end).
Qed.
