(* Proofs/TransportConnectProofs.v — nothing is pooled in a closed connGroup, and once the group is
   closed and no set-up or request is in progress every connection that was set up is closed. *)
From Coq Require Import List Arith Bool Lia.
From KV Require Import Lib.LTS Model.TransportConnect.
Import ListNotations.

Lemma tc_nth_upd : forall l i j x,
  nth_error (tc_upd i x l) j = if Nat.eqb i j then (match nth_error l j with Some _ => Some x | None => None end) else nth_error l j.
Proof.
  induction l; intros [|i] [|j] x; simpl; auto; try (destruct (Nat.eqb i j); destruct j; reflexivity).
Qed.

Definition tc_inv (s : tcstate) : Prop :=
  tc_closed s = true -> forall i, nth_error (tc_conns s) i <> Some TPooled.

Lemma tc_inv_step : forall s l s', tc_inv s -> tc_step s l = Some s' -> tc_inv s'.
Proof.
  intros s l s' I St. unfold tc_inv in *.
  destruct l; simpl in St;
  repeat match type of St with context [match ?x with _ => _ end] => destruct x eqn:?; try discriminate end;
  injection St as St; subst s'; simpl; intros C j H;
  try (rewrite tc_nth_upd in H; destruct (Nat.eqb_spec i j);
       [ subst; repeat match goal with E : nth_error _ _ = Some _ |- _ => rewrite E in H end;
         unfold tc_release in H; try rewrite C in H; discriminate
       | exact (I C j H) ]).
  - (* TConnect *) destruct (Nat.lt_ge_cases j (length (tc_conns s))).
    + rewrite nth_error_app1 in H by auto. exact (I C j H).
    + rewrite nth_error_app2 in H by auto. destruct (j - length (tc_conns s)) as [|[|]]; discriminate.
  - (* TClosePool *) rewrite nth_error_map in H. destruct (nth_error (tc_conns s) j) as [[]|]; discriminate.
Qed.

Theorem tc_closed_pool_proof : forall ls s, run tc_step tc_init ls = Some s ->
  (tc_closed s = true -> forall i, nth_error (tc_conns s) i <> Some TPooled) /\
  (tc_closed s = true -> forallb (fun c => negb (tc_active c)) (tc_conns s) = true ->
     forallb (fun c => negb (tc_open c)) (tc_conns s) = true).
Proof.
  intros ls s R.
  assert (I : tc_inv s).
  { eapply (inv_run _ _ tc_step tc_inv); [apply tc_inv_step| |exact R]. intros C i H. destruct i; discriminate. }
  split; [exact I|]. intros C A. apply forallb_forall. intros x Hx.
  apply In_nth_error in Hx as (i & Hi). rewrite forallb_forall in A.
  pose proof (A x (nth_error_In _ _ Hi)) as Ax. destruct x; try reflexivity; try discriminate.
  exfalso. exact (I C i Hi).
Qed.

(* a connection serving a request the broker never answers does not stay in use: the request's deadline
   is enabled and closes it — also in a closed group, where no other step would reach it *)
Theorem tc_busy_bounded_proof : forall ls s i, run tc_step tc_init ls = Some s ->
  nth_error (tc_conns s) i = Some TBusy ->
  tc_step s (TDeadline i) = Some (tc_set i TClosed s) /\
  (tc_closed s = true -> tc_step s (TRelease i) = Some (tc_set i TClosed s)).
Proof.
  intros ls s i _ H. unfold tc_step, tc_release. rewrite H. split; [reflexivity|]. intros C. rewrite C. reflexivity.
Qed.

(* the set-up that completes after its requester left: pooled while the group is open, closed once it is closed *)
Theorem tc_late_setup_proof : forall ls s i, run tc_step tc_init ls = Some s ->
  nth_error (tc_conns s) i = Some (TSetup false) ->
  tc_step s (TSetupOk i) = Some (tc_set i (if tc_closed s then TClosed else TPooled) s).
Proof. intros ls s i _ H. unfold tc_step. rewrite H. reflexivity. Qed.

Example tc_late_setup_example :
  option_map tc_conns (run tc_step tc_init tc_late_setup) = Some [TClosed].
Proof. reflexivity. Qed.
