(* Proofs/GroupBalancersLeader.v — the group leader's glue: extractTopics and
   assignTopicPartitions composed with the balancers *)
From Coq Require Import List NArith ZArith Bool Arith Lia Permutation Sorted.
From KV Require Import Model.GroupBalancers Proofs.GroupBalancersBase Proofs.GroupBalancersRange
  Proofs.GroupBalancersRR Proofs.GroupBalancersProofs Proofs.GroupBalancersRackGlobal.
Import ListNotations.

Lemma existsb_eqb_in t (l : list bytes) : existsb (bytes_eqb t) l = true <-> In t l.
Proof.
  rewrite existsb_exists. split.
  - intros [x [H1 H2]]. destruct (bytes_eqb_spec t x); congruence.
  - intros H. exists t. split; [exact H|apply bytes_eqb_refl].
Qed.

(* ---- extractTopics ---- *)
Lemma add_topics_in acc l x : In x (add_topics acc l) <-> In x acc \/ In x l.
Proof.
  unfold add_topics. revert acc. induction l as [|t l IH]; intros acc; cbn [fold_left In]; [tauto|].
  rewrite IH. destruct (existsb (bytes_eqb t) acc) eqn:E.
  - apply existsb_eqb_in in E. split; [tauto|]. intros [H|[<-|H]]; tauto.
  - rewrite in_app_iff. cbn [In]. tauto.
Qed.

Lemma add_topics_nodup acc l : NoDup acc -> NoDup (add_topics acc l).
Proof.
  unfold add_topics. revert acc. induction l as [|t l IH]; intros acc H; cbn [fold_left]; [exact H|].
  apply IH. destruct (existsb (bytes_eqb t) acc) eqn:E; [exact H|].
  apply NoDup_rev in H. rewrite <- (rev_involutive (acc ++ [t])). apply NoDup_rev.
  rewrite rev_app_distr. cbn. constructor; [|exact H].
  rewrite <- in_rev. intros Hin. apply existsb_eqb_in in Hin. congruence.
Qed.

Lemma extract_raw_in ms acc x :
  In x (fold_left (fun acc m => add_topics acc (m_topics m)) ms acc) <->
  In x acc \/ exists m, In m ms /\ In x (m_topics m).
Proof.
  revert acc. induction ms as [|m ms IH]; intros acc; cbn [fold_left].
  - split; [auto|]. intros [H|[m [[] _]]]. exact H.
  - rewrite IH, add_topics_in. split.
    + intros [[H|H]|[m' [H1 H2]]]; [tauto| |].
      * right. exists m. split; [left; reflexivity|exact H].
      * right. exists m'. split; [right; exact H1|exact H2].
    + intros [H|[m' [[->|H1] H2]]]; [tauto|tauto|]. right. exists m'. tauto.
Qed.

Lemma extract_raw_nodup ms acc : NoDup acc ->
  NoDup (fold_left (fun acc m => add_topics acc (m_topics m)) ms acc).
Proof.
  revert acc. induction ms as [|m ms IH]; intros acc H; cbn [fold_left]; [exact H|].
  apply IH, add_topics_nodup, H.
Qed.

Lemma insert_bytes_perm x l : Permutation (insert_bytes x l) (x :: l).
Proof.
  induction l as [|y l IH]; cbn [insert_bytes]; [reflexivity|].
  destruct (bytes_ltb y x); [|reflexivity]. rewrite IH. apply perm_swap.
Qed.

Lemma sort_bytes_perm l : Permutation (sort_bytes l) l.
Proof.
  induction l as [|x l IH]; cbn [sort_bytes fold_right]; [reflexivity|].
  fold (sort_bytes l). rewrite insert_bytes_perm, IH. reflexivity.
Qed.

Definition bytes_lt (a b : bytes) : Prop := bytes_ltb a b = true.

Lemma insert_bytes_sorted x l :
  StronglySorted bytes_lt l -> ~ In x l -> StronglySorted bytes_lt (insert_bytes x l).
Proof.
  induction l as [|y l IH]; cbn [insert_bytes In]; intros Hs Hn.
  - constructor; constructor.
  - inversion Hs; subst. destruct (bytes_ltb y x) eqn:E.
    + constructor; [apply IH; [assumption|tauto]|].
      rewrite Forall_forall. intros z Hz.
      apply (Permutation_in _ (insert_bytes_perm x l)) in Hz. destruct Hz as [<-|Hz]; [exact E|].
      rewrite Forall_forall in H2. apply H2. exact Hz.
    + assert (Hxy : bytes_lt x y).
      { unfold bytes_lt. destruct (bytes_ltb x y) eqn:E2; [reflexivity|].
        exfalso. apply Hn. left. apply bytes_ltb_total; assumption. }
      constructor; [exact Hs|]. constructor; [exact Hxy|].
      rewrite Forall_forall in *. intros z Hz. unfold bytes_lt in *.
      eapply bytes_ltb_trans; [exact Hxy|apply H2; exact Hz].
Qed.

Lemma sort_bytes_sorted l : NoDup l -> StronglySorted bytes_lt (sort_bytes l).
Proof.
  induction l as [|x l IH]; cbn [sort_bytes fold_right]; intros H; [constructor|].
  fold (sort_bytes l). inversion H; subst.
  apply insert_bytes_sorted; [apply IH; assumption|].
  intros Hin. apply H2. eapply Permutation_in; [apply sort_bytes_perm|exact Hin].
Qed.

(* the leader requests exactly the subscribed topics, each once, sorted *)
Lemma extract_topics_spec ms :
  (forall t, In t (extract_topics ms) <-> exists m, In m ms /\ In t (m_topics m)) /\
  NoDup (extract_topics ms) /\
  StronglySorted (fun a b => bytes_ltb a b = true) (extract_topics ms).
Proof.
  unfold extract_topics, extract_topics_raw.
  assert (Hnd : NoDup (fold_left (fun acc m => add_topics acc (m_topics m)) ms []))
    by (apply extract_raw_nodup; constructor).
  split; [|split].
  - intros t. split.
    + intros H. apply (Permutation_in _ (sort_bytes_perm _)) in H.
      apply extract_raw_in in H. destruct H as [[]|H]. exact H.
    + intros H. apply (Permutation_in _ (Permutation_sym (sort_bytes_perm _))).
      apply extract_raw_in. right. exact H.
  - eapply Permutation_NoDup; [apply Permutation_sym, sort_bytes_perm|exact Hnd].
  - apply sort_bytes_sorted. exact Hnd.
Qed.

Lemma extract_topics_subscribed ms t :
  existsb (bytes_eqb t) (extract_topics ms) = existsb (subscribes t) ms.
Proof.
  destruct (extract_topics_spec ms) as [H _].
  destruct (existsb (subscribes t) ms) eqn:E.
  - apply existsb_eqb_in, H. apply existsb_exists in E. destruct E as [m [Hm Hs]].
    exists m. rewrite <- subscribes_iff. tauto.
  - destruct (existsb (bytes_eqb t) (extract_topics ms)) eqn:E2; [|reflexivity].
    apply existsb_eqb_in, H in E2. destruct E2 as [m [Hm Ht]].
    assert (existsb (subscribes t) ms = true)
      by (apply existsb_exists; exists m; rewrite subscribes_iff; tauto).
    congruence.
Qed.

(* ---- the broker's answer restricted to a topic ---- *)
Lemma find_partitions_read t cluster topics :
  find_partitions t (read_partitions cluster topics) =
  if existsb (bytes_eqb t) topics then find_partitions t cluster else [].
Proof.
  unfold find_partitions, read_partitions.
  induction cluster as [|p cl IH]; cbn [filter map]; [destruct (existsb _ topics); reflexivity|].
  destruct (bytes_eqb_spec (p_topic p) t) as [E|N].
  - rewrite E. destruct (existsb (bytes_eqb t) topics) eqn:Et; cbn [filter].
    + rewrite E, bytes_eqb_refl. cbn [map]. f_equal. exact IH.
    + exact IH.
  - destruct (existsb (bytes_eqb (p_topic p)) topics); cbn [filter]; [|exact IH].
    rewrite bytes_eqb_neq by exact N. exact IH.
Qed.

Lemma find_partitions_app t a b :
  find_partitions t (a ++ b) = find_partitions t a ++ find_partitions t b.
Proof. unfold find_partitions. rewrite filter_app, map_app. reflexivity. Qed.

Lemma find_partitions_flat_map {A} t (f : A -> list partition) l :
  find_partitions t (flat_map f l) = flat_map (fun x => find_partitions t (f x)) l.
Proof.
  induction l as [|x l IH]; [reflexivity|]. cbn [flat_map]. rewrite find_partitions_app, IH. reflexivity.
Qed.

Lemma topic_missing_nil cluster t : topic_exists cluster t = false -> find_partitions t cluster = [].
Proof.
  unfold topic_exists, find_partitions. induction cluster as [|p cl IH]; [reflexivity|].
  cbn [existsb filter]. destruct (bytes_eqb (p_topic p) t); cbn [orb]; [discriminate|exact IH].
Qed.

(* one single-topic request: the partitions of that topic, or nothing when it is unknown *)
Lemma find_partitions_single t t' cluster :
  find_partitions t (match broker_read cluster [t'] with Some ps => ps | None => [] end) =
  if bytes_eqb t t' then find_partitions t cluster else [].
Proof.
  unfold broker_read. cbn [forallb]. rewrite andb_true_r.
  destruct (topic_exists cluster t') eqn:E.
  - rewrite find_partitions_read. cbn [existsb]. rewrite orb_false_r. reflexivity.
  - destruct (bytes_eqb_spec t t') as [->|]; [|reflexivity].
    rewrite (topic_missing_nil _ _ E). reflexivity.
Qed.

Lemma find_partitions_read_each t cluster topics : NoDup topics ->
  find_partitions t (read_each cluster topics) =
  if existsb (bytes_eqb t) topics then find_partitions t cluster else [].
Proof.
  unfold read_each. rewrite find_partitions_flat_map.
  induction topics as [|t' l IH]; intros Hnd; [reflexivity|].
  inversion Hnd; subst. cbn [flat_map existsb]. rewrite find_partitions_single, IH by assumption.
  destruct (bytes_eqb_spec t t') as [->|N]; cbn [orb app]; [|reflexivity].
  destruct (existsb (bytes_eqb t') l) eqn:E; [|apply app_nil_r].
  apply existsb_eqb_in in E. contradiction.
Qed.

Lemma broker_read_missing cluster topics : broker_read cluster topics = None ->
  exists t, In t topics /\ topic_exists cluster t = false.
Proof.
  unfold broker_read. destruct (forallb (topic_exists cluster) topics) eqn:E; [discriminate|].
  intros _. induction topics as [|t l IH]; [discriminate|]. cbn [forallb] in E.
  destruct (topic_exists cluster t) eqn:Et.
  - destruct (IH E) as [t' [H1 H2]]. exists t'. split; [right; exact H1|exact H2].
  - exists t. split; [left; reflexivity|exact Et].
Qed.

(* with or without the fallback, the balancer is handed, for a topic, all the cluster has
   of it iff somebody subscribes (nothing for a topic the cluster lacks) *)
Lemma find_partitions_leader ms cluster t :
  find_partitions t (leader_partitions ms cluster) =
  if existsb (subscribes t) ms then find_partitions t cluster else [].
Proof.
  unfold leader_partitions. rewrite <- extract_topics_subscribed.
  destruct (extract_topics_spec ms) as [_ [Hnd _]].
  destruct (broker_read cluster (extract_topics ms)) as [ps|] eqn:E.
  - unfold broker_read in E. destruct (forallb _ _); [|discriminate]. inversion E; subst.
    apply find_partitions_read.
  - destruct (Nat.ltb_spec 1 (length (extract_topics ms))) as [Hl|Hl].
    + apply find_partitions_read_each. exact Hnd.
    + destruct (broker_read_missing _ _ E) as [t0 [Hin Hmiss]].
      destruct (extract_topics ms) as [|t1 [|t2 l]]; [destruct Hin| |cbn in Hl; lia].
      destruct Hin as [->|[]]. cbn [existsb find_partitions filter map]. rewrite orb_false_r.
      destruct (bytes_eqb_spec t t0) as [->|]; [|reflexivity].
      rewrite (topic_missing_nil _ _ Hmiss). reflexivity.
Qed.

(* the requests: the sorted union first; after an unknown-topic failure with more than one
   topic, one request per topic in the same order *)
Lemma leader_requests_spec ms cluster :
  let topics := extract_topics ms in
  leader_requests ms cluster =
  if forallb (topic_exists cluster) topics then [topics]
  else if 1 <? length topics then topics :: map (fun t => [t]) topics else [topics].
Proof.
  cbv zeta. unfold leader_requests, broker_read.
  destruct (forallb (topic_exists cluster) (extract_topics ms)); [reflexivity|].
  destruct (1 <? length (extract_topics ms)); reflexivity.
Qed.

Lemma leader_missing_topic_nothing ms cluster a t :
  exact_partition ms cluster a -> topic_exists cluster t = false -> topic_parts a t = [].
Proof.
  intros [_ [_ H]] Hm. specialize (H t). rewrite (topic_missing_nil _ _ Hm) in H.
  destruct (existsb (subscribes t) ms); apply Permutation_sym, Permutation_nil in H; exact H.
Qed.

(* ---- transfer of the balancer theorems from "the partitions handed to the balancer"
        to "the partitions the cluster has" ---- *)
Lemma exact_partition_leader ms cluster a :
  exact_partition ms (leader_partitions ms cluster) a -> exact_partition ms cluster a.
Proof.
  intros [H1 [H2 H3]]. split; [exact H1|]. split; [exact H2|].
  intros t. specialize (H3 t). rewrite find_partitions_leader in H3.
  destruct (existsb (subscribes t) ms); exact H3.
Qed.

Lemma even_loads_leader ms cluster a :
  even_loads ms (leader_partitions ms cluster) a -> even_loads ms cluster a.
Proof.
  intros H t m1 m2 I1 I2 T1 T2. specialize (H t m1 m2 I1 I2 T1 T2). cbv zeta in *.
  rewrite find_partitions_leader in H.
  assert (E : existsb (subscribes t) ms = true)
    by (apply existsb_exists; exists m1; rewrite subscribes_iff; tauto).
  rewrite E in H. exact H.
Qed.

Lemma leader_range_partition ms cluster : wf_group ms -> exact_partition ms cluster (leader_range ms cluster).
Proof. intros H. apply exact_partition_leader, range_partition, H. Qed.
Lemma leader_rr_partition ms cluster : wf_group ms -> exact_partition ms cluster (leader_rr ms cluster).
Proof. intros H. apply exact_partition_leader, rr_partition, H. Qed.
Lemma leader_rack_partition zo ro ms cluster a : wf_group ms ->
  rack_orders_ok zo ro (leader_partitions ms cluster) ->
  leader_rack zo ro ms cluster = Some a -> exact_partition ms cluster a.
Proof. intros H Ho E. apply exact_partition_leader. eapply rack_partition; eassumption. Qed.
Lemma leader_rack_no_panic zo ro ms cluster : wf_group ms ->
  rack_orders_ok zo ro (leader_partitions ms cluster) ->
  exists a, leader_rack zo ro ms cluster = Some a.
Proof. intros H Ho. apply rack_no_panic; assumption. Qed.

Lemma leader_range_even ms cluster : wf_group ms -> even_loads ms cluster (leader_range ms cluster).
Proof. intros H. apply even_loads_leader, range_even, H. Qed.
Lemma leader_rr_even ms cluster : wf_group ms -> even_loads ms cluster (leader_rr ms cluster).
Proof. intros H. apply even_loads_leader, rr_even, H. Qed.
Lemma leader_rack_even zo ro ms cluster a : wf_group ms ->
  rack_orders_ok zo ro (leader_partitions ms cluster) ->
  leader_rack zo ro ms cluster = Some a -> even_loads ms cluster a.
Proof. intros H Ho E. apply even_loads_leader. eapply rack_even; eassumption. Qed.

(* end to end: every partition the cluster has of a subscribed topic has exactly one
   holder, a subscriber *)
Definition one_holder (ms : list member) (a : list triple) (t : bytes) (p : Z) : Prop :=
  exists m, In m ms /\ In t (m_topics m) /\ In p (assigned a (m_id m) t) /\
    forall m', In m' ms -> In p (assigned a (m_id m') t) -> m' = m.

Lemma leader_exactly_one ms cluster t p : wf_group ms ->
  NoDup (find_partitions t cluster) -> In p (find_partitions t cluster) ->
  (exists m, In m ms /\ In t (m_topics m)) ->
  one_holder ms (leader_range ms cluster) t p /\
  one_holder ms (leader_rr ms cluster) t p /\
  forall zo ro a, rack_orders_ok zo ro (leader_partitions ms cluster) ->
    leader_rack zo ro ms cluster = Some a -> one_holder ms a t p.
Proof.
  intros H Hnd Hp [m [Hm Ht]].
  assert (E : existsb (subscribes t) ms = true)
    by (apply existsb_exists; exists m; rewrite subscribes_iff; tauto).
  split; [|split].
  - apply (exactly_one_holder ms cluster); auto using leader_range_partition.
  - apply (exactly_one_holder ms cluster); auto using leader_rr_partition.
  - intros zo ro a Ho Ea. apply (exactly_one_holder ms cluster); auto.
    eapply leader_rack_partition; eassumption.
Qed.

(* one statement for the three balancers *)
Definition leader_result (ms : list member) (cluster : list partition) (a : list triple) : Prop :=
  a = leader_range ms cluster \/ a = leader_rr ms cluster \/
  (exists zo ro, rack_orders_ok zo ro (leader_partitions ms cluster) /\
                 leader_rack zo ro ms cluster = Some a).

Lemma leader_partition_all ms cluster : wf_group ms ->
  forall a, leader_result ms cluster a -> exact_partition ms cluster a.
Proof.
  intros H a [->|[->|[zo [ro [Ho E]]]]].
  - apply leader_range_partition, H.
  - apply leader_rr_partition, H.
  - eapply leader_rack_partition; eassumption.
Qed.

Lemma leader_even_all ms cluster : wf_group ms ->
  forall a, leader_result ms cluster a -> even_loads ms cluster a.
Proof.
  intros H a [->|[->|[zo [ro [Ho E]]]]].
  - apply leader_range_even, H.
  - apply leader_rr_even, H.
  - eapply leader_rack_even; eassumption.
Qed.
