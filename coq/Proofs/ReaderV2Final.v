(* Proofs/ReaderV2Final.v — C02, L1, stage 1: the fetch contract for responses made of
   uncompressed v2 batches (compaction holes and record-less batches included), for every
   fetch offset and every legal cut. *)
From Coq Require Import List NArith ZArith Bool Lia.
From Coq Require Import ZifyN ZifyNat ZifyBool.
From KV Require Import Lib.Bits Lib.Bytes Model.MsgSetReader Model.ReaderModel Spec.FetchSpec
  Proofs.ReaderPrim Proofs.ReaderV2 Proofs.ReaderV2Run Proofs.ReaderV2Sound Proofs.ReaderProofs.
Import ListNotations.
Open Scope Z_scope.

Lemma ztake_firstn k (l : list N) : ztake (Z.of_nat k) l = firstn k l.
Proof. unfold ztake. rewrite Nat2Z.id. reflexivity. Qed.

Lemma from_offset_split l o :
  exists pre, l = pre ++ from_offset l o /\ Forall (fun b => pb_last b < o) pre.
Proof.
  induction l as [|b t IH]; [exists []; split; [reflexivity|constructor]|].
  cbn [from_offset]. destruct (pb_last b <? o) eqn:E.
  - destruct IH as (pre & H1 & H2). exists (b :: pre). split; [cbn; f_equal; exact H1|].
    constructor; [lia|exact H2].
  - exists []. split; [reflexivity|constructor].
Qed.

Lemma encs_eq compress bs :
  Forall (fun b => pb_fmt b = 2) bs -> flat_map (enc_batch compress) bs = encs compress bs.
Proof.
  induction bs as [|b t IH]; intros H2; [reflexivity|].
  apply Forall_cons_iff in H2 as [Hb H2].
  cbn [flat_map encs]. fold (encs compress t). rewrite IH by assumption. f_equal.
  apply enc1_eq. exact Hb.
Qed.

Lemma increasing_app_l lo a b : increasing lo (a ++ b) -> increasing lo a.
Proof.
  revert lo. induction a as [|x t IH]; intros lo H; [exact I|].
  destruct H as [H1 H2]. split; [exact H1|apply (IH _ H2)].
Qed.
Lemma increasing_app_r a : forall lo b, increasing lo (a ++ b) -> exists lo2, increasing lo2 b.
Proof.
  induction a as [|x t IH]; intros lo b H; [exists lo; exact H|].
  destruct H as [_ H2]. apply (IH _ _ H2).
Qed.

Lemma ranges_ok_app a : forall lo b, ranges_ok lo (a ++ b) -> exists lo2, ranges_ok lo2 b.
Proof.
  induction a as [|x t IH]; intros lo b H; [exists lo; exact H|].
  destruct H as [_ H2]. apply (IH _ _ H2).
Qed.

Lemma chain_of : forall l lo,
  Forall pbatch_ok l -> ranges_ok lo l -> (exists lo', increasing lo' (flat_map pb_recs l)) -> chain lo l.
Proof.
  induction l as [|b t IH]; intros lo Hp Hr Hi; [exact I|].
  apply Forall_cons_iff in Hp as [Hb Hp]. destruct Hr as [R1 R2]. destruct Hi as [lo' Hi].
  cbn [flat_map] in Hi.
  destruct Hb as (_ & _ & _ & Hlod & _ & Hin & _).
  cbn [chain]. split; [exact R1|]. split; [lia|]. split; [|split].
  - pose proof (increasing_app_l _ _ _ Hi) as H1.
    destruct (pb_recs b) as [|r rs]; [exact I|].
    destruct H1 as [_ H1]. apply Forall_cons_iff in Hin as [[Hr1 _] _]. split; [lia|exact H1].
  - eapply Forall_impl; [|exact Hin]. cbn. intros a [Ha _]. lia.
  - apply IH; [exact Hp|exact R2|]. apply (increasing_app_r _ _ _ Hi).
Qed.

Lemma pre_below o pre :
  Forall (fun b => pb_fmt b = 2) pre -> Forall pbatch_ok pre -> Forall (fun b => pb_last b < o) pre ->
  Forall (fun r => r_off r < o) (flat_map pb_recs pre).
Proof.
  induction pre as [|b t IH]; intros H2 Hp Hl; [constructor|].
  apply Forall_cons_iff in H2 as [Hb H2]. apply Forall_cons_iff in Hp as [Hpb Hp].
  apply Forall_cons_iff in Hl as [Hlb Hl]. cbn [flat_map]. apply Forall_app. split; [|apply IH; assumption].
  destruct Hpb as (_ & _ & _ & _ & _ & Hin & _). unfold pb_last in Hlb. rewrite Hb in Hlb. cbn in Hlb.
  eapply Forall_impl; [|exact Hin]. cbn. intros a [Ha _]. lia.
Qed.

Lemma last_off_max' : forall rs lo d r, increasing lo rs -> In r rs -> r_off r <= last_off rs d.
Proof.
  induction rs as [|x t IH]; intros lo d r Hi Hr; [destruct Hr|].
  destruct Hi as [H1 H2]. cbn [last_off]. destruct Hr as [->|Hr].
  - destruct t as [|y t']; [cbn; lia|].
    pose proof (IH _ (r_off r) y H2 (or_introl eq_refl)). destruct H2 as [H2 _]. lia.
  - apply (IH _ _ r H2 Hr).
Qed.

(* the batches before the one that answers a fetch at o hold only records below o *)
Lemma pre_below_gen o : forall pre lo,
  Forall pbatch_ok pre -> Forall (fun b => pb_last b < o) pre -> increasing lo (flat_map pb_recs pre) ->
  Forall (fun r => r_off r < o) (flat_map pb_recs pre).
Proof.
  induction pre as [|b t IH]; intros lo Hp Hl Hi; [constructor|].
  apply Forall_cons_iff in Hp as [Hpb Hp]. apply Forall_cons_iff in Hl as [Hlb Hl].
  cbn [flat_map] in *. apply Forall_app. split.
  - unfold pb_last in Hlb. destruct (pb_fmt b =? 2).
    + destruct Hpb as (_ & _ & _ & _ & _ & Hin & _).
      eapply Forall_impl; [|exact Hin]. cbn. intros a [Ha _]. lia.
    + pose proof (increasing_app_l _ _ _ Hi) as Hib.
      apply Forall_forall. intros r Hr. pose proof (last_off_max' _ _ (pb_base b + pb_lod b) r Hib Hr). lia.
  - destruct (increasing_app_r _ _ _ Hi) as [lo2 Hi2]. apply (IH lo2 Hp Hl Hi2).
Qed.

Lemma filter_all_false {A} (f : A -> bool) l : Forall (fun x => f x = false) l -> filter f l = [].
Proof. induction 1 as [|x t Hx _ IH]; [reflexivity|]. cbn. rewrite Hx. exact IH. Qed.

Lemma filter_ext_in' {A} (f g : A -> bool) l : Forall (fun x => f x = g x) l -> filter f l = filter g l.
Proof. induction 1 as [|x t Hx _ IH]; [reflexivity|]. cbn. rewrite Hx, IH. reflexivity. Qed.

Section Final.
Variable compress : Z -> list N -> list N.
Variable decomp : Z -> list N -> option (list N).
Hypothesis decomp_law : forall c x, decomp c (compress c x) = Some x.

Notation v2ok := (v2ok compress).
Notation encs := (encs compress).
Notation hdr_of := (hdr_of compress).
Notation plen_of := (plen_of compress).

Theorem batch_decode_exact_v2_full log l o k hwm :
  log_ok log -> layout_ok log l ->
  Forall (fun b => pb_fmt b = 2) (from_offset l o) -> Forall v2ok (from_offset l o) ->
  from_offset l o <> [] -> valid_cut compress l o k -> hwm <> o ->
  forall fuel, (S (tokens [] (from_offset l o)) <= fuel)%nat ->
  exists ms f,
    fetch_run decomp fuel o hwm (fetch_response compress l o k) (Z.of_nat k) false = Some (ms, EEOF, f)
    /\ fetch_ok log o ms f
    /\ (forall b r, hd_error (from_offset l o) = Some b -> In r (pb_recs b) -> o <= r_off r -> ms <> []).
Proof.
  intros (Hlog1 & Hlog2) (Hrecs & Hpb & Hranges) Hfmt Hv2 Hne Hcut Hhwm fuel Hfuel.
  destruct (from_offset_split l o) as (pre & Hsplit & Hpre).
  set (bs := from_offset l o) in *.
  destruct bs as [|b1 bs'] eqn:Ebs; [contradiction|].
  (* everything about the suffix *)
  assert (Hfmt_bs : Forall (fun b => pb_fmt b = 2) (b1 :: bs')) by exact Hfmt.
  assert (Hv2_bs : Forall v2ok (b1 :: bs')) by exact Hv2.
  assert (Hpb_bs : Forall pbatch_ok (b1 :: bs')) by (rewrite Hsplit in Hpb; apply Forall_app in Hpb; apply Hpb).
  assert (Hpb_pre : Forall pbatch_ok pre) by (rewrite Hsplit in Hpb; apply Forall_app in Hpb; apply Hpb).
  assert (Hlogsplit : log = flat_map pb_recs pre ++ flat_map pb_recs (b1 :: bs')).
  { rewrite <- Hrecs. unfold layout_records. rewrite Hsplit at 1. apply flat_map_app. }
  assert (Hchain : exists lo, chain lo (b1 :: bs')).
  { rewrite Hsplit in Hranges. destruct (ranges_ok_app _ _ _ Hranges) as [lo2 Hr2]. exists lo2.
    apply chain_of; [exact Hpb_bs|exact Hr2|].
    rewrite Hlogsplit in Hlog2. apply (increasing_app_r _ _ _ Hlog2). }
  destruct Hchain as [lo0 (C1 & C2 & C3 & C4 & C5)].
  apply Forall_cons_iff in Hv2_bs as [Hv1 Hv2'].
  pose proof Hv1 as (Hfit1 & _ & _ & Hne1). pose proof Hfit1 as (Hbase & _).
  (* the bytes *)
  unfold fetch_response, fetch_bytes, enc_layout. fold bs. rewrite Ebs.
  rewrite (encs_eq compress (b1 :: bs') Hfmt_bs).
  unfold valid_cut in Hcut. fold bs in Hcut. rewrite Ebs in Hcut.
  rewrite (enc1_eq compress b1) in Hcut by (apply (Forall_inv Hfmt_bs)).
  destruct Hcut as [Hk1 Hk2].
  assert (Hk61 : 61 <= Z.of_nat k).
  { unfold enc1 in Hk1. rewrite app_length in Hk1. pose proof (hdr61_len b1 (plen_of b1)) as H61. unfold len in H61. lia. }
  rewrite <- ztake_firstn.
  (* the initial position *)
  set (el0 := if Z.of_nat (length (pb_recs b1)) =? 0 then pb_base b1 + pb_lod b1 else -1).
  set (p0 := mkPos b1 (pb_recs b1) bs' (Z.of_nat k - 61) (hdr_of b1) o (-1) el0
                   (if pb_codec b1 =? 0 then MPlain else MPending) 0).
  assert (Hlenk : len (ztake (Z.of_nat k) (encs (b1 :: bs'))) = Z.of_nat k).
  { rewrite ztake_firstn. unfold len. rewrite firstn_length.
    unfold fetch_bytes, enc_layout in Hk2. fold bs in Hk2. rewrite Ebs in Hk2.
    rewrite (encs_eq compress (b1 :: bs') Hfmt_bs) in Hk2. lia. }
  assert (Hstart : fetch_run decomp fuel o hwm (ztake (Z.of_nat k) (encs (b1 :: bs'))) (Z.of_nat k) false
                   = batch_run decomp fuel (conc compress o p0) []).
  { unfold fetch_run, new_batch. replace (hwm =? o) with false by lia.
    unfold new_msr. rewrite <- Hlenk at 2.
    change (mkMsr [mkFrame ?i (len ?i) 0 0 hdr0] false 0 (-1)) with (st i 0 hdr0 0 (-1)).
    cbn [ReaderV2Run.encs flat_map]. fold (encs bs'). unfold enc1. rewrite <- app_assoc.
    rewrite (ztake_app_ge compress decomp decomp_law) by (rewrite hdr61_len; lia). rewrite hdr61_len.
    rewrite (header_ok b1 (plen_of b1) _ 0 hdr0 0 (-1) Hfit1).
    unfold conc, concm, p0. cbn [a_b a_rs a_bs a_j a_hdr a_off a_last a_el a_mode a_lr].
    fold el0.
    destruct (pb_codec b1 =? 0) eqn:Ec.
    - assert (Hpl : payload compress b1 = erecs b1 (pb_recs b1)) by (unfold payload; rewrite Ec; reflexivity).
      assert (Hp : plen_of b1 = len (erecs b1 (pb_recs b1))) by (unfold ReaderV2Run.plen_of; rewrite Hpl; apply blen_len).
      unfold ReaderV2Run.hdr_of. rewrite Hpl, Hp. destruct (pb_recs b1); reflexivity.
    - destruct (pb_recs b1) as [|r1 rs1] eqn:Er1.
      + exfalso. apply Hne1; [lia|reflexivity].
      + reflexivity. }
  rewrite Hstart.
  (* refinement to the abstract reader *)
  assert (Hpos : pos_ok compress p0).
  { unfold pos_ok, p0. cbn [a_b a_rs a_bs a_j a_hdr a_mode a_lr]. split; [lia|]. split; [exact Hv2'|].
    split; [intros _; left; reflexivity|].
    intros _. split; [exact Hv1|]. split; [reflexivity|]. split; [apply incl_refl|].
    destruct (pb_codec b1 =? 0) eqn:Ec; [apply Z.eqb_eq; exact Ec|]. split; [apply Z.eqb_neq; exact Ec|reflexivity]. }
  assert (HT : (T p0 < fuel)%nat).
  { unfold T, p0. cbn [a_rs a_bs]. rewrite (tokens_cons_batch compress decomp decomp_law o) in Hfuel. lia. }
  pose proof (run_refine compress decomp decomp_law o fuel p0 [] Hpos HT) as Href.
  destruct (a_run compress o fuel p0 []) as [[ms x]|] eqn:Erun; [|contradiction].
  exists ms, x. split; [exact Href|].
  (* the offsets *)
  assert (HInv : Inv o p0).
  { split; [unfold p0; cbn [a_off]; lia|].
    unfold p0, el0. cbn [a_b a_rs a_bs a_j a_hdr a_off a_last a_el a_mode a_lr].
    unfold small in Hbase.
    destruct (pb_recs b1) as [|r1 rs1] eqn:Er1.
    - exists (pb_base b1 + pb_lod b1 + 1), (pb_base b1 + pb_lod b1 + 1). cbn [length Z.of_nat Z.eqb].
      split; [exact I|]. split; [exact C5|]. split; [intros r []|]. split; [lia|]. split; [lia|].
      split; [intros _; lia|]. split; [intros H; contradiction|]. intros r _ H. exact H.
    - exists (pb_base b1), (pb_base b1 + pb_lod b1 + 1).
      replace (Z.of_nat (length (r1 :: rs1)) =? 0) with false by (cbn [length]; lia).
      split; [exact C3|]. split; [exact C5|].
      split; [intros r Hr; pose proof (proj1 (Forall_forall _ _) C4 r Hr); cbn in *; lia|].
      split; [lia|]. split; [lia|]. split; [intros H; discriminate H|]. split; [intros _; lia|].
      intros r _ H. exact H. }
  destruct (a_run_spec compress decomp decomp_law o fuel p0 [] ms x HInv Erun) as (Rp & Rs & G1 & G2 & G3 & G4 & G5).
  cbn [rev app] in G2. unfold p0 in G5. cbn [a_off] in G5.
  split.
  2:{ (* progress: the first batch is whole, a record of it at or after o is delivered *)
      intros b r Hb Hr Hor. cbn [hd_error] in Hb. injection Hb as <-.
      apply (a_run_nonempty compress decomp decomp_law o fuel p0 [] ms x HInv Erun).
      apply (a_read_delivers compress decomp decomp_law o (pb_recs b1) p0 fuel eq_refl).
      - unfold covered, p0. cbn [a_rs a_mode a_b a_j].
        destruct (pb_recs b1) as [|r1 rs1] eqn:Er1; [exact I|].
        assert (Hk61p : 61 + plen_of b1 <= Z.of_nat k).
        { unfold enc1 in Hk1. rewrite app_length in Hk1. pose proof (hdr61_len b1 (plen_of b1)) as H61.
          unfold ReaderV2Run.plen_of, blen, len in *. lia. }
        destruct (pb_codec b1 =? 0) eqn:Ec; [|lia].
        assert (Hp : plen_of b1 = len (erecs b1 (r1 :: rs1))).
        { unfold ReaderV2Run.plen_of, payload. rewrite Ec, Er1. apply blen_len. }
        lia.
      - exists r. split; assumption.
      - rewrite (tokens_cons_batch compress decomp decomp_law o) in Hfuel. unfold tokens in Hfuel. lia. }
  left. split; [exact G5|]. rewrite G2. unfold mm. f_equal.
  rewrite Hlogsplit. unfold between. rewrite filter_app.
  assert (Hremp : flat_map pb_recs (b1 :: bs') = Rp ++ Rs) by (rewrite <- G1; unfold remp, p0; reflexivity).
  rewrite Hremp, filter_app.
  rewrite (filter_all_false _ (flat_map pb_recs pre)).
  2:{ assert (Hip : increasing 0 (flat_map pb_recs pre)) by (rewrite Hlogsplit in Hlog2; apply (increasing_app_l _ _ _ Hlog2)).
      eapply Forall_impl; [|apply (pre_below_gen o pre 0 Hpb_pre Hpre Hip)]. cbn. intros a Ha. lia. }
  rewrite (filter_all_false _ Rs).
  2:{ apply Forall_forall. intros r Hr. specialize (G4 r Hr). lia. }
  cbn [app]. rewrite app_nil_r. apply filter_ext_in'.
  eapply Forall_impl; [|exact G3]. cbn. intros a Ha. lia.
Qed.

Theorem batch_decode_exact_v2 log l o k hwm :
  log_ok log -> layout_ok log l ->
  Forall (fun b => pb_fmt b = 2) (from_offset l o) -> Forall v2ok (from_offset l o) ->
  from_offset l o <> [] -> valid_cut compress l o k -> hwm <> o ->
  forall fuel, (S (tokens [] (from_offset l o)) <= fuel)%nat ->
  exists ms f,
    fetch_run decomp fuel o hwm (fetch_response compress l o k) (Z.of_nat k) false = Some (ms, EEOF, f)
    /\ fetch_ok log o ms f.
Proof.
  intros H1 H2 H3 H4 H5 H6 H7 fuel H8.
  destruct (batch_decode_exact_v2_full log l o k hwm H1 H2 H3 H4 H5 H6 H7 fuel H8) as (ms & f & Hr & Hok & _).
  exists ms, f. split; assumption.
Qed.

(* C02_progress for v2 responses: when the first batch of the response (whole, by the cut rule)
   holds a record at or after the fetch offset, at least one message is delivered *)
Theorem progress_v2 log l o k hwm :
  log_ok log -> layout_ok log l ->
  Forall (fun b => pb_fmt b = 2) (from_offset l o) -> Forall v2ok (from_offset l o) ->
  from_offset l o <> [] -> valid_cut compress l o k -> hwm <> o ->
  (exists b r, hd_error (from_offset l o) = Some b /\ In r (pb_recs b) /\ o <= r_off r) ->
  forall fuel ms e f, (S (tokens [] (from_offset l o)) <= fuel)%nat ->
  fetch_run decomp fuel o hwm (fetch_response compress l o k) (Z.of_nat k) false = Some (ms, e, f) ->
  ms <> [].
Proof.
  intros H1 H2 H3 H4 H5 H6 H7 (b & r & Hb & Hr & Hor) fuel ms e f H8 Hrun.
  destruct (batch_decode_exact_v2_full log l o k hwm H1 H2 H3 H4 H5 H6 H7 fuel H8) as (ms0 & f0 & Hr0 & _ & Hp).
  rewrite Hr0 in Hrun. injection Hrun as <- _ _. apply (Hp b r Hb Hr Hor).
Qed.

(* the link to L2: such a response is a legal answer in the sense of ReaderProofs.ev_ok *)
Theorem contract_v2 log l k hwm fuel g :
  log_ok log -> layout_ok log l ->
  Forall (fun b => pb_fmt b = 2) (from_offset l (g_conn g)) -> Forall v2ok (from_offset l (g_conn g)) ->
  from_offset l (g_conn g) <> [] -> valid_cut compress l (g_conn g) k -> hwm <> g_conn g ->
  (S (tokens [] (from_offset l (g_conn g))) <= fuel)%nat ->
  ev_ok (fetch_run decomp fuel) log g
        (GFetch (FData hwm (fetch_response compress l (g_conn g) k) (Z.of_nat k) false)).
Proof.
  intros H1 H2 H3 H4 H5 H6 H7 H8 _.
  destruct (batch_decode_exact_v2 log l (g_conn g) k hwm H1 H2 H3 H4 H5 H6 H7 fuel H8)
    as (ms & f & Hr & Hok).
  exists ms, EEOF, f. split; assumption.
Qed.

End Final.
