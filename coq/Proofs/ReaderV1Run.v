(* Proofs/ReaderV1Run.v — C02, L1, stage 2: a fetch response made of uncompressed v0 / v1
   messages, cut at any legal byte position, is decoded by the model's Batch to exactly the
   wholly contained records at or after the fetch offset. *)
From Coq Require Import List NArith ZArith Bool Lia.
From Coq Require Import ZifyN ZifyNat ZifyBool.
From KV Require Import Lib.Bits Lib.Bytes Lib.Varint Model.MsgSetReader Model.ReaderModel Spec.FetchSpec
  Proofs.ReaderPrim Proofs.ReaderV2 Proofs.ReaderV1 Proofs.ReaderProofs.
Import ListNotations.
Open Scope Z_scope.

Definition item := (Z * record)%type.
Definition enc_item (it : item) : list N := mh (fst it) (snd it) ++ mb (snd it).
Definition stream (items : list item) : list N := flat_map enc_item items.
Definition item_ok (it : item) : Prop := msg_fits (fst it) (snd it).

Lemma ztake_ge j a b : len a <= j -> ztake j (a ++ b) = a ++ ztake (j - len a) b.
Proof.
  intros H. unfold ztake, len in *. rewrite firstn_app.
  rewrite firstn_all2 by lia. f_equal. f_equal. lia.
Qed.
Lemma ztake_lt j a b : 0 <= j < len a ->
  ztake j (a ++ b) = ztake j a /\ a = ztake j a ++ zdrop j a /\ zdrop j a <> [].
Proof.
  intros H. unfold ztake, zdrop, len in *. split; [|split].
  - rewrite firstn_app. replace (Z.to_nat j - length a)%nat with O by lia. cbn. apply app_nil_r.
  - symmetry. apply firstn_skipn.
  - intros Hn. apply (f_equal (@length N)) in Hn. rewrite skipn_length in Hn. cbn in Hn. lia.
Qed.
Lemma ztake_len j a : 0 <= j -> len (ztake j a) = Z.min j (len a).
Proof. intros H. unfold ztake, len. rewrite firstn_length. lia. Qed.

(* ---------------------------------------------------------------- the abstract reader *)
(* LCont: the messages are exhausted with j bytes of what follows them (the tail) left *)
Inductive lres := LDeliver (it : item) (items : list item) (j : Z) | LEnd | LCont (j : Z).

Fixpoint lg_read (mn : Z) (it : item) (items : list item) (j : Z) {struct items} : lres :=
  if j <? len (mb (snd it)) then LEnd
  else if r_off (snd it) <? mn then
    match items with
    | [] => LCont (j - len (mb (snd it)))
    | it2 :: t =>
      let j' := j - len (mb (snd it)) in
      if j' <? len (mh (fst it2) (snd it2)) then LEnd
      else lg_read mn it2 t (j' - len (mh (fst it2) (snd it2)))
    end
  else LDeliver it items (j - len (mb (snd it))).

Definition lg_bnd (mn : Z) (items : list item) (j : Z) : lres :=
  match items with
  | [] => LCont j
  | it :: t => if j <? len (mh (fst it) (snd it)) then LEnd else lg_read mn it t (j - len (mh (fst it) (snd it)))
  end.

Section Run.
Variable decomp : Z -> list N -> option (list N).
Variable tl : list N.    (* what follows the messages in the response (v2 batches, or nothing) *)

Definition in_st (it : item) (items : list item) (j el : Z) : msr :=
  st (ztake j (mb (snd it) ++ stream items ++ tl)) 1 (mhdr (fst it) (snd it)) 1 el.
Definition bnd_st (items : list item) (j : Z) (h : hdr) (el : Z) : msr :=
  st (ztake j (stream items ++ tl)) 0 h 1 el.

Definition vals (it : item) : Z * Z * list N * list N :=
  (r_off (snd it), r_ts (snd it), opt_bytes (r_key (snd it)), opt_bytes (r_val (snd it))).

Lemma discard_st' i c h lr el : msr_discard (st i c h lr el) = None.
Proof.
  unfold msr_discard, st. cbn [m_empty m_stack root f_remain f_in]. unfold p_discard.
  pose proof (len_nonneg i). replace (len i <=? len i) with true by lia.
  replace (len i <? 0) with false by lia. replace (len i <? len i) with false by lia. reflexivity.
Qed.

(* what an unsuccessful readMessageV1 leaves behind *)
Definition ended {A} (el : Z) (r : mres A) : Prop :=
  exists m', r = MErr EShort m' /\ msr_discard m' = None /\ m_lrem m' = 1 /\ m_elast m' = el.

Lemma ended_st {A} i c h el : @ended A el (MErr EShort (st i c h 1 el)).
Proof. exists (st i c h 1 el). split; [reflexivity|]. split; [apply discard_st'|]. auto. Qed.

Lemma ended_pop {A} i c h el : @ended A el (MErr EShort (set_stack (st i c h 1 el) [])).
Proof. eexists. split; [reflexivity|]. split; [reflexivity|]. auto. Qed.

Lemma codec_mhdr it : item_ok it -> forall m, codec_of (mhdr (fst it) (snd it)) m = MOk None m.
Proof.
  intros [Hf _] m. unfold codec_of, mhdr. cbn [h_magic h_attr]. destruct Hf as [-> | ->]; reflexivity.
Qed.

Lemma read_header_busy' fuel i c h lr el : 0 < c -> read_header fuel (st i c h lr el) = MOk tt (st i c h lr el).
Proof.
  intros Hc. unfold read_header. rewrite top_st. cbn [f_count]. replace (0 <? c) with true by lia. reflexivity.
Qed.

Lemma mark_read_st i h lr el : mark_read (st i 1 h lr el) = MOk tt (st i 0 h lr el).
Proof. reflexivity. Qed.

Lemma stream_cons it t : stream (it :: t) ++ tl = mh (fst it) (snd it) ++ mb (snd it) ++ stream t ++ tl.
Proof. unfold stream. cbn [flat_map]. unfold enc_item. rewrite <- !app_assoc. reflexivity. Qed.

(* the body of one iteration on a message whose header is current *)
Lemma v1_body_spec again mn it items j el :
  item_ok it -> 0 <= j ->
  v1_body decomp again mn (in_st it items j el) =
  if j <? len (mb (snd it)) then v1_body decomp again mn (in_st it items j el)
  else if r_off (snd it) <? mn then again (bnd_st items (j - len (mb (snd it))) (mhdr (fst it) (snd it)) el)
  else MOk (vals it) (bnd_st items (j - len (mb (snd it))) (mhdr (fst it) (snd it)) el).
Proof.
  intros Hok Hj. destruct (j <? len (mb (snd it))) eqn:Ej; [reflexivity|].
  pose proof Hok as (Hfmt & Hoff & Hts & Hk & Hv & Hts0 & Hh).
  unfold v1_body, in_st. rewrite top_st. cbv zeta. cbn [f_hdr f_base].
  unfold bind at 1. rewrite codec_mhdr by exact Hok.
  rewrite ztake_ge by lia.
  unfold mhdr at 1. cbn [h_first]. unfold small in Hoff. rewrite wrap64_small by lia.
  replace (r_off (snd it) + 0) with (r_off (snd it)) by lia.
  destruct (r_off (snd it) <? mn).
  - unfold mb. rewrite <- !app_assoc.
    rewrite (step_st _ _ (b32 (r_key (snd it))) tt) by (apply mspec_lift, pspec_discard32, fits29, Hk).
    rewrite (step_st _ _ (b32 (r_val (snd it))) tt) by (apply mspec_lift, pspec_discard32, fits29, Hv).
    cbn [app]. unfold bind at 1. rewrite mark_read_st. reflexivity.
  - unfold mb. rewrite <- !app_assoc.
    rewrite (step_st _ _ (b32 (r_key (snd it))) (opt_bytes (r_key (snd it)))) by (apply mspec_lift, pspec_bytes32, fits29, Hk).
    rewrite (step_st _ _ (b32 (r_val (snd it))) (opt_bytes (r_val (snd it)))) by (apply mspec_lift, pspec_bytes32, fits29, Hv).
    cbn [app]. unfold bind at 1. rewrite mark_read_st. unfold ret, vals, bnd_st.
    assert (Hw : wrap64 (h_first (mhdr (fst it) (snd it)) + 0) = r_off (snd it))
      by (unfold mhdr; cbn [h_first]; rewrite wrap64_small by lia; lia).
    assert (Ht' : (if h_magic (mhdr (fst it) (snd it)) =? 2 then 0 else h_ts (mhdr (fst it) (snd it))) = r_ts (snd it)).
    { unfold mhdr. cbn [h_magic h_ts]. destruct Hfmt as [E|E]; rewrite E; cbn [Z.eqb Pos.eqb];
        [symmetry; apply Hts0; exact E|reflexivity]. }
    rewrite Hw, Ht'. reflexivity.
Qed.

Lemma v1_body_short again mn it items j el :
  item_ok it -> 0 <= j < len (mb (snd it)) ->
  ended el (v1_body decomp again mn (in_st it items j el)).
Proof.
  intros Hok Hj. pose proof Hok as (Hfmt & Hoff & Hts & Hk & Hv & Hts0 & Hh).
  unfold v1_body, in_st. rewrite top_st. cbv zeta. cbn [f_hdr f_base].
  unfold bind at 1. rewrite codec_mhdr by exact Hok.
  destruct (ztake_lt j (mb (snd it)) (stream items ++ tl) Hj) as (H1 & H2 & H3). rewrite H1.
  unfold mhdr at 1. cbn [h_first]. unfold small in Hoff. rewrite wrap64_small by lia.
  destruct (r_off (snd it) + 0 <? mn).
  - pose proof (mshort_skip (fst it) (snd it) Hok) as Hs.
    destruct (mshort_st rd_skip (mb (snd it)) _ _ 1 (mhdr (fst it) (snd it)) 1 el Hs H2 H3) as [i' Hi'].
    unfold rd_skip in Hi'. unfold bind in Hi' |- *.
    destruct (lift p_discard_bytes32 (st (ztake j (mb (snd it))) 1 (mhdr (fst it) (snd it)) 1 el)) as [u m1|e m1|] eqn:E1.
    + destruct (lift p_discard_bytes32 m1) as [u2 m2|e2 m2|] eqn:E2; [discriminate Hi'| |discriminate Hi'].
      injection Hi' as -> ->. apply ended_st.
    + injection Hi' as -> ->. apply ended_st.
    + discriminate Hi'.
  - pose proof (mshort_kv (fst it) (snd it) Hok) as Hs.
    destruct (mshort_st rd_kv (mb (snd it)) _ _ 1 (mhdr (fst it) (snd it)) 1 el Hs H2 H3) as [i' Hi'].
    unfold rd_kv in Hi'. unfold bind in Hi' |- *.
    destruct (lift p_bytes32 (st (ztake j (mb (snd it))) 1 (mhdr (fst it) (snd it)) 1 el)) as [u m1|e m1|] eqn:E1.
    + destruct (lift p_bytes32 m1) as [u2 m2|e2 m2|] eqn:E2; [discriminate Hi'| |discriminate Hi'].
      injection Hi' as -> ->. apply ended_st.
    + injection Hi' as -> ->. apply ended_st.
    + discriminate Hi'.
Qed.

Lemma mb_pos (it : item) : 0 < len (mb (snd it)).
Proof. pose proof (mb_len_pos (snd it)). lia. Qed.

Lemma mh_pos (it : item) : item_ok it -> 0 < len (mh (fst it) (snd it)).
Proof. intros [Hf _]. rewrite mh_len by exact Hf. destruct (fst it =? 1); lia. Qed.

Lemma read_v1_pop fuel mn i c h (lr : Z) el (A : Type) (Hc : A = A) :
  (2 <= fuel)%nat -> len i = 0 ->
  ended el (read_v1 decomp fuel mn (st i c h 1 el)).
Proof.
  intros Hf Hl. destruct fuel as [|[|f]]; try lia.
  cbn [read_v1 m_stack st f_remain]. rewrite Hl. cbn [Z.eqb]. cbn [set_stack m_stack]. apply ended_pop.
Qed.

Lemma read_header_idle' fuel i h lr el :
  read_header fuel (st i 0 h lr el) = read_header_loop fuel (st i 0 h lr el).
Proof. unfold read_header. rewrite top_st. reflexivity. Qed.

Definition deliver_ok (fuel : nat) (mn el : Z) (m : msr) (r : lres) : Prop :=
  match r with
  | LDeliver it' items' j' =>
    read_v1 decomp fuel mn m = MOk (vals it') (bnd_st items' j' (mhdr (fst it') (snd it')) el) /\ 0 <= j'
  | LEnd => ended el (read_v1 decomp fuel mn m)
  | LCont _ => True
  end.
Definition body_ok (f : nat) (mn el : Z) (m : msr) (r : lres) : Prop :=
  match r with
  | LDeliver it' items' j' =>
    v1_body decomp (read_v1 decomp f mn) mn m = MOk (vals it') (bnd_st items' j' (mhdr (fst it') (snd it')) el) /\ 0 <= j'
  | LEnd => ended el (v1_body decomp (read_v1 decomp f mn) mn m)
  | LCont _ => True
  end.

Lemma v1_loops : forall items,
  Forall item_ok items ->
  (forall j fuel mn h el, 0 <= j -> (length items + 2 <= fuel)%nat ->
     deliver_ok fuel mn el (bnd_st items j h el) (lg_bnd mn items j))
  /\ (forall it j f mn el, item_ok it -> 0 <= j -> (length items + 2 <= f)%nat ->
     body_ok f mn el (in_st it items j el) (lg_read mn it items j)).
Proof.
  induction items as [|it2 t IH]; intros Hall.
  - split; [intros; exact I|].
    intros it j f mn el Hok Hj Hf. unfold body_ok. cbn [lg_read].
    destruct (j <? len (mb (snd it))) eqn:Ej.
    + apply v1_body_short; [exact Hok|lia].
    + destruct (r_off (snd it) <? mn) eqn:Er; [exact I|].
      rewrite v1_body_spec by assumption. rewrite Ej, Er. split; [reflexivity|lia].
  - apply Forall_cons_iff in Hall as [Hok2 Hall]. destruct (IH Hall) as [IHB IHV].
    assert (HB : forall j fuel mn h el, 0 <= j -> (length (it2 :: t) + 2 <= fuel)%nat ->
              deliver_ok fuel mn el (bnd_st (it2 :: t) j h el) (lg_bnd mn (it2 :: t) j)).
    { intros j fuel mn h el Hj Hf. cbn [length] in Hf. cbn [lg_bnd].
      destruct fuel as [|f]; [lia|].
      pose proof (mh_pos it2 Hok2) as Hmh. pose proof (mb_pos it2) as Hmb.
      unfold bnd_st. rewrite stream_cons.
      destruct (Z.eq_dec j 0) as [-> | Hj0].
      - replace (0 <? len (mh (fst it2) (snd it2))) with true by lia. cbn [deliver_ok].
        apply (read_v1_pop (S f) mn _ 0 h 1 el nat eq_refl); [lia|]. reflexivity.
      - assert (Hrem : len (ztake j (mh (fst it2) (snd it2) ++ mb (snd it2) ++ stream t ++ tl)) <> 0).
        { rewrite ztake_len by lia. rewrite !len_app. pose proof (len_nonneg (stream t)). pose proof (len_nonneg tl). lia. }
        destruct (j <? len (mh (fst it2) (snd it2))) eqn:Ej.
        + cbn [deliver_ok]. cbn [read_v1 m_stack st f_remain].
          replace (_ =? 0) with false by lia.
          destruct (ztake_lt j (mh (fst it2) (snd it2)) (mb (snd it2) ++ stream t ++ tl) ltac:(lia)) as (H1 & H2 & H3).
          rewrite H1. unfold bind at 1. rewrite read_header_idle'.
          destruct f as [|f2]; [lia|]. cbn [read_header_loop]. unfold bind at 1.
          destruct (mheader_short (fst it2) (snd it2) _ _ 0 h 1 el Hok2 H2 H3) as [i' Hi'].
          rewrite Hi'. apply ended_st.
        + (* the header is whole: the loop body runs on the message *)
          assert (Hstep : read_v1 decomp (S f) mn (st (ztake j (mh (fst it2) (snd it2) ++ mb (snd it2) ++ stream t ++ tl)) 0 h 1 el)
                          = v1_body decomp (read_v1 decomp f mn) mn (in_st it2 t (j - len (mh (fst it2) (snd it2))) el)).
          { cbn [read_v1 m_stack st f_remain]. replace (_ =? 0) with false by lia.
            rewrite ztake_ge by lia. unfold bind at 1. rewrite read_header_idle'.
            destruct f as [|f2]; [lia|]. cbn [read_header_loop]. unfold bind at 1.
            rewrite (mheader_ok (fst it2) (snd it2) _ 0 h 1 el Hok2).
            rewrite top_st. cbn [f_hdr mhdr h_magic f_count]. unfold in_st, ret.
            destruct Hok2 as ([E|E] & _); rewrite E; cbn [Z.eqb Pos.eqb negb orb]; reflexivity. }
          pose proof (IHV it2 (j - len (mh (fst it2) (snd it2))) f mn el Hok2 ltac:(lia) ltac:(lia)) as Hv.
          unfold deliver_ok. unfold body_ok in Hv.
          destruct (lg_read mn it2 t (j - len (mh (fst it2) (snd it2)))) as [it' items' j'| |jc]; try rewrite Hstep; exact Hv. }
    split; [exact HB|].
    intros it j f mn el Hok Hj Hf. unfold body_ok.
    destruct (j <? len (mb (snd it))) eqn:Ej.
    + cbn [lg_read]. rewrite Ej. apply v1_body_short; [exact Hok|lia].
    + rewrite v1_body_spec by assumption. rewrite Ej.
      destruct (r_off (snd it) <? mn) eqn:Er.
      * pose proof (HB (j - len (mb (snd it))) f mn (mhdr (fst it) (snd it)) el ltac:(lia) Hf) as Hb.
        cbn [lg_read]. rewrite Ej, Er. cbn [lg_bnd] in Hb. exact Hb.
      * cbn [lg_read]. rewrite Ej, Er. split; [reflexivity|lia].
Qed.

(* ---------------------------------------------------------------- messageSetReader.readMessage *)
Inductive lpos := PIn (it : item) (items : list item) (j : Z) | PBnd (items : list item) (j : Z) (h : hdr).

Definition concm (P : lpos) (el : Z) : msr :=
  match P with PIn it items j => in_st it items j el | PBnd items j h => bnd_st items j h el end.
Definition lstep (mn : Z) (P : lpos) : lres :=
  match P with PIn it items j => lg_read mn it items j | PBnd items j _ => lg_bnd mn items j end.
Definition pcount (P : lpos) : nat :=
  match P with PIn _ items _ => S (length items) | PBnd items _ _ => length items end.
Definition pos_ok1 (P : lpos) : Prop :=
  match P with
  | PIn it items j => item_ok it /\ Forall item_ok items /\ 0 <= j
  | PBnd items j _ => Forall item_ok items /\ 0 <= j
  end.

Lemma ended_bind {A B} el (a : M A) (k : A -> M B) m : ended el (a m) -> ended el (bind a k m).
Proof. intros (m' & H1 & H2). exists m'. unfold bind. rewrite H1. auto. Qed.

Lemma msg_of_vals (it : item) : item_ok it ->
  (let '(o0, ts, k, v) := vals it in mkMsg o0 ts k v []) = msg_of (snd it).
Proof. intros (_ & _ & _ & _ & _ & _ & Hh). unfold vals, msg_of. rewrite Hh. reflexivity. Qed.

(* once the header of [it] is current *)
Lemma msr_in fuel mn it items j el m0 :
  item_ok it -> Forall item_ok items -> 0 <= j -> (length items + 3 <= fuel)%nat ->
  m_empty m0 = false -> read_header fuel m0 = MOk tt (in_st it items j el) ->
  match lg_read mn it items j with
  | LDeliver it' items' j' =>
    msr_read decomp fuel mn m0 = MOk (msg_of (snd it'), -1) (bnd_st items' j' (mhdr (fst it') (snd it')) el)
    /\ 0 <= j' /\ item_ok it'
  | LEnd => ended el (msr_read decomp fuel mn m0)
  | LCont _ => True
  end.
Proof.
  intros Hok Hall Hj Hf Hemp Hhdr.
  assert (Hdeliv : forall it' items' j', lg_read mn it items j = LDeliver it' items' j' -> item_ok it').
  { clear -Hok Hall. revert it j Hok. induction items as [|it2 t IH]; intros it j Hok it' items' j' H; cbn [lg_read] in H.
    - destruct (j <? _); [discriminate|]. destruct (_ <? mn); [discriminate|]. injection H as <- _ _. exact Hok.
    - apply Forall_cons_iff in Hall as [Hok2 Hall]. destruct (j <? _); [discriminate|].
      destruct (_ <? mn).
      + destruct (_ <? _) in H; [discriminate|]. apply (IH Hall it2 _ Hok2 _ _ _ H).
      + injection H as <- _ _. exact Hok. }
  assert (Hmag : ((fst it =? 0) || (fst it =? 1)) = true) by (destruct Hok as ([E|E] & _); rewrite E; reflexivity).
  assert (Hmsr : msr_read decomp fuel mn m0
                 = bind (read_v1 decomp fuel mn)
                        (fun r => let '(o0, ts, k, v) := r in ret (mkMsg o0 ts k v [], -1)) (in_st it items j el)).
  { unfold msr_read. rewrite Hemp. unfold bind at 1. rewrite Hhdr.
    unfold in_st at 1. rewrite top_st. cbn [f_hdr mhdr h_magic]. rewrite Hmag. reflexivity. }
  rewrite Hmsr. clear Hmsr.
  destruct fuel as [|f]; [lia|].
  pose proof (proj2 (v1_loops items Hall) it j f mn el Hok Hj ltac:(lia)) as Hv.
  (* read_v1 (S f) on the message *)
  assert (Hr1 : j <> 0 -> read_v1 decomp (S f) mn (in_st it items j el)
                          = v1_body decomp (read_v1 decomp f mn) mn (in_st it items j el)).
  { intros Hj0. cbn [read_v1]. unfold in_st at 1. cbn [m_stack st f_remain].
    rewrite ztake_len by lia. rewrite !len_app. pose proof (mb_pos it). pose proof (len_nonneg (stream items)). pose proof (len_nonneg tl).
    replace (Z.min j (len (mb (snd it)) + (len (stream items) + len tl)) =? 0) with false by lia.
    fold (in_st it items j el). unfold bind at 1. unfold in_st at 1. rewrite read_header_busy' by lia. reflexivity. }
  destruct (Z.eq_dec j 0) as [-> | Hj0].
  - assert (E0 : lg_read mn it items 0 = LEnd).
    { destruct items; cbn [lg_read]; pose proof (mb_pos it); replace (0 <? len (mb (snd it))) with true by lia; reflexivity. }
    rewrite E0. apply ended_bind. unfold in_st.
    apply (read_v1_pop (S f) mn _ 1 _ 1 el nat eq_refl); [lia|reflexivity].
  - unfold body_ok in Hv. destruct (lg_read mn it items j) as [it' items' j'| |jc] eqn:El; [| |exact I].
    + destruct Hv as [Hv1 Hv2]. unfold bind at 1. rewrite (Hr1 Hj0), Hv1.
      split; [|split; [exact Hv2|apply (Hdeliv _ _ _ eq_refl)]].
      pose proof (msg_of_vals it' (Hdeliv _ _ _ eq_refl)) as Hm. unfold vals in *. cbn iota beta in *. unfold ret.
      rewrite Hm. reflexivity.
    + apply ended_bind. rewrite (Hr1 Hj0). exact Hv.
Qed.

Lemma msr_step fuel mn P el :
  pos_ok1 P -> (pcount P + 2 <= fuel)%nat ->
  match lstep mn P with
  | LDeliver it' items' j' =>
    msr_read decomp fuel mn (concm P el) = MOk (msg_of (snd it'), -1) (bnd_st items' j' (mhdr (fst it') (snd it')) el)
    /\ 0 <= j' /\ item_ok it'
  | LEnd => ended el (msr_read decomp fuel mn (concm P el))
  | LCont _ => True
  end.
Proof.
  intros Hok Hf. destruct P as [it items j|items j h]; cbn [lstep concm pcount pos_ok1] in *.
  - destruct Hok as (H1 & H2 & H3).
    apply (msr_in fuel mn it items j el (in_st it items j el)); try assumption; try lia; try reflexivity.
    all: try (unfold in_st; apply read_header_busy'; lia).
  - destruct Hok as [Hall Hj]. destruct items as [|it t].
    + exact I.
    + apply Forall_cons_iff in Hall as [Hok Hall]. cbn [lg_bnd length] in *.
      pose proof (mh_pos it Hok) as Hmh.
      destruct (j <? len (mh (fst it) (snd it))) eqn:Ej.
      * unfold msr_read, bnd_st. cbn [m_empty st]. apply ended_bind. rewrite read_header_idle'.
        destruct fuel as [|f]; [lia|]. cbn [read_header_loop]. apply ended_bind.
        rewrite stream_cons.
        destruct (ztake_lt j (mh (fst it) (snd it)) (mb (snd it) ++ stream t ++ tl) ltac:(lia)) as (H1 & H2 & H3).
        rewrite H1. destruct (mheader_short (fst it) (snd it) _ _ 0 h 1 el Hok H2 H3) as [i' Hi'].
        rewrite Hi'. apply ended_st.
      * apply (msr_in fuel mn it t (j - len (mh (fst it) (snd it))) el (bnd_st (it :: t) j h el)); try assumption; try lia; try reflexivity.
        unfold bnd_st. rewrite read_header_idle'. destruct fuel as [|f]; [lia|]. cbn [read_header_loop].
        rewrite stream_cons, ztake_ge by lia. unfold bind at 1.
        rewrite (mheader_ok (fst it) (snd it) _ 0 h 1 el Hok). rewrite top_st. cbn [f_hdr mhdr h_magic f_count].
        unfold in_st, ret. destruct Hok as ([E|E] & _); rewrite E; cbn [Z.eqb Pos.eqb negb orb]; reflexivity.
Qed.

End Run.

Lemma increasing_app_r' a : forall lo b, increasing lo (a ++ b) ->
  exists lo2, lo <= lo2 /\ increasing lo2 b.
Proof.
  induction a as [|x t IH]; intros lo b H; [exists lo; split; [lia|exact H]|].
  destruct H as [H1 H2]. destruct (IH _ _ H2) as [lo2 [Hl Hi]]. exists lo2. split; [lia|exact Hi].
Qed.

Lemma increasing_app_l' lo a b : increasing lo (a ++ b) -> increasing lo a.
Proof.
  revert lo. induction a as [|x t IH]; intros lo H; [exact I|].
  destruct H as [H1 H2]. split; [exact H1|apply (IH _ H2)].
Qed.
Lemma increasing_lb' lo log : increasing lo log -> forall r, In r log -> lo <= r_off r.
Proof.
  revert lo. induction log as [|x t IH]; intros lo H r Hr; [destruct Hr|].
  destruct H as [H1 H2]. destruct Hr as [->|Hr]; [exact H1|].
  specialize (IH _ H2 r Hr). lia.
Qed.

Lemma filter_all_false' {A} (f : A -> bool) l : Forall (fun x => f x = false) l -> filter f l = [].
Proof. induction 1 as [|x t Hx _ IH]; [reflexivity|]. cbn. rewrite Hx. exact IH. Qed.

(* ---------------------------------------------------------------- Batch level *)
Section Batch.
Variable decomp : Z -> list N -> option (list N).
Variable tl : list N.
Variable tlrecs : list record.   (* the records held by the tail *)
Variable o : Z.

Definition LB (P : lpos) (off : Z) : batch :=
  mkBatch (Some (concm tl P (-1))) true o off (-1) None false.

Definition lfinal (off : Z) : Z := if off <=? -1 then 0 else off.

(* LGo: the messages are exhausted: the run goes on, with the fuel that is left, at the boundary
   in front of the tail *)
Inductive lrun :=
| LDone (ms : list msg) (x : Z)
| LGo (j : Z) (h : hdr) (off : Z) (acc : list msg) (fuel : nat)
| LFail.

Fixpoint l_run (fuel : nat) (P : lpos) (off : Z) (acc : list msg) {struct fuel} : lrun :=
  match fuel with
  | O => LFail
  | S f =>
    match lstep off P with
    | LDeliver it' items' j' =>
      l_run f (PBnd items' j' (mhdr (fst it') (snd it'))) (r_off (snd it') + 1) (msg_of (snd it') :: acc)
    | LEnd => LDone (rev acc) (lfinal off)
    | LCont _ => match P with PBnd [] j h => LGo j h off acc (S f) | _ => LFail end
    end
  end.

Definition recs_of (items : list item) : list record := map snd items.
Definition pend (P : lpos) : list record :=
  match P with PIn it items _ => snd it :: recs_of items | PBnd items _ _ => recs_of items end.

Lemma lg_read_split mn : forall items it j it' items' j',
  lg_read mn it items j = LDeliver it' items' j' ->
  exists sk, snd it :: recs_of items = sk ++ snd it' :: recs_of items'
             /\ Forall (fun x => r_off x < mn) sk /\ mn <= r_off (snd it')
             /\ (length items' <= length items)%nat.
Proof.
  induction items as [|it2 t IH]; intros it j it' items' j' H; cbn [lg_read] in H.
  - destruct (j <? _); [discriminate|]. destruct (r_off (snd it) <? mn) eqn:E; [discriminate|].
    injection H as <- <- _. exists []. cbn. split; [reflexivity|]. split; [constructor|]. split; [lia|lia].
  - destruct (j <? _); [discriminate|]. destruct (r_off (snd it) <? mn) eqn:E.
    + destruct (_ <? _) in H; [discriminate|]. destruct (IH _ _ _ _ _ H) as (sk & H1 & H2 & H3 & H4).
      exists (snd it :: sk). split; [|split; [constructor; [lia|exact H2]|split; [exact H3|cbn [length]; lia]]].
      change (recs_of (it2 :: t)) with (snd it2 :: recs_of t). cbn [app]. f_equal. exact H1.
    + injection H as <- <- _. exists []. cbn. split; [reflexivity|]. split; [constructor|]. split; [lia|lia].
Qed.

Lemma lstep_split mn P it' items' j' :
  lstep mn P = LDeliver it' items' j' ->
  exists sk, pend P = sk ++ snd it' :: recs_of items' /\ Forall (fun x => r_off x < mn) sk /\ mn <= r_off (snd it')
             /\ (length items' < pcount P)%nat.
Proof.
  destruct P as [it items j|items j h]; cbn [lstep pend pcount]; intros H.
  - destruct (lg_read_split mn _ _ _ _ _ _ H) as (sk & H1 & H2 & H3 & H4). exists sk. repeat split; try assumption. lia.
  - destruct items as [|it t]; cbn [lg_bnd] in H; [discriminate|].
    destruct (_ <? _) in H; [discriminate|].
    destruct (lg_read_split mn _ _ _ _ _ _ H) as (sk & H1 & H2 & H3 & H4). exists sk. repeat split; try assumption. cbn [length]. lia.
Qed.

(* the last message is never skipped when it is at or after mn: no continuation from inside
   readMessageV1 *)
Lemma lg_read_no_cont mn : forall items it j jc lo,
  increasing lo (snd it :: recs_of items) -> mn <= last_off (snd it :: recs_of items) 0 ->
  lg_read mn it items j <> LCont jc.
Proof.
  induction items as [|it2 t IH]; intros it j jc lo Hi Hl H; cbn [lg_read] in H.
  - destruct (j <? _); [discriminate|]. destruct (r_off (snd it) <? mn) eqn:E; [|discriminate].
    cbn [recs_of map last_off] in Hl. lia.
  - destruct (j <? _); [discriminate|]. destruct (r_off (snd it) <? mn) eqn:E; [|discriminate].
    destruct (_ <? _) in H; [discriminate|].
    change (recs_of (it2 :: t)) with (snd it2 :: recs_of t) in *. destruct Hi as [_ Hi].
    eapply IH; [exact Hi| |exact H]. cbn [last_off] in Hl |- *. exact Hl.
Qed.

Lemma forall_items_after mn : forall items it j it' items' j',
  Forall item_ok items -> lg_read mn it items j = LDeliver it' items' j' -> Forall item_ok items'.
Proof.
  induction items as [|it2 t IHt]; intros it j it' items' j' Ha H; cbn [lg_read] in H.
  - destruct (j <? _); [discriminate|]. destruct (_ <? mn); [discriminate|]. injection H as _ <- _. constructor.
  - destruct (j <? _); [discriminate|]. destruct (_ <? mn).
    + destruct (_ <? _) in H; [discriminate|]. apply Forall_cons_iff in Ha as [_ Ha]. apply (IHt _ _ _ _ _ Ha H).
    + injection H as _ <- _. exact Ha.
Qed.

Lemma last_off_app a : forall b d, b <> [] -> last_off (a ++ b) d = last_off b d.
Proof.
  induction a as [|x t IH]; intros b d Hb; [reflexivity|]. cbn [app last_off]. rewrite IH by exact Hb.
  destruct b; [contradiction|reflexivity].
Qed.

(* the invariant of the run: offsets increase, the last pending record is at or after o, and
   every pending record at or after o is at or after the position *)
Definition linv (P : lpos) (off : Z) : Prop :=
  0 <= o /\ o <= off /\ (exists lo, increasing lo (pend P ++ tlrecs))
  /\ (pend P <> [] -> o <= last_off (pend P) 0)
  /\ (forall r, In r (pend P ++ tlrecs) -> o <= r_off r -> off <= r_off r).

Lemma last_off_in : forall rs d, rs <> [] -> exists r, In r rs /\ r_off r = last_off rs d.
Proof.
  induction rs as [|x t IH]; intros d H; [contradiction|]. cbn [last_off].
  destruct t as [|y t'].
  - exists x. split; [left; reflexivity|reflexivity].
  - destruct (IH (r_off x) ltac:(discriminate)) as (r & Hr & He). exists r. split; [right; exact Hr|exact He].
Qed.

Lemma linv_last P off : linv P off -> pend P <> [] -> off <= last_off (pend P) 0.
Proof.
  intros (Ho0 & Ho & _ & Hl & HJ) Hne. specialize (Hl Hne).
  destruct (last_off_in (pend P) 0 Hne) as (r & Hr & He). rewrite <- He in *. apply HJ; [apply in_or_app; left; exact Hr|assumption].
Qed.

Lemma lstep_no_cont P off jc : linv P off -> pend P <> [] -> lstep off P <> LCont jc.
Proof.
  intros HI Hne. pose proof (linv_last P off HI Hne) as Hl. destruct HI as (_ & _ & [lo Hi] & _).
  apply increasing_app_l' in Hi.
  destruct P as [it items j|items j h]; cbn [lstep pend] in *.
  - apply (lg_read_no_cont off items it j jc lo Hi Hl).
  - destruct items as [|it t]; [contradiction|]. cbn [lg_bnd]. destruct (_ <? _); [discriminate|].
    apply (lg_read_no_cont off t it _ jc lo Hi Hl).
Qed.

(* after a delivery *)
Lemma linv_step P off it' items' j' :
  linv P off -> lstep off P = LDeliver it' items' j' ->
  linv (PBnd items' j' (mhdr (fst it') (snd it'))) (r_off (snd it') + 1)
  /\ exists sk, pend P = sk ++ snd it' :: recs_of items' /\ Forall (fun x => r_off x < o) sk
                /\ off <= r_off (snd it').
Proof.
  intros (Ho0 & Ho & [lo Hi] & Hl & HJ) El.
  destruct (lstep_split off P it' items' j' El) as (sk & E1 & E2 & E3 & _).
  assert (Hinc' : increasing (r_off (snd it') + 1) (recs_of items' ++ tlrecs)).
  { rewrite E1, <- app_assoc in Hi. destruct (increasing_app_r' sk _ _ Hi) as [lo2 [_ H]]. exact (proj2 H). }
  assert (Hsk : Forall (fun x0 => r_off x0 < o) sk).
  { apply Forall_forall. intros r Hr. pose proof (proj1 (Forall_forall _ _) E2 r Hr) as Hlt. cbn in Hlt.
    destruct (Z_lt_le_dec (r_off r) o) as [C|C]; [exact C|exfalso].
    assert (In r (pend P ++ tlrecs)) by (rewrite E1; apply in_or_app; left; apply in_or_app; left; exact Hr).
    specialize (HJ r H C). lia. }
  split; [|exists sk; auto].
  split; [exact Ho0|]. split; [lia|]. cbn [pend]. split; [exists (r_off (snd it') + 1); exact Hinc'|].
  split.
  - intros Hne. assert (Hp : pend P <> []) by (rewrite E1; destruct sk; discriminate).
    specialize (Hl Hp). rewrite E1 in Hl.
    rewrite last_off_app in Hl by discriminate. cbn [last_off] in Hl.
    destruct (recs_of items') as [|y t] eqn:Ey; [contradiction|]. cbn [last_off] in Hl |- *. exact Hl.
  - intros r Hr _. apply (increasing_lb' _ _ Hinc' r Hr).
Qed.

Lemma run_refine_v1 : forall fuel P off acc,
  pos_ok1 P -> linv P off -> (pcount P + 3 <= fuel)%nat ->
  match l_run fuel P off acc with
  | LDone ms x => batch_run decomp fuel (LB P off) acc = Some (ms, EEOF, x)
  | LGo j h off' acc' f' =>
    batch_run decomp fuel (LB P off) acc = batch_run decomp f' (LB (PBnd [] j h) off') acc' /\ (3 <= f')%nat
    /\ o <= off' /\ 0 <= j /\ (fuel <= f' + pcount P)%nat
  | LFail => False
  end.
Proof.
  induction fuel as [|f IH]; intros P off acc Hok HI Hf; [lia|].
  cbn [l_run].
  pose proof (msr_step decomp tl (S f) off P (-1) Hok ltac:(lia)) as Hs.
  destruct (lstep off P) as [it' items' j'| |jc] eqn:El.
  - cbn [batch_run batch_read]. unfold batch_read1, LB. cbn [b_err b_msgs b_off b_last b_late].
    destruct Hs as (Hs1 & Hs2 & Hs3). rewrite Hs1.
    destruct (linv_step P off it' items' j' HI El) as (HI' & sk & E1 & E2 & Hge).
    destruct (lstep_split off P it' items' j' El) as (_ & _ & _ & _ & Hcnt).
    cbn [g_off msg_of set_b m_lrem bnd_st st b_has_conn b_conn_off andb Z.eqb].
    destruct HI as (Ho0 & Ho & _).
    replace (off <=? r_off (snd it')) with true by lia.
    replace (r_off (snd it') <? o) with false by lia.
    specialize (IH (PBnd items' j' (mhdr (fst it') (snd it'))) (r_off (snd it') + 1) (msg_of (snd it') :: acc)).
    cbn [pos_ok1 pcount] in IH.
    assert (Hall' : Forall item_ok items').
    { destruct P as [it items j|items j h]; cbn [lstep pos_ok1] in *.
      - destruct Hok as (_ & Ha & _). apply (forall_items_after off _ _ _ _ _ _ Ha El).
      - destruct Hok as [Ha _]. destruct items as [|it t]; cbn [lg_bnd] in El; [discriminate|].
        destruct (_ <? _) in El; [discriminate|]. apply Forall_cons_iff in Ha as [_ Ha]. apply (forall_items_after off _ _ _ _ _ _ Ha El). }
    specialize (IH (conj Hall' Hs2) HI' ltac:(lia)).
    unfold LB in IH. cbn [concm] in IH.
    destruct (l_run f _ _ _) as [ms x|jg hg og ag fg|]; [exact IH| |exact IH].
    destruct IH as (I1 & I2 & I3 & I4 & I5). split; [exact I1|]. split; [exact I2|]. split; [exact I3|]. split; [exact I4|lia].
  - cbn [batch_run batch_read]. unfold batch_read1, LB. cbn [b_err b_msgs b_off b_last b_late].
    destruct Hs as (m' & Hm1 & Hm2 & Hm3 & Hm4). rewrite Hm1, Hm2.
    cbn [negb andb]. rewrite Hm3, Hm4. cbn [Z.eqb andb set_b b_off]. unfold lfinal.
    destruct (off <=? -1); reflexivity.
  - destruct P as [it items j|items j h].
    + exfalso. apply (lstep_no_cont _ off jc HI ltac:(discriminate) El).
    + destruct items as [|it t].
      * split; [reflexivity|]. destruct HI as (_ & Ho & _). destruct Hok as [_ Hj]. split; [lia|]. split; [exact Ho|]. split; [exact Hj|cbn [pcount length]; lia].
      * exfalso. apply (lstep_no_cont _ off jc HI ltac:(discriminate) El).
Qed.

(* what the run has delivered when it stops or goes on into the tail *)
Lemma l_run_spec : forall fuel P off acc,
  linv P off ->
  match l_run fuel P off acc with
  | LDone ms x =>
    exists Rp Rs, pend P = Rp ++ Rs /\ ms = rev acc ++ mm (filter (fun r => o <=? r_off r) Rp)
                  /\ Forall (fun r => r_off r < x) Rp
                  /\ (forall r, In r (Rs ++ tlrecs) -> o <= r_off r -> x <= r_off r) /\ off <= x
  | LGo j h off' acc' f' =>
    rev acc' = rev acc ++ mm (filter (fun r => o <=? r_off r) (pend P))
    /\ Forall (fun r => r_off r < off') (pend P) /\ off <= off' /\ linv (PBnd [] j h) off'
  | LFail => True
  end.
Proof.
  induction fuel as [|f IH]; intros P off acc HI; [exact I|].
  cbn [l_run]. destruct (lstep off P) as [it' items' j'| |jc] eqn:El.
  - destruct (linv_step P off it' items' j' HI El) as (HI' & sk & E1 & Hsk & Hge).
    specialize (IH (PBnd items' j' (mhdr (fst it') (snd it'))) (r_off (snd it') + 1) (msg_of (snd it') :: acc) HI').
    destruct HI as (Ho0 & Ho & _).
    assert (Hf : filter (fun r => o <=? r_off r) (sk ++ [snd it']) = [snd it']).
    { rewrite filter_app, (filter_all_false' _ sk) by (eapply Forall_impl; [|exact Hsk]; cbn; intros; lia).
      cbn [app filter]. replace (o <=? r_off (snd it')) with true by lia. reflexivity. }
    destruct (l_run f _ _ _) as [ms x|j h off' acc' f'|]; [| |exact I].
    + destruct IH as (Rp & Rs & G1 & G2 & G3 & G4 & G5). cbn [pend] in G1.
      exists (sk ++ snd it' :: Rp), Rs. split; [rewrite E1, G1, <- app_assoc; reflexivity|].
      split.
      * rewrite G2. cbn [rev]. change (sk ++ snd it' :: Rp) with (sk ++ [snd it'] ++ Rp). rewrite app_assoc, filter_app, Hf.
        unfold mm. cbn [map app]. rewrite <- app_assoc. reflexivity.
      * split; [|split; [exact G4|lia]].
        apply Forall_app. split; [eapply Forall_impl; [|exact Hsk]; cbn; intros; lia|].
        constructor; [lia|exact G3].
    + destruct IH as (G1 & G2 & G3 & G4). cbn [pend] in G1, G2. split; [|split; [|split; [lia|exact G4]]].
      * rewrite G1. cbn [rev]. rewrite E1. change (sk ++ snd it' :: recs_of items') with (sk ++ [snd it'] ++ recs_of items').
        rewrite app_assoc, filter_app, Hf. unfold mm. rewrite map_app. cbn [map app]. rewrite <- !app_assoc. reflexivity.
      * rewrite E1. apply Forall_app. split; [eapply Forall_impl; [|exact Hsk]; cbn; intros; lia|].
        constructor; [lia|exact G2].
  - destruct HI as (Ho0 & Ho & _ & _ & HJ). exists [], (pend P). cbn [app filter]. unfold mm. cbn [map]. rewrite app_nil_r.
    unfold lfinal. replace (off <=? -1) with false by lia.
    split; [reflexivity|]. split; [reflexivity|]. split; [constructor|]. split; [exact HJ|lia].
  - destruct P as [it items j|[|it t] j h]; try exact I.
    cbn [pend recs_of map filter]. unfold mm. cbn [map]. rewrite app_nil_r. split; [reflexivity|]. split; [constructor|]. split; [lia|exact HI].
Qed.

(* ---------------------------------------------------------------- progress *)
(* when the bytes of the current message and of the next n are present and one of these records
   is at or after mn, a message is delivered *)
Lemma lg_read_delivers mn : forall items it j n,
  len (mb (snd it)) + len (stream (firstn n items)) <= j ->
  (exists r, In r (snd it :: recs_of (firstn n items)) /\ mn <= r_off r) ->
  exists it' items' j', lg_read mn it items j = LDeliver it' items' j'.
Proof.
  induction items as [|it2 t IH]; intros it j n Hj (r & Hr & Hge).
  - rewrite firstn_nil in *. cbn [recs_of map stream flat_map] in *. change (len []) with 0 in Hj.
    cbn [lg_read]. replace (j <? len (mb (snd it))) with false by lia.
    destruct Hr as [<-|[]]. replace (r_off (snd it) <? mn) with false by lia. eauto.
  - cbn [lg_read]. pose proof (len_nonneg (stream (firstn n (it2 :: t)))).
    replace (j <? len (mb (snd it))) with false by lia.
    destruct (r_off (snd it) <? mn) eqn:E; [|eauto].
    destruct n as [|n]; cbn [firstn recs_of map] in Hr.
    { destruct Hr as [<-|[]]. lia. }
    destruct Hr as [<-|Hr]; [lia|].
    cbn [firstn] in Hj. change (stream (it2 :: firstn n t)) with (enc_item it2 ++ stream (firstn n t)) in Hj.
    unfold enc_item in Hj. rewrite !len_app in Hj.
    pose proof (len_nonneg (stream (firstn n t))). pose proof (len_nonneg (mb (snd it2))).
    replace (j - len (mb (snd it)) <? len (mh (fst it2) (snd it2))) with false by lia.
    apply (IH it2 _ n); [lia|]. exists r. split; [exact Hr|exact Hge].
Qed.

Lemma l_run_nonempty f P off acc it' items' j' :
  linv P off -> lstep off P = LDeliver it' items' j' ->
  match l_run (S f) P off acc with
  | LDone ms x => ms <> []
  | LGo j h off' acc' f' => acc' <> []
  | LFail => True
  end.
Proof.
  intros HI El. cbn [l_run]. rewrite El.
  destruct (linv_step P off it' items' j' HI El) as (HI' & _).
  pose proof (l_run_spec f (PBnd items' j' (mhdr (fst it') (snd it'))) (r_off (snd it') + 1) (msg_of (snd it') :: acc) HI') as Hs.
  destruct (l_run f _ _ _) as [ms x|j h off' acc' f'|]; [| |exact I].
  - destruct Hs as (Rp & Rs & _ & G2 & _). rewrite G2. cbn [rev]. destruct (rev acc); discriminate.
  - destruct Hs as (G1 & _). intros Hn. subst acc'. cbn [rev] in G1. destruct (rev acc); discriminate.
Qed.

(* nothing follows the messages: the end of the response *)
Lemma bnd_nil_done f j h off acc :
  tl = [] ->
  batch_run decomp (S f) (LB (PBnd [] j h) off) acc = Some (rev acc, EEOF, lfinal off).
Proof.
  intros Htl. cbn [batch_run batch_read]. unfold batch_read1, LB. cbn [b_err b_msgs b_off b_last b_late concm].
  assert (Hm : msr_read decomp (S f) off (bnd_st tl [] j h (-1)) = MErr EShort (st [] 0 h 1 (-1))).
  { unfold msr_read, bnd_st. cbn [m_empty st]. unfold bind at 1. rewrite read_header_idle'.
    cbn [read_header_loop stream flat_map]. rewrite Htl. cbn [app]. unfold ztake. rewrite firstn_nil.
    reflexivity. }
  rewrite Hm. rewrite (discard_st' decomp). cbn [negb andb m_lrem m_elast st Z.eqb set_b b_off]. unfold lfinal.
  destruct (off <=? -1); reflexivity.
Qed.

End Batch.
