(* Proofs/WriterInFlight.v — C07_one_round_trip_in_flight and no_early_giveup_holds on every run. *)
From Coq Require Import List NArith Bool Arith Lia ZifyN ZifyNat ZifyBool.
From KV Require Import Lib.LTS Model.Writer Proofs.WriterStmts Proofs.WriterBase Proofs.WriterC01a
  Proofs.WriterHolds2.
Import ListNotations.

Lemma filter_nil_if : forall A (f : A -> bool) l, (forall x, In x l -> f x = true -> False) -> filter f l = [].
Proof.
  intros A f l H. destruct (filter f l) as [|x r] eqn:E; auto. exfalso.
  assert (In x (filter f l)) by (rewrite E; simpl; auto).
  apply filter_In in H0. destruct H0. eapply H; eauto.
Qed.

Lemma C07_one_round_trip_in_flight_proof : stmt_C07_one_round_trip_in_flight.
Proof.
  intros cfg ls s Hr p pw Np.
  destruct (full_inv _ _ _ Hr) as (SI & (A & B & _) & _). split.
  - intros [b n ph] S. simpl. destruct (B _ _ _ _ _ Np S) as [Cn _]. exact Cn.
  - intros b Hb. apply filter_nil_if. intros a Ha F.
    apply andb_true_iff in F. destruct F as [F1 F2]. apply Nat.eqb_eq in F1, F2.
    destruct (A a Ha) as (pw0 & b0 & N0 & Hb0 & K & _).
    rewrite F1, Np in N0. inversion N0; subst pw0.
    assert (SIp : seqinv pw) by (apply SI; eapply nth_error_In; eauto).
    apply (seqinv_done_rest pw b0 b SIp Hb0 Hb). congruence.
Qed.

(* ---------------------------------------------------------------- no early give-up *)
Section WithCfg.
Variable cfg : config.

Definition F3 (pws : list pwriter) : Prop :=
  forall p pw b n e, nth_error pws p = Some pw -> pw_snd pw = Some (mkSnd b n (PFinish (Some e))) ->
    retriable cfg e = true -> maxAttempts cfg <= n.

Lemma F3_same : forall pws pws', same_done pws pws' -> F3 pws -> F3 pws'.
Proof.
  intros pws pws' [L H] F p pw' b n e N S R. specialize (H _ _ N).
  destruct (nth_error pws p) as [pw|] eqn:E.
  - destruct H as (_ & _ & S'). eapply F; eauto. rewrite <- S'. exact S.
  - congruence.
Qed.

Lemma F3_upd : forall pws p x, F3 pws ->
  (forall b n e, pw_snd x = Some (mkSnd b n (PFinish (Some e))) -> retriable cfg e = true -> maxAttempts cfg <= n) ->
  F3 (upd pws p x).
Proof.
  intros pws p x F Hx q pw' b n e N S R.
  apply nth_error_upd in N. destruct N as [(-> & -> & _)|[_ N]]; eauto.
Qed.

Lemma F3_step : forall s l s', F3 (s_pws s) -> step cfg s l = Some s' -> F3 (s_pws s').
Proof.
  intros s l s' F H. destruct l; simpl in H.
  - inv_step H; simpl; auto.
  - inv_step H; simpl; auto. eapply F3_same; [eapply same_done_assign; eauto|auto].
  - inv_step H; simpl. eapply F3_same; [|exact F].
    eapply same_done_upd; eauto; fold (timer_pw p0 k);
      destruct (timer_pw_cases p0 k) as [->|(b & C & ->)]; auto;
      unfold put; destruct (pw_open p0); reflexivity.
  - inv_step H; simpl. apply F3_upd; auto. simpl. intros b0 n e Hs. inversion Hs; subst.
    destruct (0 <? maxAttempts cfg); discriminate.
  - inv_step H; simpl. eapply F3_same; [|exact F]. eapply same_done_upd; eauto.
  - inv_step H; simpl. apply F3_upd; auto. simpl. intros b0 n e Hs R. inversion Hs; subst; clear Hs.
    unfold after_attempt in H2. destruct (r_seen r) as [e1|]; [|discriminate].
    destruct (retriable cfg e1) eqn:R1.
    + destruct (S sd_att <? maxAttempts cfg) eqn:M; [discriminate|]. apply Nat.ltb_ge in M. exact M.
    + inversion H2; subst. congruence.
  - inv_step H; simpl. apply F3_upd; auto. simpl. intros b0 n e Hs. discriminate.
  - inv_step H; simpl. apply F3_upd; auto. simpl. intros b0 n e0 Hs. discriminate.
  - inv_step H; simpl; auto.
  - inv_step H; simpl; auto.
  - inv_step H; simpl. eapply F3_same; [apply same_done_close|auto].
  - inv_step H; simpl; auto.
Qed.

Definition G1 (s : state) : Prop :=
  forall ms e, In (ms, Some e) (s_compl s) -> retriable cfg e = true ->
    exists p k j0 jr, s_journal s = j0 ++ jr /\ maxAttempts cfg <= count p k j0 /\
      forall a, In a j0 -> a_pw a = p -> a_k a = k -> a_msgs a = ms.

Lemma G1_step : forall s l s', seqinvs (s_pws s) -> JJ cfg s -> F3 (s_pws s) -> G1 s ->
  step cfg s l = Some s' -> G1 s'.
Proof.
  intros s l s' SI (A & B & _) F G H. destruct l; simpl in H;
    try (inv_step H; simpl; exact G; fail).
  - (* Attempt *) inv_step H. intros ms e Hc R. simpl in *.
    destruct (G ms e Hc R) as (p1 & k & j0 & jr & Ej & Cn & M).
    exists p1, k, j0, (jr ++ [mkAtt p (b_k sd_batch) (pw_tp p0) (b_msgs sd_batch) (r_applied r) (r_seen r)]).
    rewrite Ej, <- app_assoc. auto.
  - (* Finish *) inv_step H. intros ms e0 Hc R. simpl in *.
    apply in_app_or in Hc. destruct Hc as [Hc|[Hc|[]]]; [exact (G ms e0 Hc R)|].
    inversion Hc; subst; clear Hc.
    exists p, (b_k sd_batch), (s_journal s), []. rewrite app_nil_r. split; [auto|]. split.
    + destruct (B _ _ _ _ _ E E0) as [Cn _]. rewrite Cn. eapply F; eauto.
    + intros a Ha Hp Hk. destruct (A a Ha) as (pw0 & b0 & N0 & Hb0 & K & M & _).
      rewrite Hp, E in N0. inversion N0; subst pw0.
      assert (b0 = sd_batch).
      { eapply seqinv_inj; [apply SI; eapply nth_error_In; eauto|apply pw_done_all; auto|
          eapply snd_in_all; eauto|congruence]. }
      subst b0. auto.
Qed.

End WithCfg.

Lemma giveup_inv : forall cfg ls s, runs cfg ls s ->
  seqinvs (s_pws s) /\ JJ cfg s /\ F3 cfg (s_pws s) /\ G1 cfg s.
Proof.
  intros cfg. apply runs_inv.
  - split; [intros x []|]. split; [|split].
    + split; [intros x []|]. split; [intros p pw b n ph N; destruct p; discriminate|].
      intros p k. simpl. unfold count. simpl. lia.
    + intros p pw b n e N. destruct p; discriminate.
    + intros ms e [].
  - intros s l s' (SI & J & F & G) St.
    split; [eapply seqinvs_step; eauto|]. split; [eapply JJ_step; eauto|].
    split; [eapply F3_step; eauto|eapply G1_step; eauto].
Qed.

Lemma mem_id_in : forall m l, In m l -> mem_id m l = true.
Proof.
  intros m l H. unfold mem_id. apply existsb_exists. exists m. split; auto. apply N.eqb_refl.
Qed.

Lemma no_early_giveup_holds_runs : forall cfg ls s, runs cfg ls s ->
  no_early_giveup_holds cfg (s_journal s) (s_compl s) = true.
Proof.
  intros cfg ls s Hr. destruct (giveup_inv _ _ _ Hr) as (_ & _ & _ & G).
  unfold no_early_giveup_holds. apply forallb_forall. intros [ms [e|]] Hc; simpl; auto.
  destruct (retriable cfg e) eqn:R; simpl; auto.
  apply forallb_forall. intros m Hm. apply Nat.leb_le.
  destruct (G ms e Hc R) as (p & k & j0 & jr & Ej & Cn & M).
  unfold attempts_of. rewrite Ej, filter_app, app_length.
  eapply Nat.le_trans; [exact Cn|]. eapply Nat.le_trans; [|apply Nat.le_add_r].
  unfold count. apply filter_length_le. intros a Ha Fa.
  apply andb_true_iff in Fa. destruct Fa as [F1 F2]. apply Nat.eqb_eq in F1, F2.
  rewrite (M a Ha F1 F2). apply mem_id_in. exact Hm.
Qed.

Print Assumptions C07_one_round_trip_in_flight_proof.
Print Assumptions no_early_giveup_holds_runs.
