(* Proofs/GroupBalancersRange.v — lifting per-topic facts to AssignGroups; Range and
   RoundRobin *)
From Coq Require Import List NArith ZArith Bool Arith Lia Permutation Sorted.
From KV Require Import Model.GroupBalancers Proofs.GroupBalancersBase.
Import ListNotations.

(* everything assigned for a topic, and the keys (member id, topic) of the output map *)
Definition topic_parts (a : list triple) (t : bytes) : list Z :=
  flat_map (fun tr => if bytes_eqb (snd (fst tr)) t then snd tr else []) a.
Definition tkeys (a : list triple) : list (bytes * bytes) := map fst a.

Lemma NoDup_app_intro {A} (l1 l2 : list A) :
  NoDup l1 -> NoDup l2 -> (forall x, In x l1 -> ~ In x l2) -> NoDup (l1 ++ l2).
Proof.
  induction l1 as [|a l1 IH]; cbn [app]; intros H1 H2 H; [exact H2|].
  inversion H1; subst. constructor.
  - rewrite in_app_iff. intros [Hi|Hi]; [tauto|]. apply (H a); [left; reflexivity|exact Hi].
  - apply IH; [assumption|assumption|]. intros x Hx. apply H. right. exact Hx.
Qed.

Lemma topic_parts_app a b t : topic_parts (a ++ b) t = topic_parts a t ++ topic_parts b t.
Proof. apply flat_map_app. Qed.
Lemma assigned_app a b id t : assigned (a ++ b) id t = assigned a id t ++ assigned b id t.
Proof. apply flat_map_app. Qed.

Lemma topic_parts_other a t : (forall tr, In tr a -> snd (fst tr) <> t) -> topic_parts a t = [].
Proof.
  induction a as [|tr a IH]; cbn [topic_parts flat_map]; intros H; [reflexivity|].
  rewrite bytes_eqb_neq by (apply H; left; reflexivity). cbn [app].
  apply IH. intros; apply H; right; assumption.
Qed.
Lemma assigned_other a id t : (forall tr, In tr a -> snd (fst tr) <> t) -> assigned a id t = [].
Proof.
  induction a as [|tr a IH]; cbn [assigned flat_map]; intros H; [reflexivity|].
  rewrite (bytes_eqb_neq (snd (fst tr)) t) by (apply H; left; reflexivity).
  rewrite andb_false_r. cbn [app]. apply IH. intros; apply H; right; assumption.
Qed.
Lemma topic_parts_same a t : (forall tr, In tr a -> snd (fst tr) = t) ->
  topic_parts a t = concat (map snd a).
Proof.
  induction a as [|tr a IH]; cbn [topic_parts flat_map map concat]; intros H; [reflexivity|].
  rewrite (H tr) by (left; reflexivity). rewrite bytes_eqb_refl. f_equal.
  apply IH. intros; apply H; right; assumption.
Qed.

Lemma assigned_notin a id t : (forall tr, In tr a -> fst (fst tr) <> id) -> assigned a id t = [].
Proof.
  induction a as [|tr a IH]; cbn [assigned flat_map]; intros H; [reflexivity|].
  rewrite (bytes_eqb_neq (fst (fst tr)) id) by (apply H; left; reflexivity).
  cbn [andb app]. apply IH. intros; apply H; right; assumption.
Qed.
Lemma assigned_cons tr a id t :
  assigned (tr :: a) id t =
  (if bytes_eqb (fst (fst tr)) id && bytes_eqb (snd (fst tr)) t then snd tr else []) ++ assigned a id t.
Proof. reflexivity. Qed.

Section Lift.
Variable G : bytes -> list member -> list triple.
Hypothesis G_topic : forall t mems tr, In tr (G t mems) -> snd (fst tr) = t.
Hypothesis G_nil : forall t, G t [] = [].

Definition lift (mbt : amap member) : list triple :=
  flat_map (fun e => G (fst e) (snd e)) mbt.

Lemma lift_topic mbt tr : In tr (lift mbt) -> In (snd (fst tr)) (akeys mbt).
Proof.
  unfold lift. rewrite in_flat_map. intros [[k l] [H1 H2]]. cbn [fst snd] in H2.
  apply G_topic in H2. rewrite H2. apply (in_map fst) in H1. exact H1.
Qed.

Lemma topic_parts_lift t mbt : NoDup (akeys mbt) ->
  topic_parts (lift mbt) t = concat (map snd (G t (aget t mbt))).
Proof.
  unfold akeys. induction mbt as [|[k l] r IH]; cbn [lift flat_map aget map fst snd]; intros Hnd.
  - rewrite G_nil. reflexivity.
  - apply NoDup_cons_iff in Hnd; destruct Hnd as [Hk Hr]. fold (lift r). rewrite topic_parts_app.
    destruct (bytes_eqb_spec t k) as [->|N0].
    + rewrite (topic_parts_other (lift r)).
      * rewrite app_nil_r. apply topic_parts_same. intros tr. apply G_topic.
      * intros tr Htr E. apply Hk. rewrite <- E. apply lift_topic. exact Htr.
    + rewrite (topic_parts_other (G k l)); [apply IH; assumption|].
      intros tr Htr. rewrite (G_topic _ _ _ Htr). congruence.
Qed.

Lemma assigned_lift id t mbt : NoDup (akeys mbt) ->
  assigned (lift mbt) id t = assigned (G t (aget t mbt)) id t.
Proof.
  unfold akeys. induction mbt as [|[k l] r IH]; cbn [lift flat_map aget map fst snd]; intros Hnd.
  - rewrite G_nil. reflexivity.
  - apply NoDup_cons_iff in Hnd; destruct Hnd as [Hk Hr]. fold (lift r). rewrite assigned_app.
    destruct (bytes_eqb_spec t k) as [->|N0].
    + rewrite (assigned_other (lift r)); [apply app_nil_r|].
      intros tr Htr E. apply Hk. rewrite <- E. apply lift_topic. exact Htr.
    + rewrite (assigned_other (G k l)); [apply IH; assumption|].
      intros tr Htr. rewrite (G_topic _ _ _ Htr). congruence.
Qed.

Lemma NoDup_tkeys_lift mbt : NoDup (akeys mbt) ->
  (forall k l, In (k, l) mbt -> NoDup (tkeys (G k l))) -> NoDup (tkeys (lift mbt)).
Proof.
  unfold akeys, tkeys. induction mbt as [|[k l] r IH]; cbn [lift flat_map map fst snd]; intros Hnd H.
  - constructor.
  - apply NoDup_cons_iff in Hnd; destruct Hnd as [Hk Hr]. fold (lift r). rewrite map_app. apply NoDup_app_intro.
    + apply (H k l). left. reflexivity.
    + apply IH; [assumption|]. intros k' l' Hin. apply H. right. exact Hin.
    + intros x Hx1 Hx2. apply in_map_iff in Hx1. destruct Hx1 as [tr1 [E1 Hx1]].
      apply in_map_iff in Hx2. destruct Hx2 as [tr2 [E2 Hx2]].
      apply G_topic in Hx1. apply lift_topic in Hx2.
      apply Hk. rewrite <- Hx1. rewrite E1, <- E2. exact Hx2.
Qed.

Lemma in_lift tr mbt : In tr (lift mbt) -> NoDup (akeys mbt) ->
  In tr (G (snd (fst tr)) (aget (snd (fst tr)) mbt)).
Proof.
  unfold lift. rewrite in_flat_map. intros [[k l] [H1 H2]] Hnd. cbn [fst snd] in H2.
  rewrite (G_topic _ _ _ H2). rewrite (aget_in k l mbt Hnd H1). exact H2.
Qed.
End Lift.

(* ------------------------------------------------------------------ per-topic shape *)
(* both balancers produce, per topic, (m_id m, topic, sel i) for the i-th member *)
Section Indexed.
Variable topic : bytes.
Variable sel : nat -> list Z.
Definition idx_topic (s : nat) (mems : list member) : list triple :=
  mapi_from (fun i m => (m_id m, topic, sel i)) s mems.

Lemma idx_topic_topic s mems tr : In tr (idx_topic s mems) -> snd (fst tr) = topic.
Proof.
  unfold idx_topic. revert s. induction mems as [|m mems IH]; intros s; cbn [mapi_from In]; [tauto|].
  intros [<-|H]; [reflexivity|]. eapply IH. exact H.
Qed.

Lemma idx_topic_tkeys s mems : tkeys (idx_topic s mems) = map (fun m => (m_id m, topic)) mems.
Proof.
  unfold idx_topic, tkeys. revert s. induction mems as [|m mems IH]; intros s; cbn [mapi_from map fst]; [reflexivity|].
  f_equal. apply IH.
Qed.

Lemma idx_topic_parts s mems :
  concat (map snd (idx_topic s mems)) = flat_map sel (seq s (length mems)).
Proof.
  unfold idx_topic. revert s. induction mems as [|m mems IH]; intros s;
    cbn [mapi_from map snd concat length seq flat_map]; [reflexivity|].
  f_equal. apply IH.
Qed.

Lemma idx_topic_assigned s mems i m : NoDup (map m_id mems) -> nth_error mems i = Some m ->
  assigned (idx_topic s mems) (m_id m) topic = sel (s + i).
Proof.
  unfold idx_topic. revert s i. induction mems as [|x mems IH]; intros s i Hnd Hn.
  - destruct i; discriminate.
  - cbn [map] in Hnd. inversion Hnd; subst. cbn [mapi_from]. rewrite assigned_cons. cbn [fst snd].
    destruct i as [|i]; cbn [nth_error] in Hn.
    + inversion Hn; subst. rewrite !bytes_eqb_refl. cbn [andb].
      rewrite assigned_notin; [rewrite app_nil_r, Nat.add_0_r; reflexivity|].
      intros tr Htr E. apply H1.
      clear - Htr E. revert s Htr. induction mems as [|y mems IH]; intros s; cbn [mapi_from In map]; [tauto|].
      intros [<-|H]; [left; exact E|right; eapply IH; exact H].
    + rewrite (bytes_eqb_neq (m_id x) (m_id m)).
      * cbn [andb app]. rewrite (IH (S s) i) by assumption. f_equal. lia.
      * intros E. apply H1. rewrite E. apply in_map. eapply nth_error_In. exact Hn.
Qed.
Lemma idx_topic_in_id s mems tr : In tr (idx_topic s mems) ->
  exists m, In m mems /\ m_id m = fst (fst tr).
Proof.
  unfold idx_topic. revert s. induction mems as [|m l IH]; intros s; cbn [mapi_from In]; [tauto|].
  intros [<-|Hi]; [exists m; cbn; auto|]. destruct (IH _ Hi) as [m' [? ?]]. exists m'. auto.
Qed.
End Indexed.

(* ------------------------------------------------------------------ Range *)
Definition slice (lo hi : nat) (l : list Z) : list Z := firstn (hi - lo) (skipn lo l).

Lemma select_range lo hi s l :
  select_from (fun j => (lo <=? j) && (j <? hi)) s l =
  firstn (hi - Nat.max lo s) (skipn (lo - s) l).
Proof.
  revert s. induction l as [|p t IH]; intros s; cbn [select_from].
  - rewrite skipn_nil, firstn_nil. reflexivity.
  - rewrite IH. destruct (Nat.leb_spec lo s); cbn [andb].
    + destruct (Nat.ltb_spec s hi).
      * replace (lo - s) with 0 by lia. replace (lo - S s) with 0 by lia. cbn [skipn].
        replace (hi - Nat.max lo s) with (S (hi - Nat.max lo (S s))) by lia. reflexivity.
      * replace (hi - Nat.max lo (S s)) with 0 by lia.
        replace (hi - Nat.max lo s) with 0 by lia. reflexivity.
    + replace (lo - s) with (S (lo - S s)) by lia. cbn [skipn].
      replace (Nat.max lo (S s)) with (Nat.max lo s) by lia. reflexivity.
Qed.

Lemma select_range0 lo hi l :
  select_from (fun j => (lo <=? j) && (j <? hi)) 0 l = slice lo hi l.
Proof. rewrite select_range. unfold slice. rewrite Nat.max_0_r, Nat.sub_0_r. reflexivity. Qed.

Lemma firstn_app_skipn {A} n m (l : list A) : firstn n l ++ firstn m (skipn n l) = firstn (n + m) l.
Proof.
  revert l. induction n as [|n IH]; intros l; [reflexivity|].
  destruct l as [|a l]; cbn [firstn skipn app plus].
  - rewrite firstn_nil. reflexivity.
  - f_equal. apply IH.
Qed.

Lemma skipn_skipn' {A} x y (l : list A) : skipn x (skipn y l) = skipn (y + x) l.
Proof.
  revert l. induction y as [|y IH]; intros l; [reflexivity|].
  destruct l as [|a l]; cbn [skipn plus]; [apply skipn_nil|apply IH].
Qed.

Lemma slice_app a b c l : a <= b -> b <= c -> slice a b l ++ slice b c l = slice a c l.
Proof.
  intros H1 H2. unfold slice.
  replace (skipn b l) with (skipn (b - a) (skipn a l)).
  - rewrite firstn_app_skipn. f_equal. lia.
  - rewrite skipn_skipn'. f_equal. lia.
Qed.

Lemma slice_tiling (b : nat -> nat) l n : (forall i, b i <= b (S i)) ->
  flat_map (fun i => slice (b i) (b (S i)) l) (seq 0 n) = slice (b 0) (b n) l.
Proof.
  intros Hb. induction n as [|n IH].
  - cbn [seq flat_map]. unfold slice. rewrite Nat.sub_diag. reflexivity.
  - rewrite seq_S, flat_map_app, IH. cbn [flat_map plus]. rewrite app_nil_r.
    apply slice_app; [|apply Hb].
    clear IH. induction n as [|n IH]; [lia|]. etransitivity; [exact IH|apply Hb].
Qed.

Lemma range_bounds_mono P M i : i * P / M <= S i * P / M.
Proof.
  destruct M as [|M]; [reflexivity|]. apply Nat.div_le_mono; lia.
Qed.

Lemma range_bounds_width P M i : 0 < M ->
  P / M <= S i * P / M - i * P / M <= P / M + 1.
Proof.
  intros HM.
  pose proof (Nat.div_mod_eq (i * P) M) as E1.
  pose proof (Nat.div_mod_eq (S i * P) M) as E2.
  pose proof (Nat.div_mod_eq P M) as E3.
  pose proof (Nat.mod_upper_bound (i * P) M ltac:(lia)) as B1.
  pose proof (Nat.mod_upper_bound (S i * P) M ltac:(lia)) as B2.
  pose proof (Nat.mod_upper_bound P M ltac:(lia)) as B3.
  set (q1 := i * P / M) in *. set (q2 := S i * P / M) in *. set (T := P / M) in *.
  set (r1 := (i * P) mod M) in *. set (r2 := (S i * P) mod M) in *. set (r := P mod M) in *.
  assert (E : M * q2 + r2 = M * q1 + r1 + M * T + r) by lia.
  split; nia.
Qed.

Lemma range_bounds_top P M i : 0 < M -> S i <= M -> S i * P / M <= P.
Proof.
  intros HM Hi. replace P with (M * P / M) at 2 by (rewrite Nat.mul_comm; apply Nat.div_mul; lia).
  apply Nat.div_le_mono; [lia|]. nia.
Qed.

Definition range_sel (parts : list Z) (mc i : nat) : list Z :=
  slice (i * length parts / mc) (S i * length parts / mc) parts.

Lemma mapi_from_ext {A B} (f g : nat -> A -> B) s l :
  (forall i a, f i a = g i a) -> mapi_from f s l = mapi_from g s l.
Proof.
  intros H. revert s. induction l as [|a l IH]; intros s; cbn [mapi_from]; [reflexivity|].
  rewrite H, IH. reflexivity.
Qed.

Lemma range_topic_idx topic mems parts :
  range_topic topic mems parts = idx_topic topic (range_sel parts (length mems)) 0 mems.
Proof.
  unfold range_topic, idx_topic, range_sel. apply mapi_from_ext.
  intros i m. rewrite select_range0. reflexivity.
Qed.

Lemma range_sel_all parts mc : 0 < mc ->
  flat_map (range_sel parts mc) (seq 0 mc) = parts.
Proof.
  intros H. unfold range_sel.
  rewrite (slice_tiling (fun i => i * length parts / mc)) by (intros; apply range_bounds_mono).
  cbn [mult]. rewrite Nat.div_0_l by lia.
  replace (mc * length parts / mc) with (length parts) by (rewrite Nat.mul_comm, Nat.div_mul; lia).
  unfold slice. cbn [skipn]. rewrite Nat.sub_0_r. apply firstn_all.
Qed.

Lemma slice_length lo hi l : hi <= length l -> length (slice lo hi l) = hi - lo.
Proof.
  intros H. unfold slice. rewrite firstn_length, skipn_length. lia.
Qed.

Lemma range_sel_length parts mc i : i < mc ->
  length parts / mc <= length (range_sel parts mc i) <= length parts / mc + 1.
Proof.
  intros H. unfold range_sel. rewrite slice_length by (apply range_bounds_top; lia).
  apply range_bounds_width. lia.
Qed.

(* ------------------------------------------------------------------ AssignGroups of an
   index-selecting balancer *)
Section IndexedBalancer.
Variable sel : list Z -> nat -> nat -> list Z.   (* parts, member count, member index *)
Hypothesis sel_all : forall parts mc, 0 < mc ->
  Permutation (flat_map (sel parts mc) (seq 0 mc)) parts.
Hypothesis sel_len : forall parts mc i, i < mc ->
  length parts / mc <= length (sel parts mc i) <= length parts / mc + 1.

Definition ib_topic (ps : list partition) (t : bytes) (mems : list member) : list triple :=
  idx_topic t (sel (find_partitions t ps) (length mems)) 0 mems.
Definition ib_assign (ms : list member) (ps : list partition) : list triple :=
  lift (ib_topic ps) (find_members_by_topic ms).

Lemma ib_topic_topic ps t mems tr : In tr (ib_topic ps t mems) -> snd (fst tr) = t.
Proof. apply idx_topic_topic. Qed.
Lemma ib_topic_nil ps t : ib_topic ps t [] = [].
Proof. reflexivity. Qed.

Lemma NoDup_akeys_fmbt ms : NoDup (akeys (find_members_by_topic ms)).
Proof.
  unfold find_members_by_topic. rewrite akeys_map_values. apply NoDup_akeys_group_by_topic.
Qed.

Lemma ib_assigned ms ps id t : wf_group ms ->
  assigned (ib_assign ms ps) id t = assigned (ib_topic ps t (subscribers t ms)) id t.
Proof.
  intros H. unfold ib_assign.
  rewrite (assigned_lift _ (ib_topic_topic ps) (ib_topic_nil ps)) by apply NoDup_akeys_fmbt.
  rewrite aget_find_members_by_topic by exact H. reflexivity.
Qed.

Lemma ib_assigned_nth ms ps t i m : wf_group ms -> nth_error (subscribers t ms) i = Some m ->
  assigned (ib_assign ms ps) (m_id m) t =
  sel (find_partitions t ps) (length (subscribers t ms)) i.
Proof.
  intros H Hn. rewrite ib_assigned by exact H. unfold ib_topic.
  rewrite (idx_topic_assigned _ _ 0 _ i m); [reflexivity| |exact Hn].
  apply NoDup_ids_subscribers. apply H.
Qed.

Lemma ib_order_independent ms ms' ps id t : wf_group ms -> Permutation ms ms' ->
  assigned (ib_assign ms ps) id t = assigned (ib_assign ms' ps) id t.
Proof.
  intros H Hp. rewrite !ib_assigned by (try exact H; eapply wf_group_perm; eassumption).
  rewrite (subscribers_perm t ms ms' H Hp). reflexivity.
Qed.

Lemma ib_even ms ps t m : wf_group ms -> In m ms -> In t (m_topics m) ->
  let P := length (find_partitions t ps) in
  let M := length (filter (subscribes t) ms) in
  P / M <= length (assigned (ib_assign ms ps) (m_id m) t) <= P / M + 1.
Proof.
  intros H Hm Ht P M.
  assert (Hs : In m (subscribers t ms)) by (apply in_subscribers; tauto).
  apply In_nth_error in Hs. destruct Hs as [i Hi].
  rewrite (ib_assigned_nth ms ps t i m H Hi).
  assert (HM : length (subscribers t ms) = M) by apply sort_members_length.
  rewrite HM. apply sel_len. rewrite <- HM. apply nth_error_Some. congruence.
Qed.

Lemma ib_parts ms ps t : wf_group ms ->
  Permutation (topic_parts (ib_assign ms ps) t)
              (if existsb (subscribes t) ms then find_partitions t ps else []).
Proof.
  intros H. unfold ib_assign.
  rewrite (topic_parts_lift _ (ib_topic_topic ps) (ib_topic_nil ps)) by apply NoDup_akeys_fmbt.
  rewrite aget_find_members_by_topic by exact H. unfold ib_topic.
  rewrite idx_topic_parts.
  destruct (existsb (subscribes t) ms) eqn:E.
  - apply sel_all. apply existsb_exists in E. destruct E as [m [Hm Hs]].
    assert (In m (subscribers t ms)) by (apply in_subscribers; rewrite <- subscribes_iff; tauto).
    destruct (subscribers t ms); [contradiction|cbn; lia].
  - assert (subscribers t ms = []) as ->; [|reflexivity].
    destruct (subscribers t ms) as [|m l] eqn:E2; [reflexivity|exfalso].
    assert (Hin : In m (subscribers t ms)) by (rewrite E2; left; reflexivity).
    apply in_subscribers in Hin. rewrite <- subscribes_iff in Hin.
    assert (existsb (subscribes t) ms = true) by (apply existsb_exists; exists m; exact Hin).
    congruence.
Qed.

Lemma ib_keys ms ps : wf_group ms ->
  NoDup (tkeys (ib_assign ms ps)) /\
  forall tr, In tr (ib_assign ms ps) ->
    exists m, In m ms /\ m_id m = fst (fst tr) /\ In (snd (fst tr)) (m_topics m).
Proof.
  intros H. split.
  - unfold ib_assign. apply (NoDup_tkeys_lift _ (ib_topic_topic ps)); [apply NoDup_akeys_fmbt|].
    intros k l Hin. unfold ib_topic. rewrite idx_topic_tkeys.
    pose proof (aget_in k l _ (NoDup_akeys_fmbt ms) Hin) as E.
    rewrite aget_find_members_by_topic in E by exact H. subst l.
    pose proof (NoDup_ids_subscribers k ms (proj1 H)) as Hnd.
    clear - Hnd. induction (subscribers k ms) as [|m l IH]; cbn [map] in *; [constructor|].
    inversion Hnd; subst. constructor; [|auto].
    intros Hi. apply H1. apply in_map_iff in Hi. destruct Hi as [x [E Hx]].
    apply in_map_iff. exists x. split; [congruence|exact Hx].
  - intros tr Htr. unfold ib_assign in Htr.
    apply (in_lift _ (ib_topic_topic ps)) in Htr; [|apply NoDup_akeys_fmbt].
    rewrite aget_find_members_by_topic in Htr by exact H.
    unfold ib_topic in Htr.
    apply idx_topic_in_id in Htr.
    destruct Htr as [m [Hm E]]. apply in_subscribers in Hm. exists m. tauto.
Qed.
End IndexedBalancer.

(* ------------------------------------------------------------------ Range instance *)
Lemma range_assign_ib ms ps :
  range_assign ms ps = ib_assign (fun parts mc i => range_sel parts mc i) ms ps.
Proof.
  unfold range_assign, ib_assign, lift, ib_topic. apply flat_map_ext.
  intros [k l]. cbn [fst snd]. apply range_topic_idx.
Qed.

Lemma range_sel_all_perm parts mc : 0 < mc ->
  Permutation (flat_map (range_sel parts mc) (seq 0 mc)) parts.
Proof. intros H. rewrite range_sel_all by exact H. reflexivity. Qed.
