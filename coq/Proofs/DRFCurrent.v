(* Proofs/DRFCurrent.v — C10: the obligations about the CURRENT source, by computation on
   the translator's output (Gen/Skeleton.v) and the policy (Model/Policy.v). *)
From Coq Require Import List String Bool.
From KV Require Import Model.DRF Model.Policy Gen.Skeleton Proofs.DRFSound Proofs.DRFBridge.
Import ListNotations.
Open Scope string_scope.

(* every policy entry HandedOff c names a channel field with a send/close and a receive *)
Definition handoffs_present (pol : policy) (cs : list chan_fact) : bool :=
  forallb (fun e => match snd e with
                    | HandedOff c =>
                        existsb (fun f => String.eqb c (c_type f ++ "." ++ c_field f)
                                          && match c_kind f with CRecv => false | _ => true end) cs
                        && existsb (fun f => String.eqb c (c_type f ++ "." ++ c_field f)
                                             && match c_kind f with CRecv => true | _ => false end) cs
                    | _ => true
                    end) pol.

(* the facts the discipline is claimed for: everything but the named exempt sites *)
Definition checked_facts : list access_fact := without exempt accesses.

Definition current_ok : bool :=
  discipline_ok checked_facts kafka
  && fields_covered fields kafka
  && unknowns_reviewed unknowns reviewed_unknowns
  && handoffs_present kafka chans.

Lemma current_discipline : current_ok = true.
Proof. vm_compute. reflexivity. Qed.

Lemma current_exported_closed :
  exported_closed listed_types types_seen exported_methods functions = true.
Proof. vm_compute. reflexivity. Qed.

(* consequence for traces: combined with the generic soundness theorem *)
Lemma current_no_race : forall field_of lock_inst tr,
  wf_locks tr -> conforms checked_facts field_of lock_inst tr ->
  forall x, ipol kafka field_of lock_inst x <> IOther -> ~ race_on tr x.
Proof.
  intros field_of lock_inst tr Hwf Hc x Hx.
  assert (H : discipline_ok checked_facts kafka = true).
  { pose proof current_discipline as Hcur. unfold current_ok in Hcur.
    apply andb_prop in Hcur. destruct Hcur as [Hcur _].
    apply andb_prop in Hcur. destruct Hcur as [Hcur _].
    apply andb_prop in Hcur. destruct Hcur as [Hcur _]. exact Hcur. }
  exact (discipline_sound checked_facts kafka field_of lock_inst tr H Hwf Hc x Hx).
Qed.

Lemma current_policy_rejects_unlocked :
  discipline_ok (mkAcc "Batch" "err" KRead "Batch.Err" [] false "batch.go:128" :: nil) kafka = false /\
  discipline_ok (mkAcc "Conn" "offset" KRead "Batch.ReadMessage" [("Batch.mutex", MW)] false "batch.go:212" :: nil) kafka = false /\
  discipline_ok (mkAcc "Reader" "version" KRead "Reader.start$1" [] false "reader.go:1211" :: nil) kafka = false /\
  discipline_ok (mkAcc "Batch" "err" KRead "Batch.Err" [("Batch.mutex", MW)] false "batch.go:128" :: nil) kafka = true.
Proof. vm_compute. repeat split; reflexivity. Qed.

(* a synthetic non-vacuity check of discipline_ok: dropping the lock from one site, an
   unlisted field, and an address escaping are each rejected *)
Definition demo_pol : policy := [("T", "a", GuardedBy "T.mu"); ("T", "n", AtomicOnly); ("T", "c", WriteOnceBeforePublish)].
Definition demo_good : list access_fact :=
  [ mkAcc "T" "a" KWrite "T.Set" [("T.mu", MW)] false "t.go:1";
    mkAcc "T" "a" KRead "T.Get" [("T.mu", MW)] false "t.go:2";
    mkAcc "T" "n" KAtomic "T.Inc" [] false "t.go:3";
    mkAcc "T" "c" KWrite "NewT" [] true "t.go:4";
    mkAcc "T" "c" KRead "T.C" [] false "t.go:5" ].
Lemma demo_accepts : discipline_ok demo_good demo_pol = true.
Proof. vm_compute. reflexivity. Qed.
Lemma demo_rejects :
  discipline_ok (mkAcc "T" "a" KRead "T.Peek" [] false "t.go:6" :: demo_good) demo_pol = false /\
  discipline_ok (mkAcc "T" "a" KRead "T.Peek" [("T.mu", MR)] false "t.go:6" :: demo_good) demo_pol = false /\
  discipline_ok (mkAcc "T" "n" KRead "T.N" [] false "t.go:7" :: demo_good) demo_pol = false /\
  discipline_ok (mkAcc "T" "c" KWrite "T.SetC" [] false "t.go:8" :: demo_good) demo_pol = false /\
  discipline_ok (mkAcc "T" "z" KRead "T.Z" [("T.mu", MW)] false "t.go:9" :: demo_good) demo_pol = false /\
  discipline_ok (mkAcc "T" "a" KUnknown "T.Leak" [("T.mu", MW)] false "t.go:10" :: demo_good) demo_pol = false.
Proof. vm_compute. repeat split; reflexivity. Qed.
