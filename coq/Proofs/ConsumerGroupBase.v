(* Proofs/ConsumerGroupBase.v — runs, reachability and invariant induction for the
   ConsumerGroup transition system (kept local: no dependency on Lib/LTS.v). *)
From Coq Require Import List ZArith Bool Arith Lia.
From KV Require Import Model.ConsumerGroup.
Import ListNotations.

Lemma run_app : forall ls1 ls2 s,
  run s (ls1 ++ ls2) = match run s ls1 with Some s' => run s' ls2 | None => None end.
Proof.
  induction ls1 as [|l t IH]; intros ls2 s; cbn [run app]; [reflexivity|].
  destruct (step s l); [apply IH|reflexivity].
Qed.

Lemma run_snoc : forall ls l s s',
  run s (ls ++ [l]) = Some s' -> exists s1, run s ls = Some s1 /\ step s1 l = Some s'.
Proof.
  intros ls l s s' H. rewrite run_app in H. destruct (run s ls) as [s1|]; [|discriminate].
  exists s1. split; [reflexivity|]. cbn [run] in H. destruct (step s1 l); [exact H|discriminate].
Qed.

(* invariant induction: P holds initially and is preserved by every enabled step *)
Lemma inv_run : forall (P : state -> Prop) s0,
  P s0 ->
  (forall s l s', P s -> step s l = Some s' -> P s') ->
  forall ls s, run s0 ls = Some s -> P s.
Proof.
  intros P s0 H0 Hstep ls. revert s0 H0.
  induction ls as [|l t IH]; intros s0 H0 s H; cbn [run] in H.
  - inversion H; subst; exact H0.
  - destruct (step s0 l) as [s1|] eqn:E; [|discriminate].
    eapply IH; [eapply Hstep; eauto | exact H].
Qed.

(* the same with access to the fact that the pre-state is reachable *)
Definition reachable (w : nat) (s : state) : Prop := exists ls, run (init w) ls = Some s.

Lemma reachable_init : forall w, reachable w (init w).
Proof. intro w. exists []. reflexivity. Qed.

Lemma reachable_step : forall w s l s', reachable w s -> step s l = Some s' -> reachable w s'.
Proof.
  intros w s l s' [ls H] E. exists (ls ++ [l]). rewrite run_app, H. cbn [run]. rewrite E. reflexivity.
Qed.

Lemma inv_reachable : forall w (P : state -> Prop),
  P (init w) ->
  (forall s l s', reachable w s -> P s -> step s l = Some s' -> P s') ->
  forall s, reachable w s -> P s.
Proof.
  intros w P H0 Hstep s [ls H].
  assert (G : reachable w s /\ P s).
  { revert H. apply (inv_run (fun s => reachable w s /\ P s)).
    - split; [apply reachable_init | exact H0].
    - intros s1 l s2 [R Q] E. split; [eapply reachable_step; eauto | eapply Hstep; eauto]. }
  exact (proj2 G).
Qed.

(* every step only conses events onto the history *)
Lemma upd_length : forall A i (x : A) l, length (upd i x l) = length l.
Proof. induction i; destruct l; cbn; auto. Qed.

Lemma nth_error_upd_same : forall A i (x : A) l, i < length l -> nth_error (upd i x l) i = Some x.
Proof. induction i; destruct l; cbn; intros; try lia; auto. apply IHi; lia. Qed.

Lemma nth_error_upd_other : forall A i j (x : A) l, i <> j -> nth_error (upd i x l) j = nth_error l j.
Proof.
  induction i; destruct l; destruct j; cbn; intros; try congruence; auto.
Qed.

Lemma nth_error_upd : forall A i j (x : A) l,
  nth_error (upd i x l) j = if Nat.eqb i j then (if Nat.ltb i (length l) then Some x else None) else nth_error l j.
Proof.
  intros. destruct (Nat.eqb_spec i j).
  - subst. destruct (Nat.ltb_spec j (length l)).
    + apply nth_error_upd_same; auto.
    + apply nth_error_None. rewrite upd_length. lia.
  - apply nth_error_upd_other; auto.
Qed.
