(* Proofs/ConnOpsInflight.v — enter/leave balance of Conn.inflight across every exit of a call,
   hence the desynchronisation detector of waitResponse is enabled for every next call. *)
From Coq Require Import List NArith ZArith Bool Lia.
From KV Require Import Lib.Bits Lib.Bytes Model.Legacy Model.ConnOps.
Import ListNotations.
Open Scope Z_scope.

(* every call that returns — on any exit: write error, peek error, ErrNoProgress, success,
   Kafka error, any other read error — leaves the counter where it found it *)
Theorem inflight_balanced st n o s st' n' r s' :
  conn_do_i (st, n) o s = ((st', n'), Returns r, s') -> n' = n.
Proof.
  unfold conn_do_i. destruct (closed st).
  - destruct (conn_do st o s) as [[a b] c]. intros H; inversion H. lia.
  - destruct (foreign_head _ s && negb (n + 1 =? 1)); [intros H; inversion H|].
    destruct (conn_do st o s) as [[a b] c]. intros H; inversion H. lia.
Qed.

(* with the counter at 0 a call always returns, and it is exactly conn_do *)
Theorem detector_enabled st o s :
  conn_do_i (st, 0) o s =
    let '(st', r, s') := conn_do st o s in ((st', 0), Returns r, s').
Proof.
  unfold conn_do_i. change (0 + 1 =? 1) with true. cbn [negb]. rewrite andb_false_r.
  destruct (closed st); destruct (conn_do st o s) as [[a b] c]; reflexivity.
Qed.

(* hence over any sequence of calls from inflight = 0: every call returns, the results are
   those of conn_run (to which every C11 / C17 theorem applies), and inflight is 0 at the end *)
Theorem run_inflight_zero ops : forall st s,
  conn_run_i (st, 0) ops s =
    let '(st', rs, s') := conn_run st ops s in ((st', 0), map Returns rs, s').
Proof.
  induction ops as [|o ops IH]; intros st s; cbn [conn_run_i conn_run map]; [reflexivity|].
  rewrite detector_enabled. destruct (conn_do st o s) as [[st1 r1] s1].
  rewrite IH. destruct (conn_run st1 ops s1) as [[st2 rs] s2]. reflexivity.
Qed.

(* why the balance matters: with a leaked counter (>= 1 before the call) a foreign correlation
   id at the head of the stream makes the call spin forever instead of failing *)
Theorem leaked_counter_spins st n o s :
  closed st = false -> 1 <= n -> foreign_head (wrap32 (corr st + 1)) s = true ->
  exists sti, conn_do_i (st, n) o s = (sti, Spins, s).
Proof.
  intros Hc Hn Hf. unfold conn_do_i. rewrite Hc, Hf.
  destruct (Z.eqb_spec (n + 1) 1); [lia|]. cbn. eexists. reflexivity.
Qed.

(* and the detector itself: counter 0, open Conn, foreign id: io.ErrNoProgress, nothing consumed *)
Theorem foreign_id_is_noprogress st o s :
  closed st = false -> foreign_head (wrap32 (corr st + 1)) s = true ->
  exists st', conn_do st o s = (st', RErr ENoProgress, s) /\ closed st' = false.
Proof.
  intros Hc Hf. unfold foreign_head in Hf. apply andb_true_iff in Hf as [H8 Hid].
  unfold conn_do. rewrite Hc. unfold wait_response.
  destruct (length s <? 8)%nat; [discriminate H8|].
  destruct (get_bes 4 (firstn 4 (skipn 4 s)) =? wrap32 (corr st + 1)); [discriminate Hid|].
  cbv zeta.
  assert (Hm : map_err (op_api o) ENoProgress = ENoProgress) by (destruct (op_api o); reflexivity).
  rewrite Hm. eexists. split; reflexivity.
Qed.
