(* Proofs/ConnOpsWitness.v — the full alignment statement of C11, its proof for the operations
   that read the whole response before looking at error codes, and concrete witnesses
   (by computation on the model) for the operations that return early. *)
From Coq Require Import List NArith ZArith Bool Lia.
From KV Require Import Lib.Bits Lib.Bytes Model.Legacy Model.ConnOps.
From KV Require Import Proofs.ConnOpsBase Proofs.ConnOpsCodec Proofs.ConnOpsProofs.
Import ListNotations.
Open Scope Z_scope.

(* "for every well-formed response frame of (a, v) carrying any error code in any error field:
    if the result is a Kafka error, the reader sits at the next frame boundary and the
    connection is kept" *)
Definition aligned_statement (a : api) (v : N) : Prop :=
  forall w st off code rest st' s',
    well_formed a v w -> fits (enc (resp_ty a v) w) -> closed st = false ->
    conn_do st (mkOp a v off) (frame (wrap32 (corr st + 1)) (enc (resp_ty a v) w) ++ rest)
      = (st', RErr (EKafka code), s') ->
    s' = rest /\ closed st' = false.

Theorem aligned_schema a v : schema_api a = true -> aligned_statement a v.
Proof.
  intros Hs w st off code rest st' s' _ Hfit Hcl H.
  assert (Hf : op_api (mkOp a v off) <> AFetch) by (destruct a; discriminate).
  assert (Ha : op_api (mkOp a v off) <> AApiVersions) by (destruct a; discriminate).
  destruct (frame_exact _ _ _ _ _ _ Hcl Hf Ha H Hs) as [Hc Hcl'].
  split; [|exact Hcl']. eapply consumed_frame_frame; eassumption.
Qed.

(* the same on arbitrary incoming bytes (no well-formedness needed) *)
Theorem next_as_fresh st o s st' code s' o2 :
  closed st = false -> schema_api (op_api o) = true ->
  conn_do st o s = (st', RErr (EKafka code), s') ->
  consumed_frame s s' /\
  conn_do st' o2 s' = conn_do (mkConn false (corr st') (cfg_topic st) (offset st')) o2 s'.
Proof.
  intros Hcl Hs H.
  assert (Hf : op_api o <> AFetch) by (destruct (op_api o); discriminate).
  assert (Ha : op_api o <> AApiVersions) by (destruct (op_api o); discriminate).
  destruct (frame_exact _ _ _ _ _ _ Hcl Hf Ha H Hs) as [Hc Hcl'].
  split; [exact Hc|].
  rewrite conn_do_generic in H by assumption. cbv zeta in H.
  destruct (wait_response _ s) as [[[size|e0] s1] cl].
  - destruct (op_read _ _ size s1) as [[[x|e1] sz1] s2]; inversion H; subst; reflexivity.
  - inversion H; subst. cbn in Hcl'. subst cl. reflexivity.
Qed.

(* well-formedness of a concrete wire value, structurally (vm_compute on [wt] is exponential:
   it normalises the comparison functions under the Forall binder) *)
Ltac wt_leaf :=
  first [ exact I | (left; reflexivity) | (right; reflexivity)
        | (unfold in_signed, pow256, ZM31, is_byte; cbn; lia) ].
Ltac wt_solve :=
  repeat (cbn; first [ wt_leaf | apply Forall_cons | apply Forall_nil | apply conj ]).
Ltac wf_solve :=
  split; [repeat autounfold with wvals; wt_solve | cbn; repeat eexists].
Ltac refute a v w st code :=
  let H := fresh "H" in intro H;
  let Hwf := fresh "Hwf" in assert (Hwf : well_formed a v w) by wf_solve;
  let Hfit := fresh "Hfit" in assert (Hfit : fits (enc (resp_ty a v) w)) by (vm_compute; reflexivity);
  let E := fresh "E" in
  assert (E : exists st' s', conn_do st (mkOp a v 0) (frame (wrap32 (corr st + 1)) (enc (resp_ty a v) w) ++ [])
                              = (st', RErr (EKafka code), s') /\ s' <> [])
    by (eexists; eexists; split; [vm_compute; reflexivity|discriminate]);
  let st' := fresh "st'" in let s' := fresh "s'" in let Hne := fresh "Hne" in
  destruct E as (st' & s' & E & Hne);
  exact (Hne (proj1 (H w st 0 code [] st' s' Hwf Hfit eq_refl E))).

Definition topic_t : wval := WS (Some [116%N]).
Definition one_tp (part : wval) : wval := WL (Some [WP topic_t (WL (Some [part]))]).

#[export] Hint Unfold topic_t one_tp : wvals.
(* produce: partition error code 6, throttle 0: the 4 throttle bytes stay in the stream *)
Definition w_produce_v2 : wval :=
  WP (one_tp (WP (WZ 0) (WP (WZ 6) (WP (WZ 5) (WZ 7))))) (WZ 0).
Definition w_produce_v7 : wval :=
  WP (one_tp (WP (WZ 0) (WP (WZ 6) (WP (WZ 5) (WP (WZ 7) (WZ 0)))))) (WZ 0).
#[export] Hint Unfold w_produce_v2 w_produce_v7 : wvals.
Lemma refuted_produce_v2 : ~ aligned_statement AProduce 2.
Proof. refute AProduce 2%N w_produce_v2 (fresh [116%N]) 6. Qed.
Lemma refuted_produce_v3 : ~ aligned_statement AProduce 3.
Proof. refute AProduce 3%N w_produce_v2 (fresh [116%N]) 6. Qed.
Lemma refuted_produce_v7 : ~ aligned_statement AProduce 7.
Proof. refute AProduce 7%N w_produce_v7 (fresh [116%N]) 6. Qed.

(* fetch v5 / v10: partition error code 1 (OffsetOutOfRange), no aborted transactions, empty
   message set: the 4-byte message-set size stays in the stream *)
Definition fetch_part_v5 (e : Z) : wval :=
  WP (WZ 0) (WP (WZ e) (WP (WZ 10) (WP (WZ 10) (WP (WZ 0) (WP (WL (Some [])) (WS (Some []))))))).
Definition w_fetch_v5 : wval := WP (WZ 0) (one_tp (fetch_part_v5 1)).
Definition w_fetch_v10_part : wval := WP (WZ 0) (WP (WZ 0) (WP (WZ 0) (one_tp (fetch_part_v5 1)))).
Definition w_fetch_v10_top : wval := WP (WZ 0) (WP (WZ 6) (WP (WZ 0) (one_tp (fetch_part_v5 0)))).
(* fetch v2: partition error with a non-empty message set (3 opaque bytes) *)
Definition w_fetch_v2 : wval :=
  WP (WZ 0) (one_tp (WP (WZ 0) (WP (WZ 1) (WP (WZ 10) (WS (Some [1%N; 2%N; 3%N])))))).
#[export] Hint Unfold fetch_part_v5 w_fetch_v5 w_fetch_v10_part w_fetch_v10_top w_fetch_v2 : wvals.
Lemma refuted_fetch_partition_v5 : ~ aligned_statement AFetch 5.
Proof. refute AFetch 5%N w_fetch_v5 (fresh [116%N]) 1. Qed.
Lemma refuted_fetch_partition_v10 : ~ aligned_statement AFetch 10.
Proof. refute AFetch 10%N w_fetch_v10_part (fresh [116%N]) 1. Qed.
Lemma refuted_fetch_toplevel_v10 : ~ aligned_statement AFetch 10.
Proof. refute AFetch 10%N w_fetch_v10_top (fresh [116%N]) 6. Qed.
Lemma refuted_fetch_partition_v2 : ~ aligned_statement AFetch 2.
Proof. refute AFetch 2%N w_fetch_v2 (fresh [116%N]) 1. Qed.

(* what the NEXT operation sees after the produce witness: io.ErrNoProgress, connection kept *)
Definition hb : op := mkOp AHeartbeat 0 0.
Definition hb_frame (id : Z) : list N := frame id (enc TI16 (WZ 0)).
Lemma produce_then_next_noprogress :
  conn_run (fresh [116%N]) [mkOp AProduce 2 0; hb]
    (frame 1 (enc (resp_ty AProduce 2) w_produce_v2) ++ hb_frame 2)
  = (mkConn false 2 [116%N] (-1), [RErr (EKafka 6); RErr ENoProgress],
     [0;0;0;0]%N ++ hb_frame 2).
Proof. vm_compute. reflexivity. Qed.

(* bytes of one response interpreted as part of another: produce error with throttle 6 leaves
   00 00 00 06; the peer answers the following heartbeats (ids 2,3,...) with 6-byte frames.
   ids 2..5 fail with ErrNoProgress WITHOUT closing; at id 6 the leftover throttle is taken
   as a size field and the first frame's size field (6) as the correlation id: the heartbeat
   "succeeds" on the upper half of a foreign correlation id. *)
Definition w_produce_v2_thr6 : wval :=
  WP (one_tp (WP (WZ 0) (WP (WZ 6) (WP (WZ 5) (WZ 7))))) (WZ 6).
Lemma cross_interpretation_witness :
  exists st s,
    conn_run (fresh [116%N]) [mkOp AProduce 2 0; hb; hb; hb; hb; hb]
      (frame 1 (enc (resp_ty AProduce 2) w_produce_v2_thr6)
       ++ hb_frame 2 ++ hb_frame 3 ++ hb_frame 4 ++ hb_frame 5 ++ hb_frame 6)
    = (st, [RErr (EKafka 6); RErr ENoProgress; RErr ENoProgress; RErr ENoProgress;
            RErr ENoProgress; ROk (VZ 0)], s) /\ closed st = false.
Proof. eexists. eexists. split; [vm_compute; reflexivity|reflexivity]. Qed.

(* ---- truncation, the operations outside conn_cut_schema ---- *)
(* ApiVersions does not go through Conn.do: a cut inside its body is an error, but the Conn
   does not close its connection *)
Definition w_apiversions : wval := WP (WZ 0) (WL (Some [WP (WZ 0) (WP (WZ 0) (WZ 7))])).
Lemma apiversions_cut_not_closed :
  forall k, (8 <= k < 18)%nat ->
  exists st' s', conn_do (fresh []) (mkOp AApiVersions 0 0)
                   (firstn k (frame 1 (enc (resp_ty AApiVersions 0) w_apiversions)))
                 = (st', RErr EEOF, s') /\ closed st' = false.
Proof.
  intros k Hk.
  assert (Hc : In k [8;9;10;11;12;13;14;15;16;17]%nat) by (cbn; lia).
  cbn [In] in Hc.
  repeat (destruct Hc as [Hc|Hc]; [subst k; eexists; eexists; split; [vm_compute; reflexivity|reflexivity]|]).
  contradiction.
Qed.

(* produce with a partition error, cut inside the throttle field the reader never reads:
   the Kafka error is returned and the connection kept although the peer is gone *)
Lemma produce_error_cut_in_throttle :
  exists st' s',
    conn_do (fresh [116%N]) (mkOp AProduce 2 0)
      (firstn 43 (frame 1 (enc (resp_ty AProduce 2) w_produce_v2)))
    = (st', RErr (EKafka 6), s') /\ closed st' = false.
Proof. eexists. eexists. split; [vm_compute; reflexivity|reflexivity]. Qed.

(* fetch: ReadBatch + Close without reading a message.  A 36-byte magic-1 message set
   (one message, key null, value "ab"); a cut after the message header is swallowed:
   Batch.close ignores the error of msgs.discard(), returns nil and keeps the Conn. *)
Definition msgset_v1 : list N :=
  put_bes 8 7 ++ put_bes 4 24 ++ put_bes 4 0 ++ [1%N; 0%N] ++ put_bes 8 1000
  ++ put_bes 4 (-1) ++ put_bes 4 2 ++ [97%N; 98%N].
Definition w_fetch_ok_v2 : wval :=
  WP (WZ 0) (one_tp (WP (WZ 0) (WP (WZ 0) (WP (WZ 100) (WS (Some msgset_v1)))))).
Lemma fetch_full_ok :
  conn_do (fresh [116%N]) (mkOp AFetch 2 7) (frame 1 (enc (resp_ty AFetch 2) w_fetch_ok_v2))
  = (mkConn false 1 [116%N] 7, ROk (VL [VZ 0; VZ 100]), []).
Proof. vm_compute. reflexivity. Qed.
(* cut inside the fetch header or the first message header: io.ErrUnexpectedEOF, closed *)
Lemma fetch_cut_header :
  forall k, (k < 67)%nat ->
  exists st' s', conn_do (fresh [116%N]) (mkOp AFetch 2 7)
                   (firstn k (frame 1 (enc (resp_ty AFetch 2) w_fetch_ok_v2)))
                 = (st', RErr EUnexpEOF, s') /\ closed st' = true.
Proof.
  intros k Hk.
  assert (Hc : In k (seq 0 67)) by (apply in_seq; lia).
  cbn [seq In] in Hc.
  repeat (destruct Hc as [Hc|Hc]; [subst k; eexists; eexists; split; [vm_compute; reflexivity|reflexivity]|]).
  contradiction.
Qed.
Lemma fetch_close_swallows_cut :
  forall k, (67 <= k < 77)%nat ->
  exists st' s', conn_do (fresh [116%N]) (mkOp AFetch 2 7)
                   (firstn k (frame 1 (enc (resp_ty AFetch 2) w_fetch_ok_v2)))
                 = (st', ROk (VL [VZ 0; VZ 100]), s') /\ closed st' = false.
Proof.
  intros k Hk.
  assert (Hc : In k (seq 67 10)) by (apply in_seq; lia).
  cbn [seq In] in Hc.
  repeat (destruct Hc as [Hc|Hc]; [subst k; eexists; eexists; split; [vm_compute; reflexivity|reflexivity]|]).
  contradiction.
Qed.
