(* Proofs/ConnOpsWitness.v — regression instances (by computation on the model): the concrete
   responses that left the stream misaligned / swallowed a cut before the fixes of conn.go,
   batch.go (F2 and friends) now satisfy the property. *)
From Coq Require Import List NArith ZArith Bool Lia.
From KV Require Import Lib.Bits Lib.Bytes Model.Legacy Model.ConnOps.
From KV Require Import Proofs.ConnOpsBase Proofs.ConnOpsCodec Proofs.ConnOpsProofs.
Import ListNotations.
Open Scope Z_scope.

(* well-formedness of a concrete wire value, structurally (vm_compute on [wt] is exponential:
   it normalises the comparison functions under the Forall binder) *)
Ltac wt_leaf :=
  first [ exact I | (left; reflexivity) | (right; reflexivity)
        | (unfold in_signed, pow256, ZM31, is_byte; cbn; lia) ].
Ltac wt_solve :=
  repeat (cbn; first [ wt_leaf | apply Forall_cons | apply Forall_nil | apply conj ]).
Ltac wf_solve :=
  split; [repeat autounfold with wvals; wt_solve | cbn; repeat eexists].

Definition topic_t : wval := WS (Some [116%N]).
Definition one_tp (part : wval) : wval := WL (Some [WP topic_t (WL (Some [part]))]).
#[export] Hint Unfold topic_t one_tp : wvals.

Definition hb : op := mkOp AHeartbeat 0 0.
Definition hb_frame (id : Z) : list N := frame id (enc TI16 (WZ 0)).

(* produce: partition error code 6 *)
Definition w_produce_v2 : wval :=
  WP (one_tp (WP (WZ 0) (WP (WZ 6) (WP (WZ 5) (WZ 7))))) (WZ 0).
Definition w_produce_v7 : wval :=
  WP (one_tp (WP (WZ 0) (WP (WZ 6) (WP (WZ 5) (WP (WZ 7) (WZ 0)))))) (WZ 0).
Definition w_produce_v2_thr6 : wval :=
  WP (one_tp (WP (WZ 0) (WP (WZ 6) (WP (WZ 5) (WZ 7))))) (WZ 6).
(* fetch v5 / v10: partition error code 1, no aborted transactions, empty message set;
   v10 top-level error 6; v2 partition error with a non-empty (opaque) message set *)
Definition fetch_part_v5 (e : Z) : wval :=
  WP (WZ 0) (WP (WZ e) (WP (WZ 10) (WP (WZ 10) (WP (WZ 0) (WP (WL (Some [])) (WS (Some []))))))).
Definition w_fetch_v5 : wval := WP (WZ 0) (one_tp (fetch_part_v5 1)).
Definition w_fetch_v10_part : wval := WP (WZ 0) (WP (WZ 0) (WP (WZ 0) (one_tp (fetch_part_v5 1)))).
Definition w_fetch_v10_top : wval := WP (WZ 0) (WP (WZ 6) (WP (WZ 0) (one_tp (fetch_part_v5 0)))).
Definition w_fetch_v2 : wval :=
  WP (WZ 0) (one_tp (WP (WZ 0) (WP (WZ 1) (WP (WZ 10) (WS (Some [1%N; 2%N; 3%N])))))).
#[export] Hint Unfold w_produce_v2 w_produce_v7 w_produce_v2_thr6 fetch_part_v5 w_fetch_v5
  w_fetch_v10_part w_fetch_v10_top w_fetch_v2 : wvals.

(* after the Kafka error the next operation succeeds and nothing is left in the stream *)
Definition then_next_ok (a : api) (v : N) (off : Z) (w : wval) (code : Z) : Prop :=
  conn_run (fresh [116%N]) [mkOp a v off; hb] (frame 1 (enc (resp_ty a v) w) ++ hb_frame 2)
  = (mkConn false 2 [116%N] (match a with AFetch => off | _ => -1 end),
     [RErr (EKafka code); ROk (VZ 0)], []).

Lemma produce_v2_then_next_ok : then_next_ok AProduce 2 0 w_produce_v2 6.
Proof. vm_compute. reflexivity. Qed.
Lemma produce_v3_then_next_ok : then_next_ok AProduce 3 0 w_produce_v2 6.
Proof. vm_compute. reflexivity. Qed.
Lemma produce_v7_then_next_ok : then_next_ok AProduce 7 0 w_produce_v7 6.
Proof. vm_compute. reflexivity. Qed.
Lemma fetch_v5_partition_then_next_ok : then_next_ok AFetch 5 3 w_fetch_v5 1.
Proof. vm_compute. reflexivity. Qed.
Lemma fetch_v10_partition_then_next_ok : then_next_ok AFetch 10 3 w_fetch_v10_part 1.
Proof. vm_compute. reflexivity. Qed.
Lemma fetch_v10_toplevel_then_next_ok : then_next_ok AFetch 10 3 w_fetch_v10_top 6.
Proof. vm_compute. reflexivity. Qed.
Lemma fetch_v2_partition_then_next_ok : then_next_ok AFetch 2 3 w_fetch_v2 1.
Proof. vm_compute. reflexivity. Qed.

(* the former cross-interpretation scenario (produce error with throttle 6, then heartbeats):
   every heartbeat now reads its own frame *)
Lemma former_cross_interpretation_ok :
  conn_run (fresh [116%N]) [mkOp AProduce 2 0; hb; hb; hb; hb; hb]
    (frame 1 (enc (resp_ty AProduce 2) w_produce_v2_thr6)
     ++ hb_frame 2 ++ hb_frame 3 ++ hb_frame 4 ++ hb_frame 5 ++ hb_frame 6)
  = (mkConn false 6 [116%N] (-1),
     [RErr (EKafka 6); ROk (VZ 0); ROk (VZ 0); ROk (VZ 0); ROk (VZ 0); ROk (VZ 0)], []).
Proof. vm_compute. reflexivity. Qed.

(* fetch with highWaterMark = offset and a non-empty message set: the set is discarded *)
Definition msgset_v1 : list N :=
  put_bes 8 7 ++ put_bes 4 24 ++ put_bes 4 0 ++ [1%N; 0%N] ++ put_bes 8 1000
  ++ put_bes 4 (-1) ++ put_bes 4 2 ++ [97%N; 98%N].
Definition w_fetch_ok_v2 : wval :=
  WP (WZ 0) (one_tp (WP (WZ 0) (WP (WZ 0) (WP (WZ 100) (WS (Some msgset_v1)))))).
Lemma fetch_hwm_eq_offset_then_next_ok :
  conn_run (fresh [116%N]) [mkOp AFetch 2 100; hb]
    (frame 1 (enc (resp_ty AFetch 2) w_fetch_ok_v2) ++ hb_frame 2)
  = (mkConn false 2 [116%N] 100, [ROk (VL [VZ 0; VZ 100]); ROk (VZ 0)], []).
Proof. vm_compute. reflexivity. Qed.
Lemma fetch_full_ok :
  conn_do (fresh [116%N]) (mkOp AFetch 2 7) (frame 1 (enc (resp_ty AFetch 2) w_fetch_ok_v2))
  = (mkConn false 1 [116%N] 7, ROk (VL [VZ 0; VZ 100]), []).
Proof. vm_compute. reflexivity. Qed.

(* ---- truncation ---- *)
Ltac all_cuts :=
  match goal with Hc : In _ _ |- _ =>
    cbn [seq In] in Hc;
    repeat (destruct Hc as [Hc|Hc];
            [subst; eexists; eexists; split; [vm_compute; reflexivity|reflexivity]|]);
    contradiction
  end.

(* ApiVersions (18-byte frame), every cut: io.EOF and the Conn is closed *)
Definition w_apiversions : wval := WP (WZ 0) (WL (Some [WP (WZ 0) (WP (WZ 0) (WZ 7))])).
Lemma apiversions_cut_closed :
  forall k, (k < 20)%nat ->
  exists st' s', conn_do (fresh []) (mkOp AApiVersions 0 0)
                   (firstn k (frame 1 (enc (resp_ty AApiVersions 0) w_apiversions)))
                 = (st', RErr EEOF, s') /\ closed st' = true.
Proof. intros k Hk. assert (Hc : In k (seq 0 20)) by (apply in_seq; lia). all_cuts. Qed.

(* produce error response (45-byte frame) cut inside the trailing throttle field: the skip of
   the remainder now meets the end of the stream *)
Lemma produce_error_cut_in_throttle :
  forall k, (41 <= k < 45)%nat ->
  exists st' s',
    conn_do (fresh [116%N]) (mkOp AProduce 2 0)
      (firstn k (frame 1 (enc (resp_ty AProduce 2) w_produce_v2)))
    = (st', RErr EEOF, s') /\ closed st' = true.
Proof. intros k Hk. assert (Hc : In k (seq 41 4)) by (apply in_seq; lia). all_cuts. Qed.

(* fetch (ReadBatch + Close without reading), 77-byte frame with one magic-1 message: a cut
   anywhere — header, first message header, or the part Close discards — is reported as
   io.ErrUnexpectedEOF and the Conn is closed *)
Lemma fetch_cut_anywhere :
  forall k, (k < 77)%nat ->
  exists st' s', conn_do (fresh [116%N]) (mkOp AFetch 2 7)
                   (firstn k (frame 1 (enc (resp_ty AFetch 2) w_fetch_ok_v2)))
                 = (st', RErr EUnexpEOF, s') /\ closed st' = true.
Proof. intros k Hk. assert (Hc : In k (seq 0 77)) by (apply in_seq; lia). all_cuts. Qed.
