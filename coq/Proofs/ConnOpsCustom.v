(* Proofs/ConnOpsCustom.v — the hand-written early-return readers (produce, list-offsets,
   ApiVersions) evaluated on well-formed single-topic / single-partition responses. *)
From Coq Require Import List NArith ZArith Bool Lia.
From Coq Require Import ZifyN ZifyNat ZifyBool.
From KV Require Import Lib.Bits Lib.Bytes Model.Legacy Model.ConnOps.
From KV Require Import Proofs.ConnOpsBase Proofs.ConnOpsCodec Proofs.ConnOpsProofs.
Import ListNotations.
Open Scope Z_scope.

Lemma bind_inl A B (p : P A) (f : A -> P B) sz s a sz1 s1 :
  p sz s = (inl a, sz1, s1) -> bind p f sz s = f a sz1 s1.
Proof. intros H. unfold bind. rewrite H. reflexivity. Qed.
Lemma bind_inr A B (p : P A) (f : A -> P B) sz s e sz1 s1 :
  p sz s = (inr e, sz1, s1) -> bind p f sz s = (inr e, sz1, s1).
Proof. intros H. unfold bind. rewrite H. reflexivity. Qed.

Lemma discardN_exact b sz rest : Z.of_nat (length b) <= sz ->
  discardN (Z.of_nat (length b)) sz (b ++ rest) = (inl tt, sz - Z.of_nat (length b), rest).
Proof.
  intros H. unfold discardN. destruct (Z.leb_spec (Z.of_nat (length b)) sz); [|lia].
  destruct (bufio_discard_spec (Z.of_nat (length b)) (b ++ rest)) as [[H' _]|[[H' E]|[_ [H' _]]]];
    [lia| |rewrite app_length in H'; lia].
  rewrite E. rewrite Nat2Z.id, skipn_exact by reflexivity. reflexivity.
Qed.

Lemma discardString_enc x sz rest : wt TStr x -> Z.of_nat (length (enc TStr x)) <= sz ->
  discardString sz (enc TStr x ++ rest) = (inl tt, sz - Z.of_nat (length (enc TStr x)), rest).
Proof.
  intros Hwt Hsz. destruct x; cbn [wt] in Hwt; try contradiction. cbn [enc] in *.
  unfold discardString, readStringWith, readInt16. destruct s as [b|].
  - destruct Hwt as [_ Hl]. rewrite app_length, put_bes_length in Hsz. rewrite <- app_assoc.
    erewrite bind_inl by (apply read_int_enc; [lia|apply in_signed_2_len; lia|lia]).
    erewrite bind_inl by (apply guard_short_ok; lia).
    unfold discard_cb. destruct (Z.ltb_spec (Z.of_nat (length b)) 0); [lia|].
    rewrite discardN_exact by lia. rewrite app_length, put_bes_length. f_equal. f_equal. lia.
  - rewrite put_bes_length in Hsz.
    erewrite bind_inl by (apply read_int_enc; [lia|apply in_signed_2_m1|lia]).
    erewrite bind_inl by (apply guard_short_ok; lia).
    unfold discard_cb. destruct (Z.ltb_spec (-1) 0); [|lia]. unfold ret. rewrite put_bes_length. reflexivity.
Qed.

Lemma readArrayWith_one A (cb : P A) sz s : 4 <= sz ->
  readArrayWith cb sz (put_bes 4 1 ++ s) = (a <- cb ;; l <- ret [] ;; ret (a :: l)) (sz - 4) s.
Proof.
  intros H. unfold readArrayWith, readInt32.
  erewrite bind_inl by (apply read_int_enc; [lia|unfold in_signed, pow256; cbn; lia|lia]).
  change (Z.to_nat 1) with 1%nat. cbn [rep]. reflexivity.
Qed.

Lemma discardInt32_enc z sz rest : 4 <= sz ->
  discardInt32 sz (put_bes 4 z ++ rest) = (inl tt, sz - 4, rest).
Proof.
  intros H. unfold discardInt32.
  pose proof (discardN_exact (put_bes 4 z) sz rest) as E. rewrite put_bes_length in E.
  apply E. cbn. lia.
Qed.

(* ---- produce ---- *)
Definition w_produce (name part : wval) (thr : Z) : wval :=
  WP (WL (Some [WP name (WL (Some [part]))])) (WZ thr).

Lemma enc_produce v name part thr :
  enc (resp_ty AProduce v) (w_produce name part thr)
  = put_bes 4 1 ++ enc TStr name ++ put_bes 4 1 ++ enc (t_produce_part v) part ++ put_bes 4 thr.
Proof.
  unfold w_produce. cbn [resp_ty tup enc flat_map length]. rewrite !app_nil_r.
  change (Z.of_nat 1) with 1. rewrite <- !app_assoc. reflexivity.
Qed.

Lemma produce_read_frame v name part thr rest :
  wt TStr name -> wt (t_produce_part v) part ->
  let body := enc (resp_ty AProduce v) (w_produce name part thr) in
  exists r, produce_read v (Z.of_nat (length body)) (body ++ rest) = (r, 0, rest) /\
            match r with inl _ => True | inr (EKafka _) => True | _ => False end.
Proof.
  intros Hn Hp body. subst body. rewrite enc_produce.
  set (en := enc TStr name). set (ep := enc (t_produce_part v) part).
  rewrite !app_length, !put_bes_length. fold en ep.
  set (sz := Z.of_nat (4 + (length en + (4 + (length ep + 4))))).
  rewrite <- !app_assoc.
  set (s3 := put_bes 4 thr ++ rest).
  set (sz3 := sz - 4 - Z.of_nat (length en) - 4).
  assert (Hstr : discardString (sz - 4) (en ++ put_bes 4 1 ++ ep ++ s3)
                 = (inl tt, sz3 + 4, put_bes 4 1 ++ ep ++ s3)).
  { match goal with |- discardString ?a (_ ++ ?r) = _ =>
      pose proof (discardString_enc name a r Hn ltac:(fold en; lia)) as E end.
    fold en in E. rewrite E. f_equal. f_equal. lia. }
  assert (Hpart : read_ty (t_produce_part v) sz3 (ep ++ s3)
                  = (inl (dec_val (t_produce_part v) part), 4, s3)).
  { match goal with |- read_ty ?t ?a (_ ++ ?r) = _ =>
      pose proof (read_ty_enc t part Hp a r ltac:(fold ep; lia)) as E end.
    fold ep in E. rewrite E. f_equal. f_equal. lia. }
  unfold produce_read, expectZeroSize, skipRemainingOnKafkaError.
  destruct (zfield 1 (dec_val (t_produce_part v) part) =? 0) eqn:Ez.
  - assert (HPP : produce_partition v sz3 (ep ++ s3)
                  = (inl (VL [field 0 (dec_val (t_produce_part v) part);
                              field 2 (dec_val (t_produce_part v) part);
                              field 3 (dec_val (t_produce_part v) part)]), 4, s3)).
    { unfold produce_partition. erewrite bind_inl by exact Hpart. rewrite Ez. reflexivity. }
    assert (HArr : readArrayWith (produce_partition v) (sz3 + 4) (put_bes 4 1 ++ ep ++ s3)
                   = (inl [VL [field 0 (dec_val (t_produce_part v) part);
                               field 2 (dec_val (t_produce_part v) part);
                               field 3 (dec_val (t_produce_part v) part)]], 4, s3)).
    { rewrite readArrayWith_one by lia. replace (sz3 + 4 - 4) with sz3 by lia.
      erewrite bind_inl by exact HPP. reflexivity. }
    erewrite bind_inl.
    2:{ rewrite readArrayWith_one by lia.
        erewrite bind_inl.
        2:{ erewrite bind_inl by exact Hstr. erewrite bind_inl by exact HArr.
            unfold s3. erewrite bind_inl by (apply discardInt32_enc; lia). reflexivity. }
        reflexivity. }
    cbn. eexists. split; [reflexivity|exact I].
  - assert (HPP : produce_partition v sz3 (ep ++ s3)
                  = (inr (EKafka (zfield 1 (dec_val (t_produce_part v) part))), 4, s3)).
    { unfold produce_partition. erewrite bind_inl by exact Hpart. rewrite Ez. reflexivity. }
    assert (HArr : readArrayWith (produce_partition v) (sz3 + 4) (put_bes 4 1 ++ ep ++ s3)
                   = (inr (EKafka (zfield 1 (dec_val (t_produce_part v) part))), 4, s3)).
    { rewrite readArrayWith_one by lia. replace (sz3 + 4 - 4) with sz3 by lia.
      erewrite bind_inr by exact HPP. reflexivity. }
    erewrite bind_inr.
    2:{ rewrite readArrayWith_one by lia.
        erewrite bind_inr.
        2:{ erewrite bind_inl by exact Hstr. erewrite bind_inr by exact HArr. reflexivity. }
        reflexivity. }
    (* the remainder (the throttle time) is skipped *)
    unfold s3. pose proof (discardInt32_enc thr 4 rest ltac:(lia)) as Ed.
    unfold discardInt32 in Ed. rewrite Ed. cbn. eexists. split; [reflexivity|exact I].
Qed.

(* ---- list-offsets v1 ---- *)
Definition w_listoffsets (name part : wval) : wval := WL (Some [WP name (WL (Some [part]))]).

Lemma enc_listoffsets name part :
  enc (resp_ty AListOffsets 1) (w_listoffsets name part)
  = put_bes 4 1 ++ enc TStr name ++ put_bes 4 1 ++ enc t_listoffset_part part.
Proof.
  unfold w_listoffsets. cbn [resp_ty tup enc flat_map length]. rewrite !app_nil_r.
  change (Z.of_nat 1) with 1. rewrite <- ?app_assoc. reflexivity.
Qed.

Lemma listoffsets_read_frame name part rest :
  wt TStr name -> wt t_listoffset_part part ->
  let body := enc (resp_ty AListOffsets 1) (w_listoffsets name part) in
  exists r, listoffsets_read (Z.of_nat (length body)) (body ++ rest) = (r, 0, rest) /\
            match r with inl _ => True | inr (EKafka _) => True | _ => False end.
Proof.
  intros Hn Hp body. subst body. rewrite enc_listoffsets.
  set (en := enc TStr name). set (ep := enc t_listoffset_part part).
  rewrite !app_length, !put_bes_length. fold en ep.
  set (sz := Z.of_nat (4 + (length en + (4 + length ep)))).
  rewrite <- !app_assoc.
  set (sz3 := sz - 4 - Z.of_nat (length en) - 4).
  assert (Hstr : discardString (sz - 4) (en ++ put_bes 4 1 ++ ep ++ rest)
                 = (inl tt, sz3 + 4, put_bes 4 1 ++ ep ++ rest)).
  { match goal with |- discardString ?a (_ ++ ?r) = _ =>
      pose proof (discardString_enc name a r Hn ltac:(fold en; lia)) as E end.
    fold en in E. rewrite E. f_equal. f_equal. lia. }
  assert (Hpart : read_ty t_listoffset_part sz3 (ep ++ rest)
                  = (inl (dec_val t_listoffset_part part), 0, rest)).
  { match goal with |- read_ty ?t ?a (_ ++ ?r) = _ =>
      pose proof (read_ty_enc t part Hp a r ltac:(fold ep; lia)) as E end.
    fold ep in E. rewrite E. f_equal. f_equal. lia. }
  unfold listoffsets_read, expectZeroSize.
  destruct (zfield 1 (dec_val t_listoffset_part part) =? 0) eqn:Ez.
  - erewrite bind_inl.
    2:{ rewrite readArrayWith_one by lia.
        erewrite bind_inl.
        2:{ erewrite bind_inl by exact Hstr. rewrite readArrayWith_one by lia.
            replace (sz3 + 4 - 4) with sz3 by lia.
            erewrite bind_inl.
            2:{ erewrite bind_inl by exact Hpart. rewrite Ez. reflexivity. }
            reflexivity. }
        reflexivity. }
    cbn. eexists. split; [reflexivity|exact I].
  - erewrite bind_inr.
    2:{ rewrite readArrayWith_one by lia.
        erewrite bind_inr.
        2:{ erewrite bind_inl by exact Hstr. rewrite readArrayWith_one by lia.
            replace (sz3 + 4 - 4) with sz3 by lia.
            erewrite bind_inr.
            2:{ erewrite bind_inl by exact Hpart. rewrite Ez. reflexivity. }
            reflexivity. }
        reflexivity. }
    eexists. split; [reflexivity|exact I].
Qed.

(* ---- conn_do on these frames ---- *)
Definition done_result (r : result) : Prop :=
  match r with ROk _ => True | RErr (EKafka _) => True | _ => False end.

Lemma post_done topic a v x : done_result (post topic a v x).
Proof.
  unfold post. destruct (post_error topic a v x); [exact I|]. destruct a; exact I.
Qed.

(* produce, every well-formed response: success or the partition's error code, and in both
   cases the whole frame is consumed *)
Theorem conn_do_produce_frame st v off name part thr rest :
  wt TStr name -> wt (t_produce_part v) part ->
  let body := enc (resp_ty AProduce v) (w_produce name part thr) in
  let id := wrap32 (corr st + 1) in
  fits body -> closed st = false ->
  exists r, conn_do st (mkOp AProduce v off) (frame id body ++ rest)
            = (mkConn false id (cfg_topic st) (offset st), r, rest) /\ done_result r.
Proof.
  intros Hn Hp body id Hfit Hcl.
  rewrite conn_do_unfold by exact Hcl. cbv zeta. cbn [op_api op_ver].
  unfold id. rewrite wait_response_frame by (try apply wrap32_in_signed; exact Hfit).
  cbn [op_read].
  destruct (produce_read_frame v name part thr rest Hn Hp) as (r & E & Hr); fold body in E; rewrite E.
  destruct r as [x|e].
  - eexists. split; [reflexivity|apply post_done].
  - destruct e; try contradiction. eexists. split; [reflexivity|exact I].
Qed.

Theorem conn_do_listoffsets_frame st off name part rest :
  wt TStr name -> wt t_listoffset_part part ->
  let body := enc (resp_ty AListOffsets 1) (w_listoffsets name part) in
  let id := wrap32 (corr st + 1) in
  fits body -> closed st = false ->
  exists r, conn_do st (mkOp AListOffsets 1 off) (frame id body ++ rest)
            = (mkConn false id (cfg_topic st) (offset st), r, rest) /\ done_result r.
Proof.
  intros Hn Hp body id Hfit Hcl.
  rewrite conn_do_unfold by exact Hcl. cbv zeta. cbn [op_api op_ver].
  unfold id. rewrite wait_response_frame by (try apply wrap32_in_signed; exact Hfit).
  cbn [op_read].
  destruct (listoffsets_read_frame name part rest Hn Hp) as (r & E & Hr); fold body in E; rewrite E.
  destruct r as [x|e].
  - eexists. split; [reflexivity|apply post_done].
  - destruct e; try contradiction. eexists. split; [reflexivity|exact I].
Qed.

(* the shape of a well-formed list-offsets / produce response *)
Lemma wf_listoffsets w : well_formed AListOffsets 1 w ->
  exists name part, w = w_listoffsets name part /\ wt TStr name /\ wt t_listoffset_part part.
Proof.
  intros [Hwt (name & part & Hw)]. subst w. exists name, part. split; [reflexivity|].
  cbn [resp_ty tup wt] in Hwt. destruct Hwt as [Hall _].
  apply Forall_cons_iff in Hall as [[Hn [Hps _]] _].
  apply Forall_cons_iff in Hps as [Hp _]. auto.
Qed.

Lemma wf_produce v w : well_formed AProduce v w ->
  exists name part thr, w = w_produce name part thr /\ wt TStr name /\ wt (t_produce_part v) part.
Proof.
  intros [Hwt (topics & thr & Hw & name & part & Ht)]. subst w topics.
  cbn [resp_ty tup wt] in Hwt. destruct Hwt as [[Hall _] Hthr].
  destruct thr; cbn [wt] in Hthr; try contradiction.
  exists name, part, z. split; [reflexivity|].
  apply Forall_cons_iff in Hall as [[Hn [Hps _]] _].
  apply Forall_cons_iff in Hps as [Hp _]. auto.
Qed.

(* ---- ApiVersions v0 ---- *)
Definition t_apiv := tup [TI16; TI16; TI16].

Lemma apiversions_read_frame e lo rest :
  in_signed 2 e -> wt (TArr t_apiv) (WL lo) ->
  let body := enc (resp_ty AApiVersions 0) (WP (WZ e) (WL lo)) in
  exists r, apiversions_read (Z.of_nat (length body)) (body ++ rest) = (r, 0, rest) /\
            match r with inr e' => is_kafka e' = false | _ => True end.
Proof.
  intros He Hl body. unfold apiversions_read.
  destruct lo as [l|].
  - destruct Hl as [Hall Hlen].
    set (ef := flat_map (enc t_apiv) l).
    assert (Hb : body = put_bes 2 e ++ put_bes 4 (Z.of_nat (length l)) ++ ef) by reflexivity.
    rewrite Hb. clear Hb body.
    rewrite !app_length, !put_bes_length.
    set (sz := Z.of_nat (2 + (4 + length ef))).
    rewrite <- !app_assoc.
    erewrite bind_inl by (apply read_int_enc; [lia|exact He|lia]).
    erewrite bind_inl by (apply read_int_enc; [lia|apply in_signed_4_len; lia|lia]).
    destruct (Z.ltb_spec (Z.of_nat (length l)) 0); [lia|].
    rewrite Nat2Z.id.
    assert (Hrep : rep (length l) (read_ty t_apiv) (sz - Z.of_nat 2 - Z.of_nat 4) (ef ++ rest)
                   = (inl (map (dec_val t_apiv) l), 0, rest)).
    { unfold ef. rewrite (rep_enc t_apiv (read_ty_enc t_apiv) l Hall) by (fold ef; lia).
      fold ef. f_equal. f_equal. lia. }
    erewrite bind_inl by exact Hrep.
    eexists. split; [reflexivity|exact I].
  - assert (Hb : body = put_bes 2 e ++ put_bes 4 (-1)) by reflexivity.
    rewrite Hb. clear Hb body.
    rewrite !app_length, !put_bes_length. rewrite <- !app_assoc.
    erewrite bind_inl by (apply read_int_enc; [lia|exact He|lia]).
    erewrite bind_inl by (apply read_int_enc; [lia|apply in_signed_4_len; unfold ZM31; lia|lia]).
    destruct (Z.ltb_spec (-1) 0); [|lia].
    unfold fail. eexists. split; [f_equal; f_equal; lia|reflexivity].
Qed.

(* ApiVersions on a well-formed response: the whole frame is consumed, whatever the outcome;
   a failure (null array) is not a Kafka error *)
Theorem conn_do_apiversions_frame st off w rest :
  well_formed AApiVersions 0 w ->
  let body := enc (resp_ty AApiVersions 0) w in
  let id := wrap32 (corr st + 1) in
  fits body -> closed st = false ->
  exists st' r, conn_do st (mkOp AApiVersions 0 off) (frame id body ++ rest) = (st', r, rest) /\
                (done_result r -> closed st' = false) /\
                (~ done_result r -> exists e, r = RErr e /\ is_kafka e = false /\ closed st' = true).
Proof.
  intros [Hwt _] body id Hfit Hcl. subst body.
  cbn [resp_ty tup] in Hwt. fold t_apiv in Hwt.
  destruct w as [| | |a b|]; cbn [wt] in Hwt; try contradiction. destruct Hwt as [Ha Hb].
  destruct a as [e| | | |]; cbn [wt] in Ha; try contradiction.
  destruct b as [| |lo| |]; try (cbn [wt] in Hb; contradiction).
  rewrite conn_do_unfold by exact Hcl. cbv zeta. cbn [op_api op_ver].
  unfold id. rewrite wait_response_frame by (try apply wrap32_in_signed; exact Hfit).
  cbn [op_read].
  destruct (apiversions_read_frame e lo rest Ha Hb) as (r & E & Hr).
  cbv zeta in E. rewrite E.
  destruct r as [x|e0].
  - eexists. eexists. split; [reflexivity|]. split; [reflexivity|].
    intros Hn. exfalso. apply Hn. apply post_done.
  - cbn [map_err]. rewrite Hr. eexists. eexists. split; [reflexivity|]. split.
    + intros Hd. destruct e0; try contradiction. discriminate Hr.
    + intros _. exists e0. auto.
Qed.
