(* Proofs/GroupReaderCover.v — C03_delivered_before_covered (StartOffset = FirstOffset):
   every OffsetCommit request covers only records already delivered to some member. *)
From Coq Require Import List NArith ZArith Bool Lia.
From Coq Require Import ZifyN ZifyNat ZifyBool.
From KV Require Import Lib.LTS Model.GroupReader Proofs.GroupReaderBase Proofs.GroupReaderCommit.
Import ListNotations.
Open Scope Z_scope.

Definition Dl (h : list event) (t : tp) (x : Z) : Prop := exists r v, In (EvDeliver r v t x) h.
Definition cov (h : list event) (t : tp) (c : Z) : Prop := forall x, 0 <= x < c -> Dl h t x.

Lemma Dl_mono : forall es h t x, Dl h t x -> Dl (es ++ h) t x.
Proof. intros es h t x [r [v H]]; exists r, v; apply in_or_app; right; exact H. Qed.
Lemma cov_mono : forall es h t c, cov h t c -> cov (es ++ h) t c.
Proof. intros es h t c H x Hx; apply Dl_mono; apply H; exact Hx. Qed.
Lemma cov_le : forall h t c c', cov h t c -> c' <= c -> cov h t c'.
Proof. intros h t c c' H L x Hx; apply H; lia. Qed.

Definition P_cov (e : event) (h : list event) : Prop :=
  match e with
  | EvOffsetCommit _ _ _ offs _ _ => forall t c, In (t, c) offs -> cov h t c
  | _ => True
  end.

(* ---- the invariant, per component *)
Definition amap_cov (h : list event) (m : list (tp * Z)) : Prop := forall t c, In (t, c) m -> cov h t c.
Definition start_ok (h : list event) (t : tp) (st : Z) : Prop := st = FirstOffset \/ (0 <= st /\ cov h t st).

Definition rc (h : list event) (cs : list creq) : Prop := forall rq, In rq cs -> amap_cov h (cq_commits rq).
Definition rf (h : list event) (p : phase) : Prop :=
  match p with PFetched _ _ offs => forall t st, In (t, st) offs -> start_ok h t st | _ => True end.
Definition rr (h : list event) (r : nat) (ver : N) (q : list (N * tp * Z)) (rs : list preader) : Prop :=
  forall p, In p rs ->
    match pr_next p with
    | None => start_ok h (pr_tp p) (pr_start p)
    | Some n => cov h (pr_tp p) n \/ In (ver, pr_tp p, n - 1) q \/ In (EvDeliver r ver (pr_tp p) (n - 1)) h
    end.
Definition doomed (f : fetcher) (ver v : N) : Prop :=
  match f with FWait snap => (v < snap)%N | FIdle => (v < ver)%N end.
Definition rq (h : list event) (r : nat) (f : fetcher) (ver : N) (q : list (N * tp * Z)) : Prop :=
  forall q1 v t o q2, q = q1 ++ (v, t, o) :: q2 ->
    cov h t o \/ In (v, t, o - 1) q1 \/ In (EvDeliver r v t (o - 1)) h \/ doomed f ver v.
Definition re (f : fetcher) (ver : N) : Prop :=
  match f with FWait snap => (snap <= ver)%N | FIdle => True end.

Definition rinv (h : list event) (r : nat) (x : rstate) : Prop :=
  rc h (rd_commits x) /\ amap_cov h (rd_stash x) /\ rf h (rd_phase x) /\
  rr h r (rd_version x) (rd_msgs x) (rd_readers x) /\
  rq h r (rd_fetch x) (rd_version x) (rd_msgs x) /\ re (rd_fetch x) (rd_version x).

Definition ginv (h : list event) (cm : amap) : Prop :=
  (forall t c, lookup cm t = Some c -> cov h t c) /\
  (forall r v t o, In (EvDeliver r v t o) h -> cov h t (o + 1)).

Definition inv_cov (s : state) : Prop :=
  ginv (st_hist s) (co_committed (st_co s)) /\ forall r, rinv (st_hist s) r (st_rd s r).

(* ---- monotonicity in the history *)
Lemma amap_cov_mono : forall es h m, amap_cov h m -> amap_cov (es ++ h) m.
Proof. intros es h m H t c Hin; apply cov_mono; eapply H; eauto. Qed.
Lemma start_ok_mono : forall es h t st, start_ok h t st -> start_ok (es ++ h) t st.
Proof. intros es h t st [H|[H1 H2]]; [left; exact H|right; split; [exact H1|apply cov_mono; exact H2]]. Qed.
Lemma rc_mono : forall es h cs, rc h cs -> rc (es ++ h) cs.
Proof. intros es h cs H rq0 Hin; apply amap_cov_mono; apply H; exact Hin. Qed.
Lemma rf_mono : forall es h p, rf h p -> rf (es ++ h) p.
Proof. intros es h [] H; cbn in *; auto. intros t st Hin; apply start_ok_mono; eapply H; eauto. Qed.
Lemma rr_mono : forall es h r ver q rs, rr h r ver q rs -> rr (es ++ h) r ver q rs.
Proof.
  intros es h r ver q rs H p Hin. specialize (H p Hin). destruct (pr_next p).
  - destruct H as [H|[H|H]]; [left; apply cov_mono; exact H|right; left; exact H|right; right; apply in_or_app; right; exact H].
  - apply start_ok_mono; exact H.
Qed.
Lemma rq_mono : forall es h r f ver q, rq h r f ver q -> rq (es ++ h) r f ver q.
Proof.
  intros es h r f ver q H q1 v t o q2 E. destruct (H q1 v t o q2 E) as [A|[A|[A|A]]];
    [left; apply cov_mono; exact A|right; left; exact A|right; right; left; apply in_or_app; right; exact A|right; right; right; exact A].
Qed.
Lemma rinv_mono : forall es h r x, rinv h r x -> rinv (es ++ h) r x.
Proof.
  intros es h r x (A & B & C & D & E & F). repeat split;
    [apply rc_mono|apply amap_cov_mono|apply rf_mono|apply rr_mono|apply rq_mono|]; assumption.
Qed.

(* the global part when the new events contain no delivery and committed is unchanged *)
Definition no_deliver (es : list event) : Prop :=
  forall e, In e es -> match e with EvDeliver _ _ _ _ => False | _ => True end.
Lemma ginv_mono : forall es h cm, no_deliver es -> ginv h cm -> ginv (es ++ h) cm.
Proof.
  intros es h cm Hn [A B]; split.
  - intros t c H; apply cov_mono; eapply A; eauto.
  - intros r v t o H. apply in_app_or in H. destruct H as [H|H].
    + specialize (Hn _ H). contradiction.
    + apply cov_mono; eapply B; eauto.
Qed.

Lemma P_cov_other : forall es h,
  (forall e, In e es -> match e with EvOffsetCommit _ _ _ _ _ _ => False | _ => True end) ->
  forall e1 esa esb, es = esa ++ e1 :: esb -> P_cov e1 (esb ++ h).
Proof.
  intros es h H e1 esa esb E. assert (Hin : In e1 es) by (rewrite E; apply in_or_app; right; left; reflexivity).
  specialize (H e1 Hin). destruct e1; cbn; auto; contradiction.
Qed.

(* ---- partition-reader list lemmas *)
Lemma find_reader_In : forall rs t p, find_reader rs t = Some p -> In p rs /\ pr_tp p = t.
Proof.
  induction rs as [|p0 rs IH]; intros t p H; cbn in H; [discriminate|].
  destruct (tp_eqb t (pr_tp p0)) eqn:E.
  - inversion H; subst. apply tp_eqb_eq in E. split; [left; reflexivity|symmetry; exact E].
  - destruct (IH _ _ H) as [A B]. split; [right; exact A|exact B].
Qed.
Lemma set_reader_In : forall rs t n p', In p' (set_reader rs t n) ->
  In p' rs \/ exists p, find_reader rs t = Some p /\ p' = {| pr_tp := pr_tp p; pr_start := pr_start p; pr_next := n |}.
Proof.
  induction rs as [|p0 rs IH]; intros t n p' H; cbn in H; [destruct H|].
  cbn [find_reader]. destruct (tp_eqb t (pr_tp p0)) eqn:E.
  - destruct H as [H|H]; [right; exists p0; split; [reflexivity|symmetry; exact H]|left; right; exact H].
  - destruct H as [H|H]; [left; left; exact H|].
    destruct (IH _ _ _ H) as [A|[p [A B]]]; [left; right; exact A|right; exists p; split; assumption].
Qed.

Lemma handed_Dl : forall h r m, handed h r m = true -> exists v, In (EvDeliver r v (fst m) (snd m)) h.
Proof.
  intros h r m H. unfold handed in H. apply existsb_exists in H. destruct H as [e [Hin He]].
  destruct e; cbn in He; try discriminate. apply andb_true_iff in He. destruct He as [He H3].
  apply andb_true_iff in He. destruct He as [H1 H2].
  apply Nat.eqb_eq in H1. apply tp_eqb_eq in H2. apply Z.eqb_eq in H3.
  exists v. rewrite H1, H2, H3. exact Hin.
Qed.

(* ---- one step *)
Ltac rd_cases r' r :=
  unfold upd; destruct (Nat.eqb r' r) eqn:?Er;
  [apply Nat.eqb_eq in Er; subst r'|apply Nat.eqb_neq in Er].

Ltac comp_tac :=
  first [ assumption | exact I
        | apply rc_mono; assumption | apply amap_cov_mono; assumption | apply rf_mono; assumption
        | apply rr_mono; assumption | apply rq_mono; assumption
        | (intros ? ? ?; contradiction) | (intros ? ?; contradiction) | (intros ? ? ? ?; contradiction) ].

Ltac other_tac Hi r' :=
  first [ exact (proj2 Hi r') | apply rinv_mono; exact (proj2 Hi r') ].

Ltac ginv_tac Hi :=
  first [ exact (proj1 Hi)
        | apply ginv_mono; [intros e He; cbn in He;
            repeat (destruct He as [He|He]; [subst e; exact I|]); try contradiction;
            try (apply in_rev in He; apply in_map_iff in He; destruct He as [? [<- _]]; exact I)
          | exact (proj1 Hi)] ].

Ltac hist_tac Ho :=
  cbn [push set_rd set_co st_hist];
  first [ exact Ho
        | apply hist_ok_app; [exact Ho|apply P_cov_other; intros e He; cbn in He;
            repeat (destruct He as [He|He]; [subst e; exact I|]); try contradiction;
            try (apply in_rev in He; apply in_map_iff in He; destruct He as [? [<- _]]; exact I)] ].

(* frame: the new rstate of r differs only in components handled by comp_tac *)
Ltac rcbn := cbn [rd_commits rd_stash rd_phase rd_version rd_msgs rd_readers rd_fetch rd_waiting rd_loop
  with_group with_msgs with_fetch with_commits with_readers with_loop rf re].

Ltac same_tac Hi :=
  match goal with |- rinv _ ?r _ =>
    let A := fresh "A" in let B := fresh "B" in let C := fresh "C" in
    let D := fresh "D" in let E' := fresh "E'" in let F := fresh "F" in
    destruct (proj2 Hi r) as (A & B & C & D & E' & F); unfold rinv; rcbn;
    refine (conj _ (conj _ (conj _ (conj _ (conj _ _))))); comp_tac end.

Ltac frame_cov Hi Ho :=
  split; [split; [cbn [push set_rd set_co st_hist st_co st_rd co_committed]; ginv_tac Hi
                 | let r' := fresh "r'" in intros r'; cbn [push set_rd set_co st_hist st_co st_rd co_committed];
                   first [ (match goal with |- context [upd _ ?r _ r'] => rd_cases r' r end;
                            [same_tac Hi|other_tac Hi r'])
                         | other_tac Hi r' ] ]
         | hist_tac Ho ].

Ltac open_cov Hi Ho :=
  split; [split; [cbn [push set_rd set_co st_hist st_co st_rd co_committed]; try (solve [ginv_tac Hi])
                 | let r' := fresh "r'" in intros r'; cbn [push set_rd set_co st_hist st_co st_rd co_committed];
                   try (match goal with |- context [upd _ ?r _ r'] => rd_cases r' r;
                     [ destruct (proj2 Hi r) as (Ia & Ib & Ic & Id & Ie & If_); unfold rinv; rcbn;
                       refine (conj _ (conj _ (conj _ (conj _ (conj _ _))))); try comp_tac
                     | other_tac Hi r' ] end) ]
         | try (solve [hist_tac Ho]) ].

Lemma rq_doomed_weaken : forall h r f f' ver ver' q,
  (forall v, doomed f ver v -> doomed f' ver' v) -> rq h r f ver q -> rq h r f' ver' q.
Proof.
  intros h r f f' ver ver' q Hd H q1 v t o q2 E. destruct (H q1 v t o q2 E) as [A|[A|[A|A]]]; auto.
Qed.

Lemma finish_cov : forall cfg s0 s r ws final (ok : bool) code pre,
  st_hist s0 = st_hist s -> st_rd s0 = st_rd s ->
  ginv (pre ++ st_hist s) (co_committed (st_co s0)) -> (forall r', rinv (st_hist s) r' (st_rd s r')) ->
  hist_ok P_cov (st_hist s) ->
  (forall e1 esa esb, pre = esa ++ e1 :: esb -> P_cov e1 (esb ++ st_hist s)) ->
  inv_cov (finish cfg s0 r (st_rd s r) ws final ok code pre) /\
  hist_ok P_cov (st_hist (finish cfg s0 r (st_rd s r) ws final ok code pre)).
Proof.
  intros cfg s0 s r ws final ok code pre Hh Hr Hg Hi Ho Hpre.
  destruct (finish_hist cfg s0 r (st_rd s r) ws final ok code pre) as [es [w [Hrep Hhist]]].
  split; [split|].
  - rewrite Hhist, Hh, finish_co. apply ginv_mono; [|exact Hg].
    intros e He. destruct (replies_events _ _ _ _ _ _ Hrep e He) as [id [_ ->]]. exact I.
  - intros r'. rewrite Hhist, Hh, app_assoc.
    destruct (Nat.eq_dec r' r) as [->|Hn].
    + destruct (finish_rd_same cfg s0 r (st_rd s r) ws final ok code pre) as [w' ->].
      destruct (Hi r) as (A & B & C & D & E' & F). unfold rinv; cbn.
      refine (conj _ (conj _ (conj _ (conj _ (conj _ _))))); try comp_tac.
      apply amap_cov_mono. destruct final; [intros ? ? []|]. destruct (cfg_sync cfg); [intros ? ? []|].
      destruct ok; [intros ? ? []|exact B].
    + rewrite finish_rd_other by exact Hn. rewrite Hr. apply rinv_mono. apply Hi.
  - rewrite Hhist, Hh. apply hist_ok_app.
    + apply hist_ok_app; [exact Ho|exact Hpre].
    + apply P_cov_other. intros e He. destruct (replies_events _ _ _ _ _ _ Hrep e He) as [id [_ ->]]. exact I.
Qed.

Lemma app_snoc_split : forall (A : Type) (q q1 q2 : list A) (a b : A),
  q ++ [a] = q1 ++ b :: q2 ->
  (q2 = [] /\ q = q1 /\ a = b) \/ (exists q2', q2 = q2' ++ [a] /\ q = q1 ++ b :: q2').
Proof.
  intros A q q1 q2 a b H. destruct (@exists_last _ (b :: q2)) as [q' [x Hx]]; [discriminate|].
  destruct q2 as [|y q2].
  - left. apply app_inj_tail in H. destruct H; auto.
  - right. destruct (@exists_last _ (y :: q2)) as [q2' [x' Hx']]; [discriminate|].
    rewrite Hx' in H. change (q1 ++ b :: q2' ++ [x']) with (q1 ++ (b :: q2') ++ [x']) in H.
    rewrite app_assoc in H. apply app_inj_tail in H. destruct H as [H1 H2]. subst x'.
    exists q2'. split; [exact Hx'|exact H1].
Qed.

Lemma resolve_nonneg : forall st hw, 0 <= st -> resolve_start st hw = st.
Proof.
  intros st hw H. unfold resolve_start, FirstOffset, LastOffset.
  destruct (st =? -2) eqn:E1; [lia|]. destruct (st =? -1) eqn:E2; [lia|].
  destruct (st <? 0) eqn:E3; [lia|reflexivity].
Qed.

Lemma ginv_commit : forall h cm cm' r mid g offs z b,
  ginv h cm -> amap_cov h offs -> (cm' = cm \/ cm' = store cm offs) ->
  ginv ([EvOffsetCommit r mid g offs z b] ++ h) cm'.
Proof.
  intros h cm cm' r mid g offs z b [A B] Hc Hcm. split.
  - intros t c L. apply cov_mono. destruct Hcm as [->| ->]; [eapply A; eauto|].
    rewrite lookup_store in L. destruct (lookup offs t) eqn:Lo.
    + inversion L; subst. eapply Hc. apply lookup_In; exact Lo.
    + eapply A; eauto.
  - intros r0 v t o Hin. destruct Hin as [Hin|Hin]; [discriminate Hin|].
    apply cov_mono. eapply B; eauto.
Qed.

Lemma step_cov : forall cfg s l s', cfg_start cfg = FirstOffset ->
  inv_cov s /\ hist_ok P_cov (st_hist s) -> step cfg s l = Some s' ->
  inv_cov s' /\ hist_ok P_cov (st_hist s').
Proof.
  intros cfg s l s' Hfirst [Hi Ho] H.
  destruct l; cbn [step] in H; destr_step H;
  try (frame_cov Hi Ho; fail);
  (* commit-loop completions *)
  try (match goal with |- context [finish _ _ _ _ _ _ _ _ []] =>
         apply finish_cov; [reflexivity|reflexivity|exact (proj1 Hi)|exact (proj2 Hi)|exact Ho|
                            intros e1 esa esb Eq; destruct esa; discriminate Eq] end; fail);
  try (match goal with |- context [finish _ _ _ _ _ _ _ _ [EvOffsetCommit ?r ?mid ?g ?offs ?z ?b]] =>
         assert (Hst : amap_cov (st_hist s) offs)
           by (match goal with Hs : rd_stash (st_rd s r) = _ |- _ => rewrite <- Hs end;
               exact (proj1 (proj2 (proj2 Hi r))));
         apply finish_cov; [reflexivity|reflexivity| |exact (proj2 Hi)|exact Ho|];
         [ eapply ginv_commit; [exact (proj1 Hi)|exact Hst|];
           cbn [set_co st_co]; destruct b; cbn [co_committed]; [right|left]; reflexivity
         | intros e1 esa esb Eq; destruct esa as [|? esa]; [|destruct esa; discriminate Eq];
           inversion Eq; subst; exact Hst ] end; fail);
  open_cov Hi Ho.
  - (* LOffsetFetch: rf *)
    intros t0 st Hin. apply in_map_iff in Hin. destruct Hin as [t1 [Heq Hin]]. inversion Heq; subst.
    apply start_ok_mono. unfold start_of_raw, fetch_raw. rewrite Hfirst.
    destruct (lookup (co_committed (st_co s)) t0) eqn:L.
    + destruct (z <? 0) eqn:Zn; [left; reflexivity|right; split; [lia|apply (proj1 (proj1 Hi)); exact L]].
    + left; reflexivity.
  - (* LSubscribe: rr *)
    intros p Hin. apply in_map_iff in Hin. destruct Hin as [[t0 st] [<- Hin]]. cbn.
    rewrite E in Ic. cbn in Ic. eapply Ic; eauto.
  - eapply rq_doomed_weaken; [|exact Ie]. intros v; unfold doomed; destruct (rd_fetch (st_rd s r)); lia.
  - unfold re in *. destruct (rd_fetch (st_rd s r)); [exact I|lia].
  - (* LReaderInit: rr *)
    intros p' Hin. apply set_reader_In in Hin. destruct Hin as [Hin|[p0 [Hf ->]]].
    + exact (rr_mono [_] _ _ _ _ _ Id p' Hin).
    + rewrite E in Hf; inversion Hf; subst p0. cbn [pr_next pr_tp]. left.
      destruct (find_reader_In _ _ _ E) as [Hp _]. specialize (Id p Hp). rewrite E0 in Id.
      apply (cov_mono [_]). destruct Id as [Hs|[Hs Hc]].
      * rewrite Hs. cbn. intros x Hx; lia.
      * rewrite resolve_nonneg by exact Hs. exact Hc.
  - (* LReaderEmit: rr *)
    intros p' Hin. apply set_reader_In in Hin. destruct Hin as [Hin|[p0 [Hf ->]]].
    + specialize (Id p' Hin). destruct (pr_next p'); [|exact Id].
      destruct Id as [A|[A|A]]; [left; exact A|right; left; apply in_or_app; left; exact A|right; right; exact A].
    + rewrite E in Hf; inversion Hf; subst p0. cbn [pr_next pr_tp]. right; left.
      destruct (find_reader_In _ _ _ E) as [_ Ht]. rewrite Ht. replace (z + 1 - 1) with z by lia.
      apply in_or_app; right; left; reflexivity.
  - (* LReaderEmit: rq *)
    intros q1 v t0 o q2 Eq. apply app_snoc_split in Eq. destruct Eq as [[-> [<- Heq]]|[q2' [-> Heq]]].
    + inversion Heq; subst. destruct (find_reader_In _ _ _ E) as [Hp Ht]. specialize (Id p Hp).
      rewrite E0, Ht in Id. destruct Id as [A|[A|A]]; auto.
    + exact (Ie q1 v t0 o q2' Heq).
  - (* LFetchSnap *)
    eapply rq_doomed_weaken; [|exact Ie]. rewrite E. intros v Hd; exact Hd.
  - apply N.le_refl.
  - (* LFetchRecv deliver: ginv *)
    destruct (proj2 Hi r) as (Ia & Ib & Ic & Id & Ie & If_).
    rewrite E in Ie, If_. cbn in If_.
    assert (Hc : cov (st_hist s) t z).
    { destruct (Ie [] n t z l E0) as [A|[[]|[A|A]]]; [exact A| |cbn in A; lia].
      replace z with (z - 1 + 1) by lia. eapply (proj2 (proj1 Hi)); exact A. }
    split.
    + intros t0 c L. apply cov_mono. eapply (proj1 (proj1 Hi)); exact L.
    + intros r0 v t0 o [Hin|Hin].
      * inversion Hin; subst. intros x Hx. destruct (Z.eq_dec x o) as [->|Hne].
        -- exists r0, v; left; reflexivity.
        -- apply (Dl_mono [_]). apply Hc; lia.
      * apply (cov_mono [_]). eapply (proj2 (proj1 Hi)); exact Hin.
  - (* deliver: rr *)
    intros p Hin. specialize (Id p Hin). destruct (pr_next p); [|apply (start_ok_mono [_]); exact Id].
    rewrite E0 in Id. destruct Id as [A|[[A|A]|A]].
    + left; apply (cov_mono [_]); exact A.
    + right; right. left. inversion A; subst. reflexivity.
    + right; left; exact A.
    + right; right; right; exact A.
  - (* deliver: rq *)
    rewrite E in Ie, If_. cbn in If_.
    intros q1 v t0 o q2 Eq. destruct (Ie ((n, t, z) :: q1) v t0 o q2) as [A|[[A|A]|[A|A]]].
    + rewrite E0, Eq; reflexivity.
    + left; apply (cov_mono [_]); exact A.
    + right; right; left. left. inversion A; subst. reflexivity.
    + right; left; exact A.
    + right; right; left; right; exact A.
    + right; right; right. cbn in *. lia.
  - (* drop: rr *)
    rewrite E in Ie, If_. cbn in If_.
    intros p Hin. specialize (Id p Hin). destruct (pr_next p); [|apply (start_ok_mono [_]); exact Id].
    rewrite E0 in Id. destruct Id as [A|[[A|A]|A]].
    + left; apply (cov_mono [_]); exact A.
    + inversion A; subst. lia.
    + right; left; exact A.
    + right; right; right; exact A.
  - (* drop: rq *)
    rewrite E in Ie, If_. cbn in If_.
    intros q1 v t0 o q2 Eq. destruct (Ie ((n, t, z) :: q1) v t0 o q2) as [A|[[A|A]|[A|A]]].
    + rewrite E0, Eq; reflexivity.
    + left; apply (cov_mono [_]); exact A.
    + right; right; right. inversion A; subst. cbn. lia.
    + right; left; exact A.
    + right; right; left; right; exact A.
    + right; right; right. cbn in *. lia.
  - (* LFetchCancel *)
    rewrite E in Ie, If_. cbn in If_. eapply rq_doomed_weaken; [|exact Ie]. intros v Hd; cbn in *; lia.
  - (* LCommitCall sync: rc *)
    intros rq0 Hin. apply in_app_or in Hin. destruct Hin as [Hin|[<-|[]]]; [apply (amap_cov_mono [_]); apply Ia; exact Hin|].
    cbn [cq_commits]. intros t0 c0 Hc. apply makeCommits_In in Hc. apply (cov_mono [_]).
    rewrite forallb_forall in E. specialize (E _ Hc). apply handed_Dl in E. destruct E as [v Hv]. cbn in Hv.
    replace c0 with (c0 - 1 + 1) by lia. eapply (proj2 (proj1 Hi)); exact Hv.
  - (* LCommitCall interval: rc *)
    intros rq0 Hin. apply in_app_or in Hin. destruct Hin as [Hin|[<-|[]]]; [apply (amap_cov_mono [_; _]); apply Ia; exact Hin|].
    cbn [cq_commits]. intros t0 c0 Hc. apply makeCommits_In in Hc. apply (cov_mono [_; _]).
    rewrite forallb_forall in E. specialize (E _ Hc). apply handed_Dl in E. destruct E as [v Hv]. cbn in Hv.
    replace c0 with (c0 - 1 + 1) by lia. eapply (proj2 (proj1 Hi)); exact Hv.
  - (* LLoopRecv sync *)
    intros rq0 Hin. apply Ia. rewrite E1. right; exact Hin.
  - intros t0 c0 Hin. apply In_merge in Hin. destruct Hin as [Hin|Hin]; [eapply Ib; exact Hin|].
    eapply (Ia c); [rewrite E1; left; reflexivity|exact Hin].
  - (* LLoopRecv interval *)
    intros rq0 Hin. apply Ia. rewrite E1. right; exact Hin.
  - intros t0 c0 Hin. apply In_merge in Hin. destruct Hin as [Hin|Hin]; [eapply Ib; exact Hin|].
    eapply (Ia c); [rewrite E1; left; reflexivity|exact Hin].
  - (* LLoopFinal *)
    intros t0 c0 Hin. apply In_foldmerge in Hin. destruct Hin as [Hin|[rq0 [H1 H2]]]; [eapply Ib; exact Hin|].
    eapply (Ia rq0); eauto.
  - (* retry: ginv *)
    eapply ginv_commit; [exact (proj1 Hi)| |destruct b; cbn [co_committed]; [right|left]; reflexivity].
    rewrite <- E2. exact (proj1 (proj2 (proj2 Hi r))).
  - apply (amap_cov_mono [_]). rewrite <- E2. exact Ib.
  - cbn [push set_rd set_co st_hist]. cbn. split; [|exact Ho].
    intros t0 c0 Hin. eapply (proj1 (proj2 (proj2 Hi r))). rewrite E2. exact Hin.
Qed.

Lemma init_cov : inv_cov init /\ hist_ok P_cov (st_hist init).
Proof.
  split; [|exact I]. split.
  - split; cbn; [intros; discriminate|intros; contradiction].
  - intros r. unfold rinv; cbn.
    refine (conj _ (conj _ (conj _ (conj _ (conj _ _))))); try exact I.
    + intros ? [].
    + intros ? ? [].
    + intros ? [].
    + intros q1 v t o q2 Eq. destruct q1; discriminate Eq.
Qed.

Theorem delivered_before_covered : forall cfg ls s, cfg_start cfg = FirstOffset ->
  run (step cfg) init ls = Some s ->
  forall h1 r mid g offs code ap h2, st_hist s = h1 ++ EvOffsetCommit r mid g offs code ap :: h2 ->
  forall t c, In (t, c) offs -> forall x, 0 <= x < c -> exists r' v, In (EvDeliver r' v t x) h2.
Proof.
  intros cfg ls s Hf Hrun h1 r mid g offs code ap h2 Hs t c Hin x Hx.
  assert (J : inv_cov s /\ hist_ok P_cov (st_hist s)).
  { eapply (@inv_run _ _ (step cfg) (fun y => inv_cov y /\ hist_ok P_cov (st_hist y)));
      [|exact init_cov|exact Hrun]. intros; eapply step_cov; eauto. }
  pose proof (hist_ok_split P_cov _ _ _ _ (proj2 J) Hs) as Hp. cbn in Hp. exact (Hp t c Hin x Hx).
Qed.

(* the coordinator's committed offsets themselves only cover delivered records *)
Theorem committed_covered : forall cfg ls s, cfg_start cfg = FirstOffset ->
  run (step cfg) init ls = Some s ->
  forall t c, lookup (co_committed (st_co s)) t = Some c ->
  forall x, 0 <= x < c -> exists r' v, In (EvDeliver r' v t x) (st_hist s).
Proof.
  intros cfg ls s Hf Hrun t c L x Hx.
  assert (J : inv_cov s /\ hist_ok P_cov (st_hist s)).
  { eapply (@inv_run _ _ (step cfg) (fun y => inv_cov y /\ hist_ok P_cov (st_hist y)));
      [|exact init_cov|exact Hrun]. intros; eapply step_cov; eauto. }
  exact (proj1 (proj1 (proj1 J)) t c L x Hx).
Qed.

(* ================================================================ quiescence *)
(* a partition reader whose member's queue is empty has had everything below its next offset
   delivered (to some member) *)
Theorem drained_reader_delivered : forall cfg ls s, cfg_start cfg = FirstOffset ->
  run (step cfg) init ls = Some s ->
  forall r p n, In p (rd_readers (st_rd s r)) -> pr_next p = Some n -> rd_msgs (st_rd s r) = [] ->
  forall x, 0 <= x < n -> exists r' v, In (EvDeliver r' v (pr_tp p) x) (st_hist s).
Proof.
  intros cfg ls s Hf Hrun r p n Hp Hn Hq x Hx.
  assert (J : inv_cov s /\ hist_ok P_cov (st_hist s)).
  { eapply (@inv_run _ _ (step cfg) (fun y => inv_cov y /\ hist_ok P_cov (st_hist y)));
      [|exact init_cov|exact Hrun]. intros; eapply step_cov; eauto. }
  destruct J as [[[Ga Gb] Hr] _].
  destruct (Hr r) as (_ & _ & _ & D & _ & _). specialize (D p Hp). rewrite Hn, Hq in D.
  destruct D as [A|[[]|A]].
  - exact (A x Hx).
  - specialize (Gb _ _ _ _ A). apply Gb. lia.
Qed.

Definition assignment_covers_existing (existing : list tp) (g : N) (h : list event) : Prop :=
  forall t, In t existing -> exists r mid asg, In (EvAssign r mid g asg) h /\ In t asg.

(* member r has drained partition t: its reader of t stands at the high watermark, nothing is
   queued *)
Definition drained (s : state) (r : nat) (t : tp) : Prop :=
  exists p, In p (rd_readers (st_rd s r)) /\ pr_tp p = t /\
            pr_next p = Some (hw_of (st_hw s) t) /\ rd_msgs (st_rd s r) = [].

Theorem quiescent_all_delivered : forall cfg ls s existing g, cfg_start cfg = FirstOffset ->
  run (step cfg) init ls = Some s ->
  assignment_covers_existing existing g (st_hist s) ->
  (forall r mid asg t, In (EvAssign r mid g asg) (st_hist s) -> In t asg -> drained s r t) ->
  forall t, In t existing -> forall x, 0 <= x < hw_of (st_hw s) t ->
    exists r' v, In (EvDeliver r' v t x) (st_hist s).
Proof.
  intros cfg ls s existing g Hf Hrun Hcov Hdr t Ht x Hx.
  destruct (Hcov t Ht) as [r [mid [asg [Ha Hin]]]].
  destruct (Hdr r mid asg t Ha Hin) as [p [Hp [Htp [Hn Hq]]]].
  rewrite <- Htp. eapply drained_reader_delivered; eauto.
Qed.
