(* Proofs/WriterC01b.v — C01: what a returned WriteMessages means (nil => logged; WriteErrors
   exact; Completion once).  Invariants over runs of Model/Writer.v. *)
From Coq Require Import List NArith Bool Arith Lia ZifyN ZifyNat ZifyBool.
From KV Require Import Lib.LTS Model.Writer Proofs.WriterStmts Proofs.WriterBase.
Import ListNotations.

Ltac inv H := inversion H; subst; clear H.

(* ------------------------------------------------------------------ lists *)
Lemma upd_app_last : forall A (l : list A) x y, upd (l ++ [x]) (length l) y = l ++ [y].
Proof. induction l; simpl; intros; auto. f_equal; auto. Qed.

Lemma nth_error_nil : forall A i (x : A), nth_error [] i = Some x -> False.
Proof. destruct i; simpl; discriminate. Qed.

Lemma NoDup_snoc : forall A (l : list A) x, NoDup l -> ~ In x l -> NoDup (l ++ [x]).
Proof.
  induction l; simpl; intros.
  - constructor; auto.
  - inv H. constructor.
    + rewrite in_app_iff. simpl. intros [?|[?|[]]]; auto.
    + apply IHl; auto.
Qed.

Lemma find_app_some : forall A f (l x : list A) y, find f l = Some y -> find f (l ++ x) = Some y.
Proof. induction l; simpl; intros; [discriminate|]. destruct (f a); auto. Qed.

Lemma nodup_key_eq : forall A (f : A -> nat) l b b',
  NoDup (map f l) -> In b l -> In b' l -> f b = f b' -> b = b'.
Proof.
  induction l; simpl; intros b b' N H1 H2 E; [contradiction|].
  inv N. destruct H1 as [->|H1], H2 as [->|H2]; auto.
  - exfalso. apply H3. rewrite E. apply in_map; auto.
  - exfalso. apply H3. rewrite <- E. apply in_map; auto.
Qed.

(* ------------------------------------------------------------------ partition writers *)
Definition pw_pre (pw : pwriter) : list batch :=
  map fst (pw_fin pw) ++ opt_list (option_map sd_batch (pw_snd pw)) ++ pw_queue pw.

Lemma pw_all_pre : forall pw, pw_all pw = pw_pre pw ++ opt_list (pw_curr pw).
Proof. intros. unfold pw_all, pw_pre. repeat rewrite <- app_assoc. reflexivity. Qed.

Definition holds (pw : pwriter) (k : nat) (m : msg) : Prop :=
  exists b, In b (pw_all pw) /\ b_k b = k /\ In m (b_msgs b).

Definition pw_wf (pw : pwriter) : Prop :=
  (pw_open pw = false -> pw_curr pw = None) /\
  NoDup (map b_k (pw_all pw)) /\
  (forall b, In b (pw_all pw) -> b_k b < pw_nb pw).

Section WithCfg.
Variable cfg : config.
Hypothesis Hok : cfg_ok cfg.

Lemma pw_add_spec : forall pw m pw' k sp, pw_add cfg pw m = (pw', k, sp) -> pw_open pw = true ->
  pw_tp pw' = pw_tp pw /\ pw_open pw' = true /\ pw_fin pw' = pw_fin pw /\ pw_snd pw' = pw_snd pw /\
  ((exists l b, pw_all pw = l ++ [b] /\ pw_all pw' = l ++ [add_msg b m] /\ k = b_k b /\ pw_nb pw' = pw_nb pw)
   \/ (pw_all pw' = pw_all pw ++ [add_msg (mkBatch (pw_nb pw) [] 0%N) m] /\ k = pw_nb pw /\
       pw_nb pw' = S (pw_nb pw))).
Proof.
  intros pw m pw' k sp H Ho. unfold pw_add in H.
  destruct (pw_curr pw) as [b|] eqn:Ec.
  - destruct (add_fits cfg b m) eqn:Ef.
    + match type of H with context[if ?c then _ else _] => destruct c eqn:Efu end; inv H;
        unfold put; rewrite ?Ho; simpl; repeat split; auto; left;
        exists (pw_pre pw), b; rewrite (pw_all_pre pw), Ec; simpl; repeat split; auto;
        unfold pw_all, pw_pre; simpl; repeat rewrite <- app_assoc; reflexivity.
    + unfold new_batch in H. cbv beta iota zeta in H.
      match type of H with context[if ?c then _ else _] => destruct c eqn:Efu end; inv H;
        unfold put; rewrite ?Ho; simpl; rewrite ?Ho; simpl; repeat split; auto; right;
        rewrite (pw_all_pre pw), Ec; simpl; repeat split; auto;
        unfold pw_all, pw_pre; simpl; repeat rewrite <- app_assoc; reflexivity.
  - unfold new_batch in H. cbv beta iota zeta in H.
    match type of H with context[if ?c then _ else _] => destruct c eqn:Efu end; inv H;
      unfold put; simpl; rewrite ?Ho; simpl; repeat split; auto; right;
      rewrite (pw_all_pre pw), Ec; simpl; repeat split; auto;
      unfold pw_all, pw_pre; simpl; repeat rewrite <- app_assoc; rewrite ?app_nil_r; reflexivity.
Qed.


Lemma pw_add_wf : forall pw m pw' k sp,
  pw_add cfg pw m = (pw',k,sp) -> pw_open pw = true -> pw_wf pw -> pw_wf pw'.
Proof.
  intros pw m pw' k sp H Ho (W1 & W2 & W3).
  destruct (pw_add_spec _ _ _ _ _ H Ho) as (Etp & Eo & Ef & Es & [(l & b & E1 & E2 & Ek & En)|(E2 & Ek & En)]).
  - split; [intros; congruence|]. split.
    + rewrite E2. rewrite E1 in W2. rewrite map_app in *. simpl in *. exact W2.
    + intros b' Hb. rewrite E2 in Hb. rewrite En. apply in_app_iff in Hb. destruct Hb as [Hb|[<-|[]]].
      * apply W3. rewrite E1. apply in_app_iff; auto.
      * simpl. apply W3. rewrite E1. apply in_app_iff; simpl; auto.
  - split; [intros; congruence|]. split.
    + rewrite E2, map_app. simpl. apply NoDup_snoc; auto. intros Hin. apply in_map_iff in Hin.
      destruct Hin as (b' & Eb & Hb). apply W3 in Hb. lia.
    + intros b' Hb. rewrite E2 in Hb. rewrite En. apply in_app_iff in Hb.
      destruct Hb as [Hb|[<-|[]]]; [apply W3 in Hb; lia|simpl; lia].
Qed.

Definition pw_le (pw pw' : pwriter) : Prop :=
  pw_tp pw' = pw_tp pw /\ (exists x, pw_fin pw' = pw_fin pw ++ x) /\
  (forall k m, holds pw k m -> holds pw' k m).

Lemma pw_le_refl : forall pw, pw_le pw pw.
Proof. intros; split; auto. split; auto. exists []. rewrite app_nil_r; auto. Qed.

Lemma pw_le_trans : forall a b c, pw_le a b -> pw_le b c -> pw_le a c.
Proof.
  intros a b c (T1 & (x1 & F1) & H1) (T2 & (x2 & F2) & H2). split; [congruence|]. split; auto.
  exists (x1 ++ x2). rewrite F2, F1, app_assoc. reflexivity.
Qed.

Lemma pw_le_all : forall pw pw', pw_tp pw' = pw_tp pw -> pw_all pw' = pw_all pw ->
  (exists x, pw_fin pw' = pw_fin pw ++ x) -> pw_le pw pw'.
Proof. intros pw pw' T A F. split; auto. split; auto. unfold holds. rewrite A. auto. Qed.

Lemma pw_add_le : forall pw m pw' k sp,
  pw_add cfg pw m = (pw',k,sp) -> pw_open pw = true -> pw_le pw pw' /\ holds pw' k m.
Proof.
  intros pw m pw' k sp H Ho.
  destruct (pw_add_spec _ _ _ _ _ H Ho) as (Etp & Eo & Ef & Es & [(l & b & E1 & E2 & Ek & En)|(E2 & Ek & En)]).
  - split; [split; auto; split; [exists []; rewrite app_nil_r; auto|]|].
    + intros k0 x (b0 & Hb & Hk & Hx). rewrite E1 in Hb. apply in_app_iff in Hb. destruct Hb as [Hb|[<-|[]]].
      * exists b0. rewrite E2, in_app_iff. auto.
      * exists (add_msg b m). rewrite E2, in_app_iff. simpl. rewrite in_app_iff. auto 6.
    + exists (add_msg b m). rewrite E2, in_app_iff. simpl. rewrite in_app_iff. simpl. auto 6.
  - split; [split; auto; split; [exists []; rewrite app_nil_r; auto|]|].
    + intros k0 x (b0 & Hb & Hk & Hx). exists b0. rewrite E2, in_app_iff. auto.
    + exists (add_msg (mkBatch (pw_nb pw) [] 0%N) m). rewrite E2, in_app_iff. simpl. auto 6.
Qed.

Definition pws_le (pws pws' : list pwriter) : Prop :=
  forall p pw, nth_error pws p = Some pw -> exists pw', nth_error pws' p = Some pw' /\ pw_le pw pw'.

Lemma pws_le_refl : forall pws, pws_le pws pws.
Proof. intros pws p pw H. exists pw; split; auto. apply pw_le_refl. Qed.

Lemma pws_le_trans : forall a b c, pws_le a b -> pws_le b c -> pws_le a c.
Proof.
  intros a b c H1 H2 p pw H. destruct (H1 _ _ H) as (pw1 & N1 & L1).
  destruct (H2 _ _ N1) as (pw2 & N2 & L2). exists pw2; split; auto. eapply pw_le_trans; eauto.
Qed.

Lemma pws_le_upd : forall pws p pw pw', nth_error pws p = Some pw -> pw_le pw pw' -> pws_le pws (upd pws p pw').
Proof.
  intros pws p pw pw' Hn L q pwq Hq. destruct (Nat.eq_dec p q) as [<-|N].
  - exists pw'. rewrite nth_error_upd_eq by (apply nth_error_Some; congruence).
    split; auto. congruence.
  - exists pwq. rewrite nth_error_upd_neq by auto. split; auto. apply pw_le_refl.
Qed.

Lemma pws_le_app : forall pws l, pws_le pws (pws ++ l).
Proof.
  intros pws l p pw H. exists pw. split; [|apply pw_le_refl].
  rewrite nth_error_app1; auto. apply nth_error_Some; congruence.
Qed.

Lemma pws_add_spec : forall tp m pws i pws' ref sp, pws_add cfg tp m i pws = Some (pws', ref, sp) ->
  exists p pw pw' k, ref = (i + p, k) /\ nth_error pws p = Some pw /\ pw_open pw = true /\ pw_tp pw = tp /\
     pw_add cfg pw m = (pw', k, sp) /\ pws' = upd pws p pw'.
Proof.
  induction pws as [|q r IH]; simpl; intros i pws' ref sp H; [discriminate|].
  destruct (pw_open q && tp_eqb (pw_tp q) tp) eqn:E.
  - destruct (pw_add cfg q m) as [[p' k] sp'] eqn:Ea. inv H.
    apply andb_true_iff in E. destruct E as [E1 E2]. apply tp_eqb_eq in E2.
    exists 0, q, p', k. rewrite Nat.add_0_r. simpl. auto 10.
  - destruct (pws_add cfg tp m (S i) r) as [[[r' ref'] sp']|] eqn:Er; [|discriminate]. inv H.
    destruct (IH _ _ _ _ Er) as (p & pw & pw' & k & -> & Hn & Ho & Ht & Ha & ->).
    exists (S p), pw, pw', k. simpl. replace (i + S p) with (S (i + p)) by lia. auto 10.
Qed.

Lemma assign_one_spec : forall pws wg refs m pws' wg' refs',
  assign_one cfg (pws,wg,refs) m = (pws',wg',refs') ->
  exists p k pw pw' sp pws0, refs' = refs ++ [(p,k)] /\ pw_add cfg pw m = (pw',k,sp) /\
    pw_open pw = true /\ pw_tp pw = tp_of cfg m /\
    (pws0 = pws \/ pws0 = pws ++ [new_pw (tp_of cfg m)]) /\ nth_error pws0 p = Some pw /\
    pws' = upd pws0 p pw'.
Proof.
  intros pws wg refs m pws' wg' refs' H. unfold assign_one in H.
  destruct (pws_add cfg (tp_of cfg m) m 0 pws) as [[[pws1 ref] sp]|] eqn:E.
  - inv H. destruct (pws_add_spec _ _ _ _ _ _ _ E) as (p & pw & pw' & k & -> & Hn & Ho & Ht & Ha & ->).
    simpl. exists p,k,pw,pw',sp,pws. auto 10.
  - destruct (pw_add cfg (new_pw (tp_of cfg m)) m) as [[p' k] sp] eqn:Ea. inv H.
    exists (length pws), k, (new_pw (tp_of cfg m)), p', sp, (pws ++ [new_pw (tp_of cfg m)]).
    rewrite upd_app_last. rewrite nth_error_app2, Nat.sub_diag by lia. simpl. auto 10.
Qed.

Definition allpw {A} (P : nat -> A -> Prop) (pws : list A) : Prop :=
  forall p pw, nth_error pws p = Some pw -> P p pw.

Lemma allpw_upd : forall A (P : nat -> A -> Prop) pws p pw', allpw P pws -> P p pw' -> allpw P (upd pws p pw').
Proof.
  intros A0 P pws p pw' A H q pw Hq. apply nth_error_upd in Hq.
  destruct Hq as [(-> & -> & _)|(_ & Hq)]; auto.
Qed.

Lemma allpw_snoc : forall A (P : nat -> A -> Prop) pws x, allpw P pws -> P (length pws) x -> allpw P (pws ++ [x]).
Proof.
  intros A0 P pws x A H q pw Hq. destruct (Nat.lt_ge_cases q (length pws)).
  - rewrite nth_error_app1 in Hq; auto.
  - rewrite nth_error_app2 in Hq by lia. destruct (q - length pws) eqn:E; simpl in Hq.
    + inv Hq. replace q with (length pws) by lia. auto.
    + exfalso; eapply nth_error_nil; eauto.
Qed.

Lemma assign_one_length : forall pws wg refs m pws' wg' refs',
  assign_one cfg (pws,wg,refs) m = (pws',wg',refs') -> length pws <= length pws'.
Proof.
  intros pws wg refs m pws' wg' refs' E.
  destruct (assign_one_spec _ _ _ _ _ _ _ E) as (p & k & pw & pw' & sp & pws0 & -> & _ & _ & _ & H0 & _ & ->).
  rewrite upd_length. destruct H0 as [->| ->]; rewrite ?app_length; simpl; lia.
Qed.

Section AssignAll.
Variable P : nat -> pwriter -> Prop.
Variable n0 : nat.
Hypothesis Pnew : forall p tp, n0 <= p -> P p (new_pw tp).
Hypothesis Padd : forall p pw m pw' k sp, P p pw -> pw_open pw = true -> pw_add cfg pw m = (pw',k,sp) -> P p pw'.

Lemma assign_one_allpw : forall pws wg refs m pws' wg' refs',
  assign_one cfg (pws,wg,refs) m = (pws',wg',refs') -> n0 <= length pws -> allpw P pws -> allpw P pws'.
Proof.
  intros pws wg refs m pws' wg' refs' H Hn A.
  destruct (assign_one_spec _ _ _ _ _ _ _ H) as (p & k & pw & pw' & sp & pws0 & -> & Hadd & Ho & Ht & H0 & Hnth & ->).
  assert (A0 : allpw P pws0) by (destruct H0 as [->| ->]; [auto|apply allpw_snoc; auto]).
  apply allpw_upd; auto. eapply Padd; [apply A0; exact Hnth|exact Ho|exact Hadd].
Qed.

Lemma fold_assign_allpw : forall ms pws wg refs pws' wg' refs',
  fold_left (assign_one cfg) ms (pws,wg,refs) = (pws',wg',refs') -> n0 <= length pws -> allpw P pws -> allpw P pws'.
Proof.
  induction ms; intros pws wg refs pws' wg' refs' H Hn A; cbn [fold_left] in H.
  - inv H; auto.
  - destruct (assign_one cfg (pws,wg,refs) a) as [[pws1 wg1] refs1] eqn:E.
    eapply IHms; eauto.
    + apply assign_one_length in E. lia.
    + eapply assign_one_allpw; eauto.
Qed.
End AssignAll.

(* the refs an Assign computes point to the batch that took the message *)
Definition ref_ok (pws : list pwriter) (ms : list msg) (i : nat) (r : nat * nat) : Prop :=
  exists m pw, nth_error ms i = Some m /\ nth_error pws (fst r) = Some pw /\
               pw_tp pw = tp_of cfg m /\ holds pw (snd r) m.

Definition refs_ok (pws : list pwriter) (ms : list msg) (refs : list (nat * nat)) : Prop :=
  forall i r, nth_error refs i = Some r -> ref_ok pws ms i r.

Lemma ref_ok_le : forall pws pws' ms i r, pws_le pws pws' -> ref_ok pws ms i r -> ref_ok pws' ms i r.
Proof.
  intros pws pws' ms i r L (m & pw & Hm & Hp & Ht & Hh).
  destruct (L _ _ Hp) as (pw' & Hp' & (T & _ & Hl)). exists m, pw'. repeat split; auto. congruence.
Qed.

Lemma assign_one_refs : forall pws wg refs m pws' wg' refs' done,
  assign_one cfg (pws,wg,refs) m = (pws',wg',refs') ->
  length refs = length done -> refs_ok pws done refs ->
  length refs' = length (done ++ [m]) /\ refs_ok pws' (done ++ [m]) refs' /\ pws_le pws pws'.
Proof.
  intros pws wg refs m pws' wg' refs' done H Hl R.
  destruct (assign_one_spec _ _ _ _ _ _ _ H) as (p & k & pw & pw' & sp & pws0 & -> & Hadd & Ho & Ht & H0 & Hnth & ->).
  destruct (pw_add_le _ _ _ _ _ Hadd Ho) as [Hle Hh].
  assert (L0 : pws_le pws pws0) by (destruct H0 as [->| ->]; [apply pws_le_refl|apply pws_le_app]).
  assert (L : pws_le pws (upd pws0 p pw')) by (eapply pws_le_trans; [exact L0|eapply pws_le_upd; eauto]).
  split; [rewrite !app_length; simpl; lia|]. split; auto.
  intros i r Hi. destruct (Nat.lt_ge_cases i (length refs)).
  - rewrite nth_error_app1 in Hi by auto. eapply ref_ok_le; [exact L|].
    destruct (R _ _ Hi) as (x & pwx & Hx & Hr). exists x, pwx. split; auto.
    rewrite nth_error_app1; auto. apply nth_error_Some; congruence.
  - rewrite nth_error_app2 in Hi by auto. destruct (i - length refs) eqn:E; simpl in Hi.
    + inv Hi. assert (i = length done) by lia. subst i. exists m, pw'. simpl.
      rewrite nth_error_app2, Nat.sub_diag by lia. simpl.
      rewrite nth_error_upd_eq by (apply nth_error_Some; congruence).
      destruct Hle as (T & _). repeat split; auto. congruence.
    + exfalso; eapply nth_error_nil; eauto.
Qed.

Lemma fold_assign_refs : forall ms pws wg refs pws' wg' refs' done,
  fold_left (assign_one cfg) ms (pws,wg,refs) = (pws',wg',refs') ->
  length refs = length done -> refs_ok pws done refs ->
  length refs' = length (done ++ ms) /\ refs_ok pws' (done ++ ms) refs' /\ pws_le pws pws'.
Proof.
  induction ms; intros pws wg refs pws' wg' refs' done H Hl R; cbn [fold_left] in H.
  - inv H. rewrite app_nil_r. split; auto. split; auto. apply pws_le_refl.
  - destruct (assign_one cfg (pws,wg,refs) a) as [[pws1 wg1] refs1] eqn:E.
    destruct (assign_one_refs _ _ _ _ _ _ _ _ E Hl R) as (L1 & R1 & Le1).
    destruct (IHms _ _ _ _ _ _ _ H L1 R1) as (L2 & R2 & Le2).
    rewrite <- app_assoc in L2, R2. simpl in L2, R2. split; auto. split; auto.
    eapply pws_le_trans; eauto.
Qed.


Lemma nth_error_map_inv : forall A B (f : A -> B) l i y, nth_error (map f l) i = Some y ->
  exists x, nth_error l i = Some x /\ y = f x.
Proof. induction l; destruct i; simpl; intros; try discriminate; eauto. inv H; eauto. Qed.

Lemma batch_result_le : forall pws pws' r o,
  pws_le pws pws' -> batch_result pws r = Some o -> batch_result pws' r = Some o.
Proof.
  unfold batch_result. intros pws pws' r o L H.
  destruct (nth_error pws (fst r)) as [pw|] eqn:E; [|discriminate].
  destruct (L _ _ E) as (pw' & -> & (_ & (x & ->) & _)).
  destruct (find (fun be => b_k (fst be) =? snd r) (pw_fin pw)) eqn:F; [|discriminate].
  erewrite find_app_some; eauto.
Qed.

Lemma all_results_le : forall pws pws' refs es,
  pws_le pws pws' -> all_results pws refs = Some es -> all_results pws' refs = Some es.
Proof.
  induction refs; simpl; intros es L H; auto.
  destruct (batch_result pws a) eqn:B; [|discriminate].
  destruct (all_results pws refs) eqn:R; [|discriminate].
  erewrite batch_result_le; eauto. erewrite IHrefs; eauto.
Qed.

Lemma all_results_nth : forall pws refs es, all_results pws refs = Some es ->
  length es = length refs /\
  forall i r, nth_error refs i = Some r -> exists o, nth_error es i = Some o /\ batch_result pws r = Some o.
Proof.
  induction refs; simpl; intros es H.
  - inv H. split; auto. intros i r Hi. destruct i; discriminate.
  - destruct (batch_result pws a) eqn:B; [|discriminate].
    destruct (all_results pws refs) eqn:R; [|discriminate]. inv H.
    destruct (IHrefs _ eq_refl) as [L N]. split; [simpl; auto|].
    intros [|i] r Hi; simpl in *; [inv Hi; eauto|auto].
Qed.

Lemma batch_result_fin : forall pws p k o, batch_result pws (p,k) = Some o ->
  exists pw b, nth_error pws p = Some pw /\ In (b,o) (pw_fin pw) /\ b_k b = k.
Proof.
  unfold batch_result; simpl; intros pws p k o H. destruct (nth_error pws p) as [pw|]; [|discriminate].
  destruct (find (fun be => b_k (fst be) =? k) (pw_fin pw)) as [[b o']|] eqn:F; [|discriminate]. inv H.
  apply find_some in F. destruct F as [F1 F2]. simpl in F2. apply Nat.eqb_eq in F2. exists pw, b. auto.
Qed.

(* pw' has the same batches as pw *)
Definition pw_sim (pw pw' : pwriter) : Prop :=
  pw_tp pw' = pw_tp pw /\ pw_all pw' = pw_all pw /\ pw_nb pw' = pw_nb pw /\
  (pw_open pw' = false -> pw_curr pw' = None).

Lemma pw_sim_wf : forall pw pw', pw_wf pw -> pw_sim pw pw' -> pw_wf pw'.
Proof. intros pw pw' (W1 & W2 & W3) (T & A & N & O). unfold pw_wf. rewrite A, N. auto. Qed.

Lemma pw_sim_le : forall pw pw', pw_sim pw pw' -> (exists x, pw_fin pw' = pw_fin pw ++ x) -> pw_le pw pw'.
Proof. intros pw pw' (T & A & N & O) F. apply pw_le_all; auto. Qed.

Definition timer_pw (pw : pwriter) (k : nat) : pwriter :=
  let pw1 := match pw_curr pw with
             | Some b => if Nat.eqb (b_k b) k then set_curr (put pw b) None else pw
             | None => pw
             end in
  set_await pw1 (filter (fun x => negb (Nat.eqb x k)) (pw_await pw1)).

Lemma timer_pw_sim : forall pw k, pw_wf pw ->
  pw_sim pw (timer_pw pw k) /\ pw_fin (timer_pw pw k) = pw_fin pw /\ pw_snd (timer_pw pw k) = pw_snd pw.
Proof.
  intros pw k (W1 & W2 & W3). unfold timer_pw, pw_sim.
  destruct (pw_curr pw) as [b|] eqn:Ec; [destruct (b_k b =? k)|].
  - destruct (pw_open pw) eqn:Eo; [|specialize (W1 eq_refl); congruence].
    unfold put. rewrite Eo. unfold pw_all. simpl. rewrite Ec. simpl.
    rewrite app_nil_r. auto 10.
  - unfold pw_all. simpl. repeat split; auto; intros Hf; rewrite Ec; auto.
  - unfold pw_all. simpl. repeat split; auto; intros Hf; rewrite Ec; auto.
Qed.

Lemma close_pw_sim : forall pw, pw_wf pw ->
  pw_sim pw (close_pw pw) /\ pw_fin (close_pw pw) = pw_fin pw /\ pw_snd (close_pw pw) = pw_snd pw.
Proof.
  intros pw (W1 & W2 & W3). unfold close_pw, pw_sim.
  destruct (pw_open pw) eqn:Eo; [|auto 10].
  destruct (pw_curr pw) as [b|] eqn:Ec; simpl.
  - unfold put. rewrite Eo. unfold pw_all. simpl. rewrite Ec. simpl. rewrite app_nil_r. auto 10.
  - unfold pw_all. simpl. rewrite Ec. auto 10.
Qed.

(* ------------------------------------------------------------------ layer 1 *)
Definition ackedb (J : list attempt) (tp : tpart) (ms : list msg) : Prop :=
  exists a, In a J /\ a_applied a = true /\ a_seen a = None /\ a_msgs a = ms /\ a_tp a = tp.

Definition Dp (J : list attempt) (pw : pwriter) : Prop :=
  (forall b, In (b, None) (pw_fin pw) -> ackedb J (pw_tp pw) (b_msgs b)) /\
  (forall b n, pw_snd pw = Some (mkSnd b n (PFinish None)) -> ackedb J (pw_tp pw) (b_msgs b)).

Lemma ackedb_mono : forall J J' tp ms, incl J J' -> ackedb J tp ms -> ackedb J' tp ms.
Proof. intros J J' tp ms I (a & H & R). exists a. split; auto. Qed.

Lemma Dp_mono : forall J J' pw, incl J J' -> Dp J pw -> Dp J' pw.
Proof. intros J J' pw I [D1 D2]. split; intros; eapply ackedb_mono; eauto. Qed.

Lemma Dp_sim : forall J pw pw', pw_tp pw' = pw_tp pw -> pw_fin pw' = pw_fin pw -> pw_snd pw' = pw_snd pw ->
  Dp J pw -> Dp J pw'.
Proof. intros J pw pw' T F S [D1 D2]. unfold Dp. rewrite T, F, S. auto. Qed.

Definition call_ok (pws : list pwriter) (cl : call) : Prop :=
  refs_ok pws (c_msgs cl) (c_refs cl) /\
  match c_ph cl with
  | CEntered => c_refs cl = []
  | CWaiting => length (c_refs cl) = length (c_msgs cl)
  | CReturned RNil =>
    length (c_refs cl) = length (c_msgs cl) /\
    (async cfg = false -> exists es, all_results pws (c_refs cl) = Some es /\ forallb is_none es = true)
  | CReturned (RWriteErrors we) =>
    length (c_refs cl) = length (c_msgs cl) /\
    all_results pws (c_refs cl) = Some we /\ forallb is_none we = false
  | CReturned (RErr _) => True
  end.

Lemma call_ok_le : forall pws pws' cl, pws_le pws pws' -> call_ok pws cl -> call_ok pws' cl.
Proof.
  intros pws pws' cl L [R Ph]. split.
  - intros i r Hi. eapply ref_ok_le; eauto.
  - destruct (c_ph cl) as [| |[| |we]]; auto.
    + destruct Ph as [Hl He]. split; auto. intros Ha. destruct (He Ha) as (es & E1 & E2).
      exists es. split; auto. eapply all_results_le; eauto.
    + destruct Ph as (Hl & E1 & E2). repeat split; auto. eapply all_results_le; eauto.
Qed.

Definition logC (J : list attempt) (L : list (tpart * msg)) : Prop :=
  forall a m, In a J -> a_applied a = true -> In m (a_msgs a) -> In (a_tp a, m) L.

Definition Inv1 (pws : list pwriter) (calls : list call) (J : list attempt) (L : list (tpart * msg)) : Prop :=
  allpw (fun _ pw => pw_wf pw /\ Dp J pw) pws /\
  allpw (fun _ cl => call_ok pws cl) calls /\
  logC J L.

Definition inv1 (s : state) : Prop := Inv1 (s_pws s) (s_calls s) (s_journal s) (s_log s).

Lemma Inv1_pws : forall pws calls J L pws',
  Inv1 pws calls J L -> pws_le pws pws' -> allpw (fun _ pw => pw_wf pw /\ Dp J pw) pws' ->
  Inv1 pws' calls J L.
Proof.
  intros pws calls J L pws' (A & B & C) Le A'. split; auto. split; auto.
  intros c cl Hc. eapply call_ok_le; eauto.
Qed.

(* a partition writer replaced by one with the same batches, tp, fin, snd *)
Lemma Inv1_upd_sim : forall pws calls J L p pw pw',
  Inv1 pws calls J L -> nth_error pws p = Some pw ->
  pw_sim pw pw' -> pw_fin pw' = pw_fin pw -> pw_snd pw' = pw_snd pw ->
  Inv1 (upd pws p pw') calls J L.
Proof.
  intros pws calls J L p pw pw' I Hn S F Sn. pose proof I as (A & B & C).
  destruct (A _ _ Hn) as [W D].
  eapply Inv1_pws; eauto.
  - eapply pws_le_upd; eauto. apply pw_sim_le; auto. exists []. rewrite app_nil_r; auto.
  - apply allpw_upd; auto. split; [eapply pw_sim_wf; eauto|]. destruct S as (T & _). eapply Dp_sim; eauto.
Qed.

(* the sending state changes, the batches stay *)
Lemma Inv1_upd_snd : forall pws calls J L p pw sd,
  Inv1 pws calls J L -> nth_error pws p = Some pw ->
  (forall b n, sd = Some (mkSnd b n (PFinish None)) -> ackedb J (pw_tp pw) (b_msgs b)) ->
  pw_all (set_snd pw sd) = pw_all pw ->
  Inv1 (upd pws p (set_snd pw sd)) calls J L.
Proof.
  intros pws calls J L p pw sd I Hn Hs Ha. pose proof I as (A & B & C).
  destruct (A _ _ Hn) as [W D].
  assert (S : pw_sim pw (set_snd pw sd)).
  { split; auto. split; auto. split; auto. simpl. apply W. }
  eapply Inv1_pws; eauto.
  - eapply pws_le_upd; eauto. apply pw_sim_le; auto. exists []. rewrite app_nil_r; auto.
  - apply allpw_upd; auto. split; [eapply pw_sim_wf; eauto|].
    destruct D as [D1 D2]. split; simpl; auto.
Qed.

Lemma Inv1_calls : forall pws calls J L calls',
  Inv1 pws calls J L -> allpw (fun _ cl => call_ok pws cl) calls' -> Inv1 pws calls' J L.
Proof. intros pws calls J L calls' (A & B & C) B'. split; auto. Qed.

Lemma Inv1_journal : forall pws calls J L a,
  Inv1 pws calls J L ->
  Inv1 pws calls (J ++ [a]) (L ++ (if a_applied a then map (pair (a_tp a)) (a_msgs a) else [])).
Proof.
  intros pws calls J L a (A & B & C). split; [|split; auto].
  - intros p pw Hp. destruct (A _ _ Hp) as [W D]. split; auto. eapply Dp_mono; eauto.
    apply incl_appl, incl_refl.
  - intros a' m Ha Hap Hm. apply in_app_iff in Ha. apply in_app_iff. destruct Ha as [Ha|[<-|[]]].
    + left. eapply C; eauto.
    + right. rewrite Hap. apply in_map. auto.
Qed.


Lemma Inv1_upd_gen : forall pws calls J L p pw pw',
  Inv1 pws calls J L -> nth_error pws p = Some pw ->
  pw_sim pw pw' -> (exists x, pw_fin pw' = pw_fin pw ++ x) -> Dp J pw' ->
  Inv1 (upd pws p pw') calls J L.
Proof.
  intros pws calls J L p pw pw' I Hn S F D'. pose proof I as (A & B & C).
  destruct (A _ _ Hn) as [W D].
  eapply Inv1_pws; eauto.
  - eapply pws_le_upd; eauto. apply pw_sim_le; auto.
  - apply allpw_upd; auto. split; [eapply pw_sim_wf; eauto|auto].
Qed.

Lemma P1_new : forall J tp, pw_wf (new_pw tp) /\ Dp J (new_pw tp).
Proof.
  intros. split; [split; [simpl; auto|split; [constructor|simpl; contradiction]]|].
  split; simpl; [contradiction|discriminate].
Qed.

Lemma P1_add : forall J pw m pw' k sp,
  pw_wf pw /\ Dp J pw -> pw_open pw = true -> pw_add cfg pw m = (pw',k,sp) -> pw_wf pw' /\ Dp J pw'.
Proof.
  intros J pw m pw' k sp [W D] Ho H. split; [eapply pw_add_wf; eauto|].
  destruct (pw_add_spec _ _ _ _ _ H Ho) as (Etp & Eo & Ef & Es & _). eapply Dp_sim; eauto.
Qed.

Lemma Inv1_assign : forall pws calls J L c cl wg pws' wg' refs,
  Inv1 pws calls J L -> nth_error calls c = Some cl ->
  assign_all cfg pws wg (c_msgs cl) = (pws', wg', refs) ->
  Inv1 pws' (upd calls c (mkCall (c_g cl) (c_msgs cl) refs CWaiting)) J L.
Proof.
  intros pws calls J L c cl wg pws' wg' refs I Hc E. unfold assign_all in E.
  destruct (fold_assign_refs _ _ _ _ _ _ _ [] E eq_refl) as (Lr & Rr & Le).
  { intros i r Hi. destruct i; discriminate. }
  simpl in Lr, Rr.
  assert (A' : allpw (fun _ pw => pw_wf pw /\ Dp J pw) pws').
  { eapply (fold_assign_allpw (fun _ pw => pw_wf pw /\ Dp J pw) 0); [| |exact E|lia|apply I].
    - intros; apply P1_new.
    - intros; eapply P1_add; eauto. }
  pose proof (Inv1_pws _ _ _ _ _ I Le A') as I'.
  eapply Inv1_calls; [exact I'|]. apply allpw_upd; [apply I'|]. split; simpl; auto.
Qed.

Lemma r_seen_none : forall r, r_seen r = None -> r_applied r = true.
Proof. destruct r; simpl; auto; discriminate. Qed.

Lemma after_attempt_none : forall n o, after_attempt cfg n o = PFinish None -> o = None.
Proof.
  intros n [e|]; simpl; auto. destruct (retriable cfg e); [destruct (S n <? maxAttempts cfg)|]; discriminate.
Qed.

Ltac step_destruct H :=
  repeat match type of H with
  | match ?x with _ => _ end = Some _ => (is_var x; destruct x) || destruct x eqn:?
  end; try discriminate H.

Lemma inv1_step : forall s l s', inv1 s -> step cfg s l = Some s' -> inv1 s'.
Proof.
  intros s l s' I H. unfold inv1 in *.
  destruct l; unfold step in H; step_destruct H; inv H;
    unfold with_pw_done, with_pw, ret_call, add_call; cbn [s_pws s_calls s_journal s_log].
  - (* Call: closed *)
    eapply Inv1_calls; [exact I|]. apply allpw_snoc; [apply I|].
    split; [intros i r Hi; destruct i; discriminate|simpl; auto].
  - eapply Inv1_calls; [exact I|]. apply allpw_snoc; [apply I|].
    split; [intros i r Hi; destruct i; discriminate|simpl; auto].
    split; auto. intros _. exists []. auto.
  - eapply Inv1_calls; [exact I|]. apply allpw_snoc; [apply I|].
    split; [intros i r Hi; destruct i; discriminate|simpl; auto].
  - eapply Inv1_calls; [exact I|]. apply allpw_snoc; [apply I|].
    split; [intros i r Hi; destruct i; discriminate|simpl; auto].
  - (* Assign after Close: the call is rejected *)
    match goal with E : nth_error (s_calls s) ?c = Some ?cl |- _ =>
      pose proof (proj1 (proj2 I) _ _ E) as [R Ph];
      eapply Inv1_calls; [exact I|]; apply allpw_upd; [apply I|]; split; simpl; auto end.
  - (* Assign *) eapply Inv1_assign; eauto.
  - (* Timer *)
    match goal with E : nth_error (s_pws s) ?p = Some ?pw |- _ =>
      destruct (timer_pw_sim pw k) as (S & F & Sn); [apply (proj1 I _ _ E)|];
      eapply (Inv1_upd_sim _ _ _ _ p pw (timer_pw pw k)); eauto end.
  - (* Get *)
    match goal with E : nth_error (s_pws s) ?p = Some ?pw, Es : pw_snd ?pw = None, Eq : pw_queue ?pw = _ |- _ =>
      destruct (proj1 I _ _ E) as [W D]; eapply Inv1_upd_gen; eauto;
      [split; [reflexivity|split; [unfold pw_all; simpl; rewrite Es, Eq; reflexivity|split; [reflexivity|apply W]]]
      |exists []; rewrite app_nil_r; reflexivity
      |split; simpl; [apply D|]] end.
    destruct Hok as [_ Hm]. replace (0 <? maxAttempts cfg) with true by (symmetry; apply Nat.ltb_lt; lia).
    intros; discriminate.
  - (* SenderExit *)
    match goal with E : nth_error (s_pws s) ?p = Some ?pw, Es : pw_snd ?pw = None, Eq : pw_queue ?pw = [],
                    Eo : pw_open ?pw = false |- _ =>
      destruct (proj1 I _ _ E) as [W D]; eapply Inv1_upd_sim; [exact I|exact E| | |];
      [split; [reflexivity|split; [unfold pw_all; simpl; rewrite Es, Eq; reflexivity
                                  |split; [reflexivity|intros _; apply W; exact Eo]]]
      |reflexivity|simpl; auto] end.
  - (* Attempt *)
    match goal with E : nth_error (s_pws s) ?p = Some ?pw, Es : pw_snd ?pw = Some (mkSnd ?b ?n _) |- _ =>
      pose proof (Inv1_journal _ _ _ _ (mkAtt p (b_k b) (pw_tp pw) (b_msgs b) (r_applied r) (r_seen r)) I) as I';
      cbn [a_applied a_tp a_msgs] in I';
      destruct (proj1 I' _ _ E) as [W D]; eapply Inv1_upd_gen; eauto;
      [split; [reflexivity|split; [unfold pw_all; simpl; rewrite Es; reflexivity|split; [reflexivity|apply W]]]
      |exists []; rewrite app_nil_r; reflexivity
      |split; simpl; [apply D|]] end.
    intros b0 n0 E0. inv E0.
    match goal with E0 : after_attempt _ _ _ = _ |- _ => apply after_attempt_none in E0; rename E0 into Hs end.
    eexists. split; [apply in_app_iff; right; left; reflexivity|]. simpl.
    repeat split; auto. apply r_seen_none; auto.
  - (* BackoffDone *)
    match goal with E : nth_error (s_pws s) ?p = Some ?pw, Es : pw_snd ?pw = Some _ |- _ =>
      destruct (proj1 I _ _ E) as [W D]; eapply Inv1_upd_gen; eauto;
      [split; [reflexivity|split; [unfold pw_all; simpl; rewrite Es; reflexivity|split; [reflexivity|apply W]]]
      |exists []; rewrite app_nil_r; reflexivity
      |split; simpl; [apply D|intros; discriminate]] end.
  - (* Finish *)
    match goal with E : nth_error (s_pws s) ?p = Some ?pw, Es : pw_snd ?pw = Some _ |- _ =>
      destruct (proj1 I _ _ E) as [W D]; eapply Inv1_upd_gen; eauto;
      [split; [reflexivity|split; [unfold pw_all; simpl; rewrite Es, map_app; simpl; rewrite <- app_assoc; reflexivity
                                  |split; [reflexivity|apply W]]]
      |eexists; reflexivity
      |split; simpl; [|intros; discriminate]] end.
    intros b0 Hb. apply in_app_iff in Hb. destruct Hb as [Hb|[Hb|[]]]; [apply D; auto|].
    inv Hb. eapply (proj2 D); eauto.
  - (* Return, async *)
    match goal with E : nth_error (s_calls s) ?c = Some ?cl, Ep : c_ph ?cl = CWaiting |- _ =>
      pose proof (proj1 (proj2 I) _ _ E) as [R Ph]; rewrite Ep in Ph;
      eapply Inv1_calls; [exact I|]; apply allpw_upd; [apply I|]; split; simpl; auto end.
    split; auto. intros; congruence.
  - (* Return, sync *)
    match goal with E : nth_error (s_calls s) ?c = Some ?cl, Ep : c_ph ?cl = CWaiting |- _ =>
      pose proof (proj1 (proj2 I) _ _ E) as [R Ph]; rewrite Ep in Ph;
      eapply Inv1_calls; [exact I|]; apply allpw_upd; [apply I|]; split; simpl; auto end.
    match goal with |- context[forallb is_none ?es] => destruct (forallb is_none es) eqn:Ef end; eauto.
  - (* CtxDone *)
    match goal with E : nth_error (s_calls s) ?c = Some ?cl, Ep : c_ph ?cl = CWaiting |- _ =>
      pose proof (proj1 (proj2 I) _ _ E) as [R Ph]; rewrite Ep in Ph;
      eapply Inv1_calls; [exact I|]; apply allpw_upd; [apply I|]; split; simpl; auto end.
  - (* CloseMark *)
    eapply Inv1_pws; [exact I| |].
    + intros p pw Hp. exists (close_pw pw). split; [apply map_nth_error; auto|].
      destruct (close_pw_sim pw) as (S & F & Sn); [apply (proj1 I _ _ Hp)|].
      apply pw_sim_le; auto. exists []. rewrite app_nil_r; auto.
    + intros p pw' Hp. apply nth_error_map_inv in Hp. destruct Hp as (pw & Hp & ->).
      destruct (proj1 I _ _ Hp) as [W D].
      destruct (close_pw_sim pw W) as (S & F & Sn).
      split; [eapply pw_sim_wf; eauto|]. destruct S as (T & _). eapply Dp_sim; eauto.
  - (* CloseWaitDone *) exact I.
Qed.

Lemma inv1_init : inv1 init.
Proof.
  split; [|split]; intros x y H; simpl in H; try contradiction; exfalso; eapply nth_error_nil; exact H.
Qed.

Lemma inv1_runs : forall ls s, runs cfg ls s -> inv1 s.
Proof. apply runs_inv; [apply inv1_init|apply inv1_step]. Qed.


(* ------------------------------------------------------------------ layer 2 *)
Lemma NoDup_app_disj : forall A (l1 l2 : list A) x, NoDup (l1 ++ l2) -> In x l1 -> In x l2 -> False.
Proof.
  induction l1; simpl; intros l2 x N H1 H2; [contradiction|]. inv N. destruct H1 as [->|H1].
  - apply H3. apply in_app_iff; auto.
  - eapply IHl1; eauto.
Qed.

Lemma NoDup_app_inv : forall A (l1 l2 : list A), NoDup (l1 ++ l2) -> NoDup l1 /\ NoDup l2.
Proof.
  induction l1; simpl; intros l2 N; [split; [constructor|auto]|]. inv N.
  destruct (IHl1 _ H2). split; auto. constructor; auto. rewrite in_app_iff in H1. auto.
Qed.

Lemma NoDup_app_intro : forall A (l1 l2 : list A), NoDup l1 -> NoDup l2 ->
  (forall x, In x l2 -> ~ In x l1) -> NoDup (l1 ++ l2).
Proof.
  induction l1; simpl; intros l2 N1 N2 H; auto. inv N1. constructor.
  - rewrite in_app_iff. intros [Hi|Hi]; auto. apply (H _ Hi). simpl; auto.
  - apply IHl1; auto. intros x Hx Hx1. apply (H _ Hx). simpl; auto.
Qed.

Lemma nodup_map_app_neq : forall A (f : A -> nat) l1 l2 x y,
  NoDup (map f (l1 ++ l2)) -> In x l1 -> In y l2 -> f x <> f y.
Proof.
  intros A f l1 l2 x y N Hx Hy E. rewrite map_app in N.
  eapply NoDup_app_disj; [exact N|apply in_map; exact Hx|rewrite E; apply in_map; exact Hy].
Qed.

Definition fs (pw : pwriter) : list batch :=
  map fst (pw_fin pw) ++ opt_list (option_map sd_batch (pw_snd pw)).

Lemma fs_all : forall pw b, In b (fs pw) -> In b (pw_all pw).
Proof. unfold fs, pw_all; intros pw b H. rewrite app_assoc. apply in_app_iff; auto. Qed.

Definition noack (J : list attempt) (p k : nat) : Prop :=
  forall a, In a J -> a_pw a = p -> a_k a = k -> a_seen a <> None.

Definition outcome (J : list attempt) (p k : nat) (o : option err) : Prop :=
  (exists j1 a j2, J = j1 ++ a :: j2 /\ a_pw a = p /\ a_k a = k /\ a_seen a = o /\
     forall a', In a' j2 -> ~ (a_pw a' = p /\ a_k a' = k)) /\
  (forall e, o = Some e -> noack J p k).

Lemma noack_snoc : forall J p k a, noack J p k ->
  (a_pw a = p -> a_k a = k -> a_seen a <> None) -> noack (J ++ [a]) p k.
Proof.
  intros J p k a N H a' Ha. apply in_app_iff in Ha. destruct Ha as [Ha|[<-|[]]]; auto.
Qed.

Lemma outcome_snoc : forall J p k o a, outcome J p k o -> ~ (a_pw a = p /\ a_k a = k) ->
  outcome (J ++ [a]) p k o.
Proof.
  intros J p k o a [(j1 & a0 & j2 & -> & H1 & H2 & H3 & H4) N] Hn. split.
  - exists j1, a0, (j2 ++ [a]). rewrite <- app_assoc. simpl. repeat split; auto.
    intros a' Ha. apply in_app_iff in Ha. destruct Ha as [Ha|[<-|[]]]; auto.
  - intros e He. apply noack_snoc; [eapply N; eauto|intros; exfalso; auto].
Qed.

Definition Op (J : list attempt) (p : nat) (pw : pwriter) : Prop :=
  (forall b o, In (b,o) (pw_fin pw) -> outcome J p (b_k b) o) /\
  (forall b n ph, pw_snd pw = Some (mkSnd b n ph) ->
     match ph with PFinish o => outcome J p (b_k b) o | _ => noack J p (b_k b) end) /\
  (forall a, In a J -> a_pw a = p ->
     exists b, In b (fs pw) /\ b_k b = a_k a /\ a_msgs a = b_msgs b /\ a_tp a = pw_tp pw).

Lemma Op_sim : forall J p pw pw', pw_tp pw' = pw_tp pw -> pw_fin pw' = pw_fin pw -> pw_snd pw' = pw_snd pw ->
  Op J p pw -> Op J p pw'.
Proof. intros J p pw pw' T F S (O1 & O2 & O3). unfold Op, fs. rewrite T, F, S. auto. Qed.

Definition owned (calls : list call) (p k : nat) (m : msg) : Prop :=
  exists c cl i, nth_error calls c = Some cl /\ nth_error (c_msgs cl) i = Some m /\
                 nth_error (c_refs cl) i = Some (p,k).

Definition OwnF (calls : list call) (done : list msg) (refs : list (nat*nat)) (p : nat) (pw : pwriter) : Prop :=
  forall b m, In b (pw_all pw) -> In m (b_msgs b) ->
    owned calls p (b_k b) m \/ (exists i, nth_error done i = Some m /\ nth_error refs i = Some (p, b_k b)).

Definition Own (calls : list call) (p : nat) (pw : pwriter) : Prop :=
  forall b m, In b (pw_all pw) -> In m (b_msgs b) -> owned calls p (b_k b) m.

Definition Jdom (pws : list pwriter) (J : list attempt) : Prop := forall a, In a J -> a_pw a < length pws.

Definition Inv2 (pws : list pwriter) (calls : list call) (J : list attempt) : Prop :=
  allpw (Op J) pws /\ Jdom pws J /\ allpw (Own calls) pws /\ NoDup (used_ids calls).

Lemma ids_unique : forall cs c1 c2 cl1 cl2 i1 i2 m1 m2, NoDup (used_ids cs) ->
  nth_error cs c1 = Some cl1 -> nth_error cs c2 = Some cl2 ->
  nth_error (c_msgs cl1) i1 = Some m1 -> nth_error (c_msgs cl2) i2 = Some m2 ->
  m_id m1 = m_id m2 -> c1 = c2 /\ i1 = i2.
Proof.
  unfold used_ids. induction cs as [|a cs IH]; intros c1 c2 cl1 cl2 i1 i2 m1 m2 N H1 H2 M1 M2 E.
  - exfalso; eapply nth_error_nil; eauto.
  - simpl in N.
    assert (Hin : forall c cl i m, nth_error cs c = Some cl -> nth_error (c_msgs cl) i = Some m ->
              In (m_id m) (flat_map (fun c => map m_id (c_msgs c)) cs)).
    { intros c cl i m Hc Hm. apply in_flat_map. exists cl. split; [eapply nth_error_In; eauto|].
      apply in_map. eapply nth_error_In; eauto. }
    destruct c1 as [|c1], c2 as [|c2]; simpl in H1, H2.
    + inv H1. inv H2. split; auto. apply NoDup_app_inv in N. destruct N as [N _].
      rewrite NoDup_nth_error in N. apply N.
      * rewrite map_length. apply nth_error_Some. congruence.
      * rewrite (map_nth_error _ _ _ M1), (map_nth_error _ _ _ M2). congruence.
    + inv H1. exfalso. eapply NoDup_app_disj; [exact N| |eapply Hin; eauto].
      rewrite <- E. apply in_map. eapply nth_error_In; eauto.
    + inv H2. exfalso. eapply NoDup_app_disj; [exact N| |eapply Hin; eauto].
      rewrite E. apply in_map. eapply nth_error_In; eauto.
    + apply NoDup_app_inv in N. destruct N as [_ N]. destruct (IH _ _ _ _ _ _ _ _ N H1 H2 M1 M2 E). split; auto.
Qed.

(* a message (id) is in one batch only *)
Lemma one_batch : forall pws calls p1 pw1 b1 m1 p2 pw2 b2 m2,
  allpw (Own calls) pws -> NoDup (used_ids calls) ->
  nth_error pws p1 = Some pw1 -> In b1 (pw_all pw1) -> In m1 (b_msgs b1) ->
  nth_error pws p2 = Some pw2 -> In b2 (pw_all pw2) -> In m2 (b_msgs b2) ->
  m_id m1 = m_id m2 -> p1 = p2 /\ b_k b1 = b_k b2.
Proof.
  intros pws calls p1 pw1 b1 m1 p2 pw2 b2 m2 O N P1 B1 M1 P2 B2 M2 E.
  destruct (O _ _ P1 _ _ B1 M1) as (c1 & cl1 & i1 & C1 & X1 & R1).
  destruct (O _ _ P2 _ _ B2 M2) as (c2 & cl2 & i2 & C2 & X2 & R2).
  destruct (ids_unique _ _ _ _ _ _ _ _ _ N C1 C2 X1 X2 E) as [-> ->].
  rewrite C1 in C2. inv C2. rewrite R1 in R2. inv R2. auto.
Qed.

Lemma assign_one_own : forall calls pws wg refs m pws' wg' refs' done,
  assign_one cfg (pws,wg,refs) m = (pws',wg',refs') -> length refs = length done ->
  allpw (OwnF calls done refs) pws -> allpw (OwnF calls (done ++ [m]) refs') pws'.
Proof.
  intros calls pws wg refs m pws' wg' refs' done H Hl A.
  destruct (assign_one_spec _ _ _ _ _ _ _ H) as (p & k & pw & pw' & sp & pws0 & -> & Hadd & Ho & Ht & H0 & Hnth & ->).
  assert (A0 : allpw (OwnF calls done refs) pws0).
  { destruct H0 as [->| ->]; auto. apply allpw_snoc; auto. intros b x Hb. simpl in Hb. contradiction. }
  assert (Wk : forall q pwq, OwnF calls done refs q pwq -> OwnF calls (done ++ [m]) (refs ++ [(p,k)]) q pwq).
  { intros q pwq O b x Hb Hx. destruct (O b x Hb Hx) as [?|(i & Hi1 & Hi2)]; auto. right. exists i.
    split; rewrite nth_error_app1; auto; apply nth_error_Some; congruence. }
  apply allpw_upd; [intros q pwq Hq; apply Wk; apply A0; auto|].
  pose proof (Wk _ _ (A0 _ _ Hnth)) as O.
  assert (New : exists i, nth_error (done ++ [m]) i = Some m /\ nth_error (refs ++ [(p,k)]) i = Some (p,k)).
  { exists (length done). rewrite nth_error_app2, Nat.sub_diag by lia. rewrite nth_error_app2 by lia.
    replace (length done - length refs) with 0 by lia. simpl. auto. }
  destruct (pw_add_spec _ _ _ _ _ Hadd Ho) as (_ & _ & _ & _ & [(l & b & E1 & E2 & Ek & En)|(E2 & Ek & En)]).
  - intros b' x Hb Hx. rewrite E2 in Hb. apply in_app_iff in Hb. destruct Hb as [Hb|[<-|[]]].
    + apply O; auto. rewrite E1. apply in_app_iff; auto.
    + simpl in Hx. apply in_app_iff in Hx. simpl. destruct Hx as [Hx|[<-|[]]].
      * apply (O b x); auto. rewrite E1. apply in_app_iff; simpl; auto.
      * right. subst k. exact New.
  - intros b' x Hb Hx. rewrite E2 in Hb. apply in_app_iff in Hb. destruct Hb as [Hb|[<-|[]]].
    + apply O; auto.
    + simpl in Hx. destruct Hx as [<-|[]]. simpl. right. subst k. exact New.
Qed.

Lemma fold_assign_own : forall calls ms pws wg refs pws' wg' refs' done,
  fold_left (assign_one cfg) ms (pws,wg,refs) = (pws',wg',refs') -> length refs = length done ->
  allpw (OwnF calls done refs) pws ->
  allpw (OwnF calls (done ++ ms) refs') pws' /\ length pws <= length pws'.
Proof.
  induction ms; intros pws wg refs pws' wg' refs' done H Hl A; cbn [fold_left] in H.
  - inv H. rewrite app_nil_r. auto.
  - destruct (assign_one cfg (pws,wg,refs) a) as [[pws1 wg1] refs1] eqn:E.
    pose proof (assign_one_own _ _ _ _ _ _ _ _ _ E Hl A) as A1.
    assert (L1 : length refs1 = length (done ++ [a]) /\ length pws <= length pws1).
    { destruct (assign_one_spec _ _ _ _ _ _ _ E) as (p & k & pw & pw' & sp & pws0 & -> & _ & _ & _ & H0 & _ & ->).
      rewrite !app_length, upd_length. simpl. destruct H0 as [->| ->]; rewrite ?app_length; simpl; lia. }
    destruct L1 as [L1 L1'].
    destruct (IHms _ _ _ _ _ _ _ H L1 A1) as [A2 L2]. rewrite <- app_assoc in A2. simpl in A2.
    split; auto. lia.
Qed.

Lemma fin_other_neq : forall pw b' o b,
  pw_wf pw -> In (b',o) (pw_fin pw) ->
  In b (opt_list (option_map sd_batch (pw_snd pw)) ++ pw_queue pw ++ opt_list (pw_curr pw)) ->
  b_k b' <> b_k b.
Proof.
  intros pw b' o b (W1 & W2 & W3) Hf Hb. unfold pw_all in W2.
  eapply nodup_map_app_neq; [exact W2| |exact Hb]. apply in_map_iff. exists (b', o); auto.
Qed.

Lemma Op_snoc_other : forall J p pw a, Op J p pw -> a_pw a <> p -> Op (J ++ [a]) p pw.
Proof.
  intros J p pw a (O1 & O2 & O3) Hne. split; [|split].
  - intros b o Hb. apply outcome_snoc; auto. intros [? _]; auto.
  - intros b n ph Hs. specialize (O2 _ _ _ Hs).
    destruct ph; try (apply noack_snoc; auto; intros; exfalso; auto).
    apply outcome_snoc; auto. intros [? _]; auto.
  - intros a' Ha Hp. apply in_app_iff in Ha. destruct Ha as [Ha|[<-|[]]]; auto. exfalso; auto.
Qed.

Lemma Op_attempt_self : forall J p pw b n r, pw_wf pw -> Op J p pw -> pw_snd pw = Some (mkSnd b n PAttempt) ->
  Op (J ++ [mkAtt p (b_k b) (pw_tp pw) (b_msgs b) (r_applied r) (r_seen r)]) p
     (set_snd pw (Some (mkSnd b (S n) (after_attempt cfg n (r_seen r))))).
Proof.
  intros J p pw b n r W (O1 & O2 & O3) Hs.
  pose proof (O2 _ _ _ Hs) as Nk. simpl in Nk.
  split; [|split]; simpl.
  - intros b' o Hb. apply outcome_snoc; auto. simpl. intros [_ Hk].
    eapply (fin_other_neq pw b' o b); eauto. rewrite Hs. simpl. auto.
  - intros b0 n0 ph E. inv E. destruct (r_seen r) as [e|] eqn:Er; simpl.
    + destruct (retriable cfg e); [destruct (S n <? maxAttempts cfg)|].
      * apply noack_snoc; auto. simpl. intros; discriminate.
      * split.
        -- eexists J, _, []. split; [reflexivity|]. simpl. repeat split; auto.
        -- intros e' _. apply noack_snoc; auto. simpl. intros; discriminate.
      * split.
        -- eexists J, _, []. split; [reflexivity|]. simpl. repeat split; auto.
        -- intros e' _. apply noack_snoc; auto. simpl. intros; discriminate.
    + split.
      * eexists J, _, []. split; [reflexivity|]. simpl. repeat split; auto.
      * intros; discriminate.
  - intros a' Ha Hp. apply in_app_iff in Ha. destruct Ha as [Ha|[<-|[]]].
    + destruct (O3 _ Ha Hp) as (b0 & Hb0 & R). exists b0. split; auto.
      unfold fs in *. simpl. rewrite Hs in Hb0. exact Hb0.
    + exists b. simpl. split; auto. unfold fs. simpl. apply in_app_iff. simpl. auto.
Qed.

Lemma Inv2_upd_gen : forall pws calls J p pw pw',
  Inv2 pws calls J -> nth_error pws p = Some pw -> pw_all pw' = pw_all pw -> Op J p pw' ->
  Inv2 (upd pws p pw') calls J.
Proof.
  intros pws calls J p pw pw' (O & D & W & N) Hn Ha Hop.
  split; [apply allpw_upd; auto|]. split; [intros a Hin; rewrite upd_length; auto|]. split; auto.
  apply allpw_upd; auto. intros b m Hb Hm. rewrite Ha in Hb. eapply W; eauto.
Qed.

Lemma Inv2_calls : forall pws calls J calls', Inv2 pws calls J ->
  (forall p k m, owned calls p k m -> owned calls' p k m) -> NoDup (used_ids calls') -> Inv2 pws calls' J.
Proof.
  intros pws calls J calls' (O & D & W & N) He Nd. split; auto. split; auto. split; auto.
  intros p pw Hp b m Hb Hm. apply He. eapply W; eauto.
Qed.

Lemma used_ids_upd : forall cs c cl cl', nth_error cs c = Some cl -> c_msgs cl' = c_msgs cl ->
  used_ids (upd cs c cl') = used_ids cs.
Proof.
  unfold used_ids; induction cs; destruct c; simpl; intros cl cl' H E; try discriminate.
  - inv H. rewrite E; auto.
  - f_equal; eauto.
Qed.

Lemma owned_upd : forall calls c cl cl' p k m, nth_error calls c = Some cl ->
  c_msgs cl' = c_msgs cl -> c_refs cl' = c_refs cl -> owned calls p k m -> owned (upd calls c cl') p k m.
Proof.
  intros calls c cl cl' p k m H E1 E2 (c0 & cl0 & i & H1 & H2 & H3). destruct (Nat.eq_dec c c0) as [<-|Ne].
  - exists c, cl', i. rewrite nth_error_upd_eq by (apply nth_error_Some; congruence).
    rewrite H in H1; inv H1. rewrite E1, E2. auto.
  - exists c0, cl0, i. rewrite nth_error_upd_neq by auto. auto.
Qed.

Lemma owned_snoc : forall calls x p k m, owned calls p k m -> owned (calls ++ [x]) p k m.
Proof.
  intros calls x p k m (c0 & cl0 & i & H1 & H2 & H3). exists c0, cl0, i.
  rewrite nth_error_app1 by (apply nth_error_Some; congruence). auto.
Qed.

Lemma nodupb_NoDup : forall l, nodupb l = true -> NoDup l.
Proof.
  induction l; simpl; intros H; [constructor|]. apply andb_true_iff in H. destruct H as [H1 H2].
  constructor; auto. intros Hin. apply negb_true_iff in H1.
  assert (existsb (N.eqb a) l = true) by (apply existsb_exists; exists a; split; auto; apply N.eqb_refl).
  congruence.
Qed.

Lemma admissible_nodup : forall s g msgs ph, call_admissible s g msgs = true ->
  NoDup (used_ids (s_calls s)) -> NoDup (used_ids (s_calls s ++ [mkCall g msgs [] ph])).
Proof.
  unfold call_admissible; intros s g msgs ph H N.
  apply andb_true_iff in H; destruct H as [H H3]; apply andb_true_iff in H; destruct H as [H1 H2].
  unfold used_ids. rewrite flat_map_app. simpl. rewrite app_nil_r.
  apply NoDup_app_intro; auto. { apply nodupb_NoDup; auto. }
  intros x Hx Hin. apply in_map_iff in Hx. destruct Hx as (m & <- & Hm).
  rewrite forallb_forall in H3. specialize (H3 _ Hm). apply negb_true_iff in H3.
  assert (existsb (N.eqb (m_id m)) (used_ids (s_calls s)) = true)
    by (apply existsb_exists; exists (m_id m); split; auto; apply N.eqb_refl).
  congruence.
Qed.

Lemma Inv2_assign : forall pws calls J L c cl wg pws' wg' refs,
  Inv1 pws calls J L -> Inv2 pws calls J -> nth_error calls c = Some cl -> c_ph cl = CEntered ->
  assign_all cfg pws wg (c_msgs cl) = (pws', wg', refs) ->
  Inv2 pws' (upd calls c (mkCall (c_g cl) (c_msgs cl) refs CWaiting)) J.
Proof.
  intros pws calls J L c cl wg pws' wg' refs I1 (O & D & W & N) Hc Hph E. unfold assign_all in E.
  assert (Hr0 : c_refs cl = []).
  { destruct (proj1 (proj2 I1) _ _ Hc) as [_ Ph]. rewrite Hph in Ph. exact Ph. }
  destruct (fold_assign_own calls _ _ _ _ _ _ _ [] E eq_refl) as [A' Ll].
  { intros p pw Hp b m Hb Hm. left. eapply W; eauto. }
  simpl in A'.
  split; [|split; [|split]].
  - eapply (fold_assign_allpw (Op J) (length pws)); [| |exact E|lia|exact O].
    + intros p tp Hp. split; [simpl; contradiction|]. split; [simpl; intros; discriminate|].
      intros a Ha Hpa. apply D in Ha. lia.
    + intros p pw m pw' k sp Hop Ho Hadd.
      destruct (pw_add_spec _ _ _ _ _ Hadd Ho) as (Etp & Eo & Ef & Es & _). eapply Op_sim; eauto.
  - intros a Ha. apply D in Ha. lia.
  - intros p pw Hp b m Hb Hm. destruct (A' _ _ Hp _ _ Hb Hm) as [(c0 & cl0 & i & H1 & H2 & H3)|(i & H1 & H2)].
    + destruct (Nat.eq_dec c c0) as [<-|Ne].
      * rewrite Hc in H1. inv H1. rewrite Hr0 in H3. exfalso; eapply nth_error_nil; eauto.
      * exists c0, cl0, i. rewrite nth_error_upd_neq by auto. auto.
    + exists c, (mkCall (c_g cl) (c_msgs cl) refs CWaiting), i.
      rewrite nth_error_upd_eq by (apply nth_error_Some; congruence). auto.
  - erewrite used_ids_upd; eauto.
Qed.

Definition inv2 (s : state) : Prop := inv1 s /\ Inv2 (s_pws s) (s_calls s) (s_journal s).

Lemma inv2_step : forall s l s', inv2 s -> step cfg s l = Some s' -> inv2 s'.
Proof.
  intros s l s' [I1 I2] H. split; [eapply inv1_step; eauto|].
  unfold inv1 in I1.
  destruct l; unfold step in H; step_destruct H; inv H;
    unfold with_pw_done, with_pw, ret_call, add_call; cbn [s_pws s_calls s_journal s_log].
  1-4: (eapply Inv2_calls; [exact I2|intros; apply owned_snoc; auto|eapply admissible_nodup; eauto; apply I2]).
  - (* Assign after Close *)
    eapply Inv2_calls; [exact I2|intros; eapply owned_upd; eauto|erewrite used_ids_upd; eauto; apply I2].
  - (* Assign *) eapply Inv2_assign; eauto.
  - (* Timer *)
    match goal with E : nth_error (s_pws s) ?p = Some ?pw |- _ =>
      destruct (timer_pw_sim pw k) as ((T & Al & _) & F & Sn); [apply (proj1 I1 _ _ E)|];
      eapply (Inv2_upd_gen _ _ _ p pw (timer_pw pw k)); eauto;
      apply (Op_sim _ _ pw); auto; apply (proj1 I2 _ _ E) end.
  - (* Get *)
    match goal with E : nth_error (s_pws s) ?p = Some ?pw, Es : pw_snd ?pw = None, Eq : pw_queue ?pw = _ |- _ =>
      destruct (proj1 I1 _ _ E) as [W D]; destruct (proj1 I2 _ _ E) as (O1 & O2 & O3);
      eapply Inv2_upd_gen; eauto;
      [unfold pw_all; simpl; rewrite Es, Eq; reflexivity|split; [exact O1|split]]; simpl end.
    + destruct Hok as [_ Hm]. replace (0 <? maxAttempts cfg) with true by (symmetry; apply Nat.ltb_lt; lia).
      intros b0 n0 ph E0. inv E0. intros a Ha Hp Hk Hseen.
      destruct (O3 _ Ha Hp) as (b1 & Hb1 & Hk1 & _). unfold fs in Hb1. rewrite Heqo0 in Hb1. simpl in Hb1.
      rewrite app_nil_r in Hb1. apply in_map_iff in Hb1. destruct Hb1 as ([b2 o2] & <- & Hf). simpl in *.
      eapply (fin_other_neq p0 b2 o2 b0); eauto; [|congruence].
      rewrite Heqo0, Heql. simpl. auto.
    + intros a Ha Hp. destruct (O3 _ Ha Hp) as (b1 & Hb1 & R). exists b1. split; auto.
      unfold fs in *. simpl. rewrite Heqo0 in Hb1. simpl in Hb1. rewrite app_nil_r in Hb1.
      apply in_app_iff; auto.
  - (* SenderExit *)
    match goal with E : nth_error (s_pws s) ?p = Some ?pw, Es : pw_snd ?pw = None, Eq : pw_queue ?pw = [] |- _ =>
      eapply Inv2_upd_gen; eauto;
      [unfold pw_all; simpl; rewrite Es, Eq; reflexivity
      |apply (Op_sim _ _ pw); simpl; auto; apply (proj1 I2 _ _ E)] end.
  - (* Attempt *)
    match goal with E : nth_error (s_pws s) ?p = Some ?pw, Es : pw_snd ?pw = Some _ |- _ =>
      destruct (proj1 I1 _ _ E) as [W D]; destruct I2 as (O & Dm & Ow & N);
      split; [|split; [|split; auto]] end.
    + intros q pwq Hq. apply nth_error_upd in Hq. destruct Hq as [(<- & -> & _)|(Hne & Hq)].
      * apply Op_attempt_self; auto.
      * apply Op_snoc_other; auto.
    + intros a Ha. rewrite upd_length. apply in_app_iff in Ha. destruct Ha as [Ha|[<-|[]]]; auto.
      simpl. apply nth_error_Some. congruence.
    + apply allpw_upd; auto. intros b1 m Hb Hm. eapply (Ow _ _ Heqo); eauto.
      unfold pw_all in *. simpl in Hb. rewrite Heqo0. exact Hb.
  - (* BackoffDone *)
    match goal with E : nth_error (s_pws s) ?p = Some ?pw, Es : pw_snd ?pw = Some _ |- _ =>
      destruct (proj1 I2 _ _ E) as (O1 & O2 & O3);
      eapply Inv2_upd_gen; eauto;
      [unfold pw_all; simpl; rewrite Es; reflexivity|split; [exact O1|split]]; simpl end.
    + intros b0 n0 ph E0. inv E0. apply (O2 _ _ _ Heqo0).
    + intros a Ha Hp. destruct (O3 _ Ha Hp) as (b1 & Hb1 & R). exists b1. split; auto.
      unfold fs in *. simpl. rewrite Heqo0 in Hb1. exact Hb1.
  - (* Finish *)
    match goal with E : nth_error (s_pws s) ?p = Some ?pw, Es : pw_snd ?pw = Some _ |- _ =>
      destruct (proj1 I2 _ _ E) as (O1 & O2 & O3);
      eapply Inv2_upd_gen; eauto;
      [unfold pw_all; simpl; rewrite Es, map_app; simpl; rewrite <- app_assoc; reflexivity|split; [|split]]; simpl end.
    + intros b0 o Hb. apply in_app_iff in Hb. destruct Hb as [Hb|[Hb|[]]]; auto.
      inv Hb. apply (O2 _ _ _ Heqo0).
    + intros; discriminate.
    + intros a Ha Hp. destruct (O3 _ Ha Hp) as (b1 & Hb1 & R). exists b1. split; auto.
      unfold fs in *. simpl. rewrite Heqo0 in Hb1. simpl in Hb1. rewrite map_app, app_nil_r. exact Hb1.
  - (* Return async *)
    eapply Inv2_calls; [exact I2|intros; eapply owned_upd; eauto|erewrite used_ids_upd; eauto; apply I2].
  - eapply Inv2_calls; [exact I2|intros; eapply owned_upd; eauto|erewrite used_ids_upd; eauto; apply I2].
  - eapply Inv2_calls; [exact I2|intros; eapply owned_upd; eauto|erewrite used_ids_upd; eauto; apply I2].
  - (* CloseMark *)
    destruct I2 as (O & Dm & Ow & N). split; [|split; [|split; auto]].
    + intros p pw' Hp. apply nth_error_map_inv in Hp. destruct Hp as (pw & Hp & ->).
      destruct (close_pw_sim pw (proj1 (proj1 I1 _ _ Hp))) as ((T & _) & F & Sn).
      apply (Op_sim _ _ pw); auto.
    + intros a Ha. rewrite map_length. auto.
    + intros p pw' Hp. apply nth_error_map_inv in Hp. destruct Hp as (pw & Hp & ->).
      destruct (close_pw_sim pw (proj1 (proj1 I1 _ _ Hp))) as ((T & Al & _) & F & Sn).
      intros b m Hb Hm. rewrite Al in Hb. eapply Ow; eauto.
  - exact I2.
Qed.

Lemma inv2_runs : forall ls s, runs cfg ls s -> inv2 s.
Proof.
  apply runs_inv; [|apply inv2_step]. split; [apply inv1_init|].
  split; [|split; [|split]]; try (intros x y H; simpl in H; exfalso; eapply nth_error_nil; exact H).
  - intros a H. simpl in H. contradiction.
  - simpl. constructor.
Qed.

(* ------------------------------------------------------------------ layer 3: Completion *)
Definition Cp (compl : list (list msg * option err)) (pw : pwriter) : Prop :=
  forall b o, In (b,o) (pw_fin pw) -> In (b_msgs b, o) compl.
Definition Nbp (pw : pwriter) : Prop :=
  forall b, In b (pw_all pw) -> NoDup (map m_id (b_msgs b)).
Definition Kb (pws : list pwriter) (compl : list (list msg * option err)) : Prop :=
  forall ms o, In (ms,o) compl ->
    exists p pw b, nth_error pws p = Some pw /\ In (b,o) (pw_fin pw) /\ ms = b_msgs b.
Definition Rj (cl : call) : Prop := rejected cl = true -> c_refs cl = [].
Definition compl_ids (compl : list (list msg * option err)) : list N :=
  flat_map (fun ce => map m_id (fst ce)) compl.

Definition Inv3 (pws : list pwriter) (calls : list call) (compl : list (list msg * option err)) : Prop :=
  allpw (fun _ pw => Cp compl pw /\ Nbp pw) pws /\ Kb pws compl /\
  allpw (fun _ cl => Rj cl) calls /\ NoDup (compl_ids compl).

Lemma Kb_le : forall pws pws' compl, pws_le pws pws' -> Kb pws compl -> Kb pws' compl.
Proof.
  intros pws pws' compl L K ms o H. destruct (K _ _ H) as (p & pw & b & Hp & Hf & E).
  destruct (L _ _ Hp) as (pw' & Hp' & (_ & (x & Fx) & _)). exists p, pw', b. split; auto. split; auto.
  rewrite Fx. apply in_app_iff; auto.
Qed.

Lemma Inv3_upd_gen : forall pws calls compl p pw pw',
  Inv3 pws calls compl -> nth_error pws p = Some pw -> pw_tp pw' = pw_tp pw ->
  pw_all pw' = pw_all pw -> pw_fin pw' = pw_fin pw -> Inv3 (upd pws p pw') calls compl.
Proof.
  intros pws calls compl p pw pw' (A & K & R & N) Hp T Al F. destruct (A _ _ Hp) as [C Nb].
  split; [|split; [|split; auto]].
  - apply allpw_upd; auto. split; [unfold Cp; rewrite F; auto|unfold Nbp; rewrite Al; auto].
  - eapply Kb_le; eauto. eapply pws_le_upd; eauto. apply pw_le_all; auto.
    exists []. rewrite app_nil_r; auto.
Qed.

Lemma Inv3_calls : forall pws calls compl calls',
  Inv3 pws calls compl -> allpw (fun _ cl => Rj cl) calls' -> Inv3 pws calls' compl.
Proof. intros pws calls compl calls' (A & K & R & N) R'. split; [|split; [|split]]; auto. Qed.

Lemma assign_one_nb : forall pws wg refs m pws' wg' refs',
  assign_one cfg (pws,wg,refs) m = (pws',wg',refs') ->
  (forall q pwq b x, nth_error pws q = Some pwq -> In b (pw_all pwq) -> In x (b_msgs b) -> m_id x <> m_id m) ->
  allpw (fun _ pw => Nbp pw) pws -> allpw (fun _ pw => Nbp pw) pws'.
Proof.
  intros pws wg refs m pws' wg' refs' H Fr A.
  destruct (assign_one_spec _ _ _ _ _ _ _ H) as (p & k & pw & pw' & sp & pws0 & -> & Hadd & Ho & Ht & H0 & Hnth & ->).
  assert (A0 : allpw (fun _ pw => Nbp pw) pws0).
  { destruct H0 as [->| ->]; auto. apply allpw_snoc; auto. intros b Hb. simpl in Hb. contradiction. }
  assert (Fr0 : forall b x, In b (pw_all pw) -> In x (b_msgs b) -> m_id x <> m_id m).
  { destruct H0 as [->| ->]; [intros; eapply Fr; eauto|].
    destruct (Nat.lt_ge_cases p (length pws)).
    - rewrite nth_error_app1 in Hnth by auto. intros; eapply Fr; eauto.
    - rewrite nth_error_app2 in Hnth by auto. destruct (p - length pws); simpl in Hnth.
      + inv Hnth. simpl. contradiction.
      + exfalso; eapply nth_error_nil; eauto. }
  apply allpw_upd; auto. pose proof (A0 _ _ Hnth) as Nb.
  destruct (pw_add_spec _ _ _ _ _ Hadd Ho) as (_ & _ & _ & _ & [(l & b & E1 & E2 & Ek & En)|(E2 & Ek & En)]).
  - intros b' Hb. rewrite E2 in Hb. apply in_app_iff in Hb. destruct Hb as [Hb|[<-|[]]].
    + apply Nb. rewrite E1. apply in_app_iff; auto.
    + assert (Hbin : In b (pw_all pw)) by (rewrite E1; apply in_app_iff; simpl; auto).
      simpl. rewrite map_app. simpl. apply NoDup_snoc; [apply Nb; auto|].
      intros Hin. apply in_map_iff in Hin. destruct Hin as (x & Ex & Hx). eapply Fr0; eauto.
  - intros b' Hb. rewrite E2 in Hb. apply in_app_iff in Hb. destruct Hb as [Hb|[<-|[]]].
    + apply Nb; auto.
    + simpl. constructor; [simpl; auto|constructor].
Qed.

Lemma fold_assign_nb : forall calls c cl, nth_error calls c = Some cl -> c_refs cl = [] ->
  NoDup (used_ids calls) ->
  forall ms pws wg refs pws' wg' refs' done,
  fold_left (assign_one cfg) ms (pws,wg,refs) = (pws',wg',refs') -> length refs = length done ->
  c_msgs cl = done ++ ms ->
  allpw (OwnF calls done refs) pws -> allpw (fun _ pw => Nbp pw) pws -> allpw (fun _ pw => Nbp pw) pws'.
Proof.
  intros calls c cl Hc Hr0 N.
  induction ms; intros pws wg refs pws' wg' refs' done H Hl Hm O A; cbn [fold_left] in H.
  - inv H. auto.
  - destruct (assign_one cfg (pws,wg,refs) a) as [[pws1 wg1] refs1] eqn:E.
    pose proof (assign_one_own _ _ _ _ _ _ _ _ _ E Hl O) as O1.
    assert (L1 : length refs1 = length (done ++ [a])).
    { destruct (assign_one_spec _ _ _ _ _ _ _ E) as (p & k & pw & pw' & sp & pws0 & -> & _).
      rewrite !app_length. simpl. lia. }
    assert (Hma : nth_error (c_msgs cl) (length done) = Some a).
    { rewrite Hm, nth_error_app2, Nat.sub_diag by lia. reflexivity. }
    eapply (IHms _ _ _ _ _ _ (done ++ [a])); eauto.
    + rewrite <- app_assoc. exact Hm.
    + eapply assign_one_nb; eauto.
      intros q pwq b x Hq Hb Hx Eid.
      destruct (O _ _ Hq _ _ Hb Hx) as [(c0 & cl0 & i0 & H1 & H2 & H3)|(i & H1 & H2)].
      * destruct (ids_unique _ _ _ _ _ _ _ _ _ N H1 Hc H2 Hma Eid) as [-> ->].
        rewrite Hc in H1. inv H1. rewrite Hr0 in H3. eapply nth_error_nil; eauto.
      * assert (Hxi : nth_error (c_msgs cl) i = Some x).
        { rewrite Hm, nth_error_app1; auto. apply nth_error_Some. congruence. }
        destruct (ids_unique _ _ _ _ _ _ _ _ _ N Hc Hc Hxi Hma Eid) as [_ ->].
        assert (length done < length done) by (apply nth_error_Some; congruence). lia.
Qed.

Lemma Inv3_assign : forall pws calls J L compl c cl wg pws' wg' refs,
  Inv1 pws calls J L -> Inv2 pws calls J -> Inv3 pws calls compl ->
  nth_error calls c = Some cl -> c_ph cl = CEntered ->
  assign_all cfg pws wg (c_msgs cl) = (pws', wg', refs) ->
  Inv3 pws' (upd calls c (mkCall (c_g cl) (c_msgs cl) refs CWaiting)) compl.
Proof.
  intros pws calls J L compl c cl wg pws' wg' refs I1 (O & D & W & N) (A & K & R & Nc) Hc Hph E.
  unfold assign_all in E.
  assert (Hr0 : c_refs cl = []).
  { destruct (proj1 (proj2 I1) _ _ Hc) as [_ Ph]. rewrite Hph in Ph. exact Ph. }
  destruct (fold_assign_refs _ _ _ _ _ _ _ [] E eq_refl) as (_ & _ & Le).
  { intros i r Hi. destruct i; discriminate. }
  split; [|split; [|split; auto]].
  - assert (A1 : allpw (fun _ pw => Cp compl pw) pws').
    { eapply (fold_assign_allpw (fun _ pw => Cp compl pw) 0); [| |exact E|lia|].
      + intros p tp _ b o Hb. simpl in Hb. contradiction.
      + intros p pw m pw' k sp Hop Ho Hadd.
        destruct (pw_add_spec _ _ _ _ _ Hadd Ho) as (Etp & Eo & Ef & Es & _).
        unfold Cp. rewrite Ef. exact Hop.
      + intros p pw Hp. apply (A _ _ Hp). }
    assert (A2 : allpw (fun _ pw => Nbp pw) pws').
    { eapply (fold_assign_nb calls c cl Hc Hr0 N _ _ _ _ _ _ _ [] E eq_refl); auto.
      + intros p pw Hp b m Hb Hm. left. eapply W; eauto.
      + intros p pw Hp. apply (A _ _ Hp). }
    intros p pw Hp. split; [apply (A1 _ _ Hp)|apply (A2 _ _ Hp)].
  - eapply Kb_le; eauto.
  - apply allpw_upd; auto. intros Hrej. simpl in Hrej. discriminate.
Qed.

Definition inv3 (s : state) : Prop := inv2 s /\ Inv3 (s_pws s) (s_calls s) (s_compl s).

Lemma inv3_step : forall s l s', inv3 s -> step cfg s l = Some s' -> inv3 s'.
Proof.
  intros s l s' [I12 I3] H. split; [eapply inv2_step; eauto|].
  destruct I12 as [I1 I2]. unfold inv1 in I1.
  destruct l; unfold step in H; step_destruct H; inv H;
    unfold with_pw_done, with_pw, ret_call, add_call; cbn [s_pws s_calls s_journal s_log s_compl].
  1-4: (eapply Inv3_calls; [exact I3|]; apply allpw_snoc; [apply I3|intros _; reflexivity]).
  - (* Assign after Close *)
    eapply Inv3_calls; [exact I3|]. apply allpw_upd; [apply I3|]. intros _. simpl.
    match goal with E : nth_error (s_calls s) ?c = Some ?cl, Ep : c_ph ?cl = CEntered |- _ =>
      destruct (proj1 (proj2 I1) _ _ E) as [_ Ph]; rewrite Ep in Ph; exact Ph end.
  - (* Assign *) eapply Inv3_assign; eauto.
  - (* Timer *)
    match goal with E : nth_error (s_pws s) ?p = Some ?pw |- _ =>
      destruct (timer_pw_sim pw k) as ((T & Al & _) & F & Sn); [apply (proj1 I1 _ _ E)|];
      eapply (Inv3_upd_gen _ _ _ p pw (timer_pw pw k)); eauto end.
  - (* Get *)
    match goal with E : nth_error (s_pws s) ?p = Some ?pw, Es : pw_snd ?pw = None, Eq : pw_queue ?pw = _ |- _ =>
      eapply Inv3_upd_gen; eauto; unfold pw_all; simpl; rewrite Es, Eq; reflexivity end.
  - (* SenderExit *)
    match goal with E : nth_error (s_pws s) ?p = Some ?pw, Es : pw_snd ?pw = None, Eq : pw_queue ?pw = [] |- _ =>
      eapply Inv3_upd_gen; eauto; unfold pw_all; simpl; rewrite Es, Eq; reflexivity end.
  - (* Attempt *)
    match goal with E : nth_error (s_pws s) ?p = Some ?pw, Es : pw_snd ?pw = Some _ |- _ =>
      eapply Inv3_upd_gen; eauto; unfold pw_all; simpl; rewrite Es; reflexivity end.
  - (* BackoffDone *)
    match goal with E : nth_error (s_pws s) ?p = Some ?pw, Es : pw_snd ?pw = Some _ |- _ =>
      eapply Inv3_upd_gen; eauto; unfold pw_all; simpl; rewrite Es; reflexivity end.
  - (* Finish *)
    rename sd_batch into b, sd_att into n. rename Heqo into Hp, Heqo0 into Hs.
    destruct I3 as (A & K & R & Nc). destruct (A _ _ Hp) as [C Nb].
    destruct (proj1 I1 _ _ Hp) as [W _]. destruct I2 as (O & Dm & Ow & N).
    assert (Hall : pw_all (mkPw (pw_tp p0) (pw_open p0) (pw_nb p0) (pw_fin p0 ++ [(b, e)]) None
                      (pw_queue p0) (pw_curr p0) (pw_alive p0) (pw_await p0)) = pw_all p0).
    { unfold pw_all; simpl; rewrite Hs, map_app; simpl; rewrite <- app_assoc; reflexivity. }
    assert (Hbin : In b (pw_all p0)).
    { unfold pw_all. rewrite Hs. simpl. apply in_app_iff. right. simpl. auto. }
    split; [|split; [|split; auto]].
    + intros q pwq Hq. apply nth_error_upd in Hq. destruct Hq as [(<- & -> & _)|(Hne & Hq)].
      * split.
        -- intros b0 o Hb. simpl in Hb. apply in_app_iff in Hb. apply in_app_iff.
           destruct Hb as [Hb|[Hb|[]]]; [left; apply C; auto|right; inv Hb; simpl; auto].
        -- unfold Nbp. rewrite Hall. exact Nb.
      * destruct (A _ _ Hq) as [Cq Nq]. split; auto. intros b0 o Hb. apply in_app_iff. left. apply Cq; auto.
    + intros ms o Hin. apply in_app_iff in Hin. destruct Hin as [Hin|[Hin|[]]].
      * eapply Kb_le; [|exact K|exact Hin]. eapply pws_le_upd; eauto. apply pw_le_all; auto.
        simpl. eexists; reflexivity.
      * inv Hin. eexists p, _, b. rewrite nth_error_upd_eq by (apply nth_error_Some; congruence).
        split; [reflexivity|]. simpl. split; auto. apply in_app_iff. simpl. auto.
    + unfold compl_ids. rewrite flat_map_app. simpl. rewrite app_nil_r.
      apply NoDup_app_intro; auto.
      intros x Hx Hin. apply in_map_iff in Hx. destruct Hx as (m & <- & Hm).
      apply in_flat_map in Hin. destruct Hin as ([ms o] & Hce & Hmi). simpl in Hmi.
      apply in_map_iff in Hmi. destruct Hmi as (m' & Eid & Hm').
      destruct (K _ _ Hce) as (p' & pw' & b' & Hp' & Hf' & ->).
      assert (Hb'in : In b' (pw_all pw')).
      { unfold pw_all. apply in_app_iff. left. apply in_map_iff. exists (b',o); auto. }
      destruct (one_batch _ _ _ _ _ _ _ _ _ _ Ow N Hp' Hb'in Hm' Hp Hbin Hm Eid) as [-> Ek].
      rewrite Hp in Hp'. inv Hp'.
      eapply (fin_other_neq pw' b' o b); eauto. rewrite Hs. simpl. auto.
  - (* Return async *)
    eapply Inv3_calls; [exact I3|]. apply allpw_upd; [apply I3|]. intros Hrej. simpl in Hrej. discriminate.
  - eapply Inv3_calls; [exact I3|]. apply allpw_upd; [apply I3|]. intros Hrej. unfold rejected in Hrej. simpl in Hrej.
    match type of Hrej with context[forallb is_none ?es] => destruct (forallb is_none es) end; discriminate.
  - eapply Inv3_calls; [exact I3|]. apply allpw_upd; [apply I3|]. intros Hrej. simpl in Hrej. discriminate.
  - (* CloseMark *)
    destruct I3 as (A & K & R & Nc). split; [|split; [|split; auto]].
    + intros p pw' Hp. apply nth_error_map_inv in Hp. destruct Hp as (pw & Hp & ->).
      destruct (close_pw_sim pw (proj1 (proj1 I1 _ _ Hp))) as ((T & Al & _) & F & Sn).
      destruct (A _ _ Hp) as [C Nb]. split; [unfold Cp; rewrite F; auto|unfold Nbp; rewrite Al; auto].
    + eapply Kb_le; [|exact K]. intros p pw Hp. exists (close_pw pw). split; [apply map_nth_error; auto|].
      destruct (close_pw_sim pw (proj1 (proj1 I1 _ _ Hp))) as (S & F & Sn).
      apply pw_sim_le; auto. exists []. rewrite app_nil_r; auto.
  - exact I3.
Qed.

Lemma inv3_runs : forall ls s, runs cfg ls s -> inv3 s.
Proof.
  apply runs_inv; [|apply inv3_step]. split.
  - split; [apply inv1_init|].
    split; [|split; [|split]]; try (intros x y H; simpl in H; exfalso; eapply nth_error_nil; exact H).
    + intros a H. simpl in H. contradiction.
    + simpl. constructor.
  - split; [|split; [|split]]; try (intros x y H; simpl in H; exfalso; eapply nth_error_nil; exact H).
    + intros ms o H. simpl in H. contradiction.
    + simpl. constructor.
Qed.

Lemma fin_facts : forall s p pw b o m,
  inv1 s -> Inv2 (s_pws s) (s_calls s) (s_journal s) ->
  nth_error (s_pws s) p = Some pw -> In (b,o) (pw_fin pw) -> In m (b_msgs b) ->
  (forall a, In a (s_journal s) -> In m (a_msgs a) -> a_pw a = p /\ a_k a = b_k b) /\
  (forall a, In a (s_journal s) -> a_pw a = p -> a_k a = b_k b -> In m (a_msgs a)) /\
  last_attempt_seen s m o /\
  (forall a, In a (s_journal s) -> In m (a_msgs a) -> a_seen a = None -> o = None).
Proof.
  intros s p pw b o m (A & B & C) (O & Dm & Ow & N) Hp Hf Hm.
  assert (Hb : In b (pw_all pw)).
  { unfold pw_all. apply in_app_iff. left. apply in_map_iff. exists (b,o); auto. }
  assert (X : forall a, In a (s_journal s) -> In m (a_msgs a) -> a_pw a = p /\ a_k a = b_k b).
  { intros a Ha Hma. pose proof (Dm _ Ha) as Hlt. apply nth_error_Some in Hlt.
    destruct (nth_error (s_pws s) (a_pw a)) as [pwa|] eqn:Epa; [|congruence].
    destruct (O _ _ Epa) as (_ & _ & O3). destruct (O3 _ Ha eq_refl) as (ba & Hba & Hka & Hms & _).
    rewrite Hms in Hma. apply fs_all in Hba.
    destruct (one_batch _ _ _ _ _ _ _ _ _ _ Ow N Epa Hba Hma Hp Hb Hm eq_refl) as [E1 E2].
    split; congruence. }
  assert (Y : forall a, In a (s_journal s) -> a_pw a = p -> a_k a = b_k b -> In m (a_msgs a)).
  { intros a Ha Hpa Hka. destruct (O _ _ Hp) as (_ & _ & O3).
    destruct (O3 _ Ha Hpa) as (ba & Hba & Hkb & Hms & _). apply fs_all in Hba.
    destruct (A _ _ Hp) as [(W1 & W2 & W3) _].
    assert (ba = b) by (eapply (nodup_key_eq _ b_k); eauto; congruence). subst ba.
    rewrite Hms. exact Hm. }
  destruct (O _ _ Hp) as (O1 & _ & _). destruct (O1 _ _ Hf) as [(j1 & a0 & j2 & EJ & H1 & H2 & H3 & H4) Hno].
  split; auto. split; auto. split.
  - exists j1, a0, j2. split; auto. split.
    + apply Y; auto. rewrite EJ. apply in_app_iff. simpl. auto.
    + split; auto. intros a' Ha' Hma'. apply (H4 _ Ha'). apply X; auto.
      rewrite EJ. apply in_app_iff. simpl. auto.
  - intros a Ha Hma Hs. destruct o as [e|]; auto. exfalso.
    destruct (X _ Ha Hma) as [E1 E2]. eapply (Hno e eq_refl a); eauto.
Qed.

Lemma finished_ref : forall J pws ms refs i r o,
  allpw (fun _ pw => pw_wf pw /\ Dp J pw) pws -> refs_ok pws ms refs ->
  nth_error refs i = Some r -> batch_result pws r = Some o ->
  exists m pw b, nth_error ms i = Some m /\ nth_error pws (fst r) = Some pw /\
    pw_tp pw = tp_of cfg m /\ In (b,o) (pw_fin pw) /\ b_k b = snd r /\ In m (b_msgs b).
Proof.
  intros J pws ms refs i r o A R Hr Hb. destruct r as [p k].
  destruct (R _ _ Hr) as (m & pw & Hm & Hp & Ht & (b & Hin & Hk & Hmb)). simpl in *.
  destruct (batch_result_fin _ _ _ _ Hb) as (pw' & b' & Hp' & Hf & Hk').
  rewrite Hp in Hp'. inv Hp'. destruct (A _ _ Hp) as [(W1 & W2 & W3) D].
  assert (b = b').
  { eapply (nodup_key_eq _ b_k); eauto.
    unfold pw_all. apply in_app_iff. left. apply in_map_iff. exists (b', o); auto. }
  subst. exists m, pw', b'. auto 10.
Qed.

End WithCfg.

Lemma C01_nil_means_logged_proof : stmt_C01_nil_means_logged.
Proof.
  intros cfg ls s Hok Hr Ha c cl Hc Hph m Hm.
  pose proof (inv1_runs cfg Hok _ _ Hr) as (A & B & C).
  destruct (B _ _ Hc) as [R Ph]. rewrite Hph in Ph. destruct Ph as [Hl He].
  destruct (He Ha) as (es & E1 & E2).
  apply In_nth_error in Hm. destruct Hm as (i & Hi).
  assert (Hlt : i < length (c_refs cl)) by (rewrite Hl; apply nth_error_Some; congruence).
  destruct (nth_error (c_refs cl) i) as [r|] eqn:Er; [|apply nth_error_None in Er; lia].
  destruct (all_results_nth _ _ _ E1) as [Le N]. destruct (N _ _ Er) as (o & Ho & Hb).
  assert (o = None).
  { apply nth_error_In in Ho. rewrite forallb_forall in E2. specialize (E2 _ Ho).
    destruct o; [discriminate|auto]. }
  subst o.
  destruct (finished_ref cfg _ _ _ _ _ _ _ A R Er Hb) as (m' & pw & b & Hm' & Hp & Ht & Hf & Hk & Hin).
  rewrite Hi in Hm'. inv Hm'.
  destruct (A _ _ Hp) as [W [D1 D2]]. destruct (D1 _ Hf) as (a & Ha1 & Ha2 & Ha3 & Ha4 & Ha5).
  split.
  - exists a. rewrite Ha4, Ha5. auto 10.
  - unfold log_of. apply in_map_iff. exists (tp_of cfg m', m'). split; auto. apply filter_In. split.
    + rewrite <- Ht, <- Ha5. apply C; auto. rewrite Ha4; auto.
    + simpl. apply tp_eqb_refl.
Qed.

Print Assumptions C01_nil_means_logged_proof.

(* a call that returned WriteErrors: what each position of the error list refers to *)
Lemma we_entry : forall cfg ls s, cfg_ok cfg -> runs cfg ls s ->
  forall c cl we, nth_error (s_calls s) c = Some cl -> c_ph cl = CReturned (RWriteErrors we) ->
  length we = length (c_msgs cl) /\ forallb is_none we = false /\
  forall i m o, nth_error (c_msgs cl) i = Some m -> nth_error we i = Some o ->
    exists p pw b, nth_error (c_refs cl) i = Some (p, b_k b) /\ nth_error (s_pws s) p = Some pw /\
      pw_tp pw = tp_of cfg m /\ In (b,o) (pw_fin pw) /\ In m (b_msgs b).
Proof.
  intros cfg ls s Hok Hr c cl we Hc Hph.
  pose proof (inv1_runs cfg Hok _ _ Hr) as (A & B & C).
  destruct (B _ _ Hc) as [R Ph]. rewrite Hph in Ph. destruct Ph as (Hl & E1 & E2).
  destruct (all_results_nth _ _ _ E1) as [Le N].
  split; [congruence|]. split; auto.
  intros i m o Hi Ho.
  assert (Hlt : i < length (c_refs cl)) by (rewrite Hl; apply nth_error_Some; congruence).
  destruct (nth_error (c_refs cl) i) as [r|] eqn:Er; [|apply nth_error_None in Er; lia].
  destruct (N _ _ Er) as (o' & Ho' & Hb). rewrite Ho in Ho'. inv Ho'.
  destruct (finished_ref cfg _ _ _ _ _ _ _ A R Er Hb) as (m' & pw & b & Hm' & Hp & Ht & Hf & Hk & Hin).
  rewrite Hi in Hm'. inv Hm'. destruct r as [p k]. simpl in *. subst k.
  exists p, pw, b. auto 10.
Qed.

Lemma forallb_is_none_false : forall (we : list (option err)), forallb is_none we = false ->
  exists i e, nth_error we i = Some (Some e).
Proof.
  induction we as [|[e|] we IH]; simpl; intros H; [discriminate| |].
  - exists 0, e. reflexivity.
  - destruct (IH H) as (i & e & Hi). exists (S i), e. exact Hi.
Qed.

(* weaker form kept for reference (superseded by C01_write_errors_exact_proof below): needs
   layer 1 only *)
Lemma C01_write_errors_exact_partial_proof :
  forall cfg ls s, cfg_ok cfg -> runs cfg ls s ->
  forall c cl we, nth_error (s_calls s) c = Some cl -> c_ph cl = CReturned (RWriteErrors we) ->
    length we = length (c_msgs cl) /\
    (exists i e, nth_error we i = Some (Some e)) /\
    forall i m o, nth_error (c_msgs cl) i = Some m -> nth_error we i = Some o ->
      (o = None -> acked_attempt cfg s m).
Proof.
  intros cfg ls s Hok Hr c cl we Hc Hph.
  destruct (we_entry cfg ls s Hok Hr c cl we Hc Hph) as (Hl & Hf & He).
  split; auto. split; [apply forallb_is_none_false; auto|].
  intros i m o Hi Ho ->. destruct (He _ _ _ Hi Ho) as (p & pw & b & Er & Hp & Ht & Hfin & Hin).
  pose proof (inv1_runs cfg Hok _ _ Hr) as (A & B & C).
  destruct (A _ _ Hp) as [W [D1 D2]]. destruct (D1 _ Hfin) as (a & Ha1 & Ha2 & Ha3 & Ha4 & Ha5).
  exists a. rewrite Ha4, Ha5. auto 10.
Qed.

Lemma C01_write_errors_exact_proof : stmt_C01_write_errors_exact.
Proof.
  intros cfg ls s Hok Hr c cl we Hc Hph.
  destruct (we_entry cfg ls s Hok Hr c cl we Hc Hph) as (Hl & Hf & He).
  split; auto. split; [apply forallb_is_none_false; auto|].
  intros i m o Hi Ho. destruct (He _ _ _ Hi Ho) as (p & pw & b & Er & Hp & Ht & Hfin & Hin).
  destruct (inv2_runs cfg Hok _ _ Hr) as [I1 I2].
  destruct (fin_facts cfg _ _ _ _ _ _ I1 I2 Hp Hfin Hin) as (_ & _ & Hlast & Hack).
  split; auto. split.
  - intros ->. destruct I1 as (A & B & C).
    destruct (A _ _ Hp) as [W [D1 D2]]. destruct (D1 _ Hfin) as (a & Ha1 & Ha2 & Ha3 & Ha4 & Ha5).
    exists a. rewrite Ha4, Ha5. auto 10.
  - intros (a & Ha & _ & Hs & Hm & _). eapply Hack; eauto.
Qed.

Print Assumptions C01_write_errors_exact_proof.

Lemma C01_completion_once_proof : stmt_C01_completion_once.
Proof.
  intros cfg ls s Hok Hr.
  destruct (inv3_runs cfg Hok _ _ Hr) as [[I1 I2] (A3 & K & R & Nc)].
  split; [exact Nc|]. split.
  - intros ms o m Hin Hm. destruct (K _ _ Hin) as (p & pw & b & Hp & Hf & ->).
    destruct (fin_facts cfg _ _ _ _ _ _ I1 I2 Hp Hf Hm) as (_ & _ & Hlast & _). split; auto.
    destruct I2 as (O & Dm & Ow & N).
    assert (Hb : In b (pw_all pw)).
    { unfold pw_all. apply in_app_iff. left. apply in_map_iff. exists (b,o); auto. }
    destruct (Ow _ _ Hp _ _ Hb Hm) as (c & cl & i & Hc & Hmi & Hri).
    exists c, cl. split; auto. split; [|eapply nth_error_In; eauto].
    destruct (rejected cl) eqn:Erj; auto. rewrite (R _ _ Hc Erj) in Hri.
    exfalso; eapply nth_error_nil; eauto.
  - intros Ha c cl Hc. split.
    + intros Hph m Hm. destruct I1 as (A & B & C).
      destruct (B _ _ Hc) as [Rf Ph]. rewrite Hph in Ph. destruct Ph as [Hl He].
      destruct (He Ha) as (es & E1 & E2).
      apply In_nth_error in Hm. destruct Hm as (i & Hi).
      assert (Hlt : i < length (c_refs cl)) by (rewrite Hl; apply nth_error_Some; congruence).
      destruct (nth_error (c_refs cl) i) as [r|] eqn:Er; [|apply nth_error_None in Er; lia].
      destruct (all_results_nth _ _ _ E1) as [Le N]. destruct (N _ _ Er) as (o & Ho & Hb).
      assert (o = None).
      { apply nth_error_In in Ho. rewrite forallb_forall in E2. specialize (E2 _ Ho).
        destruct o; [discriminate|auto]. }
      subst o.
      destruct (finished_ref cfg _ _ _ _ _ _ _ A Rf Er Hb) as (m' & pw & b & Hm' & Hp & Ht & Hf & Hk & Hin).
      rewrite Hi in Hm'. inv Hm'. destruct (A3 _ _ Hp) as [Cc _].
      exists (b_msgs b). split; auto.
    + intros we Hph i m o Hi Ho.
      destruct (we_entry cfg ls s Hok Hr c cl we Hc Hph) as (_ & _ & He).
      destruct (He _ _ _ Hi Ho) as (p & pw & b & _ & Hp & _ & Hfin & Hin).
      destruct (A3 _ _ Hp) as [Cc _]. exists (b_msgs b). split; auto.
Qed.

Print Assumptions C01_completion_once_proof.
