(* Proofs/WriterC01b.v — C01: what a returned WriteMessages means (nil => logged; WriteErrors
   exact; Completion once).  Invariants over runs of Model/Writer.v. *)
From Coq Require Import List NArith Bool Arith Lia ZifyN ZifyNat ZifyBool.
From KV Require Import Lib.LTS Model.Writer Proofs.WriterStmts Proofs.WriterBase.
Import ListNotations.

Ltac inv H := inversion H; subst; clear H.

(* ------------------------------------------------------------------ lists *)
Lemma upd_app_last : forall A (l : list A) x y, upd (l ++ [x]) (length l) y = l ++ [y].
Proof. induction l; simpl; intros; auto. f_equal; auto. Qed.

Lemma nth_error_nil : forall A i (x : A), nth_error [] i = Some x -> False.
Proof. destruct i; simpl; discriminate. Qed.

Lemma NoDup_snoc : forall A (l : list A) x, NoDup l -> ~ In x l -> NoDup (l ++ [x]).
Proof.
  induction l; simpl; intros.
  - constructor; auto.
  - inv H. constructor.
    + rewrite in_app_iff. simpl. intros [?|[?|[]]]; auto.
    + apply IHl; auto.
Qed.

Lemma find_app_some : forall A f (l x : list A) y, find f l = Some y -> find f (l ++ x) = Some y.
Proof. induction l; simpl; intros; [discriminate|]. destruct (f a); auto. Qed.

Lemma nodup_key_eq : forall A (f : A -> nat) l b b',
  NoDup (map f l) -> In b l -> In b' l -> f b = f b' -> b = b'.
Proof.
  induction l; simpl; intros b b' N H1 H2 E; [contradiction|].
  inv N. destruct H1 as [->|H1], H2 as [->|H2]; auto.
  - exfalso. apply H3. rewrite E. apply in_map; auto.
  - exfalso. apply H3. rewrite <- E. apply in_map; auto.
Qed.

(* ------------------------------------------------------------------ partition writers *)
Definition pw_pre (pw : pwriter) : list batch :=
  map fst (pw_fin pw) ++ opt_list (option_map sd_batch (pw_snd pw)) ++ pw_queue pw.

Lemma pw_all_pre : forall pw, pw_all pw = pw_pre pw ++ opt_list (pw_curr pw).
Proof. intros. unfold pw_all, pw_pre. repeat rewrite <- app_assoc. reflexivity. Qed.

Definition holds (pw : pwriter) (k : nat) (m : msg) : Prop :=
  exists b, In b (pw_all pw) /\ b_k b = k /\ In m (b_msgs b).

Definition pw_wf (pw : pwriter) : Prop :=
  (pw_open pw = false -> pw_curr pw = None) /\
  NoDup (map b_k (pw_all pw)) /\
  (forall b, In b (pw_all pw) -> b_k b < pw_nb pw).

Section WithCfg.
Variable cfg : config.
Hypothesis Hok : cfg_ok cfg.

Lemma pw_add_spec : forall pw m pw' k sp, pw_add cfg pw m = (pw', k, sp) -> pw_open pw = true ->
  pw_tp pw' = pw_tp pw /\ pw_open pw' = true /\ pw_fin pw' = pw_fin pw /\ pw_snd pw' = pw_snd pw /\
  ((exists l b, pw_all pw = l ++ [b] /\ pw_all pw' = l ++ [add_msg b m] /\ k = b_k b /\ pw_nb pw' = pw_nb pw)
   \/ (pw_all pw' = pw_all pw ++ [add_msg (mkBatch (pw_nb pw) [] 0%N) m] /\ k = pw_nb pw /\
       pw_nb pw' = S (pw_nb pw))).
Proof.
  intros pw m pw' k sp H Ho. unfold pw_add in H.
  destruct (pw_curr pw) as [b|] eqn:Ec.
  - destruct (add_fits cfg b m) eqn:Ef.
    + match type of H with context[if ?c then _ else _] => destruct c eqn:Efu end; inv H;
        unfold put; rewrite ?Ho; simpl; repeat split; auto; left;
        exists (pw_pre pw), b; rewrite (pw_all_pre pw), Ec; simpl; repeat split; auto;
        unfold pw_all, pw_pre; simpl; repeat rewrite <- app_assoc; reflexivity.
    + unfold new_batch in H. cbv beta iota zeta in H.
      match type of H with context[if ?c then _ else _] => destruct c eqn:Efu end; inv H;
        unfold put; rewrite ?Ho; simpl; rewrite ?Ho; simpl; repeat split; auto; right;
        rewrite (pw_all_pre pw), Ec; simpl; repeat split; auto;
        unfold pw_all, pw_pre; simpl; repeat rewrite <- app_assoc; reflexivity.
  - unfold new_batch in H. cbv beta iota zeta in H.
    match type of H with context[if ?c then _ else _] => destruct c eqn:Efu end; inv H;
      unfold put; simpl; rewrite ?Ho; simpl; repeat split; auto; right;
      rewrite (pw_all_pre pw), Ec; simpl; repeat split; auto;
      unfold pw_all, pw_pre; simpl; repeat rewrite <- app_assoc; rewrite ?app_nil_r; reflexivity.
Qed.


Lemma pw_add_wf : forall pw m pw' k sp,
  pw_add cfg pw m = (pw',k,sp) -> pw_open pw = true -> pw_wf pw -> pw_wf pw'.
Proof.
  intros pw m pw' k sp H Ho (W1 & W2 & W3).
  destruct (pw_add_spec _ _ _ _ _ H Ho) as (Etp & Eo & Ef & Es & [(l & b & E1 & E2 & Ek & En)|(E2 & Ek & En)]).
  - split; [intros; congruence|]. split.
    + rewrite E2. rewrite E1 in W2. rewrite map_app in *. simpl in *. exact W2.
    + intros b' Hb. rewrite E2 in Hb. rewrite En. apply in_app_iff in Hb. destruct Hb as [Hb|[<-|[]]].
      * apply W3. rewrite E1. apply in_app_iff; auto.
      * simpl. apply W3. rewrite E1. apply in_app_iff; simpl; auto.
  - split; [intros; congruence|]. split.
    + rewrite E2, map_app. simpl. apply NoDup_snoc; auto. intros Hin. apply in_map_iff in Hin.
      destruct Hin as (b' & Eb & Hb). apply W3 in Hb. lia.
    + intros b' Hb. rewrite E2 in Hb. rewrite En. apply in_app_iff in Hb.
      destruct Hb as [Hb|[<-|[]]]; [apply W3 in Hb; lia|simpl; lia].
Qed.

Definition pw_le (pw pw' : pwriter) : Prop :=
  pw_tp pw' = pw_tp pw /\ (exists x, pw_fin pw' = pw_fin pw ++ x) /\
  (forall k m, holds pw k m -> holds pw' k m).

Lemma pw_le_refl : forall pw, pw_le pw pw.
Proof. intros; split; auto. split; auto. exists []. rewrite app_nil_r; auto. Qed.

Lemma pw_le_trans : forall a b c, pw_le a b -> pw_le b c -> pw_le a c.
Proof.
  intros a b c (T1 & (x1 & F1) & H1) (T2 & (x2 & F2) & H2). split; [congruence|]. split; auto.
  exists (x1 ++ x2). rewrite F2, F1, app_assoc. reflexivity.
Qed.

Lemma pw_le_all : forall pw pw', pw_tp pw' = pw_tp pw -> pw_all pw' = pw_all pw ->
  (exists x, pw_fin pw' = pw_fin pw ++ x) -> pw_le pw pw'.
Proof. intros pw pw' T A F. split; auto. split; auto. unfold holds. rewrite A. auto. Qed.

Lemma pw_add_le : forall pw m pw' k sp,
  pw_add cfg pw m = (pw',k,sp) -> pw_open pw = true -> pw_le pw pw' /\ holds pw' k m.
Proof.
  intros pw m pw' k sp H Ho.
  destruct (pw_add_spec _ _ _ _ _ H Ho) as (Etp & Eo & Ef & Es & [(l & b & E1 & E2 & Ek & En)|(E2 & Ek & En)]).
  - split; [split; auto; split; [exists []; rewrite app_nil_r; auto|]|].
    + intros k0 x (b0 & Hb & Hk & Hx). rewrite E1 in Hb. apply in_app_iff in Hb. destruct Hb as [Hb|[<-|[]]].
      * exists b0. rewrite E2, in_app_iff. auto.
      * exists (add_msg b m). rewrite E2, in_app_iff. simpl. rewrite in_app_iff. auto 6.
    + exists (add_msg b m). rewrite E2, in_app_iff. simpl. rewrite in_app_iff. simpl. auto 6.
  - split; [split; auto; split; [exists []; rewrite app_nil_r; auto|]|].
    + intros k0 x (b0 & Hb & Hk & Hx). exists b0. rewrite E2, in_app_iff. auto.
    + exists (add_msg (mkBatch (pw_nb pw) [] 0%N) m). rewrite E2, in_app_iff. simpl. auto 6.
Qed.

Definition pws_le (pws pws' : list pwriter) : Prop :=
  forall p pw, nth_error pws p = Some pw -> exists pw', nth_error pws' p = Some pw' /\ pw_le pw pw'.

Lemma pws_le_refl : forall pws, pws_le pws pws.
Proof. intros pws p pw H. exists pw; split; auto. apply pw_le_refl. Qed.

Lemma pws_le_trans : forall a b c, pws_le a b -> pws_le b c -> pws_le a c.
Proof.
  intros a b c H1 H2 p pw H. destruct (H1 _ _ H) as (pw1 & N1 & L1).
  destruct (H2 _ _ N1) as (pw2 & N2 & L2). exists pw2; split; auto. eapply pw_le_trans; eauto.
Qed.

Lemma pws_le_upd : forall pws p pw pw', nth_error pws p = Some pw -> pw_le pw pw' -> pws_le pws (upd pws p pw').
Proof.
  intros pws p pw pw' Hn L q pwq Hq. destruct (Nat.eq_dec p q) as [<-|N].
  - exists pw'. rewrite nth_error_upd_eq by (apply nth_error_Some; congruence).
    split; auto. congruence.
  - exists pwq. rewrite nth_error_upd_neq by auto. split; auto. apply pw_le_refl.
Qed.

Lemma pws_le_app : forall pws l, pws_le pws (pws ++ l).
Proof.
  intros pws l p pw H. exists pw. split; [|apply pw_le_refl].
  rewrite nth_error_app1; auto. apply nth_error_Some; congruence.
Qed.

Lemma pws_add_spec : forall tp m pws i pws' ref sp, pws_add cfg tp m i pws = Some (pws', ref, sp) ->
  exists p pw pw' k, ref = (i + p, k) /\ nth_error pws p = Some pw /\ pw_open pw = true /\ pw_tp pw = tp /\
     pw_add cfg pw m = (pw', k, sp) /\ pws' = upd pws p pw'.
Proof.
  induction pws as [|q r IH]; simpl; intros i pws' ref sp H; [discriminate|].
  destruct (pw_open q && tp_eqb (pw_tp q) tp) eqn:E.
  - destruct (pw_add cfg q m) as [[p' k] sp'] eqn:Ea. inv H.
    apply andb_true_iff in E. destruct E as [E1 E2]. apply tp_eqb_eq in E2.
    exists 0, q, p', k. rewrite Nat.add_0_r. simpl. auto 10.
  - destruct (pws_add cfg tp m (S i) r) as [[[r' ref'] sp']|] eqn:Er; [|discriminate]. inv H.
    destruct (IH _ _ _ _ Er) as (p & pw & pw' & k & -> & Hn & Ho & Ht & Ha & ->).
    exists (S p), pw, pw', k. simpl. replace (i + S p) with (S (i + p)) by lia. auto 10.
Qed.

Lemma assign_one_spec : forall pws wg refs m pws' wg' refs',
  assign_one cfg (pws,wg,refs) m = (pws',wg',refs') ->
  exists p k pw pw' sp pws0, refs' = refs ++ [(p,k)] /\ pw_add cfg pw m = (pw',k,sp) /\
    pw_open pw = true /\ pw_tp pw = tp_of cfg m /\
    (pws0 = pws \/ pws0 = pws ++ [new_pw (tp_of cfg m)]) /\ nth_error pws0 p = Some pw /\
    pws' = upd pws0 p pw'.
Proof.
  intros pws wg refs m pws' wg' refs' H. unfold assign_one in H.
  destruct (pws_add cfg (tp_of cfg m) m 0 pws) as [[[pws1 ref] sp]|] eqn:E.
  - inv H. destruct (pws_add_spec _ _ _ _ _ _ _ E) as (p & pw & pw' & k & -> & Hn & Ho & Ht & Ha & ->).
    simpl. exists p,k,pw,pw',sp,pws. auto 10.
  - destruct (pw_add cfg (new_pw (tp_of cfg m)) m) as [[p' k] sp] eqn:Ea. inv H.
    exists (length pws), k, (new_pw (tp_of cfg m)), p', sp, (pws ++ [new_pw (tp_of cfg m)]).
    rewrite upd_app_last. rewrite nth_error_app2, Nat.sub_diag by lia. simpl. auto 10.
Qed.

Definition allpw {A} (P : nat -> A -> Prop) (pws : list A) : Prop :=
  forall p pw, nth_error pws p = Some pw -> P p pw.

Lemma allpw_upd : forall A (P : nat -> A -> Prop) pws p pw', allpw P pws -> P p pw' -> allpw P (upd pws p pw').
Proof.
  intros A0 P pws p pw' A H q pw Hq. apply nth_error_upd in Hq.
  destruct Hq as [(-> & -> & _)|(_ & Hq)]; auto.
Qed.

Lemma allpw_snoc : forall A (P : nat -> A -> Prop) pws x, allpw P pws -> P (length pws) x -> allpw P (pws ++ [x]).
Proof.
  intros A0 P pws x A H q pw Hq. destruct (Nat.lt_ge_cases q (length pws)).
  - rewrite nth_error_app1 in Hq; auto.
  - rewrite nth_error_app2 in Hq by lia. destruct (q - length pws) eqn:E; simpl in Hq.
    + inv Hq. replace q with (length pws) by lia. auto.
    + exfalso; eapply nth_error_nil; eauto.
Qed.

Section AssignAll.
Variable P : nat -> pwriter -> Prop.
Hypothesis Pnew : forall p tp, P p (new_pw tp).
Hypothesis Padd : forall p pw m pw' k sp, P p pw -> pw_open pw = true -> pw_add cfg pw m = (pw',k,sp) -> P p pw'.

Lemma assign_one_allpw : forall pws wg refs m pws' wg' refs',
  assign_one cfg (pws,wg,refs) m = (pws',wg',refs') -> allpw P pws -> allpw P pws'.
Proof.
  intros pws wg refs m pws' wg' refs' H A.
  destruct (assign_one_spec _ _ _ _ _ _ _ H) as (p & k & pw & pw' & sp & pws0 & -> & Hadd & Ho & Ht & H0 & Hnth & ->).
  assert (A0 : allpw P pws0) by (destruct H0 as [->| ->]; [auto|apply allpw_snoc; auto]).
  apply allpw_upd; auto. eapply Padd; [apply A0; exact Hnth|exact Ho|exact Hadd].
Qed.

Lemma fold_assign_allpw : forall ms pws wg refs pws' wg' refs',
  fold_left (assign_one cfg) ms (pws,wg,refs) = (pws',wg',refs') -> allpw P pws -> allpw P pws'.
Proof.
  induction ms; intros pws wg refs pws' wg' refs' H A; cbn [fold_left] in H.
  - inv H; auto.
  - destruct (assign_one cfg (pws,wg,refs) a) as [[pws1 wg1] refs1] eqn:E.
    eapply IHms; eauto. eapply assign_one_allpw; eauto.
Qed.
End AssignAll.

(* the refs an Assign computes point to the batch that took the message *)
Definition ref_ok (pws : list pwriter) (ms : list msg) (i : nat) (r : nat * nat) : Prop :=
  exists m pw, nth_error ms i = Some m /\ nth_error pws (fst r) = Some pw /\
               pw_tp pw = tp_of cfg m /\ holds pw (snd r) m.

Definition refs_ok (pws : list pwriter) (ms : list msg) (refs : list (nat * nat)) : Prop :=
  forall i r, nth_error refs i = Some r -> ref_ok pws ms i r.

Lemma ref_ok_le : forall pws pws' ms i r, pws_le pws pws' -> ref_ok pws ms i r -> ref_ok pws' ms i r.
Proof.
  intros pws pws' ms i r L (m & pw & Hm & Hp & Ht & Hh).
  destruct (L _ _ Hp) as (pw' & Hp' & (T & _ & Hl)). exists m, pw'. repeat split; auto. congruence.
Qed.

Lemma assign_one_refs : forall pws wg refs m pws' wg' refs' done,
  assign_one cfg (pws,wg,refs) m = (pws',wg',refs') ->
  length refs = length done -> refs_ok pws done refs ->
  length refs' = length (done ++ [m]) /\ refs_ok pws' (done ++ [m]) refs' /\ pws_le pws pws'.
Proof.
  intros pws wg refs m pws' wg' refs' done H Hl R.
  destruct (assign_one_spec _ _ _ _ _ _ _ H) as (p & k & pw & pw' & sp & pws0 & -> & Hadd & Ho & Ht & H0 & Hnth & ->).
  destruct (pw_add_le _ _ _ _ _ Hadd Ho) as [Hle Hh].
  assert (L0 : pws_le pws pws0) by (destruct H0 as [->| ->]; [apply pws_le_refl|apply pws_le_app]).
  assert (L : pws_le pws (upd pws0 p pw')) by (eapply pws_le_trans; [exact L0|eapply pws_le_upd; eauto]).
  split; [rewrite !app_length; simpl; lia|]. split; auto.
  intros i r Hi. destruct (Nat.lt_ge_cases i (length refs)).
  - rewrite nth_error_app1 in Hi by auto. eapply ref_ok_le; [exact L|].
    destruct (R _ _ Hi) as (x & pwx & Hx & Hr). exists x, pwx. split; auto.
    rewrite nth_error_app1; auto. apply nth_error_Some; congruence.
  - rewrite nth_error_app2 in Hi by auto. destruct (i - length refs) eqn:E; simpl in Hi.
    + inv Hi. assert (i = length done) by lia. subst i. exists m, pw'. simpl.
      rewrite nth_error_app2, Nat.sub_diag by lia. simpl.
      rewrite nth_error_upd_eq by (apply nth_error_Some; congruence).
      destruct Hle as (T & _). repeat split; auto. congruence.
    + exfalso; eapply nth_error_nil; eauto.
Qed.

Lemma fold_assign_refs : forall ms pws wg refs pws' wg' refs' done,
  fold_left (assign_one cfg) ms (pws,wg,refs) = (pws',wg',refs') ->
  length refs = length done -> refs_ok pws done refs ->
  length refs' = length (done ++ ms) /\ refs_ok pws' (done ++ ms) refs' /\ pws_le pws pws'.
Proof.
  induction ms; intros pws wg refs pws' wg' refs' done H Hl R; cbn [fold_left] in H.
  - inv H. rewrite app_nil_r. split; auto. split; auto. apply pws_le_refl.
  - destruct (assign_one cfg (pws,wg,refs) a) as [[pws1 wg1] refs1] eqn:E.
    destruct (assign_one_refs _ _ _ _ _ _ _ _ E Hl R) as (L1 & R1 & Le1).
    destruct (IHms _ _ _ _ _ _ _ H L1 R1) as (L2 & R2 & Le2).
    rewrite <- app_assoc in L2, R2. simpl in L2, R2. split; auto. split; auto.
    eapply pws_le_trans; eauto.
Qed.


Lemma nth_error_map_inv : forall A B (f : A -> B) l i y, nth_error (map f l) i = Some y ->
  exists x, nth_error l i = Some x /\ y = f x.
Proof. induction l; destruct i; simpl; intros; try discriminate; eauto. inv H; eauto. Qed.

Lemma batch_result_le : forall pws pws' r o,
  pws_le pws pws' -> batch_result pws r = Some o -> batch_result pws' r = Some o.
Proof.
  unfold batch_result. intros pws pws' r o L H.
  destruct (nth_error pws (fst r)) as [pw|] eqn:E; [|discriminate].
  destruct (L _ _ E) as (pw' & -> & (_ & (x & ->) & _)).
  destruct (find (fun be => b_k (fst be) =? snd r) (pw_fin pw)) eqn:F; [|discriminate].
  erewrite find_app_some; eauto.
Qed.

Lemma all_results_le : forall pws pws' refs es,
  pws_le pws pws' -> all_results pws refs = Some es -> all_results pws' refs = Some es.
Proof.
  induction refs; simpl; intros es L H; auto.
  destruct (batch_result pws a) eqn:B; [|discriminate].
  destruct (all_results pws refs) eqn:R; [|discriminate].
  erewrite batch_result_le; eauto. erewrite IHrefs; eauto.
Qed.

Lemma all_results_nth : forall pws refs es, all_results pws refs = Some es ->
  length es = length refs /\
  forall i r, nth_error refs i = Some r -> exists o, nth_error es i = Some o /\ batch_result pws r = Some o.
Proof.
  induction refs; simpl; intros es H.
  - inv H. split; auto. intros i r Hi. destruct i; discriminate.
  - destruct (batch_result pws a) eqn:B; [|discriminate].
    destruct (all_results pws refs) eqn:R; [|discriminate]. inv H.
    destruct (IHrefs _ eq_refl) as [L N]. split; [simpl; auto|].
    intros [|i] r Hi; simpl in *; [inv Hi; eauto|auto].
Qed.

Lemma batch_result_fin : forall pws p k o, batch_result pws (p,k) = Some o ->
  exists pw b, nth_error pws p = Some pw /\ In (b,o) (pw_fin pw) /\ b_k b = k.
Proof.
  unfold batch_result; simpl; intros pws p k o H. destruct (nth_error pws p) as [pw|]; [|discriminate].
  destruct (find (fun be => b_k (fst be) =? k) (pw_fin pw)) as [[b o']|] eqn:F; [|discriminate]. inv H.
  apply find_some in F. destruct F as [F1 F2]. simpl in F2. apply Nat.eqb_eq in F2. exists pw, b. auto.
Qed.

(* pw' has the same batches as pw *)
Definition pw_sim (pw pw' : pwriter) : Prop :=
  pw_tp pw' = pw_tp pw /\ pw_all pw' = pw_all pw /\ pw_nb pw' = pw_nb pw /\
  (pw_open pw' = false -> pw_curr pw' = None).

Lemma pw_sim_wf : forall pw pw', pw_wf pw -> pw_sim pw pw' -> pw_wf pw'.
Proof. intros pw pw' (W1 & W2 & W3) (T & A & N & O). unfold pw_wf. rewrite A, N. auto. Qed.

Lemma pw_sim_le : forall pw pw', pw_sim pw pw' -> (exists x, pw_fin pw' = pw_fin pw ++ x) -> pw_le pw pw'.
Proof. intros pw pw' (T & A & N & O) F. apply pw_le_all; auto. Qed.

Definition timer_pw (pw : pwriter) (k : nat) : pwriter :=
  let pw1 := match pw_curr pw with
             | Some b => if Nat.eqb (b_k b) k then set_curr (put pw b) None else pw
             | None => pw
             end in
  set_await pw1 (filter (fun x => negb (Nat.eqb x k)) (pw_await pw1)).

Lemma timer_pw_sim : forall pw k, pw_wf pw ->
  pw_sim pw (timer_pw pw k) /\ pw_fin (timer_pw pw k) = pw_fin pw /\ pw_snd (timer_pw pw k) = pw_snd pw.
Proof.
  intros pw k (W1 & W2 & W3). unfold timer_pw, pw_sim.
  destruct (pw_curr pw) as [b|] eqn:Ec; [destruct (b_k b =? k)|].
  - destruct (pw_open pw) eqn:Eo; [|specialize (W1 eq_refl); congruence].
    unfold put. rewrite Eo. unfold pw_all. simpl. rewrite Ec. simpl.
    rewrite app_nil_r. auto 10.
  - unfold pw_all. simpl. repeat split; auto; intros Hf; rewrite Ec; auto.
  - unfold pw_all. simpl. repeat split; auto; intros Hf; rewrite Ec; auto.
Qed.

Lemma close_pw_sim : forall pw, pw_wf pw ->
  pw_sim pw (close_pw pw) /\ pw_fin (close_pw pw) = pw_fin pw /\ pw_snd (close_pw pw) = pw_snd pw.
Proof.
  intros pw (W1 & W2 & W3). unfold close_pw, pw_sim.
  destruct (pw_open pw) eqn:Eo; [|auto 10].
  destruct (pw_curr pw) as [b|] eqn:Ec; simpl.
  - unfold put. rewrite Eo. unfold pw_all. simpl. rewrite Ec. simpl. rewrite app_nil_r. auto 10.
  - unfold pw_all. simpl. rewrite Ec. auto 10.
Qed.

(* ------------------------------------------------------------------ layer 1 *)
Definition ackedb (J : list attempt) (tp : tpart) (ms : list msg) : Prop :=
  exists a, In a J /\ a_applied a = true /\ a_seen a = None /\ a_msgs a = ms /\ a_tp a = tp.

Definition Dp (J : list attempt) (pw : pwriter) : Prop :=
  (forall b, In (b, None) (pw_fin pw) -> ackedb J (pw_tp pw) (b_msgs b)) /\
  (forall b n, pw_snd pw = Some (mkSnd b n (PFinish None)) -> ackedb J (pw_tp pw) (b_msgs b)).

Lemma ackedb_mono : forall J J' tp ms, incl J J' -> ackedb J tp ms -> ackedb J' tp ms.
Proof. intros J J' tp ms I (a & H & R). exists a. split; auto. Qed.

Lemma Dp_mono : forall J J' pw, incl J J' -> Dp J pw -> Dp J' pw.
Proof. intros J J' pw I [D1 D2]. split; intros; eapply ackedb_mono; eauto. Qed.

Lemma Dp_sim : forall J pw pw', pw_tp pw' = pw_tp pw -> pw_fin pw' = pw_fin pw -> pw_snd pw' = pw_snd pw ->
  Dp J pw -> Dp J pw'.
Proof. intros J pw pw' T F S [D1 D2]. unfold Dp. rewrite T, F, S. auto. Qed.

Definition call_ok (pws : list pwriter) (cl : call) : Prop :=
  refs_ok pws (c_msgs cl) (c_refs cl) /\
  match c_ph cl with
  | CEntered => c_refs cl = []
  | CWaiting => length (c_refs cl) = length (c_msgs cl)
  | CReturned RNil =>
    length (c_refs cl) = length (c_msgs cl) /\
    (async cfg = false -> exists es, all_results pws (c_refs cl) = Some es /\ forallb is_none es = true)
  | CReturned (RWriteErrors we) =>
    length (c_refs cl) = length (c_msgs cl) /\
    all_results pws (c_refs cl) = Some we /\ forallb is_none we = false
  | CReturned (RErr _) => True
  end.

Lemma call_ok_le : forall pws pws' cl, pws_le pws pws' -> call_ok pws cl -> call_ok pws' cl.
Proof.
  intros pws pws' cl L [R Ph]. split.
  - intros i r Hi. eapply ref_ok_le; eauto.
  - destruct (c_ph cl) as [| |[| |we]]; auto.
    + destruct Ph as [Hl He]. split; auto. intros Ha. destruct (He Ha) as (es & E1 & E2).
      exists es. split; auto. eapply all_results_le; eauto.
    + destruct Ph as (Hl & E1 & E2). repeat split; auto. eapply all_results_le; eauto.
Qed.

Definition logC (J : list attempt) (L : list (tpart * msg)) : Prop :=
  forall a m, In a J -> a_applied a = true -> In m (a_msgs a) -> In (a_tp a, m) L.

Definition Inv1 (pws : list pwriter) (calls : list call) (J : list attempt) (L : list (tpart * msg)) : Prop :=
  allpw (fun _ pw => pw_wf pw /\ Dp J pw) pws /\
  allpw (fun _ cl => call_ok pws cl) calls /\
  logC J L.

Definition inv1 (s : state) : Prop := Inv1 (s_pws s) (s_calls s) (s_journal s) (s_log s).

Lemma Inv1_pws : forall pws calls J L pws',
  Inv1 pws calls J L -> pws_le pws pws' -> allpw (fun _ pw => pw_wf pw /\ Dp J pw) pws' ->
  Inv1 pws' calls J L.
Proof.
  intros pws calls J L pws' (A & B & C) Le A'. split; auto. split; auto.
  intros c cl Hc. eapply call_ok_le; eauto.
Qed.

(* a partition writer replaced by one with the same batches, tp, fin, snd *)
Lemma Inv1_upd_sim : forall pws calls J L p pw pw',
  Inv1 pws calls J L -> nth_error pws p = Some pw ->
  pw_sim pw pw' -> pw_fin pw' = pw_fin pw -> pw_snd pw' = pw_snd pw ->
  Inv1 (upd pws p pw') calls J L.
Proof.
  intros pws calls J L p pw pw' I Hn S F Sn. pose proof I as (A & B & C).
  destruct (A _ _ Hn) as [W D].
  eapply Inv1_pws; eauto.
  - eapply pws_le_upd; eauto. apply pw_sim_le; auto. exists []. rewrite app_nil_r; auto.
  - apply allpw_upd; auto. split; [eapply pw_sim_wf; eauto|]. destruct S as (T & _). eapply Dp_sim; eauto.
Qed.

(* the sending state changes, the batches stay *)
Lemma Inv1_upd_snd : forall pws calls J L p pw sd,
  Inv1 pws calls J L -> nth_error pws p = Some pw ->
  (forall b n, sd = Some (mkSnd b n (PFinish None)) -> ackedb J (pw_tp pw) (b_msgs b)) ->
  pw_all (set_snd pw sd) = pw_all pw ->
  Inv1 (upd pws p (set_snd pw sd)) calls J L.
Proof.
  intros pws calls J L p pw sd I Hn Hs Ha. pose proof I as (A & B & C).
  destruct (A _ _ Hn) as [W D].
  assert (S : pw_sim pw (set_snd pw sd)).
  { split; auto. split; auto. split; auto. simpl. apply W. }
  eapply Inv1_pws; eauto.
  - eapply pws_le_upd; eauto. apply pw_sim_le; auto. exists []. rewrite app_nil_r; auto.
  - apply allpw_upd; auto. split; [eapply pw_sim_wf; eauto|].
    destruct D as [D1 D2]. split; simpl; auto.
Qed.

Lemma Inv1_calls : forall pws calls J L calls',
  Inv1 pws calls J L -> allpw (fun _ cl => call_ok pws cl) calls' -> Inv1 pws calls' J L.
Proof. intros pws calls J L calls' (A & B & C) B'. split; auto. Qed.

Lemma Inv1_journal : forall pws calls J L a,
  Inv1 pws calls J L ->
  Inv1 pws calls (J ++ [a]) (L ++ (if a_applied a then map (pair (a_tp a)) (a_msgs a) else [])).
Proof.
  intros pws calls J L a (A & B & C). split; [|split; auto].
  - intros p pw Hp. destruct (A _ _ Hp) as [W D]. split; auto. eapply Dp_mono; eauto.
    apply incl_appl, incl_refl.
  - intros a' m Ha Hap Hm. apply in_app_iff in Ha. apply in_app_iff. destruct Ha as [Ha|[<-|[]]].
    + left. eapply C; eauto.
    + right. rewrite Hap. apply in_map. auto.
Qed.


Lemma Inv1_upd_gen : forall pws calls J L p pw pw',
  Inv1 pws calls J L -> nth_error pws p = Some pw ->
  pw_sim pw pw' -> (exists x, pw_fin pw' = pw_fin pw ++ x) -> Dp J pw' ->
  Inv1 (upd pws p pw') calls J L.
Proof.
  intros pws calls J L p pw pw' I Hn S F D'. pose proof I as (A & B & C).
  destruct (A _ _ Hn) as [W D].
  eapply Inv1_pws; eauto.
  - eapply pws_le_upd; eauto. apply pw_sim_le; auto.
  - apply allpw_upd; auto. split; [eapply pw_sim_wf; eauto|auto].
Qed.

Lemma P1_new : forall J tp, pw_wf (new_pw tp) /\ Dp J (new_pw tp).
Proof.
  intros. split; [split; [simpl; auto|split; [constructor|simpl; contradiction]]|].
  split; simpl; [contradiction|discriminate].
Qed.

Lemma P1_add : forall J pw m pw' k sp,
  pw_wf pw /\ Dp J pw -> pw_open pw = true -> pw_add cfg pw m = (pw',k,sp) -> pw_wf pw' /\ Dp J pw'.
Proof.
  intros J pw m pw' k sp [W D] Ho H. split; [eapply pw_add_wf; eauto|].
  destruct (pw_add_spec _ _ _ _ _ H Ho) as (Etp & Eo & Ef & Es & _). eapply Dp_sim; eauto.
Qed.

Lemma Inv1_assign : forall pws calls J L c cl wg pws' wg' refs,
  Inv1 pws calls J L -> nth_error calls c = Some cl ->
  assign_all cfg pws wg (c_msgs cl) = (pws', wg', refs) ->
  Inv1 pws' (upd calls c (mkCall (c_g cl) (c_msgs cl) refs CWaiting)) J L.
Proof.
  intros pws calls J L c cl wg pws' wg' refs I Hc E. unfold assign_all in E.
  destruct (fold_assign_refs _ _ _ _ _ _ _ [] E eq_refl) as (Lr & Rr & Le).
  { intros i r Hi. destruct i; discriminate. }
  simpl in Lr, Rr.
  assert (A' : allpw (fun _ pw => pw_wf pw /\ Dp J pw) pws').
  { eapply (fold_assign_allpw (fun _ pw => pw_wf pw /\ Dp J pw)); [| |exact E|apply I].
    - intros; apply P1_new.
    - intros; eapply P1_add; eauto. }
  pose proof (Inv1_pws _ _ _ _ _ I Le A') as I'.
  eapply Inv1_calls; [exact I'|]. apply allpw_upd; [apply I'|]. split; simpl; auto.
Qed.

Lemma r_seen_none : forall r, r_seen r = None -> r_applied r = true.
Proof. destruct r; simpl; auto; discriminate. Qed.

Lemma after_attempt_none : forall n o, after_attempt cfg n o = PFinish None -> o = None.
Proof.
  intros n [e|]; simpl; auto. destruct (retriable cfg e); [destruct (S n <? maxAttempts cfg)|]; discriminate.
Qed.

Ltac step_destruct H :=
  repeat match type of H with
  | match ?x with _ => _ end = Some _ => (is_var x; destruct x) || destruct x eqn:?
  end; try discriminate H.

Lemma inv1_step : forall s l s', inv1 s -> step cfg s l = Some s' -> inv1 s'.
Proof.
  intros s l s' I H. unfold inv1 in *.
  destruct l; unfold step in H; step_destruct H; inv H;
    unfold with_pw_done, with_pw, ret_call, add_call; cbn [s_pws s_calls s_journal s_log].
  - (* Call: closed *)
    eapply Inv1_calls; [exact I|]. apply allpw_snoc; [apply I|].
    split; [intros i r Hi; destruct i; discriminate|simpl; auto].
  - eapply Inv1_calls; [exact I|]. apply allpw_snoc; [apply I|].
    split; [intros i r Hi; destruct i; discriminate|simpl; auto].
    split; auto. intros _. exists []. auto.
  - eapply Inv1_calls; [exact I|]. apply allpw_snoc; [apply I|].
    split; [intros i r Hi; destruct i; discriminate|simpl; auto].
  - eapply Inv1_calls; [exact I|]. apply allpw_snoc; [apply I|].
    split; [intros i r Hi; destruct i; discriminate|simpl; auto].
  - (* Assign *) eapply Inv1_assign; eauto.
  - (* Timer *)
    match goal with E : nth_error (s_pws s) ?p = Some ?pw |- _ =>
      destruct (timer_pw_sim pw k) as (S & F & Sn); [apply (proj1 I _ _ E)|];
      eapply (Inv1_upd_sim _ _ _ _ p pw (timer_pw pw k)); eauto end.
  - (* Get *)
    match goal with E : nth_error (s_pws s) ?p = Some ?pw, Es : pw_snd ?pw = None, Eq : pw_queue ?pw = _ |- _ =>
      destruct (proj1 I _ _ E) as [W D]; eapply Inv1_upd_gen; eauto;
      [split; [reflexivity|split; [unfold pw_all; simpl; rewrite Es, Eq; reflexivity|split; [reflexivity|apply W]]]
      |exists []; rewrite app_nil_r; reflexivity
      |split; simpl; [apply D|]] end.
    destruct Hok as [_ Hm]. replace (0 <? maxAttempts cfg) with true by (symmetry; apply Nat.ltb_lt; lia).
    intros; discriminate.
  - (* SenderExit *)
    match goal with E : nth_error (s_pws s) ?p = Some ?pw, Es : pw_snd ?pw = None, Eq : pw_queue ?pw = [],
                    Eo : pw_open ?pw = false |- _ =>
      destruct (proj1 I _ _ E) as [W D]; eapply Inv1_upd_sim; [exact I|exact E| | |];
      [split; [reflexivity|split; [unfold pw_all; simpl; rewrite Es, Eq; reflexivity
                                  |split; [reflexivity|intros _; apply W; exact Eo]]]
      |reflexivity|simpl; auto] end.
  - (* Attempt *)
    match goal with E : nth_error (s_pws s) ?p = Some ?pw, Es : pw_snd ?pw = Some (mkSnd ?b ?n _) |- _ =>
      pose proof (Inv1_journal _ _ _ _ (mkAtt p (b_k b) (pw_tp pw) (b_msgs b) (r_applied r) (r_seen r)) I) as I';
      cbn [a_applied a_tp a_msgs] in I';
      destruct (proj1 I' _ _ E) as [W D]; eapply Inv1_upd_gen; eauto;
      [split; [reflexivity|split; [unfold pw_all; simpl; rewrite Es; reflexivity|split; [reflexivity|apply W]]]
      |exists []; rewrite app_nil_r; reflexivity
      |split; simpl; [apply D|]] end.
    intros b0 n0 E0. inv E0.
    match goal with E0 : after_attempt _ _ _ = _ |- _ => apply after_attempt_none in E0; rename E0 into Hs end.
    eexists. split; [apply in_app_iff; right; left; reflexivity|]. simpl.
    repeat split; auto. apply r_seen_none; auto.
  - (* BackoffDone *)
    match goal with E : nth_error (s_pws s) ?p = Some ?pw, Es : pw_snd ?pw = Some _ |- _ =>
      destruct (proj1 I _ _ E) as [W D]; eapply Inv1_upd_gen; eauto;
      [split; [reflexivity|split; [unfold pw_all; simpl; rewrite Es; reflexivity|split; [reflexivity|apply W]]]
      |exists []; rewrite app_nil_r; reflexivity
      |split; simpl; [apply D|intros; discriminate]] end.
  - (* Finish *)
    match goal with E : nth_error (s_pws s) ?p = Some ?pw, Es : pw_snd ?pw = Some _ |- _ =>
      destruct (proj1 I _ _ E) as [W D]; eapply Inv1_upd_gen; eauto;
      [split; [reflexivity|split; [unfold pw_all; simpl; rewrite Es, map_app; simpl; rewrite <- app_assoc; reflexivity
                                  |split; [reflexivity|apply W]]]
      |eexists; reflexivity
      |split; simpl; [|intros; discriminate]] end.
    intros b0 Hb. apply in_app_iff in Hb. destruct Hb as [Hb|[Hb|[]]]; [apply D; auto|].
    inv Hb. eapply (proj2 D); eauto.
  - (* Return, async *)
    match goal with E : nth_error (s_calls s) ?c = Some ?cl, Ep : c_ph ?cl = CWaiting |- _ =>
      pose proof (proj1 (proj2 I) _ _ E) as [R Ph]; rewrite Ep in Ph;
      eapply Inv1_calls; [exact I|]; apply allpw_upd; [apply I|]; split; simpl; auto end.
    split; auto. intros; congruence.
  - (* Return, sync *)
    match goal with E : nth_error (s_calls s) ?c = Some ?cl, Ep : c_ph ?cl = CWaiting |- _ =>
      pose proof (proj1 (proj2 I) _ _ E) as [R Ph]; rewrite Ep in Ph;
      eapply Inv1_calls; [exact I|]; apply allpw_upd; [apply I|]; split; simpl; auto end.
    match goal with |- context[forallb is_none ?es] => destruct (forallb is_none es) eqn:Ef end; eauto.
  - (* CtxDone *)
    match goal with E : nth_error (s_calls s) ?c = Some ?cl, Ep : c_ph ?cl = CWaiting |- _ =>
      pose proof (proj1 (proj2 I) _ _ E) as [R Ph]; rewrite Ep in Ph;
      eapply Inv1_calls; [exact I|]; apply allpw_upd; [apply I|]; split; simpl; auto end.
  - (* CloseMark *)
    eapply Inv1_pws; [exact I| |].
    + intros p pw Hp. exists (close_pw pw). split; [apply map_nth_error; auto|].
      destruct (close_pw_sim pw) as (S & F & Sn); [apply (proj1 I _ _ Hp)|].
      apply pw_sim_le; auto. exists []. rewrite app_nil_r; auto.
    + intros p pw' Hp. apply nth_error_map_inv in Hp. destruct Hp as (pw & Hp & ->).
      destruct (proj1 I _ _ Hp) as [W D].
      destruct (close_pw_sim pw W) as (S & F & Sn).
      split; [eapply pw_sim_wf; eauto|]. destruct S as (T & _). eapply Dp_sim; eauto.
  - (* CloseWaitDone *) exact I.
Qed.

Lemma inv1_init : inv1 init.
Proof.
  split; [|split]; intros x y H; simpl in H; try contradiction; exfalso; eapply nth_error_nil; exact H.
Qed.

Lemma inv1_runs : forall ls s, runs cfg ls s -> inv1 s.
Proof. apply runs_inv; [apply inv1_init|apply inv1_step]. Qed.


Lemma finished_ref : forall J pws ms refs i r o,
  allpw (fun _ pw => pw_wf pw /\ Dp J pw) pws -> refs_ok pws ms refs ->
  nth_error refs i = Some r -> batch_result pws r = Some o ->
  exists m pw b, nth_error ms i = Some m /\ nth_error pws (fst r) = Some pw /\
    pw_tp pw = tp_of cfg m /\ In (b,o) (pw_fin pw) /\ b_k b = snd r /\ In m (b_msgs b).
Proof.
  intros J pws ms refs i r o A R Hr Hb. destruct r as [p k].
  destruct (R _ _ Hr) as (m & pw & Hm & Hp & Ht & (b & Hin & Hk & Hmb)). simpl in *.
  destruct (batch_result_fin _ _ _ _ Hb) as (pw' & b' & Hp' & Hf & Hk').
  rewrite Hp in Hp'. inv Hp'. destruct (A _ _ Hp) as [(W1 & W2 & W3) D].
  assert (b = b').
  { eapply (nodup_key_eq _ b_k); eauto.
    unfold pw_all. apply in_app_iff. left. apply in_map_iff. exists (b', o); auto. }
  subst. exists m, pw', b'. auto 10.
Qed.

End WithCfg.

Lemma C01_nil_means_logged_proof : stmt_C01_nil_means_logged.
Proof.
  intros cfg ls s Hok Hr Ha c cl Hc Hph m Hm.
  pose proof (inv1_runs cfg Hok _ _ Hr) as (A & B & C).
  destruct (B _ _ Hc) as [R Ph]. rewrite Hph in Ph. destruct Ph as [Hl He].
  destruct (He Ha) as (es & E1 & E2).
  apply In_nth_error in Hm. destruct Hm as (i & Hi).
  assert (Hlt : i < length (c_refs cl)) by (rewrite Hl; apply nth_error_Some; congruence).
  destruct (nth_error (c_refs cl) i) as [r|] eqn:Er; [|apply nth_error_None in Er; lia].
  destruct (all_results_nth _ _ _ E1) as [Le N]. destruct (N _ _ Er) as (o & Ho & Hb).
  assert (o = None).
  { apply nth_error_In in Ho. rewrite forallb_forall in E2. specialize (E2 _ Ho).
    destruct o; [discriminate|auto]. }
  subst o.
  destruct (finished_ref cfg _ _ _ _ _ _ _ A R Er Hb) as (m' & pw & b & Hm' & Hp & Ht & Hf & Hk & Hin).
  rewrite Hi in Hm'. inv Hm'.
  destruct (A _ _ Hp) as [W [D1 D2]]. destruct (D1 _ Hf) as (a & Ha1 & Ha2 & Ha3 & Ha4 & Ha5).
  split.
  - exists a. rewrite Ha4, Ha5. auto 10.
  - unfold log_of. apply in_map_iff. exists (tp_of cfg m', m'). split; auto. apply filter_In. split.
    + rewrite <- Ht, <- Ha5. apply C; auto. rewrite Ha4; auto.
    + simpl. apply tp_eqb_refl.
Qed.

Print Assumptions C01_nil_means_logged_proof.

(* a call that returned WriteErrors: what each position of the error list refers to *)
Lemma we_entry : forall cfg ls s, cfg_ok cfg -> runs cfg ls s ->
  forall c cl we, nth_error (s_calls s) c = Some cl -> c_ph cl = CReturned (RWriteErrors we) ->
  length we = length (c_msgs cl) /\ forallb is_none we = false /\
  forall i m o, nth_error (c_msgs cl) i = Some m -> nth_error we i = Some o ->
    exists p pw b, nth_error (c_refs cl) i = Some (p, b_k b) /\ nth_error (s_pws s) p = Some pw /\
      pw_tp pw = tp_of cfg m /\ In (b,o) (pw_fin pw) /\ In m (b_msgs b).
Proof.
  intros cfg ls s Hok Hr c cl we Hc Hph.
  pose proof (inv1_runs cfg Hok _ _ Hr) as (A & B & C).
  destruct (B _ _ Hc) as [R Ph]. rewrite Hph in Ph. destruct Ph as (Hl & E1 & E2).
  destruct (all_results_nth _ _ _ E1) as [Le N].
  split; [congruence|]. split; auto.
  intros i m o Hi Ho.
  assert (Hlt : i < length (c_refs cl)) by (rewrite Hl; apply nth_error_Some; congruence).
  destruct (nth_error (c_refs cl) i) as [r|] eqn:Er; [|apply nth_error_None in Er; lia].
  destruct (N _ _ Er) as (o' & Ho' & Hb). rewrite Ho in Ho'. inv Ho'.
  destruct (finished_ref cfg _ _ _ _ _ _ _ A R Er Hb) as (m' & pw & b & Hm' & Hp & Ht & Hf & Hk & Hin).
  rewrite Hi in Hm'. inv Hm'. destruct r as [p k]. simpl in *. subst k.
  exists p, pw, b. auto 10.
Qed.

Lemma forallb_is_none_false : forall (we : list (option err)), forallb is_none we = false ->
  exists i e, nth_error we i = Some (Some e).
Proof.
  induction we as [|[e|] we IH]; simpl; intros H; [discriminate| |].
  - exists 0, e. reflexivity.
  - destruct (IH H) as (i & e & Hi). exists (S i), e. exact Hi.
Qed.

(* everything of stmt_C01_write_errors_exact except: acked_attempt -> o = None, and
   last_attempt_seen *)
Lemma C01_write_errors_exact_partial_proof :
  forall cfg ls s, cfg_ok cfg -> runs cfg ls s ->
  forall c cl we, nth_error (s_calls s) c = Some cl -> c_ph cl = CReturned (RWriteErrors we) ->
    length we = length (c_msgs cl) /\
    (exists i e, nth_error we i = Some (Some e)) /\
    forall i m o, nth_error (c_msgs cl) i = Some m -> nth_error we i = Some o ->
      (o = None -> acked_attempt cfg s m).
Proof.
  intros cfg ls s Hok Hr c cl we Hc Hph.
  destruct (we_entry cfg ls s Hok Hr c cl we Hc Hph) as (Hl & Hf & He).
  split; auto. split; [apply forallb_is_none_false; auto|].
  intros i m o Hi Ho ->. destruct (He _ _ _ Hi Ho) as (p & pw & b & Er & Hp & Ht & Hfin & Hin).
  pose proof (inv1_runs cfg Hok _ _ Hr) as (A & B & C).
  destruct (A _ _ Hp) as [W [D1 D2]]. destruct (D1 _ Hfin) as (a & Ha1 & Ha2 & Ha3 & Ha4 & Ha5).
  exists a. rewrite Ha4, Ha5. auto 10.
Qed.
