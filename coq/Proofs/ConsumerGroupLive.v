(* Proofs/ConsumerGroupLive.v — history theorems of the ConsumerGroup model:
   one live generation (mon_one_live) and heartbeats (mon_heartbeat) hold on every run. *)
From Coq Require Import List ZArith Bool Arith Lia ZifyNat ZifyBool.
From KV Require Import Model.ConsumerGroup Proofs.ConsumerGroupBase Proofs.ConsumerGroupAcc.
Import ListNotations.

(* ================= links between the ghost history and the state ================= *)
Definition untracked (e : event) : bool :=
  match e with HStart _ _ _ | HFnRet _ _ | HNextRet _ _ | HGenNew _ _ => false | _ => true end.

Record HL (gs : list gen) (fs : list fn) (p : pcs) (h : list event) : Prop := {
  hl_start : forall k f a, In (HStart k f a) h ->
             exists fn, nth_error fs f = Some fn /\ f_gen fn = k /\ f_acc fn = a;
  hl_start' : forall i f, nth_error fs i = Some f -> In (HStart (f_gen f) i (f_acc f)) h;
  hl_ret' : forall i f, nth_error fs i = Some f -> f_st f <> FRunning -> In (HFnRet (f_gen f) i) h;
  hl_ret : forall k i, In (HFnRet k i) h -> exists f, nth_error fs i = Some f /\ f_st f <> FRunning;
  hl_next : forall n j, In (HNextRet n j) h -> j < length gs;
  hl_new : forall j m, In (HGenNew j m) h -> j < length gs;
  hl_new' : forall k g, nth_error gs k = Some g -> In (HGenNew k (g_mid g)) h;
  hl_exit : forall x m, In (HRunExit x m) h -> p = PExited }.

Lemma HL_ev : forall gs fs p h e, HL gs fs p h -> untracked e = true ->
  (ev_is_runexit e = true -> p = PExited) -> HL gs fs p (e :: h).
Proof.
  intros gs fs p h e [A B C D E F G I] U X. constructor.
  - intros k f a [Y|Y]; [subst e; discriminate U|eauto].
  - intros; right; eauto.
  - intros; right; eauto.
  - intros k i [Y|Y]; [subst e; discriminate U|eauto].
  - intros n j [Y|Y]; [subst e; discriminate U|eauto].
  - intros j m [Y|Y]; [subst e; discriminate U|eauto].
  - intros; right; eauto.
  - intros x m [Y|Y]; [subst e; apply X; reflexivity|eauto].
Qed.

Lemma HL_pc : forall gs fs p p' h, HL gs fs p h -> (p = PExited -> p' = PExited) -> HL gs fs p' h.
Proof. intros gs fs p p' h [A B C D E F G I] X. constructor; eauto. Qed.

Lemma boring_untracked : forall e, boring e = true -> untracked e = true.
Proof. intros []; cbn; intro; try discriminate; reflexivity. Qed.

Lemma HL_ext : forall gs fs p s' h h', HL gs fs p h -> (p = PExited -> pc s' = PExited) ->
  ext (evP s') h h' -> HL gs fs (pc s') h'.
Proof.
  intros gs fs p s' h h' H X E. induction E as [|e h' [Pb Pr] _ IH].
  - eapply HL_pc; eauto.
  - apply HL_ev; auto using boring_untracked.
Qed.

Lemma HL_gens : forall gs gs' fs p h, HL gs fs p h -> length gs' = length gs ->
  (forall k g', nth_error gs' k = Some g' -> exists g, nth_error gs k = Some g /\ g_mid g = g_mid g') ->
  HL gs' fs p h.
Proof.
  intros gs gs' fs p h [A B C D E F G I] L M. constructor; rewrite ?L; eauto.
  intros k g' Hk. destruct (M _ _ Hk) as (g & Eg & Em). rewrite <- Em. eauto.
Qed.

Lemma HL_gens_upd : forall gs fs p h k g g', HL gs fs p h -> nth_error gs k = Some g ->
  g_mid g' = g_mid g -> HL (upd k g' gs) fs p h.
Proof.
  intros gs fs p h k g g' H Hk Em. eapply HL_gens; eauto using upd_length.
  intros k' g0 H0. destruct (nth_upd_cases _ _ _ _ _ _ _ Hk H0) as [[-> ->]|[N H0']]; eauto.
Qed.

Lemma HL_start_gens : forall gs fs p h k g, HL gs fs p h -> nth_error gs k = Some g ->
  HL (start_gens k g gs) fs p h.
Proof.
  intros gs fs p h k g H Hk. eapply HL_gens; eauto using sg_length.
  intros k' g0 H0. destruct (sg_nth _ _ _ _ _ Hk H0) as [O|(-> & _ & ->)]; eauto.
Qed.

Lemma HL_start : forall gs fs p h k kd a, HL gs fs p h ->
  HL gs (fs ++ [mkfn k kd a FRunning false]) p (HStart k (length fs) a :: h).
Proof.
  intros gs fs p h k kd a [A B C D E F G I]. constructor.
  - intros k0 f0 a0 [Y|Y].
    + inversion Y; subst. eexists. split; [apply nth_snoc_new|]. split; reflexivity.
    + destruct (A _ _ _ Y) as (fn & Ef & X). exists fn. split; [apply nth_snoc_old; exact Ef|exact X].
  - intros i f Hf. apply nth_snoc in Hf. destruct Hf as [Hf|[-> ->]]; [right; eauto|left; reflexivity].
  - intros i f Hf N. apply nth_snoc in Hf. destruct Hf as [Hf|[-> ->]]; [right; eauto|].
    exfalso. apply N. reflexivity.
  - intros k0 i [Y|Y]; [discriminate Y|].
    destruct (D _ _ Y) as (f & Ef & X). exists f. split; [apply nth_snoc_old; exact Ef|exact X].
  - intros n j [Y|Y]; [discriminate Y|eauto].
  - intros j m [Y|Y]; [discriminate Y|eauto].
  - intros; right; eauto.
  - intros x m [Y|Y]; [discriminate Y|eauto].
Qed.

Lemma HL_newgen : forall gs fs p h m, HL gs fs p h ->
  HL (gs ++ [new_gen m]) fs p (HGenNew (length gs) m :: h).
Proof.
  intros gs fs p h m [A B C D E F G I].
  assert (L : length (gs ++ [new_gen m]) = S (length gs)) by (rewrite app_length; cbn [length]; lia).
  constructor; rewrite ?L.
  - intros k0 f0 a0 [Y|Y]; [discriminate Y|eauto].
  - intros; right; eauto.
  - intros; right; eauto.
  - intros k0 i [Y|Y]; [discriminate Y|eauto].
  - intros n j [Y|Y]; [discriminate Y|]. apply E in Y. lia.
  - intros j m0 [Y|Y]; [inversion Y; lia|]. apply F in Y. lia.
  - intros k g Hk. apply nth_snoc in Hk. destruct Hk as [Hk|[-> ->]]; [right; eauto|left; reflexivity].
  - intros x m0 [Y|Y]; [discriminate Y|eauto].
Qed.

Lemma HL_nextret : forall gs fs p h n j, HL gs fs p h -> j < length gs -> HL gs fs p (HNextRet n j :: h).
Proof.
  intros gs fs p h n j [A B C D E F G I] L. constructor.
  - intros k0 f0 a0 [Y|Y]; [discriminate Y|eauto].
  - intros; right; eauto.
  - intros; right; eauto.
  - intros k0 i [Y|Y]; [discriminate Y|eauto].
  - intros n0 j0 [Y|Y]; [inversion Y; subst; exact L|eauto].
  - intros j0 m0 [Y|Y]; [discriminate Y|eauto].
  - intros; right; eauto.
  - intros x m0 [Y|Y]; [discriminate Y|eauto].
Qed.

Lemma upd_fwd : forall A (l : list A) i f f' j x, nth_error l i = Some f -> nth_error l j = Some x ->
  exists x', nth_error (upd i f' l) j = Some x' /\ ((j = i /\ x = f /\ x' = f') \/ (j <> i /\ x' = x)).
Proof.
  intros A l i f f' j x Hi Hj. destruct (Nat.eq_dec j i) as [e|e].
  - subst j. exists f'. split; [eapply nth_upd_eq; eauto|]. left. repeat split; congruence.
  - exists x. split; [rewrite nth_error_upd_other by auto; exact Hj|]. right; auto.
Qed.

Lemma HL_fn_upd : forall gs fs p h h' i f f', HL gs fs p h -> nth_error fs i = Some f ->
  f_gen f' = f_gen f -> f_acc f' = f_acc f ->
  (f_st f <> FRunning -> f_st f' <> FRunning) ->
  ((h' = h /\ (f_st f' <> FRunning -> f_st f <> FRunning)) \/
   (h' = HFnRet (f_gen f) i :: h /\ f_st f' <> FRunning)) ->
  HL gs (upd i f' fs) p h'.
Proof.
  intros gs fs p h h' i f f' [A B C D E F G I] Hf Eg Ea Hs Hh.
  assert (Inc : forall e, In e h -> In e h').
  { destruct Hh as [[-> _]|[-> _]]; intros; [assumption|right; assumption]. }
  assert (Old : forall e, In e h' -> In e h \/ (e = HFnRet (f_gen f) i /\ f_st f' <> FRunning)).
  { destruct Hh as [[-> _]|[-> X]]; intros e Y; [left; exact Y|]. destruct Y as [Y|Y]; auto. }
  constructor.
  - intros k0 f0 a0 Y. apply Old in Y. destruct Y as [Y|[Y _]]; [|discriminate Y].
    destruct (A _ _ _ Y) as (fn & Ef & X1 & X2).
    destruct (upd_fwd _ _ _ _ f' _ _ Hf Ef) as (x' & Ex & Cs); exists x'.
    split; [exact Ex|]. destruct Cs as [(-> & -> & ->)|(N & ->)]; [split; congruence|auto].
  - intros j x Hj. apply Inc.
    destruct (nth_upd_cases _ _ _ _ _ _ _ Hf Hj) as [[-> ->]|[N Hj']]; [rewrite Eg, Ea|]; eauto.
  - intros j x Hj N.
    destruct (nth_upd_cases _ _ _ _ _ _ _ Hf Hj) as [[-> ->]|[N' Hj']]; [|apply Inc; eauto].
    rewrite Eg. destruct Hh as [[-> X]|[-> X]]; [apply C; auto|left; reflexivity].
  - intros k0 j Y. apply Old in Y. destruct Y as [Y|[Y X]].
    + destruct (D _ _ Y) as (fn & Ef & X).
      destruct (upd_fwd _ _ _ _ f' _ _ Hf Ef) as (x' & Ex & Cs); exists x'.
      split; [exact Ex|]. destruct Cs as [(-> & -> & ->)|(N & ->)]; auto.
    + inversion Y; subst. exists f'. split; [eapply nth_upd_eq; eauto|exact X].
  - intros n j Y. apply Old in Y. destruct Y as [Y|[Y _]]; [eauto|discriminate Y].
  - intros j m Y. apply Old in Y. destruct Y as [Y|[Y _]]; [eauto|discriminate Y].
  - intros; apply Inc; eauto.
  - intros x m Y. apply Old in Y. destruct Y as [Y|[Y _]]; [eauto|discriminate Y].
Qed.

Definition HLs (s : state) : Prop := HL (gens s) (fns s) (pc s) (hist s).

Lemma HL_shape : forall s s', shape s s' -> HLs s -> HLs s'.
Proof.
  unfold HLs. intros s s' Sh H. inv_shape Sh; rewrite ?Hg, ?Hf.
  - eapply HL_ext; eauto.
  - rewrite Hh, Hpc'. eapply HL_pc; [apply HL_newgen; apply HL_ev; [exact H|reflexivity|discriminate]|].
    rewrite Hpc. discriminate.
  - rewrite Hh. fold (start_gens k g (gens s)).
    eapply HL_pc; [apply HL_start_gens; [apply HL_start; exact H|exact Hk]|].
    destruct Hctx as [(_ & _ & E) | [(_ & _ & E & _) | (_ & _ & n & E & _)]]; rewrite E; try discriminate; auto.
  - rewrite Hh. eapply HL_pc; [eapply HL_gens_upd; [apply HL_nextret; [exact H|]|exact Hk|reflexivity]|].
    + eapply nth_lt; eauto.
    + rewrite Hpc. discriminate.
  - eapply HL_ext; [eapply HL_gens_upd; [|exact Hk|apply cg_mid]| |exact Hh].
    + destruct (g_closed g); [exact H|]. apply HL_ev; [exact H|reflexivity|discriminate].
    + rewrite Hpc. discriminate.
  - eapply HL_ext; eauto. rewrite Hpc. discriminate.
  - rewrite Hpc. destruct Hh as [Hh|(_ & g & Eg & Hh)]; rewrite Hh.
    + eapply HL_fn_upd; [exact H|exact Hi|reflexivity|reflexivity|intro X; congruence|].
      right. split; [reflexivity|]. cbn [f_set_st f_st]. destruct (f_acc f); discriminate.
    + eapply (HL_fn_upd _ _ _ (HHeartbeat (f_gen f) i (g_mid g) :: hist s));
        [apply HL_ev; [exact H|reflexivity|discriminate]|exact Hi
                        |reflexivity|reflexivity|intro X; congruence|].
      right. split; [reflexivity|]. cbn [f_set_st f_st]. destruct (f_acc f); discriminate.
  - rewrite Hh, Hpc. apply HL_ev; [exact H|reflexivity|discriminate].
  - rewrite Hh, Hpc. eapply HL_fn_upd; [exact H|exact Hi|reflexivity|reflexivity|auto|].
    left. split; [reflexivity|auto].
  - rewrite Hpc.
    eapply (HL_fn_upd _ _ _ (hist s') (hist s'));
      [eapply HL_gens_upd; [|exact Hk|cbn [dec_gen g_mid]; apply cg_mid]|exact Hi
      |reflexivity|reflexivity|cbn [f_set_st f_st]; discriminate|].
    + rewrite Hh. destruct (g_routines g - 1 =? 0)%Z, (g_closed g); cbn [app];
        repeat (apply HL_ev; [|reflexivity|discriminate]); exact H.
    + left. split; [reflexivity|]. intros _. rewrite Hst. discriminate.
Qed.

Lemma HLs_init : forall w, HLs (init w).
Proof.
  intro w. constructor; cbn; try (intros; contradiction).
  - intros [|i] f H; discriminate H.
  - intros [|i] f H; discriminate H.
  - intros [|i] f H; discriminate H.
Qed.

(* ================= the monitors ================= *)
Lemma negb_existsb : forall A (p : A -> bool) l,
  (forall e, In e l -> p e = true -> False) -> negb (existsb p l) = true.
Proof.
  intros A p l H. destruct (existsb p l) eqn:E; [|reflexivity].
  apply existsb_exists in E. destruct E as (e & I & X). exfalso. eauto.
Qed.

Lemma hb_chk : forall s i f g, Inv s -> HLs s ->
  nth_error (fns s) i = Some f -> f_st f = FRunning -> is_hb f = true ->
  nth_error (gens s) (f_gen f) = Some g ->
  chk_heartbeat (HHeartbeat (f_gen f) i (g_mid g)) (hist s) = true.
Proof.
  intros s i f g [P [H1 H2] B] L Hf Hs Hb Hk.
  assert (Ha : f_acc f = true) by (apply (g2_acc _ _ _ B f); [eapply nth_error_In; eauto|exact Hb]).
  assert (Lv : live_of (f_gen f) f = true).
  { unfold live_of, acc_of. rewrite Nat.eqb_refl, Ha, Hs. reflexivity. }
  pose proof (count_live_pos _ _ _ _ Hf Lv) as Pos.
  destruct (H2 _ _ Hk) as (_ & R & _).
  assert (Q : quiescent (pc s) = false).
  { destruct (quiescent (pc s)) eqn:Q; [|reflexivity].
    destruct (g2_q _ _ _ B Q _ _ Hk) as [_ X]. lia. }
  destruct (g2_nq _ _ _ B Q) as [NE Hlt].
  assert (Kc : f_gen f = pred (length (gens s))).
  { apply nth_lt in Hk as Hk'. destruct (lt_dec (f_gen f) (pred (length (gens s)))) as [X|X]; [|lia].
    destruct (Hlt _ _ Hk X) as [_ Y]. lia. }
  unfold chk_heartbeat. repeat (apply andb_true_iff; split).
  - apply existsb_exists. exists (HStart (f_gen f) i true). split.
    + rewrite <- Ha. apply (hl_start' _ _ _ _ L). exact Hf.
    + cbn. rewrite !Nat.eqb_refl. reflexivity.
  - apply negb_existsb. intros e I X. destruct e; try discriminate X. cbn in X.
    apply andb_true_iff in X. destruct X as [X1 X2]. apply Nat.eqb_eq in X1, X2. subst.
    destruct (hl_ret _ _ _ _ L _ _ I) as (fx & E0 & N). congruence.
  - apply existsb_exists. exists (HGenNew (f_gen f) (g_mid g)). split.
    + apply (hl_new' _ _ _ _ L). exact Hk.
    + cbn. rewrite !Nat.eqb_refl. reflexivity.
  - apply negb_existsb. intros e I X. destruct e; try discriminate X. cbn in X.
    apply Nat.ltb_lt in X. apply (hl_new _ _ _ _ L) in I. lia.
  - apply negb_existsb. intros e I X. destruct e; try discriminate X. cbn in X.
    apply Nat.ltb_lt in X. apply (hl_next _ _ _ _ L) in I. lia.
  - apply negb_existsb. intros e I X. destruct e; try discriminate X.
    apply (hl_exit _ _ _ _ L) in I. rewrite I in Q. discriminate Q.
Qed.

Lemma start_chk : forall s k g, Inv s -> HLs s -> nth_error (gens s) k = Some g -> g_closed g = false ->
  negb (existsb (ev_is_nextret_above k) (hist s)) = true.
Proof.
  intros s k g [P [H1 H2] B] L Hk Hc. apply negb_existsb. intros e I X.
  destruct e; try discriminate X. cbn in X. apply Nat.ltb_lt in X.
  apply (hl_next _ _ _ _ L) in I.
  destruct (quiescent (pc s)) eqn:Q.
  - destruct (g2_q _ _ _ B Q _ _ Hk) as [Y _]. congruence.
  - destruct (g2_nq _ _ _ B Q) as [_ Hlt]. destruct (Hlt _ _ Hk) as [Y _]; [lia|congruence].
Qed.

Lemma next_chk : forall s n, Inv s -> HLs s -> pc s = PPublish ->
  chk_one_live (HNextRet n (cur s)) (hist s) = true.
Proof.
  intros s n [P [H1 H2] B] L Epc. cbn [chk_one_live]. apply forallb_forall. intros e I.
  destruct e; try reflexivity. destruct acc; [|reflexivity].
  destruct (Nat.ltb_spec k (cur s)) as [Lt|Ge]; [|reflexivity].
  destruct (hl_start _ _ _ _ L _ _ _ I) as (fn & Ef & Eg & Ea).
  rewrite Epc in B. destruct (g2_nq _ _ _ B eq_refl) as [_ Hlt].
  destruct (H1 _ _ Ef) as (gk & Egk & _). rewrite Eg in Egk.
  destruct (Hlt _ _ Egk Lt) as [_ R]. destruct (H2 _ _ Egk) as (_ & R' & _).
  assert (Z0 : count_live k (fns s) = 0) by lia.
  pose proof (count_live_zero _ _ _ _ Z0 Ef) as Lv.
  unfold live_of, acc_of in Lv. rewrite Eg, Nat.eqb_refl, Ea in Lv. cbn [andb] in Lv.
  apply existsb_exists. exists (HFnRet k f). split.
  - rewrite <- Eg. apply (hl_ret' _ _ _ _ L _ _ Ef). destruct (f_st fn); discriminate.
  - cbn. rewrite !Nat.eqb_refl. reflexivity.
Qed.

Definition Mon (s : state) : Prop := mon_one_live (hist s) = true /\ mon_heartbeat (hist s) = true.

Lemma Mon_ext : forall s' h h', ext (evP s') h h' ->
  mon_one_live h = true /\ mon_heartbeat h = true ->
  mon_one_live h' = true /\ mon_heartbeat h' = true.
Proof.
  intros s' h h' E M. induction E as [|e h' [Pb _] _ [IH1 IH2]]; [exact M|].
  cbn [mon_one_live mon_heartbeat]. rewrite IH1, IH2.
  destruct e; try discriminate Pb; split; reflexivity.
Qed.

Lemma Mon_shape : forall s s', shape s s' -> Inv s -> HLs s -> Mon s -> Mon s'.
Proof.
  unfold Mon. intros s s' Sh I L [M1 M2]. inv_shape Sh.
  - eapply Mon_ext; eauto.
  - rewrite Hh. cbn. rewrite M1, M2. split; reflexivity.
  - rewrite Hh. cbn [mon_one_live mon_heartbeat chk_heartbeat]. rewrite M1, M2.
    split; [|reflexivity]. rewrite andb_true_r.
    destruct (g_closed g) eqn:Ec; cbn [negb chk_one_live]; [reflexivity|].
    eapply start_chk; eauto.
  - rewrite Hh. cbn [mon_one_live mon_heartbeat chk_heartbeat]. rewrite M1, M2.
    split; [|reflexivity]. rewrite andb_true_r. apply next_chk; assumption.
  - eapply Mon_ext; [exact Hh|]. destruct (g_closed g); [auto|].
    cbn. rewrite M1, M2. split; reflexivity.
  - eapply Mon_ext; eauto.
  - destruct Hh as [Hh|(Hb & g & Eg & Hh)]; rewrite Hh.
    + cbn. rewrite M1, M2. split; reflexivity.
    + cbn [mon_one_live mon_heartbeat]. rewrite M1, M2.
      rewrite (hb_chk s i f g) by auto. cbn. split; reflexivity.
  - rewrite Hh. cbn [mon_one_live mon_heartbeat]. rewrite M1, M2.
    rewrite (hb_chk s i f g) by auto. cbn. split; reflexivity.
  - rewrite Hh. auto.
  - rewrite Hh. destruct (g_routines g - 1 =? 0)%Z, (g_closed g); cbn; rewrite M1, M2; split; reflexivity.
Qed.

Record Full (s : state) : Prop := { full_inv : Inv s; full_hl : HLs s; full_mon : Mon s }.

Lemma Full_run : forall w ls s, run (init w) ls = Some s -> Full s.
Proof.
  intros w ls s H. eapply (inv_run Full); [| |exact H].
  - constructor; [apply Inv_init|apply HLs_init|split; reflexivity].
  - intros s1 l s2 [I L M] E. pose proof (Inv_step _ _ _ I E) as I'.
    apply step_shape in E. destruct E as [_ Sh].
    constructor; [exact I'|eapply HL_shape; eauto|eapply Mon_shape; eauto].
Qed.

(* ---- C: one live generation ---- *)
Theorem one_live_holds : forall w ls s, run (init w) ls = Some s -> mon_one_live (hist s) = true.
Proof. intros w ls s H. apply Full_run in H. destruct H as [_ _ [M _]]. exact M. Qed.

Lemma mon_one_live_spec : forall h, mon_one_live h = true ->
  forall post n j pre, h = post ++ HNextRet n j :: pre ->
  forall k f, k < j -> In (HStart k f true) h -> In (HFnRet k f) pre.
Proof.
  intros h M post. revert h M. induction post as [|e post IH]; intros h M n j pre E k f Lt I; subst h.
  - cbn [app mon_one_live chk_one_live] in M. apply andb_true_iff in M. destruct M as [C _].
    destruct I as [I|I]; [discriminate I|].
    rewrite forallb_forall in C. specialize (C _ I). cbv beta iota in C.
    apply Nat.ltb_lt in Lt. rewrite Lt in C.
    apply existsb_exists in C. destruct C as (e & Ie & X). destruct e; try discriminate X.
    cbn in X. apply andb_true_iff in X. destruct X as [X1 X2]. apply Nat.eqb_eq in X1, X2. subst. exact Ie.
  - cbn [app mon_one_live] in M. apply andb_true_iff in M. destruct M as [C M].
    cbn [app] in I. destruct I as [I|I].
    + subst e. cbn [chk_one_live] in C. exfalso.
      apply negb_true_iff in C. assert (X : existsb (ev_is_nextret_above k) (post ++ HNextRet n j :: pre) = true).
      { apply existsb_exists. exists (HNextRet n j). split; [apply in_or_app; right; left; reflexivity|].
        cbn. apply Nat.ltb_lt. exact Lt. }
      congruence.
    + eapply IH; eauto.
Qed.

(* ---- D: heartbeats ---- *)
Theorem heartbeat_holds : forall w ls s, run (init w) ls = Some s -> mon_heartbeat (hist s) = true.
Proof. intros w ls s H. apply Full_run in H. destruct H as [_ _ [_ M]]. exact M. Qed.

(* ================= E: cancel on end, as a monitor (mon_done) ================= *)
Definition not_done (e : event) : bool := match e with HDone _ => false | _ => true end.

Record HD (gs : list gen) (h : list event) : Prop := {
  hd_done : forall k g, nth_error gs k = Some g -> g_done g = true -> In (HDone k) h;
  hd_done' : forall k, In (HDone k) h -> exists g, nth_error gs k = Some g /\ g_done g = true }.

Lemma HD_ev : forall gs h e, HD gs h -> not_done e = true -> HD gs (e :: h).
Proof.
  intros gs h e [A B] N. constructor.
  - intros; right; eauto.
  - intros k [Y|Y]; [subst e; discriminate N|eauto].
Qed.

Lemma HD_ext : forall gs s' h h', ext (evP s') h h' -> HD gs h -> HD gs h'.
Proof.
  intros gs s' h h' E H. induction E as [|e h' [Pb _] _ IH]; [exact H|].
  apply HD_ev; [exact IH|]. destruct e; try discriminate Pb; reflexivity.
Qed.

Lemma HD_gens : forall gs gs' h, HD gs h ->
  (forall k g', nth_error gs' k = Some g' -> exists g, nth_error gs k = Some g /\ g_done g' = g_done g) ->
  (forall k g, nth_error gs k = Some g -> exists g', nth_error gs' k = Some g' /\ g_done g' = g_done g) ->
  HD gs' h.
Proof.
  intros gs gs' h [A B] F G. constructor.
  - intros k g' Hk D. destruct (F _ _ Hk) as (g & Eg & Ed). eapply A; [exact Eg|congruence].
  - intros k I. destruct (B _ I) as (g & Eg & Ed). destruct (G _ _ Eg) as (g' & Eg' & Ed').
    exists g'. split; [exact Eg'|congruence].
Qed.

Lemma HD_gens_upd : forall gs h k g g', HD gs h -> nth_error gs k = Some g -> g_done g' = g_done g ->
  HD (upd k g' gs) h.
Proof.
  intros gs h k g g' H Hk Ed. eapply HD_gens; eauto.
  - intros k' g0 H0. destruct (nth_upd_cases _ _ _ _ _ _ _ Hk H0) as [[-> ->]|[N H0']]; eauto.
  - intros k' g0 H0. destruct (Nat.eq_dec k k') as [e|e].
    + subst k'. exists g'. split; [eapply nth_upd_eq; eauto|congruence].
    + exists g0. rewrite nth_error_upd_other by exact e. auto.
Qed.

Lemma HD_start_gens : forall gs h k g, HD gs h -> nth_error gs k = Some g -> HD (start_gens k g gs) h.
Proof.
  intros gs h k g H Hk. unfold start_gens. destruct (g_closed g); [exact H|].
  eapply HD_gens_upd; eauto.
Qed.

Lemma HD_newgen : forall gs h m, HD gs h -> HD (gs ++ [new_gen m]) h.
Proof.
  intros gs h m [A B]. constructor.
  - intros k g Hk D. apply nth_snoc in Hk. destruct Hk as [Hk|[-> ->]]; [eauto|discriminate D].
  - intros k I. destruct (B _ I) as (g & Eg & Ed). exists g. split; [apply nth_snoc_old; exact Eg|exact Ed].
Qed.

Lemma HD_close : forall gs h k g g', HD gs h -> nth_error gs k = Some g ->
  g_closed g = g_done g -> g_done g' = true ->
  HD (upd k g' gs) (if g_closed g then h else HDone k :: h).
Proof.
  intros gs h k g g' [A B] Hk Ec Ed. constructor.
  - intros k' g0 H0 D. destruct (nth_upd_cases _ _ _ _ _ _ _ Hk H0) as [[-> ->]|[N H0']].
    + destruct (g_closed g) eqn:C; [eapply A; [exact Hk|congruence]|left; reflexivity].
    + destruct (g_closed g); [|right]; eauto.
  - intros k' I.
    assert (X : k' = k \/ In (HDone k') h).
    { destruct (g_closed g); [right; exact I|]. destruct I as [I|I]; [inversion I; left; reflexivity|right; exact I]. }
    destruct (Nat.eq_dec k k') as [e|e].
    + subst k'. exists g'. split; [eapply nth_upd_eq; eauto|exact Ed].
    + destruct X as [X|X]; [congruence|]. destruct (B _ X) as (g0 & E0 & D0).
      exists g0. rewrite nth_error_upd_other by exact e. auto.
Qed.

Lemma done_in : forall gs h k g, HD gs h -> nth_error gs k = Some g -> g_done g = true ->
  existsb (ev_is_done k) h = true.
Proof.
  intros gs h k g [A B] Hk D. apply existsb_exists. exists (HDone k).
  split; [eauto|]. cbn. apply Nat.eqb_refl.
Qed.

Lemma done_notin : forall gs h k g, HD gs h -> nth_error gs k = Some g -> g_done g = false ->
  negb (existsb (ev_is_done k) h) = true.
Proof.
  intros gs h k g [A B] Hk D. apply negb_existsb. intros e I X. destruct e; try discriminate X.
  cbn in X. apply Nat.eqb_eq in X. subst. destruct (B _ I) as (g0 & E0 & D0). congruence.
Qed.

Definition HDs (s : state) : Prop := HD (gens s) (hist s).

Lemma HD_shape : forall s s', shape s s' -> Inv s -> HDs s -> HDs s'.
Proof.
  unfold HDs. intros s s' Sh [P [H1 H2] B] H. inv_shape Sh; rewrite ?Hg.
  - eapply HD_ext; eauto.
  - rewrite Hh. apply HD_newgen. repeat (apply HD_ev; [|reflexivity]). exact H.
  - rewrite Hh. fold (start_gens k g (gens s)). apply HD_start_gens; [|exact Hk].
    apply HD_ev; [exact H|reflexivity].
  - rewrite Hh. eapply HD_gens_upd; [apply HD_ev; [exact H|reflexivity]|exact Hk|reflexivity].
  - destruct (H2 _ _ Hk) as (A & _). eapply HD_ext; [exact Hh|].
    apply HD_close; auto. apply cg_done. exact A.
  - eapply HD_ext; eauto.
  - destruct Hh as [Hh|(_ & g & Eg & Hh)]; rewrite Hh; repeat (apply HD_ev; [|reflexivity]); exact H.
  - rewrite Hh. apply HD_ev; [exact H|reflexivity].
  - rewrite Hh. exact H.
  - destruct (H2 _ _ Hk) as (A & _). rewrite Hh.
    assert (X : HD (upd (f_gen f) (dec_gen (closed_gen g)) (gens s))
                   (if g_closed g then hist s else HDone (f_gen f) :: hist s)).
    { apply HD_close; auto. cbn [dec_gen g_done]. apply cg_done. exact A. }
    destruct (g_routines g - 1 =? 0)%Z, (g_closed g); cbn [app];
      try (apply HD_ev; [|reflexivity]); exact X.
Qed.

Lemma Done_ext : forall s' h h', ext (evP s') h h' -> mon_done h = true -> mon_done h' = true.
Proof.
  intros s' h h' E M. induction E as [|e h' [Pb _] _ IH]; [exact M|].
  cbn [mon_done]. rewrite IH. destruct e; try discriminate Pb; reflexivity.
Qed.

Lemma Done_shape : forall s s', shape s s' -> Inv s -> HDs s -> mon_done (hist s) = true ->
  mon_done (hist s') = true.
Proof.
  unfold HDs. intros s s' Sh [P [H1 H2] B] H M. inv_shape Sh.
  - eapply Done_ext; eauto.
  - rewrite Hh. cbn [mon_done chk_done]. rewrite M, !andb_true_r.
    apply forallb_forall. intros k I. apply in_seq in I.
    destruct (nth_error (gens s) k) as [gk|] eqn:Ek; [|apply nth_error_None in Ek; lia].
    rewrite Hpc in B. destruct (g2_q _ _ _ B eq_refl _ _ Ek) as [C _].
    destruct (H2 _ _ Ek) as (A & _). cbn [existsb ev_is_done orb].
    eapply done_in; [exact H|eassumption|congruence].
  - rewrite Hh. cbn [mon_done]. rewrite M, andb_true_r.
    destruct (g_closed g) eqn:Ec; cbn [negb chk_done]; [|reflexivity].
    destruct (H2 _ _ Hk) as (A & _). eapply done_in; [exact H|eassumption|congruence].
  - rewrite Hh. cbn. exact M.
  - eapply Done_ext; [exact Hh|]. destruct (g_closed g) eqn:Ec; [exact M|].
    cbn [mon_done chk_done]. rewrite M, andb_true_r.
    destruct (H2 _ _ Hk) as (A & _). eapply done_notin; [exact H|eassumption|congruence].
  - eapply Done_ext; eauto.
  - destruct Hh as [Hh|(_ & g & Eg & Hh)]; rewrite Hh; cbn; exact M.
  - rewrite Hh. cbn. exact M.
  - rewrite Hh. exact M.
  - destruct (H2 _ _ Hk) as (A & _). rewrite Hh.
    destruct (g_routines g - 1 =? 0)%Z, (g_closed g) eqn:Ec; cbn [app mon_done chk_done]; rewrite M, ?andb_true_r.
    + eapply done_in; [exact H|eassumption|congruence].
    + cbn [existsb ev_is_done]. rewrite Nat.eqb_refl. cbn [orb andb].
      eapply done_notin; [exact H|eassumption|congruence].
    + reflexivity.
    + eapply done_notin; [exact H|eassumption|congruence].
Qed.

Theorem done_holds : forall w ls s, run (init w) ls = Some s -> mon_done (hist s) = true.
Proof.
  intros w ls s H.
  assert (G : Inv s /\ HDs s /\ mon_done (hist s) = true).
  { eapply (inv_run (fun s => Inv s /\ HDs s /\ mon_done (hist s) = true)); [| |exact H].
    - split; [apply Inv_init|]. split; [|reflexivity].
      constructor; cbn; [intros [|k] g X; discriminate X|intros k []].
    - intros s1 l s2 (I & D & M) E. pose proof (Inv_step _ _ _ I E) as I'.
      apply step_shape in E. destruct E as [_ Sh].
      split; [exact I'|]. split; [eapply HD_shape; eauto|eapply Done_shape; eauto]. }
  tauto.
Qed.
