(* Proofs/QueriesSeekMap.v — C19: Conn.Seek / readOffset and the user-level mappings
   (OffsetFetch, OffsetCommit, Metadata, ReadPartitions, ConsumerOffsets) of Model/Queries.v
   against the vocabulary of Proofs/QueriesSpec.v.  The list-offsets Split / Merge half of
   C19 is in Proofs/QueriesMerge.v. *)
From Coq Require Import List NArith ZArith Bool Lia Sorting.Permutation.
From Coq Require Import ZifyN ZifyNat ZifyBool.
From KV Require Import Lib.Bits Proofs.BitsLemmas Model.Queries Proofs.QueriesSpec.
Import ListNotations. Open Scope Z_scope.

(* ========================================================================= *)
(* int64 wrap                                                                *)

Lemma wrap64_id z : in_i64 z -> wrap64 z = z.
Proof.
  unfold in_i64, wrap64, ZM63, ZM64. intros H.
  rewrite Z.mod_small by lia. lia.
Qed.

(* one overflow past the top of the range *)
Lemma wrap64_high z : ZM63 <= z < ZM64 + ZM63 -> wrap64 z = z - ZM64.
Proof.
  unfold wrap64, ZM63, ZM64. intros H.
  replace (z + 9223372036854775808)
    with ((z - 9223372036854775808) + 1 * 18446744073709551616) by lia.
  rewrite Z.mod_add by lia. rewrite Z.mod_small by lia. lia.
Qed.

(* ========================================================================= *)
(* Conn.Seek                                                                 *)

(* Go's [offset < first || offset > last] against [first <= t <= last] *)
Lemma range_check_flip t f l (X : Type) (a b : X) :
  (if (t <? f) || (l <? t) then a else b) = (if (f <=? t) && (t <=? l) then b else a).
Proof.
  destruct (Z.ltb_spec t f), (Z.ltb_spec l t), (Z.leb_spec f t), (Z.leb_spec t l);
    cbn [orb andb]; try reflexivity; lia.
Qed.

(* the range check on the wrapped target agrees with the check on the unbounded target t,
   as long as t overflows at most once upwards: the wrapped value is then negative *)
Lemma seek_check_wrap t f l cur n :
  valid_offsets f l -> - ZM63 <= t < ZM64 ->
  (if (wrap64 t <? f) || (l <? wrap64 t)
   then mk_seek (SeekErr ErrOffsetOutOfRange) cur n
   else mk_seek (SeekOk (wrap64 t)) (wrap64 t) n) =
  (if (f <=? t) && (t <=? l)
   then mk_seek (SeekOk t) t n
   else mk_seek (SeekErr ErrOffsetOutOfRange) cur n).
Proof.
  unfold valid_offsets. intros Hv Ht.
  destruct (Z_lt_le_dec t ZM63) as [Hlt|Hge].
  - rewrite wrap64_id by (unfold in_i64; lia). apply range_check_flip.
  - rewrite wrap64_high by (unfold ZM63, ZM64 in *; lia).
    unfold ZM63, ZM64 in *.
    destruct (Z.ltb_spec (t - 18446744073709551616) f); [|lia].
    destruct (Z.leb_spec t l); [lia|].
    cbn [orb]. rewrite andb_false_r. reflexivity.
Qed.

(* the FirstOffset / LastOffset placeholders resolved as Conn.Offset reports them *)
Lemma current_position_resolve cur f l : current_position cur f l = resolve_current cur f l.
Proof.
  unfold current_position, conn_offset, resolve_current.
  destruct (cur =? FirstOffset); [cbn [Z.eqb SeekStart]; lia|].
  destruct (cur =? LastOffset); [cbn [Z.eqb Pos.eqb SeekStart SeekEnd]; lia|].
  reflexivity.
Qed.

Lemma resolve_current_plain cur f l : is_sentinel cur = false -> resolve_current cur f l = cur.
Proof.
  unfold is_sentinel, resolve_current. intros H. apply orb_false_iff in H.
  destruct H as [-> ->]. reflexivity.
Qed.

Lemma seek_spec : forall cur off whence f l,
  in_i64 cur -> in_i64 off -> valid_offsets f l ->
  let w := seek_whence whence in
  let t := seek_target cur off w f l in
  (w = SeekStart \/ w = SeekAbsolute \/ w = SeekEnd \/ w = SeekCurrent) ->
  (w = SeekCurrent -> in_i64 (current_position cur f l + off)) ->
  seek cur off whence (OffsOk f l) =
    if seek_unchecked whence cur then mk_seek (SeekOk t) t 0
    else if (w =? SeekAbsolute) && (off =? cur) then mk_seek (SeekOk cur) cur 0
    else if (f <=? t) && (t <=? l) then mk_seek (SeekOk t) t 2
    else mk_seek (SeekErr ErrOffsetOutOfRange) cur 2.
Proof.
  intros cur off whence f l Hc Ho Hv w t Hw Hcur. subst t.
  unfold seek, seek_unchecked. change (seek_whence whence) with w.
  change (Z.ldiff whence SeekDontCheck) with w.
  change (Z.testbit whence 30) with (seek_dont whence).
  clearbody w. unfold seek_target, read_offsets.
  rewrite current_position_resolve in *.
  assert (Hf : - ZM63 <= f + off < ZM64 /\ - ZM63 <= l - off < ZM64)
    by (unfold in_i64, valid_offsets, ZM63, ZM64 in *; lia).
  destruct Hf as [Hfo Hlo].
  destruct (seek_dont whence); destruct Hw as [-> | [-> | [-> | ->]]];
    unfold SeekStart, SeekAbsolute, SeekEnd, SeekCurrent in *;
    cbn [Z.eqb Pos.eqb orb andb negb];
    try rewrite (wrap64_id (resolve_current cur f l + off)) by (apply Hcur; reflexivity);
    try reflexivity;
    try (apply seek_check_wrap; assumption).      (* SeekStart, SeekEnd *)
  - (* SeekCurrent | SeekDontCheck: unchecked unless cur is a placeholder *)
    destruct (is_sentinel cur) eqn:Es; cbn [negb].
    + apply range_check_flip.
    + rewrite <- (resolve_current_plain cur f l Es) at 1 2.
      rewrite wrap64_id by (apply Hcur; reflexivity). reflexivity.
  - (* SeekAbsolute *)
    destruct (Z.eqb_spec off cur) as [->|Hne]; [reflexivity|]. apply range_check_flip.
  - (* SeekCurrent *) apply range_check_flip.
Qed.

(* SeekCurrent on a connection still holding a placeholder: relative to the partition's
   start (FirstOffset) resp. end (LastOffset), range-checked, SeekDontCheck or not *)
Lemma seek_current_fresh : forall d whence f l,
  in_i64 d -> valid_offsets f l -> seek_whence whence = SeekCurrent ->
  seek FirstOffset d whence (OffsOk f l) =
    (if (0 <=? d) && (f + d <=? l) then mk_seek (SeekOk (f + d)) (f + d) 2
     else mk_seek (SeekErr ErrOffsetOutOfRange) FirstOffset 2) /\
  seek LastOffset d whence (OffsOk f l) =
    (if (d <=? 0) && (f <=? l + d) then mk_seek (SeekOk (l + d)) (l + d) 2
     else mk_seek (SeekErr ErrOffsetOutOfRange) LastOffset 2).
Proof.
  intros d whence f l Hd Hv Hw.
  assert (Hf : - ZM63 <= f + d < ZM64 /\ - ZM63 <= l + d < ZM64)
    by (unfold in_i64, valid_offsets, ZM63, ZM64 in *; lia).
  destruct Hf as [Hfd Hld].
  unfold seek. change (Z.ldiff whence SeekDontCheck) with (seek_whence whence). rewrite Hw.
  unfold read_offsets, is_sentinel, resolve_current.
  unfold SeekStart, SeekAbsolute, SeekEnd, SeekCurrent, FirstOffset, LastOffset.
  cbn [Z.eqb Pos.eqb orb andb negb].
  destruct (Z.testbit whence 30); cbn [andb]; split.
  1,3: etransitivity; [apply seek_check_wrap; assumption|];
    replace (f <=? f + d) with (0 <=? d) by lia; reflexivity.
  all: etransitivity; [apply seek_check_wrap; assumption|];
    replace ((f <=? l + d) && (l + d <=? l)) with ((d <=? 0) && (f <=? l + d)) by lia;
    reflexivity.
Qed.

(* any failure leaves c.offset untouched *)
Lemma seek_error_keeps_offset : forall cur off whence b,
  seek_is_ok (so_res (seek cur off whence b)) = false -> so_offset (seek cur off whence b) = cur.
Proof.
  intros cur off whence b. unfold seek.
  destruct (read_offsets b) as [[[f l] code] n]. cbv zeta.
  repeat match goal with
         | |- context [if ?c then _ else _] => destruct c
         end; cbn [so_res so_offset seek_is_ok]; intros H; try reflexivity; discriminate H.
Qed.

(* on success c.offset is the returned offset *)
Lemma seek_ok_sets_offset : forall cur off whence b x,
  so_res (seek cur off whence b) = SeekOk x -> so_offset (seek cur off whence b) = x.
Proof.
  intros cur off whence b x. unfold seek.
  destruct (read_offsets b) as [[[f l] code] n]. cbv zeta.
  (* the unchanged-offset shortcut returns the argument and keeps c.offset: they are equal *)
  destruct (Z.eqb_spec off cur) as [->|Hne]; [|rewrite andb_false_r];
    repeat match goal with
           | |- context [if ?c then _ else _] => destruct c
           end; cbn [so_res so_offset]; intros H;
    try discriminate H; injection H as <-; reflexivity.
Qed.

(* a broker error on either list-offsets request is returned as is *)
Lemma seek_broker_error : forall cur off whence b f l code n,
  read_offsets b = (f, l, code, n) -> code <> 0 ->
  let w := seek_whence whence in
  (w = SeekStart \/ w = SeekAbsolute \/ w = SeekEnd \/ w = SeekCurrent) ->
  seek_unchecked whence cur = false ->
  (w =? SeekAbsolute) && (off =? cur) = false ->
  seek cur off whence b = mk_seek (SeekErr code) cur n.
Proof.
  intros cur off whence b f l code n Hb Hcode w Hw Hdont Habs.
  unfold seek_unchecked in Hdont. change (seek_whence whence) with w in Hdont.
  unfold seek. change (Z.ldiff whence SeekDontCheck) with w.
  change (Z.testbit whence 30) with (seek_dont whence).
  clearbody w. rewrite Hb, Habs.
  apply Z.eqb_neq in Hcode. rewrite Hcode.
  destruct (seek_dont whence); destruct Hw as [-> | [-> | [-> | ->]]];
    unfold SeekStart, SeekAbsolute, SeekEnd, SeekCurrent in *;
    cbn [Z.eqb Pos.eqb orb andb negb] in *; try rewrite Hdont;
    try reflexivity; discriminate Hdont.
Qed.

Lemma seek_bad_whence : forall cur off whence b,
  let w := seek_whence whence in
  ~ (w = SeekStart \/ w = SeekAbsolute \/ w = SeekEnd \/ w = SeekCurrent) ->
  seek cur off whence b = mk_seek SeekBadWhence cur 0.
Proof.
  intros cur off whence b w Hw.
  unfold seek. change (Z.ldiff whence SeekDontCheck) with w. clearbody w.
  destruct (Z.eqb_spec w SeekStart); [tauto|].
  destruct (Z.eqb_spec w SeekAbsolute); [tauto|].
  destruct (Z.eqb_spec w SeekEnd); [tauto|].
  destruct (Z.eqb_spec w SeekCurrent); [tauto|].
  reflexivity.
Qed.

(* the unchanged-offset shortcut: SeekAbsolute to the offset already held is answered
   without asking the broker, hence not range-checked *)
Lemma seek_unchanged_shortcut_example : exists cur f l,
  valid_offsets f l /\ ~ (f <= cur <= l) /\
  seek cur cur SeekAbsolute (OffsOk f l) = mk_seek (SeekOk cur) cur 0.
Proof.
  exists (-2), 0, 10. split; [|split].
  - unfold valid_offsets, ZM63. lia.
  - lia.
  - vm_compute. reflexivity.
Qed.

Lemma read_offset_exact : forall t p,
  read_offset_resp [(t, [p])] = if rp_error p =? 0 then ZOk (rp_offset p) else ZErr (rp_error p).
Proof.
  intros t p. unfold read_offset_resp. cbn [scan_topics scan_parts snd].
  destruct (rp_error p =? 0); reflexivity.
Qed.

(* ========================================================================= *)
(* Go maps as association lists                                              *)

Lemma str_eqb_eq a b : str_eqb a b = true <-> a = b.
Proof.
  revert b. induction a as [|x a IH]; intros [|y b]; cbn [str_eqb]; split; intro H;
    try reflexivity; try discriminate H.
  - apply andb_true_iff in H. destruct H as [H1 H2].
    apply N.eqb_eq in H1. apply IH in H2. subst. reflexivity.
  - injection H as -> ->. rewrite N.eqb_refl. apply IH. reflexivity.
Qed.

(* assigning a key the map does not hold yet appends the entry *)
Lemma amap_set_fresh {V} (m : list (str * V)) k v :
  ~ In k (map fst m) -> amap_set m k v = m ++ [(k, v)].
Proof.
  induction m as [|[k' v'] m IH]; cbn [amap_set map fst In app]; intros H; [reflexivity|].
  destruct (str_eqb k' k) eqn:E.
  - apply str_eqb_eq in E. tauto.
  - rewrite IH by tauto. reflexivity.
Qed.

Lemma zmap_set_fresh {V} (m : list (Z * V)) k v :
  ~ In k (map fst m) -> zmap_set m k v = m ++ [(k, v)].
Proof.
  induction m as [|[k' v'] m IH]; cbn [zmap_set map fst In app]; intros H; [reflexivity|].
  destruct (Z.eqb_spec k' k).
  - tauto.
  - rewrite IH by tauto. reflexivity.
Qed.

(* filling a map from a list with pairwise distinct (and fresh) keys keeps the list's order *)
Lemma amap_fold_fresh {A V} (k : A -> str) (v : A -> V) : forall l acc,
  NoDup (map fst acc ++ map k l) ->
  fold_left (fun m x => amap_set m (k x) (v x)) l acc = acc ++ map (fun x => (k x, v x)) l.
Proof.
  induction l as [|x l IH]; intros acc H; cbn [fold_left map].
  - rewrite app_nil_r. reflexivity.
  - cbn [map] in H. rewrite amap_set_fresh.
    + rewrite IH.
      * rewrite <- app_assoc. reflexivity.
      * rewrite map_app, <- app_assoc. exact H.
    + apply NoDup_remove_2 in H. intros Hin. apply H. apply in_or_app. left. exact Hin.
Qed.

Lemma zmap_fold_fresh {A V} (k : A -> Z) (v : A -> V) : forall l acc,
  NoDup (map fst acc ++ map k l) ->
  fold_left (fun m x => zmap_set m (k x) (v x)) l acc = acc ++ map (fun x => (k x, v x)) l.
Proof.
  induction l as [|x l IH]; intros acc H; cbn [fold_left map].
  - rewrite app_nil_r. reflexivity.
  - cbn [map] in H. rewrite zmap_set_fresh.
    + rewrite IH.
      * rewrite <- app_assoc. reflexivity.
      * rewrite map_app, <- app_assoc. exact H.
    + apply NoDup_remove_2 in H. intros Hin. apply H. apply in_or_app. left. exact Hin.
Qed.

(* reading back after an assignment *)
Lemma zmap_get_set {V} (m : list (Z * V)) k v k' :
  zmap_get (zmap_set m k v) k' = if k =? k' then Some v else zmap_get m k'.
Proof.
  induction m as [|[k0 v0] m IH]; cbn [zmap_set zmap_get]; [reflexivity|].
  destruct (Z.eqb_spec k0 k) as [->|Hne]; cbn [zmap_get].
  - destruct (k =? k'); reflexivity.
  - rewrite IH. destruct (Z.eqb_spec k0 k'), (Z.eqb_spec k k'); try reflexivity; lia.
Qed.

Lemma Forall2_map_l {A B} (R : B -> A -> Prop) (f : A -> B) (l : list A) :
  (forall x, R (f x) x) -> Forall2 R (map f l) l.
Proof. intros H. induction l; cbn [map]; constructor; auto. Qed.

(* ========================================================================= *)
(* OffsetFetch / OffsetCommit                                                *)

Lemma offsetfetch_exact : forall r,
  NoDup (map fst (ofr_topics r)) ->
  let a := offsetfetch_map r in
  oa_throttle a = ofr_throttle r /\ oa_err a = ofr_error r /\
  Forall2 (fun x t => fst x = fst t /\ Forall2 of_part_same (snd x) (snd t)) (oa_topics a) (ofr_topics r).
Proof.
  intros r Hnd a. subst a. unfold offsetfetch_map. cbn [oa_throttle oa_err oa_topics].
  split; [reflexivity|]. split; [reflexivity|].
  rewrite (amap_fold_fresh fst (fun t : str * list of_resp_part => map of_conv (snd t)))
    by exact Hnd.
  cbn [app]. apply Forall2_map_l. intros t. cbn [fst snd]. split; [reflexivity|].
  apply Forall2_map_l. intros p. unfold of_part_same, of_conv.
  cbn [oa_partition oa_offset oa_metadata oa_error]. repeat split.
Qed.

Lemma offsetcommit_exact : forall r,
  NoDup (map fst (ocr_topics r)) ->
  oca_throttle (offsetcommit_map r) = ocr_throttle r /\ oca_topics (offsetcommit_map r) = ocr_topics r.
Proof.
  intros r Hnd. unfold offsetcommit_map. cbn [oca_throttle oca_topics].
  split; [reflexivity|].
  rewrite (amap_fold_fresh fst snd) by exact Hnd. cbn [app].
  rewrite <- (map_id (ocr_topics r)) at 2. apply map_ext. intros [k v]. reflexivity.
Qed.

(* what is committed is what the caller asked to commit *)
Lemma offsetcommit_request_exact : forall g u,
  in_i32 g -> Forall (fun t : str * list oc_commit => Forall (fun c => in_i32 (occ_partition c)) (snd t)) u ->
  ocq_generation (offsetcommit_request g u) = g /\ ocq_topics (offsetcommit_request g u) = u.
Proof.
  intros g u Hg Hu. unfold offsetcommit_request. cbn [ocq_generation ocq_topics].
  split; [apply wrap32_id; exact Hg|].
  rewrite <- (map_id u) at 2. apply map_ext_in. intros [name cs] Hin.
  rewrite Forall_forall in Hu. specialize (Hu _ Hin). cbn [fst snd] in *.
  f_equal. rewrite <- (map_id cs) at 2. apply map_ext_in. intros [p o m] Hc.
  rewrite Forall_forall in Hu. specialize (Hu _ Hc).
  cbn [occ_partition occ_offset occ_metadata] in *. rewrite wrap32_id by exact Hu. reflexivity.
Qed.

(* ========================================================================= *)
(* Metadata / ReadPartitions / ConsumerOffsets                               *)

Lemma find_broker_spec : forall bs id,
  match find_broker bs id with
  | Some m => In m bs /\ mb_node m = id
  | None => forall m, In m bs -> mb_node m <> id
  end.
Proof.
  intros bs id. unfold find_broker.
  destruct (find (fun b => mb_node b =? id) (rev bs)) as [m|] eqn:E.
  - apply find_some in E. destruct E as [Hin Heq].
    split; [apply in_rev; exact Hin | apply Z.eqb_eq; exact Heq].
  - intros m Hin. apply Z.eqb_neq.
    apply (find_none _ _ E). apply in_rev in Hin. exact Hin.
Qed.

Lemma find_broker_snoc bs b id :
  find_broker (bs ++ [b]) id = if mb_node b =? id then Some b else find_broker bs id.
Proof. unfold find_broker. rewrite rev_unit. reflexivity. Qed.

(* the brokers map built by Metadata / ReadPartitions: the last registration wins *)
Lemma broker_index_get bs id :
  zmap_get (broker_index bs) id = option_map mk_broker (find_broker bs id).
Proof.
  induction bs as [|b bs IH] using rev_ind; [reflexivity|].
  unfold broker_index. rewrite fold_left_app. cbn [fold_left].
  fold (broker_index bs). rewrite zmap_get_set, find_broker_snoc, IH.
  destruct (mb_node b =? id); reflexivity.
Qed.

Lemma broker_of_client bs id : broker_of (broker_index bs) id = client_broker bs id.
Proof.
  unfold broker_of, client_broker. rewrite broker_index_get.
  destruct (find_broker bs id); reflexivity.
Qed.

Lemma make_broker_conn bs id : make_broker (broker_index bs) id = conn_broker bs id.
Proof.
  unfold make_broker, conn_broker. rewrite broker_index_get.
  destruct (find_broker bs id); reflexivity.
Qed.

Lemma controller_of_client bs ctrl : controller_of bs ctrl = client_broker bs ctrl.
Proof.
  induction bs as [|b bs IH] using rev_ind; [reflexivity|].
  unfold controller_of, client_broker. rewrite fold_left_app, find_broker_snoc. cbn [fold_left].
  fold (controller_of bs ctrl). rewrite IH.
  destruct (mb_node b =? ctrl); reflexivity.
Qed.

Lemma metadata_exact : forall r,
  let a := metadata_map r in
  ma_throttle a = md_throttle r /\ ma_cluster a = md_cluster r /\
  Forall2 broker_same (ma_brokers a) (md_brokers r) /\
  ma_controller a = client_broker (md_brokers r) (md_controller r) /\
  Forall2 (md_topic_same (md_brokers r)) (ma_topics a) (md_topics r).
Proof.
  intros r a. subst a. unfold metadata_map.
  cbn [ma_throttle ma_cluster ma_brokers ma_controller ma_topics].
  split; [reflexivity|]. split; [reflexivity|]. split; [|split].
  - apply Forall2_map_l. intros b. unfold broker_same, mk_broker.
    cbn [b_id b_host b_port b_rack]. repeat split.
  - apply controller_of_client.
  - apply Forall2_map_l. intros t. unfold md_topic_same.
    cbn [at_name at_internal at_error at_parts].
    split; [reflexivity|]. split; [reflexivity|]. split; [reflexivity|].
    apply Forall2_map_l. intros p. unfold md_part_same.
    cbn [pt_topic pt_id pt_error pt_leader pt_replicas pt_isr].
    split; [reflexivity|]. split; [reflexivity|]. split; [reflexivity|].
    split; [apply broker_of_client|].
    split; apply map_ext; intros id; apply broker_of_client.
Qed.

(* readTopicMetadatav1/v6 with the partitions accumulated so far *)
Lemma read_topics_exact v6 ct bs : forall ts acc,
  read_topics v6 ct (broker_index bs) ts acc =
  match find (rp_topic_fails ct) ts with
  | Some t => PartsErr (mt_error t)
  | None => PartsOk (acc ++ flat_map (fun t => map (rp_part v6 bs (mt_name t)) (mt_parts t)) ts)
  end.
Proof.
  induction ts as [|t ts IH]; intros acc; cbn [read_topics find flat_map].
  - rewrite app_nil_r. reflexivity.
  - change (negb (mt_error t =? 0) && (str_eqb ct [] || str_eqb (mt_name t) ct))
      with (rp_topic_fails ct t).
    destruct (rp_topic_fails ct t); [reflexivity|].
    rewrite IH. destruct (find (rp_topic_fails ct) ts); [reflexivity|].
    rewrite <- app_assoc. do 3 f_equal.
    apply map_ext. intros p. unfold rp_part.
    rewrite broker_of_client.
    rewrite (map_ext _ _ (make_broker_conn bs) (mp_replicas p)).
    rewrite (map_ext _ _ (make_broker_conn bs) (mp_isr p)).
    rewrite (map_ext _ _ (make_broker_conn bs) (mp_offline p)).
    reflexivity.
Qed.

Lemma read_partitions_exact : forall v6 ct r,
  read_partitions v6 ct r =
  match find (rp_topic_fails ct) (md_topics r) with
  | Some t => PartsErr (mt_error t)
  | None => PartsOk (flat_map (fun t => map (rp_part v6 (md_brokers r) (mt_name t)) (mt_parts t)) (md_topics r))
  end.
Proof. intros v6 ct r. unfold read_partitions. apply read_topics_exact. Qed.

Lemma consumer_offsets_exact : forall asked md ofr t rest parts,
  ma_topics md = t :: rest -> amap_get (oa_topics ofr) (at_name t) = Some parts ->
  NoDup (map oa_partition parts) ->
  consumer_offsets_request asked md = Some (asked, map pt_id (at_parts t)) /\
  consumer_offsets_result md ofr = Some (map (fun p => (oa_partition p, oa_offset p)) parts).
Proof.
  intros asked md ofr t rest parts Hmd Hget Hnd.
  unfold consumer_offsets_request, consumer_offsets_result. rewrite Hmd, Hget.
  split; [reflexivity|].
  rewrite (zmap_fold_fresh oa_partition oa_offset) by exact Hnd. reflexivity.
Qed.

(* every returned partition carries its own topic, id and error code, in order *)
Lemma read_partitions_partition_errors : forall v6 ct r l,
  read_partitions v6 ct r = PartsOk l ->
  map (fun p => (pt_topic p, pt_id p, pt_error p)) l =
  flat_map (fun t => map (fun p => (mt_name t, mp_index p, mp_error p)) (mt_parts t)) (md_topics r).
Proof.
  intros v6 ct r l H. rewrite read_partitions_exact in H.
  destruct (find (rp_topic_fails ct) (md_topics r)); [discriminate H|].
  injection H as <-.
  induction (md_topics r) as [|t ts IH]; [reflexivity|].
  cbn [flat_map]. rewrite map_app, IH, map_map. reflexivity.
Qed.
