(* Model/ReaderModel.v — L2 (offsets) of C02: one generation of the background fetcher
   (reader.run / initialize / read of /repo/reader.go on top of Conn.Seek /
   Conn.ReadBatchWith / Batch) as a step function over the broker's answers, and the Reader
   (version counter, start, the stale-message filter of FetchMessage, SetOffset) as a
   labelled transition system.  Definitions only.

   Real time is abstracted: back-off sleeps are skipped, a deadline that has passed is the
   [late] flag of a data response.  The queue capacity only restricts interleavings and is
   not modelled (the safety theorems quantify over a superset of the real schedules). *)
From Coq Require Import List NArith ZArith Bool.
From KV Require Import Lib.Bits Model.MsgSetReader.
Import ListNotations.
Open Scope Z_scope.

Definition FirstOffset : Z := -2.
Definition LastOffset : Z := -1.

(* what the broker (or the network) answers to one fetch request *)
Inductive fetch_resp :=
| FData (hwm : Z) (bytes : list N) (remain : Z) (late : bool)
        (* error code 0: high watermark, the message set as it arrives, its declared size *)
| FErr (code : Z)    (* a kafka error code in the partition header *)
| FTransport         (* request could not be written / connection lost before the message set *)
| FNoProgress.       (* correlation id mismatch: io.ErrNoProgress *)

Inductive gev :=
| GDialFail                           (* DialLeader / readOffsets / Seek failed (not OffsetOutOfRange) *)
| GInit (first last first2 last2 : Z) (* dial ok; readOffsets; the ReadOffsets inside Conn.Seek *)
| GFetch (r : fetch_resp)
| GOffsets (r : option (Z * Z)).      (* readOffsets after an OffsetOutOfRange fetch error *)

Inductive gout :=
| OMsg (g : msg) (hwm : Z)
| OErr (e : err).

Inductive gphase := PInit | PRead | POffsets | PDone.

Record gen := mkGen {
  g_phase : gphase;
  g_offset : Z;        (* the `offset` variable of run: restart position *)
  g_conn : Z;          (* Conn.offset of the current connection *)
  g_attempt : Z
}.

Record gcfg := mkCfg {
  c_max_attempts : Z;
  c_oor_error : bool    (* ReaderConfig.OffsetOutOfRangeError *)
}.

Definition gen_start (offset : Z) : gen := mkGen PInit offset FirstOffset 0.

Section Gen.
Variable run : Z -> Z -> list N -> Z -> bool -> option (list msg * err * Z).
  (* fetch_run decomp fuel: offset hwm bytes remain late -> messages, final error, batch.offset *)
Variable cfg : gcfg.

Definition kafka_code (e : err) : option Z :=
  match e with
  | ETimedOut => Some 7
  | EKafka c => Some c
  | _ => None
  end.

(* the outcome of reader.read: messages sent, the error, the new `offset`, the new
   Conn.offset, whether Batch.close closed the connection *)
Definition read_once (g : gen) (r : fetch_resp) : option (list gout * err * Z * Z) :=
  match r with
  | FTransport => Some ([], EIO, g_offset g, g_conn g)
  | FNoProgress => Some ([], EIO, g_offset g, g_conn g)
  | FErr code =>
    Some ([], (if code =? 7 then ETimedOut else EKafka code), g_offset g, g_conn g)
  | FData hwm bytes remain late =>
    match run (g_conn g) hwm bytes remain late with
    | None => None
    | Some (ms, e, off) =>
      let o' := match rev ms with [] => g_offset g | m :: _ => g_off m + 1 end in
      Some (map (fun m => OMsg m hwm) ms, e, o', off)
    end
  end.

(* one step of run; None = the goroutine panicked *)
Definition gen_step (g : gen) (ev : gev) : option (gen * list gout) :=
  match g_phase g, ev with
  | PInit, GDialFail =>
    let outs := if c_max_attempts cfg <=? g_attempt g then [OErr EIO] else [] in
    Some (mkGen PInit (g_offset g) FirstOffset (g_attempt g + 1), outs)
  | PInit, GInit first last first2 last2 =>
    let o := g_offset g in
    let o1 := if o =? FirstOffset then first else if o =? LastOffset then last
              else if o <? first then first else o in
    (* Conn.Seek(o1, SeekAbsolute) on a fresh connection (offset = FirstOffset) *)
    if o1 =? FirstOffset then
      Some (mkGen PRead o1 o1 0, [])
    else if (o1 <? first2) || (last2 <? o1) then
      if c_oor_error cfg then Some (mkGen PDone o FirstOffset (g_attempt g), [OErr (EKafka 1)])
      else Some (mkGen PInit o FirstOffset (g_attempt g + 1), [])
    else Some (mkGen PRead o1 o1 0, [])
  | PRead, GFetch r =>
    match read_once g r with
    | None => None
    | Some (outs, e, o', c') =>
      let stay := mkGen PRead o' c' 0 in
      let redial := mkGen PInit o' FirstOffset 1 in
      match e with
      | EEOF => Some (stay, outs)
      | ETimedOut => Some (stay, outs)
      | EKafka 1 => Some (mkGen POffsets o' c' 0, outs)
      | EKafka 3 => Some (redial, outs)
      | EKafka 6 => Some (redial, outs)
      | EKafka c => Some (stay, outs ++ [OErr (EKafka c)])
      | ECodec => Some (redial, outs ++ [OErr ECodec])
      | _ => Some (redial, outs)
      end
    end
  | POffsets, GOffsets r =>
    let redial := mkGen PInit (g_offset g) FirstOffset 1 in
    match r with
    | None => Some (redial, [])
    | Some (first, last) =>
      if g_offset g <? first then Some (mkGen PRead first (g_conn g) 0, [])
      else Some (mkGen PRead (g_offset g) (g_conn g) 0, [])
    end
  | _, _ => Some (g, [])
  end.

End Gen.

(* ------------------------------------------------------------------ Reader *)
Record rstate := mkR {
  r_version : Z;
  r_offset : Z;                       (* Reader.offset *)
  r_lag : Z;                          (* Reader.lag *)
  r_call : option Z;                  (* the FetchMessage call in progress: its snapshot of Reader.version *)
  r_queue : list (Z * gout);          (* Reader.msgs: (version, item) *)
  r_gens : list (Z * gen);            (* every generation ever started, newest first *)
  r_delivered : list msg              (* returned by FetchMessage since the last (re)start *)
}.

Definition r_init : rstate := mkR 0 FirstOffset 0 None [] [] [].

Inductive label :=
| LBegin                      (* FetchMessage is entered: starts generation 1 when version = 0, THEN
                                 takes its snapshot of the version *)
| LTake                       (* the call in progress receives the head of the queue *)
| LAbort                      (* the call in progress gives up (its context expired) *)
| LSetOffset (o : Z)          (* SetOffset; not while a FetchMessage call is in progress (one user goroutine) *)
| LGen (v : Z) (ev : gev) (k : nat).  (* generation v handles ev and sends its first k items
                                          (k < all only for a cancelled generation, which then exits) *)

(* Reader.start: cancels the running generation, version+1, a new generation at Reader.offset *)
Definition r_start (s : rstate) : rstate :=
  mkR (r_version s + 1) (r_offset s) (r_lag s) (r_call s) (r_queue s)
      ((r_version s + 1, gen_start (r_offset s)) :: r_gens s) [].

Definition set_call (s : rstate) (c : option Z) : rstate :=
  mkR (r_version s) (r_offset s) (r_lag s) c (r_queue s) (r_gens s) (r_delivered s).

Fixpoint find_gen (v : Z) (gs : list (Z * gen)) {struct gs} : option gen :=
  match gs with
  | [] => None
  | (v', g) :: t => if v' =? v then Some g else find_gen v t
  end.
Fixpoint set_gen (v : Z) (g : gen) (gs : list (Z * gen)) {struct gs} : list (Z * gen) :=
  match gs with
  | [] => []
  | (v', g') :: t => if v' =? v then (v', g) :: t else (v', g') :: set_gen v g t
  end.

Section ReaderLTS.
Variable run : Z -> Z -> list N -> Z -> bool -> option (list msg * err * Z).
Variable cfg : gcfg.

Inductive outcome :=
| RState (s : rstate) (ret : option gout)   (* ret: what FetchMessage returned, if it returned *)
| RPanic
| RStuck.                                   (* the label is not enabled *)

Definition r_step (s : rstate) (l : label) : outcome :=
  match l with
  | LBegin =>
    (* if r.version == 0 { r.start(...) }; version := r.version *)
    let s1 := if r_version s =? 0 then r_start s else s in
    RState (set_call s1 (Some (r_version s1))) None
  | LTake =>
    match r_call s with
    | None => RStuck
    | Some snap =>
      match r_queue s with
      | [] => RStuck
      | (v, item) :: q =>
        if snap <=? v then
          (* m.version >= version: the call returns the item; Reader.offset and Reader.lag follow
             only when the version is still the snapshot *)
          match item with
          | OMsg g hwm =>
            if snap =? r_version s then
              RState (mkR (r_version s) (g_off g + 1) (hwm - (g_off g + 1)) None q (r_gens s) (r_delivered s ++ [g])) (Some item)
            else RState (mkR (r_version s) (r_offset s) (r_lag s) None q (r_gens s) (r_delivered s)) (Some item)
          | OErr _ => RState (mkR (r_version s) (r_offset s) (r_lag s) None q (r_gens s) (r_delivered s)) (Some item)
          end
        else RState (mkR (r_version s) (r_offset s) (r_lag s) (r_call s) q (r_gens s) (r_delivered s)) None
      end
    end
  | LAbort => match r_call s with None => RStuck | Some _ => RState (set_call s None) None end
  | LSetOffset o =>
    match r_call s with
    | Some _ => RStuck
    | None =>
      if o =? r_offset s then RState s None
      else
        let s1 := mkR (r_version s) o (r_lag s) (r_call s) (r_queue s) (r_gens s) (r_delivered s) in
        if r_version s =? 0 then RState s1 None else RState (r_start s1) None
    end
  | LGen v ev k =>
    match find_gen v (r_gens s) with
    | None => RStuck
    | Some g =>
      match gen_step run cfg g ev with
      | None => RPanic
      | Some (g', outs) =>
        if (Nat.ltb k (length outs)) && (r_version s <=? v) then RStuck
        else
          let g'' := if Nat.ltb k (length outs) then mkGen PDone (g_offset g') (g_conn g') 0 else g' in
          RState (mkR (r_version s) (r_offset s) (r_lag s) (r_call s)
                      (r_queue s ++ map (fun o => (v, o)) (firstn k outs))
                      (set_gen v g'' (r_gens s)) (r_delivered s)) None
      end
    end
  end.

End ReaderLTS.

(* ------------------------------------------------------------------ the property predicate *)
From KV Require Import Spec.FetchSpec.

Definition msg_of (r : record) : msg :=
  mkMsg (r_off r) (r_ts r) (opt_bytes (r_key r)) (opt_bytes (r_val r)) (r_hdrs r).

Fixpoint bytes_eqb (a b : list N) {struct a} : bool :=
  match a, b with
  | [], [] => true
  | x :: a', y :: b' => N.eqb x y && bytes_eqb a' b'
  | _, _ => false
  end.
Fixpoint hdrs_eqb (a b : list (list N * list N)) {struct a} : bool :=
  match a, b with
  | [], [] => true
  | (k, v) :: a', (k', v') :: b' => bytes_eqb k k' && bytes_eqb v v' && hdrs_eqb a' b'
  | _, _ => false
  end.
Definition msg_eqb (a b : msg) : bool :=
  (g_off a =? g_off b) && (g_ts a =? g_ts b) && bytes_eqb (g_key a) (g_key b)
  && bytes_eqb (g_val a) (g_val b) && hdrs_eqb (g_hdrs a) (g_hdrs b).

Fixpoint prefixb (a b : list msg) {struct a} : bool :=
  match a, b with
  | [], _ => true
  | x :: a', y :: b' => msg_eqb x y && prefixb a' b'
  | _ :: _, [] => false
  end.

(* C02 on one stretch between two (re)starts: what FetchMessage returned is a prefix of the
   stored records at or after the start position *)
Definition delivery_okb (log : list record) (start : Z) (delivered : list msg) : bool :=
  prefixb delivered (map msg_of (from start log)).

(* C02 on one fetch issued at [offset] that left Conn.offset = [final]: the messages are exactly
   the stored records in [offset, final); when the offset moved backwards nothing was delivered
   and no stored record lies in [final, offset) *)
Definition fetch_okb (log : list record) (offset : Z) (ms : list msg) (final : Z) : bool :=
  if offset <=? final then
    prefixb ms (map msg_of (between offset final log))
    && (length ms =? length (between offset final log))%nat
  else
    match ms, between final offset log with
    | [], [] => true
    | _, _ => false
    end.
