(* Model/ReaderLookup.v — C02: which partition a Reader's connection is bound to.
   Dialer.LookupPartition asks the broker for the topic's metadata and takes the descriptor of the
   configured partition BY ITS ID: the Metadata answer lists the partitions in no particular
   order.  DialLeader / DialPartition then build the Conn from that descriptor (leader address,
   partition id), so every Fetch / ListOffsets of the Reader names the configured partition. *)
From Coq Require Import List ZArith.
Import ListNotations.
Open Scope Z_scope.

Record pdesc := mkPD { pd_id : Z; pd_leader : Z }.

(* for _, p := range partitions { if p.ID == partition { return p } } *)
Fixpoint lookup_partition (id : Z) (ds : list pdesc) {struct ds} : option pdesc :=
  match ds with
  | [] => None
  | d :: t => if pd_id d =? id then Some d else lookup_partition id t
  end.

(* the partition the connection is bound to (kafka.Conn's partition): the descriptor's id *)
Definition dialled_partition (id : Z) (ds : list pdesc) : option Z := option_map pd_id (lookup_partition id ds).
