(* Model/Xerial.v — executable model of /repo/compress/snappy/xerial.go (xerialWriter,
   xerialReader) and of the way snappy.go's NewReader/NewWriter/Close drive them.
   Definitions only.

   Byte slices are [list N].  What Go keeps in a slice header and the model keeps:
     xerialWriter.input   -> w_input (its bytes) and w_cap (its CAPACITY: survives Reset,
                             decides where blocks are cut)
     xerialWriter.output  -> not modelled: scratch space for encode, [:0] after each use;
                             encode(dst, src) allocates when dst is too small, so neither
                             its content nor its capacity is observable
     xerialWriter.header  -> not modelled: fully rewritten before each use
     xerialReader.input   -> not modelled as state: it is (re)filled from scratch by every
                             readChunk; its capacity only decides allocation
     xerialReader.output/offset/header/nbytes -> r_output/r_offset/r_header/r_nbytes
   The block codec (snappy.Encode / snappy.Decode / snappy.DecodedLen) is a parameter
   (Section variables [enc], [dec], [declen]); the branches [encode == nil] /
   [decode == nil] are unreachable through snappy.go (NewWriter/NewReader always set
   them and only such objects enter the pools) and are not modelled.
   The underlying io.Writer is a sink that accepts bytes until an optional budget is
   exhausted (then: short write + error); the underlying io.Reader delivers a byte
   list and then io.EOF (io.ReadFull and the unframed loop make the result independent
   of how it chops its reads). *)
From Coq Require Import List NArith Bool.
From KV Require Import Lib.Bits.
Import ListNotations.
Local Open Scope N_scope.

Definition default_buffer_size : N := 32768.
Definition xerial_magic : list N := [130; 83; 78; 65; 80; 80; 89; 0].
Definition xerial_version_info : list N := [0; 0; 0; 1; 0; 0; 0; 1].
Definition xerial_header_bytes : list N := xerial_magic ++ xerial_version_info.
Definition zeros16 : list N := repeat 0 16.

Definition len_N {A} (l : list A) : N := N.of_nat (length l).
Definition take_N {A} (n : N) (l : list A) : list A := firstn (N.to_nat n) l.
Definition drop_N {A} (n : N) (l : list A) : list A := skipn (N.to_nat n) l.

(* binary.BigEndian.PutUint32(b, uint32(n)) / Uint32(b) *)
Definition be32 (n : N) : list N :=
  let m := n mod M32 in
  [m / 16777216; (m / 65536) mod 256; (m / 256) mod 256; m mod 256].
Definition be32_decode (l : list N) : N :=
  match l with
  | [a; b; c; d] => ((a * 256 + b) * 256 + c) * 256 + d
  | _ => 0
  end.

Fixpoint list_eqb (a b : list N) {struct a} : bool :=
  match a, b with
  | [], [] => true
  | x :: a', y :: b' => (x =? y) && list_eqb a' b'
  | _, _ => false
  end.

(* isXerialHeader(src): len(src) >= 16 && bytes.Equal(src[:8], xerialHeader) *)
Definition is_xerial_header (h : list N) : bool :=
  (16 <=? len_N h) && list_eqb (firstn 8 h) xerial_magic.

(* error classes (the harness maps Go errors to these names) *)
Inductive xerr := EEOF | EUnexpectedEOF | ECorrupt | EShortWrite | EIO.

(* ------------------------------------------------------------------ sink *)
Record sink := { k_data : list N; k_room : option N }.

(* w.Write(b) on the underlying writer: (sink', n, ok) *)
Definition sink_write (s : sink) (b : list N) : sink * N * bool :=
  match k_room s with
  | None => ({| k_data := k_data s ++ b; k_room := None |}, len_N b, true)
  | Some r =>
    if len_N b <=? r
    then ({| k_data := k_data s ++ b; k_room := Some (r - len_N b) |}, len_N b, true)
    else ({| k_data := k_data s ++ take_N r b; k_room := Some 0 |}, r, false)
  end.

(* ------------------------------------------------------------------ writer *)
Record xwriter := {
  w_input : list N;
  w_cap : N;
  w_nbytes : N;
  w_framed : bool
}.

(* &xerialWriter{writer: w} *)
Definition xw_new : xwriter :=
  {| w_input := []; w_cap := 0; w_nbytes := 0; w_framed := false |}.

(* Reset: input = input[:0], output = output[:0], nbytes = 0 *)
Definition xw_reset (x : xwriter) : xwriter :=
  {| w_input := []; w_cap := w_cap x; w_nbytes := 0; w_framed := w_framed x |}.

(* Codec.NewWriter: pool hit -> Reset, miss -> new object; then framed (and encode) are set *)
Definition xw_open (pooled : option xwriter) (framed : bool) : xwriter :=
  let x := match pooled with Some p => xw_reset p | None => xw_new end in
  {| w_input := w_input x; w_cap := w_cap x; w_nbytes := w_nbytes x; w_framed := framed |}.

Definition xw_full (x : xwriter) : bool := len_N (w_input x) =? w_cap x.
Definition xw_full_enough (x : xwriter) : bool :=
  w_framed x && (w_cap x - len_N (w_input x) <? 1024).
Definition xw_grow (x : xwriter) : xwriter :=
  {| w_input := w_input x; w_cap := 2 * w_cap x; w_nbytes := w_nbytes x; w_framed := w_framed x |}.
Definition xw_ensure (x : xwriter) : xwriter :=
  if w_cap x =? 0
  then {| w_input := w_input x; w_cap := default_buffer_size; w_nbytes := w_nbytes x; w_framed := w_framed x |}
  else x.
Definition xw_set_input (x : xwriter) (i : list N) : xwriter :=
  {| w_input := i; w_cap := w_cap x; w_nbytes := w_nbytes x; w_framed := w_framed x |}.

(* x.write(b): n, err := x.writer.Write(b); x.nbytes += n *)
Definition xw_raw (x : xwriter) (s : sink) (b : list N) : xwriter * sink * bool :=
  let '(s', n, ok) := sink_write s b in
  ({| w_input := w_input x; w_cap := w_cap x; w_nbytes := w_nbytes x + n; w_framed := w_framed x |}, s', ok).

(* result of a Write/ReadFrom call: bytes consumed, error *)
Inductive wres := WOk (n : N) | WErr (n : N) (e : xerr) | WStuck.

(* an io.Reader handed to ReadFrom *)
Record source := {
  src_data : list N;           (* the bytes it delivers *)
  src_steps : list N;          (* the i-th Read returns at most this many bytes (0: a (0, nil) Read);
                                  no limit once the list is exhausted *)
  src_eof_with_data : bool;    (* the Read that hands over the last byte also returns the final
                                  error: (n > 0, io.EOF), as iotest.DataErrReader does *)
  src_fails : bool             (* the final error is not io.EOF *)
}.

Section Codec.
  Variable enc : list N -> list N.
  Variable dec : list N -> option (list N).
  Variable declen : list N -> option N.

  (* Flush *)
  Definition xw_flush (x : xwriter) (s : sink) : xwriter * sink * bool :=
    match w_input x with
    | [] => (x, s, true)
    | _ :: _ =>
      let b := enc (w_input x) in
      let x := xw_set_input x [] in
      let '(x, s, ok1) :=
        if w_framed x && (w_nbytes x =? 0) then xw_raw x s xerial_header_bytes else (x, s, true) in
      if negb ok1 then (x, s, false) else
      let '(x, s, ok2) :=
        if w_framed x then xw_raw x s (be32 (len_N b)) else (x, s, true) in
      if negb ok2 then (x, s, false) else
      xw_raw x s b
    end.

  (* one turn of the copy loop: grow when full, copy what fits: (x', rest of b, n) *)
  Definition xw_copy_in (x : xwriter) (b : list N) : xwriter * list N * N :=
    let x := if xw_full x then xw_grow x else x in
    let room := w_cap x - len_N (w_input x) in
    let n := N.min room (len_N b) in
    (xw_set_input x (w_input x ++ take_N n b), drop_N n b, n).

  (* the loop of Write; every iteration copies at least one byte *)
  Fixpoint xw_write_loop (fuel : nat) (x : xwriter) (s : sink) (b : list N) (wn : N) {struct fuel}
    : xwriter * sink * wres :=
    match b with
    | [] => (x, s, WOk wn)
    | _ :: _ =>
      match fuel with
      | O => (x, s, WStuck)
      | S fuel' =>
        let '(x, b, n) := xw_copy_in x b in
        let wn := wn + n in
        if xw_full_enough x then
          let '(x, s, ok) := xw_flush x s in
          if ok then xw_write_loop fuel' x s b wn else (x, s, WErr wn EShortWrite)
        else xw_write_loop fuel' x s b wn
      end
    end.

  Definition xw_write (x : xwriter) (s : sink) (b : list N) : xwriter * sink * wres :=
    xw_write_loop (S (length b)) (xw_ensure x) s b 0.

  (* ReadFrom(r).  One turn of its loop: grow when full, r.Read into the free space —
     the source hands over at most [lim] bytes: (x', rest of the source's data, n) *)
  Definition xw_pull_in (x : xwriter) (data : list N) (lim : option N) : xwriter * list N * N :=
    let x := if xw_full x then xw_grow x else x in
    let room := w_cap x - len_N (w_input x) in
    let n := N.min (match lim with None => room | Some l => N.min room l end) (len_N data) in
    (xw_set_input x (w_input x ++ take_N n data), drop_N n data, n).

  (* does this r.Read return the source's final error?  Always once the data is exhausted;
     together with the last bytes when the source is of the iotest.DataErrReader kind *)
  Definition src_at_end (r : source) (rest : list N) (n : N) : bool :=
    match src_data r with
    | [] => true
    | _ :: _ => src_eof_with_data r && (0 <? n) && (match rest with [] => true | _ :: _ => false end)
    end.

  Fixpoint xw_read_from_loop (fuel : nat) (x : xwriter) (s : sink) (r : source) (wn : N) {struct fuel}
    : xwriter * sink * wres :=
    match fuel with
    | O => (x, s, WStuck)
    | S fuel' =>
      let '(x, rest, n) := xw_pull_in x (src_data r) (hd_error (src_steps r)) in
      let at_end := src_at_end r rest n in
      let wn := wn + n in
      let '(x, s, ok) := if xw_full_enough x then xw_flush x s else (x, s, true) in
      if negb ok then (x, s, WErr wn EShortWrite)
      else if at_end then (x, s, if src_fails r then WErr wn EIO else WOk wn)
      else xw_read_from_loop fuel' x s
             {| src_data := rest; src_steps := tl (src_steps r);
                src_eof_with_data := src_eof_with_data r; src_fails := src_fails r |} wn
    end.

  Definition xw_read_from (x : xwriter) (s : sink) (r : source) : xwriter * sink * wres :=
    xw_read_from_loop (S (S (length (src_data r) + length (src_steps r)))) (xw_ensure x) s r 0.

  (* writer.Close: err = x.Flush(); x.Reset(nil); writerPool.Put(x) — returns the object
     as it goes back to the pool *)
  Definition xw_close (x : xwriter) (s : sink) : xwriter * sink * bool :=
    let '(x, s, ok) := xw_flush x s in (xw_reset x, s, ok).

  Inductive wop := OWrite (b : list N) | OReadFrom (r : source) | OFlush.

  Fixpoint xw_ops (x : xwriter) (s : sink) (ops : list wop) {struct ops}
    : xwriter * sink * list wres :=
    match ops with
    | [] => (x, s, [])
    | op :: rest =>
      let '(x, s, r) :=
        match op with
        | OWrite b => xw_write x s b
        | OReadFrom r => xw_read_from x s r
        | OFlush => let '(x, s, ok) := xw_flush x s in
                    (x, s, if ok then WOk 0 else WErr 0 EShortWrite)
        end in
      let '(x, s, rs) := xw_ops x s rest in
      (x, s, r :: rs)
    end.

  (* one use of a writer obtained from Codec.NewWriter: the operations, then Close.
     Result: the object as released to the pool, the bytes that reached the underlying
     writer, the per-call results and whether Close succeeded *)
  Definition xw_stream (pooled : option xwriter) (framed : bool) (room : option N) (ops : list wop)
    : xwriter * list N * list wres * bool :=
    let x := xw_open pooled framed in
    let '(x, s, rs) := xw_ops x {| k_data := []; k_room := room |} ops in
    let '(x, s, ok) := xw_close x s in
    (x, k_data s, rs, ok).

  (* ---------------------------------------------------------------- reader *)
  Record xreader := {
    r_src : list N;       (* what x.reader still delivers before io.EOF *)
    r_header : list N;    (* [16]byte *)
    r_output : list N;
    r_offset : N;
    r_nbytes : N
  }.

  (* &xerialReader{reader: r, decode: snappy.Decode} *)
  Definition xr_new (src : list N) : xreader :=
    {| r_src := src; r_header := zeros16; r_output := []; r_offset := 0; r_nbytes := 0 |}.

  (* Reset(r) *)
  Definition xr_reset (x : xreader) (src : list N) : xreader :=
    {| r_src := src; r_header := zeros16; r_output := []; r_offset := 0; r_nbytes := 0 |}.

  (* Codec.NewReader *)
  Definition xr_open (pooled : option xreader) (src : list N) : xreader :=
    match pooled with Some p => xr_reset p src | None => xr_new src end.

  (* reader.Close: x.Reset(nil); readerPool.Put(x) *)
  Definition xr_close (x : xreader) : xreader := xr_reset x [].

  (* x.readFull(b) with len(b) = n: (x', bytes read, error) *)
  Definition xr_read_full (x : xreader) (n : N) : xreader * list N * option xerr :=
    let got := take_N n (r_src x) in
    let x' := {| r_src := drop_N n (r_src x); r_header := r_header x; r_output := r_output x;
                 r_offset := r_offset x; r_nbytes := r_nbytes x + len_N got |} in
    (x', got,
     if len_N got =? n then None
     else match got with [] => Some EEOF | _ :: _ => Some EUnexpectedEOF end).

  Definition xr_set_header (x : xreader) (h : list N) : xreader :=
    {| r_src := r_src x; r_header := h; r_output := r_output x; r_offset := r_offset x; r_nbytes := r_nbytes x |}.
  Definition xr_set_output (x : xreader) (o : list N) (off : N) : xreader :=
    {| r_src := r_src x; r_header := r_header x; r_output := o; r_offset := off; r_nbytes := r_nbytes x |}.

  (* the decode step at the end of readChunk: [k] = len(dst).
     Ok (n, bytes put in dst[:n]) or an error. *)
  Definition xr_decode (x : xreader) (input : list N) (k : N)
    : xreader * (N * list N + xerr) :=
    let buffered :=
      match dec input with
      | Some b => (xr_set_output x b 0, inl (0, []))
      | None => (x, inr ECorrupt)
      end in
    match declen input with
    | Some n =>
      if n <=? k then
        match dec input with
        | Some b => (x, inl (n, b))
        | None => (x, inr ECorrupt)
        end
      else buffered
    | None => buffered
    end.

  (* the first 16 bytes of a stream go to x.header (only when nothing was read yet):
     (x', prefix = number of header bytes obtained, error) *)
  Definition xr_read_header (x : xreader) : xreader * N * option xerr :=
    if r_nbytes x =? 0 then
      let '(x, got, err) := xr_read_full x 16 in
      let x := xr_set_header x (got ++ drop_N (len_N got) (r_header x)) in
      match err, got with
      | Some e, [] => (x, 0, Some e)
      | _, _ => (x, len_N got, None)
      end
    else (x, 0, None).

  (* framed: a 4-byte big-endian length, then that many bytes *)
  Definition xr_chunk_framed (x : xreader) (k : N) : xreader * (N * list N + xerr) :=
    let '(x, l4, err) := xr_read_full x 4 in
    match err with
    | Some e => (x, inr e)
    | None =>
      let frame := be32_decode l4 in
      let '(x, input, err) := xr_read_full x frame in
      match err with
      | Some e => (x, inr e)
      | None => xr_decode x input k
      end
    end.

  (* not framed: header[:prefix] followed by everything up to io.EOF *)
  Definition xr_chunk_unframed (x : xreader) (prefix : N) (k : N) : xreader * (N * list N + xerr) :=
    let rest := r_src x in
    let input := take_N prefix (r_header x) ++ rest in
    let x := {| r_src := []; r_header := r_header x; r_output := r_output x;
                r_offset := r_offset x; r_nbytes := r_nbytes x + len_N rest |} in
    match input with
    | [] => (x, inr EEOF)
    | _ :: _ => xr_decode x input k
    end.

  Definition xr_read_chunk (x : xreader) (k : N) : xreader * (N * list N + xerr) :=
    let x := xr_set_output x [] 0 in
    let '(x, prefix, herr) := xr_read_header x in
    match herr with
    | Some e => (x, inr e)
    | None =>
      if is_xerial_header (r_header x) then xr_chunk_framed x k
      else xr_chunk_unframed x prefix k
    end.

  (* result of one Read call *)
  Inductive rres := RData (b : list N) | RErr (e : xerr) | RStuck.

  (* Read(b) with len(b) = k *)
  Fixpoint xr_read_loop (fuel : nat) (x : xreader) (k : N) {struct fuel} : xreader * rres :=
    if r_offset x <? len_N (r_output x) then
      let n := N.min k (len_N (r_output x) - r_offset x) in
      (xr_set_output x (r_output x) (r_offset x + n), RData (take_N n (drop_N (r_offset x) (r_output x))))
    else
      match fuel with
      | O => (x, RStuck)
      | S fuel' =>
        match xr_read_chunk x k with
        | (x', inr e) => (x', RErr e)
        | (x', inl (n, b)) => if 0 <? n then (x', RData b) else xr_read_loop fuel' x' k
        end
      end.

  Definition xr_read (x : xreader) (k : N) : xreader * rres :=
    xr_read_loop (S (S (length (r_src x)))) x k.

  (* successive Read calls with buffer sizes ks, stopping after the first error *)
  Fixpoint xr_reads (x : xreader) (ks : list N) {struct ks} : xreader * list rres :=
    match ks with
    | [] => (x, [])
    | k :: ks' =>
      match xr_read x k with
      | (x', RData b) => let '(x'', rs) := xr_reads x' ks' in (x'', RData b :: rs)
      | (x', r) => (x', [r])
      end
    end.

  (* WriteTo(w) on a writer that never fails: (x', bytes written, error) *)
  Fixpoint xr_write_to_loop (fuel : nat) (x : xreader) (acc : list N) {struct fuel}
    : xreader * list N * option (option xerr) :=
    let acc := acc ++ drop_N (r_offset x) (r_output x) in
    let x := xr_set_output x (r_output x) (N.max (r_offset x) (len_N (r_output x))) in
    match fuel with
    | O => (x, acc, None)
    | S fuel' =>
      match xr_read_chunk x 0 with
      | (x', inr EEOF) => (x', acc, Some None)
      | (x', inr e) => (x', acc, Some (Some e))
      | (x', inl _) => xr_write_to_loop fuel' x' acc
      end
    end.

  Definition xr_write_to (x : xreader) : xreader * list N * option (option xerr) :=
    xr_write_to_loop (S (S (length (r_src x)))) x [].
End Codec.
