(* Model/Balancers.v — executable model of /repo/balancer.go (definitions only).
   Keys are [option (list N)] ([None] = Go nil slice, bytes < 256); partition ids
   are Z (Go int); uint32/uint64 state is N with the wrap written out. *)
From Coq Require Import List NArith ZArith Bool.
From KV Require Import Lib.Bits Lib.Crc.
Import ListNotations.
Open Scope N_scope.

(* ---- hash/fnv New32a ---- *)
Definition fnv_offset : N := 2166136261.
Definition fnv_prime  : N := 16777619.
Definition fnv_step (h b : N) : N := mul32 (N.lxor h b) fnv_prime.
Definition fnv1a32 (key : list N) : N := fold_left fnv_step key fnv_offset.

(* ---- murmur2 (balancer.go:311), uint32 arithmetic ---- *)
Definition mm_seed : N := 2538058380.  (* 0x9747b28c *)
Definition mm_m : N := 1540483477.     (* 0x5bd1e995 *)

Definition mm_mixk (k : N) : N :=
  let k := mul32 k mm_m in
  let k := N.lxor k (N.shiftr k 24) in
  mul32 k mm_m.

Definition mm_chunk (h b0 b1 b2 b3 : N) : N :=
  let k := add32 (add32 (add32 (N.land b0 255) (shl32 (N.land b1 255) 8))
                        (shl32 (N.land b2 255) 16)) (shl32 (N.land b3 255) 24) in
  N.lxor (mul32 h mm_m) (mm_mixk k).

(* the three "extra" ifs after the loop *)
Definition mm_tail (h : N) (data : list N) : N :=
  match data with
  | [b0; b1; b2] =>
      let h := N.lxor h (shl32 (N.land b2 255) 16) in
      let h := N.lxor h (shl32 (N.land b1 255) 8) in
      mul32 (N.lxor h (N.land b0 255)) mm_m
  | [b0; b1] =>
      let h := N.lxor h (shl32 (N.land b1 255) 8) in
      mul32 (N.lxor h (N.land b0 255)) mm_m
  | [b0] => mul32 (N.lxor h (N.land b0 255)) mm_m
  | _ => h
  end.

Fixpoint mm_loop (h : N) (data : list N) {struct data} : N :=
  match data with
  | b0 :: b1 :: b2 :: b3 :: rest => mm_loop (mm_chunk h b0 b1 b2 b3) rest
  | _ => mm_tail h data
  end.

Definition mm_final (h : N) : N :=
  let h := N.lxor h (N.shiftr h 13) in
  let h := mul32 h mm_m in
  N.lxor h (N.shiftr h 15).

Definition murmur2 (data : list N) : N :=
  mm_final (mm_loop (N.lxor mm_seed (w32 (N.of_nat (length data)))) data).

(* ---- partition lists ---- *)
Definition nthZ (ps : list Z) (i : N) : Z := nth (N.to_nat i) ps (-1)%Z.
Definition lenN {A} (l : list A) : N := N.of_nat (length l).
(* what Writer supplies: loadCachedPartitions(n) = [0; 1; ...; n-1] *)
Definition offered (n : nat) : list Z := map Z.of_nat (seq 0 n).

(* ---- RoundRobin (balancer.go:55) ---- *)
Record rr_state := { rr_chunk : Z; rr_counter : N }.
Definition rr_init (chunk : Z) : rr_state := {| rr_chunk := chunk; rr_counter := 0 |}.
(* returns None where Go panics (x % 0 on an empty partition list).  The counter
   is a uint64 (after the fix of the 2^32 wrap); ChunkSize >= 1 after the
   normalisation, so uint64(ChunkSize) is never 0. *)
Definition rr_step (s : rr_state) (ps : list Z) : option (Z * rr_state) :=
  let chunk := if (s.(rr_chunk) <? 1)%Z then 1%Z else s.(rr_chunk) in
  let c64 := u64 chunk in
  if c64 =? 0 then None else
  match ps with
  | [] => None
  | _ =>
    let off := (s.(rr_counter) / c64) mod lenN ps in
    Some (nthZ ps off,
          {| rr_chunk := chunk; rr_counter := add64 s.(rr_counter) 1 |})
  end.

(* ---- randomBalancer: rand.Int() is an environment choice [r] ---- *)
Definition random_pick (mock : Z) (r : N) (ps : list Z) : option Z :=
  if (mock =? 0)%Z then
    match ps with [] => None | _ => Some (nthZ ps (r mod lenN ps)) end
  else Some mock.

(* ---- Hash / ReferenceHash with the default FNV-1a hasher ---- *)
Definition hash_index (sum : N) (n : Z) : Z :=
  let p := Z.rem (s32 sum) n in
  if (p <? 0)%Z then (- p)%Z else p.
Definition refhash_index (sum : N) (n : Z) : Z :=
  Z.rem (Z.land (s32 sum) 2147483647) n.

(* int32(len(partitions)) *)
Definition len32 (ps : list Z) : Z := s32 (lenN ps).

Definition hash_step (s : rr_state) (key : option (list N)) (ps : list Z)
  : option (Z * rr_state) :=
  match key with
  | None => rr_step s ps
  | Some k => if (len32 ps =? 0)%Z then None
              else Some (hash_index (fnv1a32 k) (len32 ps), s)
  end.

Definition refhash_balance (r : N) (key : option (list N)) (ps : list Z) : option Z :=
  match key with
  | None => random_pick 0 r ps
  | Some k => if (len32 ps =? 0)%Z then None
              else Some (refhash_index (fnv1a32 k) (len32 ps))
  end.

(* ---- CRC32Balancer / Murmur2Balancer ---- *)
Definition key_bytes (key : option (list N)) : list N :=
  match key with None => [] | Some k => k end.

Definition crc32_balance (consistent : bool) (r : N) (key : option (list N)) (ps : list Z)
  : option Z :=
  if (match key_bytes key with [] => true | _ => false end) && negb consistent
  then random_pick 0 r ps
  else let n32 := w32 (lenN ps) in
       if n32 =? 0 then None
       else Some (nthZ ps (crc32_ieee (key_bytes key) mod n32)).

Definition murmur2_balance (consistent : bool) (r : N) (key : option (list N)) (ps : list Z)
  : option Z :=
  if (match key with None => true | _ => false end) && negb consistent
  then random_pick 0 r ps
  else let n32 := w32 (lenN ps) in
       if n32 =? 0 then None
       else Some (nthZ ps (N.land (murmur2 (key_bytes key)) 2147483647 mod n32)).

(* ---- LeastBytes (balancer.go:87) ---- *)
Definition lb_counter := (Z * N)%type.  (* partition, bytes (uint64) *)

Fixpoint insertZ (x : Z) (l : list Z) : list Z :=
  match l with
  | [] => [x]
  | y :: t => if (x <=? y)%Z then x :: l else y :: insertZ x t
  end.
Definition sortZ (l : list Z) : list Z := fold_right insertZ [] l.

Definition lb_make (ps : list Z) : list lb_counter := map (fun p => (p, 0)) (sortZ ps).

(* index of the first strict minimum, as the Go loop computes it *)
Fixpoint lb_min_from (cs : list lb_counter) (i : nat) (minI : nat) (minB : N) {struct cs} : nat :=
  match cs with
  | [] => minI
  | (_, b) :: t => if b <? minB then lb_min_from t (S i) i b else lb_min_from t (S i) minI minB
  end.
Definition lb_min_index (cs : list lb_counter) : nat :=
  match cs with
  | [] => O
  | (_, b) :: t => lb_min_from t 1 0 b
  end.

Fixpoint lb_bump (cs : list lb_counter) (i : nat) (sz : N) : list lb_counter :=
  match cs, i with
  | [], _ => []
  | (p, b) :: t, O => (p, add64 b sz) :: t
  | c :: t, S j => c :: lb_bump t j sz
  end.

(* [sz] = uint64(len(Key)) + uint64(len(Value)) *)
Definition lb_step (cs : list lb_counter) (sz : N) (ps : list Z)
  : option (Z * list lb_counter) :=
  let cs := if Nat.eqb (length ps) (length cs) then cs else lb_make ps in
  match cs with
  | [] => None
  | _ => let i := lb_min_index cs in
         Some (fst (nth i cs ((-1)%Z, 0)), lb_bump cs i sz)
  end.
