(* Model/SkeletonAssumptions.v — the synchronisation-skeleton assumptions of the atomic-step
   models (DESIGN.md 2.4), as data, and their boolean checker over the facts that
   harness/cmd/vskel extracts from /repo's current source (Gen/Skeleton.v: [calls],
   [accesses]).  Each label of an LTS model stands for a Go critical section; the
   assumptions below say, per label, which lock the code of that label must hold and which
   functions may perform it.  Definitions only. *)
From Coq Require Import List String Bool.
From KV Require Import Model.DRF.
Import ListNotations.
Open Scope string_scope.

Inductive assumption :=
| CallHolds (callee lock : string)
    (* there is a call fact of callee, and every one (call, go, defer, value use) is made
       with lock held exclusively *)
| UsesWithin (callee : string) (uses : list (chow * string))
    (* there is a call fact of callee, and every one is one of these (how, caller) *)
| UsedExactlyOnce (callee : string) (how : chow) (caller : string)
    (* exactly one call fact of callee exists; it has this how and caller *)
| CallAfterWrite (callee field : string)
    (* there is a call fact of callee, and at every one "T.f" has been written earlier on
       every path of the calling function (or its callers) *)
| CallAfterCall (callee other : string)
    (* ... and at every one the call [other] has been executed earlier on every path *)
| CallNotAfter (callee other : string)
    (* ... and at none of them the call [other] can have been executed earlier in the same
       function body *)
| CallInGo (callee : string) (b : bool)
    (* there is a call fact of callee, and every one is (b = true) / is not (b = false)
       inside the operand of a go statement *)
| CallFree (callee lock : string)
    (* there is a call fact of callee, and none is made with lock held (in any mode): a
       blocking operation that the model performs as a step of its own, outside the section *)
| CalleesWithPrefix (prefix : string) (allowed : list string)
    (* there is a call fact whose callee starts with prefix, and every such callee is allowed
       (e.g. every make(async, n) has n = 1) *)
| InCaller (caller : string) (a : assumption)
    (* a, restricted to the call facts whose caller is [caller] *)
| FieldHolds (ty fd lock : string)
    (* there is a non-fresh access fact of ty.fd, and every one holds lock exclusively *)
| FieldHoldsExcept (ty fd lock : string) (funcs : list string)
    (* ... except the accesses made in these functions (each argued where it is used) *)
| FieldAtomic (ty fd : string).
    (* there is a non-fresh access fact of ty.fd, and every one is a sync/atomic operation *)

Definition chow_eqb (a b : chow) : bool :=
  match a, b with HCall, HCall | HGo, HGo | HDefer, HDefer | HValue, HValue => true | _, _ => false end.

Definition facts_of (callee : string) (calls : list call_fact) : list call_fact :=
  filter (fun c => String.eqb (k_callee c) callee) calls.

Definition nonempty {A} (l : list A) : bool := match l with [] => false | _ => true end.

Fixpoint call_violates (a : assumption) (c : call_fact) {struct a} : bool :=
  match a with
  | CallHolds callee l => String.eqb (k_callee c) callee && negb (has_lock l MW (k_locks c))
  | UsesWithin callee uses =>
      String.eqb (k_callee c) callee
      && negb (existsb (fun u => chow_eqb (fst u) (k_how c) && String.eqb (snd u) (k_caller c)) uses)
  | UsedExactlyOnce callee how caller =>
      String.eqb (k_callee c) callee && negb (chow_eqb how (k_how c) && String.eqb caller (k_caller c))
  | CallAfterWrite callee f => String.eqb (k_callee c) callee && negb (str_in f (k_written c))
  | CallAfterCall callee o => String.eqb (k_callee c) callee && negb (str_in o (k_after c))
  | CallNotAfter callee o => String.eqb (k_callee c) callee && str_in o (k_maybe c)
  | CallInGo callee b => String.eqb (k_callee c) callee && negb (Bool.eqb b (k_in_go c))
  | CallFree callee l =>
      String.eqb (k_callee c) callee && (has_lock l MW (k_locks c) || has_lock l MR (k_locks c))
  | CalleesWithPrefix p allowed => String.prefix p (k_callee c) && negb (str_in (k_callee c) allowed)
  | InCaller caller a' => String.eqb (k_caller c) caller && call_violates a' c
  | FieldHolds _ _ _ | FieldHoldsExcept _ _ _ _ | FieldAtomic _ _ => false
  end.

Definition is_field (ty fd : string) (f : access_fact) : bool :=
  String.eqb (a_type f) ty && String.eqb (a_field f) fd && negb (a_fresh f).

Definition access_violates (a : assumption) (f : access_fact) : bool :=
  match a with
  | FieldHolds ty fd l => is_field ty fd f && negb (has_lock l MW (a_locks f))
  | FieldHoldsExcept ty fd l funcs =>
      is_field ty fd f && negb (str_in (a_func f) funcs) && negb (has_lock l MW (a_locks f))
  | FieldAtomic ty fd => is_field ty fd f && match a_kind f with KAtomic => false | _ => true end
  | _ => false
  end.

Fixpoint subject_present (a : assumption) (calls : list call_fact) (accs : list access_fact) {struct a} : bool :=
  match a with
  | CallHolds callee _ | UsesWithin callee _ | CallAfterWrite callee _ | CallInGo callee _
  | CallFree callee _ | CallAfterCall callee _ | CallNotAfter callee _ =>
      nonempty (facts_of callee calls)
  | UsedExactlyOnce callee _ _ => Nat.eqb (List.length (facts_of callee calls)) 1
  | CalleesWithPrefix p _ => existsb (fun c => String.prefix p (k_callee c)) calls
  | InCaller caller a' => subject_present a' (filter (fun c => String.eqb (k_caller c) caller) calls) accs
  | FieldHolds ty fd _ | FieldHoldsExcept ty fd _ _ | FieldAtomic ty fd => existsb (is_field ty fd) accs
  end.

Definition assumption_ok (calls : list call_fact) (accs : list access_fact) (a : assumption) : bool :=
  subject_present a calls accs
  && negb (existsb (call_violates a) calls)
  && negb (existsb (access_violates a) accs).

Definition calls_ok (calls : list call_fact) (accs : list access_fact) (asms : list assumption) : bool :=
  forallb (assumption_ok calls accs) asms.

(* diagnostics for the check scripts: the assumptions that fail, with the offending sites *)
Definition failing (calls : list call_fact) (accs : list access_fact) (asms : list assumption)
  : list (assumption * list (string * string * string) * list (string * string * string)) :=
  map (fun a => (a,
                 map (fun c => (k_caller c, k_callee c, k_pos c)) (filter (call_violates a) calls),
                 map (fun f => (a_func f, a_type f ++ "." ++ a_field f, a_pos f)) (filter (access_violates a) accs)))
      (filter (fun a => negb (assumption_ok calls accs a)) asms).

(* ------------------------------------------------------------------ Writer (Model/Writer.v)
   Label            Go code                                            assumption
   Call             enter(): closed?, group.Add(1) in one section       W1, W2
                    of w.mutex
   Assign           batchMessages: ONE critical section of w.mutex;     W3-W9
                    per partition writeMessages under ptw.mutex:
                    add / full / trigger / Put / new batch (spawn
                    awaitBatch) / new partition writer (spawn
                    writeBatches)
   Timer            awaitBatch timer branch: ONE critical section of    W7, W10, W11
                    ptw.mutex: if currBatch == batch { Put; currBatch
                    = nil }
   Get, SenderExit  queue.Get by the one sender goroutine               W12
   Attempt, Finish  writeBatch / produce / complete by the sender       W14-W16
   Return           <-batch.done after complete wrote batch.err         W17
   CloseMark        Close: one section of w.mutex: closed = true,       W2, W18-W20
                    ptw.close() (Put, trigger, queue.Close under
                    ptw.mutex too)
   CloseWaitDone    group.Wait() after the mark                         W21 *)
Definition writer_assumptions : list assumption := [
  (* W1  *) CallHolds "Writer.group.Add" "Writer.mutex";
  (* W2  *) FieldHolds "Writer" "closed" "Writer.mutex";
  (* W3  *) FieldHolds "Writer" "writers" "Writer.mutex";
  (* W4  *) CallHolds "partitionWriter.writeMessages" "Writer.mutex";
  (* W5  *) CallHolds "newPartitionWriter" "Writer.mutex";
  (* W6  *) UsesWithin "newPartitionWriter" [(HCall, "Writer.batchMessages")];
  (* W7  *) CallHolds "batchQueue.Put" "partitionWriter.mutex";
  (* W8  *) CallHolds "writeBatch.add" "partitionWriter.mutex";
            CallHolds "writeBatch.full" "partitionWriter.mutex";
            CallHolds "writeBatch.trigger" "partitionWriter.mutex";
            CallHolds "partitionWriter.newWriteBatch" "partitionWriter.mutex";
            UsesWithin "writeBatch.add" [(HCall, "partitionWriter.writeMessages")];
  (* W9  *) UsedExactlyOnce "partitionWriter.writeBatches" HValue "newPartitionWriter";
            UsesWithin "Writer.spawn" [(HCall, "newPartitionWriter"); (HCall, "partitionWriter.newWriteBatch")];
            CallHolds "Writer.spawn" "Writer.mutex";
            UsedExactlyOnce "partitionWriter.awaitBatch" HCall "partitionWriter.newWriteBatch$1";
            CallInGo "partitionWriter.awaitBatch" true;
  (* W10 *) FieldHolds "partitionWriter" "currBatch" "partitionWriter.mutex";
  (* W11 *) UsesWithin "batchQueue.Put" [(HCall, "partitionWriter.writeMessages");
                                          (HCall, "partitionWriter.awaitBatch");
                                          (HCall, "partitionWriter.close")];
  (* W12 *) UsedExactlyOnce "batchQueue.Get" HCall "partitionWriter.writeBatches";
  (* W14 *) UsedExactlyOnce "partitionWriter.writeBatch" HCall "partitionWriter.writeBatches";
  (* W15 *) UsedExactlyOnce "Writer.produce" HCall "partitionWriter.writeBatch";
  (* W16 *) UsedExactlyOnce "writeBatch.complete" HCall "partitionWriter.writeBatch";
  (* W17 *) UsedExactlyOnce "close(writeBatch.done)" HCall "writeBatch.complete";
            CallAfterWrite "close(writeBatch.done)" "writeBatch.err";
            UsesWithin "recv(writeBatch.done)" [(HCall, "Writer.WriteMessages")];
  (* W18 *) UsedExactlyOnce "partitionWriter.close" HCall "Writer.Close";
            CallHolds "partitionWriter.close" "Writer.mutex";
            CallAfterWrite "partitionWriter.close" "Writer.closed";
  (* W19 *) UsedExactlyOnce "batchQueue.Close" HCall "partitionWriter.close";
            CallHolds "batchQueue.Close" "partitionWriter.mutex";
  (* W20 *) UsedExactlyOnce "close(writeBatch.ready)" HCall "writeBatch.trigger";
  (* W21 *) UsedExactlyOnce "Writer.group.Wait" HCall "Writer.Close";
            CallAfterWrite "Writer.group.Wait" "Writer.closed";
            UsesWithin "Writer.group.Done" [(HCall, "Writer.leave"); (HDefer, "Writer.spawn$1")]
].

Definition writer_assumptions_hold (calls : list call_fact) (accs : list access_fact) : bool :=
  calls_ok calls accs writer_assumptions.

(* ------------------------------------------------- consumer group (Model/ConsumerGroup.v)
   Label / control point      Go code                                        assumption
   Start (accounted or not)   Generation.Start: one section of g.lock:        G1, G2, G10
                              closed? routines++; go func
   function exit              Start's goroutine epilogue: one section of       G1-G4
                              g.lock: close(done) once, routines--, last one
                              closes joined
   PCloseLock / PCloseWait    Generation.close: section of g.lock (close(done)  G1-G3, G5, G6
                              once, read routines), THEN <-joined outside it
   PPublish / POffer          cg.next <- gen, cg.errs <- err by the run         G8, G9
                              goroutine only
   run goroutine              started once by NewConsumerGroup, accounted by    G7, G11
                              cg.wg; Close: closeOnce.Do(close(done)); wg.Wait *)
Definition consumergroup_assumptions : list assumption := [
  (* G1  *) FieldHolds "Generation" "routines" "Generation.lock";
  (* G2  *) FieldHolds "Generation" "closed" "Generation.lock";
  (* G3  *) UsesWithin "close(Generation.done)" [(HCall, "Generation.close"); (HCall, "Generation.Start$1")];
            CallHolds "close(Generation.done)" "Generation.lock";
  (* G4  *) UsedExactlyOnce "close(Generation.joined)" HCall "Generation.Start$1";
            CallHolds "close(Generation.joined)" "Generation.lock";
            CallAfterWrite "close(Generation.joined)" "Generation.routines";
            CallInGo "close(Generation.joined)" true;
  (* G5  *) UsedExactlyOnce "recv(Generation.joined)" HCall "Generation.close";
            CallFree "recv(Generation.joined)" "Generation.lock";
  (* G6  *) UsesWithin "Generation.close" [(HCall, "ConsumerGroup.nextGeneration")];
            CallFree "Generation.close" "Generation.lock";
  (* G7  *) UsedExactlyOnce "ConsumerGroup.run" HCall "NewConsumerGroup$1";
            CallInGo "ConsumerGroup.run" true;
            UsedExactlyOnce "ConsumerGroup.nextGeneration" HCall "ConsumerGroup.run";
            UsesWithin "ConsumerGroup.leaveGroup" [(HCall, "ConsumerGroup.run")];
  (* G8  *) UsedExactlyOnce "close(ConsumerGroup.done)" HCall "ConsumerGroup.Close$1";
            UsedExactlyOnce "ConsumerGroup.closeOnce.Do" HCall "ConsumerGroup.Close";
  (* G9  *) UsedExactlyOnce "send(ConsumerGroup.next)" HCall "ConsumerGroup.nextGeneration";
            UsedExactlyOnce "send(ConsumerGroup.errs)" HCall "ConsumerGroup.run";
            UsesWithin "recv(ConsumerGroup.next)" [(HCall, "ConsumerGroup.Next")];
            UsesWithin "recv(ConsumerGroup.errs)" [(HCall, "ConsumerGroup.Next")];
  (* G10 *) UsesWithin "Generation.Start" [(HCall, "Generation.heartbeatLoop"); (HCall, "Generation.partitionWatcher");
                                            (HCall, "Reader.run")];
            CallFree "Generation.Start" "Generation.lock";
  (* G11 *) UsedExactlyOnce "ConsumerGroup.wg.Add" HCall "NewConsumerGroup";
            UsedExactlyOnce "ConsumerGroup.wg.Done" HCall "NewConsumerGroup$1";
            UsedExactlyOnce "ConsumerGroup.wg.Wait" HCall "ConsumerGroup.Close"
].

Definition consumergroup_assumptions_hold (calls : list call_fact) (accs : list access_fact) : bool :=
  calls_ok calls accs consumergroup_assumptions.

(* -------------------------- Reader (Model/Lifecycle.v, Model/GroupReader.v, Model/ReaderModel.v)
   Label / step                 Go code (reader.go)                              assumption
   LFLock, LFetchSnap           FetchMessage loop head: ONE section of r.mutex:    R1-R3, R5
                                closed? version==0 -> start; snapshot version
   LFRecv, LFetchRecv           <-r.msgs outside the mutex, then ONE section:      R3, R9
                                offset/lag update when version unchanged
   LFEof                        r.msgs closed and drained                          R10
   LFRunErr                     <-r.runError (sent by run without blocking)        R15
   LSetOffset                   SetOffset: ONE section of r.mutex: offset, start   R3, R5
   start (inside the mutex)     r.cancel(); r.cancel = ..; r.version++;            R4-R7
                                r.join.Add(n); go func per partition -> reader.run
   LFPush / LFPushErr,          reader.sendMessage / sendError are the only        R8
   LReaderEmit                  senders on r.msgs (select with ctx.Done)
   LCCheck, LCEnq, LCommitCall  CommitMessages: non-blocking stctx check BEFORE    R14
                                the enqueue select; errch buffered (cap 1)
   LLoopRecv, LClTake           commit loops are the only receivers of r.commits   R14
   LCloseStep: CLMark           Close: ONE section of r.mutex: read+set closed     R1
     CLCancel, CLStop, CLJoin   then r.cancel(), r.stop(), r.join.Wait() in this   R4, R12
                                order, outside the mutex
     CLDone, CLMsgs             <-r.done (group), then close(r.msgs): the only     R10, R11
                                close of r.msgs, after join.Wait and <-r.done
   LRSub, LSubscribe            Reader.run (one goroutine, started by NewReader):  R13, R16
                                subscribe -> start under r.mutex
   LRStartC, LRStartU           gen.Start(commitLoop), gen.Start(unsubscribe       R16, R18
                                waiter) by Reader.run only
   LUnCancel, LUnJoin,          unsubscribe: section of r.mutex reading r.cancel,  R4, R16, R17
   LUnsubscribe                 cancel, THEN r.join.Wait() outside the mutex
   LRDone                       deferred close(r.done): once, by Reader.run        R13
   LGClose, LGJoined            Generation.close: one section of g.lock, then      R19
                                <-g.joined; no early return when already closed *)
Definition reader_assumptions : list assumption := [
  (* R1  *) FieldHolds "Reader" "closed" "Reader.mutex";
  (* R2  *) FieldHolds "Reader" "version" "Reader.mutex";
  (* R3  *) FieldHolds "Reader" "offset" "Reader.mutex";
            FieldHolds "Reader" "lag" "Reader.mutex";
  (* R4  *) FieldHoldsExcept "Reader" "cancel" "Reader.mutex" ["Reader.Close"];
            (* Close calls r.cancel() after its section set closed; start, the only writer, is a no-op once closed *)
            UsesWithin "Reader.cancel()" [(HCall, "Reader.start"); (HCall, "Reader.Close")];
            (* unsubscribe copies r.cancel inside its section of r.mutex and calls the copy after it *)
  (* R5  *) CallHolds "Reader.start" "Reader.mutex";
            UsesWithin "Reader.start" [(HCall, "Reader.FetchMessage"); (HCall, "Reader.SetOffset"); (HCall, "Reader.subscribe")];
  (* R6  *) UsedExactlyOnce "go:Reader.start$1" HGo "Reader.start";
            CallHolds "go:Reader.start$1" "Reader.mutex";
            CallAfterCall "go:Reader.start$1" "Reader.join.Add";
            CallAfterWrite "go:Reader.start$1" "Reader.version";
            UsedExactlyOnce "Reader.join.Add" HCall "Reader.start";
            CallHolds "Reader.join.Add" "Reader.mutex";
  (* R7  *) UsedExactlyOnce "reader.run" HCall "Reader.start$1";
            CallInGo "reader.run" true;
  (* R8  *) UsesWithin "send(reader.msgs)" [(HCall, "reader.sendMessage"); (HCall, "reader.sendError")];
            UsesWithin "reader.sendMessage" [(HCall, "reader.read")];
            UsesWithin "reader.sendError" [(HCall, "reader.run")];
            UsedExactlyOnce "reader.read" HCall "reader.run";
  (* R9  *) UsedExactlyOnce "recv(Reader.msgs)" HCall "Reader.FetchMessage";
            CallFree "recv(Reader.msgs)" "Reader.mutex";
  (* R10 *) UsedExactlyOnce "close(Reader.msgs)" HCall "Reader.Close";
            CallAfterCall "close(Reader.msgs)" "Reader.join.Wait";
            CallAfterCall "close(Reader.msgs)" "Reader.stop()";
            CallAfterCall "close(Reader.msgs)" "Reader.cancel()";
            CallAfterWrite "close(Reader.msgs)" "Reader.closed";
            CallFree "close(Reader.msgs)" "Reader.mutex";
  (* R11 *) UsedExactlyOnce "recv(Reader.done)" HCall "Reader.Close";
            CallAfterCall "recv(Reader.done)" "Reader.join.Wait";
            CallNotAfter "recv(Reader.done)" "close(Reader.msgs)";
  (* R12 *) UsedExactlyOnce "Reader.stop()" HCall "Reader.Close";
            CallAfterCall "Reader.stop()" "Reader.cancel()";
            CallAfterWrite "Reader.stop()" "Reader.closed";
            InCaller "Reader.Close" (CallAfterCall "Reader.join.Wait" "Reader.stop()");
            InCaller "Reader.Close" (CallAfterCall "Reader.cancel()" "unlock(Reader.mutex)");
            UsesWithin "Reader.join.Wait" [(HCall, "Reader.Close"); (HCall, "Reader.unsubscribe")];
  (* R13 *) UsedExactlyOnce "Reader.run" HGo "NewReader";
            UsedExactlyOnce "close(Reader.done)" HDefer "Reader.run";
  (* R14 *) UsedExactlyOnce "send(Reader.commits)" HCall "Reader.CommitMessages";
            CallAfterCall "send(Reader.commits)" "Reader.stctx.Done";
            UsesWithin "recv(Reader.commits)" [(HCall, "Reader.commitLoopImmediate"); (HCall, "Reader.commitLoopInterval")];
            InCaller "Reader.CommitMessages" (CalleesWithPrefix "makechan(" ["makechan(chan error,1)"]);
  (* R15 *) UsedExactlyOnce "send(Reader.runError)" HCall "Reader.run";
            UsedExactlyOnce "recv(Reader.runError)" HCall "Reader.FetchMessage";
  (* R16 *) UsedExactlyOnce "Reader.subscribe" HCall "Reader.run";
            UsedExactlyOnce "Reader.unsubscribe" HCall "Reader.run$4";
            CallInGo "Reader.unsubscribe" true;
            CallAfterCall "Reader.unsubscribe" "Reader.stctx.Done";
            InCaller "Reader.run" (UsesWithin "Generation.Start" [(HCall, "Reader.run")]);
  (* R17 *) CallFree "Reader.join.Wait" "Reader.mutex";
            InCaller "Reader.unsubscribe" (CallAfterCall "Reader.join.Wait" "unlock(Reader.mutex)");
  (* R18 *) UsedExactlyOnce "Reader.commitLoop" HCall "Reader.run$3";
            CallInGo "Reader.commitLoop" true;
            UsesWithin "Reader.commitOffsetsWithRetry"
              [(HCall, "Reader.commitLoopImmediate"); (HCall, "Reader.commitLoopInterval$1")];
  (* R19 *) (* LGClose / LGJoined of Model/Lifecycle.v ("gen.close() waits for every accounted function", also
               when the generation has already ended on its own): Generation.close is ONE section of g.lock —
               a single unlock, no early way out — followed, outside the lock, by the only <-g.joined *)
            InCaller "Generation.close" (UsedExactlyOnce "unlock(Generation.lock)" HCall "Generation.close");
            InCaller "Generation.close" (UsedExactlyOnce "lock(Generation.lock)" HCall "Generation.close");
            UsedExactlyOnce "recv(Generation.joined)" HCall "Generation.close";
            InCaller "Generation.close" (CallAfterCall "recv(Generation.joined)" "unlock(Generation.lock)");
            CallFree "recv(Generation.joined)" "Generation.lock";
            UsesWithin "Generation.close" [(HCall, "ConsumerGroup.nextGeneration")]
].

Definition reader_assumptions_hold (calls : list call_fact) (accs : list access_fact) : bool :=
  calls_ok calls accs reader_assumptions.

(* ------------------------- connection ownership (Model/Lifecycle.v lookup steps, Model/TransportConnect.v)
   Label                        Go code                                              assumption
   LFDial / LFLookup /          Dialer.LookupPartition(s): the lookup connection is    L1
   LFSeeCancel (FLookup)        closed by a defer of the FUNCTION (every way out,
                                also <-ctx.Done()), registered before the helper
                                goroutine starts; the helper's read has no deadline
   TSetupOk (TSetup false)      grabConnOrConnect's helper, case <-ctx.Done():          L2
                                if !g.releaseConn(c) { c.close() } *)
Definition lifecycle_assumptions : list assumption := [
  (* L1 *) InCaller "Dialer.LookupPartition" (UsedExactlyOnce "Conn.Close" HDefer "Dialer.LookupPartition");
           InCaller "Dialer.LookupPartition" (CallNotAfter "Conn.Close" "go:Dialer.LookupPartition$1");
           InCaller "Dialer.LookupPartitions" (UsedExactlyOnce "Conn.Close" HDefer "Dialer.LookupPartitions");
           InCaller "Dialer.LookupPartitions" (CallNotAfter "Conn.Close" "go:Dialer.LookupPartitions$1");
  (* L2 *) InCaller "connGroup.grabConnOrConnect$1" (UsedExactlyOnce "conn.close" HCall "connGroup.grabConnOrConnect$1");
           InCaller "connGroup.grabConnOrConnect$1" (CallAfterCall "conn.close" "connGroup.releaseConn");
           InCaller "connGroup.grabConnOrConnect$1" (CallAfterCall "connGroup.releaseConn" "connGroup.connect")
].

Definition lifecycle_assumptions_hold (calls : list call_fact) (accs : list access_fact) : bool :=
  calls_ok calls accs lifecycle_assumptions.

(* ---------------------------------------------- Conn (Model/ConnMux.v, Model/ConnOps.v conn_do)
   Label            Go code (conn.go, batch.go)                                   assumption
   Enter            doRequest: c.enter() (atomic inflight++) before wlock          K1
   LockW            c.wlock.Lock(), only in doRequest, never while holding rlock   K2
   Send             ONE section of wlock: correlationID++, write callback,         K2, K3, K10
                    deadline set/unset, [error: conn.Close, leave], Unlock
   LockR            c.rlock.Lock(), only in waitResponse, after the request was    K5
                    written, never while holding wlock
   PeekOwn/Other/   peek / skip / concurrency() under rlock; rlock released in     K6, K7
   Fail             waitResponse only on the not-mine / error paths; leave()
   ReadDone         Conn.do: read callback, [non-Kafka error: conn.Close], then    K7, K8, K11
                    the ONLY release of the handed-over rlock besides Batch.close
   BatchOpen/Close  ReadBatchWith keeps rlock in the Batch; Batch.close (under     K7, K9, K12
                    batch.mutex) stores conn.offset under conn.mutex and unlocks *)
Definition conn_assumptions : list assumption := [
  (* K1  *) FieldAtomic "Conn" "inflight";
            UsedExactlyOnce "Conn.enter" HCall "Conn.doRequest";
            CallFree "Conn.enter" "Conn.wlock";
            CallAfterCall "lock(Conn.wlock)" "Conn.enter";
            UsesWithin "Conn.leave" [(HCall, "Conn.doRequest"); (HCall, "Conn.waitResponse")];
            InCaller "Conn.doRequest" (CallHolds "Conn.leave" "Conn.wlock");
  (* K2  *) UsedExactlyOnce "lock(Conn.wlock)" HCall "Conn.doRequest";
            UsedExactlyOnce "unlock(Conn.wlock)" HCall "Conn.doRequest";
            CallFree "lock(Conn.wlock)" "Conn.rlock";
  (* K3  *) FieldHolds "Conn" "correlationID" "Conn.wlock";
            FieldHolds "Conn" "wbuf" "Conn.wlock";
            FieldHoldsExcept "Conn" "wb" "Conn.wlock" ["Conn.saslAuthenticate"];  (* raw SASL v0 exchange, during dial only *)
  (* K5  *) UsedExactlyOnce "lock(Conn.rlock)" HCall "Conn.waitResponse";
            CallFree "lock(Conn.rlock)" "Conn.wlock";
            CallAfterCall "lock(Conn.rlock)" "Conn.doRequest";
  (* K6  *) UsedExactlyOnce "Conn.peekResponseSizeAndID" HCall "Conn.waitResponse";
            CallHolds "Conn.peekResponseSizeAndID" "Conn.rlock";
            UsedExactlyOnce "Conn.skipResponseSizeAndID" HCall "Conn.waitResponse";
            CallHolds "Conn.skipResponseSizeAndID" "Conn.rlock";
            CallAfterCall "Conn.skipResponseSizeAndID" "Conn.peekResponseSizeAndID";
            UsedExactlyOnce "Conn.concurrency" HCall "Conn.waitResponse";
            CallHolds "Conn.concurrency" "Conn.rlock";
  (* K7  *) UsesWithin "unlock(Conn.rlock)" [(HCall, "Conn.waitResponse")];
            CallHolds "unlock(Conn.rlock)" "Conn.rlock";
            UsesWithin "unlock(?lock)" [(HCall, "Conn.do"); (HCall, "Batch.close")];
            InCaller "Conn.do" (UsedExactlyOnce "unlock(?lock)" HCall "Conn.do");
            InCaller "Conn.do" (CallAfterCall "unlock(?lock)" "Conn.waitResponse");
            InCaller "Batch.close" (UsedExactlyOnce "unlock(?lock)" HCall "Batch.close");
  (* K8  *) UsesWithin "Conn.waitResponse" [(HCall, "Conn.do"); (HCall, "Conn.ReadBatchWith")];
            CallAfterCall "Conn.waitResponse" "Conn.doRequest";
            CallFree "Conn.waitResponse" "Conn.wlock";
            CallFree "Conn.waitResponse" "Conn.rlock";
            UsesWithin "Conn.doRequest" [(HCall, "Conn.do"); (HCall, "Conn.ReadBatchWith")];
            CallFree "Conn.doRequest" "Conn.rlock";
            UsesWithin "Conn.do" [(HCall, "Conn.readOperation"); (HCall, "Conn.writeOperation"); (HCall, "Conn.ApiVersions")];
  (* K9  *) UsedExactlyOnce "Batch.close" HCall "Batch.Close";
            CallHolds "Batch.close" "Batch.mutex";
            FieldHolds "Batch" "lock" "Batch.mutex";
            FieldHolds "Batch" "conn" "Batch.mutex";
  (* K10 *) CallHolds "connDeadline.setConnWriteDeadline" "Conn.wlock";
            CallHolds "connDeadline.unsetConnWriteDeadline" "Conn.wlock";
            CallHolds "connDeadline.setConnReadDeadline" "Conn.rlock";
  (* K11 *) UsesWithin "Conn.conn.Close" [(HCall, "Conn.Close"); (HCall, "Conn.do"); (HCall, "Conn.doRequest");
                                         (HCall, "Conn.waitResponse")];
            InCaller "Conn.doRequest" (CallHolds "Conn.conn.Close" "Conn.wlock");
            InCaller "Conn.waitResponse" (CallHolds "Conn.conn.Close" "Conn.rlock");
  (* K12 *) FieldHolds "Conn" "offset" "Conn.mutex";
            CallFree "lock(Conn.mutex)" "Conn.wlock";
            CallFree "lock(Conn.mutex)" "Conn.rlock"
].

Definition conn_assumptions_hold (calls : list call_fact) (accs : list access_fact) : bool :=
  calls_ok calls accs conn_assumptions.

(* ------------------------------------------------------ Transport (Model/TransportPool.v)
   Label                  Go code (transport.go)                                   assumption
   grab / release /       grabConn, grabConnTo, releaseConn, removeConn,           T1-T3, T9
   remove / closeIdle     closeIdleConns: each ONE section of connGroup.mutex
                          over idleConns / closed / conn.timer
   connect                connGroup.connect starts conn.run exactly once per       T4, T10
                          conn, on an UNBUFFERED reqs channel
   hand-off (rendez-vous) c.reqs <- connRequest by sendRequest / discover only,    T6
                          with a promise channel of capacity 1 made just before
   conn.run step          roundTrip, then resolve / reject the promise (only in    T5
                          conn.run), then releaseConn
   close                  close(c.reqs) only inside c.once.Do; conn.close called   T7, T8
                          outside the group mutex
   await                  async.await outside every pool/group lock                T12 *)
Definition transport_assumptions : list assumption := [
  (* T1  *) FieldHolds "connGroup" "idleConns" "connGroup.mutex";
            FieldHolds "connGroup" "closed" "connGroup.mutex";
  (* T2  *) FieldHolds "conn" "timer" "connGroup.mutex";
  (* T3  *) UsesWithin "lock(connGroup.mutex)" [(HCall, "connGroup.closeIdleConns"); (HCall, "connGroup.grabConn");
              (HCall, "connGroup.grabConnTo"); (HCall, "connGroup.releaseConn"); (HCall, "connGroup.removeConn")];
            CallFree "lock(connGroup.mutex)" "connGroup.mutex";
            UsesWithin "connGroup.releaseConn" [(HCall, "conn.run"); (HCall, "connGroup.grabConnOrConnect$1")];
            CallFree "connGroup.releaseConn" "connGroup.mutex";
  (* T4  *) UsedExactlyOnce "conn.run" HGo "connGroup.connect";
            CallAfterCall "conn.run" "makechan(chan connRequest,0)";
            CalleesWithPrefix "makechan(chan connRequest" ["makechan(chan connRequest,0)"];
  (* T5  *) UsedExactlyOnce "async.resolve" HCall "conn.run";
            UsedExactlyOnce "async.reject" HCall "conn.run";
            CallAfterCall "async.resolve" "conn.roundTrip";
            CallAfterCall "async.reject" "conn.roundTrip";
            UsedExactlyOnce "conn.roundTrip" HCall "conn.run";
            InCaller "conn.run" (CallAfterCall "connGroup.releaseConn" "conn.roundTrip");
  (* T6  *) CalleesWithPrefix "makechan(async" ["makechan(async,1)"];
            UsesWithin "send(conn.reqs)" [(HCall, "connPool.sendRequest"); (HCall, "connPool.discover")];
            CallAfterCall "send(conn.reqs)" "makechan(async,1)";
            CallFree "send(conn.reqs)" "connGroup.mutex";
            CallFree "send(conn.reqs)" "connPool.mutex";
  (* T7  *) UsedExactlyOnce "close(conn.reqs)" HCall "conn.close$1";
            UsedExactlyOnce "conn.once.Do" HCall "conn.close";
  (* T8  *) UsesWithin "conn.close" [(HCall, "connGroup.closeIdleConns"); (HCall, "connGroup.grabConnOrConnect$1");
                                    (HCall, "connGroup.releaseConn$1")];
            CallFree "conn.close" "connGroup.mutex";
  (* T9  *) UsedExactlyOnce "connGroup.removeConn" HCall "connGroup.releaseConn$1";
            CallFree "connGroup.removeConn" "connGroup.mutex";
  (* T10 *) UsesWithin "connGroup.grabConn" [(HCall, "connGroup.grabConnOrConnect")];
            UsesWithin "connGroup.grabConnTo" [(HCall, "connGroup.grabConnOrConnect")];
            UsedExactlyOnce "connGroup.connect" HCall "connGroup.grabConnOrConnect$1";
            CallInGo "connGroup.connect" true;
            UsesWithin "connGroup.grabConnOrConnect" [(HCall, "connPool.grabBrokerConn"); (HCall, "connPool.grabClusterConn")];
            CallFree "connGroup.grabConnOrConnect" "connPool.mutex";
  (* T11 *) FieldAtomic "connPool" "state";
  (* T12 *) CallFree "async.await" "connGroup.mutex";
            CallFree "async.await" "connPool.mutex";
            CallFree "async.await" "Transport.mutex"
].

Definition transport_assumptions_hold (calls : list call_fact) (accs : list access_fact) : bool :=
  calls_ok calls accs transport_assumptions.
