(* Model/SkeletonAssumptions.v — the synchronisation-skeleton assumptions of the atomic-step
   models (DESIGN.md 2.4), as data, and their boolean checker over the facts that
   harness/cmd/vskel extracts from /repo's current source (Gen/Skeleton.v: [calls],
   [accesses]).  Each label of an LTS model stands for a Go critical section; the
   assumptions below say, per label, which lock the code of that label must hold and which
   functions may perform it.  Definitions only. *)
From Coq Require Import List String Bool.
From KV Require Import Model.DRF.
Import ListNotations.
Open Scope string_scope.

Inductive assumption :=
| CallHolds (callee lock : string)
    (* there is a call fact of callee, and every one (call, go, defer, value use) is made
       with lock held exclusively *)
| UsesWithin (callee : string) (uses : list (chow * string))
    (* there is a call fact of callee, and every one is one of these (how, caller) *)
| UsedExactlyOnce (callee : string) (how : chow) (caller : string)
    (* exactly one call fact of callee exists; it has this how and caller *)
| CallAfterWrite (callee field : string)
    (* there is a call fact of callee, and at every one "T.f" has been written earlier on
       every path of the calling function (or its callers) *)
| CallInGo (callee : string) (b : bool)
    (* there is a call fact of callee, and every one is (b = true) / is not (b = false)
       inside the operand of a go statement *)
| CallFree (callee lock : string)
    (* there is a call fact of callee, and none is made with lock held (in any mode): a
       blocking operation that the model performs as a step of its own, outside the section *)
| FieldHolds (ty fd lock : string).
    (* there is a non-fresh access fact of ty.fd, and every one holds lock exclusively *)

Definition chow_eqb (a b : chow) : bool :=
  match a, b with HCall, HCall | HGo, HGo | HDefer, HDefer | HValue, HValue => true | _, _ => false end.

Definition facts_of (callee : string) (calls : list call_fact) : list call_fact :=
  filter (fun c => String.eqb (k_callee c) callee) calls.

Definition nonempty {A} (l : list A) : bool := match l with [] => false | _ => true end.

Definition call_violates (a : assumption) (c : call_fact) : bool :=
  match a with
  | CallHolds callee l => String.eqb (k_callee c) callee && negb (has_lock l MW (k_locks c))
  | UsesWithin callee uses =>
      String.eqb (k_callee c) callee
      && negb (existsb (fun u => chow_eqb (fst u) (k_how c) && String.eqb (snd u) (k_caller c)) uses)
  | UsedExactlyOnce callee how caller =>
      String.eqb (k_callee c) callee && negb (chow_eqb how (k_how c) && String.eqb caller (k_caller c))
  | CallAfterWrite callee f => String.eqb (k_callee c) callee && negb (str_in f (k_written c))
  | CallInGo callee b => String.eqb (k_callee c) callee && negb (Bool.eqb b (k_in_go c))
  | CallFree callee l =>
      String.eqb (k_callee c) callee && (has_lock l MW (k_locks c) || has_lock l MR (k_locks c))
  | FieldHolds _ _ _ => false
  end.

Definition access_violates (a : assumption) (f : access_fact) : bool :=
  match a with
  | FieldHolds ty fd l =>
      String.eqb (a_type f) ty && String.eqb (a_field f) fd && negb (a_fresh f)
      && negb (has_lock l MW (a_locks f))
  | _ => false
  end.

Definition subject_present (a : assumption) (calls : list call_fact) (accs : list access_fact) : bool :=
  match a with
  | CallHolds callee _ | UsesWithin callee _ | CallAfterWrite callee _ | CallInGo callee _
  | CallFree callee _ =>
      nonempty (facts_of callee calls)
  | UsedExactlyOnce callee _ _ => Nat.eqb (List.length (facts_of callee calls)) 1
  | FieldHolds ty fd _ =>
      existsb (fun f => String.eqb (a_type f) ty && String.eqb (a_field f) fd && negb (a_fresh f)) accs
  end.

Definition assumption_ok (calls : list call_fact) (accs : list access_fact) (a : assumption) : bool :=
  subject_present a calls accs
  && negb (existsb (call_violates a) calls)
  && negb (existsb (access_violates a) accs).

Definition calls_ok (calls : list call_fact) (accs : list access_fact) (asms : list assumption) : bool :=
  forallb (assumption_ok calls accs) asms.

(* diagnostics for the check scripts: the assumptions that fail, with the offending sites *)
Definition failing (calls : list call_fact) (accs : list access_fact) (asms : list assumption)
  : list (assumption * list (string * string * string) * list (string * string * string)) :=
  map (fun a => (a,
                 map (fun c => (k_caller c, k_callee c, k_pos c)) (filter (call_violates a) calls),
                 map (fun f => (a_func f, a_type f ++ "." ++ a_field f, a_pos f)) (filter (access_violates a) accs)))
      (filter (fun a => negb (assumption_ok calls accs a)) asms).

(* ------------------------------------------------------------------ Writer (Model/Writer.v)
   Label            Go code                                            assumption
   Call             enter(): closed?, group.Add(1) in one section       W1, W2
                    of w.mutex
   Assign           batchMessages: ONE critical section of w.mutex;     W3-W9
                    per partition writeMessages under ptw.mutex:
                    add / full / trigger / Put / new batch (spawn
                    awaitBatch) / new partition writer (spawn
                    writeBatches)
   Timer            awaitBatch timer branch: ONE critical section of    W7, W10, W11
                    ptw.mutex: if currBatch == batch { Put; currBatch
                    = nil }
   Get, SenderExit  queue.Get by the one sender goroutine               W12
   Attempt, Finish  writeBatch / produce / complete by the sender       W14-W16
   Return           <-batch.done after complete wrote batch.err         W17
   CloseMark        Close: one section of w.mutex: closed = true,       W2, W18-W20
                    ptw.close() (Put, trigger, queue.Close under
                    ptw.mutex too)
   CloseWaitDone    group.Wait() after the mark                         W21 *)
Definition writer_assumptions : list assumption := [
  (* W1  *) CallHolds "Writer.group.Add" "Writer.mutex";
  (* W2  *) FieldHolds "Writer" "closed" "Writer.mutex";
  (* W3  *) FieldHolds "Writer" "writers" "Writer.mutex";
  (* W4  *) CallHolds "partitionWriter.writeMessages" "Writer.mutex";
  (* W5  *) CallHolds "newPartitionWriter" "Writer.mutex";
  (* W6  *) UsesWithin "newPartitionWriter" [(HCall, "Writer.batchMessages")];
  (* W7  *) CallHolds "batchQueue.Put" "partitionWriter.mutex";
  (* W8  *) CallHolds "writeBatch.add" "partitionWriter.mutex";
            CallHolds "writeBatch.full" "partitionWriter.mutex";
            CallHolds "writeBatch.trigger" "partitionWriter.mutex";
            CallHolds "partitionWriter.newWriteBatch" "partitionWriter.mutex";
            UsesWithin "writeBatch.add" [(HCall, "partitionWriter.writeMessages")];
  (* W9  *) UsedExactlyOnce "partitionWriter.writeBatches" HValue "newPartitionWriter";
            UsesWithin "Writer.spawn" [(HCall, "newPartitionWriter"); (HCall, "partitionWriter.newWriteBatch")];
            CallHolds "Writer.spawn" "Writer.mutex";
            UsedExactlyOnce "partitionWriter.awaitBatch" HCall "partitionWriter.newWriteBatch$1";
            CallInGo "partitionWriter.awaitBatch" true;
  (* W10 *) FieldHolds "partitionWriter" "currBatch" "partitionWriter.mutex";
  (* W11 *) UsesWithin "batchQueue.Put" [(HCall, "partitionWriter.writeMessages");
                                          (HCall, "partitionWriter.awaitBatch");
                                          (HCall, "partitionWriter.close")];
  (* W12 *) UsedExactlyOnce "batchQueue.Get" HCall "partitionWriter.writeBatches";
  (* W14 *) UsedExactlyOnce "partitionWriter.writeBatch" HCall "partitionWriter.writeBatches";
  (* W15 *) UsedExactlyOnce "Writer.produce" HCall "partitionWriter.writeBatch";
  (* W16 *) UsedExactlyOnce "writeBatch.complete" HCall "partitionWriter.writeBatch";
  (* W17 *) UsedExactlyOnce "close(writeBatch.done)" HCall "writeBatch.complete";
            CallAfterWrite "close(writeBatch.done)" "writeBatch.err";
            UsesWithin "recv(writeBatch.done)" [(HCall, "Writer.WriteMessages")];
  (* W18 *) UsedExactlyOnce "partitionWriter.close" HCall "Writer.Close";
            CallHolds "partitionWriter.close" "Writer.mutex";
            CallAfterWrite "partitionWriter.close" "Writer.closed";
  (* W19 *) UsedExactlyOnce "batchQueue.Close" HCall "partitionWriter.close";
            CallHolds "batchQueue.Close" "partitionWriter.mutex";
  (* W20 *) UsedExactlyOnce "close(writeBatch.ready)" HCall "writeBatch.trigger";
  (* W21 *) UsedExactlyOnce "Writer.group.Wait" HCall "Writer.Close";
            CallAfterWrite "Writer.group.Wait" "Writer.closed";
            UsesWithin "Writer.group.Done" [(HCall, "Writer.leave"); (HDefer, "Writer.spawn$1")]
].

Definition writer_assumptions_hold (calls : list call_fact) (accs : list access_fact) : bool :=
  calls_ok calls accs writer_assumptions.

(* ------------------------------------------------- consumer group (Model/ConsumerGroup.v)
   Label / control point      Go code                                        assumption
   Start (accounted or not)   Generation.Start: one section of g.lock:        G1, G2, G10
                              closed? routines++; go func
   function exit              Start's goroutine epilogue: one section of       G1-G4
                              g.lock: close(done) once, routines--, last one
                              closes joined
   PCloseLock / PCloseWait    Generation.close: section of g.lock (close(done)  G1-G3, G5, G6
                              once, read routines), THEN <-joined outside it
   PPublish / POffer          cg.next <- gen, cg.errs <- err by the run         G8, G9
                              goroutine only
   run goroutine              started once by NewConsumerGroup, accounted by    G7, G11
                              cg.wg; Close: closeOnce.Do(close(done)); wg.Wait *)
Definition consumergroup_assumptions : list assumption := [
  (* G1  *) FieldHolds "Generation" "routines" "Generation.lock";
  (* G2  *) FieldHolds "Generation" "closed" "Generation.lock";
  (* G3  *) UsesWithin "close(Generation.done)" [(HCall, "Generation.close"); (HCall, "Generation.Start$1")];
            CallHolds "close(Generation.done)" "Generation.lock";
  (* G4  *) UsedExactlyOnce "close(Generation.joined)" HCall "Generation.Start$1";
            CallHolds "close(Generation.joined)" "Generation.lock";
            CallAfterWrite "close(Generation.joined)" "Generation.routines";
            CallInGo "close(Generation.joined)" true;
  (* G5  *) UsedExactlyOnce "recv(Generation.joined)" HCall "Generation.close";
            CallFree "recv(Generation.joined)" "Generation.lock";
  (* G6  *) UsesWithin "Generation.close" [(HCall, "ConsumerGroup.nextGeneration")];
            CallFree "Generation.close" "Generation.lock";
  (* G7  *) UsedExactlyOnce "ConsumerGroup.run" HCall "NewConsumerGroup$1";
            CallInGo "ConsumerGroup.run" true;
            UsedExactlyOnce "ConsumerGroup.nextGeneration" HCall "ConsumerGroup.run";
            UsesWithin "ConsumerGroup.leaveGroup" [(HCall, "ConsumerGroup.run")];
  (* G8  *) UsedExactlyOnce "close(ConsumerGroup.done)" HCall "ConsumerGroup.Close$1";
            UsedExactlyOnce "ConsumerGroup.closeOnce.Do" HCall "ConsumerGroup.Close";
  (* G9  *) UsedExactlyOnce "send(ConsumerGroup.next)" HCall "ConsumerGroup.nextGeneration";
            UsedExactlyOnce "send(ConsumerGroup.errs)" HCall "ConsumerGroup.run";
            UsesWithin "recv(ConsumerGroup.next)" [(HCall, "ConsumerGroup.Next")];
            UsesWithin "recv(ConsumerGroup.errs)" [(HCall, "ConsumerGroup.Next")];
  (* G10 *) UsesWithin "Generation.Start" [(HCall, "Generation.heartbeatLoop"); (HCall, "Generation.partitionWatcher");
                                            (HCall, "Reader.run")];
            CallFree "Generation.Start" "Generation.lock";
  (* G11 *) UsedExactlyOnce "ConsumerGroup.wg.Add" HCall "NewConsumerGroup";
            UsedExactlyOnce "ConsumerGroup.wg.Done" HCall "NewConsumerGroup$1";
            UsedExactlyOnce "ConsumerGroup.wg.Wait" HCall "ConsumerGroup.Close"
].

Definition consumergroup_assumptions_hold (calls : list call_fact) (accs : list access_fact) : bool :=
  calls_ok calls accs consumergroup_assumptions.
