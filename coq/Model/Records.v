(* Model/Records.v — executable model of kafka-go's two record-set writers and two readers.
   Definitions only.  Byte = N < 256, a buffer is a list of bytes.

   WRITERS
     legacy (Conn):  write.go writeMessage / writeRecord / writeRecordBatch, compressMessageSet,
                     recordbatch.go recordBatchSize / recordSize / compressRecordBatch / writeTo,
                     the record-set part of writeProduceRequestV2 (format 1) and V3/V7 (format 2)
     protocol:       protocol/record.go RecordSet.WriteTo, record_v1.go writeToVersion1,
                     record_v2.go writeToVersion2.  The placeholders these write and later
                     back-patch with WriteAt (set size, batch length, crc, lastOffsetDelta,
                     first/max timestamp, count; message size and crc) are modelled by the
                     final values at their positions.
   READERS
     protocol:       RecordSet.ReadFrom, readFromVersion1 (readMessage), readFromVersion2,
                     RecordStream.ReadRecord (control batches skipped)
     legacy:         message_reader.go messageSetReader (readerStack, readHeader,
                     readMessageV1, readMessageV2, extractOffset, markRead/unwindStack) driven
                     by batch.go Batch.ReadMessage until it returns an error.

   Compression is a parameter: [comp c b] / [decomp c b] for codec id c.
   Time: a record's time is its nanoseconds since the Unix epoch (int64); timestamp() is
   UnixNano()/1e6 with Go's truncating division.  The zero time.Time (year 1) is not
   representable here: Conn replaces it by time.Now() before the writers run. *)
From Coq Require Import List NArith ZArith Bool.
From KV Require Import Lib.Bits Lib.Bytes Lib.Varint Lib.Crc Spec.RecordFormat.
Import ListNotations.
Open Scope Z_scope.

(* a record handed to a writer (kafka.Message / protocol.Record) *)
Record irec := { i_off : Z; i_ns : Z; i_key : obytes; i_val : obytes; i_hdrs : list header }.

Definition get_u (w : nat) (bs : list N) : option (N * list N) :=
  match take w bs with Some (a, r) => Some (get_be a 0%N, r) | None => None end.
Definition ts_ms (ns : Z) : Z := Z.quot ns 1000000.              (* timestamp(t) *)
Definition blen (b : obytes) : Z := match b with None => 0 | Some l => zlen l end.  (* len(b) *)

Fixpoint mapi_from {A B : Type} (f : Z -> A -> B) (i : Z) (l : list A) {struct l} : list B :=
  match l with [] => [] | x :: t => f i x :: mapi_from f (i + 1) t end.
Definition zsum (l : list Z) : Z := fold_right Z.add 0 l.

(* ================================================================== legacy writer *)
(* writeVarInt: zig-zag then base-128 (the 16-byte scratch never fills) *)
Definition var_int_len (i : Z) : Z := Z.of_nat (uvarint_len 10 (zigzag i)).   (* varIntLen *)
Definition var_bytes_len (b : obytes) : Z := var_int_len (blen b) + blen b.     (* varBytesLen: nil counts as len 0 *)
Definition var_string_len (s : list N) : Z := var_int_len (zlen s) + zlen s.
Definition wb_var_bytes (b : obytes) : list N :=                                (* writeVarBytes *)
  match b with Some l => put_varint (zlen l) ++ l | None => put_varint (-1) end.
Definition wb_bytes (b : obytes) : list N :=                                    (* writeBytes / crc32Writer.writeBytes *)
  match b with Some l => put_bes 4 (zlen l) ++ l | None => put_bes 4 (-1) end.

(* the record's timestamp delta: timestamp(msg.Time) - timestamp(baseTime), an int64 *)
Definition ts_delta (base_ns ns : Z) : Z := wrap64 (ts_ms ns - ts_ms base_ns).

Definition hdr_size (h : header) : Z := var_string_len (fst h) + var_bytes_len (snd h).
Definition record_size (base_ns off : Z) (m : irec) : Z :=                      (* recordSize *)
  1 + var_int_len (ts_delta base_ns (i_ns m)) + var_int_len off + var_bytes_len (i_key m) + var_bytes_len (i_val m) +
  (var_int_len (zlen (i_hdrs m)) + zsum (map hdr_size (i_hdrs m))).
Definition write_hdr (h : header) : list N :=
  put_varint (zlen (fst h)) ++ fst h ++ wb_var_bytes (snd h).
Definition write_record (base_ns off : Z) (m : irec) : list N :=                (* writeRecord *)
  put_varint (record_size base_ns off m) ++ put_bes 1 0 ++ put_varint (ts_delta base_ns (i_ns m)) ++ put_varint off ++
  wb_var_bytes (i_key m) ++ wb_var_bytes (i_val m) ++
  put_varint (zlen (i_hdrs m)) ++ concat (map write_hdr (i_hdrs m)).

(* writeRecordBatch: dry run through the crc32Writer (Castagnoli), then the real write.
   int32/int16 conversions are the truncation done by put_bes. *)
Definition write_record_batch (attrs size count base_ns last_ns : Z) (payload : list N) : list N :=
  let tail := put_bes 2 attrs ++ put_bes 4 (count - 1) ++ put_bes 8 (ts_ms base_ns) ++ put_bes 8 (ts_ms last_ns) ++
              put_bes 8 (-1) ++ put_bes 2 (-1) ++ put_bes 4 (-1) ++ put_bes 4 count ++ payload in
  put_bes 8 0 ++ put_bes 4 (size - 12) ++ put_bes 4 (-1) ++ put_bes 1 2 ++ put_be 4 (crc32c tail) ++ tail.

Definition last_ns (ms : list irec) (d : Z) : Z := match rev ms with m :: _ => i_ns m | [] => d end.

Definition message_size (k v : obytes) : Z := 4 + 1 + 1 + 8 + (4 + blen k) + (4 + blen v).
Definition write_message (off attrs ts : Z) (k v : obytes) : list N :=          (* writeMessage, magic 1 *)
  let body := put_bes 1 1 ++ put_bes 1 attrs ++ put_bes 8 ts ++ wb_bytes k ++ wb_bytes v in
  put_bes 8 off ++ put_bes 4 (message_size k v) ++ put_be 4 (crc32_ieee body) ++ body.
Definition message_set_size (kvs : list (obytes * obytes)) : Z :=
  zsum (map (fun kv => 8 + 4 + 4 + 1 + 1 + 8 + (4 + blen (fst kv)) + (4 + blen (snd kv))) kvs).

Section Codec.
Variable comp decomp : N -> list N -> list N.

(* recordBatch: newRecordBatch + writeTo (the int32 set size, then the batch).
   None = the index panic of msgs[0] on an empty list (Conn returns before, for no messages). *)
Definition legacy_v2 (codec : N) (ms : list irec) : option (list N) :=
  match ms with
  | [] => None
  | m0 :: _ =>
    let base := i_ns m0 in
    let raw := concat (mapi_from (write_record base) 0 ms) in
    if (codec =? 0)%N then
      let size := wrap32 (61 + zsum (mapi_from (fun i m => let z := record_size base i m in z + var_int_len z) 0 ms)) in
      Some (put_bes 4 size ++ write_record_batch 0 size (zlen ms) base (last_ns ms base) raw)
    else
      let c := comp codec raw in
      let size := wrap32 (61 + zlen c) in
      Some (put_bes 4 size ++ write_record_batch (Z.of_N codec) size (zlen ms) base (last_ns ms base) c)
  end.

(* the record set of writeProduceRequestV2: uncompressed messages carry Message.Offset as
   given; compressed: inner offsets 0..n-1, one wrapper with offset 0, null key, time zero *)
Definition legacy_v1 (codec : N) (ms : list irec) : list N :=
  if (codec =? 0)%N then
    put_bes 4 (wrap32 (message_set_size (map (fun m => (i_key m, i_val m)) ms))) ++
    concat (map (fun m => write_message (i_off m) 0 (ts_ms (i_ns m)) (i_key m) (i_val m)) ms)
  else
    let inner := concat (mapi_from (fun i m => write_message i 0 (ts_ms (i_ns m)) (i_key m) (i_val m)) 0 ms) in
    let c := Some (comp codec inner) in
    put_bes 4 (wrap32 (message_set_size [(None, c)])) ++ write_message 0 (Z.of_N codec) 0 None c.

(* ================================================================== protocol writer *)
Definition codec_known (c : N) : bool := (1 <=? c)%N && (c <=? 4)%N.     (* compress.Codecs[1..4] *)
(* timestamp(r.Time); 0 is replaced by the current time *)
Definition pts (now ns : Z) : Z := let t := ts_ms ns in if t =? 0 then now else t.
Definition size_of_varint (i : Z) : Z := Z.of_nat (uvarint_len 10 (zigzag i)).  (* (bits.Len64(u|1)+6)/7 *)
Definition size_of_vnb (b : obytes) : Z :=
  match b with None => size_of_varint (-1) | Some l => size_of_varint (zlen l) + zlen l end.
Definition pw_vnb (b : obytes) : list N :=
  match b with None => put_varint (-1) | Some l => put_varint (zlen l) ++ l end.
Definition pw_nb (b : obytes) : list N :=
  match b with None => put_bes 4 (-1) | Some l => put_bes 4 (zlen l) ++ l end.

Definition proto_record (now first i : Z) (r : irec) : list N :=
  let tsd := wrap64 (pts now (i_ns r) - first) in
  let length := 1 + size_of_varint tsd + size_of_varint i + size_of_vnb (i_key r) + size_of_vnb (i_val r) +
                size_of_varint (zlen (i_hdrs r)) +
                zsum (map (fun h => size_of_varint (zlen (fst h)) + zlen (fst h) + size_of_vnb (snd h)) (i_hdrs r)) in
  put_varint length ++ put_bes 1 0 ++ put_varint tsd ++ put_varint i ++ pw_vnb (i_key r) ++ pw_vnb (i_val r) ++
  put_varint (zlen (i_hdrs r)) ++
  concat (map (fun h => put_varint (zlen (fst h)) ++ fst h ++ pw_vnb (snd h)) (i_hdrs r)).

(* maxTimestamp starts at 0 and is raised by [t > maxTimestamp] *)
Definition max_ts (now : Z) (rs : list irec) : Z :=
  fold_left (fun m r => let t := pts now (i_ns r) in if m <? t then t else m) rs 0.

(* RecordSet.WriteTo with Version 2.  None = ErrNoRecord. *)
Definition proto_v2 (attrs now : Z) (rs : list irec) : option (list N) :=
  match rs with
  | [] => None
  | r0 :: _ =>
    let first := pts now (i_ns r0) in
    let raw := concat (mapi_from (proto_record now first) 0 rs) in
    let c := codec_of attrs in
    let payload := if codec_known c then comp c raw else raw in
    let n := zlen rs in
    let tail := put_bes 2 attrs ++ put_bes 4 (n - 1) ++ put_bes 8 first ++ put_bes 8 (max_ts now rs) ++
                put_bes 8 (-1) ++ put_bes 2 (-1) ++ put_bes 4 (-1) ++ put_bes 4 n ++ payload in
    let total := 61 + zlen payload in
    Some (put_bes 4 total ++
          put_bes 8 0 ++ put_bes 4 (total - 12) ++ put_bes 4 (-1) ++ put_bes 1 2 ++ put_be 4 (crc32c tail) ++ tail)
  end.

Definition proto_message (i attrs t : Z) (k v : obytes) : list N :=
  let body := put_bes 1 1 ++ put_bes 1 attrs ++ put_bes 8 t ++ pw_nb k ++ pw_nb v in
  put_bes 8 i ++ put_bes 4 (4 + zlen body) ++ put_be 4 (crc32_ieee body) ++ body.
Definition proto_messages (attrs now : Z) (rs : list irec) : list N :=
  concat (mapi_from (fun i r => proto_message i attrs (pts now (i_ns r)) (i_key r) (i_val r)) 0 rs).

(* RecordSet.WriteTo with Version 0 or 1 *)
Definition proto_v1 (attrs now : Z) (rs : list irec) : list N :=
  let c := codec_of attrs in
  let content :=
    if codec_known c then
      let inner := proto_messages (Z.land attrs (Z.lnot 7)) now rs in
      proto_message 0 attrs now None (Some (comp c inner))
    else proto_messages attrs now rs in
  put_bes 4 (zlen content) ++ content.

(* produce.Request.Prepare(apiVersion): the message format follows the negotiated Produce API
   version — record batches (format 2, the only one that carries headers) from v3 on, magic-1
   message sets below.  Client.Produce / Writer through the Transport at version v: *)
Definition format_of_produce_version (v : Z) : Z := if v <? 3 then 1 else 2.
Definition proto_produce (v attrs now : Z) (rs : list irec) : option (list N) :=
  if format_of_produce_version v =? 1 then Some (proto_v1 attrs now rs) else proto_v2 attrs now rs.

(* ================================================================== readers: primitives *)
(* Go's readVarInt on both paths: up to [fuel] bytes, 7 bits each, bits beyond 64 dropped *)
Fixpoint go_uvarint (fuel : nat) (bs : list N) {struct fuel} : option (N * list N) :=
  match fuel, bs with
  | S f, b :: t =>
    if (b <? 128)%N then Some (b, t)
    else match go_uvarint f t with
         | Some (v, r) => Some ((b - 128) + 128 * v, r)%N
         | None => None
         end
  | _, _ => None
  end.
Definition go_varint (fuel : nat) (bs : list N) : option (Z * list N) :=
  match go_uvarint fuel bs with Some (x, r) => Some (unzigzag (x mod M64)%N, r) | None => None end.

(* ================================================================== protocol reader *)
Inductive pout :=
| POut (recs : list orec) (err : bool)     (* records of the stream; err = ReadFrom returned an error *)
| PPanic                                    (* negative batch length / record count (make, slice bounds) *)
| PUnmodelled.                              (* a truncated message inside a compressed wrapper *)

(* one reader of the stream: its records and whether it is a *ControlBatch *)
Definition preader := (bool * list orec)%type.

Inductive pres (A : Type) := PR (a : A) (rest : list N) | PE | PP | PU.
Arguments PR {A}. Arguments PE {A}. Arguments PP {A}. Arguments PU {A}.

(* readMessage: offset, size, crc, magic, attributes, [timestamp], key, value; PE on a
   short read or a CRC mismatch.  What is consumed is what was read, not 12+size. *)
Definition p_read_message (bs : list N) : option (Z * Z * Z * obytes * obytes * list N) :=
  match get_i 8 bs with
  | Some (off, r0) =>
    match get_i 4 r0 with
    | Some (size, r1) =>
      (* md.remain = size limits the following reads *)
      match get_u 4 r1 with
      | Some (crc, r2) =>
        match get_i 1 r2 with
        | Some (magic, r3) =>
          match get_i 1 r3 with
          | Some (attrs, r4) =>
            match (if magic =? 0 then Some (0, r4) else get_i 8 r4) with
            | Some (ts, r5) =>
              match get_i 4 r5 with
              | Some (kl, r6) =>
                match (if kl <? 0 then Some (None, r6)
                       else match take (Z.to_nat kl) r6 with Some (k, r) => Some (Some k, r) | None => None end) with
                | Some (k, r7) =>
                  match get_i 4 r7 with
                  | Some (vl, r8) =>
                    match (if vl <? 0 then Some (None, r8)
                           else match take (Z.to_nat vl) r8 with Some (v, r) => Some (Some v, r) | None => None end) with
                    | Some (v, r9) =>
                      let consumed := (length r2 - length r9)%nat in
                      if (size - 4 <? Z.of_nat consumed) then None      (* reads beyond md.remain fail *)
                      else if (crc =? w32 (crc32_ieee (firstn consumed r2)))%N then Some (off, attrs, ts, k, v, r9)
                      else None
                    | None => None
                    end
                  | None => None
                  end
                | None => None
                end
              | None => None
              end
            | None => None
            end
          | None => None
          end
        | None => None
        end
      | None => None
      end
    | None => None
    end
  | None => None
  end.

Definition mk_rec (off ts : Z) (k v : obytes) (h : list header) : orec :=
  {| o_off := off; o_ts := ts; o_key := k; o_val := v; o_hdrs := h |}.

Section Readers.
Variable decomp' : N -> list N -> list N.

(* the loop over the decompressed inner messages of a wrapper *)
Fixpoint p_inner (fuel : nat) (bs : list N) (acc : list orec) {struct fuel} : option (option (list orec)) :=
  (* Some (Some recs) ok; Some None = error (crc mismatch); None = unmodelled *)
  match bs with
  | [] => Some (Some (rev acc))
  | _ =>
    match fuel with
    | O => None
    | S f =>
      match p_read_message bs with
      | Some (off, _, ts, k, v, rest) => p_inner f rest (mk_rec off ts k v [] :: acc)
      | None => None
      end
    end
  end.

(* the wrapper carries the absolute offset of its last inner message; the inner offsets are
   relative (and need not be contiguous after log compaction) *)
Definition rebase (base : Z) (recs : list orec) : list orec :=
  match rev recs with
  | [] => recs
  | lr :: _ =>
    if base =? 0 then recs
    else let last := o_off lr in
         map (fun r => mk_rec (base - (last - o_off r)) (o_ts r) (o_key r) (o_val r) (o_hdrs r)) recs
  end.

(* readFromVersion1 *)
Definition p_read_v1 (bs : list N) : pres (option preader) :=
  match p_read_message bs with
  | None => PE
  | Some (off, attrs, ts, k, v, rest) =>
    let c := codec_of attrs in
    if (c =? 0)%N then PR (Some (false, [mk_rec off ts k v []])) rest
    else match v with
         | None => PR (Some (false, [])) rest
         | Some vb =>
           if negb (codec_known c) then PE
           else let inner := decomp' c vb in
                match p_inner (length inner) inner [] with
                | Some (Some recs) => PR (Some (false, rebase off recs)) rest
                | Some None => PE
                | None => PU
                end
         end
  end.

(* one record of a v2 batch from the decompressed buffer; None = dec.err (truncate here) *)
Definition p_vbytes_skip (bs : list N) : option (obytes * list N) :=
  match go_varint 11 bs with
  | Some (n, r) =>
    if n <? 0 then Some (None, r)
    else match take (Z.to_nat n) r with Some (b, r') => Some (Some b, r') | None => None end
  | None => None
  end.
Definition p_hdr (bs : list N) : option (header * list N) :=
  match go_varint 11 bs with
  | Some (n, r) =>
    match (if n <? 0 then Some ([], r) else take (Z.to_nat n) r) with
    | Some (k, r1) =>
      match p_vbytes_skip r1 with Some (v, r2) => Some ((k, v), r2) | None => None end
    | None => None
    end
  | None => None
  end.
Fixpoint p_hdrs (n : nat) (bs : list N) {struct n} : option (list header * list N) :=
  match n with
  | O => Some ([], bs)
  | S n' =>
    match p_hdr bs with
    | Some (h, r) => match p_hdrs n' r with Some (hs, r') => Some (h :: hs, r') | None => None end
    | None => None
    end
  end.
Definition p_record (base first : Z) (bs : list N) : option (orec * list N) :=
  match go_varint 11 bs with
  | Some (_, r0) =>
    match get_i 1 r0 with
    | Some (_, r1) =>
      match go_varint 11 r1 with
      | Some (tsd, r2) =>
        match go_varint 11 r2 with
        | Some (offd, r3) =>
          match p_vbytes_skip r3 with
          | Some (k, r4) =>
            match p_vbytes_skip r4 with
            | Some (v, r5) =>
              match go_varint 11 r5 with
              | Some (nh, r6) =>
                match (if 0 <? nh then p_hdrs (Z.to_nat nh) r6 else Some ([], r6)) with
                | Some (hs, r7) => Some (mk_rec (wrap64 (base + offd)) (wrap64 (first + tsd)) k v hs, r7)
                | None => None
                end
              | None => None
              end
            | None => None
            end
          | None => None
          end
        | None => None
        end
      | None => None
      end
    | None => None
    end
  | None => None
  end.
(* records parsed, and whether the loop stopped on dec.err *)
Fixpoint p_records (n : nat) (base first : Z) (bs : list N) {struct n} : list orec * bool :=
  match n with
  | O => ([], false)
  | S n' =>
    match p_record base first bs with
    | Some (r, rest) => let (rs, e) := p_records n' base first rest in (r :: rs, e)
    | None => ([], true)
    end
  end.

(* readFromVersion2 after the CRC field: attributes .. records.  [crc_ok] = the stored CRC
   equals the CRC-32C the decoder accumulated over attributes..end of the batch *)
Definition p_batch_tail (base : Z) (crc_ok : bool) (tail rest : list N) : pres (option preader) :=
  match get_i 2 tail with
  | Some (attrs, t1) =>
    match take 34 t1 with                                  (* lastOffsetDelta, first, max, pid, epoch, seq *)
    | Some (mid, t2) =>
      let first := get_bes 8 (firstn 8 (skipn 4 mid)) in
      match get_i 4 t2 with
      | Some (cnt, payload) =>
        let c := codec_of attrs in
        if negb (c =? 0)%N && negb (codec_known c) then PE
        else
          let raw := if (c =? 0)%N then payload else decomp' c payload in
          if negb crc_ok then PE
          else if cnt <? 0 then PP
          else
            let (recs, e) := p_records (Z.to_nat cnt) base first raw in
            match recs, e with
            | [], true => PE
            | _, _ => PR (Some (is_control attrs, recs)) rest
            end
      | None => PE
      end
    | None => PE
    end
  | None => PE
  end.

(* readFromVersion2 on the bytes that remain in the set *)
Definition p_read_v2 (bs : list N) : pres (option preader) :=
  match get_i 8 bs with
  | Some (base, r0) =>
    match get_i 4 r0 with
    | Some (blen', r1) =>
      if Z.of_nat (length r1) <? blen' then PR None []            (* truncated batch: discardAll, nothing *)
      else if blen' <? 0 then PP
      else
        match take (Z.to_nat blen') r1 with
        | Some (body, rest) =>
          match take 9 body with                                     (* leader epoch, magic, crc *)
          | Some (pre, tail) =>
            p_batch_tail base (get_be (skipn 5 pre) 0%N =? w32 (crc32c tail))%N tail rest
          | None => PE
          end
        | None => PE
        end
    | None => PE
    end
  | None => PE
  end.

(* the loop of ReadFrom over the [size] bytes *)
Fixpoint p_loop (fuel : nat) (bs : list N) (acc : list preader) {struct fuel} : pres (list preader * bool) :=
  match bs with
  | [] => PR (rev acc, false) []
  | _ =>
    match fuel with
    | O => PU
    | S f =>
      if (length bs <? 17)%nat then
        match acc with [] => PR ([], true) [] | _ => PR (rev acc, false) [] end
      else
        let version := nth 16 bs 0%N in
        let r := if (version <=? 1)%N then p_read_v1 bs
                 else if (version =? 2)%N then p_read_v2 bs else PE in
        match r with
        | PR (Some rd) rest => p_loop f rest (rd :: acc)
        | PR None rest => p_loop f rest acc
        | PE => PR (rev acc, true) []
        | PP => PP
        | PU => PU
        end
    end
  end.

Definition proto_read (bs : list N) : pout :=
  match get_i 4 bs with
  | None => POut [] true
  | Some (size, r) =>
    if size <=? 0 then POut [] false
    else
      let data := firstn (Z.to_nat size) r in
      match p_loop (S (length data)) data [] with
      | PR (readers, e) _ =>
        match readers with
        | [] => POut [] e
        | _ => (* errors are dropped once something was read; RecordStream hides control batches *)
          POut (flat_map (fun rd : preader => if fst rd then [] else snd rd) readers) false
        end
      | PE => POut [] true
      | PP => PPanic
      | PU => PUnmodelled
      end
  end.

(* ================================================================== messageSetReader *)
Record mhdr := { h_first : Z; h_len : Z; h_magic : Z; h_a1 : Z; h_ts1 : Z;
                 h_a2 : Z; h_lastd : Z; h_first_ts : Z; h_cnt : Z }.
Definition mhdr0 : mhdr := {| h_first := 0; h_len := 0; h_magic := 0; h_a1 := 0; h_ts1 := 0;
                              h_a2 := 0; h_lastd := 0; h_first_ts := 0; h_cnt := 0 |}.
(* one readerStack; the list's head is the current reader, its tail the parents *)
Record frame := { f_bs : list N; f_base : Z; f_count : Z; f_hdr : mhdr }.

Inductive mend := MEof | MErr | MPanic | MUnmodelled.
Inductive mres (A : Type) := MR (a : A) | ME (e : mend).
Arguments MR {A}. Arguments ME {A}.

Definition set_top (fr : frame) (st : list frame) : list frame :=
  match st with [] => [] | _ :: p => fr :: p end.

(* readHeader on the current reader: no-op while count > 0 *)
Definition m_read_header (fr : frame) : mres frame :=
  if 0 <? f_count fr then MR fr else
  match get_i 8 (f_bs fr) with
  | Some (first, r0) =>
    match get_i 4 r0 with
    | Some (len, r1) =>
      match get_i 4 r1 with
      | Some (_, r2) =>
        match get_i 1 r2 with
        | Some (magic, r3) =>
          if magic =? 0 then
            match get_i 1 r3 with
            | Some (a, r4) =>
              MR {| f_bs := r4; f_base := f_base fr; f_count := 1;
                    f_hdr := {| h_first := first; h_len := len; h_magic := 0; h_a1 := a; h_ts1 := 0;
                                h_a2 := 0; h_lastd := 0; h_first_ts := 0; h_cnt := 0 |} |}
            | None => ME MEof
            end
          else if magic =? 1 then
            match get_i 1 r3 with
            | Some (a, r4) =>
              match get_i 8 r4 with
              | Some (ts, r5) =>
                MR {| f_bs := r5; f_base := f_base fr; f_count := 1;
                      f_hdr := {| h_first := first; h_len := len; h_magic := 1; h_a1 := a; h_ts1 := ts;
                                  h_a2 := 0; h_lastd := 0; h_first_ts := 0; h_cnt := 0 |} |}
              | None => ME MEof
              end
            | None => ME MEof
            end
          else if magic =? 2 then
            match take 4 r3 with                 (* crc *)
            | Some (_, r4) =>
              match get_i 2 r4 with
              | Some (a, r5) =>
                match get_i 4 r5 with
                | Some (lastd, r6) =>
                  match get_i 8 r6 with
                  | Some (fts, r7) =>
                    match take 22 r7 with        (* lastTimestamp, producer id, epoch, base sequence *)
                    | Some (_, r8) =>
                      match get_i 4 r8 with
                      | Some (cnt, r9) =>
                        MR {| f_bs := r9; f_base := f_base fr; f_count := cnt;
                              f_hdr := {| h_first := first; h_len := len; h_magic := 2; h_a1 := 0; h_ts1 := 0;
                                          h_a2 := a; h_lastd := lastd; h_first_ts := fts; h_cnt := cnt |} |}
                      | None => ME MEof
                      end
                    | None => ME MEof
                    end
                  | None => ME MEof
                  end
                | None => ME MEof
                end
              | None => ME MEof
              end
            | None => ME MEof
            end
          else ME MErr                            (* badMagic *)
        | None => ME MEof
        end
      | None => ME MEof
      end
    | None => ME MEof
    end
  | None => ME MEof                               (* errShortRead: discard, remaining 0, io.EOF *)
  end.

(* header.compression(): None = error; Some 0 = no codec *)
Definition m_compression (h : mhdr) : option N :=
  let code := if h_magic h =? 2 then codec_of (h_a2 h) else codec_of (h_a1 h) in
  if (code =? 0)%N then Some 0%N else if codec_known code then Some code else None.

(* markRead: panics at count 0; then unwindStack pops exhausted readers that have a parent *)
Fixpoint m_unwind (st : list frame) {struct st} : list frame :=
  match st with
  | fr :: ((_ :: _) as parents) =>
    if (f_count fr =? 0) && (match f_bs fr with [] => true | _ => false end) then m_unwind parents else st
  | _ => st
  end.
Definition m_mark_read (st : list frame) : option (list frame) :=
  match st with
  | [] => None
  | fr :: p =>
    if f_count fr =? 0 then None
    else Some (m_unwind ({| f_bs := f_bs fr; f_base := f_base fr; f_count := f_count fr - 1; f_hdr := f_hdr fr |} :: p))
  end.

(* extractOffset's scan: the offset field of the last message of the decompressed set (0 when
   it is empty).  None = short read, Some None = Discard of a negative count (an error). *)
Fixpoint m_extract (fuel : nat) (bs : list N) (last : Z) {struct fuel} : option (option Z) :=
  match bs with
  | [] => Some (Some last)
  | _ =>
    match fuel with
    | O => None
    | S f =>
      match get_i 8 bs with
      | Some (off, r0) =>
        match get_i 4 r0 with
        | Some (sz, r1) =>
          if sz <? 0 then Some None
          else match take (Z.to_nat sz) r1 with Some (_, r2) => m_extract f r2 off | None => None end
        | None => None
        end
      | None => None
      end
    end
  end.

(* readBytesWith(readNewBytes): int32 n; n > remaining is a short read; n <= 0 gives nil *)
Definition m_bytes32 (bs : list N) : option (obytes * list N) :=
  match get_i 4 bs with
  | Some (n, r) =>
    if 0 <? n then match take (Z.to_nat n) r with Some (b, r') => Some (Some b, r') | None => None end
    else Some (None, r)
  | None => None
  end.
(* runFunc(readNewBytes): varint n; n <= 0 gives nil *)
Definition m_vbytes (bs : list N) : option (obytes * list N) :=
  match go_varint 10 bs with
  | Some (n, r) =>
    if 0 <? n then match take (Z.to_nat n) r with Some (b, r') => Some (Some b, r') | None => None end
    else Some (None, r)
  | None => None
  end.
Definition m_hdr (bs : list N) : option (header * list N) :=
  match go_varint 10 bs with
  | Some (n, r) =>
    match (if 0 <? n then take (Z.to_nat n) r else Some ([], r)) with
    | Some (k, r1) => match m_vbytes r1 with Some (v, r2) => Some ((k, v), r2) | None => None end
    | None => None
    end
  | None => None
  end.
Fixpoint m_hdrs (n : nat) (bs : list N) {struct n} : option (list header * list N) :=
  match n with
  | O => Some ([], bs)
  | S n' =>
    match m_hdr bs with
    | Some (h, r) => match m_hdrs n' r with Some (hs, r') => Some (h :: hs, r') | None => None end
    | None => None
    end
  end.

(* makeTime of the legacy package: t <= 0 is the zero time *)
Definition legacy_ts (t : Z) : Z := if t <=? 0 then 0 else t.

(* readMessageV1's loop *)
Fixpoint m_v1 (fuel : nat) (st : list frame) (min : Z) {struct fuel} : mres (orec * list frame) :=
  match fuel with
  | O => ME MUnmodelled
  | S f =>
    match st with
    | [] => ME MEof                                   (* readerStack == nil: errShortRead *)
    | fr :: parents =>
      match f_bs fr with
      | [] => m_v1 f parents min                      (* remain == 0: pop *)
      | _ =>
        match m_read_header fr with
        | ME e => ME e
        | MR fr1 =>
          let h := f_hdr fr1 in
          match m_compression h with
          | None => ME MErr
          | Some c =>
            if negb (c =? 0)%N then
              (* discard the key length, read the value and decompress it *)
              match take 4 (f_bs fr1) with
              | Some (_, r0) =>
                match get_i 4 r0 with
                | Some (n, r1) =>
                  if Z.of_nat (length r1) <? n then ME MEof
                  else if n <? 0 then ME MUnmodelled
                  else
                    match take (Z.to_nat n) r1 with
                    | Some (vb, r2) =>
                      let inner := decomp' c vb in
                      match m_extract (length inner) inner 0 with
                      | None => ME MEof
                      | Some None => ME MErr
                      | Some (Some lastoff) =>
                        let base := wrap64 (h_first h - lastoff) in
                        match m_mark_read ({| f_bs := r2; f_base := f_base fr1; f_count := f_count fr1; f_hdr := h |} :: parents) with
                        | None => ME MPanic
                        | Some st' =>
                          m_v1 f ({| f_bs := inner; f_base := base; f_count := 0; f_hdr := mhdr0 |} :: st') min
                        end
                      end
                    | None => ME MEof
                    end
                | None => ME MEof
                end
              | None => ME MEof
              end
            else
              let offset := wrap64 (h_first h + f_base fr1) in
              match m_bytes32 (f_bs fr1) with
              | Some (k, r0) =>
                match m_bytes32 r0 with
                | Some (v, r1) =>
                  match m_mark_read ({| f_bs := r1; f_base := f_base fr1; f_count := f_count fr1; f_hdr := h |} :: parents) with
                  | None => ME MPanic
                  | Some st' =>
                    if offset <? min then m_v1 f st' min
                    else MR (mk_rec offset (legacy_ts (h_ts1 h)) k v [], st')
                  end
                | None => ME MEof
                end
              | None => ME MEof
              end
          end
        end
      end
    end
  end.

(* one record of readMessageV2: length, attributes, timestamp delta, offset delta, key, value,
   headers; None = errShortRead somewhere on the way *)
Definition m_record (h : mhdr) (bs : list N) : option (orec * list N) :=
  match go_varint 10 bs with
  | Some (_, r0) =>
    match get_i 1 r0 with
    | Some (_, r1) =>
      match go_varint 10 r1 with
      | Some (tsd, r2) =>
        match go_varint 10 r2 with
        | Some (offd, r3) =>
          match m_vbytes r3 with
          | Some (k, r4) =>
            match m_vbytes r4 with
            | Some (v, r5) =>
              match go_varint 10 r5 with
              | Some (nh, r6) =>
                match (if 0 <? nh then m_hdrs (Z.to_nat nh) r6 else Some ([], r6)) with
                | Some (hs, r7) =>
                  Some (mk_rec (wrap64 (h_first h + offd)) (legacy_ts (wrap64 (h_first_ts h + tsd))) k v hs, r7)
                | None => None
                end
              | None => None
              end
            | None => None
            end
          | None => None
          end
        | None => None
        end
      | None => None
      end
    | None => None
    end
  | None => None
  end.

(* readMessageV2 *)
Definition m_v2 (st : list frame) : mres (orec * list frame) :=
  match st with
  | [] => ME MEof
  | fr :: parents =>
    match m_read_header fr with
    | ME e => ME e
    | MR fr1 =>
      let h := f_hdr fr1 in
      let pushed : mres (list frame) :=
        if f_count fr1 =? h_cnt h then
          match m_compression h with
          | None => ME MErr
          | Some c =>
            if (c =? 0)%N then MR (fr1 :: parents)
            else
              let brem := h_len h - 49 in
              if Z.of_nat (length (f_bs fr1)) <? brem then ME MEof
              else if brem <? 0 then ME MErr
              else match take (Z.to_nat brem) (f_bs fr1) with
                   | Some (cb, rest) =>
                     MR ({| f_bs := decomp' c cb; f_base := -1; f_count := f_count fr1; f_hdr := h |} ::
                         {| f_bs := rest; f_base := f_base fr1; f_count := 0; f_hdr := h |} :: parents)
                   | None => ME MEof
                   end
          end
        else MR (fr1 :: parents) in
      match pushed with
      | ME e => ME e
      | MR [] => ME MEof
      | MR (cur :: ps) =>
        match m_record h (f_bs cur) with
        | Some (r, r7) =>
          match m_mark_read ({| f_bs := r7; f_base := f_base cur; f_count := f_count cur; f_hdr := f_hdr cur |} :: ps) with
          | None => ME MPanic
          | Some st' => MR (r, st')
          end
        | None => ME MEof
        end
      end
    end
  end.

(* messageSetReader.readMessage *)
Definition m_next (fuel : nat) (st : list frame) (min : Z) : mres (orec * list frame) :=
  match st with
  | [] => ME MEof
  | fr :: parents =>
    match m_read_header fr with
    | ME e => ME e
    | MR fr1 =>
      let st1 := fr1 :: parents in
      if h_magic (f_hdr fr1) =? 2 then m_v2 st1 else m_v1 fuel st1 min
    end
  end.

(* Batch.ReadMessage until it fails; batch.offset = offset + 1 after each message *)
Fixpoint m_run (fuel : nat) (st : list frame) (min : Z) (acc : list orec) {struct fuel} : list orec * mend :=
  match fuel with
  | O => (rev acc, MUnmodelled)
  | S f =>
    match m_next (S f) st min with
    | MR (r, st') => m_run f st' (wrap64 (o_off r + 1)) (r :: acc)
    | ME e => (rev acc, e)
    end
  end.

(* newMessageSetReader(reader, len(bs)) then the loop; [bs] is the set without its size *)
Definition msr_read (fuel : nat) (min : Z) (bs : list N) : list orec * mend :=
  match m_read_header {| f_bs := bs; f_base := 0; f_count := 0; f_hdr := mhdr0 |} with
  | ME MEof => ([], MErr)     (* ReadBatch: errShortRead -> io.EOF -> dontExpectEOF -> ErrUnexpectedEOF *)
  | ME e => ([], e)
  | MR fr => m_run fuel [fr] min []
  end.

End Readers.
End Codec.
